/-
Helper lemmas for the header round trip of `Props/C13.lean`: tokenisation of a written line, `strip`,
decimal integers, `readlines`.
-/
import HydroVerif.Lemmas.C13

namespace HydroVerif.C13

/-- no blank (0x20) in the string -/
abbrev NoBlank (s : Str) : Prop := ∀ c ∈ s, (c == ' ') = false
/-- no python white space in the string -/
abbrev NoSpace (s : Str) : Prop := ∀ c ∈ s, isSpace c = false
/-- no line break in the string -/
abbrev NoNL (s : Str) : Prop := ∀ c ∈ s, c ≠ '\n' ∧ c ≠ '\r'

theorem NoSpace.noBlank {s : Str} (h : NoSpace s) : NoBlank s := by
  intro c hc
  have := h c hc
  simp only [isSpace, Bool.or_eq_false_iff] at this
  exact this.1.1.1.1.1

theorem NoSpace.noNL {s : Str} (h : NoSpace s) : NoNL s := by
  intro c hc
  have := h c hc
  simp only [isSpace, Bool.or_eq_false_iff] at this
  refine ⟨?_, ?_⟩
  · intro e; subst e; exact absurd this.1.1.1.2 (by decide)
  · intro e; subst e; exact absurd this.1.1.2 (by decide)

theorem oneLineAux_noNL (b : Bool) (s : Str) : NoNL (oneLineAux b s) := by
  induction s generalizing b with
  | nil => intro c hc; simp [oneLineAux] at hc
  | cons c s ih =>
    unfold oneLineAux
    split
    · split
      · exact ih true
      · intro x hx
        rcases List.mem_cons.mp hx with rfl | h
        · exact ⟨by decide, by decide⟩
        · exact ih true x h
    · rename_i hc
      intro x hx
      rcases List.mem_cons.mp hx with rfl | h
      · simp only [Bool.or_eq_true, beq_iff_eq, not_or] at hc
        exact hc
      · exact ih false x h

/-- whatever the text, what `save` writes for it has no line break -/
theorem oneLine_noNL (s : Str) : NoNL (oneLine s) := oneLineAux_noNL false s

/-! ### tokens -/

theorem splitRunsAux_ne_nil (b : Bool) (s : Str) : splitRunsAux b s ≠ [] := by
  induction s generalizing b with
  | nil => simp [splitRunsAux]
  | cons c s ih =>
    unfold splitRunsAux
    split
    · split
      · exact ih true
      · simp
    · split <;> simp

/-- a blank-free prefix followed by a blank is the first token -/
theorem splitRunsAux_token (k rest : Str) (hk : NoBlank k) :
    splitRunsAux false (k ++ ' ' :: rest) = k :: splitRunsAux true rest := by
  induction k with
  | nil => simp [splitRunsAux]
  | cons c k ih =>
    have hc : (c == ' ') = false := hk c (by simp)
    have hk' : NoBlank k := fun x hx => hk x (by simp [hx])
    simp only [List.cons_append, splitRunsAux, hc, Bool.false_eq_true, if_false, ih hk']

/-- blanks inside a run are skipped -/
theorem splitRunsAux_skip (m : Nat) (rest : Str) :
    splitRunsAux true (List.replicate m ' ' ++ rest) = splitRunsAux true rest := by
  induction m with
  | zero => rfl
  | succ m ih => simp [List.replicate_succ, splitRunsAux, ih]

/-- a blank-free string is one token -/
theorem splitRunsAux_single (s : Str) (hs : NoBlank s) (b : Bool) : splitRunsAux b s = [s] := by
  induction s generalizing b with
  | nil => rfl
  | cons c s ih =>
    have hc : (c == ' ') = false := hs c (by simp)
    have hs' : NoBlank s := fun x hx => hs x (by simp [hx])
    simp only [splitRunsAux, hc, Bool.false_eq_true, if_false, ih hs' false]

theorem replicate_append_cons {β : Type} (m : Nat) (a : β) (t : List β) :
    List.replicate m a ++ a :: t = a :: (List.replicate m a ++ t) := by
  induction m with
  | zero => rfl
  | succ m ih => simp [List.replicate_succ, ih]

theorem fmtLine_eq (w : Nat) (key val : Str) :
    fmtLine w key val = key ++ ' ' :: (List.replicate (w - key.length) ' ' ++ (val ++ ['\n'])) := by
  unfold fmtLine ljust
  rw [List.append_assoc, replicate_append_cons]

/-- the first token of a written line is its key -/
theorem splitRuns_fmtLine_head (w : Nat) (key val : Str) (hk : NoBlank key) :
    splitRuns (fmtLine w key val) = key :: splitRunsAux true (val ++ ['\n']) := by
  unfold splitRuns
  rw [fmtLine_eq, splitRunsAux_token _ _ hk, splitRunsAux_skip]

/-- a written line whose value is one token splits into exactly key and value -/
theorem splitRuns_fmtLine (w : Nat) (key val : Str) (hk : NoBlank key) (hv : NoBlank val) :
    splitRuns (fmtLine w key val) = [key, val ++ ['\n']] := by
  rw [splitRuns_fmtLine_head w key val hk, splitRunsAux_single]
  intro c hc
  rcases List.mem_append.mp hc with h | h
  · exact hv c h
  · simp at h; subst h; decide

/-! ### strip -/

theorem strip_token_nl (v : Str) (hv : NoSpace v) : strip (v ++ ['\n']) = v := by
  unfold strip lstrip rstrip
  cases v with
  | nil => simp [isSpace]
  | cons c v =>
    have hc : isSpace c = false := hv c (by simp)
    have h1 : List.dropWhile isSpace (c :: v ++ ['\n']) = c :: v ++ ['\n'] := by
      simp [hc]
    rw [h1]
    have h2 : (c :: v ++ ['\n']).reverse = '\n' :: (c :: v).reverse := by simp
    rw [h2]
    have hnl : isSpace '\n' = true := by decide
    rw [List.dropWhile_cons_of_pos hnl]
    -- the reversed token starts with a non-space character
    have hne : (c :: v).reverse ≠ [] := by simp
    obtain ⟨d, r, hdr⟩ : ∃ d r, (c :: v).reverse = d :: r := by
      cases h : (c :: v).reverse with
      | nil => exact absurd h hne
      | cons d r => exact ⟨d, r, rfl⟩
    have hd : isSpace d = false := by
      apply hv d
      have : d ∈ (c :: v).reverse := by rw [hdr]; simp
      exact List.mem_reverse.mp this
    rw [hdr, List.dropWhile_cons_of_neg (by simp [hd]), ← hdr]
    simp

theorem dropWhile_noSpace (v : Str) (hv : NoSpace v) : v.dropWhile isSpace = v := by
  cases v with
  | nil => rfl
  | cons c v => rw [List.dropWhile_cons_of_neg (by simp [hv c (by simp)])]

theorem strip_noSpace (v : Str) (hv : NoSpace v) : strip v = v := by
  unfold strip lstrip rstrip
  rw [dropWhile_noSpace v hv, dropWhile_noSpace v.reverse (fun c hc => hv c (List.mem_reverse.mp hc))]
  simp

/-! ### decimal integers -/

theorem natStr_isDigit (n : Nat) : ∀ c ∈ natStr n, c.isDigit = true :=
  fun _ hc => Nat.isDigit_of_mem_toDigits (by decide) (by decide) hc

theorem natStr_ne_nil (n : Nat) : natStr n ≠ [] := Nat.toDigits_ne_nil

theorem isSpace_of_isDigit {c : Char} (h : c.isDigit = true) : isSpace c = false := by
  cases hs : isSpace c with
  | false => rfl
  | true =>
    simp only [isSpace, Bool.or_eq_true, beq_iff_eq] at hs
    rcases hs with ((((rfl | rfl) | rfl) | rfl) | rfl) | rfl <;> exact absurd h (by decide)

theorem parseNat?_natStr (n : Nat) : parseNat? (natStr n) = some n := by
  unfold parseNat?
  rw [if_pos ⟨natStr_ne_nil n, List.all_eq_true.mpr (natStr_isDigit n)⟩]
  simp [natStr]

theorem natStr_noSpace (n : Nat) : NoSpace (natStr n) :=
  fun c hc => isSpace_of_isDigit (natStr_isDigit n c hc)

theorem intStr_natCast (n : Nat) : intStr (n : Int) = natStr n := by
  unfold intStr
  rw [if_neg (by omega)]
  simp

theorem parseInt?_natStr (n : Nat) : parseInt? (natStr n) = some (n : Int) := by
  obtain ⟨d, r, hdr⟩ : ∃ d r, natStr n = d :: r := by
    cases h : natStr n with
    | nil => exact absurd h (natStr_ne_nil n)
    | cons d r => exact ⟨d, r, rfl⟩
  have hd : d.isDigit = true := natStr_isDigit n d (by rw [hdr]; simp)
  have h1 : d ≠ '-' := by rintro rfl; exact absurd hd (by decide)
  have h2 : d ≠ '+' := by rintro rfl; exact absurd hd (by decide)
  have hp := parseNat?_natStr n
  rw [hdr] at hp ⊢
  unfold parseInt?
  split
  · rename_i heq; simp at heq; exact absurd heq.1 h1
  · rename_i heq; simp at heq; exact absurd heq.1 h2
  · rw [hp]; rfl

theorem parseInt?_intStr (i : Int) : parseInt? (intStr i) = some i := by
  unfold intStr
  split
  · rename_i h
    simp [parseInt?, parseNat?_natStr]
    rw [abs_of_neg h]; simp
  · rename_i h
    rw [parseInt?_natStr]
    congr 1; omega

theorem intStr_noSpace (i : Int) : NoSpace (intStr i) := by
  unfold intStr
  split
  · intro c hc
    rcases List.mem_cons.mp hc with rfl | h
    · decide
    · exact natStr_noSpace _ c h
  · exact natStr_noSpace _

/-! ### lines -/

theorem readlinesAux_step (cur s : Str) (c : Char) (h1 : c ≠ '\n') (h2 : c ≠ '\r') :
    readlinesAux cur (c :: s) = readlinesAux (c :: cur) s := by
  rw [readlinesAux]
  · intro h; exact h1 h
  · intro s' h; exact absurd h h2
  · intro h; exact h2 h

theorem readlinesAux_line (cur l rest : Str) (hl : NoNL l) :
    readlinesAux cur (l ++ '\n' :: rest) = (cur.reverse ++ l ++ ['\n']) :: readlinesAux [] rest := by
  induction l generalizing cur with
  | nil => simp [readlinesAux]
  | cons c l ih =>
    have hc := hl c (by simp)
    have hl' : NoNL l := fun x hx => hl x (by simp [hx])
    rw [List.cons_append, readlinesAux_step _ _ _ hc.1 hc.2, ih _ hl']
    simp

/-- a written line is read back as one line -/
theorem readlines_fmtLine (w : Nat) (key val rest : Str) (hk : NoNL key) (hv : NoNL val) :
    readlines (fmtLine w key val ++ rest) = fmtLine w key val :: readlines rest := by
  unfold readlines
  have e : fmtLine w key val ++ rest = (ljust w key ++ ' ' :: val) ++ '\n' :: rest := by
    simp [fmtLine]
  rw [e, readlinesAux_line [] _ _ ?_]
  · simp [fmtLine]
  · intro c hc
    rcases List.mem_append.mp hc with h | h
    · unfold ljust at h
      rcases List.mem_append.mp h with h | h
      · exact hk c h
      · have := (List.mem_replicate.mp h).2; subst this; exact ⟨by decide, by decide⟩
    · rcases List.mem_cons.mp h with rfl | h
      · exact ⟨by decide, by decide⟩
      · exact hv c h

/-! ### one header line -/

/-- what is assumed of the external float printing / reading -/
structure IOok {ν : Type} (io : NumIO ν) : Prop where
  showF_token : ∀ x, NoSpace (io.showF x)
  read_show : ∀ x, io.readF (io.showF x) = some x

theorem parseLine_int {ν : Type} (io : NumIO ν) (c : Config ν) (w : Nat) (K : Str) (n : Int) (hK : NoBlank K)
    (htext : textKeys.contains (lower K) = false) (hint : isIntKey (lower K) = true) :
    parseLine io c (fmtLine w K (intStr n)) = .ok (c.setInt (lower K) n) := by
  unfold parseLine
  rw [splitRuns_fmtLine w K _ hK (intStr_noSpace n).noBlank]
  simp only [List.headD_cons, htext, Bool.false_eq_true, if_false, List.tail_cons,
    strip_token_nl _ (intStr_noSpace n), hint, if_true, parseInt?_intStr]

theorem parseLine_num {ν : Type} (io : NumIO ν) (hio : IOok io) (c : Config ν) (w : Nat) (K : Str) (x : ν)
    (hK : NoBlank K) (htext : textKeys.contains (lower K) = false) (hint : isIntKey (lower K) = false)
    (hnd : startsWith (lower K) "nodata".toList = false) :
    parseLine io c (fmtLine w K (io.showF x)) = .ok (c.setNum (lower K) x) := by
  unfold parseLine
  rw [splitRuns_fmtLine w K _ hK (hio.showF_token x).noBlank]
  simp only [List.headD_cons, htext, Bool.false_eq_true, if_false, List.tail_cons,
    strip_token_nl _ (hio.showF_token x), hint, hnd, hio.read_show]

theorem parseLine_text {ν : Type} (io : NumIO ν) (c : Config ν) (w : Nat) (K v : Str)
    (hK : NoBlank K) (htext : textKeys.contains (lower K) = true) :
    parseLine io c (fmtLine w K v) =
      .ok (c.setText (lower K) (lower (strip (joinSp (splitRunsAux true (v ++ ['\n'])))))) := by
  unfold parseLine
  rw [splitRuns_fmtLine_head w K _ hK]
  simp only [List.headD_cons, htext, if_true, List.tail_cons]


theorem parseLine_nodata_int {ν : Type} (io : NumIO ν) (c : Config ν) (w : Nat) (K : Str) (n : Int)
    (hK : NoBlank K) (htext : textKeys.contains (lower K) = false) (hint : isIntKey (lower K) = false)
    (hnd : startsWith (lower K) "nodata".toList = true) :
    parseLine io c (fmtLine w K (intStr n)) = .ok (c.setNodata (lower K) (.int n)) := by
  unfold parseLine
  rw [splitRuns_fmtLine w K _ hK (intStr_noSpace n).noBlank]
  simp only [List.headD_cons, htext, Bool.false_eq_true, if_false, List.tail_cons,
    strip_token_nl _ (intStr_noSpace n), hint, hnd, if_true, parseInt?_intStr]

theorem parseLine_nodata_float {ν : Type} (io : NumIO ν) (c : Config ν) (w : Nat) (K s : Str) (y : ν)
    (hK : NoBlank K) (htext : textKeys.contains (lower K) = false) (hint : isIntKey (lower K) = false)
    (hnd : startsWith (lower K) "nodata".toList = true)
    (hs : NoSpace s) (hni : parseInt? s = none) (hr : io.readF s = some y) :
    parseLine io c (fmtLine w K s) = .ok (c.setNodata (lower K) (.num y)) := by
  unfold parseLine
  rw [splitRuns_fmtLine w K _ hK hs.noBlank]
  simp only [List.headD_cons, htext, Bool.false_eq_true, if_false, List.tail_cons,
    strip_token_nl _ hs, hint, hnd, if_true, hni, hr]

/-- a `PARENTGRID_…` line, whatever its value, is accepted and touches nothing but the parent attributes -/
theorem parseLine_parent {ν : Type} (io : NumIO ν) (c : Config ν) (w : Nat) (K v : Str)
    (hK : NoBlank K) (htext : textKeys.contains (lower K) = false)
    (hp : startsWith (lower K) "parent".toList = true) (hnd : startsWith (lower K) "nodata".toList = false) :
    ∃ p, parseLine io c (fmtLine w K v) = .ok { c with parent := p } := by
  unfold parseLine
  rw [splitRuns_fmtLine_head w K _ hK]
  simp only [List.headD_cons, htext, Bool.false_eq_true, if_false, List.tail_cons]
  obtain ⟨t1, ts, hts⟩ : ∃ t1 ts, splitRunsAux true (v ++ ['\n']) = t1 :: ts := by
    cases h : splitRunsAux true (v ++ ['\n']) with
    | nil => exact absurd h (splitRunsAux_ne_nil _ _)
    | cons t1 ts => exact ⟨t1, ts, rfl⟩
  rw [hts]
  simp only [hnd, Bool.false_eq_true, if_false]
  split
  · split
    · rename_i n _; exact ⟨dictSet c.parent (lower K) (.int n), by simp only [Config.setInt, hp, if_true]⟩
    · exact ⟨c.parent, rfl⟩
  · split
    · rename_i x _; exact ⟨dictSet c.parent (lower K) (.num x), by simp only [Config.setNum, hp, if_true]⟩
    · exact ⟨c.parent, rfl⟩

/-! ### the whole header -/

theorem parseLines_step {ν : Type} (io : NumIO ν) (c c' : Config ν) (l : Str) (ls : List Str)
    (h : parseLine io c l = .ok c') : parseLines io c (l :: ls) = parseLines io c' ls := by
  simp only [parseLines, h]

/-- the `PARENTGRID_…` lines written for the attributes `as` -/
def parentBlock {ν : Type} (io : NumIO ν) (parent : List (Str × PVal ν)) (as : List Str) : Str :=
  as.flatMap fun a =>
    match lookup parent a with
    | some v => fmtLine 22 (upper a) (v.str io)
    | none => []

structure ParentKeyOK (a : Str) : Prop where
  noBlank : NoBlank (upper a)
  noNL : NoNL (upper a)
  notText : textKeys.contains (lower (upper a)) = false
  isParent : startsWith (lower (upper a)) "parent".toList = true
  notNodata : startsWith (lower (upper a)) "nodata".toList = false

theorem parentAttrs_ok : ∀ a ∈ parentAttrs, ParentKeyOK a := by
  intro a ha
  simp only [parentAttrs, List.map_cons, List.map_nil, List.mem_cons, List.not_mem_nil, or_false] at ha
  rcases ha with rfl | rfl | rfl | rfl | rfl | rfl | rfl | rfl <;>
    exact ⟨by decide, by decide, by decide, by decide, by decide⟩

theorem parseLines_parentBlock {ν : Type} (io : NumIO ν) (parent : List (Str × PVal ν))
    (as : List Str) (hv : ∀ a ∈ as, ∀ v, lookup parent a = some v → NoNL (v.str io)) (has : ∀ a ∈ as, ParentKeyOK a)
    (c : Config ν) :
    ∃ p, parseLines io c (readlines (parentBlock io parent as)) = .ok { c with parent := p } := by
  induction as generalizing c with
  | nil => exact ⟨c.parent, rfl⟩
  | cons a as ih =>
    have hok := has a (by simp)
    have has' : ∀ x ∈ as, ParentKeyOK x := fun x hx => has x (by simp [hx])
    have hv' : ∀ x ∈ as, ∀ v, lookup parent x = some v → NoNL (v.str io) := fun x hx => hv x (by simp [hx])
    unfold parentBlock
    rw [List.flatMap_cons]
    cases hl : lookup parent a with
    | none => simpa [parentBlock] using ih hv' has' c
    | some v =>
      simp only
      rw [readlines_fmtLine 22 _ _ _ hok.noNL (hv a (by simp) v hl)]
      obtain ⟨p, hp⟩ := parseLine_parent io c 22 (upper a) (v.str io) hok.noBlank hok.notText hok.isParent hok.notNodata
      rw [parseLines_step io c _ _ _ hp]
      obtain ⟨p', hp'⟩ := ih hv' has' { c with parent := p }
      exact ⟨p', hp'⟩

/-! ### tables and the no-data line -/

def pixOf : Kind → Str
  | .int => "signedint".toList | .uint => "unsignedint".toList | .float => "float".toList

theorem pixel_table : ∀ t ∈ allDTypes,
    pixelTypeOfName (stripTrailingDigits (dtypeName t)) = some (pixOf t.kind) ∧
    lower (strip (joinSp (splitRunsAux true (upper (pixOf t.kind) ++ ['\n'])))) = pixOf t.kind ∧
    dtypeOfStr ('<' :: (pixelSub (pixOf t.kind) ++ intStr (Int.fdiv ((t.bytes * 8 : Nat) : Int) 8))) = some (.little, t) ∧
    dtypeOfStr ('>' :: (pixelSub (pixOf t.kind) ++ intStr (Int.fdiv ((t.bytes * 8 : Nat) : Int) 8))) = some (.big, t) := by
  decide

/-- the value `from_stream` stores for the BYTEORDER letter -/
def boKey : ByteOrder → Str
  | .big => "m".toList
  | .little => "i".toList

theorem byteorder_line (bo : ByteOrder) :
    lower (strip (joinSp (splitRunsAux true (boLetter bo ++ ['\n'])))) = boKey bo := by
  cases bo <;> decide


/-- the no-data value survives printing and reading. For the integer types this is proved; for the float types it is
the external fact `floatN(float(str(s))) == s` plus "a float never prints as an integer literal" -/
def NodataPrintable {ν : Type} (io : NumIO ν) (t : DType) (w : Nat) : Prop :=
  t.kind = .float → NoSpace (io.showW t w) ∧ parseInt? (io.showW t w) = none ∧
    ∃ y, io.readF (io.showW t w) = some y ∧ io.castW t y = some w

structure HeaderOK {ν : Type} (io : NumIO ν) (g : Grid ν) : Prop where
  supported : g.dtype ∈ allDTypes
  nodata_lt : g.nodata < wordBound g.dtype
  nrows_nonneg : 0 ≤ g.nrows
  ncols_nonneg : 0 ≤ g.ncols
  /-- a text-valued attribute among those `save` writes (none is created by this module: `set_parent_attributes` stores
  numbers under these eight names; the parent's NAME is not written) is a single line -/
  parent_text : ∀ a ∈ parentAttrs, ∀ s, lookup g.parent a = some (.text s) → NoNL s
  nodata_printable : NodataPrintable io g.dtype g.nodata

theorem nodata_line {ν : Type} (io : NumIO ν) (c : Config ν) (t : DType) (w : Nat) (hw : w < wordBound t)
    (hp : NodataPrintable io t w) :
    ∃ v, parseLine io c (fmtLine 14 "NODATA_VALUE".toList (nodataStr io t w)) = .ok (c.setNodata "nodata_value".toList v) ∧
      nodataWord io t v = .ok w ∧ NoNL (nodataStr io t w) := by
  unfold nodataStr
  cases hk : t.kind with
  | float =>
    obtain ⟨h1, h2, y, h3, h4⟩ := hp hk
    refine ⟨.num y, ?_, ?_, h1.noNL⟩
    · exact parseLine_nodata_float io c 14 _ _ y (by decide) (by decide) (by decide) (by decide) h1 h2 h3
    · simp only [nodataWord, h4]
  | int =>
    refine ⟨.int (toInt t w), ?_, ?_, (intStr_noSpace _).noNL⟩
    · exact parseLine_nodata_int io c 14 _ _ (by decide) (by decide) (by decide) (by decide)
    · simp only [nodataWord, hk, intInRange_toInt t w hw, if_true, ofInt_toInt t w hw]
  | uint =>
    refine ⟨.int (toInt t w), ?_, ?_, (intStr_noSpace _).noNL⟩
    · exact parseLine_nodata_int io c 14 _ _ (by decide) (by decide) (by decide) (by decide)
    · simp only [nodataWord, hk, intInRange_toInt t w hw, if_true, ofInt_toInt t w hw]


section SetLemmas
variable {ν : Type} (c : Config ν)
theorem setInt_nrows (n : Int) : c.setInt "nrows".toList n = { c with nrows := some n } := by
  unfold Config.setInt; rw [if_neg (by decide), if_pos rfl]
theorem setInt_ncols (n : Int) : c.setInt "ncols".toList n = { c with ncols := some n } := by
  unfold Config.setInt; rw [if_neg (by decide), if_neg (by decide), if_pos rfl]
theorem setInt_nbits (n : Int) : c.setInt "nbits".toList n = { c with nbits := n } := by
  unfold Config.setInt; rw [if_neg (by decide), if_neg (by decide), if_neg (by decide), if_pos rfl]
theorem setNum_xll (x : ν) : c.setNum "xllcorner".toList x = { c with xll := x } := by
  unfold Config.setNum; rw [if_neg (by decide), if_pos rfl]
theorem setNum_yll (x : ν) : c.setNum "yllcorner".toList x = { c with yll := x } := by
  unfold Config.setNum; rw [if_neg (by decide), if_neg (by decide), if_pos rfl]
theorem setNum_csz (x : ν) : c.setNum "cellsize".toList x = { c with csz := x } := by
  unfold Config.setNum; rw [if_neg (by decide), if_neg (by decide), if_neg (by decide), if_pos rfl]
theorem setText_pixeltype (v : Str) : c.setText "pixeltype".toList v = { c with pixeltype := v } := by
  unfold Config.setText; rw [if_pos rfl]
theorem setText_byteorder (v : Str) : c.setText "byteorder".toList v = { c with byteorder := v } := by
  unfold Config.setText; rw [if_neg (by decide), if_pos rfl]
theorem setText_comment (v : Str) : c.setText "comment".toList v = { c with comment := v } := by
  unfold Config.setText; rw [if_neg (by decide), if_neg (by decide), if_pos rfl]
theorem setText_name (v : Str) : c.setText "name".toList v = { c with name := v } := by
  unfold Config.setText; rw [if_neg (by decide), if_neg (by decide), if_neg (by decide), if_pos rfl]
theorem setNodata_value (v : NVal ν) : c.setNodata "nodata_value".toList v = { c with nodataValue := some v } := by
  unfold Config.setNodata; rw [if_neg (by decide), if_pos rfl]
end SetLemmas

/-- a grid as the property quantifies over it: admissible header fields, an `nrows × ncols` array of words of the
grid's dtype (any `mindata/maxdata`) -/
structure GridOK {ν : Type} (io : NumIO ν) (g : Grid ν) : Prop where
  header : HeaderOK io g
  rows : (g.data.length : Int) = g.nrows
  cols : ∀ r ∈ g.data, (r.length : Int) = g.ncols
  words : ∀ r ∈ g.data, ∀ w ∈ r, w < wordBound g.dtype


/-! ### edits between exports -/

theorem setFlat_length (rows : List (List Nat)) (idx w : Nat) : (setFlat rows idx w).length = rows.length := by
  induction rows generalizing idx with
  | nil => rfl
  | cons r rs ih =>
    unfold setFlat
    split
    · simp
    · simp [ih]

theorem setFlat_rows (rows : List (List Nat)) (idx w : Nat) (P : List Nat → Prop)
    (hP : ∀ r ∈ rows, P r) (hset : ∀ r i, P r → P (r.set i w)) : ∀ r ∈ setFlat rows idx w, P r := by
  induction rows generalizing idx with
  | nil => intro r hr; simp [setFlat] at hr
  | cons r0 rs ih =>
    have h0 := hP r0 (by simp)
    have hrs : ∀ r ∈ rs, P r := fun r hr => hP r (by simp [hr])
    unfold setFlat
    split
    · intro r hr
      rcases List.mem_cons.mp hr with rfl | h
      · exact hset _ _ h0
      · exact hrs r h
    · intro r hr
      rcases List.mem_cons.mp hr with rfl | h
      · exact h0
      · exact ih _ hrs r h

/-- an edit the property's quantifier allows on grid `g`: words of the grid's dtype, arrays of the grid's shape,
a no-data value representable (and printable) in the dtype; anything for name, comment and georeferencing -/
def EditOK {ν : Type} (io : NumIO ν) (g : Grid ν) : Edit ν → Prop
  | .item _ w => w < wordBound g.dtype
  | .fill w => w < wordBound g.dtype
  | .data rows => g.lo = none ∧ g.hi = none ∧ (rows.length : Int) = g.nrows ∧ (∀ r ∈ rows, (r.length : Int) = g.ncols) ∧
      ∀ r ∈ rows, ∀ w ∈ r, w < wordBound g.dtype
  | .nodata w => w < wordBound g.dtype ∧ NodataPrintable io g.dtype w
  | _ => True

/-- what edits never change -/
def SameFrame {ν : Type} (g g' : Grid ν) : Prop :=
  g'.dtype = g.dtype ∧ g'.nrows = g.nrows ∧ g'.ncols = g.ncols ∧ g'.lo = g.lo ∧ g'.hi = g.hi ∧ g'.parent = g.parent

theorem editOK_frame {ν : Type} (io : NumIO ν) (g g' : Grid ν) (h : SameFrame g g') (e : Edit ν) (he : EditOK io g e) :
    EditOK io g' e := by
  obtain ⟨h1, h2, h3, h4, h5, _⟩ := h
  cases e <;> simp only [EditOK, h1, h2, h3, h4, h5] at he ⊢ <;> exact he

theorem applyEdit_ok {ν : Type} (io : NumIO ν) (g : Grid ν) (hg : GridOK io g) (e : Edit ν) (he : EditOK io g e) :
    ∃ g', applyEdit g e = .ok g' ∧ GridOK io g' ∧ SameFrame g g' := by
  obtain ⟨hh, hr, hc, hw⟩ := hg
  cases e with
  | item idx w =>
    refine ⟨_, rfl, ⟨⟨hh.supported, hh.nodata_lt, hh.nrows_nonneg, hh.ncols_nonneg, hh.parent_text, hh.nodata_printable⟩, ?_, ?_, ?_⟩,
      rfl, rfl, rfl, rfl, rfl, rfl⟩
    · show ((setFlat g.data idx w).length : Int) = g.nrows
      rw [setFlat_length]; exact hr
    · exact setFlat_rows g.data idx w (fun r => (r.length : Int) = g.ncols) hc (by intro r i h; simpa using h)
    · exact setFlat_rows g.data idx w (fun r => ∀ x ∈ r, x < wordBound g.dtype) hw (by
        intro r i h x hx
        rcases List.mem_or_eq_of_mem_set hx with h1 | h1
        · exact h x h1
        · rw [h1]; exact he)
  | fill w =>
    refine ⟨_, rfl, ⟨⟨hh.supported, hh.nodata_lt, hh.nrows_nonneg, hh.ncols_nonneg, hh.parent_text, hh.nodata_printable⟩, ?_, ?_, ?_⟩,
      rfl, rfl, rfl, rfl, rfl, rfl⟩
    · show ((g.data.map fun r => r.map fun _ => w).length : Int) = g.nrows
      simpa using hr
    · intro r hrm
      obtain ⟨r0, h0, rfl⟩ := List.mem_map.mp hrm
      simpa using hc r0 h0
    · intro r hrm x hx
      obtain ⟨r0, h0, rfl⟩ := List.mem_map.mp hrm
      obtain ⟨_, _, rfl⟩ := List.mem_map.mp hx
      exact he
  | data rows =>
    obtain ⟨e1, e2, e3, e4, e5⟩ := he
    refine ⟨{ g with data := rows }, setData_id' g rows ⟨e1, e2⟩ e3 e4,
      ⟨⟨hh.supported, hh.nodata_lt, hh.nrows_nonneg, hh.ncols_nonneg, hh.parent_text, hh.nodata_printable⟩, e3, e4, e5⟩,
      rfl, rfl, rfl, rfl, rfl, rfl⟩
  | name s =>
    exact ⟨_, rfl, ⟨⟨hh.supported, hh.nodata_lt, hh.nrows_nonneg, hh.ncols_nonneg, hh.parent_text, hh.nodata_printable⟩, hr, hc, hw⟩,
      rfl, rfl, rfl, rfl, rfl, rfl⟩
  | comment s =>
    exact ⟨_, rfl, ⟨⟨hh.supported, hh.nodata_lt, hh.nrows_nonneg, hh.ncols_nonneg, hh.parent_text, hh.nodata_printable⟩, hr, hc, hw⟩,
      rfl, rfl, rfl, rfl, rfl, rfl⟩
  | georef x y c =>
    exact ⟨_, rfl, ⟨⟨hh.supported, hh.nodata_lt, hh.nrows_nonneg, hh.ncols_nonneg, hh.parent_text, hh.nodata_printable⟩, hr, hc, hw⟩,
      rfl, rfl, rfl, rfl, rfl, rfl⟩
  | nodata w =>
    exact ⟨_, rfl, ⟨⟨hh.supported, he.1, hh.nrows_nonneg, hh.ncols_nonneg, hh.parent_text, he.2⟩, hr, hc, hw⟩,
      rfl, rfl, rfl, rfl, rfl, rfl⟩


end HydroVerif.C13
