/-
Helper lemmas for the header round trip of `Props/C13.lean`: tokenisation of a written line, `strip`,
decimal integers, `readlines`.
-/
import HydroVerif.Lemmas.C13

namespace HydroVerif.C13

/-- no blank (0x20) in the string -/
def NoBlank (s : Str) : Prop := ∀ c ∈ s, (c == ' ') = false
/-- no python white space in the string -/
def NoSpace (s : Str) : Prop := ∀ c ∈ s, isSpace c = false
/-- no line break in the string -/
def NoNL (s : Str) : Prop := ∀ c ∈ s, c ≠ '\n' ∧ c ≠ '\r'

theorem NoSpace.noBlank {s : Str} (h : NoSpace s) : NoBlank s := by
  intro c hc
  have := h c hc
  simp only [isSpace, Bool.or_eq_false_iff] at this
  exact this.1.1.1.1.1

theorem NoSpace.noNL {s : Str} (h : NoSpace s) : NoNL s := by
  intro c hc
  have := h c hc
  simp only [isSpace, Bool.or_eq_false_iff] at this
  refine ⟨?_, ?_⟩
  · intro e; subst e; exact absurd this.1.1.1.2 (by decide)
  · intro e; subst e; exact absurd this.1.1.2 (by decide)

/-! ### tokens -/

theorem splitRunsAux_ne_nil (b : Bool) (s : Str) : splitRunsAux b s ≠ [] := by
  induction s generalizing b with
  | nil => simp [splitRunsAux]
  | cons c s ih =>
    unfold splitRunsAux
    split
    · split
      · exact ih true
      · simp
    · split <;> simp

/-- a blank-free prefix followed by a blank is the first token -/
theorem splitRunsAux_token (k rest : Str) (hk : NoBlank k) :
    splitRunsAux false (k ++ ' ' :: rest) = k :: splitRunsAux true rest := by
  induction k with
  | nil => simp [splitRunsAux]
  | cons c k ih =>
    have hc : (c == ' ') = false := hk c (by simp)
    have hk' : NoBlank k := fun x hx => hk x (by simp [hx])
    simp only [List.cons_append, splitRunsAux, hc, Bool.false_eq_true, if_false, ih hk']

/-- blanks inside a run are skipped -/
theorem splitRunsAux_skip (m : Nat) (rest : Str) :
    splitRunsAux true (List.replicate m ' ' ++ rest) = splitRunsAux true rest := by
  induction m with
  | zero => rfl
  | succ m ih => simp [List.replicate_succ, splitRunsAux, ih]

/-- a blank-free string is one token -/
theorem splitRunsAux_single (s : Str) (hs : NoBlank s) (b : Bool) : splitRunsAux b s = [s] := by
  induction s generalizing b with
  | nil => rfl
  | cons c s ih =>
    have hc : (c == ' ') = false := hs c (by simp)
    have hs' : NoBlank s := fun x hx => hs x (by simp [hx])
    simp only [splitRunsAux, hc, Bool.false_eq_true, if_false, ih hs' false]

theorem replicate_append_cons {β : Type} (m : Nat) (a : β) (t : List β) :
    List.replicate m a ++ a :: t = a :: (List.replicate m a ++ t) := by
  induction m with
  | zero => rfl
  | succ m ih => simp [List.replicate_succ, ih]

theorem fmtLine_eq (w : Nat) (key val : Str) :
    fmtLine w key val = key ++ ' ' :: (List.replicate (w - key.length) ' ' ++ (val ++ ['\n'])) := by
  unfold fmtLine ljust
  rw [List.append_assoc, replicate_append_cons]

/-- the first token of a written line is its key -/
theorem splitRuns_fmtLine_head (w : Nat) (key val : Str) (hk : NoBlank key) :
    splitRuns (fmtLine w key val) = key :: splitRunsAux true (val ++ ['\n']) := by
  unfold splitRuns
  rw [fmtLine_eq, splitRunsAux_token _ _ hk, splitRunsAux_skip]

/-- a written line whose value is one token splits into exactly key and value -/
theorem splitRuns_fmtLine (w : Nat) (key val : Str) (hk : NoBlank key) (hv : NoBlank val) :
    splitRuns (fmtLine w key val) = [key, val ++ ['\n']] := by
  rw [splitRuns_fmtLine_head w key val hk, splitRunsAux_single]
  intro c hc
  rcases List.mem_append.mp hc with h | h
  · exact hv c h
  · simp at h; subst h; decide

/-! ### strip -/

theorem strip_token_nl (v : Str) (hv : NoSpace v) : strip (v ++ ['\n']) = v := by
  unfold strip lstrip rstrip
  cases v with
  | nil => simp [isSpace]
  | cons c v =>
    have hc : isSpace c = false := hv c (by simp)
    have h1 : List.dropWhile isSpace (c :: v ++ ['\n']) = c :: v ++ ['\n'] := by
      simp [hc]
    rw [h1]
    have h2 : (c :: v ++ ['\n']).reverse = '\n' :: (c :: v).reverse := by simp
    rw [h2]
    have hnl : isSpace '\n' = true := by decide
    rw [List.dropWhile_cons_of_pos hnl]
    -- the reversed token starts with a non-space character
    have hne : (c :: v).reverse ≠ [] := by simp
    obtain ⟨d, r, hdr⟩ : ∃ d r, (c :: v).reverse = d :: r := by
      cases h : (c :: v).reverse with
      | nil => exact absurd h hne
      | cons d r => exact ⟨d, r, rfl⟩
    have hd : isSpace d = false := by
      apply hv d
      have : d ∈ (c :: v).reverse := by rw [hdr]; simp
      exact List.mem_reverse.mp this
    rw [hdr, List.dropWhile_cons_of_neg (by simp [hd]), ← hdr]
    simp

/-! ### decimal integers -/

theorem natStr_isDigit (n : Nat) : ∀ c ∈ natStr n, c.isDigit = true :=
  fun _ hc => Nat.isDigit_of_mem_toDigits (by decide) (by decide) hc

theorem natStr_ne_nil (n : Nat) : natStr n ≠ [] := Nat.toDigits_ne_nil

theorem isSpace_of_isDigit {c : Char} (h : c.isDigit = true) : isSpace c = false := by
  cases hs : isSpace c with
  | false => rfl
  | true =>
    simp only [isSpace, Bool.or_eq_true, beq_iff_eq] at hs
    rcases hs with ((((rfl | rfl) | rfl) | rfl) | rfl) | rfl <;> exact absurd h (by decide)

theorem parseNat?_natStr (n : Nat) : parseNat? (natStr n) = some n := by
  unfold parseNat?
  rw [if_pos ⟨natStr_ne_nil n, List.all_eq_true.mpr (natStr_isDigit n)⟩]
  simp [natStr]

theorem natStr_noSpace (n : Nat) : NoSpace (natStr n) :=
  fun c hc => isSpace_of_isDigit (natStr_isDigit n c hc)

theorem intStr_natCast (n : Nat) : intStr (n : Int) = natStr n := by
  unfold intStr
  rw [if_neg (by omega)]
  simp

theorem parseInt?_natStr (n : Nat) : parseInt? (natStr n) = some (n : Int) := by
  obtain ⟨d, r, hdr⟩ : ∃ d r, natStr n = d :: r := by
    cases h : natStr n with
    | nil => exact absurd h (natStr_ne_nil n)
    | cons d r => exact ⟨d, r, rfl⟩
  have hd : d.isDigit = true := natStr_isDigit n d (by rw [hdr]; simp)
  have h1 : d ≠ '-' := by rintro rfl; exact absurd hd (by decide)
  have h2 : d ≠ '+' := by rintro rfl; exact absurd hd (by decide)
  have hp := parseNat?_natStr n
  rw [hdr] at hp ⊢
  unfold parseInt?
  split
  · rename_i heq; simp at heq; exact absurd heq.1 h1
  · rename_i heq; simp at heq; exact absurd heq.1 h2
  · rw [hp]; rfl

theorem parseInt?_intStr (i : Int) : parseInt? (intStr i) = some i := by
  unfold intStr
  split
  · rename_i h
    simp [parseInt?, parseNat?_natStr]
    rw [abs_of_neg h]; simp
  · rename_i h
    rw [parseInt?_natStr]
    congr 1; omega

theorem intStr_noSpace (i : Int) : NoSpace (intStr i) := by
  unfold intStr
  split
  · intro c hc
    rcases List.mem_cons.mp hc with rfl | h
    · decide
    · exact natStr_noSpace _ c h
  · exact natStr_noSpace _

/-! ### lines -/

theorem readlinesAux_step (cur s : Str) (c : Char) (h1 : c ≠ '\n') (h2 : c ≠ '\r') :
    readlinesAux cur (c :: s) = readlinesAux (c :: cur) s := by
  rw [readlinesAux]
  · intro h; exact h1 h
  · intro s' h; exact absurd h h2
  · intro h; exact h2 h

theorem readlinesAux_line (cur l rest : Str) (hl : NoNL l) :
    readlinesAux cur (l ++ '\n' :: rest) = (cur.reverse ++ l ++ ['\n']) :: readlinesAux [] rest := by
  induction l generalizing cur with
  | nil => simp [readlinesAux]
  | cons c l ih =>
    have hc := hl c (by simp)
    have hl' : NoNL l := fun x hx => hl x (by simp [hx])
    rw [List.cons_append, readlinesAux_step _ _ _ hc.1 hc.2, ih _ hl']
    simp

/-- a written line is read back as one line -/
theorem readlines_fmtLine (w : Nat) (key val rest : Str) (hk : NoNL key) (hv : NoNL val) :
    readlines (fmtLine w key val ++ rest) = fmtLine w key val :: readlines rest := by
  unfold readlines
  have e : fmtLine w key val ++ rest = (ljust w key ++ ' ' :: val) ++ '\n' :: rest := by
    simp [fmtLine]
  rw [e, readlinesAux_line [] _ _ ?_]
  · simp [fmtLine]
  · intro c hc
    rcases List.mem_append.mp hc with h | h
    · unfold ljust at h
      rcases List.mem_append.mp h with h | h
      · exact hk c h
      · have := (List.mem_replicate.mp h).2; subst this; exact ⟨by decide, by decide⟩
    · rcases List.mem_cons.mp h with rfl | h
      · exact ⟨by decide, by decide⟩
      · exact hv c h

end HydroVerif.C13
