/-
Helper lemmas for the header round trip of `Props/C13.lean`: tokenisation of a written line, `strip`,
decimal integers, `readlines`.
-/
import HydroVerif.Lemmas.C13

namespace HydroVerif.C13

/-- no blank (0x20) in the string -/
def NoBlank (s : Str) : Prop := ∀ c ∈ s, (c == ' ') = false
/-- no python white space in the string -/
def NoSpace (s : Str) : Prop := ∀ c ∈ s, isSpace c = false
/-- no line break in the string -/
def NoNL (s : Str) : Prop := ∀ c ∈ s, c ≠ '\n' ∧ c ≠ '\r'

theorem NoSpace.noBlank {s : Str} (h : NoSpace s) : NoBlank s := by
  intro c hc
  have := h c hc
  simp only [isSpace, Bool.or_eq_false_iff] at this
  exact this.1.1.1.1.1

theorem NoSpace.noNL {s : Str} (h : NoSpace s) : NoNL s := by
  intro c hc
  have := h c hc
  simp only [isSpace, Bool.or_eq_false_iff] at this
  refine ⟨?_, ?_⟩
  · intro e; subst e; exact absurd this.1.1.1.2 (by decide)
  · intro e; subst e; exact absurd this.1.1.2 (by decide)

/-! ### tokens -/

theorem splitRunsAux_ne_nil (b : Bool) (s : Str) : splitRunsAux b s ≠ [] := by
  induction s generalizing b with
  | nil => simp [splitRunsAux]
  | cons c s ih =>
    unfold splitRunsAux
    split
    · split
      · exact ih true
      · simp
    · split <;> simp

/-- a blank-free prefix followed by a blank is the first token -/
theorem splitRunsAux_token (k rest : Str) (hk : NoBlank k) (b : Bool) :
    splitRunsAux b (k ++ ' ' :: rest) = k :: splitRunsAux true rest := by
  induction k generalizing b with
  | nil =>
    cases b
    · simp [splitRunsAux]
    · simp only [List.nil_append]
      sorry
  | cons c k ih => sorry

end HydroVerif.C13
