/-
C09 — lemmas on the record writer (`quoteField`, `writeRow`) and the tokeniser (`pstep`, `parseRow`).
-/
import HydroVerif.Model.C09
import Mathlib.Data.List.Basic

namespace HydroVerif.C09

theorem foldl_pstep_append (s : PState) (a b : Str) :
    (a ++ b).foldl pstep s = b.foldl pstep (a.foldl pstep s) := List.foldl_append

/-- inside an unquoted field, ordinary characters are appended -/
theorem unq_run (g : Str) (hg : ∀ c ∈ g, (c == ',') = false) (cur : Str) (done : List Str) :
    g.foldl pstep ⟨.unq, cur, done⟩ = ⟨.unq, cur ++ g, done⟩ := by
  induction g generalizing cur with
  | nil => simp
  | cons c g ih =>
    have hc : (c == ',') = false := hg c (by simp)
    simp only [List.foldl_cons, pstep, hc, Bool.false_eq_true, if_false]
    rw [ih (fun d hd => hg d (by simp [hd]))]
    simp

/-- a field without special characters is read as it is -/
theorem unquoted_field (f : Str) (hf : needsQuote f = false) (done : List Str) :
    f.foldl pstep ⟨.start, [], done⟩ = ⟨if f = [] then .start else .unq, f, done⟩ := by
  cases f with
  | nil => simp
  | cons c g =>
    have hall : ∀ d ∈ c :: g, special d = false := by
      simpa [needsQuote, List.any_eq_false] using hf
    have hc := hall c (by simp)
    simp only [special, Bool.or_eq_false_iff] at hc
    have hg : ∀ d ∈ g, (d == ',') = false := by
      intro d hd
      have := hall d (by simp [hd])
      simp only [special, Bool.or_eq_false_iff] at this
      exact this.1.1.1
    simp only [List.foldl_cons, pstep, hc.1.1.2, hc.1.1.1, Bool.false_eq_true, if_false, List.nil_append]
    rw [unq_run g hg]
    simp

/-- inside quotes, the escaped text is read back as the text -/
theorem quoted_run (g : Str) (cur : Str) (done : List Str) :
    (escapeQ g).foldl pstep ⟨.q, cur, done⟩ = ⟨.q, cur ++ g, done⟩ := by
  induction g generalizing cur with
  | nil => simp [escapeQ]
  | cons c g ih =>
    by_cases hc : c = '"'
    · subst hc
      simp only [escapeQ, beq_self_eq_true, if_true, List.foldl_cons, pstep]
      rw [ih]
      simp
    · have hc' : (c == '"') = false := beq_eq_false_iff_ne.mpr hc
      simp only [escapeQ, hc', Bool.false_eq_true, if_false, List.foldl_cons, pstep]
      rw [ih]
      simp

theorem quoted_field (f : Str) (done : List Str) :
    ('"' :: (escapeQ f ++ ['"'])).foldl pstep ⟨.start, [], done⟩ = ⟨.qq, f, done⟩ := by
  simp only [List.foldl_cons, pstep, beq_self_eq_true, if_true]
  rw [foldl_pstep_append, quoted_run]
  simp [pstep]

/-- after a whole field the tokeniser is not inside quotes, holds the field, and `start` means the field is empty -/
theorem field_read (f : Str) (done : List Str) :
    ∃ st, (quoteField f).foldl pstep ⟨.start, [], done⟩ = ⟨st, f, done⟩ ∧ st ≠ .q ∧ (st = .start → f = []) := by
  unfold quoteField
  by_cases hq : needsQuote f = true
  · rw [if_pos hq, quoted_field]
    exact ⟨.qq, rfl, by decide, by intro h; cases h⟩
  · have hq' : needsQuote f = false := by simpa using hq
    rw [if_neg hq, unquoted_field f hq']
    by_cases hf : f = []
    · subst hf; exact ⟨.start, by simp, by decide, fun _ => rfl⟩
    · exact ⟨.unq, by simp [hf], by decide, by intro h; cases h⟩

/-- a comma after a complete field stores it and starts the next one -/
theorem comma_emits (st : PSt) (f : Str) (done : List Str) (h1 : st ≠ .q) (h2 : st = .start → f = []) :
    pstep ⟨st, f, done⟩ ',' = ⟨.start, [], done ++ [f]⟩ := by
  cases st with
  | start => simp [pstep]
  | unq => simp [pstep]
  | q => exact absurd rfl h1
  | qq => simp [pstep]

theorem writeRow_fold (f : Str) (fs : List Str) (done : List Str) :
    let s := (writeRow (f :: fs)).foldl pstep ⟨.start, [], done⟩
    s.done ++ [s.cur] = done ++ f :: fs := by
  induction fs generalizing f done with
  | nil =>
    obtain ⟨st, h, _, _⟩ := field_read f done
    simp only [writeRow, h]
  | cons g fs ih =>
    obtain ⟨st, h, h1, h2⟩ := field_read f done
    simp only [writeRow]
    rw [foldl_pstep_append, h, List.foldl_cons, comma_emits st f done h1 h2]
    have := ih g (done ++ [f])
    simpa using this

/-! ### column-name line -/

theorem splitOnComma_ne_nil (s : Str) : splitOnComma s ≠ [] := by
  cases s with
  | nil => simp [splitOnComma]
  | cons c s =>
    simp only [splitOnComma]
    split
    · simp
    · split <;> simp

theorem splitOnComma_plain (f : Str) (hf : ∀ c ∈ f, (c == ',') = false) : splitOnComma f = [f] := by
  induction f with
  | nil => rfl
  | cons c f ih =>
    have := ih (fun d hd => hf d (by simp [hd]))
    simp only [splitOnComma, this, hf c (by simp), Bool.false_eq_true, if_false]

theorem splitOnComma_append (f : Str) (hf : ∀ c ∈ f, (c == ',') = false) (rest : Str) :
    splitOnComma (f ++ ',' :: rest) = f :: splitOnComma rest := by
  induction f with
  | nil =>
    simp only [List.nil_append, splitOnComma]
    cases h : splitOnComma rest with
    | nil => exact absurd h (splitOnComma_ne_nil rest)
    | cons a b => simp
  | cons c f ih =>
    have := ih (fun d hd => hf d (by simp [hd]))
    simp only [List.cons_append, splitOnComma, this, hf c (by simp), Bool.false_eq_true, if_false]

end HydroVerif.C09
