/-
C03 — helper lemmas for the extension-level entry point (`kernelGen`, `stepOp`, `runOps` of Model/C03.lean)
and for the array form of the Python entry point (`reshape`). Not property statements.
-/
import HydroVerif.Model.C03
import HydroVerif.Lemmas.C03
import HydroVerif.Lemmas.C03Entry

set_option linter.unusedSectionVars false
namespace HydroVerif.C03

/-! ### over ANY carrier -/
section AnyCarrier
variable {β : Type} [Add β] [Sub β] [Mul β] [Div β] [LT β] [DecidableLT β] [LE β] [DecidableLE β]
  [BEq β] [OfNat β 0] [OfNat β 1] [NatCast β]

theorem uncStepW_uniform (w y : β) (prev : List β) (u : β) :
    uncStepW w y (prev.map fun yk => (yk, w)) u = uncStep w y prev u := by
  unfold uncStepW uncStep
  rw [List.foldl_map]

theorem stepW_uniform (w : β) (prev : List β) (y : β) (e : List β) (f l : β) (s : Acc β) :
    stepW w (prev.map fun yk => (yk, w)) y e f l s = step w prev y e f l s := by
  unfold stepW step
  rw [uncStepW_uniform]

/-- one weight for every forecast: the weighted loop is the loop of `metrics.crps` -/
theorem loopW_uniform (srt : List β → List β) (w : β) :
    ∀ (F : List (β × List β)) (prev : List β) (s : Acc β),
      loopW srt (prev.map fun yk => (yk, w)) (F.map fun p => ((p.1, w), p.2)) s = loop srt w prev F s
  | [], prev, s => rfl
  | (y, row) :: rest, prev, s => by
    simp only [List.map_cons]
    unfold loopW loop
    simp only
    split
    · rfl
    · split
      · rename_i f l _ _
        rw [stepW_uniform]
        have := loopW_uniform srt w rest (prev ++ [y]) (step w prev y (srt row) f l s)
        simpa using this
      · rfl

theorem zip_replicate_zip (w : β) : ∀ (obs : List β) (ens : List (List β)) (k : ℕ), obs.length ≤ k →
    (obs.zip (List.replicate k w)).zip ens = (obs.zip ens).map fun p => ((p.1, w), p.2)
  | [], _, _, _ => by simp
  | _ :: _, [], k, _ => by simp
  | y :: obs, r :: ens, 0, h => by simp at h
  | y :: obs, r :: ens, k + 1, h => by
    simp only [List.replicate_succ, List.zip_cons_cons, List.map_cons]
    rw [zip_replicate_zip w obs ens k (by simpa using h)]

/-- the loop sees the sort function only through what it returns for the rows at hand -/
theorem loopW_congr_srt (srt srt' : List β → List β) :
    ∀ (F : List ((β × β) × List β)) (prev : List (β × β)) (s : Acc β), (∀ p ∈ F, srt p.2 = srt' p.2) →
      loopW srt prev F s = loopW srt' prev F s
  | [], _, _, _ => rfl
  | ((y, w), row) :: rest, prev, s, h => by
    have h1 : srt row = srt' row := h ((y, w), row) List.mem_cons_self
    unfold loopW
    simp only [h1]
    split
    · rfl
    · split
      · exact loopW_congr_srt srt srt' rest _ _ (fun p hp => h p (List.mem_cons_of_mem _ hp))
      · rfl

theorem exists_zip_of_mem_right {γ δ : Type} {r : δ} : ∀ (L : List γ) (ens : List δ), ens.length ≤ L.length → r ∈ ens →
    ∃ a, (a, r) ∈ L.zip ens
  | _, [], _, h => by cases h
  | [], _ :: _, hl, _ => by simp at hl
  | a :: L, x :: ens, hl, h => by
    rcases List.mem_cons.mp h with rfl | h
    · exact ⟨a, by simp⟩
    · obtain ⟨a', ha'⟩ := exists_zip_of_mem_right L ens (by simpa using hl) h
      exact ⟨a', by simp [ha']⟩

theorem head_last_of_ne_nil {e : List β} (h : e ≠ []) : ∃ f l, e.head? = some f ∧ e.getLast? = some l := by
  obtain ⟨a, t, rfl⟩ := List.exists_cons_of_ne_nil h
  refine ⟨a, (a :: t).getLast (by simp), rfl, ?_⟩
  exact List.getLast?_eq_some_getLast (by simp)

/-- with sorting switched off, a forecast whose members are not in order makes the loop return `EDOM` -/
theorem loopW_id_unsorted :
    ∀ (F : List ((β × β) × List β)) (prev : List (β × β)) (s : Acc β), (∀ p ∈ F, p.2 ≠ []) →
      (∃ p ∈ F, unsortedAt p.2 = true) → loopW id prev F s = .error .edom
  | [], _, _, _, h => by obtain ⟨p, hp, _⟩ := h; cases hp
  | ((y, w), row) :: rest, prev, s, hne, h => by
    unfold loopW
    simp only [id]
    by_cases hu : unsortedAt row = true
    · rw [if_pos hu]
    · rw [if_neg hu]
      obtain ⟨f, l, hf, hl⟩ := head_last_of_ne_nil (hne ((y, w), row) List.mem_cons_self)
      simp only [hf, hl]
      apply loopW_id_unsorted rest _ _ (fun p hp => hne p (List.mem_cons_of_mem _ hp))
      obtain ⟨p, hp, hpu⟩ := h
      rcases List.mem_cons.mp hp with rfl | hp
      · exact absurd hpu hu
      · exact ⟨p, hp, hpu⟩

/-- output arrays whose two accumulated cells are zero: `c_crps` leaves in them what `finish` describes -/
theorem finishInto_zeroed (m : ℕ) (s : Acc β) (out : Result β) (h0 : out.crps = 0) (h1 : out.reli = some 0) :
    finishInto m s out = finish m s := by
  unfold finishInto finish finishCore
  rw [h0, h1]

/-- the output arrays enter only through `crps_decompos[0]` and `crps_decompos[1]` -/
theorem finishInto_congr (m : ℕ) (s : Acc β) (out out' : Result β) (h0 : out.crps = out'.crps)
    (h1 : out.reli = out'.reli) : finishInto m s out = finishInto m s out' := by
  unfold finishInto
  rw [h0, h1]

theorem runOps_append (sort : List β → List β) (m : ℕ) : ∀ (a b : List (Op β)) (out : Result β),
    runOps sort m out (a ++ b)
      = ((runOps sort m (runOps sort m out a).1 b).1, (runOps sort m out a).2 ++ (runOps sort m (runOps sort m out a).1 b).2)
  | [], b, out => by simp [runOps]
  | op :: a, b, out => by
    simp only [List.cons_append, runOps]
    rw [runOps_append sort m a b]

/-! #### `reshape` gives a rectangular array -/

theorem reshape_length {γ : Type} (m : ℕ) : ∀ (n : ℕ) (l : List γ), (reshape m n l).length = n
  | 0, _ => rfl
  | n + 1, l => by simp [reshape, reshape_length m n]

theorem reshape_row_len {γ : Type} (m : ℕ) : ∀ (n : ℕ) (l : List γ), l.length = n * m →
    ∀ r ∈ reshape m n l, r.length = m
  | 0, _, _, r, hr => by simp [reshape] at hr
  | n + 1, l, hl, r, hr => by
    simp only [reshape, List.mem_cons] at hr
    rcases hr with rfl | hr
    · rw [List.length_take, hl]
      exact Nat.min_eq_left (by rw [Nat.succ_mul]; omega)
    · apply reshape_row_len m n (l.drop m) _ r hr
      rw [List.length_drop, hl, Nat.succ_mul]; omega

theorem reshape_map {γ δ : Type} (f : γ → δ) (m : ℕ) : ∀ (n : ℕ) (l : List γ),
    reshape m n (l.map f) = (reshape m n l).map (List.map f)
  | 0, _ => rfl
  | n + 1, l => by
    simp only [reshape, List.map_cons, List.map_take]
    rw [← List.map_drop, reshape_map f m n]

end AnyCarrier

/-! ### over an ordered field -/
section Field
variable {α : Type} [Field α] [LinearOrder α] [IsStrictOrderedRing α]

/-- a row that is already in order is what any sorted permutation of it is -/
theorem sort_fixed_of_sorted {sort : List α → List α} (hsort : SortOK sort) {r : List α}
    (h : r.Pairwise (· ≤ ·)) : sort r = r :=
  List.Perm.eq_of_pairwise (le := (· ≤ ·)) (fun _ _ _ _ hab hba => le_antisymm hab hba) (hsort r).1 h (hsort r).2

/-- the table loop started from other values of `crps_decompos[0]`, `crps_decompos[1]`: both are offsets -/
theorem foldl_accRow_offset (d0 d1 : α) : ∀ (rows : List (Row α)) (t : Tot α),
    rows.foldl accRow { crps := d0 + t.crps, reli := t.reli.map (d1 + ·), pot := t.pot }
      = { crps := d0 + (rows.foldl accRow t).crps, reli := (rows.foldl accRow t).reli.map (d1 + ·),
          pot := (rows.foldl accRow t).pot }
  | [], t => rfl
  | r :: rows, t => by
    simp only [List.foldl_cons]
    rw [← foldl_accRow_offset d0 d1 rows (accRow t r)]
    congr 1
    unfold accRow
    simp only
    split
    · cases ht : t.reli <;> cases hr : r.r <;> simp [add_assoc]
    · simp [add_assoc]

/-- rows that are not counted and add nothing to the CRPS leave the totals as they are -/
theorem foldl_accRow_idle : ∀ (rows : List (Row α)) (t : Tot α), (∀ r ∈ rows, ¬ 0 < r.g ∧ crpsTerm r = 0) →
    rows.foldl accRow t = t
  | [], _, _ => rfl
  | r :: rows, t, h => by
    rw [List.foldl_cons]
    have hr := h r List.mem_cons_self
    have : accRow t r = t := by
      have hc : crpsTerm r = 0 := hr.2
      unfold crpsTerm at hc
      unfold accRow
      simp only [hr.1, if_false, hc, add_zero]
    rw [this]
    exact foldl_accRow_idle rows t (fun r' hr' => h r' (List.mem_cons_of_mem _ hr'))

theorem mids_zero (m : ℕ) : ∀ (k j : ℕ), ∀ r ∈ mids m j (List.replicate k ((0 : α), (0 : α))),
    ¬ 0 < r.g ∧ crpsTerm r = 0
  | 0, _, r, hr => by simp [mids] at hr
  | k + 1, j, r, hr => by
    simp only [List.replicate_succ, mids, List.mem_cons] at hr
    rcases hr with rfl | hr
    · simp [rowMid, mkRow, crpsTerm]
    · exact mids_zero m k (j + 1) r hr

/-- equal lengths and one observation present: something is kept -/
theorem keptPairs_ne_nil : ∀ (obs : List (Option α)) (rows : List (List α)), rows.length = obs.length →
    (∃ y, some y ∈ obs) → keptPairs obs rows ≠ []
  | [], _, _, h => by obtain ⟨y, hy⟩ := h; cases hy
  | _ :: _, [], hl, _ => by simp at hl
  | o :: obs, r :: rows, hl, h => by
    cases o with
    | some y => simp [keptPairs]
    | none =>
      obtain ⟨y, hy⟩ := h
      have hy' : some y ∈ obs := by simpa using hy
      have := keptPairs_ne_nil obs rows (by simpa using hl) ⟨y, hy'⟩
      simpa [keptPairs] using this

theorem sumAbs_eq (y : α) : ∀ row : List α, sumAbs y row = (row.map fun x => |x - y|).sum
  | [] => rfl
  | x :: t => by
    have := sumAbs_eq y t
    unfold sumAbs at this ⊢
    simp only [List.foldr_cons, List.map_cons, List.sum_cons, absv_eq] at this ⊢
    rw [this]

theorem foldr_add_eq_sum {γ : Type} (f : γ → α) : ∀ l : List γ, l.foldr (fun a acc => f a + acc) 0 = (l.map f).sum
  | [] => rfl
  | a :: t => by simp [foldr_add_eq_sum f t]

/-- the executable definition (run by the driver over `Rat`) is the `energy` the theorems speak about -/
theorem energyM_eq_energy (y : α) (row : List α) : energyM y row = energy y row := by
  unfold energyM energy
  rw [sumAbs_eq, foldr_add_eq_sum]
  have : (row.map fun a => sumAbs a row) = row.map fun a => (row.map fun b => |b - a|).sum := by
    apply List.map_congr_left; intro a _; exact sumAbs_eq a row
  rw [this]
  congr 2
  ring

theorem definitionCrps_eq (obs : List (Option α)) (rows : List (List α)) :
    definitionCrps obs rows
      = ((keptPairs obs rows).map fun p => energy p.1 p.2).sum / ((keptPairs obs rows).length : α) := by
  unfold definitionCrps
  simp only
  rw [foldr_add_eq_sum]
  have : (fun p : α × List α => energyM p.1 p.2) = fun p => energy p.1 p.2 := by
    funext p; exact energyM_eq_energy _ _
  rw [this]
  rfl

end Field
end HydroVerif.C03
