/-
C10 — the score `D = (Pearson(obs ranks, forecast ranks) + 1)/2`: helper lemmas (rank vectors of perfectly /
inversely ordered forecasts, Pearson correlation of affinely related vectors over ℝ).
-/
import HydroVerif.Lemmas.C10Ranks2
import Mathlib.Analysis.SpecialFunctions.Pow.Real
import Mathlib.Analysis.SpecialFunctions.Log.Basic

set_option linter.unusedSectionVars false
set_option linter.unusedVariables false

namespace HydroVerif.C10
open HydroVerif.C04 (sumL absG mean ssd scd pearson clip1)

noncomputable instance : Transc ℝ where
  exp := Real.exp
  log := Real.log
  sqrt := Real.sqrt
  sinh := Real.sinh
  cosh := Real.cosh
  tanh := Real.tanh
  asinh := Real.log ∘ fun x => x + Real.sqrt (x * x + 1)
  pow := fun x y => x ^ y

theorem sqrt_def (x : ℝ) : Transc.sqrt x = Real.sqrt x := rfl
theorem log_def (x : ℝ) : Transc.log x = Real.log x := rfl

section field
variable {α : Type} [Field α] [LinearOrder α] [IsStrictOrderedRing α]

/-! ### spread of a vector -/

theorem eq_of_ssd_le_zero (c : α) (l : List α) (h : ssd c l ≤ 0) : ∀ u ∈ l, u = c := by
  induction l with
  | nil => simp
  | cons x xs ih =>
    have h1 : ssd c (x :: xs) = (c - x) * (c - x) + ssd c xs := by simp [ssd]
    have h2 := C04.ssd_nonneg c xs
    have h3 := mul_self_nonneg (c - x)
    have h4 : (c - x) * (c - x) = 0 := by linarith
    have h5 : ssd c xs ≤ 0 := by linarith
    intro u hu
    rcases List.mem_cons.mp hu with he | hm
    · rw [he]; have := mul_self_eq_zero.mp h4; linarith
    · exact ih h5 u hm

theorem ssd_pos_of_ne (l : List α) {u v : α} (hu : u ∈ l) (hv : v ∈ l) (huv : u ≠ v) : 0 < ssd (mean l) l := by
  by_contra hc
  have h := eq_of_ssd_le_zero (mean l) l (not_lt.mp hc)
  exact huv ((h u hu).trans (h v hv).symm)

theorem scd_affine (a b c : α) (x : List α) :
    scd c (a * c + b) x (x.map fun v => a * v + b) = a * ssd c x := by
  induction x with
  | nil => simp [scd, ssd]
  | cons u us ih => simp only [List.map_cons, scd, ih, ssd, C04.sumL_cons]; ring

/-! ### mid-ranks of the observations -/

theorem rowScore_mono {a b : α} (hab : a < b) (l : List α) : rowScore a l ≤ rowScore b l := by
  induction l with
  | nil => simp
  | cons c l ih =>
    rw [rowScore_cons, rowScore_cons]
    have : ps a c ≤ ps b c := by
      unfold ps
      by_cases h1 : c < a
      · simp [h1, h1.trans hab]
      · by_cases h2 : a = c
        · subst h2; simp [hab]; norm_num
        · have h3 : a < c := lt_of_le_of_ne (not_lt.mp h1) h2
          simp only [h1, h2, if_false]
          split_ifs <;> norm_num
    linarith

theorem rowScore_strict {a b : α} (hab : a < b) (l : List α) (ha : a ∈ l) : rowScore a l < rowScore b l := by
  induction l with
  | nil => simp at ha
  | cons c l ih =>
    rw [rowScore_cons, rowScore_cons]
    rcases List.mem_cons.mp ha with he | hm
    · subst he
      have := rowScore_mono hab l
      rw [ps_self, ps_of_lt hab]
      linarith [this, (by norm_num : (1 / 2 : α) < 1)]
    · have := ih hm
      have h2 : ps a c ≤ ps b c := by
        have := rowScore_mono hab [c]
        simpa using this
      linarith

/-- number of values below `a` in a duplicate-free list holding `a`: the mid-rank minus ½ -/
theorem count_lt_eq (l : List α) (hnd : l.Nodup) (a : α) (ha : a ∈ l) :
    (((l.filter fun b => decide (b < a)).length : ℕ) : α) = rowScore a l - 1 / 2 := by
  rw [rowScore_eq_counts]
  have : (l.filter fun b => !decide (b < a) && !decide (a < b)) = l.filter fun b => decide (b = a) := by
    apply List.filter_congr
    intro b _
    rcases lt_trichotomy b a with h | h | h
    · simp [h, h.ne]
    · simp [h]
    · simp [h, h.ne', not_lt.mpr h.le]
  rw [this]
  have h1 : (l.filter fun b => decide (b = a)).length = l.count a := by
    rw [List.count, List.countP_eq_length_filter]
    congr 1
  rw [h1, List.count_eq_one_of_mem hnd ha]
  push_cast; ring

theorem stableRanks_nodup (obs : List α) (hnd : obs.Nodup) :
    (stableRanks obs).map (fun (r : ℕ) => (Nat.cast r : α)) = obs.map fun a => rowScore a obs - 1 / 2 := by
  unfold stableRanks
  rw [List.map_map]
  have : ∀ xi ∈ obs.zipIdx, ((fun (r : ℕ) => (Nat.cast r : α)) ∘ fun xi : α × ℕ =>
      (obs.zipIdx.filter fun yk => decide (yk.1 < xi.1) ||
        (!decide (yk.1 < xi.1) && !decide (xi.1 < yk.1) && decide (yk.2 < xi.2))).length) xi
      = (fun a => rowScore a obs - 1 / 2) xi.1 := by
    intro xi hxi
    simp only [Function.comp_def]
    have hf : (obs.zipIdx.filter fun yk => decide (yk.1 < xi.1) ||
        (!decide (yk.1 < xi.1) && !decide (xi.1 < yk.1) && decide (yk.2 < xi.2)))
        = obs.zipIdx.filter fun yk => decide (yk.1 < xi.1) := by
      apply List.filter_congr
      intro yk hyk
      by_cases h1 : yk.1 < xi.1
      · simp [h1]
      · by_cases h2 : xi.1 < yk.1
        · simp [h1, h2]
        · have he : yk.1 = xi.1 := le_antisymm (not_lt.mp h2) (not_lt.mp h1)
          have hidx : yk.2 = xi.2 := by
            rw [List.mem_zipIdx_iff_getElem?] at hyk hxi
            obtain ⟨hy1, hy2⟩ := List.getElem?_eq_some_iff.mp hyk
            obtain ⟨hx1, hx2⟩ := List.getElem?_eq_some_iff.mp hxi
            exact (hnd.getElem_inj_iff).mp (by rw [hy2, hx2, he])
          simp [h1, h2, hidx]
    rw [hf]
    have hlen : (obs.zipIdx.filter fun yk => decide (yk.1 < xi.1)).length
        = (obs.filter fun b => decide (b < xi.1)).length := by
      rw [← List.countP_eq_length_filter, ← List.countP_eq_length_filter]
      conv_rhs => rw [← List.zipIdx_map_fst 0 obs, List.countP_map]
      rfl
    rw [hlen]
    exact count_lt_eq obs hnd xi.1 (List.fst_mem_of_mem_zipIdx hxi)
  rw [List.map_congr_left this]
  exact map_fst_zipIdx (fun a => rowScore a obs - 1 / 2) obs 0

/-! ### forecasts ordered as / inversely to the observations -/

/-- forecasts order the observations perfectly: the larger observation has the winning ensemble -/
def PerfectOrder (pairs : List (α × List α)) : Prop :=
  ∀ p ∈ pairs, ∀ q ∈ pairs, q.1 < p.1 → wm q.2 p.2 < wm p.2 q.2

/-- ... inversely: the larger observation has the losing ensemble -/
def InverseOrder (pairs : List (α × List α)) : Prop :=
  ∀ p ∈ pairs, ∀ q ∈ pairs, q.1 < p.1 → wm p.2 q.2 < wm q.2 p.2

theorem wmRanks_perfect (pairs : List (α × List α)) (hnd : (pairs.map Prod.fst).Nodup)
    (h : PerfectOrder pairs) :
    wmRanks (pairs.map Prod.snd) = pairs.map fun p => 1 / 2 + rowScore p.1 (pairs.map Prod.fst) := by
  rw [wmRanks_eq, List.map_map]
  apply List.map_congr_left
  intro p hp
  simp only [Function.comp_def, List.map_map, rowScore]
  congr 1
  apply sum_map_congr
  intro q hq
  rcases lt_trichotomy q.1 p.1 with hlt | heq | hgt
  · have := h p hp q hq hlt
    rw [ps_of_lt hlt]; unfold wmU; simp [this, not_lt.mpr this.le]
  · have : q = p := List.inj_on_of_nodup_map hnd hq hp heq
    rw [this, wmU_self, ps_self]
  · have := h q hq p hp hgt
    rw [ps_of_gt hgt]; unfold wmU; simp [this]

theorem wmRanks_inverse (pairs : List (α × List α)) (hnd : (pairs.map Prod.fst).Nodup)
    (h : InverseOrder pairs) :
    wmRanks (pairs.map Prod.snd)
      = pairs.map fun p => 1 / 2 + ((pairs.length : α) - rowScore p.1 (pairs.map Prod.fst)) := by
  rw [wmRanks_eq, List.map_map]
  apply List.map_congr_left
  intro p hp
  simp only [Function.comp_def, List.map_map]
  congr 1
  have hcol := rowScore_add_col p.1 (pairs.map Prod.fst)
  rw [List.length_map, List.map_map] at hcol
  rw [← hcol]
  simp only [add_sub_cancel_left]
  apply sum_map_congr
  intro q hq
  simp only [Function.comp_def]
  rcases lt_trichotomy q.1 p.1 with hlt | heq | hgt
  · have := h p hp q hq hlt
    rw [ps_of_gt hlt]; unfold wmU; simp [this]
  · have : q = p := List.inj_on_of_nodup_map hnd hq hp heq
    rw [this, wmU_self, ps_self]
  · have := h q hq p hp hgt
    rw [ps_of_lt hgt]; unfold wmU; simp [this, not_lt.mpr this.le]

/-- the observation ranks of at least two distinct observations are not constant -/
theorem ssd_obs_ranks_pos (obs : List α) (hnd : obs.Nodup) (hn : 2 ≤ obs.length) :
    0 < ssd (mean (obs.map fun a => rowScore a obs - 1 / 2)) (obs.map fun a => rowScore a obs - 1 / 2) := by
  match obs, hnd, hn with
  | a :: b :: rest, hnd, _ =>
    have hab : a ≠ b := by
      intro he; subst he
      simp at hnd
    have ha : a ∈ a :: b :: rest := by simp
    have hb : b ∈ a :: b :: rest := by simp
    apply ssd_pos_of_ne _ (List.mem_map.mpr ⟨a, ha, rfl⟩) (List.mem_map.mpr ⟨b, hb, rfl⟩)
    intro he
    rcases lt_or_gt_of_ne hab with hlt | hgt
    · have := rowScore_strict hlt _ ha; linarith
    · have := rowScore_strict hgt _ hb; linarith

end field

/-! ### Pearson correlation of affinely related vectors (ℝ) -/

theorem pearson_affine (a b : ℝ) (ha : a ≠ 0) (x : List ℝ) (h : 0 < ssd (mean x) x) :
    pearson x (x.map fun v => a * v + b) = if 0 < a then 1 else -1 := by
  have hn := C04.two_le_length_of_ssd_pos x h
  have hne : x ≠ [] := by rintro rfl; simp at hn
  have hn1 : (0 : ℝ) < ((x.length - 1 : ℕ) : ℝ) := by
    have : 0 < x.length - 1 := by omega
    exact_mod_cast this
  unfold pearson
  simp only [C04.mean_affine a b x hne, scd_affine, C04.ssd_affine, List.length_map, sqrt_def]
  set q := ssd (mean x) x / ((x.length - 1 : ℕ) : ℝ) with hq
  have hqpos : 0 < q := div_pos h hn1
  have hs : 0 < Real.sqrt q := Real.sqrt_pos.mpr hqpos
  have e1 : a * ssd (mean x) x / ((x.length - 1 : ℕ) : ℝ) = a * q := by rw [hq]; ring
  have e2 : a * a * ssd (mean x) x / ((x.length - 1 : ℕ) : ℝ) = a * a * q := by rw [hq]; ring
  rw [e1, e2, Real.sqrt_mul (mul_self_nonneg a), Real.sqrt_mul_self_eq_abs]
  have hval : a * q / Real.sqrt q / (|a| * Real.sqrt q) = a / |a| := by
    have habs : |a| ≠ 0 := abs_ne_zero.mpr ha
    rw [div_div, mul_comm (Real.sqrt q) (|a| * Real.sqrt q), mul_assoc, Real.mul_self_sqrt hqpos.le]
    field_simp
  rw [hval]
  by_cases hp : 0 < a
  · rw [abs_of_pos hp, div_self ha, if_pos hp]; unfold clip1; norm_num
  · have hneg : a < 0 := lt_of_le_of_ne (not_lt.mp hp) ha
    rw [abs_of_neg hneg, if_neg hp, div_neg, div_self ha]; unfold clip1; norm_num

theorem dscoreOf_affine (a b : ℝ) (ha : a ≠ 0) (x : List ℝ) (h : 0 < ssd (mean x) x) :
    dscoreOf x (x.map fun v => a * v + b) = some (if 0 < a then 1 else 0) := by
  have hn := C04.two_le_length_of_ssd_pos x h
  have hne : x ≠ [] := by rintro rfl; simp at hn
  have hy : 0 < ssd (mean (x.map fun v => a * v + b)) (x.map fun v => a * v + b) := by
    rw [C04.mean_affine a b x hne, C04.ssd_affine]
    exact mul_pos (mul_self_pos.mpr ha) h
  unfold dscoreOf
  rw [if_pos ⟨h, hy⟩, pearson_affine a b ha x h]
  by_cases hp : 0 < a <;> simp [hp]

theorem dscoreOf_range (x y : List ℝ) (D : ℝ) (h : dscoreOf x y = some D) : 0 ≤ D ∧ D ≤ 1 := by
  unfold dscoreOf at h
  split at h
  · injection h with h
    have hr : -1 ≤ pearson x y ∧ pearson x y ≤ 1 := by
      unfold pearson clip1
      simp only
      split
      · norm_num
      · split
        · norm_num
        · constructor <;> linarith [not_lt.mp ‹¬ _ < (-1:ℝ)›, not_lt.mp ‹¬ (1:ℝ) < _›]
    rw [← h]; constructor <;> linarith [hr.1, hr.2]
  · cases h

end HydroVerif.C10
