/- helper lemmas for the whole-function part of C04: null filter = removal of incomplete pairs, orientation, error paths of `binary`,
histories of held tables -/
import HydroVerif.Lemmas.C04

namespace HydroVerif.C04

section removal
variable {α : Type}

theorem finOpt_eq_some (fin : α → Bool) (x : Option α) (v : α) (h : finOpt fin x = some v) : x = some v := by
  cases x with
  | none => simp [finOpt] at h
  | some w =>
    simp only [finOpt, Option.bind_some] at h
    split at h
    · simpa using h
    · cases h

theorem removedRaw_length (fin : α → Bool) (f : α → Option α) (obs sim : List (Option α)) :
    (removedRaw fin f obs sim).1.length = (removedRaw fin f obs sim).2.length := by
  simp [removedRaw]

/-- the complete pairs found by `__nonulldata` in the transformed series are the transformed values of the raw series
with the incomplete pairs removed; none of them is NaN -/
theorem removed_nonull (fin : α → Bool) (f : α → Option α) (obs sim : List (Option α)) :
    allSomeL (fwdL f (removedRaw fin f obs sim).1)
        = some (nonull ((fwdL f obs).map (finOpt fin)) ((fwdL f sim).map (finOpt fin))).1 ∧
    allSomeL (fwdL f (removedRaw fin f obs sim).2)
        = some (nonull ((fwdL f obs).map (finOpt fin)) ((fwdL f sim).map (finOpt fin))).2 := by
  induction obs generalizing sim with
  | nil => simp [removedRaw, fwdL, nonull, allSomeL]
  | cons a as ih =>
    cases sim with
    | nil => cases h : finOpt fin (a.bind f) <;> simp [removedRaw, fwdL, nonull, allSomeL, h]
    | cons b bs =>
      have ih' := ih bs
      simp only [removedRaw, fwdL] at ih' ⊢
      cases ha : finOpt fin (a.bind f) with
      | none =>
        cases hb : finOpt fin (b.bind f) <;>
          simpa [List.zip_cons_cons, List.filter_cons, completeB, ha, hb, nonull] using ih'
      | some va =>
        cases hb : finOpt fin (b.bind f) with
        | none => simpa [List.zip_cons_cons, List.filter_cons, completeB, ha, hb, nonull] using ih'
        | some vb =>
          have ea := finOpt_eq_some fin _ _ ha
          have eb := finOpt_eq_some fin _ _ hb
          rw [ea] at ha
          rw [eb] at hb
          simp only [List.map_map] at ih'
          simp [List.zip_cons_cons, completeB, ha, hb, nonull, allSomeL, ea, eb]
          simpa [completeB] using ih'

theorem allSomeL_length (l : List (Option α)) (v : List α) (h : allSomeL l = some v) : v.length = l.length := by
  induction l generalizing v with
  | nil => simp [allSomeL] at h; subst h; rfl
  | cons a t ih =>
    cases a with
    | none => simp [allSomeL] at h
    | some x =>
      simp only [allSomeL, Option.map_eq_some_iff] at h
      obtain ⟨w, hw, rfl⟩ := h
      simp [ih w hw]

/-- `excludenull=True` prepares exactly what `excludenull=False` prepares from the series with the incomplete pairs
removed (at least one pair being complete) -/
theorem prep_excl_eq_removed (fin : α → Bool) (f : α → Option α) (obs sim : List (Option α))
    (hne : (removedRaw fin f obs sim).1 ≠ []) :
    prep fin true (fwdL f obs) (fwdL f sim)
      = prep fin false (fwdL f (removedRaw fin f obs sim).1) (fwdL f (removedRaw fin f obs sim).2) := by
  obtain ⟨h1, h2⟩ := removed_nonull fin f obs sim
  have hl := allSomeL_length _ _ h1
  have hV : (nonull ((fwdL f obs).map (finOpt fin)) ((fwdL f sim).map (finOpt fin))).1 ≠ [] := by
    intro h0
    rw [h0] at hl
    simp only [fwdL, List.length_map, List.length_nil] at hl
    exact hne (List.eq_nil_of_length_eq_zero hl.symm)
  unfold prep
  simp only [if_true, h1, h2, Bool.false_eq_true, if_false]
  simp [List.isEmpty_iff, hV]

/-- without any complete pair `__nonulldata` raises -/
theorem prep_excl_noValid (fin : α → Bool) (f : α → Option α) (obs sim : List (Option α))
    (hne : (removedRaw fin f obs sim).1 = []) :
    prep fin true (fwdL f obs) (fwdL f sim) = .noValid := by
  obtain ⟨h1, _⟩ := removed_nonull fin f obs sim
  have hl := allSomeL_length _ _ h1
  rw [hne] at hl
  simp only [fwdL, List.length_map, List.length_nil] at hl
  have hl' := List.eq_nil_of_length_eq_zero hl
  unfold prep
  simp only [fwdL] at hl' ⊢
  simp only [if_true, hl', List.isEmpty_nil]

end removal

theorem fwdL_some {α : Type} (l : List (Option α)) : fwdL some l = l := by
  induction l with
  | nil => rfl
  | cons a t ih => cases a <;> simp_all [fwdL]


theorem checkEns_complete {α : Type} (o : List α) :
    checkEns (o.map some) (o.map fun x => [some x]) = o.map fun x => (some x, [some x]) := by
  induction o with
  | nil => rfl
  | cons a t ih =>
    simp only [checkEns, List.map_cons, List.zip_cons_cons, List.filter_cons] at ih ⊢
    simp only [present] at ih ⊢
    simp
    exact ih


/-! ### histories of held tables -/

section history

theorem modifyAt_length {β : Type} (l : List β) (k : Nat) (g : β → β) : (modifyAt l k g).length = l.length := by
  induction l generalizing k with
  | nil => rfl
  | cons x xs ih => cases k <;> simp [modifyAt, ih]

theorem modifyAt_getElem?_ne {β : Type} (l : List β) (k k' : Nat) (g : β → β) (h : k ≠ k') :
    (modifyAt l k g)[k']? = l[k']? := by
  induction l generalizing k k' with
  | nil => rfl
  | cons x xs ih =>
    cases k with
    | zero =>
      cases k' with
      | zero => exact absurd rfl h
      | succ k' => simp [modifyAt]
    | succ k =>
      cases k' with
      | zero => simp [modifyAt]
      | succ k' => simp [modifyAt, ih k k' (by omega)]

theorem hstep_length_ge (held : List Table) (op : HOp) : held.length ≤ (hstep held op).length := by
  cases op <;> simp [hstep, modifyAt_length]

/-- one operation leaves every held table it does not write to as it is -/
theorem hstep_other (held : List Table) (op : HOp) (k : Nat) (hk : k < held.length) (ht : op.target ≠ some k) :
    (hstep held op)[k]? = held[k]? := by
  cases op with
  | score obs sim ncat => simp [hstep, List.getElem?_append_left hk]
  | setCell k' i j v =>
    have : k' ≠ k := by intro e; apply ht; simp [HOp.target, e]
    simp [hstep, modifyAt_getElem?_ne _ _ _ _ this]
  | fill k' v =>
    have : k' ≠ k := by intro e; apply ht; simp [HOp.target, e]
    simp [hstep, modifyAt_getElem?_ne _ _ _ _ this]

theorem foldl_hstep_other (ops : List HOp) (held : List Table) (k : Nat) (hk : k < held.length)
    (ht : ∀ op ∈ ops, op.target ≠ some k) : (ops.foldl hstep held)[k]? = held[k]? := by
  induction ops generalizing held with
  | nil => rfl
  | cons op ops ih =>
    simp only [List.foldl_cons]
    rw [ih (hstep held op) (lt_of_lt_of_le hk (hstep_length_ge held op)) (fun o ho => ht o (by simp [ho]))]
    exact hstep_other held op k hk (ht op (by simp))

theorem hrun_append (a b : List HOp) : hrun (a ++ b) = b.foldl hstep (hrun a) := by
  simp [hrun, List.foldl_append]

end history

/-! ### error paths of `binary` -/

section binaryOf
variable {α : Type} [Field α] [LinearOrder α] [IsStrictOrderedRing α]

theorem isZero_iff (x : α) : isZero x = true ↔ x = 0 := by
  unfold isZero
  simp only [Bool.and_eq_true, Bool.not_eq_true', decide_eq_false_iff_not, not_lt]
  constructor
  · intro h; exact le_antisymm h.2 h.1
  · intro h; subst h; exact ⟨le_refl _, le_refl _⟩

theorem isZero_false_of_ne (x : α) (h : x ≠ 0) : isZero x = false := by
  cases hz : isZero x with
  | false => rfl
  | true => exact absurd ((isZero_iff x).mp hz) h

end binaryOf

end HydroVerif.C04
