/-
C06 — breadth-first layers over an abstract upstream/downstream pair (from the design spike
`design-spikes/BfsLayersReachability.lean`, extended). `up d` lists the cells draining into `d`,
`down u` is the cell `u` drains into (if any). Nothing here knows about grids.
-/
import HydroVerif.Model.C06
import Mathlib.Data.List.Basic
import Mathlib.Data.List.Nodup
import Mathlib.Data.List.Range
import Mathlib.Tactic.Linarith

namespace HydroVerif.C06.Bfs
variable {C : Type}

/-- k-th BFS layer from the outlet -/
def layer (up : C → List C) (o : C) : Nat → List C
  | 0 => [o]
  | k+1 => (layer up o k).flatMap up

-- `walk down k c` (k-fold downstream walk) is defined in `Model/C06.lean` (the driver runs it)

/-- membership in a layer = the downstream walk of that length ends at the outlet -/
theorem mem_layer_iff (up : C → List C) (down : C → Option C)
    (inv : ∀ u d, u ∈ up d ↔ down u = some d) (o : C) :
    ∀ k c, c ∈ layer up o k ↔ walk down k c = some o := by
  intro k
  induction k with
  | zero => intro c; simp [layer, walk, eq_comm]
  | succ k ih =>
    intro c
    simp only [layer, List.mem_flatMap, walk]
    constructor
    · rintro ⟨d, hd, hc⟩
      rw [(inv c d).1 hc]
      simpa using (ih d).1 hd
    · intro h
      cases hd : down c with
      | none => simp [hd] at h
      | some d =>
        refine ⟨d, (ih d).2 ?_, (inv c d).2 hd⟩
        simpa [hd] using h

/-- each layer is duplicate free when upstream lists are -/
theorem layer_nodup (up : C → List C) (down : C → Option C)
    (inv : ∀ u d, u ∈ up d ↔ down u = some d) (hup : ∀ d, (up d).Nodup) (o : C) :
    ∀ k, (layer up o k).Nodup := by
  intro k
  induction k with
  | zero => simp [layer]
  | succ k ih =>
    simp only [layer]
    rw [List.nodup_flatMap]
    refine ⟨fun d _ => hup d, ?_⟩
    refine List.Pairwise.imp_of_mem ?_ (List.Pairwise.and_mem.1 ih)
    intro d e _ _ hne
    obtain ⟨_, _, hne⟩ := hne
    simp only [Function.onFun, List.disjoint_left]
    intro c hc1 hc2
    have h1 := (inv c d).1 hc1
    have h2 := (inv c e).1 hc2
    rw [h1] at h2
    exact hne (Option.some.inj h2)

/-- walks compose -/
theorem walk_add (down : C → Option C) (j k : Nat) (c : C) :
    walk down (j + k) c = (walk down j c).bind (walk down k) := by
  induction j generalizing c with
  | zero => simp [walk]
  | succ j ih =>
    have : j + 1 + k = (j + k) + 1 := by omega
    rw [this]
    show (down c).bind (walk down (j+k)) = ((down c).bind (walk down j)).bind (walk down k)
    cases h : down c with
    | none => simp
    | some d => simpa using ih d

/-- an empty layer stays empty -/
theorem layer_empty_of_le (up : C → List C) (o : C) {n m : Nat} (hstop : layer up o n = [])
    (hm : n ≤ m) : layer up o m = [] := by
  induction m, hm using Nat.le_induction with
  | base => exact hstop
  | succ m _ ih => simp [layer, ih]

/-- a cycle through the outlet keeps every layer non-empty -/
theorem layer_ne_nil_of_cycle (up : C → List C) (down : C → Option C)
    (inv : ∀ u d, u ∈ up d ↔ down u = some d) (o : C) {p : Nat} (hp : 0 < p)
    (cyc : walk down p o = some o) (n : Nat) : layer up o n ≠ [] := by
  intro hstop
  have hmul : ∀ t, walk down (t * p) o = some o := by
    intro t; induction t with
    | zero => simp [walk]
    | succ t ih =>
      have : (t + 1) * p = t * p + p := Nat.succ_mul t p
      rw [this, walk_add, ih]; simpa using cyc
  have : o ∈ layer up o (n * p) := (mem_layer_iff up down inv o (n * p) o).2 (hmul n)
  rw [layer_empty_of_le up o hstop (Nat.le_mul_of_pos_right n hp)] at this
  simp at this

/-- if the search stops (some layer is empty) two different layers never share a cell -/
theorem layers_disjoint_of_stop (up : C → List C) (down : C → Option C)
    (inv : ∀ u d, u ∈ up d ↔ down u = some d) (o : C) (n : Nat)
    (hstop : layer up o n = []) (j k : Nat) (hjk : j < k) (c : C)
    (hj : c ∈ layer up o j) (hk : c ∈ layer up o k) : False := by
  have wj := (mem_layer_iff up down inv o j c).1 hj
  have wk := (mem_layer_iff up down inv o k c).1 hk
  obtain ⟨p, rfl⟩ : ∃ p, k = j + p := ⟨k - j, by omega⟩
  have hp : 0 < p := by omega
  rw [walk_add, wj] at wk
  have cyc : walk down p o = some o := by simpa using wk
  exact layer_ne_nil_of_cycle up down inv o hp cyc n hstop

/-- the layers `a+1 .. a+len` laid end to end -/
def layersFrom (up : C → List C) (o : C) (a len : Nat) : List C :=
  (List.range' (a + 1) len).flatMap (layer up o)

theorem layersFrom_zero (up : C → List C) (o : C) (a : Nat) : layersFrom up o a 0 = [] := by
  simp [layersFrom]

theorem layersFrom_succ (up : C → List C) (o : C) (a len : Nat) :
    layersFrom up o a (len + 1) = layer up o (a + 1) ++ layersFrom up o (a + 1) len := by
  simp [layersFrom, List.range'_succ]

theorem mem_layersFrom (up : C → List C) (o : C) (a len : Nat) (c : C) :
    c ∈ layersFrom up o a len ↔ ∃ m, a < m ∧ m ≤ a + len ∧ c ∈ layer up o m := by
  simp only [layersFrom, List.mem_flatMap, List.mem_range'_1]
  constructor
  · rintro ⟨m, ⟨h1, h2⟩, hc⟩; exact ⟨m, by omega, by omega, hc⟩
  · rintro ⟨m, h1, h2, hc⟩; exact ⟨m, ⟨by omega, by omega⟩, hc⟩

/-- when the search stops, the outlet followed by all later layers has no repeated cell -/
theorem outlet_layers_nodup (up : C → List C) (down : C → Option C)
    (inv : ∀ u d, u ∈ up d ↔ down u = some d) (hup : ∀ d, (up d).Nodup) (o : C) (n : Nat)
    (hstop : layer up o (n + 1) = []) : (o :: layersFrom up o 0 n).Nodup := by
  rw [List.nodup_cons]
  constructor
  · rw [mem_layersFrom]
    rintro ⟨m, h1, _, hc⟩
    exact layers_disjoint_of_stop up down inv o (n + 1) hstop 0 m h1 o (by simp [layer]) hc
  · unfold layersFrom
    rw [List.nodup_flatMap]
    refine ⟨fun k _ => layer_nodup up down inv hup o k, ?_⟩
    refine List.Nodup.pairwise_of_forall_ne (List.nodup_range' (step := 1) (by omega)) ?_
    intro j _ k _ hjk
    simp only [Function.onFun, List.disjoint_left]
    intro c hj hk
    rcases Nat.lt_or_gt_of_ne hjk with h | h
    · exact layers_disjoint_of_stop up down inv o (n + 1) hstop j k h c hj hk
    · exact layers_disjoint_of_stop up down inv o (n + 1) hstop k j h c hk hj

end HydroVerif.C06.Bfs
