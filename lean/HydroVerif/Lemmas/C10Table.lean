/-
C10 — facts about the Cramer-von Mises table regenerated from the source (Generated/CvmTable.lean), checked by
kernel evaluation on the mantissas, and their consequences for `cvmPvalue`.
-/
import HydroVerif.Lemmas.C10Unif

set_option linter.unusedSectionVars false
set_option linter.unusedVariables false

namespace HydroVerif.C10

/-- strictly increasing list of naturals (linear-time check) -/
def incrNat : List Nat → Bool
  | a :: b :: t => decide (a < b) && incrNat (b :: t)
  | _ => true

/-- every mantissa of every column is at most `10^scale`, i.e. every tabulated p-value is in [0, 1] -/
def columnsInUnit : Bool := Gen.columns.all fun c => c.all fun m => decide (m ≤ 10 ^ Gen.scale)

/-- the abscissae `CVM_QQ` of the shipped table increase strictly -/
theorem qq_increasing : incrNat Gen.qq = true := by decide +kernel

/-- every entry of the shipped table lies in [0, 1] -/
theorem columns_in_unit : columnsInUnit = true := by decide +kernel

theorem sizes_ne_nil : Gen.sizes ≠ [] := by decide +kernel

theorem columns_length : Gen.columns.length = Gen.sizes.length := by decide +kernel

theorem columns_ne_nil : (Gen.columns.all fun c => !c.isEmpty) = true := by decide +kernel

theorem qq_ne_nil : Gen.qq ≠ [] := by decide +kernel

theorem pairwise_of_incrNat : ∀ l : List Nat, incrNat l = true → l.Pairwise (· < ·)
  | [], _ => List.Pairwise.nil
  | [a], _ => by simp
  | a :: b :: t, h => by
    simp only [incrNat, Bool.and_eq_true, decide_eq_true_eq] at h
    have ih := pairwise_of_incrNat (b :: t) h.2
    rw [List.pairwise_cons]
    refine ⟨?_, ih⟩
    intro c hc
    rcases List.mem_cons.mp hc with he | hm
    · rw [he]; exact h.1
    · exact lt_trans h.1 ((List.pairwise_cons.mp ih).1 c hm)

section field
variable {α : Type} [Field α] [LinearOrder α] [IsStrictOrderedRing α]

theorem scale_pos : (0 : α) < ((10 ^ Gen.scale : Nat) : α) := by
  have : 0 < 10 ^ Gen.scale := Nat.pos_of_ne_zero (by positivity)
  exact_mod_cast this

theorem ofMant_lt {a b : Nat} (h : a < b) : ofMant (α := α) a < ofMant b := by
  unfold ofMant
  have hab : (a : α) < (b : α) := by exact_mod_cast h
  exact div_lt_div_of_pos_right hab scale_pos

theorem ofMant_unit {m : Nat} (h : m ≤ 10 ^ Gen.scale) : (0 : α) ≤ ofMant m ∧ ofMant (α := α) m ≤ 1 := by
  unfold ofMant
  have hm : (m : α) ≤ ((10 ^ Gen.scale : Nat) : α) := by exact_mod_cast h
  exact ⟨div_nonneg (Nat.cast_nonneg _) scale_pos.le, (div_le_one scale_pos).mpr hm⟩

theorem qq_pairwise : (Gen.qq.map (ofMant (α := α))).Pairwise (· < ·) :=
  (pairwise_of_incrNat Gen.qq qq_increasing).map _ fun _ _ h => ofMant_lt h

theorem column_unit (col : List Nat) (hc : col ∈ Gen.columns) :
    ∀ f ∈ col.map (ofMant (α := α)), 0 ≤ f ∧ f ≤ 1 := by
  intro f hf
  obtain ⟨m, hm, rfl⟩ := List.mem_map.mp hf
  have h := columns_in_unit
  unfold columnsInUnit at h
  rw [List.all_eq_true] at h
  have h2 := h col hc
  rw [List.all_eq_true] at h2
  exact ofMant_unit (by simpa using h2 m hm)

end field

/-- `np.argmin` returns a position inside the list -/
theorem closestIdx_go_lt (d : Nat → Nat) : ∀ (rest : List Nat) (best bestd i : Nat), best < i →
    closestIdx.go d best bestd i rest < i + rest.length := by
  intro rest
  induction rest with
  | nil => intro best bestd i h; simpa [closestIdx.go] using h
  | cons t ts ih =>
    intro best bestd i h
    simp only [closestIdx.go, List.length_cons]
    split
    · have := ih i (d t) (i + 1) (by omega); omega
    · have := ih best bestd (i + 1) (by omega); omega

theorem closestIdx_lt (n : Nat) (l : List Nat) (j : Nat) (h : closestIdx n l = some j) : j < l.length := by
  cases l with
  | nil => simp [closestIdx] at h
  | cons s rest =>
    simp only [closestIdx, Option.some.injEq] at h
    rw [← h]
    have := closestIdx_go_lt (fun a => if a < n then n - a else a - n) rest 0
      (if s < n then n - s else s - n) 1 (by omega)
    simp only [List.length_cons]; omega

end HydroVerif.C10
