/-
C05 — helper lemmas for the definitions GENERATED from the C text (`Generated/CKernels.lean`): weakest-precondition
rules for the primitives of `Model/CSem.lean` (on top of the calculus of `Lemmas/C05.lean`) and the tactic `cg_run`
that walks through a generated definition.
-/
import HydroVerif.Lemmas.C05
import HydroVerif.Generated.CKernels

set_option linter.unusedSimpArgs false

namespace HydroVerif.C05
open HydroVerif.CSem

/-- a run that ends with the value `v` -/
theorem eq_ok_of_wp {α : Type} {r : R α} {v : α} (h : wp r (fun x => x = v)) : r = .ok v := by
  obtain ⟨x, hx, rfl⟩ := h; exact hx

theorem wp_of_eq_ok {α : Type} {r : R α} {v : α} {Q : α → Prop} (h : r = .ok v) (hq : Q v) : wp r Q :=
  ⟨v, h, hq⟩

theorem wp_rd {b : Buf} {m : List Int} {i : Int} {Q : Int → Prop}
    (hi : 0 ≤ i ∧ i < (m.length : Int)) (h : Q (m.getD i.toNat 0)) : wp (rd b m i) Q :=
  ⟨_, by simp [rd, hi.1, hi.2], h⟩

theorem wp_wr {b : Buf} {m : List Int} {i v : Int} {Q : List Int → Prop}
    (hi : 0 ≤ i ∧ i < (m.length : Int)) (h : Q (m.set i.toNat v)) : wp (wr b m i v) Q :=
  ⟨_, by simp [wr, hi.1, hi.2], h⟩

theorem wp_ci32 {x : Int} {Q : Int → Prop} (hx : -2147483648 ≤ x ∧ x ≤ 2147483647) (h : Q x) : wp (ci32 x) Q := by
  unfold ci32; exact wp_i32 hx h

theorem wp_ci64 {x : Int} {Q : Int → Prop} (hx : -9223372036854775808 ≤ x ∧ x ≤ 9223372036854775807) (h : Q x) :
    wp (ci64 x) Q := by
  unfold ci64; exact wp_i64 hx h

theorem wp_mod32 {a b : Int} {Q : Int → Prop} (hb : b ≠ 0) (hm : b ≠ -1 ∨ a ≠ -2147483648)
    (h : Q (a.tmod b)) : wp (mod32 a b) Q :=
  ⟨_, by
    have : ¬ (a = i32min ∧ b = -1) := by unfold i32min; omega
    simp [mod32, hb, this], h⟩

theorem wp_mod64 {a b : Int} {Q : Int → Prop} (hb : b ≠ 0) (hm : b ≠ -1 ∨ a ≠ -9223372036854775808)
    (h : Q (a.tmod b)) : wp (mod64 a b) Q :=
  ⟨_, by
    have : ¬ (a = i64min ∧ b = -1) := by unfold i64min; omega
    simp [mod64, hb, this], h⟩

theorem wp_div32 {a b : Int} {Q : Int → Prop} (hb : b ≠ 0)
    (hr : -2147483648 ≤ a.tdiv b ∧ a.tdiv b ≤ 2147483647) (h : Q (a.tdiv b)) : wp (div32 a b) Q := by
  simp only [div32, hb, if_false]; exact wp_i32 hr h

theorem wp_div64 {a b : Int} {Q : Int → Prop} (hb : b ≠ 0)
    (hr : -9223372036854775808 ≤ a.tdiv b ∧ a.tdiv b ≤ 9223372036854775807) (h : Q (a.tdiv b)) :
    wp (div64 a b) Q := by
  simp only [div64, hb, if_false]; exact wp_i64 hr h

/-- one statement of a generated definition; side conditions (bounds, ranges, divisors) are left as goals -/
macro "cg_step" : tactic => `(tactic| first
  | apply wp_bind
  | (refine wp_rd ⟨?_, ?_⟩ ?_)
  | (refine wp_wr ⟨?_, ?_⟩ ?_)
  | (refine wp_ci32 ⟨?_, ?_⟩ ?_)
  | (refine wp_ci64 ⟨?_, ?_⟩ ?_)
  | (refine wp_mod32 ?_ ?_ ?_)
  | (refine wp_mod64 ?_ ?_ ?_)
  | (refine wp_div32 ?_ ⟨?_, ?_⟩ ?_)
  | (refine wp_div64 ?_ ⟨?_, ?_⟩ ?_)
  | (refine wp_ite (fun _ => ?_) (fun _ => ?_))
  | (refine wp_bite (fun _ => ?_) (fun _ => ?_))
  | apply wp_pure
  | apply wp_ok)

/-- call of a generated function whose specification is known: extended by `macro_rules` after each specification -/
syntax "cg_call" : tactic
macro_rules | `(tactic| cg_call) => `(tactic| fail "no specification applies")

/-- side conditions: linear arithmetic, after evaluating lengths of literal lists and of `set` -/
macro "cg_side" : tactic => `(tactic| first
  | omega
  | trivial
  | (simp only [List.length_cons, List.length_nil, List.length_set, List.length_map, List.length_range, uninit,
      Nat.cast_ofNat, Int.toNat_natCast, Nat.cast_add, Nat.cast_one, Nat.cast_zero, decide_eq_true_eq,
      decide_eq_false_iff_not, Bool.not_eq_true, Bool.true_eq_false, Bool.false_eq_true, not_true_eq_false,
      not_false_eq_true, true_or, or_true, false_or, or_false, true_and, and_true, not_not] at * <;> omega))

/-- evaluates accesses to lists given by their first elements (`x :: y :: rest`, literals) -/
macro "cg_norm" : tactic => `(tactic| simp only [Int.reduceToNat, Int.toNat_natCast, Int.toNat_zero, Int.toNat_one, List.set_cons_zero,
  List.set_cons_succ, List.getD_cons_zero, List.getD_cons_succ, List.length_set, List.length_cons, List.length_nil])

/-- walks through a generated definition; stops at loops and at what `cg_side` cannot close -/
macro "cg_run" : tactic => `(tactic| repeat' (first | cg_norm | cg_call | cg_step | cg_side))

/-- closes the leaves: remaining list accesses, case splits of the specification, linear arithmetic -/
macro "cg_fin" : tactic => `(tactic| ((try simp at *) <;> (repeat' split) <;> (first | omega | simp_all)))

end HydroVerif.C05
