/-
C02 — Softmax helper lemmas (none of these is a property statement): the matrix of partial derivatives
`J = diag(1/x) + (1/(1-s)) 1 1ᵀ` over `Fin n`, its determinant for every `n` by the matrix determinant lemma
(`J = diag(1/x) (1 + x cᵀ)`, `det(1 + u vᵀ) = 1 + v·u`), the partial derivatives of the coordinate functions, and
the bridges between the list model (`sumL`, `prodL`, `fwdRow`, `pdEntry`) and `Fin n → ℝ`.
-/
import HydroVerif.Lemmas.C02
import Mathlib.LinearAlgebra.Matrix.SchurComplement
import Mathlib.Algebra.BigOperators.Fin
import Mathlib.LinearAlgebra.Matrix.Determinant.Basic

namespace HydroVerif.C02
open HydroVerif.C01 Matrix Finset

namespace Softmax
open HydroVerif.C01.Softmax

/-- `∂y_i/∂x_j = δ_ij/x_i + 1/(1 - Σx)` -/
noncomputable def pdMat {n : ℕ} (x : Fin n → ℝ) : Matrix (Fin n) (Fin n) ℝ :=
  Matrix.of fun i j => (if i = j then 1 / x i else 0) + 1 / (1 - ∑ k, x k)

/-- coordinate `i` of the forward transform of the row `x` -/
noncomputable def fwdFn {n : ℕ} (x : Fin n → ℝ) (i : Fin n) : ℝ := Real.log (x i / (1 - ∑ k, x k))

theorem pdMat_factor {n : ℕ} (x : Fin n → ℝ) (hx : ∀ i, x i ≠ 0) :
    pdMat x = Matrix.diagonal (fun i => 1 / x i) *
      (1 + replicateCol Unit x * replicateRow Unit (fun _ => 1 / (1 - ∑ k, x k))) := by
  rw [Matrix.mul_add, Matrix.mul_one]
  ext i j
  rw [Matrix.add_apply, Matrix.diagonal_mul]
  simp only [pdMat, Matrix.of_apply, Matrix.diagonal_apply, Matrix.mul_apply, replicateCol_apply,
    replicateRow_apply, Finset.univ_unique, Finset.sum_singleton]
  congr 1
  have := hx i
  field_simp

/-- the determinant of the matrix of partial derivatives, for every size `n` -/
theorem det_pdMat {n : ℕ} (x : Fin n → ℝ) (hx : ∀ i, x i ≠ 0) :
    (pdMat x).det = (1 + (∑ k, x k) / (1 - ∑ k, x k)) / ∏ k, x k := by
  rw [pdMat_factor x hx, Matrix.det_mul, Matrix.det_diagonal, det_one_add_replicateCol_mul_replicateRow]
  have h1 : (fun _ : Fin n => 1 / (1 - ∑ k, x k)) ⬝ᵥ x = (∑ k, x k) / (1 - ∑ k, x k) := by
    simp only [dotProduct, ← Finset.mul_sum]
    ring
  rw [h1, Finset.prod_div_distrib, Finset.prod_const_one]
  ring

/-- every partial derivative is positive on the domain: each output increases with each input -/
theorem pdMat_pos {n : ℕ} (x : Fin n → ℝ) (hpos : ∀ k, 0 < x k) (hs : ∑ k, x k < 1) (i j : Fin n) :
    0 < pdMat x i j := by
  simp only [pdMat, Matrix.of_apply]
  have h1 : 0 < 1 / (1 - ∑ k, x k) := by apply div_pos one_pos; linarith
  split_ifs
  · have := hpos i; positivity
  · linarith

theorem sum_update {n : ℕ} (x : Fin n → ℝ) (j : Fin n) (t : ℝ) :
    ∑ k, Function.update x j t k = t + (∑ k, x k - x j) := by
  rw [Finset.sum_update_of_mem (Finset.mem_univ j), Finset.sdiff_singleton_eq_erase,
    Finset.sum_erase_eq_sub (Finset.mem_univ j)]

/-- `∂ forward(x)_i / ∂ x_j` is the `(i, j)` entry of `pdMat x` -/
theorem hasDerivAt_fwdFn {n : ℕ} (x : Fin n → ℝ) (hpos : ∀ k, 0 < x k) (hs : ∑ k, x k < 1) (i j : Fin n) :
    HasDerivAt (fun t => fwdFn (Function.update x j t) i) (pdMat x i j) (x j) := by
  have hd0 : 0 < 1 - ∑ k, x k := by linarith
  set r := ∑ k, x k - x j with hr
  have hden : HasDerivAt (fun t : ℝ => 1 - (t + r)) (-1) (x j) := by
    have := ((hasDerivAt_id (x j)).add_const r).const_sub 1
    simpa using this
  have hden0 : 1 - (x j + r) = 1 - ∑ k, x k := by rw [hr]; ring
  simp only [fwdFn, sum_update, pdMat, Matrix.of_apply]
  by_cases hij : i = j
  · subst hij
    simp only [Function.update_self, if_true]
    have hq : HasDerivAt (fun t : ℝ => t / (1 - (t + r)))
        ((1 * (1 - (x i + r)) - x i * -1) / (1 - (x i + r)) ^ 2) (x i) :=
      (hasDerivAt_id (x i)).fun_div hden (by rw [hden0]; exact hd0.ne')
    have hq0 : x i / (1 - (x i + r)) ≠ 0 := by rw [hden0]; exact (div_pos (hpos i) hd0).ne'
    refine (hq.log hq0).congr_deriv ?_
    rw [hden0]
    have := (hpos i).ne'
    field_simp
    ring
  · simp only [Function.update_of_ne hij, if_neg hij, zero_add]
    have hq : HasDerivAt (fun t : ℝ => x i / (1 - (t + r)))
        ((0 * (1 - (x j + r)) - x i * -1) / (1 - (x j + r)) ^ 2) (x j) :=
      (hasDerivAt_const (x j) (x i)).fun_div hden (by rw [hden0]; exact hd0.ne')
    have hq0 : x i / (1 - (x j + r)) ≠ 0 := by rw [hden0]; exact (div_pos (hpos i) hd0).ne'
    refine (hq.log hq0).congr_deriv ?_
    rw [hden0]
    have := (hpos i).ne'
    field_simp
    ring

/-! ### bridges to the list model -/

theorem prodFrom_eq (acc : ℝ) (xs : List ℝ) : prodFrom acc xs = acc * xs.prod := by
  induction xs generalizing acc with
  | nil => simp [prodFrom]
  | cons x xs ih => simp [prodFrom, ih, mul_assoc]

theorem prodL_eq (xs : List ℝ) : prodL xs = xs.prod := by
  simp [prodL, prodFrom_eq]

theorem sum_get (xs : List ℝ) : ∑ k : Fin xs.length, xs[k] = xs.sum := by
  conv_rhs => rw [← List.ofFn_getElem (xs := xs)]
  rw [List.sum_ofFn]
  rfl

theorem prod_get (xs : List ℝ) : ∏ k : Fin xs.length, xs[k] = xs.prod := by
  conv_rhs => rw [← List.ofFn_getElem (xs := xs)]
  rw [List.prod_ofFn]
  rfl

/-- the executable entry of Model/C02 is the entry of `pdMat` at the row read as a function on `Fin n` -/
theorem pdEntry_eq (xs : List ℝ) (i j : Fin xs.length) :
    C02.Softmax.pdEntry xs i j = pdMat (fun k : Fin xs.length => xs[k]) i j := by
  simp only [C02.Softmax.pdEntry, pdMat, Matrix.of_apply, sumL_eq, sum_get]

/-- the forward row of the model, read coordinate by coordinate -/
theorem fwdRow_ofFn {n : ℕ} (x : Fin n → ℝ) : fwdRow (List.ofFn x) = List.ofFn (fwdFn x) := by
  simp only [fwdRow, sumL_eq, List.sum_ofFn, transc_log, List.map_ofFn]
  rfl

end Softmax

/-! ### the executable Laplace expansion `detL` of Model/C02 (nested lists) is `Matrix.det` -/

theorem eraseIdx_ofFn {α : Type} {n : ℕ} (f : Fin (n + 1) → α) (k : Fin (n + 1)) :
    (List.ofFn f).eraseIdx k = List.ofFn fun i => f (k.succAbove i) := by
  apply List.ext_getElem
  · have := k.isLt
    simp [List.length_eraseIdx]
    omega
  · intro i h1 h2
    simp only [List.length_ofFn] at h2
    rw [List.getElem_eraseIdx]
    split_ifs with h
    · rw [List.getElem_ofFn, List.getElem_ofFn]; congr 1
      apply Fin.ext
      rw [Fin.succAbove_of_castSucc_lt _ _ (Fin.lt_def.mpr (by simpa using h))]; rfl
    · rw [List.getElem_ofFn, List.getElem_ofFn]; congr 1
      apply Fin.ext
      rw [Fin.succAbove_of_le_castSucc _ _ (Fin.le_def.mpr (by simpa using not_lt.mp h))]; rfl

/-- rows of a matrix as nested lists -/
noncomputable def toL {m n : ℕ} (A : Matrix (Fin m) (Fin n) ℝ) : List (List ℝ) :=
  List.ofFn fun i => List.ofFn fun j => A i j

theorem laplaceRow_ofFn {n : ℕ} (g : ℕ → ℝ) (s : ℝ) (k : ℕ) (f : Fin n → ℝ) :
    C02.Softmax.laplaceRow g s k (List.ofFn f) = ∑ j : Fin n, s * (-1) ^ (j : ℕ) * f j * g (k + j) := by
  induction n generalizing s k with
  | zero => simp [C02.Softmax.laplaceRow]
  | succ n ih =>
    rw [List.ofFn_succ, C02.Softmax.laplaceRow, ih, Fin.sum_univ_succ]
    simp only [Fin.val_zero, pow_zero, mul_one, add_zero, Fin.val_succ]
    congr 1
    apply Finset.sum_congr rfl
    intro j _
    rw [pow_succ]
    have : k + 1 + (j : ℕ) = k + ((j : ℕ) + 1) := by ring
    rw [this]; ring

theorem detL_toL {n : ℕ} (A : Matrix (Fin n) (Fin n) ℝ) : C02.Softmax.detL n (toL A) = A.det := by
  induction n with
  | zero => simp [C02.Softmax.detL]
  | succ n ih =>
    have hL : toL A = (List.ofFn fun j => A 0 j) :: toL (fun i : Fin n => A i.succ) := by
      unfold toL; rw [List.ofFn_succ]
    rw [hL, C02.Softmax.detL, laplaceRow_ofFn, Matrix.det_succ_row_zero]
    apply Finset.sum_congr rfl
    intro j _
    have hm : (toL (fun i : Fin n => A i.succ)).map (fun row => row.eraseIdx (0 + (j : ℕ)))
        = toL (A.submatrix Fin.succ j.succAbove) := by
      unfold toL
      rw [List.map_ofFn]
      congr 1; funext i
      simp only [Function.comp, zero_add]
      rw [eraseIdx_ofFn]; rfl
    rw [hm, ih]
    ring

end HydroVerif.C02
