/-
C02 — Softmax helper lemmas (placeholder header; filled below).
-/
import HydroVerif.Lemmas.C02
