/-
Lemmas for `Model/C07Round.lean`: error propagation through the rounded kernels under the standard model of floating
point arithmetic (`|rnd t - t| ≤ u |t|` for every exact result `t`), over any ordered field with floor.
-/
import HydroVerif.Model.C07Round
import HydroVerif.Lemmas.C07Kernel
import Mathlib.Algebra.Order.AbsoluteValue.Basic
import Mathlib.Data.Rat.Floor

set_option linter.unusedSectionVars false

namespace HydroVerif.C07

variable {α : Type} [Field α] [LinearOrder α] [IsStrictOrderedRing α] [FloorRing α]

/-- the standard model of floating point arithmetic: every rounded result is within the relative error `u` of the
exact one (IEEE double, round to nearest, away from underflow / overflow: `u = 2^-53`) -/
def RelErr (rnd : α → α) (u : α) : Prop := ∀ t, |rnd t - t| ≤ u * |t|

/-- accumulated relative error of `rnd(rnd(a)/c)` -/
def quotBudget (u : α) : α := 2 * u + u ^ 2
/-- accumulated relative error of `rnd(ll + rnd(c * rnd(m)))`, relative to `|ll| + |c| |m|` -/
def centreBudget (u : α) : α := 3 * u + 3 * u ^ 2 + u ^ 3
/-- error, in cell sizes per unit of `|ll|/csz + k + 1/2`, of the quotient recomputed from a computed centre -/
def rtBudget (u : α) : α := centreBudget u + quotBudget u + centreBudget u * quotBudget u

theorem quotBudget_nonneg {u : α} (hu : 0 ≤ u) : 0 ≤ quotBudget u := by unfold quotBudget; positivity
theorem centreBudget_nonneg {u : α} (hu : 0 ≤ u) : 0 ≤ centreBudget u := by unfold centreBudget; positivity
theorem rtBudget_nonneg {u : α} (hu : 0 ≤ u) : 0 ≤ rtBudget u := by
  have := quotBudget_nonneg hu
  have := centreBudget_nonneg hu
  unfold rtBudget; positivity

theorem relErr_abs_le {rnd : α → α} {u : α} (hr : RelErr rnd u) (t : α) : |rnd t| ≤ (1 + u) * |t| := by
  have h := hr t
  have : |rnd t| ≤ |rnd t - t| + |t| := by
    have := abs_add_le (rnd t - t) t
    simpa using this
  linarith

/-- the quotient `rnd(rnd(a)/c)` is within `(2u + u²) |a/c|` of `a/c` -/
theorem quot_err {rnd : α → α} {u : α} (hr : RelErr rnd u) (hu : 0 ≤ u) (a c : α) :
    |rnd (rnd a / c) - a / c| ≤ quotBudget u * |a / c| := by
  have h1 : |rnd a / c - a / c| ≤ u * |a / c| := by
    rw [← sub_div, abs_div, abs_div, ← mul_div_assoc]
    exact div_le_div_of_nonneg_right (hr a) (abs_nonneg c)
  have hb : |rnd a / c| ≤ (1 + u) * |a / c| := by
    have := abs_add_le (rnd a / c - a / c) (a / c)
    simp only [sub_add_cancel] at this
    linarith
  have h2 : |rnd (rnd a / c) - rnd a / c| ≤ u * ((1 + u) * |a / c|) :=
    (hr _).trans (mul_le_mul_of_nonneg_left hb hu)
  have := abs_add_le (rnd (rnd a / c) - rnd a / c) (rnd a / c - a / c)
  simp only [sub_add_sub_cancel] at this
  unfold quotBudget
  nlinarith [abs_nonneg (a / c)]

/-- the centre `rnd(ll + rnd(c * rnd(m)))` is within `(3u + 3u² + u³)(|ll| + |c||m|)` of `ll + c m` -/
theorem centre_err {rnd : α → α} {u : α} (hr : RelErr rnd u) (hu : 0 ≤ u) (ll c m : α) :
    |rnd (ll + rnd (c * rnd m)) - (ll + c * m)| ≤ centreBudget u * (|ll| + |c| * |m|) := by
  set C := |c| * |m| with hC
  have hC0 : 0 ≤ C := by positivity
  -- m' = rnd m
  have e1 : |c * rnd m - c * m| ≤ u * C := by
    rw [← mul_sub, abs_mul, hC, ← mul_assoc, mul_comm u, mul_assoc]
    exact mul_le_mul_of_nonneg_left (hr m) (abs_nonneg c)
  have b1 : |c * rnd m| ≤ (1 + u) * C := by
    have := abs_add_le (c * rnd m - c * m) (c * m)
    simp only [sub_add_cancel] at this
    rw [abs_mul c m] at this
    linarith
  -- p' = rnd (c * m')
  have e2 : |rnd (c * rnd m) - c * rnd m| ≤ u * ((1 + u) * C) :=
    (hr _).trans (mul_le_mul_of_nonneg_left b1 hu)
  have e12 : |rnd (c * rnd m) - c * m| ≤ u * ((1 + u) * C) + u * C := by
    have := abs_add_le (rnd (c * rnd m) - c * rnd m) (c * rnd m - c * m)
    simp only [sub_add_sub_cancel] at this
    linarith
  have b2 : |rnd (c * rnd m)| ≤ (1 + u) * ((1 + u) * C) :=
    (relErr_abs_le hr _).trans (mul_le_mul_of_nonneg_left b1 (by linarith))
  -- s = ll + p'
  have b3 : |ll + rnd (c * rnd m)| ≤ |ll| + (1 + u) * ((1 + u) * C) :=
    (abs_add_le _ _).trans (by linarith)
  have e3 : |rnd (ll + rnd (c * rnd m)) - (ll + rnd (c * rnd m))| ≤ u * (|ll| + (1 + u) * ((1 + u) * C)) :=
    (hr _).trans (mul_le_mul_of_nonneg_left b3 hu)
  have := abs_add_le (rnd (ll + rnd (c * rnd m)) - (ll + rnd (c * rnd m))) (rnd (c * rnd m) - c * m)
  have e : rnd (ll + rnd (c * rnd m)) - (ll + rnd (c * rnd m)) + (rnd (c * rnd m) - c * m)
      = rnd (ll + rnd (c * rnd m)) - (ll + c * m) := by ring
  rw [e] at this
  unfold centreBudget
  have hl := abs_nonneg ll
  have hu2 : 0 ≤ u ^ 2 := by positivity
  have hu3 : 0 ≤ u ^ 3 := by positivity
  nlinarith [mul_nonneg hu2 hl, mul_nonneg hu3 hl, mul_nonneg hu hl, mul_nonneg hu hC0]

/-- **one axis of the round trip.** The quotient recomputed (with rounding) from the centre of interval `k`
(computed with rounding) has floor `k`, as long as the accumulated error stays below half a cell -/
theorem axis_roundtrip {rnd : α → α} {u : α} (hr : RelErr rnd u) (hu : 0 ≤ u) {ll csz : α} (hcsz : 0 < csz)
    {k : Int} (hk : 0 ≤ k) (hB : rtBudget u * (|ll| / csz + (k : α) + 1 / 2) < 1 / 2) :
    ⌊rnd (rnd (centreR rnd ll csz k - ll) / csz)⌋ = k := by
  have hk' : (0 : α) ≤ (k : α) := by exact_mod_cast hk
  set m : α := (k : α) + 1 / 2 with hm
  have hm0 : 0 < m := by positivity
  set K : α := |ll| / csz + m with hKdef
  have hK0 : 0 < K := by
    have : 0 ≤ |ll| / csz := div_nonneg (abs_nonneg _) hcsz.le
    linarith
  set x' := centreR rnd ll csz k with hx'
  have hA := centreBudget_nonneg hu
  have hQ := quotBudget_nonneg hu
  -- error of the centre, in cell sizes
  have ex : |x' - (ll + csz * m)| ≤ centreBudget u * (|ll| + csz * m) := by
    have := centre_err hr hu ll csz m
    rw [abs_of_pos hcsz, abs_of_pos hm0] at this
    rw [hx']; unfold centreR
    simpa [hm] using this
  have eq : |(x' - ll) / csz - m| ≤ centreBudget u * K := by
    have h : (x' - ll) / csz - m = (x' - (ll + csz * m)) / csz := by field_simp; ring
    rw [h, abs_div, abs_of_pos hcsz, div_le_iff₀ hcsz]
    have : centreBudget u * K * csz = centreBudget u * (|ll| + csz * m) := by
      rw [hKdef]; field_simp
    rw [this]; exact ex
  have bq : |(x' - ll) / csz| ≤ m + centreBudget u * K := by
    have := abs_add_le ((x' - ll) / csz - m) m
    simp only [sub_add_cancel] at this
    rw [abs_of_pos hm0] at this
    linarith
  have e2 := quot_err hr hu (x' - ll) csz
  have hmK : m ≤ K := by
    have : 0 ≤ |ll| / csz := div_nonneg (abs_nonneg _) hcsz.le
    linarith
  -- total error
  have tot : |rnd (rnd (x' - ll) / csz) - m| ≤ rtBudget u * K := by
    have := abs_add_le (rnd (rnd (x' - ll) / csz) - (x' - ll) / csz) ((x' - ll) / csz - m)
    simp only [sub_add_sub_cancel] at this
    have h3 : quotBudget u * |(x' - ll) / csz| ≤ quotBudget u * (K + centreBudget u * K) :=
      mul_le_mul_of_nonneg_left (by linarith) hQ
    unfold rtBudget
    nlinarith
  have hB' : rtBudget u * K < 1 / 2 := by
    rw [hKdef, hm]; rw [← add_assoc]; exact hB
  rw [abs_le] at tot
  rw [Int.floor_eq_iff]
  constructor
  · linarith [tot.1]
  · linarith [tot.2]

/-! ### `round53` satisfies the standard model with `u = 2^-53` -/

theorem ratAbs_eq (t : ℚ) : ratAbs t = |t| := by
  unfold ratAbs
  split
  · rename_i h; rw [abs_of_neg h]
  · rename_i h; rw [abs_of_nonneg (not_lt.1 h)]

theorem pow2_pos (e : Int) : 0 < pow2 e := by
  unfold pow2
  split <;> positivity

theorem roundHalfEven_err (m : ℚ) : |(roundHalfEven m : ℚ) - m| ≤ 1 / 2 := by
  have h0 : ((m.floor : Int) : ℚ) ≤ m := Int.floor_le m
  have h1 : m < ((m.floor : Int) : ℚ) + 1 := Int.lt_floor_add_one m
  unfold roundHalfEven
  simp only
  rw [abs_le]
  split
  · rename_i h; constructor <;> linarith
  · rename_i h
    split
    · rename_i h'; push_cast; constructor <;> linarith
    · rename_i h'
      have : m - ((m.floor : Int) : ℚ) = 1 / 2 := le_antisymm (not_lt.1 h') (not_lt.1 h)
      split
      · constructor <;> linarith
      · push_cast; constructor <;> linarith

/-- `round53` is within the relative error `2^-53` of the exact value: the standard model holds for it -/
theorem round53_err (t : ℚ) : |round53 t - t| ≤ 1 / 2 ^ 53 * |t| := by
  unfold round53
  split
  · rename_i h; subst h; simp
  · simp only
    split
    · rename_i h
      rw [ratAbs_eq] at h
      set e := binExp t
      have hp := pow2_pos e
      set s : ℚ := pow2 e / ((2 ^ 52 : Nat) : ℚ) with hs
      have hs0 : 0 < s := by rw [hs]; positivity
      have hm := roundHalfEven_err (t / s)
      have e1 : (roundHalfEven (t / s) : ℚ) * s - t = ((roundHalfEven (t / s) : ℚ) - t / s) * s := by
        field_simp
      rw [e1, abs_mul, abs_of_pos hs0]
      have : |(roundHalfEven (t / s) : ℚ) - t / s| * s ≤ 1 / 2 * s := mul_le_mul_of_nonneg_right hm hs0.le
      have h2 : 1 / 2 * s = 1 / 2 ^ 53 * pow2 e := by
        rw [hs]; push_cast; ring
      have h3 : (1 : ℚ) / 2 ^ 53 * pow2 e ≤ 1 / 2 ^ 53 * |t| := mul_le_mul_of_nonneg_left h (by positivity)
      linarith
    · simp

theorem round53_relErr : RelErr round53 ((1 : ℚ) / 2 ^ 53) := round53_err

end HydroVerif.C07
