/-
C17 — `rnd53` (round to nearest, ties to even, 53-bit significand, unbounded exponent; the function the
driver runs against the real kernels) satisfies the standard model with `u = 2^-53`.
-/
import HydroVerif.Lemmas.C17Rounded
import Mathlib.Data.Rat.Floor
import Mathlib.Algebra.Order.Floor.Ring
import Mathlib.Tactic.Ring
import Mathlib.Tactic.Linarith
import Mathlib.Tactic.Positivity
import Mathlib.Tactic.Push

namespace HydroVerif.C17

theorem pow2_eq (k : Int) : pow2 k = (2 : ℚ) ^ k := by
  unfold pow2
  split
  · rename_i h
    obtain ⟨n, rfl⟩ : ∃ n : ℕ, k = n := ⟨k.toNat, by omega⟩
    simp
  · rename_i h
    obtain ⟨n, rfl⟩ : ∃ n : ℕ, k = -(n : ℤ) := ⟨(-k).toNat, by omega⟩
    simp

theorem ilog2_le (a : ℚ) (ha : 0 < a) : (2 : ℚ) ^ (ilog2 a) ≤ a := by
  unfold ilog2
  simp only
  split
  · rename_i h; rw [pow2_eq] at h; exact h
  · have hnum : 0 < a.num := Rat.num_pos.mpr ha
    have hn0 : a.num.toNat ≠ 0 := by omega
    have hn := Nat.log2_self_le hn0
    have hd := @Nat.lt_log2_self a.den
    set ln := a.num.toNat.log2
    set ld := a.den.log2
    have hnq : ((2 : ℚ) ^ ln) ≤ (a.num.toNat : ℚ) := by exact_mod_cast hn
    have hdq : (a.den : ℚ) ≤ (2 : ℚ) ^ (ld + 1) := by exact_mod_cast hd.le
    have hdpos : (0 : ℚ) < a.den := by exact_mod_cast a.den_pos
    have hcast : ((a.num.toNat : ℕ) : ℚ) = (a.num : ℚ) := by
      have : ((a.num.toNat : ℕ) : ℤ) = a.num := Int.toNat_of_nonneg hnum.le
      exact_mod_cast congrArg (fun z : ℤ => (z : ℚ)) this
    have ha' : a = (a.num.toNat : ℚ) / (a.den : ℚ) := by
      rw [hcast]; exact (Rat.num_div_den a).symm
    have e : (2 : ℚ) ^ ((ln : ℤ) - (ld : ℤ) - 1) = (2 : ℚ) ^ ln / (2 : ℚ) ^ (ld + 1) := by
      rw [show (ln : ℤ) - (ld : ℤ) - 1 = (ln : ℤ) - ((ld + 1 : ℕ) : ℤ) by push_cast; ring,
        zpow_sub₀ (two_ne_zero), zpow_natCast, zpow_natCast]
    rw [e, ha']
    exact div_le_div₀ (by positivity) hnq hdpos hdq

theorem roundHalfEven_err (q : ℚ) : |((roundHalfEven q : ℤ) : ℚ) - q| ≤ 1 / 2 := by
  have h1 : ((q.floor : ℤ) : ℚ) ≤ q := Int.floor_le q
  have h2 : q < ((q.floor : ℤ) : ℚ) + 1 := Int.lt_floor_add_one q
  unfold roundHalfEven
  simp only
  rw [abs_le]
  split_ifs <;> constructor <;> push_cast <;> linarith

theorem rnd_pos_err (a : ℚ) (ha : 0 < a) :
    |((roundHalfEven (a * pow2 (-(ilog2 a - 52))) : ℤ) : ℚ) * pow2 (ilog2 a - 52) - a| ≤ (2 : ℚ) ^ (-53 : ℤ) * a := by
  rw [pow2_eq, pow2_eq]
  set e := ilog2 a
  have hq := roundHalfEven_err (a * (2 : ℚ) ^ (-(e - 52)))
  set r : ℚ := ((roundHalfEven (a * (2 : ℚ) ^ (-(e - 52))) : ℤ) : ℚ)
  have hpos : (0 : ℚ) < (2 : ℚ) ^ (e - 52) := zpow_pos (by norm_num) _
  have hinv : (2 : ℚ) ^ (-(e - 52)) * (2 : ℚ) ^ (e - 52) = 1 := by
    rw [← zpow_add₀ (two_ne_zero)]; simp
  have e1 : r * (2 : ℚ) ^ (e - 52) - a = (r - a * (2 : ℚ) ^ (-(e - 52))) * (2 : ℚ) ^ (e - 52) := by
    rw [sub_mul, mul_assoc, hinv, mul_one]
  rw [e1, abs_mul, abs_of_pos hpos]
  have e2 : (2 : ℚ) ^ (e - 52) = 2 * ((2 : ℚ) ^ (-53 : ℤ) * (2 : ℚ) ^ e) := by
    rw [← zpow_add₀ (two_ne_zero)]
    rw [show e - 52 = 1 + (-53 + e) by ring, zpow_add₀ (two_ne_zero), zpow_one]
  have hle := ilog2_le a ha
  have h53 : (0 : ℚ) < (2 : ℚ) ^ (-53 : ℤ) := zpow_pos (by norm_num) _
  calc |r - a * (2 : ℚ) ^ (-(e - 52))| * (2 : ℚ) ^ (e - 52)
      ≤ (1 / 2) * (2 : ℚ) ^ (e - 52) := mul_le_mul_of_nonneg_right hq hpos.le
    _ = (2 : ℚ) ^ (-53 : ℤ) * (2 : ℚ) ^ e := by rw [e2]; ring
    _ ≤ (2 : ℚ) ^ (-53 : ℤ) * a := mul_le_mul_of_nonneg_left hle h53.le

/-- double rounding without range limits is an instance of the standard model, `u = 2^-53` -/
theorem rnd53_std : StdModel rnd53 ((2 : ℚ) ^ (-53 : ℤ)) := by
  refine ⟨(zpow_pos (by norm_num) _).le, fun x => ?_⟩
  unfold rnd53 rndWith
  by_cases hx : x = 0
  · simp [hx]
  · simp only [hx, if_false]
    by_cases hneg : x < 0
    · simp only [hneg, if_true]
      have ha : 0 < -x := by linarith
      have := rnd_pos_err (-x) ha
      rw [abs_of_neg hneg]
      have e : -(((roundHalfEven (-x * pow2 (-(ilog2 (-x) - 52))) : ℤ) : ℚ) * pow2 (ilog2 (-x) - 52)) - x =
          -(((roundHalfEven (-x * pow2 (-(ilog2 (-x) - 52))) : ℤ) : ℚ) * pow2 (ilog2 (-x) - 52) - -x) := by ring
      rw [e, abs_neg]
      exact this
    · simp only [hneg, if_false]
      have ha : 0 < x := lt_of_le_of_ne (not_lt.mp hneg) (Ne.symm hx)
      have := rnd_pos_err x ha
      rw [abs_of_pos ha]
      exact this

end HydroVerif.C17
