/-
Lemmas for `Model/C07Kernel.lean` over an ordered field with floor: the kernel as written (extent test on the
floored values, then the casts) computes `cellOfNxNy` of the integer floors, hence equals the cast-first form.
-/
import HydroVerif.Model.C07Kernel
import HydroVerif.Lemmas.C07Coord

set_option linter.unusedSectionVars false

namespace HydroVerif.C07

variable {α : Type} [Field α] [LinearOrder α] [IsStrictOrderedRing α] [FloorRing α]

/-- exact-field meaning of C `floor`: the integer floor, cast back -/
scoped instance fieldFloor : FloorNum α where
  floor x := ((⌊x⌋ : Int) : α)

@[simp] theorem floorNum_eq (x : α) : (FloorNum.floor x : α) = ((⌊x⌋ : Int) : α) := rfl

theorem truncToInt_intCast (n : Int) : Trunc.truncToInt ((n : Int) : α) = n := by
  rw [truncToInt_eq]
  split <;> simp

/-- after the quotients the kernel computes the range test / numbering of the integer floors -/
theorem cellOfQuot_eq (nrows ncols : Int) (qx qy : α) :
    cellOfQuot nrows ncols qx qy = cellOfNxNy nrows ncols ⌊qx⌋ (nrows - 1 - ⌊qy⌋) := by
  unfold cellOfQuot cellOfNxNy
  simp only [floorNum_eq, ofInt_eq, truncToInt_intCast, ge_iff_le, Bool.and_eq_true, decide_eq_true_eq]
  have e1 : ((0 : α) ≤ ((⌊qx⌋ : Int) : α)) ↔ 0 ≤ ⌊qx⌋ := by exact_mod_cast Iff.rfl
  have e2 : (((⌊qx⌋ : Int) : α) < (ncols : α)) ↔ ⌊qx⌋ < ncols := by exact_mod_cast Iff.rfl
  have e3 : ((0 : α) ≤ ((⌊qy⌋ : Int) : α)) ↔ 0 ≤ ⌊qy⌋ := by exact_mod_cast Iff.rfl
  have e4 : (((⌊qy⌋ : Int) : α) < (nrows : α)) ↔ ⌊qy⌋ < nrows := by exact_mod_cast Iff.rfl
  split <;> split <;> rename_i h1 h2 <;> first | rfl | (exfalso; rw [e1, e2, e3, e4] at h1; omega)

/-- the kernel as written equals the cast-first form, for every geometry and every point -/
theorem coord2cellK_eq (g : Geom α) (x y : α) : coord2cellK g x y = coord2cell g x y := by
  unfold coord2cellK quotients coord2cell
  rw [cellOfQuot_eq]
  rfl

/-- a perturbed quotient has the same floor when the exact one is at least the perturbation away from
the integers on both sides -/
theorem floor_eq_of_approx {q q' δ : α} {n : Int} (h : |q' - q| ≤ δ) (h0 : (n : α) + δ ≤ q)
    (h1 : q + δ < (n : α) + 1) : ⌊q'⌋ = n := by
  rw [abs_le] at h
  rw [Int.floor_eq_iff]
  constructor <;> linarith [h.1, h.2]

theorem floor_neg_of_approx {q q' δ : α} (h : |q' - q| ≤ δ) (h0 : q + δ < 0) : ⌊q'⌋ < 0 := by
  rw [abs_le] at h
  rw [Int.floor_lt]
  push_cast
  linarith [h.2]

theorem floor_ge_of_approx {q q' δ : α} {n : Int} (h : |q' - q| ≤ δ) (h0 : (n : α) + δ ≤ q) : n ≤ ⌊q'⌋ := by
  rw [abs_le] at h
  rw [Int.le_floor]
  linarith [h.1]

end HydroVerif.C07
