/-
Helper lemmas for C11 (flow accumulation): the one-entry `c_downstream`, the walk along a downstream chain
(`walk` = a pointwise description in terms of `endsAt` / `hitCount`), the outer loop, and the loop invariant
of the acyclic case. Generic over the value type (`[Add α]` only): no algebraic law of `+` is used here.
-/
import HydroVerif.Model.C11
import HydroVerif.Lemmas.C07Grid

namespace HydroVerif.C11
open HydroVerif.C07

/-- what the wrapper guarantees about the flow-direction grid handed to the kernel -/
structure WF (g : FlowGrid) : Prop where
  ncols_pos : 0 < g.ncols
  size_eq : g.flowdir.size = g.ntot.toNat

/-! ### the downstream cell -/

theorem downScan_cases (nrows ncols idx fd : Int) (l : List Int) (j : Nat) (d : Int) :
    downScan nrows ncols idx fd l j d = d ∨
      ∃ k, j ≤ k ∧ k < j + l.length ∧ downScan nrows ncols idx fd l j d = neighbour nrows ncols idx k := by
  induction l generalizing j d with
  | nil => left; rfl
  | cons code rest ih =>
    unfold downScan
    rcases ih (j + 1) (if fd = code then neighbour nrows ncols idx j else d) with h | ⟨k, h1, h2, h3⟩
    · rw [h]
      split
      · right; exact ⟨j, Nat.le_refl _, by simp, rfl⟩
      · left; rfl
    · right; exact ⟨k, by omega, by simp; omega, h3⟩

theorem valid_toNat_lt {g : FlowGrid} (hg : WF g) {c : Int} (hv : validCell g.nrows g.ncols c = true) :
    c.toNat < g.flowdir.size := by
  rw [validCell_iff] at hv
  rw [hg.size_eq]
  unfold FlowGrid.ntot
  omega

/-- under the wrapper's shapes the one-entry `c_downstream` never fails on a cell of the grid -/
theorem downstream_ok {g : FlowGrid} (hg : WF g) {c : Int} (hv : validCell g.nrows g.ncols c = true) :
    downstream g c = .ok (dn g c) := by
  have hlt := valid_toNat_lt hg hv
  unfold dn downstream
  rw [if_pos hv, Array.getElem?_eq_getElem hlt]

theorem dn_of_invalid {g : FlowGrid} {c : Int} (hv : validCell g.nrows g.ncols c = false) : dn g c = -1 := by
  unfold dn downstream
  simp [hv]

theorem dn_neg_of_neg {g : FlowGrid} {c : Int} (h : c < 0) : dn g c < 0 := by
  rw [dn_of_invalid (validCell_eq_false_iff.2 (Or.inl h))]; omega

/-- the downstream cell of a cell of the grid is negative (`-2` sink, `-1` exit / unknown code) or a cell of the grid -/
theorem dn_neg_or_valid {g : FlowGrid} (hg : WF g) {c : Int} (hv : validCell g.nrows g.ncols c = true) :
    dn g c = -2 ∨ dn g c = -1 ∨ validCell g.nrows g.ncols (dn g c) = true := by
  have hlt := valid_toNat_lt hg hv
  unfold dn downstream
  rw [if_pos hv, Array.getElem?_eq_getElem hlt]
  simp only []
  split
  · left; rfl
  · right
    rcases downScan_cases g.nrows g.ncols c g.flowdir[c.toNat] g.codes 0 (-1) with h | ⟨k, -, -, h⟩
    · left; exact h
    · rw [h]
      by_cases hd : neighbour g.nrows g.ncols c k = -1
      · left; exact hd
      · right; exact neighbour_valid rfl hd

theorem dn_nonneg_valid {g : FlowGrid} (hg : WF g) {c : Int} (hv : validCell g.nrows g.ncols c = true)
    (h : 0 ≤ dn g c) : validCell g.nrows g.ncols (dn g c) = true := by
  rcases dn_neg_or_valid hg hv with h1 | h1 | h1
  · omega
  · omega
  · exact h1

/-- a cell with a non-negative downstream cell is a cell of the grid -/
theorem valid_of_dn_nonneg {g : FlowGrid} {c : Int} (h : 0 ≤ dn g c) : validCell g.nrows g.ncols c = true := by
  by_contra hv
  rw [Bool.not_eq_true] at hv
  rw [dn_of_invalid hv] at h
  omega

/-- the downstream cell is one of the eight neighbours (position `k ≠ 4` of the neighbour vector) when the
code table has its 9 entries -/
theorem dn_is_neighbour {g : FlowGrid} (hg : WF g) (hcodes : g.codes.length = 9) {c : Int}
    (hv : validCell g.nrows g.ncols c = true) (h : 0 ≤ dn g c) :
    ∃ k, k < 9 ∧ neighbour g.nrows g.ncols c k = dn g c := by
  have hlt := valid_toNat_lt hg hv
  revert h
  unfold dn downstream
  rw [if_pos hv, Array.getElem?_eq_getElem hlt]
  simp only []
  split
  · intro h; omega
  · intro h
    rcases downScan_cases g.nrows g.ncols c g.flowdir[c.toNat] g.codes 0 (-1) with h1 | ⟨k, -, hk, h1⟩
    · rw [h1] at h; omega
    · exact ⟨k, by omega, h1.symm⟩

end HydroVerif.C11
