/-
Helper lemmas for C11 (flow accumulation): the one-entry `c_downstream`, the walk along a downstream chain
(`walk` = a pointwise description in terms of `endsAt` / `hitCount`), the outer loop, and the loop invariant
of the acyclic case. Generic over the value type (`[Add α]` only): no algebraic law of `+` is used here.
-/
import HydroVerif.Model.C11
import HydroVerif.Lemmas.C07Grid

namespace HydroVerif.C11
open HydroVerif.C07

/-- what the wrapper guarantees about the flow-direction grid handed to the kernel -/
structure WF (g : FlowGrid) : Prop where
  ncols_pos : 0 < g.ncols
  size_eq : g.flowdir.size = g.ntot.toNat

/-! ### the downstream cell -/

theorem downScan_cases (nrows ncols idx fd : Int) (l : List Int) (j : Nat) (d : Int) :
    downScan nrows ncols idx fd l j d = d ∨
      ∃ k, j ≤ k ∧ k < j + l.length ∧ downScan nrows ncols idx fd l j d = neighbour nrows ncols idx k := by
  induction l generalizing j d with
  | nil => left; rfl
  | cons code rest ih =>
    unfold downScan
    rcases ih (j + 1) (if fd = code then neighbour nrows ncols idx j else d) with h | ⟨k, h1, h2, h3⟩
    · rw [h]
      split
      · right; exact ⟨j, Nat.le_refl _, by simp, rfl⟩
      · left; rfl
    · right; exact ⟨k, by omega, by simp; omega, h3⟩

theorem downScan_not_mem (nrows ncols idx fd : Int) (l : List Int) (j : Nat) (d : Int) (h : fd ∉ l) :
    downScan nrows ncols idx fd l j d = d := by
  induction l generalizing j d with
  | nil => rfl
  | cons code rest ih =>
    unfold downScan
    rw [List.mem_cons, not_or] at h
    rw [if_neg h.1]
    exact ih _ _ h.2

/-- the LAST position holding the code decides -/
theorem downScan_last (nrows ncols idx fd : Int) (l : List Int) (j : Nat) (d : Int) (k : Nat)
    (hk : l[k]? = some fd) (hlast : ∀ k', k < k' → l[k']? ≠ some fd) :
    downScan nrows ncols idx fd l j d = neighbour nrows ncols idx (j + k) := by
  induction l generalizing j d k with
  | nil => simp at hk
  | cons code rest ih =>
    unfold downScan
    cases k with
    | zero =>
      simp only [List.getElem?_cons_zero, Option.some.injEq] at hk
      subst hk
      rw [if_pos rfl, downScan_not_mem]
      · rfl
      · intro hmem
        obtain ⟨i, hi⟩ := List.getElem?_of_mem hmem
        exact hlast (i + 1) (by omega) (by simpa using hi)
    | succ k =>
      rw [ih (j + 1) _ k (by simpa using hk) (fun k' hk' => by simpa using hlast (k' + 1) (by omega))]
      congr 1; omega

theorem valid_toNat_lt {g : FlowGrid} (hg : WF g) {c : Int} (hv : validCell g.nrows g.ncols c = true) :
    c.toNat < g.flowdir.size := by
  rw [validCell_iff] at hv
  rw [hg.size_eq]
  unfold FlowGrid.ntot
  omega

/-- under the wrapper's shapes the one-entry `c_downstream` never fails on a cell of the grid -/
theorem downstream_ok {g : FlowGrid} (hg : WF g) {c : Int} (hv : validCell g.nrows g.ncols c = true) :
    downstream g c = .ok (dn g c) := by
  have hlt := valid_toNat_lt hg hv
  unfold dn downstream
  rw [if_pos hv, Array.getElem?_eq_getElem hlt]

theorem dn_of_invalid {g : FlowGrid} {c : Int} (hv : validCell g.nrows g.ncols c = false) : dn g c = -1 := by
  unfold dn downstream
  simp [hv]

theorem dn_neg_of_neg {g : FlowGrid} {c : Int} (h : c < 0) : dn g c < 0 := by
  rw [dn_of_invalid (validCell_eq_false_iff.2 (Or.inl h))]; omega

/-- the downstream cell of a cell of the grid is negative (`-2` sink, `-1` exit / unknown code) or a cell of the grid -/
theorem dn_neg_or_valid {g : FlowGrid} (hg : WF g) {c : Int} (hv : validCell g.nrows g.ncols c = true) :
    dn g c = -2 ∨ dn g c = -1 ∨ validCell g.nrows g.ncols (dn g c) = true := by
  have hlt := valid_toNat_lt hg hv
  unfold dn downstream
  rw [if_pos hv, Array.getElem?_eq_getElem hlt]
  simp only []
  split
  · left; rfl
  · right
    rcases downScan_cases g.nrows g.ncols c g.flowdir[c.toNat] g.codes 0 (-1) with h | ⟨k, -, -, h⟩
    · left; exact h
    · rw [h]
      by_cases hd : neighbour g.nrows g.ncols c k = -1
      · left; exact hd
      · right; exact neighbour_valid rfl hd

theorem dn_nonneg_valid {g : FlowGrid} (hg : WF g) {c : Int} (hv : validCell g.nrows g.ncols c = true)
    (h : 0 ≤ dn g c) : validCell g.nrows g.ncols (dn g c) = true := by
  rcases dn_neg_or_valid hg hv with h1 | h1 | h1
  · omega
  · omega
  · exact h1

/-- a cell with a non-negative downstream cell is a cell of the grid -/
theorem valid_of_dn_nonneg {g : FlowGrid} {c : Int} (h : 0 ≤ dn g c) : validCell g.nrows g.ncols c = true := by
  by_contra hv
  rw [Bool.not_eq_true] at hv
  rw [dn_of_invalid hv] at h
  omega

/-- the downstream cell is one of the eight neighbours (position `k ≠ 4` of the neighbour vector) when the
code table has its 9 entries -/
theorem dn_is_neighbour {g : FlowGrid} (hg : WF g) (hcodes : g.codes.length = 9) {c : Int}
    (hv : validCell g.nrows g.ncols c = true) (h : 0 ≤ dn g c) :
    ∃ k, k < 9 ∧ neighbour g.nrows g.ncols c k = dn g c := by
  have hlt := valid_toNat_lt hg hv
  revert h
  unfold dn downstream
  rw [if_pos hv, Array.getElem?_eq_getElem hlt]
  simp only []
  split
  · intro h; omega
  · intro h
    rcases downScan_cases g.nrows g.ncols c g.flowdir[c.toNat] g.codes 0 (-1) with h1 | ⟨k, -, hk, h1⟩
    · rw [h1] at h; omega
    · exact ⟨k, by omega, h1.symm⟩

/-! ### downstream chains: `iterDn`, `endsAt`, `onPath`, `hitCount` -/

theorem iterDn_succ' (g : FlowGrid) (k : Nat) (c : Int) : iterDn g (k + 1) c = dn g (iterDn g k c) := by
  induction k generalizing c with
  | zero => rfl
  | succ k ih => rw [iterDn, ih]; rfl

theorem iterDn_add (g : FlowGrid) (a b : Nat) (c : Int) : iterDn g (a + b) c = iterDn g a (iterDn g b c) := by
  induction b generalizing c with
  | zero => rfl
  | succ b ih => rw [← Nat.add_assoc, iterDn, ih]; rfl

theorem iterDn_neg {g : FlowGrid} {c : Int} (h : c < 0) (k : Nat) : iterDn g k c < 0 := by
  induction k generalizing c with
  | zero => exact h
  | succ k ih => exact ih (dn_neg_of_neg h)

theorem iterDn_neg_mono {g : FlowGrid} {c : Int} {k k' : Nat} (h : iterDn g k c < 0) (hk : k ≤ k') :
    iterDn g k' c < 0 := by
  obtain ⟨d, rfl⟩ := Nat.exists_eq_add_of_le hk
  rw [Nat.add_comm, iterDn_add]
  exact iterDn_neg h d

theorem iterDn_nonneg_of_le {g : FlowGrid} {c : Int} {k k' : Nat} (h : 0 ≤ iterDn g k' c) (hk : k ≤ k') :
    0 ≤ iterDn g k c := by
  by_contra hn
  have := iterDn_neg_mono (g := g) (c := c) (k := k) (k' := k') (by omega) hk
  omega

/-- a positive period forbids ever leaving the non-negative cells -/
theorem iterDn_period {g : FlowGrid} {x : Int} {m : Nat} (h : iterDn g m x = x) (q : Nat) :
    iterDn g (m * q) x = x := by
  induction q with
  | zero => rfl
  | succ q ih => rw [Nat.mul_succ, iterDn_add, h, ih]

theorem endsAt_dn_neg {g : FlowGrid} {f : Nat} {x t : Int} (h : endsAt g f x = some t) : dn g t < 0 := by
  induction f generalizing x with
  | zero => simp [endsAt] at h
  | succ f ih =>
    unfold endsAt at h
    split at h
    · rename_i hd
      cases h; exact hd
    · exact ih h

theorem endsAt_eq_some_iff {g : FlowGrid} {f : Nat} {x t : Int} (hx : 0 ≤ x) :
    endsAt g f x = some t ↔ ∃ k, k < f ∧ iterDn g k x = t ∧ 0 ≤ t ∧ dn g t < 0 := by
  induction f generalizing x with
  | zero => simp [endsAt]
  | succ f ih =>
    unfold endsAt
    split
    · rename_i hd
      constructor
      · intro h
        cases h
        exact ⟨0, Nat.succ_pos _, rfl, hx, hd⟩
      · rintro ⟨k, _, hk, ht, _⟩
        cases k with
        | zero => rw [← hk]; rfl
        | succ k =>
          rw [iterDn] at hk
          have := iterDn_neg (g := g) hd k
          omega
    · rename_i hd
      rw [ih (by omega)]
      constructor
      · rintro ⟨k, hk, h1, h2, h3⟩
        exact ⟨k + 1, by omega, h1, h2, h3⟩
      · rintro ⟨k, hk, h1, h2, h3⟩
        cases k with
        | zero =>
          rw [iterDn] at h1
          subst h1
          omega
        | succ k => exact ⟨k, by omega, h1, h2, h3⟩

theorem onPath_iff {g : FlowGrid} {f : Nat} {x j : Int} (hj : 0 ≤ j) :
    onPath g f x j = true ↔ ∃ m, 1 ≤ m ∧ m ≤ f ∧ iterDn g m x = j := by
  induction f generalizing x with
  | zero =>
    simp only [onPath, Bool.false_eq_true, false_iff]
    rintro ⟨m, h1, h2, -⟩
    omega
  | succ f ih =>
    unfold onPath
    split
    · rename_i hd
      simp only [Bool.false_eq_true, false_iff]
      rintro ⟨m, h1, h2, h3⟩
      cases m with
      | zero => omega
      | succ m =>
        rw [iterDn] at h3
        have := iterDn_neg (g := g) hd m
        omega
    · rw [Bool.or_eq_true, decide_eq_true_eq, ih]
      constructor
      · rintro (h | ⟨m, h1, h2, h3⟩)
        · exact ⟨1, Nat.le_refl _, by omega, h⟩
        · exact ⟨m + 1, by omega, by omega, h3⟩
      · rintro ⟨m, h1, h2, h3⟩
        cases m with
        | zero => omega
        | succ m =>
          cases m with
          | zero => left; exact h3
          | succ m => right; exact ⟨m + 1, by omega, by omega, h3⟩

/-- a walk that reaches a terminal cell never comes back to its starting cell -/
theorem onPath_self_false {g : FlowGrid} {f f' : Nat} {x : Int} (hx : 0 ≤ x)
    (h : (endsAt g f x).isSome = true) : onPath g f' x x = false := by
  rw [← Bool.not_eq_true, onPath_iff hx]
  rintro ⟨m, h1, -, h3⟩
  obtain ⟨t, ht⟩ := Option.isSome_iff_exists.1 h
  obtain ⟨k, -, hk, -, hneg⟩ := (endsAt_eq_some_iff hx).1 ht
  have h4 : iterDn g (k + 1) x < 0 := by rw [iterDn_succ', hk]; exact hneg
  have h5 := iterDn_neg_mono (k' := m * (k + 1)) h4 (Nat.le_mul_of_pos_left _ h1)
  rw [iterDn_period h3] at h5
  omega

theorem hitCount_eq {g : FlowGrid} {f : Nat} {x : Int} (j : Int) (hx : 0 ≤ x)
    (h : (endsAt g f x).isSome = true) : hitCount g f x j = if onPath g f x j then 1 else 0 := by
  induction f generalizing x with
  | zero => rfl
  | succ f ih =>
    unfold endsAt at h
    unfold hitCount onPath
    split
    · rfl
    · rename_i hd
      rw [if_neg hd] at h
      rw [ih (by omega) h]
      by_cases hdj : dn g x = j
      · subst hdj
        rw [onPath_self_false (by omega) h]
        simp
      · simp [hdj]

/-- a terminal cell incremented by a walk that ends is the cell where that walk ends -/
theorem endsAt_of_hit {g : FlowGrid} {f : Nat} {x t j : Int} (h : endsAt g f x = some t)
    (hj : dn g j < 0) (hh : 0 < hitCount g f x j) : t = j := by
  induction f generalizing x with
  | zero => simp [endsAt] at h
  | succ f ih =>
    unfold endsAt at h
    unfold hitCount at hh
    split at hh
    · omega
    · rename_i hd
      rw [if_neg hd] at h
      by_cases hdj : dn g x = j
      · rw [hdj] at h
        cases f with
        | zero => simp [endsAt] at h
        | succ f =>
          unfold endsAt at h
          rw [if_pos hj] at h
          cases h; rfl
      · rw [if_neg hdj] at hh
        exact ih h (by omega)

/-- under termination, `onPath` does not depend on the cap: it is "some positive number of downstream steps" -/
theorem onPath_iff_exists {g : FlowGrid} {f : Nat} {x j : Int} (hx : 0 ≤ x) (hj : 0 ≤ j)
    (h : (endsAt g f x).isSome = true) : onPath g f x j = true ↔ ∃ m, 1 ≤ m ∧ iterDn g m x = j := by
  rw [onPath_iff hj]
  constructor
  · rintro ⟨m, h1, -, h3⟩; exact ⟨m, h1, h3⟩
  · rintro ⟨m, h1, h3⟩
    refine ⟨m, h1, ?_, h3⟩
    obtain ⟨t, ht⟩ := Option.isSome_iff_exists.1 h
    obtain ⟨k, hkf, hk, -, hneg⟩ := (endsAt_eq_some_iff hx).1 ht
    by_contra hm
    have h4 : iterDn g (k + 1) x < 0 := by rw [iterDn_succ', hk]; exact hneg
    have := iterDn_neg_mono (k' := m) h4 (by omega)
    omega

/-! ### the walk, pointwise -/

section Walk
variable {α : Type} [Add α]

/-- the buffer `a` has `n` entries and holds the values `A j` -/
def Rep (n : Nat) (a : Array α) (A : Nat → α) : Prop := a.size = n ∧ ∀ j, j < n → a[j]? = some (A j)

omit [Add α] in
theorem Rep.congr {n : Nat} {a : Array α} {A B : Nat → α} (h : Rep n a A) (hAB : ∀ j, j < n → A j = B j) :
    Rep n a B := ⟨h.1, fun j hj => by rw [h.2 j hj, hAB j hj]⟩

omit [Add α] in
theorem Rep.unique {n : Nat} {a : Array α} {A B : Nat → α} (h : Rep n a A) (h' : Rep n a B) {j : Nat}
    (hj : j < n) : A j = B j := by
  have := h.2 j hj
  rw [h'.2 j hj] at this
  exact (Option.some.inj this).symm

omit [Add α] in
theorem rep_self (a : Array α) (d : α) : Rep a.size a (fun j => a[j]?.getD d) :=
  ⟨rfl, fun j hj => by simp [hj]⟩

/-- effect of one walk on the accumulation values: the cell where the walk ends takes the no-data value,
every other cell receives `v` once per visit -/
def walkFn (g : FlowGrid) (nodata v : α) (fuel : Nat) (cur : Int) (A : Nat → α) : Nat → α :=
  fun j => if endsAt g fuel cur = some (j : Int) then nodata else addN (hitCount g fuel cur (j : Int)) v (A j)

theorem toNat_eq_iff {c : Int} (hc : 0 ≤ c) (j : Nat) : c.toNat = j ↔ c = (j : Int) := by omega

theorem walk_spec {g : FlowGrid} (hg : WF g) {field : Array α} {nodata v : α} {src : Nat}
    (hsrc : field[src]? = some v) (fuel : Nat) {cur : Int} (hv : validCell g.nrows g.ncols cur = true)
    {acc : Array α} {A : Nat → α} (hA : Rep g.ntot.toNat acc A) :
    ∃ acc', walk g field nodata src fuel cur acc = .ok acc' ∧
      Rep g.ntot.toNat acc' (walkFn g nodata v fuel cur A) := by
  induction fuel generalizing cur acc A with
  | zero =>
    refine ⟨acc, rfl, hA.congr fun j _ => ?_⟩
    simp [walkFn, endsAt, hitCount, addN]
  | succ fuel ih =>
    have hcur := validCell_iff.1 hv
    unfold walk
    rw [downstream_ok hg hv]
    simp only []
    by_cases hd : dn g cur < 0
    · rw [if_pos hd]
      have hlt : cur.toNat < acc.size := by rw [hA.1]; unfold FlowGrid.ntot; omega
      unfold writeAt
      rw [dif_pos ⟨hcur.1, hlt⟩]
      refine ⟨_, rfl, ?_, ?_⟩
      · rw [Array.size_set]; exact hA.1
      · intro j hj
        rw [Array.getElem?_set, hA.2 j hj]
        unfold walkFn endsAt hitCount
        rw [if_pos hd, if_pos hd]
        by_cases hcj : cur.toNat = j
        · rw [if_pos hcj, if_pos (by rw [(toNat_eq_iff hcur.1 j).1 hcj])]
        · rw [if_neg hcj, if_neg (by intro h; exact hcj ((toNat_eq_iff hcur.1 j).2 (Option.some.inj h)))]
          rfl
    · rw [if_neg hd, hsrc]
      simp only []
      have hdv := dn_nonneg_valid hg hv (by omega)
      have hdr := validCell_iff.1 hdv
      have hlt : (dn g cur).toNat < acc.size := by rw [hA.1]; unfold FlowGrid.ntot; omega
      unfold addAt
      rw [dif_pos ⟨hdr.1, hlt⟩]
      simp only []
      have hA1 : Rep g.ntot.toNat (acc.set (dn g cur).toNat (acc[(dn g cur).toNat] + v) hlt)
          (fun j => if (dn g cur).toNat = j then A j + v else A j) := by
        refine ⟨by rw [Array.size_set]; exact hA.1, fun j hj => ?_⟩
        rw [Array.getElem?_set, hA.2 j hj]
        beta_reduce
        by_cases hcj : (dn g cur).toNat = j
        · rw [if_pos hcj, if_pos hcj]
          subst hcj
          have := hA.2 _ hj
          rw [Array.getElem?_eq_getElem hlt] at this
          rw [Option.some.inj this]
        · rw [if_neg hcj, if_neg hcj]
      obtain ⟨acc', h1, h2⟩ := ih hdv hA1
      refine ⟨acc', h1, h2.congr fun j _ => ?_⟩
      unfold walkFn
      conv => rhs; unfold endsAt hitCount
      rw [if_neg hd, if_neg hd]
      split
      · rfl
      · beta_reduce
        by_cases hcj : (dn g cur).toNat = j
        · rw [if_pos hcj, if_pos ((toNat_eq_iff hdr.1 j).1 hcj), Nat.add_comm]
          rfl
        · rw [if_neg hcj, if_neg (fun h => hcj ((toNat_eq_iff hdr.1 j).2 h)), Nat.zero_add]

/-! ### the outer loop -/

/-- values after the walks from the source cells in `l`, in that order -/
def loopFn (g : FlowGrid) (nodata : α) (F : Nat → α) (fuel : Nat) : List Nat → (Nat → α) → (Nat → α)
  | [], A => A
  | i :: rest, A => loopFn g nodata F fuel rest (walkFn g nodata (F i) fuel (i : Int) A)

theorem loopFn_append (g : FlowGrid) (nodata : α) (F : Nat → α) (fuel : Nat) (l l' : List Nat) (A : Nat → α) :
    loopFn g nodata F fuel (l ++ l') A = loopFn g nodata F fuel l' (loopFn g nodata F fuel l A) := by
  induction l generalizing A with
  | nil => rfl
  | cons i rest ih => exact ih _

theorem valid_of_lt {g : FlowGrid} {i : Nat} (hi : i < g.ntot.toNat) :
    validCell g.nrows g.ncols (i : Int) = true := by
  rw [validCell_iff]
  unfold FlowGrid.ntot at hi
  omega

theorem lt_of_valid {g : FlowGrid} {c : Int} (hv : validCell g.nrows g.ncols c = true) :
    c.toNat < g.ntot.toNat ∧ ((c.toNat : Nat) : Int) = c := by
  rw [validCell_iff] at hv
  unfold FlowGrid.ntot
  omega

theorem accLoop_spec {g : FlowGrid} (hg : WF g) {field : Array α} {nodata : α} {F : Nat → α}
    (hF : Rep g.ntot.toNat field F) (fuel : Nat) (l : List Nat) (hl : ∀ i ∈ l, i < g.ntot.toNat)
    {acc : Array α} {A : Nat → α} (hA : Rep g.ntot.toNat acc A) :
    ∃ acc', accLoop g field nodata fuel l acc = .ok acc' ∧
      Rep g.ntot.toNat acc' (loopFn g nodata F fuel l A) := by
  induction l generalizing acc A with
  | nil => exact ⟨acc, rfl, hA⟩
  | cons i rest ih =>
    have hi := hl i (List.mem_cons_self)
    obtain ⟨acc1, h1, h2⟩ := walk_spec hg (nodata := nodata) (hF.2 i hi) fuel (valid_of_lt hi) hA
    obtain ⟨acc2, h3, h4⟩ := ih (fun k hk => hl k (List.mem_cons_of_mem _ hk)) h2
    refine ⟨acc2, ?_, h4⟩
    unfold accLoop
    rw [h1]
    exact h3

/-- `c_accumulate` on well-shaped buffers: never an error once the two guards pass, whatever the flow
directions (cycles included) and the cap; the result is `loopFn` over the cells in increasing order -/
theorem cAccumulate_spec {g : FlowGrid} (hg : WF g) {m : Int} (hm : 1 ≤ m) (hr : 1 ≤ g.nrows)
    {field acc0 : Array α} {nodata : α} {F A0 : Nat → α}
    (hF : Rep g.ntot.toNat field F) (hA : Rep g.ntot.toNat acc0 A0) :
    ∃ acc, cAccumulate g m nodata field acc0 = .ok acc ∧
      Rep g.ntot.toNat acc (loopFn g nodata F (fuelOf m) (List.range g.ntot.toNat) A0) := by
  unfold cAccumulate
  rw [if_neg (by omega), if_neg (by omega)]
  exact accLoop_spec hg hF _ _ (fun i hi => List.mem_range.1 hi) hA

/-! ### the loop invariant when every walk ends at a terminal cell before the cap -/

/-- contribution of the sources `l` to the cell `c`, added in the order of `l` -/
def pathFold (g : FlowGrid) (F : Nat → α) (fuel : Nat) (c : Int) (l : List Nat) (a : α) : α :=
  l.foldl (fun s (i : Nat) => if onPath g fuel (i : Int) c then s + F i else s) a

theorem loopFn_range_spec {g : FlowGrid} {fuel : Nat} (hT : AllTerminate g fuel)
    (nodata : α) (F A0 : Nat → α) (j : Nat) (m : Nat) (hm : m ≤ g.ntot.toNat) :
    (0 ≤ dn g (j : Int) →
      loopFn g nodata F fuel (List.range m) A0 j = pathFold g F fuel (j : Int) (List.range m) (A0 j)) ∧
    (dn g (j : Int) < 0 → j < m → loopFn g nodata F fuel (List.range m) A0 j = nodata) := by
  induction m with
  | zero =>
    refine ⟨fun _ => rfl, fun _ h => ?_⟩
    omega
  | succ m ih =>
    have ihm := ih (by omega)
    have hmv : validCell g.nrows g.ncols (m : Int) = true := valid_of_lt (by omega)
    have hTm := hT _ hmv
    have hm0 : (0 : Int) ≤ (m : Int) := by omega
    rw [List.range_succ, loopFn_append]
    refine ⟨fun hd => ?_, fun hd hjm => ?_⟩
    · show walkFn g nodata (F m) fuel (m : Int) _ j = _
      unfold walkFn pathFold
      rw [List.foldl_append, if_neg (fun h => by have := endsAt_dn_neg h; omega),
        hitCount_eq _ hm0 hTm, ihm.1 hd]
      simp only [List.foldl_cons, List.foldl_nil]
      unfold pathFold
      split <;> rfl
    · show walkFn g nodata (F m) fuel (m : Int) _ j = _
      unfold walkFn
      split
      · rfl
      · rename_i hne
        obtain ⟨t, ht⟩ := Option.isSome_iff_exists.1 hTm
        have hzero : hitCount g fuel (m : Int) (j : Int) = 0 := by
          by_contra hpos
          have := endsAt_of_hit ht hd (by omega)
          rw [ht, this] at hne
          exact hne rfl
        have hjm' : j < m := by
          rcases Nat.lt_or_ge j m with h | h
          · exact h
          · exfalso
            have hjeq : j = m := by omega
            subst hjeq
            apply hne
            cases fuel with
            | zero => simp [endsAt] at hTm
            | succ fuel => unfold endsAt; rw [if_pos hd]
        rw [hzero, ihm.2 hd hjm']
        rfl

/-- the wrapper `grid.accumulate` on a field of the grid's size: no error for any flow directions and
any accepted cap; the values are `loopFn` started from the field itself (`accumulation = clone of the field`) -/
theorem accumulate_rep {g : FlowGrid} (hg : WF g) (hr : 1 ≤ g.nrows) {m : Int} (hm : 1 ≤ capOf g m)
    {field : Array α} (nodata : α) {F : Nat → α} (hF : Rep g.ntot.toNat field F) :
    ∃ acc, accumulate g m nodata field = .ok acc ∧
      Rep g.ntot.toNat acc (loopFn g nodata F (fuelOf (capOf g m)) (List.range g.ntot.toNat) F) :=
  cAccumulate_spec hg hm hr hF hF

/-- final value of a cell, given that every walk ends before the cap -/
theorem final_value {g : FlowGrid} {fuel : Nat} (hT : AllTerminate g fuel) (nodata : α) (F A0 : Nat → α)
    {c : Int} (hv : validCell g.nrows g.ncols c = true) :
    loopFn g nodata F fuel (List.range g.ntot.toNat) A0 c.toNat =
      if dn g c < 0 then nodata else pathFold g F fuel c (List.range g.ntot.toNat) (A0 c.toNat) := by
  obtain ⟨h1, h2⟩ := lt_of_valid hv
  have := loopFn_range_spec hT nodata F A0 c.toNat g.ntot.toNat (Nat.le_refl _)
  rw [h2] at this
  split
  · rename_i hd; exact this.2 hd h1
  · rename_i hd; exact this.1 (by omega)

end Walk

/-! ### memory model: with two distinct buffers the kernel is the pure function and never writes the field -/

theorem walkS_unaliased {α : Type} [Add α] (g : FlowGrid) (nodata : α) (src : Nat) (fuel : Nat) (cur : Int)
    (f a : Array α) :
    walkS g nodata src fuel cur ⟨f, a, false⟩ =
      (walk g f nodata src fuel cur a).map (fun a' => (⟨f, a', false⟩ : Store α)) := by
  induction fuel generalizing cur a with
  | zero => rfl
  | succ fuel ih =>
    unfold walkS walk
    cases downstream g cur with
    | error e => rfl
    | ok d =>
      simp only [Store.accArr, Store.setAcc, Bool.false_eq_true, if_false]
      split
      · cases writeAt a cur nodata <;> rfl
      · cases f[src]? with
        | none => rfl
        | some v =>
          simp only []
          cases addAt a d v with
          | error e => rfl
          | ok a' => exact ih d a'

theorem accLoopS_unaliased {α : Type} [Add α] (g : FlowGrid) (nodata : α) (fuel : Nat) (l : List Nat)
    (f a : Array α) :
    accLoopS g nodata fuel l ⟨f, a, false⟩ =
      (accLoop g f nodata fuel l a).map (fun a' => (⟨f, a', false⟩ : Store α)) := by
  induction l generalizing a with
  | nil => rfl
  | cons i rest ih =>
    unfold accLoopS accLoop
    rw [walkS_unaliased]
    cases walk g f nodata i fuel (i : Int) a with
    | error e => rfl
    | ok a' => exact ih a'

theorem cAccumulateS_unaliased_eq {α : Type} [Add α] (g : FlowGrid) (m : Int) (nodata : α) (f a : Array α) :
    cAccumulateS g m nodata ⟨f, a, false⟩ =
      (cAccumulate g m nodata f a).map (fun a' => (⟨f, a', false⟩ : Store α)) := by
  unfold cAccumulateS cAccumulate
  split
  · rfl
  · split
    · rfl
    · exact accLoopS_unaliased g nodata _ _ f a

/-- the last position of a value in a list -/
theorem exists_last_index {l : List Int} {x : Int} (h : x ∈ l) :
    ∃ k : Nat, l[k]? = some x ∧ ∀ k' : Nat, k < k' → l[k']? ≠ some x := by
  induction l with
  | nil => simp at h
  | cons y rest ih =>
    by_cases hr : x ∈ rest
    · obtain ⟨k, h1, h2⟩ := ih hr
      refine ⟨k + 1, by simpa using h1, fun k' hk' => ?_⟩
      cases k' with
      | zero => omega
      | succ k' => simpa using h2 k' (by omega)
    · have hxy : x = y := by
        rcases List.mem_cons.1 h with h | h
        · exact h
        · exact absurd h hr
      subst hxy
      refine ⟨0, rfl, fun k' hk' => ?_⟩
      cases k' with
      | zero => omega
      | succ k' =>
        intro hc
        exact hr (List.mem_of_getElem? (by simpa using hc))

theorem allTerminate_of_B {g : FlowGrid} {fuel : Nat} (h : allTerminateB g fuel = true) : AllTerminate g fuel := by
  intro c hv
  obtain ⟨h1, h2⟩ := lt_of_valid hv
  unfold allTerminateB at h
  rw [List.all_eq_true] at h
  have := h c.toNat (List.mem_range.2 h1)
  rw [h2] at this
  exact this

/-! ### the pinned kernel (adds the value of the visited cell) agrees with the repaired one on uniform fields -/

theorem walkPinned_eq_walk {α : Type} [Add α] {g : FlowGrid} (hg : WF g) {field : Array α} {v nodata : α}
    (hF : Rep g.ntot.toNat field (fun _ => v)) {src : Nat} (hsrc : src < g.ntot.toNat) (fuel : Nat)
    {cur : Int} (hv : validCell g.nrows g.ncols cur = true) (acc : Array α) :
    walkPinned g field nodata fuel cur acc = walk g field nodata src fuel cur acc := by
  induction fuel generalizing cur acc with
  | zero => rfl
  | succ fuel ih =>
    unfold walkPinned walk
    rw [downstream_ok hg hv]
    simp only []
    by_cases hd : dn g cur < 0
    · rw [if_pos hd, if_pos hd]
    · rw [if_neg hd, if_neg hd]
      have hdv := dn_nonneg_valid hg hv (by omega)
      rw [hF.2 _ (lt_of_valid hdv).1, hF.2 _ hsrc]
      simp only []
      cases addAt acc (dn g cur) v with
      | error e => rfl
      | ok acc' => exact ih hdv acc'

end HydroVerif.C11
