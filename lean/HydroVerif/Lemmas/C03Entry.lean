/-
C03 — helper lemmas, part 3: the entry point `metrics.crps` (wrapper filtering + kernel) on data with missing
observations, and facts that hold over ANY carrier (no algebraic law: also IEEE doubles).
-/
import HydroVerif.Model.C03
import HydroVerif.Lemmas.C03

set_option linter.unusedSectionVars false
namespace HydroVerif.C03

/-! ### facts over any carrier -/
section AnyCarrier
variable {β : Type} [Add β] [Sub β] [Mul β] [Div β] [LT β] [DecidableLT β] [LE β] [DecidableLE β]
  [BEq β] [OfNat β 0] [OfNat β 1] [NatCast β]

theorem loop_congr (sort : List β → List β) (w : β) :
    ∀ (F F' : List (β × List β)) (prev : List β) (s : Acc β),
      (F.map fun p => (p.1, sort p.2)) = (F'.map fun p => (p.1, sort p.2)) →
      loop sort w prev F s = loop sort w prev F' s
  | [], [], _, _, _ => rfl
  | [], _ :: _, _, _, h => by simp at h
  | _ :: _, [], _, _, h => by simp at h
  | (y, row) :: F, (y', row') :: F', prev, s, h => by
    simp only [List.map_cons, List.cons.injEq, Prod.mk.injEq] at h
    obtain ⟨⟨rfl, hr⟩, ht⟩ := h
    unfold loop
    simp only [hr]
    split
    · rfl
    · split
      · exact loop_congr sort w F F' _ _ ht
      · rfl

theorem zip_map_sort (sort : List β → List β) (obs : List β) (e : List (List β)) :
    ((obs.zip e).map fun p => (p.1, sort p.2)) = obs.zip (e.map sort) := by
  rw [List.zip_map_right]; rfl

end AnyCarrier

/-! ### the kept forecasts -/
section Kept
variable {β : Type}

/-- the forecasts `metrics.crps` keeps when every member is finite: those whose observation is present -/
def keptPairs (obs : List (Option β)) (rows : List (List β)) : List (β × List β) :=
  (obs.zip rows).filterMap fun p => p.1.map fun y => (y, p.2)

theorem zip_fst_snd : ∀ l : List (β × List β), (l.map Prod.fst).zip (l.map Prod.snd) = l
  | [] => rfl
  | p :: t => by simp [zip_fst_snd t]

theorem keptPairs_map {γ : Type} (f : β → γ) : ∀ (obs : List (Option β)) (rows : List (List β)),
    keptPairs (obs.map (Option.map f)) (rows.map (List.map f))
      = (keptPairs obs rows).map fun p => (f p.1, p.2.map f)
  | [], _ => by simp [keptPairs]
  | _ :: _, [] => by simp [keptPairs]
  | o :: obs, r :: rows => by
    have ih := keptPairs_map f obs rows
    unfold keptPairs at ih ⊢
    cases o <;> simp [ih]

theorem keptPairs_snd_mem {obs : List (Option β)} {rows : List (List β)} {p : β × List β}
    (hp : p ∈ keptPairs obs rows) : p.2 ∈ rows := by
  unfold keptPairs at hp
  obtain ⟨q, hq, hqp⟩ := List.mem_filterMap.mp hp
  cases hq1 : q.1 with
  | none => simp [hq1] at hqp
  | some y =>
    simp [hq1] at hqp
    rw [← hqp]
    exact (List.of_mem_zip hq).2

theorem keptPairs_forall₂_perm : ∀ (obs : List (Option β)) {rows rows' : List (List β)},
    List.Forall₂ List.Perm rows' rows →
    (keptPairs obs rows').map Prod.fst = (keptPairs obs rows).map Prod.fst ∧
    List.Forall₂ List.Perm ((keptPairs obs rows').map Prod.snd) ((keptPairs obs rows).map Prod.snd)
  | [], _, _, _ => by simp [keptPairs]
  | _ :: _, _, _, .nil => by simp [keptPairs]
  | o :: obs, _, _, .cons hab ht => by
    obtain ⟨h1, h2⟩ := keptPairs_forall₂_perm obs ht
    unfold keptPairs at h1 h2 ⊢
    cases o with
    | none =>
      simp only [List.zip_cons_cons, List.filterMap_cons, Option.map_none]
      exact ⟨h1, h2⟩
    | some y =>
      simp only [List.zip_cons_cons, List.filterMap_cons, Option.map_some, List.map_cons]
      exact ⟨by rw [h1], .cons hab h2⟩

theorem keptPairs_perm {obs obs' : List (Option β)} {rows rows' : List (List β)}
    (hp : (obs'.zip rows').Perm (obs.zip rows)) : (keptPairs obs' rows').Perm (keptPairs obs rows) :=
  hp.filterMap _

end Kept

section Field
variable {α : Type} [Field α] [LinearOrder α] [IsStrictOrderedRing α]

/-- well-formed entry-point data: equal lengths, `m ≥ 1` finite members per forecast, some observation present -/
structure EntryShape (m : ℕ) (obs : List (Option α)) (rows : List (List α)) : Prop where
  len : rows.length = obs.length
  m_pos : 1 ≤ m
  row_len : ∀ r ∈ rows, r.length = m
  some_obs : keptPairs obs rows ≠ []

theorem shape_kept {m : ℕ} {obs : List (Option α)} {rows : List (List α)} (h : EntryShape m obs rows) :
    Shape m ((keptPairs obs rows).map Prod.fst) ((keptPairs obs rows).map Prod.snd) := by
  refine ⟨by simp, h.m_pos, ?_, ?_⟩
  · rw [List.length_map]; exact List.length_pos_iff.mpr h.some_obs
  · intro r hr
    obtain ⟨p, hp, rfl⟩ := List.mem_map.mp hr
    exact h.row_len _ (keptPairs_snd_mem hp)

theorem filter_keep_finite : ∀ (L : List (Option α × List α)), (∀ p ∈ L, p.2 ≠ []) →
    ((L.map fun p => (p.1, p.2.map some)).filter keep).map finiteRow
      = (L.filterMap fun p => p.1.map fun y => (y, p.2)).map some
  | [], _ => rfl
  | (o, r) :: L, h => by
    have ih := filter_keep_finite L (fun p hp => h p (List.mem_cons_of_mem _ hp))
    have hr : r ≠ [] := h (o, r) List.mem_cons_self
    obtain ⟨a, t, rfl⟩ := List.exists_cons_of_ne_nil hr
    cases o with
    | none => simpa [List.filter_cons, keep, List.filterMap_cons] using ih
    | some y =>
      have hk : keep ((some y : Option α), (a :: t).map some) = true := by simp [keep]
      have hf : finiteRow ((some y : Option α), (a :: t).map some) = some (y, a :: t) := by
        simp only [finiteRow, optAll_map_some]
      simp only [List.map_cons] at hk hf
      simp only [List.map_cons, List.filter_cons, hk, if_true, List.filterMap_cons, Option.map_some, hf, ih]

/-- **the entry point is the kernel on the kept forecasts** -/
theorem wrapper_eq_kernel_kept (sort : List α → List α) {m : ℕ} {obs : List (Option α)} {rows : List (List α)}
    (h : EntryShape m obs rows) :
    wrapper sort m obs (rows.map fun r => r.map some)
      = kernel sort m ((keptPairs obs rows).map Prod.fst) ((keptPairs obs rows).map Prod.snd) := by
  have hne : ∀ p ∈ obs.zip rows, p.2 ≠ [] := by
    intro p hp h0
    have h1 := h.row_len p.2 (List.of_mem_zip hp).2
    have h2 := h.m_pos
    rw [h0] at h1; simp at h1; omega
  have hz : obs.zip (rows.map fun r => r.map some) = (obs.zip rows).map fun p => (p.1, p.2.map some) := by
    rw [List.zip_map_right]; rfl
  have hfk := filter_keep_finite (obs.zip rows) hne
  unfold wrapper
  simp only [List.length_map, h.len, ne_eq, not_true_eq_false, if_false, hz]
  have hemp : (((obs.zip rows).map fun p => (p.1, p.2.map some)).filter keep).isEmpty = false := by
    rw [List.isEmpty_eq_false_iff]
    intro h0
    rw [h0] at hfk
    have : keptPairs obs rows = [] := by
      unfold keptPairs
      exact List.map_eq_nil_iff.mp hfk.symm
    exact h.some_obs this
  simp only [hemp, Bool.false_eq_true, if_false, hfk, optAll_map_some]
  rfl

end Field
end HydroVerif.C03
