/-
C18 — helper lemmas for the object-level model (`Model/C18Obj.lean`): the well-formedness invariant of a receiver
(attributes refer to allocated buffers; two attributes share a buffer only when it has no element) is kept by
every operation with every outcome, and the elementary frame facts of `alloc` / `store` / `set`.
No Mathlib.
-/
import HydroVerif.Model.C18Obj
namespace HydroVerif.C18

/-- every attribute refers to a buffer handed out so far; two different attributes refer to the same buffer only
when it has no element -/
structure WF (o : Obj) : Prop where
  alloc : ∀ f b, o.slot f = some b → ∃ n, b = .fresh n ∧ n < o.next
  sep : ∀ f g b, f ≠ g → o.slot f = some b → o.slot g = some b → b ∈ o.zero

theorem wf_new : WF Obj.new := ⟨by intro f b h; simp [Obj.new] at h, by intro f g b _ h; simp [Obj.new] at h⟩

@[simp] theorem set_slot_same (o : Obj) (f : Field) (v : Option Buf) : (o.set f v).slot f = v := by simp [Obj.set]
@[simp] theorem set_slot_other (o : Obj) {f g : Field} (v : Option Buf) (h : g ≠ f) : (o.set f v).slot g = o.slot g := by
  simp [Obj.set, h]
@[simp] theorem set_zero (o : Obj) (f : Field) (v : Option Buf) : (o.set f v).zero = o.zero := rfl
@[simp] theorem set_next (o : Obj) (f : Field) (v : Option Buf) : (o.set f v).next = o.next := rfl

theorem wf_set_none {o : Obj} (h : WF o) (f : Field) : WF (o.set f none) := by
  constructor
  · intro g b hg
    by_cases hgf : g = f
    · subst hgf; simp at hg
    · rw [set_slot_other o none hgf] at hg; exact h.alloc g b hg
  · intro g k b hgk hg hk
    by_cases hgf : g = f
    · subst hgf; simp at hg
    · by_cases hkf : k = f
      · subst hkf; simp at hk
      · rw [set_slot_other o none hgf] at hg; rw [set_slot_other o none hkf] at hk
        exact h.sep g k b hgk hg hk

/-- more zero-length buffers, a later allocator state: still well formed -/
theorem wf_mono {o : Obj} (h : WF o) (z : List Buf) (n : Nat) (hn : o.next ≤ n) (hz : ∀ b ∈ o.zero, b ∈ z) :
    WF { o with zero := z, next := n } := by
  constructor
  · intro f b hf
    obtain ⟨k, hk, hlt⟩ := h.alloc f b hf
    exact ⟨k, hk, Nat.lt_of_lt_of_le hlt hn⟩
  · intro f g b hfg hf hg
    exact hz b (h.sep f g b hfg hf hg)

/-- `self.f = <new array>` keeps the invariant -/
theorem wf_set_fresh {o : Obj} (h : WF o) (f : Field) :
    WF { (o.set f (some (.fresh o.next))) with next := o.next + 1 } := by
  constructor
  · intro g b hg
    by_cases hgf : g = f
    · subst hgf
      simp at hg
      exact ⟨o.next, hg.symm, Nat.lt_succ_self _⟩
    · have hg' : o.slot g = some b := by simpa [Obj.set, hgf] using hg
      obtain ⟨k, hk, hlt⟩ := h.alloc g b hg'
      exact ⟨k, hk, Nat.lt_succ_of_lt hlt⟩
  · intro g k b hgk hg hk
    by_cases hgf : g = f
    · subst hgf
      have hkf : k ≠ g := fun e => hgk e.symm
      have hg' : b = .fresh o.next := by simpa using hg.symm
      have hk' : o.slot k = some b := by simpa [Obj.set, hkf] using hk
      obtain ⟨n, hn, hlt⟩ := h.alloc k b hk'
      rw [hg'] at hn; injection hn with hn; omega
    · by_cases hkf : k = f
      · subst hkf
        have hk' : b = .fresh o.next := by simpa using hk.symm
        have hg' : o.slot g = some b := by simpa [Obj.set, hgf] using hg
        obtain ⟨n, hn, hlt⟩ := h.alloc g b hg'
        rw [hk'] at hn; injection hn with hn; omega
      · have hg' : o.slot g = some b := by simpa [Obj.set, hgf] using hg
        have hk' : o.slot k = some b := by simpa [Obj.set, hkf] using hk
        exact h.sep g k b hgk hg' hk'

theorem wf_alloc {α} {s : OState α} (h : WF s.obj) (f : Field) (v : α) : WF (s.alloc f v).obj :=
  wf_set_fresh h f

@[simp] theorem store_obj {α} (s : OState α) (b : Buf) (g : α → α) : (s.store b g).obj = s.obj := by
  unfold OState.store; split <;> rfl
@[simp] theorem fail_obj {α} (s : OState α) : s.fail.obj = s.obj := rfl
@[simp] theorem done_obj {α} (s : OState α) : s.done.obj = s.obj := rfl
@[simp] theorem fail_mem {α} (s : OState α) : s.fail.mem = s.mem := rfl
@[simp] theorem done_mem {α} (s : OState α) : s.done.mem = s.mem := rfl

theorem store_mem_other {α} (s : OState α) (b b' : Buf) (g : α → α) (h : b' ≠ b) : (s.store b g).mem b' = s.mem b' := by
  unfold OState.store; split
  · rfl
  · simp [memSet, h]

theorem store_mem_zero {α} (s : OState α) (b : Buf) (g : α → α) (h : b ∈ s.obj.zero) : (s.store b g).mem = s.mem := by
  simp [OState.store, h]

theorem store_mem_same {α} (s : OState α) (b : Buf) (g : α → α) (h : b ∉ s.obj.zero) :
    (s.store b g).mem b = g (s.mem b) := by
  simp [OState.store, h, memSet]

theorem alloc_mem_other {α} (s : OState α) (f : Field) (v : α) (b : Buf) (h : b ≠ .fresh s.obj.next) :
    (s.alloc f v).mem b = s.mem b := by
  simp [OState.alloc, memSet, h]

theorem alloc_slot_other {α} (s : OState α) {f g : Field} (v : α) (h : g ≠ f) : (s.alloc f v).obj.slot g = s.obj.slot g := by
  simp [OState.alloc, Obj.set, h]

theorem alloc_slot_same {α} (s : OState α) (f : Field) (v : α) : (s.alloc f v).obj.slot f = some (.fresh s.obj.next) := by
  simp [OState.alloc, Obj.set]

theorem alloc_mem_same {α} (s : OState α) (f : Field) (v : α) : (s.alloc f v).mem (.fresh s.obj.next) = v := by
  simp [OState.alloc, memSet]

/-- a buffer an attribute refers to is not the one the allocator hands out next -/
theorem slot_ne_next {o : Obj} (h : WF o) {f : Field} {b : Buf} (hf : o.slot f = some b) : b ≠ .fresh o.next := by
  obtain ⟨n, hn, hlt⟩ := h.alloc f b hf
  intro e; rw [e] at hn; injection hn with hn; omega

/-- an allocation leaves the contents handed out by every OTHER accessor as they were -/
theorem alloc_content_other {α} {s : OState α} (h : WF s.obj) {f g : Field} (v : α) (hg : g ≠ f) :
    (s.alloc f v).content g = s.content g := by
  unfold OState.content
  rw [alloc_slot_other s v hg]
  cases hs : s.obj.slot g with
  | none => rfl
  | some b => simp [alloc_mem_other s f v b (slot_ne_next h hs)]

/-- the invariant is kept by every operation, whatever the data decide -/
theorem wf_step {α} (sem : OSem α) (s : OState α) (h : WF s.obj) (op : Op) : WF (ostep sem s op).obj := by
  cases op with
  | read f => exact h
  | callerEdit f =>
    simp only [ostep]
    split <;> simpa using h
  | computeFpl o =>
    simp only [ostep]
    split
    · cases o
      · simp only [done_obj]; exact wf_alloc h _ _
      · exact h
    · exact h
  | delineateBoundary mask o =>
    simp only [ostep]
    split
    · split
      · exact h
      · cases o
        · simp only [done_obj]
          exact wf_alloc (wf_alloc (by simpa using h) _ _) _ _
        · simpa using h
    · exact h
  | delineateArea wi arg o =>
    have h1 : WF (s.alloc .outlet (sem.outlet arg)).obj := wf_alloc h _ _
    have h2 : WF (areaPrologue sem s wi arg).obj := by
      unfold areaPrologue
      cases wi
      · exact wf_set_none h1 _
      · exact wf_alloc h1 _ _
    cases o with
    | badOutlet => exact h
    | badInlets => simpa [ostep] using h1
    | badNval => simpa [ostep] using h2
    | kernelError =>
      simp only [ostep]
      exact wf_set_none (wf_set_none h2 _) _
    | cells =>
      simp only [ostep, done_obj]
      exact wf_alloc (wf_alloc h2 _ _) _ _
    | empty =>
      simp only [ostep]
      generalize areaPrologue sem s wi arg = s2 at h2 ⊢
      have h3 : WF (s2.alloc .area sem.emptyArr).obj := wf_alloc h2 _ _
      constructor
      · intro g b hg
        by_cases hgf : g = .filled
        · subst hgf
          have : b = .fresh s2.obj.next := by simpa using hg.symm
          exact ⟨s2.obj.next, this, by simp [OState.alloc]⟩
        · have hg' : (s2.alloc .area sem.emptyArr).obj.slot g = some b := by simpa [Obj.set, hgf] using hg
          exact h3.alloc g b hg'
      · intro g k b hgk hg hk
        -- either one of them is `filled` (then b is the new zero-length array) or neither (old separation)
        by_cases hb : b = .fresh s2.obj.next
        · simp [hb]
        · have hgf : g ≠ .filled := by
            intro e; subst e
            exact hb (by simpa using hg.symm)
          have hkf : k ≠ .filled := by
            intro e; subst e
            exact hb (by simpa using hk.symm)
          have hg' : (s2.alloc .area sem.emptyArr).obj.slot g = some b := by simpa [Obj.set, hgf] using hg
          have hk' : (s2.alloc .area sem.emptyArr).obj.slot k = some b := by simpa [Obj.set, hkf] using hk
          have := h3.sep g k b hgk hg' hk'
          simp [this]

/-- an in-place store through attribute `g` leaves what every OTHER accessor hands out as it was: the two
attributes refer to different buffers, or to one without elements -/
theorem store_content_other {α} {s : OState α} (h : WF s.obj) {f g : Field} {b : Buf} (hg : s.obj.slot g = some b)
    (hfg : f ≠ g) (k : α → α) : (s.store b k).content f = s.content f := by
  unfold OState.content
  rw [store_obj]
  cases hs : s.obj.slot f with
  | none => rfl
  | some b' =>
    by_cases hb : b' = b
    · subst hb
      have hz := h.sep f g b' hfg hs hg
      simp [store_mem_zero s b' k hz]
    · simp [store_mem_other s b b' k hb]

theorem set_content_other {α} (s : OState α) {f g : Field} (v : Option Buf) (r : Bool) (hfg : f ≠ g) :
    ({ s with obj := s.obj.set g v, raised := r } : OState α).content f = s.content f := by
  simp [OState.content, Obj.set, hfg]

theorem areaPrologue_content {α} (sem : OSem α) {s : OState α} (h : WF s.obj) (wi : Bool) (arg : Nat) {f : Field}
    (h1 : f ≠ .outlet) (h2 : f ≠ .inlets) : (areaPrologue sem s wi arg).content f = s.content f := by
  rw [← alloc_content_other h (sem.outlet arg) h1]
  unfold areaPrologue
  cases wi
  · simp [OState.content, Obj.set, h2]
  · simp only [if_true]
    exact alloc_content_other (wf_alloc h _ _) _ h2

theorem areaPrologue_wf {α} (sem : OSem α) {s : OState α} (h : WF s.obj) (wi : Bool) (arg : Nat) :
    WF (areaPrologue sem s wi arg).obj := by
  unfold areaPrologue
  cases wi
  · exact wf_set_none (wf_alloc h _ _) _
  · exact wf_alloc (wf_alloc h _ _) _ _

/-- the three ways `delineate_boundary` can go -/
theorem delineateBoundary_cases {α} (sem : OSem α) (s : OState α) (mask : Option Nat) (o : KernOut) :
    ostep sem s (.delineateBoundary mask o) = s.fail ∨
    ∃ a b, s.obj.slot .area = some a ∧ s.obj.slot .filled = some b ∧ b ∉ s.obj.zero ∧
      ((o = .kernelError ∧ ostep sem s (.delineateBoundary mask o) = (s.store b sem.sort).fail) ∨
       (o = .ok ∧ ostep sem s (.delineateBoundary mask o) =
          (((s.store b sem.sort).alloc .boundary (sem.boundary ((s.store b sem.sort).mem b) mask)).alloc .xyboundary
            (sem.xy (sem.boundary ((s.store b sem.sort).mem b) mask))).done)) := by
  cases ha : s.obj.slot .area with
  | none => left; simp [ostep, ha]
  | some a =>
    cases hb : s.obj.slot .filled with
    | none => left; simp [ostep, ha, hb]
    | some b =>
      by_cases hz : b ∈ s.obj.zero
      · left; simp [ostep, ha, hb, hz]
      · right
        refine ⟨a, b, rfl, rfl, hz, ?_⟩
        cases o
        · right; simp [ostep, ha, hb, hz]
        · left; simp [ostep, ha, hb, hz]

/-- the two ways `compute_flowpathlengths` can go -/
theorem computeFpl_cases {α} (sem : OSem α) (s : OState α) (o : KernOut) :
    ostep sem s (.computeFpl o) = s.fail ∨
    ∃ a out, s.obj.slot .area = some a ∧ s.obj.slot .outlet = some out ∧ o = .ok ∧
      ostep sem s (.computeFpl o) = (s.alloc .fpl (sem.fpl (s.mem out) (s.mem a))).done := by
  cases ha : s.obj.slot .area with
  | none => left; simp [ostep, ha]
  | some a =>
    cases ho : s.obj.slot .outlet with
    | none => left; simp [ostep, ha, ho]
    | some out =>
      cases o
      · right; exact ⟨a, out, rfl, rfl, rfl, by simp [ostep, ha, ho]⟩
      · left; simp [ostep, ha, ho]

theorem wf_runFrom {α} (sem : OSem α) : ∀ (ops : List Op) (s : OState α), WF s.obj → WF (orunFrom sem s ops).obj := by
  intro ops
  induction ops with
  | nil => intro s h; exact h
  | cons op ops ih => intro s h; exact ih (ostep sem s op) (wf_step sem s h op)

end HydroVerif.C18
