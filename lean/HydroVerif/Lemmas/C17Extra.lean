/-
C17 — helper lemmas for the round-7 theorems: histories of calls (`Model/C17Hist.lean`), homogeneity and shift
invariance through the guards, the `isnan` tests that never fire, order 1 in any arithmetic.
-/
import HydroVerif.Lemmas.C17Linear
import HydroVerif.Lemmas.C17Rnd53
import HydroVerif.Model.C17Hist

namespace HydroVerif.C17

open Finset

section hist
variable {α : Type} [CommRing α]

theorem run_append (nan : α → Bool) : ∀ (ops1 ops2 : List (Op α)) (s : St α),
    run nan s (ops1 ++ ops2) = run nan s ops1 ++ run nan (exec nan s ops1) ops2 := by
  intro ops1; induction ops1 with
  | nil => intro ops2 s; rfl
  | cons op ops ih => intro ops2 s; simp only [List.cons_append, run, exec, ih]

theorem exec_append (nan : α → Bool) : ∀ (ops1 ops2 : List (Op α)) (s : St α),
    exec nan s (ops1 ++ ops2) = exec nan (exec nan s ops1) ops2 := by
  intro ops1; induction ops1 with
  | nil => intro ops2 s; rfl
  | cons op ops ih => intro ops2 s; simp only [List.cons_append, exec, ih]

theorem run_length (nan : α → Bool) : ∀ (ops : List (Op α)) (s : St α), (run nan s ops).length = ops.length := by
  intro ops; induction ops with
  | nil => intro s; rfl
  | cons op ops ih => intro s; simp [run, ih]

theorem step_rejected (nan : α → Bool) (s : St α) (op : Op α) (e : Err)
    (h : (step nan s op).2 = some (.error e)) : (step nan s op).1 = s := by
  cases op with
  | callSim ma ia =>
    simp only [step] at h ⊢
    have : pySim nan s.params s.series ma ia = .error e := by simpa using h
    rw [this]; rfl
  | callRes nm ma ia =>
    simp only [step] at h ⊢
    have : pyResidual nan s.params s.series nm ma ia = .error e := by simpa using h
    rw [this]; rfl
  | _ => simp [step] at h

theorem step_call_args (nan : α → Bool) (s : St α) (op : Op α) (h : op.isCall = true) :
    (step nan s op).1.params = s.params ∧ (step nan s op).1.series = s.series := by
  cases op with
  | callSim ma ia =>
    simp only [step]
    cases pySim nan s.params s.series ma ia <;> exact ⟨rfl, rfl⟩
  | callRes nm ma ia =>
    simp only [step]
    cases pyResidual nan s.params s.series nm ma ia <;> exact ⟨rfl, rfl⟩
  | _ => simp [Op.isCall] at h

end hist

section linear
variable {α : Type} [CommRing α] {p : Nat}

theorem validate_scale (params : List (Option α)) (mean ini : Option α) (c : α) :
    validate params (scaleOpt c mean) (scaleOpt c ini) =
      (validate params mean ini).map fun r => (r.1, c * r.2.1, c * r.2.2) := by
  unfold validate
  split
  · rfl
  · cases allSome params with
    | none => rfl
    | some ps => cases mean <;> cases ini <;> rfl

theorem sim_homogeneous' (params : List (Option α)) (mean ini : Option α) (innov : List (Option α)) (c : α) :
    sim nf params (scaleOpt c mean) (scaleOpt c ini) (innov.map (scaleOpt c)) =
      (sim nf params mean ini innov).map (List.map (c * ·)) := by
  unfold sim
  rw [validate_scale]
  cases validate params mean ini with
  | error e => rfl
  | ok r =>
    obtain ⟨ps, m, i⟩ := r
    simp only [Except.map]
    rw [show c * i - c * m = c * (i - m) by ring, ← replicate_scale, simRun_scale]

theorem residual_homogeneous' (params : List (Option α)) (mean ini : Option α) (xs : List (Option α)) (c : α) :
    residual nf params (scaleOpt c mean) (scaleOpt c ini) (xs.map (scaleOpt c)) =
      (residual nf params mean ini xs).map (List.map (c * ·)) := by
  unfold residual
  rw [validate_scale]
  cases validate params mean ini with
  | error e => rfl
  | ok r =>
    obtain ⟨ps, m, i⟩ := r
    simp only [Except.map]
    rw [show c * i - c * m = c * (i - m) by ring, ← replicate_scale, resRun_scale]

theorem validate_shift (params : List (Option α)) (m i d : α) :
    validate params (some (m + d)) (some (i + d)) =
      (validate params (some m) (some i)).map fun r => (r.1, r.2.1 + d, r.2.2 + d) := by
  unfold validate
  split
  · rfl
  · cases allSome params <;> rfl

theorem sim_shift' (params : List (Option α)) (m i d : α) (innov : List (Option α)) :
    sim nf params (some (m + d)) (some (i + d)) innov =
      (sim nf params (some m) (some i) innov).map (List.map (· + d)) := by
  unfold sim
  rw [validate_shift]
  cases validate params (some m) (some i) with
  | error e => rfl
  | ok r =>
    obtain ⟨ps, m', i'⟩ := r
    simp only [Except.map]
    rw [show i' + d - (m' + d) = i' - m' by ring, simRun_shift]

theorem residual_shift' (params : List (Option α)) (m i d : α) (xs : List (Option α)) :
    residual nf params (some (m + d)) (some (i + d)) (xs.map (shiftOpt d)) =
      residual nf params (some m) (some i) xs := by
  unfold residual
  rw [validate_shift]
  cases validate params (some m) (some i) with
  | error e => rfl
  | ok r =>
    obtain ⟨ps, m', i'⟩ := r
    simp only [Except.map]
    rw [show i' + d - (m' + d) = i' - m' by ring, resRun_shift]

end linear

section guards
variable {α : Type} [CommRing α] {p : Nat}

/-- the `isnan` skip of the simulation loop is dead as long as no lag buffer entry it reads is NaN -/
theorem simLoop_nan_dead (nan : α → Bool) (ps : Vector α p) : ∀ (k : Nat) (hk : k ≤ p) (tmp : α) (buf : Vector α p),
    (∀ j (hj : j < p), j < k → nan buf[j] = false) → simLoop nan ps k hk tmp buf = simLoop nf ps k hk tmp buf := by
  intro k; induction k with
  | zero => intro hk tmp buf _; rfl
  | succ k ih =>
    intro hk tmp buf h
    have hkp : k < p := hk
    simp only [simLoop, h k hkp (Nat.lt_succ_self k), nf, Bool.false_eq_true, if_false]
    apply ih
    intro j hj hjk
    rw [Vector.getElem_set_ne _ _ (by omega)]
    exact h j hj (by omega)

theorem simRun_nan_dead (nan : α → Bool) (ps : Vector α p) (m : α) : ∀ (es : List (Option α)) (buf : Vector α p),
    (∀ n k (hk : k < p), nan (simBuf nf ps buf (es.take n))[k] = false) →
    simRun nan ps m buf es = simRun nf ps m buf es := by
  intro es; induction es with
  | nil => intro buf _; rfl
  | cons e es ih =>
    intro buf h
    have h0 : ∀ j (hj : j < p), j < p → nan buf[j] = false := fun j hj _ => by
      have := h 0 j hj; simpa [simBuf] using this
    simp only [simRun]
    rw [simLoop_nan_dead nan ps p (Nat.le_refl p) _ buf h0]
    congr 1
    apply ih
    intro n k hk
    have := h (n + 1) k hk
    rw [List.take_succ_cons] at this
    simpa [simBuf] using this

theorem resRun_nan_dead (nan : α → Bool) (ps : Vector α p) (m : α) : ∀ (xs : List (Option α)) (buf : Vector α p),
    (∀ x, some x ∈ xs → nan (x - m) = false) → resRun nan ps m buf xs = resRun nf ps m buf xs := by
  intro xs; induction xs with
  | nil => intro buf _; rfl
  | cons x xs ih =>
    intro buf h
    have hc : centred nan ps buf m x = centred nf ps buf m x := by
      cases x with
      | none => rfl
      | some v => simp [centred, h v List.mem_cons_self, nf]
    simp only [resRun, hc]
    congr 1
    exact ih _ fun v hv => h v (List.mem_cons_of_mem _ hv)

end guards

section anyarith
variable {α : Type} [Add α] [Sub α] [Mul α] [OfNat α 0]

/-- order 1, ANY arithmetic in which `0 + x = x` and `x - x = 0` for finite `x` (IEEE double included): the
residual at a missing input is exactly zero -/
theorem resRun_order1_missing_exact (nan : α → Bool) (fin : α → Prop) (h0 : ∀ x : α, 0 + x = x)
    (hs : ∀ x, fin x → x - x = 0) (ps : Vector α 1) (m : α) :
    ∀ (xs : List (Option α)) (buf : Vector α 1) (t : Nat), xs[t]? = some none →
      fin (ps[0] * (resBuf nan ps m buf (xs.take t))[0]) → (resRun nan ps m buf xs)[t]? = some 0 := by
  intro xs; induction xs with
  | nil => intro buf t h; simp at h
  | cons x xs ih =>
    intro buf t ht hfin
    cases t with
    | zero =>
      simp only [List.getElem?_cons_zero, Option.some.injEq] at ht
      subst ht
      simp only [List.take_zero, resBuf] at hfin
      simp only [resRun, centred, predLoop, resLoop, List.getElem?_cons_zero, Option.some.injEq]
      simp only [Nat.sub_self, h0]
      exact hs _ hfin
    | succ t =>
      simp only [List.getElem?_cons_succ] at ht
      simp only [resRun, List.getElem?_cons_succ]
      apply ih _ t ht
      simpa [resBuf] using hfin

end anyarith

end HydroVerif.C17
