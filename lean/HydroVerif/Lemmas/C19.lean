/-
C19 — helper lemmas (not property statements) for `Props/C19.lean`.
-/
import HydroVerif.Model.C19
import Std.Data.String.ToInt
import Mathlib.Data.List.Range
import Mathlib.Data.List.Nodup
import Mathlib.Data.List.Basic
import Mathlib.Algebra.BigOperators.Group.List.Basic
import Mathlib.Tactic.Ring
import Mathlib.Tactic.Linarith

namespace HydroVerif.C19

/-! ### batches and numpy's array_split arithmetic -/


theorem batch_eq_range' (n k i : Nat) : batch n k i = List.range' (bstart n k i) (bsize n k i) := by
  unfold batch
  rw [List.range_eq_range', List.map_add_range']
  simp

theorem bstart_succ (n k i : Nat) : bstart n k (i+1) = bstart n k i + bsize n k i := by
  unfold bstart bsize
  split <;> rename_i h
  · rw [Nat.min_eq_left (by omega), Nat.min_eq_left (by omega)]; ring
  · rw [Nat.min_eq_right (by omega), Nat.min_eq_right (by omega)]; ring

theorem bstart_zero (n k : Nat) : bstart n k 0 = 0 := by simp [bstart]

theorem bstart_last (n k : Nat) (hk : 0 < k) : bstart n k k = n := by
  unfold bstart
  have h1 : n % k < k := Nat.mod_lt _ hk
  rw [Nat.min_eq_right (by omega)]
  exact Nat.div_add_mod n k

theorem bstart_mono (n k : Nat) {i j : Nat} (h : i ≤ j) : bstart n k i ≤ bstart n k j := by
  induction j with
  | zero => simp_all
  | succ j ih =>
    rcases Nat.lt_or_ge i (j+1) with h1 | h1
    · have := ih (by omega)
      rw [bstart_succ]; omega
    · have : i = j + 1 := by omega
      subst this; exact Nat.le_refl _

theorem flatMap_batch_prefix (n k j : Nat) :
    (List.range j).flatMap (batch n k) = List.range (bstart n k j) := by
  induction j with
  | zero => simp [bstart_zero]
  | succ j ih =>
    rw [List.range_succ, List.flatMap_append, ih, bstart_succ, List.range_add]
    simp [batch]

theorem cumsum_length (acc : Nat) (l : List Nat) : (cumsum acc l).length = l.length + 1 := by
  induction l generalizing acc with
  | nil => rfl
  | cons a t ih => simp [cumsum, ih]

theorem cumsum_getElem? (acc : Nat) (l : List Nat) (i : Nat) (hi : i ≤ l.length) :
    (cumsum acc l)[i]? = some (acc + (l.take i).sum) := by
  induction l generalizing acc i with
  | nil => simp at hi; subst hi; simp [cumsum]
  | cons a t ih =>
    cases i with
    | zero => simp [cumsum]
    | succ i =>
      simp only [cumsum, List.getElem?_cons_succ, List.take_succ_cons, List.sum_cons]
      rw [ih (acc + a) i (by simpa using hi)]
      congr 1; omega

theorem sectionSizes_length (n k : Nat) (hk : 0 < k) : (sectionSizes n k).length = k := by
  have : n % k < k := Nat.mod_lt _ hk
  simp [sectionSizes]; omega

theorem sectionSizes_take_sum (n k i : Nat) (hk : 0 < k) (hi : i ≤ k) :
    ((sectionSizes n k).take i).sum = bstart n k i := by
  have hr : n % k < k := Nat.mod_lt _ hk
  unfold sectionSizes bstart
  rw [List.take_append, List.take_replicate, List.take_replicate, List.sum_append, List.sum_replicate_nat,
    List.sum_replicate_nat, List.length_replicate]
  rcases Nat.le_total i (n % k) with h | h
  · rw [Nat.min_eq_left h, show i - n % k = 0 by omega]
    simp; ring
  · rw [Nat.min_eq_right h, Nat.min_eq_left (by omega)]
    obtain ⟨d, rfl⟩ := Nat.exists_eq_add_of_le h
    simp only [Nat.add_sub_cancel_left]
    ring

theorem divPoints_getElem? (n k i : Nat) (hk : 0 < k) (hi : i ≤ k) :
    (divPoints n k)[i]? = some (bstart n k i) := by
  unfold divPoints
  rw [cumsum_getElem? _ _ _ (by rw [sectionSizes_length n k hk]; exact hi), sectionSizes_take_sum n k i hk hi]
  simp

/-- sub-array `i` of `array_split(l, k)` is the slice `[bstart, bstart + bsize)` of `l`, for ANY list -/
theorem arraySplitAt_eq {α : Type} (l : List α) (k i : Nat) (hk : 0 < k) (hi : i < k) :
    arraySplitAt l k i = some ((l.drop (bstart l.length k i)).take (bsize l.length k i)) := by
  unfold arraySplitAt
  rw [if_neg (by omega), if_neg (by omega)]
  simp only [divPoints_getElem? _ _ _ hk (Nat.le_of_lt hi), divPoints_getElem? _ _ _ hk (Nat.succ_le_of_lt hi)]
  simp [slice, bstart_succ]

theorem take_range'_le (s n m : Nat) (h : m ≤ n) : (List.range' s n).take m = List.range' s m := by
  induction m generalizing s n with
  | zero => simp
  | succ m ih =>
    cases n with
    | zero => omega
    | succ n => simp [List.range'_succ, ih (s+1) n (by omega)]

theorem drop_take_range (n st sz : Nat) (h : st + sz ≤ n) :
    ((List.range n).drop st).take sz = List.range' st sz := by
  rw [List.range_eq_range', List.drop_range']
  simp only [Nat.mul_one, Nat.zero_add]
  exact take_range'_le _ _ _ (by omega)

theorem bstart_add_bsize_le (n k i : Nat) (hk : 0 < k) (hi : i < k) : bstart n k i + bsize n k i ≤ n := by
  rw [← bstart_succ]
  calc bstart n k (i+1) ≤ bstart n k k := bstart_mono n k (by omega)
    _ = n := bstart_last n k hk

theorem arraySplitAt_range (n k i : Nat) (hk : 0 < k) (hi : i < k) :
    arraySplitAt (List.range n) k i = some (batch n k i) := by
  rw [arraySplitAt_eq _ _ _ hk hi, batch_eq_range']
  simp only [List.length_range]
  rw [drop_take_range _ _ _ (bstart_add_bsize_le n k i hk hi)]


/-! ### allSome, nunique, gather -/


theorem allSome_eq_some_iff {α} (l : List (Option α)) (r : List α) : allSome l = some r ↔ l = r.map some := by
  induction l generalizing r with
  | nil => cases r <;> simp [allSome]
  | cons a t ih =>
    cases a with
    | none => cases r <;> simp [allSome]
    | some a =>
      cases r with
      | nil => simp [allSome]
      | cons b r =>
        simp only [allSome, Option.map_eq_some_iff, List.cons.injEq, List.map_cons, Option.some.injEq]
        constructor
        · rintro ⟨r', hr', rfl, rfl⟩; exact ⟨rfl, (ih r').mp hr'⟩
        · rintro ⟨rfl, h⟩; exact ⟨r, (ih r).mpr h, rfl, rfl⟩

theorem allSome_map_some {α β} (l : List α) (f : α → Option β) (g : α → β) (h : ∀ a ∈ l, f a = some (g a)) :
    allSome (l.map f) = some (l.map g) := by
  rw [allSome_eq_some_iff, List.map_map]
  exact List.map_congr_left (fun a ha => by simp [h a ha])

theorem nunique_le {α : Type} [DecidableEq α] (l : List α) : nunique l ≤ l.length := by
  induction l with
  | nil => simp [nunique]
  | cons a t ih => simp only [nunique, List.length_cons]; split <;> omega

theorem nunique_eq_length_iff {α : Type} [DecidableEq α] (l : List α) : nunique l = l.length ↔ l.Nodup := by
  induction l with
  | nil => simp [nunique]
  | cons a t ih =>
    have := nunique_le t
    simp only [nunique, List.length_cons, List.nodup_cons]
    split
    · rename_i h; constructor
      · intro h'; omega
      · rintro ⟨h', _⟩; exact absurd h h'
    · rename_i h; constructor
      · intro h'; exact ⟨h, ih.mp (by omega)⟩
      · rintro ⟨_, h'⟩; rw [ih.mpr h']

theorem gather_range' {α : Type} (ids : List α) (st sz : Nat) (h : st + sz ≤ ids.length) :
    gather ids (List.range' st sz) = some ((ids.drop st).take sz) := by
  unfold gather
  rw [allSome_eq_some_iff]
  apply List.ext_getElem?
  intro j
  simp only [List.getElem?_map, List.getElem?_take, List.getElem?_drop]
  by_cases hj : j < sz
  · have : st + j < ids.length := by omega
    simp [hj, List.getElem?_eq_getElem this]
  · simp [hj]

theorem mem_drop_take {α : Type} (l : List α) (st sz : Nat) (x : α) :
    x ∈ (l.drop st).take sz ↔ ∃ j, st ≤ j ∧ j < st + sz ∧ l[j]? = some x := by
  rw [List.mem_iff_getElem?]
  constructor
  · rintro ⟨j, hj⟩
    rw [List.getElem?_take] at hj
    split at hj
    · rw [List.getElem?_drop] at hj; exact ⟨st + j, by omega, by omega, hj⟩
    · cases hj
  · rintro ⟨j, h1, h2, h3⟩
    refine ⟨j - st, ?_⟩
    rw [List.getElem?_take, if_pos (by omega), List.getElem?_drop, show st + (j - st) = j by omega]
    exact h3

theorem nodup_getElem?_inj {α : Type} (l : List α) (h : l.Nodup) (i j : Nat) (hj : j < l.length)
    (e : l[i]? = some l[j]) : i = j := by
  have hi : i < l.length := by
    by_contra hc; rw [List.getElem?_eq_none (by omega)] at e; cases e
  rw [List.getElem?_eq_getElem hi] at e
  exact (List.Nodup.getElem_inj_iff h).mp (Option.some.inj e)




/-! ### python dictionaries as association lists -/

theorem dictSet_keys {β : Type} (d : List (String × β)) (k : String) (v : β) :
    (dictSet d k v).map (·.1) = if d.any (·.1 == k) then d.map (·.1) else d.map (·.1) ++ [k] := by
  unfold dictSet
  split
  · rw [List.map_map]
    apply List.map_congr_left
    intro e _
    simp only [Function.comp]
    split <;> rfl
  · simp

theorem dictSet_nodup {β : Type} (d : List (String × β)) (k : String) (v : β) (h : (d.map (·.1)).Nodup) :
    ((dictSet d k v).map (·.1)).Nodup := by
  rw [dictSet_keys]
  split
  · exact h
  · rename_i hk
    rw [List.nodup_append]
    refine ⟨h, by simp, ?_⟩
    intro a ha b hb
    simp only [List.mem_singleton] at hb
    subst hb
    intro hab
    subst hab
    apply hk
    obtain ⟨e, he, rfl⟩ := List.mem_map.mp ha
    exact List.any_eq_true.mpr ⟨e, he, by simp⟩

theorem foldl_dictSet_nodup {β : Type} (kvs : List (String × β)) (acc : List (String × β)) (h : (acc.map (·.1)).Nodup) :
    ((kvs.foldl (fun acc kv => dictSet acc kv.1 kv.2) acc).map (·.1)).Nodup := by
  induction kvs generalizing acc with
  | nil => exact h
  | cons kv t ih => exact ih _ (dictSet_nodup acc kv.1 kv.2 h)

theorem dictOf_nodup {β : Type} (kvs : List (String × β)) : ((dictOf kvs).map (·.1)).Nodup :=
  foldl_dictSet_nodup kvs [] (by simp)

theorem foldl_dictSet_eq {β : Type} (kvs acc : List (String × β)) (h : ((acc ++ kvs).map (·.1)).Nodup) :
    kvs.foldl (fun acc kv => dictSet acc kv.1 kv.2) acc = acc ++ kvs := by
  induction kvs generalizing acc with
  | nil => simp
  | cons kv t ih =>
    have hnot : acc.any (·.1 == kv.1) = false := by
      rw [Bool.eq_false_iff]
      intro hc
      obtain ⟨e, he, hek⟩ := List.any_eq_true.mp hc
      simp only [beq_iff_eq] at hek
      simp only [List.map_append, List.map_cons] at h
      have := (List.nodup_append.mp h).2.2 e.1 (List.mem_map_of_mem he) kv.1 (by simp)
      exact this hek
    simp only [List.foldl_cons]
    have : dictSet acc kv.1 kv.2 = acc ++ [kv] := by simp [dictSet, hnot]
    rw [this, ih (acc ++ [kv]) (by simpa using h)]
    simp

theorem dictOf_eq_self {β : Type} (kvs : List (String × β)) (h : (kvs.map (·.1)).Nodup) : dictOf kvs = kvs := by
  unfold dictOf
  rw [foldl_dictSet_eq kvs [] (by simpa using h)]
  simp

theorem lookup_map_set {β : Type} (d : List (String × β)) (k k' : String) (v : β) :
    (d.map (fun e => if e.1 == k then (e.1, v) else e)).lookup k' =
      if k' = k then (if d.any (·.1 == k) then some v else none) else d.lookup k' := by
  induction d with
  | nil => simp
  | cons e t ih =>
    rcases e with ⟨ek, ev⟩
    simp only [List.map_cons, List.any_cons]
    by_cases h1 : ek = k
    · subst h1
      by_cases h2 : k' = ek
      · subst h2; simp [List.lookup]
      · have : (k' == ek) = false := by simpa using h2
        simp only [beq_self_eq_true, if_true, List.lookup, this, Bool.true_or]
        rw [ih]; simp [h2]
    · have h1' : (ek == k) = false := by simpa using h1
      by_cases h2 : k' = ek
      · subst h2; simp [List.lookup, h1, h1']
      · have : (k' == ek) = false := by simpa using h2
        simp only [h1', Bool.false_eq_true, if_false, List.lookup, this, Bool.false_or]
        exact ih

theorem lookup_dictSet {β : Type} (d : List (String × β)) (k k' : String) (v : β) :
    (dictSet d k v).lookup k' = if k' = k then some v else d.lookup k' := by
  unfold dictSet
  split <;> rename_i hk
  · rw [lookup_map_set]; simp [hk]
  · rw [List.lookup_append]
    by_cases h2 : k' = k
    · subst h2
      have : d.lookup k' = none := by
        rw [List.lookup_eq_none_iff]
        intro e he
        have h3 : ¬ (e.1 == k') = true := fun hc => hk (List.any_eq_true.mpr ⟨e, he, hc⟩)
        rw [bne_iff_ne]
        intro hc
        exact h3 (by rw [hc]; exact beq_self_eq_true _)
      rw [this]
      simp [List.lookup]
    · have : (k' == k) = false := by simpa using h2
      cases hl : d.lookup k' <;> simp [List.lookup, this, h2]

/-! ### regular expressions of `find` -/

theorem matchLit_refl (p : List Char) : matchLit p p = true := by
  induction p with
  | nil => rfl
  | cons c t ih => simp [matchLit, ih]

theorem matchLit_literal (p s : List Char) (h : '.' ∉ p) : matchLit p s = true ↔ p = s := by
  induction p generalizing s with
  | nil => cases s <;> simp [matchLit]
  | cons c t ih =>
    cases s with
    | nil => simp [matchLit]
    | cons d u =>
      have hc : (c == '.') = false := by
        rw [Bool.eq_false_iff]; intro hc; exact h (by simp [beq_iff_eq.mp hc])
      simp only [matchLit, hc, Bool.false_or, Bool.and_eq_true, beq_iff_eq, List.cons.injEq]
      rw [ih u (fun hm => h (List.mem_cons_of_mem _ hm))]

theorem reStrip_id (s : String) (h : ∀ c ∈ s.toList, c ≠ '[' ∧ c ≠ ']') : reStrip s = s := by
  unfold reStrip
  rw [List.filter_eq_self.mpr, String.ofList_toList]
  intro c hc
  have := h c hc
  simp [this.1, this.2]

theorem plain_iff (v : Val) : v.plain = true ↔ ∀ c ∈ v.toStr.toList, c ≠ '.' ∧ c ≠ '[' ∧ c ≠ ']' := by
  unfold Val.plain
  rw [List.all_eq_true]
  apply forall₂_congr
  intro c _
  simp [not_or, and_assoc]

theorem valMatch_refl (v : Val) : valMatch v v = true := matchLit_refl _

theorem valMatch_plain (v tv : Val) (hv : v.plain = true) (ht : tv.plain = true) :
    valMatch v tv = true ↔ v.toStr = tv.toStr := by
  rw [plain_iff] at hv ht
  unfold valMatch
  rw [reStrip_id _ (fun c hc => (hv c hc).2), reStrip_id _ (fun c hc => (ht c hc).2),
    matchLit_literal _ _ (fun hm => (hv '.' hm).1 rfl)]
  exact String.toList_inj

theorem digit_ne (c : Char) (h : c.isDigit = true) : c ≠ '.' ∧ c ≠ '[' ∧ c ≠ ']' ∧ c ≠ '-' := by
  refine ⟨?_, ?_, ?_, ?_⟩ <;> (intro hc; subst hc; revert h; decide)

theorem nat_repr_chars (m : Nat) (c : Char) (h : c ∈ (Nat.repr m).toList) : c.isDigit = true := by
  unfold Nat.repr at h
  rw [String.toList_ofList] at h
  exact Nat.isDigit_of_mem_toDigits (by decide) (by decide) h

theorem int_plain (i : Int) : (Val.int i).plain = true := by
  rw [plain_iff]
  intro c hc
  have hc' : c ∈ (Int.repr i).toList := hc
  cases i with
  | ofNat m =>
    have := digit_ne c (nat_repr_chars m c hc')
    exact ⟨this.1, this.2.1, this.2.2.1⟩
  | negSucc m =>
    simp only [Int.repr, String.toList_append, List.mem_append] at hc'
    rcases hc' with h | h
    · have : c = '-' := by simpa using h
      subst this; decide
    · have := digit_ne c (nat_repr_chars _ c h)
      exact ⟨this.1, this.2.1, this.2.2.1⟩

theorem alpha_not_intchar (c : Char) (h : c.isAlpha = true) : c.isDigit = false ∧ c ≠ '_' ∧ c ≠ '-' := by
  refine ⟨?_, ?_, ?_⟩
  · simp only [Char.isAlpha, Char.isUpper, Char.isLower, Char.isDigit, Bool.or_eq_true, Bool.and_eq_true,
      decide_eq_true_eq, Bool.and_eq_false_iff, decide_eq_false_iff_not, UInt32.le_iff_toNat_le, UInt32.not_le,
      UInt32.lt_iff_toNat_lt] at h ⊢
    have e1 : 'A'.val.toNat = 65 := rfl
    have e2 : 'Z'.val.toNat = 90 := rfl
    have e3 : 'a'.val.toNat = 97 := rfl
    have e4 : 'z'.val.toNat = 122 := rfl
    have e5 : '0'.val.toNat = 48 := rfl
    have e6 : '9'.val.toNat = 57 := rfl
    omega
  · intro hc; subst hc; revert h; decide
  · intro hc; subst hc; revert h; decide

theorem toInt?_none_of_alpha (s : String) (h : s.toList.any Char.isAlpha = true) : s.toInt? = none := by
  rw [String.toInt?_eq_none_iff]
  by_contra hc
  have hc' : s.isInt = true := by simpa using hc
  rw [String.isInt_iff] at hc'
  obtain ⟨c, hcs, hca⟩ := List.any_eq_true.mp h
  obtain ⟨hd, hu, hm⟩ := alpha_not_intchar c hca
  rcases hc' with h1 | ⟨t, rfl, h2⟩
  · rw [String.isNat_iff] at h1
    rcases h1.2.1 c hcs with h3 | h3
    · rw [hd] at h3; cases h3
    · exact hu h3
  · rw [String.isNat_iff] at h2
    have : c ∈ t.toList := by
      simp only [String.toList_append, List.mem_append] at hcs
      rcases hcs with h4 | h4
      · have : c = '-' := by simpa using h4
        exact absurd this hm
      · exact h4
    rcases h2.2.1 c this with h3 | h3
    · rw [hd] at h3; cases h3
    · exact hu h3


/-- string forms tell integers and strings that do not read as integers apart -/
theorem toStr_inj_int_str (i : Int) (s : String) (hs : s.toInt? = none) : (Val.int i).toStr ≠ (Val.str s).toStr := by
  intro h
  have : s = Int.repr i := h.symm
  rw [this, Int.toInt?_repr] at hs
  cases hs

theorem toStr_inj_int (i j : Int) (h : (Val.int i).toStr = (Val.int j).toStr) : i = j :=
  Int.repr_inj.mp h



/-! ### scans -/

theorem find?_congr' {α : Type} (l : List α) (p q : α → Bool) (h : ∀ x ∈ l, p x = q x) : l.find? p = l.find? q := by
  induction l with
  | nil => rfl
  | cons a t ih =>
    simp only [List.find?_cons, h a (by simp)]
    rw [ih fun x hx => h x (by simp [hx])]

theorem SiteBatch.searchLoop_eq_find {α : Type} [BEq α] (sb : SiteBatch α) (id : α) (f : Nat → List α) (L : List Nat)
    (h : ∀ i ∈ L, sb.getItem (i : Nat) = .ok (f i)) :
    sb.searchLoop id L = .ok (L.find? fun i => (f i).contains id) := by
  induction L with
  | nil => rfl
  | cons i rest ih =>
    simp only [SiteBatch.searchLoop, h i (by simp), List.find?_cons]
    cases hc : (f i).contains id
    · simp only [Bool.false_eq_true, if_false]; exact ih fun j hj => h j (by simp [hj])
    · simp

/-! ### find: the loop over tasks and criteria -/

/-- all criteria hold on one task dictionary -/
def critHolds (crit : List (String × Val)) (t : Dict) : Bool :=
  crit.all fun kv => match t.lookup kv.1 with | some tv => valMatch kv.2 tv | none => false

theorem critHolds_iff (crit : List (String × Val)) (t : Dict) :
    critHolds crit t = true ↔ ∀ kv ∈ crit, ∃ tv, t.lookup kv.1 = some tv ∧ valMatch kv.2 tv = true := by
  unfold critHolds
  rw [List.all_eq_true]
  apply forall₂_congr
  intro kv _
  cases t.lookup kv.1 <;> simp

theorem critMatch_ok (options : List (String × List Val)) (t : Dict) (crit : List (String × Val))
    (ho : ∀ kv ∈ crit, (options.lookup kv.1).isSome) (ht : ∀ kv ∈ crit, (t.lookup kv.1).isSome) :
    critMatch options t crit = .ok (critHolds crit t) := by
  induction crit with
  | nil => rfl
  | cons kv rest ih =>
    rcases kv with ⟨k, v⟩
    have h1 := ho (k, v) (by simp)
    have h2 := ht (k, v) (by simp)
    simp only at h1 h2
    obtain ⟨tv, htv⟩ := Option.isSome_iff_exists.mp h2
    have h1' : (options.lookup k).isNone = false := by cases h : options.lookup k <;> simp_all
    simp only [critMatch, h1', Bool.false_eq_true, if_false, htv,
      ih (fun x hx => ho x (by simp [hx])) (fun x hx => ht x (by simp [hx]))]
    simp [critHolds, htv]

theorem critMatch_unknown (options : List (String × List Val)) (t : Dict) (crit : List (String × Val))
    (h : ∃ kv ∈ crit, options.lookup kv.1 = none) : ∃ e, critMatch options t crit = .error e := by
  induction crit with
  | nil => simp at h
  | cons kv rest ih =>
    rcases kv with ⟨k, v⟩
    simp only [critMatch]
    split
    · exact ⟨_, rfl⟩
    · rename_i hk
      split
      · exact ⟨_, rfl⟩
      · obtain ⟨kv', hkv', hn⟩ := h
        rcases List.mem_cons.mp hkv' with rfl | hin
        · simp only at hn; simp [hn] at hk
        · obtain ⟨e, he⟩ := ih ⟨kv', hin, hn⟩
          rw [he]; exact ⟨_, rfl⟩

theorem findLoop_ok (options : List (String × List Val)) (crit : List (String × Val)) (ts : List Dict) (id : Nat)
    (ho : ∀ kv ∈ crit, (options.lookup kv.1).isSome) (ht : ∀ t ∈ ts, ∀ kv ∈ crit, (t.lookup kv.1).isSome) :
    findLoop options crit ts id = .ok (((List.range ts.length).filter fun j =>
      match ts[j]? with | some t => critHolds crit t | none => false).map (· + id)) := by
  induction ts generalizing id with
  | nil => rfl
  | cons t rest ih =>
    simp only [findLoop, critMatch_ok options t crit ho (ht t (by simp)),
      ih (id + 1) (fun x hx => ht x (by simp [hx]))]
    congr 1
    rw [List.length_cons, List.range_succ_eq_map, List.filter_cons]
    simp only [List.getElem?_cons_zero, List.filter_map, List.map_map]
    have hcomp : (fun j => match (t :: rest)[j]? with | some t => critHolds crit t | none => false) ∘ Nat.succ
        = fun j => match rest[j]? with | some t => critHolds crit t | none => false := by
      funext j; simp
    rw [hcomp]
    have hadd : ((· + id) ∘ Nat.succ) = (· + (id + 1)) := by funext j; simp; omega
    cases critHolds crit t
    · simp only [Bool.false_eq_true, if_false, List.map_map, hadd]
    · simp only [if_true, List.map_cons, Nat.zero_add, List.map_map, hadd]

theorem lookup_zip_nodup {β : Type} (keys : List String) (c : List β) (hn : keys.Nodup) (j : Nat) (hj : j < keys.length)
    (hl : c.length = keys.length) :
    (keys.zip c).lookup keys[j] = c[j]? := by
  induction keys generalizing c j with
  | nil => simp at hj
  | cons k ks ih =>
    cases c with
    | nil => simp at hl
    | cons v vs =>
      cases j with
      | zero => simp [List.lookup_cons]
      | succ j =>
        have hne : (ks[j]'(by simpa using hj) == k) = false := by
          have := (List.nodup_cons.mp hn).1
          have hm : ks[j]'(by simpa using hj) ∈ ks := List.getElem_mem _
          simp only [beq_eq_false_iff_ne, ne_eq]
          intro h
          exact this (h ▸ hm)
        simp only [List.zip_cons_cons, List.getElem_cons_succ, List.lookup_cons, hne, List.getElem?_cons_succ]
        exact ih vs (List.nodup_cons.mp hn).2 j (by simpa using hj) (by simpa using hl)



theorem forall₂_getElem? {α β : Type} {R : α → β → Prop} {l1 : List α} {l2 : List β} (h : List.Forall₂ R l1 l2)
    (j : Nat) (a : α) (b : β) (h1 : l1[j]? = some a) (h2 : l2[j]? = some b) : R a b := by
  induction h generalizing j with
  | nil => simp at h1
  | cons hab _ ih =>
    cases j with
    | zero => simp at h1 h2; subst h1; subst h2; exact hab
    | succ j => exact ih j (by simpa using h1) (by simpa using h2)

/-! ### dictionary look-ups and equality -/

theorem lookup_foldl_dictSet {β : Type} (kvs acc : List (String × β)) (k : String) :
    (kvs.foldl (fun acc kv => dictSet acc kv.1 kv.2) acc).lookup k = (kvs.reverse.lookup k).or (acc.lookup k) := by
  induction kvs generalizing acc with
  | nil => simp
  | cons kv t ih =>
    simp only [List.foldl_cons, List.reverse_cons]
    rw [ih, lookup_dictSet, List.lookup_append]
    cases t.reverse.lookup k with
    | some v => simp
    | none =>
      rcases kv with ⟨k1, v1⟩
      by_cases h : k = k1
      · subst h; simp [List.lookup]
      · have : (k == k1) = false := by simpa using h
        simp [List.lookup, this, h]

theorem lookup_dictOf {β : Type} (kvs : List (String × β)) (k : String) :
    (dictOf kvs).lookup k = kvs.reverse.lookup k := by
  unfold dictOf
  rw [lookup_foldl_dictSet]
  simp

theorem lookup_all_refl {β : Type} [BEq β] [LawfulBEq β] (d : List (String × β))
    (h : (d.map (·.1)).Nodup) : (d.all fun kv => d.lookup kv.1 == some kv.2) = true := by
  induction d with
  | nil => rfl
  | cons kv t ih =>
    simp only [List.map_cons, List.nodup_cons] at h
    simp only [List.all_cons, List.lookup, beq_self_eq_true, Bool.true_and]
    rw [List.all_eq_true]
    intro x hx
    have hne : x.1 ≠ kv.1 := fun he => h.1 (he ▸ List.mem_map_of_mem hx)
    have : (x.1 == kv.1) = false := by simpa using hne
    simp only [this]
    have := ih h.2
    rw [List.all_eq_true] at this
    exact this x hx

theorem dictSub_refl (d : Dict) (h : (d.map (·.1)).Nodup) : dictSub d d = true :=
  lookup_all_refl d h

theorem zip_self_all (ts : List Dict) (ht : ∀ t ∈ ts, (t.map (·.1)).Nodup) :
    ((ts.zip ts).all fun p => dictEq p.1 p.2) = true := by
  induction ts with
  | nil => rfl
  | cons a t ih =>
    simp only [List.zip_cons_cons, List.all_cons, Bool.and_eq_true]
    refine ⟨?_, ih (fun x hx => ht x (by simp [hx]))⟩
    simp only [dictEq, beq_self_eq_true, Bool.true_and]
    exact dictSub_refl _ (ht a (by simp))



theorem product_length_of_mem (ls : List (List Val)) (c : List Val) (h : c ∈ product ls) : c.length = ls.length := by
  induction ls generalizing c with
  | nil => simp [product] at h; subst h; rfl
  | cons vs rest ih =>
    simp only [product, List.mem_flatMap, List.mem_map] at h
    obtain ⟨v, _, c', hc', rfl⟩ := h
    simp [ih c' hc']

theorem tasksOf_keys (opts : List (String × List Val)) (t : Dict) (h : t ∈ tasksOf opts) : t.map (·.1) = opts.map (·.1) := by
  simp only [tasksOf, List.mem_map] at h
  obtain ⟨c, hc, rfl⟩ := h
  have hl := product_length_of_mem _ _ hc
  rw [List.map_fst_zip]
  simp only [List.length_map] at hl ⊢
  omega
/-! ### histories: invariants of `step` and `run` -/

theorem run_append (w : World) (a b : List Op) :
    run w (a ++ b) = ((run (run w a).1 b).1, (run w a).2 ++ (run (run w a).1 b).2) := by
  induction a generalizing w with
  | nil => simp [run]
  | cons op rest ih =>
    simp only [List.cons_append, run]
    rw [ih]

theorem fillOptions_nodup (args : List (String × OptArg)) (acc : List (String × List Val)) (h : (acc.map (·.1)).Nodup) :
    (((fillOptions args acc).1).map (·.1)).Nodup := by
  induction args generalizing acc with
  | nil => exact h
  | cons kv rest ih =>
    rcases kv with ⟨k, a⟩
    simp only [fillOptions]
    cases a.toList? with
    | none => exact h
    | some vs => exact ih _ (dictSet_nodup acc k vs h)

/-- unique keys everywhere: what python dictionaries guarantee -/
def Manager.Inv (m : Manager) : Prop :=
  (m.context.map (·.1)).Nodup ∧ (m.options.map (·.1)).Nodup ∧ ∀ t ∈ m.tasks, (t.map (·.1)).Nodup

theorem cartesian_inv (m : Manager) (args : List (String × OptArg)) (h : m.Inv) : (m.cartesian args).1.Inv := by
  unfold Manager.cartesian
  have hn := fillOptions_nodup args [] (by simp)
  cases hfo : fillOptions args [] with
  | mk opts ok =>
    rw [hfo] at hn
    cases ok with
    | true =>
      refine ⟨h.1, hn, ?_⟩
      intro t ht
      rw [tasksOf_keys opts t ht]
      exact hn
    | false => exact ⟨h.1, hn, h.2.2⟩

theorem step_mgr_cases (w : World) (op : Op) :
    (step w op).1.mgr = w.mgr ∨ ∃ args, op = .cartesian args ∧ (step w op).1.mgr = (w.mgr.cartesian args).1 := by
  cases op with
  | setKey key name => left; simp only [step]; split <;> rfl
  | resetKeys => left; rfl
  | cartesian args =>
    right; refine ⟨args, rfl, ?_⟩
    simp only [step]
    cases h : w.mgr.cartesian args with
    | mk m ok => cases ok <;> rfl
  | find crit => left; rfl
  | getTask id => left; rfl
  | exp => left; rfl
  | jsn => left; rfl
  | imp => left; rfl
  | save path ow => left; simp only [step]; split <;> rfl
  | load path => left; rfl

theorem step_inv (w : World) (op : Op) (h : w.mgr.Inv) : (step w op).1.mgr.Inv := by
  rcases step_mgr_cases w op with h1 | ⟨args, _, h1⟩
  · rw [h1]; exact h
  · rw [h1]; exact cartesian_inv _ _ h

theorem run_inv (w : World) (ops : List Op) (h : w.mgr.Inv) : (run w ops).1.mgr.Inv := by
  induction ops generalizing w with
  | nil => exact h
  | cons op rest ih => simp only [run]; exact ih _ (step_inv w op h)

theorem init_inv (name : String) (ctx : Dict) : (World.init name ctx).mgr.Inv :=
  ⟨dictOf_nodup ctx, by simp [World.init, Manager.new], by simp [World.init, Manager.new]⟩

theorem run_mgr_of_no_cartesian (w : World) (ops : List Op) (h : ∀ op ∈ ops, ∀ a, op ≠ .cartesian a) :
    (run w ops).1.mgr = w.mgr := by
  induction ops generalizing w with
  | nil => rfl
  | cons op rest ih =>
    simp only [run]
    rw [ih _ (fun o ho => h o (by simp [ho]))]
    rcases step_mgr_cases w op with h1 | ⟨args, h2, _⟩
    · exact h1
    · exact absurd h2 (h op (by simp) args)



/-! ### the loop of from_cartesian_product -/

theorem fillOptions_ok (args : List (String × OptArg)) (lists : List (List Val)) (acc : List (String × List Val))
    (h : args.map (·.2.toList?) = lists.map some) :
    fillOptions args acc = (((args.map (·.1)).zip lists).foldl (fun acc kv => dictSet acc kv.1 kv.2) acc, true) := by
  induction args generalizing lists acc with
  | nil => cases lists <;> simp_all [fillOptions]
  | cons kv rest ih =>
    rcases kv with ⟨k, a⟩
    cases lists with
    | nil => simp at h
    | cons l ls =>
      simp only [List.map_cons, List.cons.injEq] at h
      simp only [fillOptions, h.1, List.map_cons, List.zip_cons_cons, List.foldl_cons]
      exact ih ls _ h.2

theorem fillOptions_reject (pre post : List (String × OptArg)) (k : String) (lists : List (List Val))
    (acc : List (String × List Val)) (h : pre.map (·.2.toList?) = lists.map some) :
    fillOptions (pre ++ (k, .notIterable) :: post) acc
      = (((pre.map (·.1)).zip lists).foldl (fun acc kv => dictSet acc kv.1 kv.2) acc, false) := by
  induction pre generalizing lists acc with
  | nil => cases lists <;> simp_all [fillOptions, OptArg.toList?]
  | cons kv rest ih =>
    rcases kv with ⟨k', a⟩
    cases lists with
    | nil => simp at h
    | cons l ls =>
      simp only [List.map_cons, List.cons.injEq] at h
      simp only [List.cons_append, fillOptions, h.1, List.map_cons, List.zip_cons_cons, List.foldl_cons]
      exact ih ls _ h.2



/-! ### inputs of the `example`s of Props/C19.lean -/

/-- an option dictionary as the caller gives it: a list, a scalar given bare, then accepted -/
def exArgs : List (String × OptArg) := [("month", .many [.int 1, .int 10, .str "all"]), ("model", .bare (.str "gr4j")), ("k", .many [.int 1, .int 2])]
def exLists : List (List Val) := [[.int 1, .int 10, .str "all"], [.str "gr4j"], [.int 1, .int 2]]
/-- a history with a regenerated grid, a rejected grid, renamed keys, a dictionary read twice (before and after json) and files -/
def exOps : List Op :=
  [.cartesian exArgs, .find [("month", .int 1)], .exp, .imp, .jsn, .imp,
   .cartesian [("a", .many [.int 3, .int 4])], .imp, .getTask 1, .setKey "context_name" "ctx", .setKey "nokey" "zz",
   .save "f1" false, .cartesian [("a", .many [.int 5]), ("b", .notIterable)], .save "f1" false, .load "f1", .load "f2",
   .find [("a", .int 5)], .getTask 9]

end HydroVerif.C19
