/-
C09 — the predicates the property theorems are stated with (admissible keys, values, column names; the directory invariant)
and small lemmas about them. The property theorems themselves are in `Props/C09.lean`.
-/
import HydroVerif.Lemmas.C09
import HydroVerif.Lemmas.C09Body
import HydroVerif.Lemmas.C09Head
import HydroVerif.Lemmas.C09Num
import HydroVerif.Lemmas.C09Fs
import HydroVerif.Lemmas.C09Exp

namespace HydroVerif.C09

/-- admissible comment key: non-empty, at most 25 characters, lower-case, no colon, no white space -/
structure KeyOk (k : Str) : Prop where
  nonempty : k ≠ []
  short : k.length ≤ 25
  lowered : lower k = k
  noColon : ∀ c ∈ k, (c != ':') = true
  noSpace : ∀ c ∈ k, isSpace c = false

/-- admissible comment value: single-line text that is non-blank and has no leading/trailing white space -/
structure ValOk (v : Str) : Prop where
  nonempty : v ≠ []
  lstripped : lstrip v = v
  rstripped : rstrip v = v

/-- what the reader makes of a written `(key, value)` pair, for ANY value: the value comes back trimmed, and a blank value
is not entered in the dictionary at all -/
def readBack (kv : Str × Str) : Option (Str × Str) := if strip kv.2 = [] then none else some (kv.1, strip kv.2)

theorem strip_of_valOk (v : Str) (hv : ValOk v) : strip v = v := by
  unfold strip; rw [hv.lstripped, hv.rstripped]

/-- keys under which `_csvhead` records the shape of the table -/
def countKeys : List Str := ["nrow".toList, "ncol".toList]

theorem keyOk_nrow : KeyOk "nrow".toList := ⟨by decide, by decide, by decide, by decide, by decide⟩
theorem keyOk_ncol : KeyOk "ncol".toList := ⟨by decide, by decide, by decide, by decide, by decide⟩

theorem filterMap_readBack_keys (l : List (Str × Str)) :
    ((l.filterMap readBack).map (·.1)).Sublist (l.map (·.1)) := by
  induction l with
  | nil => simp
  | cons kv l ih =>
    obtain ⟨k, v⟩ := kv
    by_cases hb : strip v = []
    · have e : readBack (k, v) = none := by simp [readBack, hb]
      simp only [List.filterMap_cons, e, List.map_cons]
      exact ih.trans (List.sublist_cons_self _ _)
    · have e : readBack (k, v) = some (k, strip v) := by simp [readBack, hb]
      simp only [List.filterMap_cons, e, List.map_cons]
      exact ih.cons_cons _

/-- keys `_csvhead` writes itself after the caller's comments -/
def systemKeys : List Str :=
  ["time_generated".toList, "author".toList, "source_file".toList, "work_dir".toList, "python_environment".toList,
   "python_version".toList, "pandas_version".toList, "numpy_version".toList, "python_inc".toList, "python_lib".toList]

/-- the keys the caller's dictionary must avoid: the header uses them itself -/
def reservedKeys : List Str := countKeys ++ systemKeys

/-- admissible column name: no comma, quote or line break (the property: letters, digits, space, dash, underscore) -/
def ColOk (n : Str) : Prop := ∀ c ∈ n, c ≠ ',' ∧ c ≠ '"' ∧ c ≠ '\n' ∧ c ≠ '\r'

/-- admissible column name (the property: letters, digits, space, dash, underscore) -/
structure NameOk (n : Str) : Prop where
  nonempty : n ≠ []
  plain : ∀ c ∈ n, c ≠ ',' ∧ c ≠ '"' ∧ c ≠ '\n' ∧ c ≠ '\r' ∧ c ≠ '#' ∧ c ≠ '.'

theorem NameOk.colOk {n : Str} (h : NameOk n) : ColOk n := fun c hc =>
  ⟨(h.plain c hc).1, (h.plain c hc).2.1, (h.plain c hc).2.2.1, (h.plain c hc).2.2.2.1⟩

theorem NameOk.noQuote {n : Str} (h : NameOk n) : needsQuote n = false := by
  simp only [needsQuote, List.any_eq_false, special]
  intro c hc
  obtain ⟨h1, h2, h3, h4, _⟩ := h.plain c hc
  simp [h1, h2, h3, h4]

theorem fixName_id (n : Str) (h : NameOk n) : fixName n = n := by
  unfold fixName
  conv_rhs => rw [← List.map_id n]
  apply List.map_congr_left
  intro c hc
  have : (c == '.') = false := beq_eq_false_iff_ne.mpr (h.plain c hc).2.2.2.2.2
  simp [this]

theorem natStr_head_digit (n : Nat) : ∃ c s, natStr n = c :: s ∧ isDigitChar c := by
  cases h : natStr n with
  | nil => exact absurd h (natStr_ne_nil n)
  | cons c s => exact ⟨c, s, rfl, natStr_digits n c (by rw [h]; simp)⟩

/-- the unsigned digits `%0.{d}f` prints for the rounded scaled value `n` read as the rational `n / 10^d` -/
theorem parseUnsigned_fixedBody (d n : Nat) :
    parseUnsigned (natStr (n / 10 ^ d) ++ (if d = 0 then [] else '.' :: fracDigits d (n % 10 ^ d)))
      = some ((n : ℚ) / (10 : ℚ) ^ d) := by
  by_cases hd : d = 0
  · subst hd
    simp only [if_true, List.append_nil, pow_zero, Nat.div_one, div_one]
    exact (parseUnsigned_digits _ (natStr_ne_nil n) (natStr_digits n)).trans (by rw [natVal_natStr])
  · rw [if_neg hd, parseUnsigned_point _ _ (natStr_ne_nil _) (natStr_digits _) (fracDigits_digits _ _),
      natVal_natStr, natVal_fracDigits, fracDigits_length, Nat.mod_mod]
    congr 1
    have h10 : ((10 : ℚ) ^ d) ≠ 0 := by positivity
    have hsplit : (n : ℚ) = ((n / 10 ^ d : ℕ) : ℚ) * (10 : ℚ) ^ d + ((n % 10 ^ d : ℕ) : ℚ) := by
      have := Nat.div_add_mod n (10 ^ d)
      have h2 : ((10 ^ d * (n / 10 ^ d) + n % 10 ^ d : ℕ) : ℚ) = (n : ℚ) := by rw [this]
      push_cast at h2
      linarith
    field_simp
    linarith

/-- the candidate files `_check_name` tries (list regenerated from csv.py) -/
theorem checkName_cands (name : Str) :
    (Gen.checkNameExtensions.map fun e => stem name ++ '.' :: e.toList)
      = [stem name ++ extGz, stem name ++ extZip, stem name ++ extCsv, stem name ++ (extCsv ++ extGz)] := by
  simp only [Gen.checkNameExtensions, List.map_cons, List.map_nil]
  have e1 : ('.' :: "gz".toList) = extGz := by decide
  have e2 : ('.' :: "zip".toList) = extZip := by decide
  have e3 : ('.' :: "csv".toList) = extCsv := by decide
  have e4 : ('.' :: "csv.gz".toList) = extCsv ++ extGz := by decide
  rw [e1, e2, e3, e4]

/-- every zip file of the directory sits under a `.zip` name and holds exactly the member `<stem of its name>.csv` -/
def ZipInv (d : Dir) : Prop :=
  ∀ f ms, dirGet d f = some (.zip ms) → suffix f = extZip ∧ ∃ t, ms = [(stem f ++ extCsv, t)]

def Op.nameOk : Op → Prop
  | .write n _ _ _ => n ≠ []
  | .read n => n ≠ []

theorem run_reads_append (ops : List Op) : ∀ d name,
    (run d (ops ++ [.read name])).2 = (run d ops).2 ++ [readStep (run d ops).1 name] := by
  induction ops with
  | nil => intro d name; simp [run, step]
  | cons op ops ih =>
    intro d name
    simp only [List.cons_append, run]
    rw [ih]
    cases (step d op).2 <;> simp

theorem memberGet_append_new (a : Archive) (m n t : Str) (h : a.any (·.1 == n) = false) :
    memberGet (a ++ [(n, t)]) m = match memberGet a m with | some x => some x | none => if n == m then some t else none := by
  induction a with
  | nil => simp [memberGet]
  | cons e a ih =>
    obtain ⟨k, x⟩ := e
    simp only [List.any_cons, Bool.or_eq_false_iff] at h
    simp only [List.cons_append, memberGet]
    by_cases hk : (k == m) = true
    · simp [hk]
    · simp only [hk, if_false]
      exact ih h.2

theorem memberGet_some_of_any (a : Archive) (m : Str) (h : a.any (·.1 == m) = true) : ∃ t, memberGet a m = some t := by
  induction a with
  | nil => simp at h
  | cons e a ih =>
    obtain ⟨k, x⟩ := e
    simp only [memberGet]
    by_cases hk : (k == m) = true
    · exact ⟨x, by simp [hk]⟩
    · simp only [hk, if_false]
      apply ih
      simpa [hk] using h

theorem memberGet_none_of_not_any (a : Archive) (m : Str) (h : a.any (·.1 == m) = false) : memberGet a m = none := by
  induction a with
  | nil => rfl
  | cons e a ih =>
    obtain ⟨k, x⟩ := e
    simp only [List.any_cons, Bool.or_eq_false_iff] at h
    simp only [memberGet, h.1, Bool.false_eq_true, if_false]
    exact ih h.2

/-- sign, integer digits, point and `d` decimals of the scaled value `n`, read as `± n / 10^d` -/
theorem parseDec_signedBody (d n : ℕ) (neg : Bool) :
    parseDec ((if neg then ['-'] else []) ++ (natStr (n / 10 ^ d) ++ (if d = 0 then [] else '.' :: fracDigits d (n % 10 ^ d))))
      = some ((if neg then -1 else 1) * ((n : ℚ) / (10 : ℚ) ^ d)) := by
  have hbody := parseUnsigned_fixedBody d n
  cases neg with
  | true =>
    simp only [if_true, List.singleton_append]
    unfold parseDec
    simp only [hbody, Option.map_some]
    congr 1; ring
  | false =>
    simp only [Bool.false_eq_true, if_false, List.nil_append]
    obtain ⟨c, s, hcs, hc⟩ := natStr_head_digit (n / 10 ^ d)
    have : natStr (n / 10 ^ d) ++ (if d = 0 then [] else '.' :: fracDigits d (n % 10 ^ d))
        = c :: (s ++ (if d = 0 then [] else '.' :: fracDigits d (n % 10 ^ d))) := by
      rw [hcs]; rfl
    rw [this, parseDec_of_digit_head c _ hc, ← this, hbody]
    congr 1; ring

/-- the characters of a mantissa: sign, digits, point -/
theorem mantissa_chars (d n : ℕ) (neg : Bool) :
    ∀ c ∈ (if neg then ['-'] else []) ++ (natStr (n / 10 ^ d) ++ (if d = 0 then [] else '.' :: fracDigits d (n % 10 ^ d))),
      isDigitChar c ∨ c = '-' ∨ c = '.' := by
  intro c hc
  simp only [List.mem_append] at hc
  rcases hc with hc | hc | hc
  · split at hc
    · simp at hc; right; left; exact hc
    · simp at hc
  · left; exact natStr_digits _ c hc
  · split at hc
    · simp at hc
    · simp only [List.mem_cons] at hc
      rcases hc with hc | hc
      · right; right; exact hc
      · left; exact fracDigits_digits _ _ c hc

/-- the exponent part `±dd` of `%e` is read back as the exponent -/
theorem parseInt_expPart (e : ℤ) :
    parseInt (dropPlus ((if e < 0 then '-' else '+') :: (if e.natAbs < 10 then '0' :: natStr e.natAbs else natStr e.natAbs)))
      = some e := by
  set digs := (if e.natAbs < 10 then '0' :: natStr e.natAbs else natStr e.natAbs) with hdigs
  have hne : digs ≠ [] := by rw [hdigs]; split <;> simp [natStr_ne_nil]
  have hall : allDigits digs = true := by
    rw [hdigs]
    split
    · have := allDigits_natStr e.natAbs
      unfold allDigits at this ⊢
      simp only [List.all_cons, this, Bool.and_true]
      exact (isDigit_iff '0').mpr isDigitChar_zero
    · exact allDigits_natStr _
  have hval : natVal digs = e.natAbs := by
    rw [hdigs]; split
    · rw [natVal_zero_cons, natVal_natStr]
    · exact natVal_natStr _
  have hhead : ∃ c s, digs = c :: s ∧ isDigitChar c := by
    rw [hdigs]; split
    · exact ⟨'0', _, rfl, isDigitChar_zero⟩
    · exact natStr_head_digit _
  by_cases he : e < 0
  · simp only [he, if_true]
    have hz : -((e.natAbs : ℕ) : ℤ) = e := by omega
    show parseInt ('-' :: digs) = some e
    unfold parseInt
    simp only [hne, ne_eq, not_false_eq_true, hall, and_self, if_true, hval, hz]
  · simp only [he, if_false]
    have hz : ((e.natAbs : ℕ) : ℤ) = e := by omega
    obtain ⟨c, s, hcs, hc⟩ := hhead
    show parseInt digs = some e
    rw [hcs, parseInt_of_digit_head c s hc, ← hcs]
    simp only [hne, ne_eq, not_false_eq_true, hall, and_self, if_true, hval, hz]

end HydroVerif.C09
