/- helper lemmas for the rounded-arithmetic carrier `Rnd α r` of C04: what survives a monotone, odd rounding operator that fixes
0 and 1 (as IEEE round-to-nearest, round-toward-zero ... do, in every precision, while nothing overflows) -/
import HydroVerif.Lemmas.C04
import Mathlib.Algebra.Order.Floor.Ring
import Mathlib.Data.Rat.Floor

set_option linter.unusedSectionVars false

namespace HydroVerif.C04
variable {α : Type} [Field α] [LinearOrder α] [IsStrictOrderedRing α]

/-- the rounding operators the `_rnd` theorems are about -/
structure IsRounding (r : α → α) : Prop where
  mono : Monotone r
  zero : r 0 = 0
  one : r 1 = 1
  neg : ∀ x, r (-x) = -r x

namespace IsRounding
variable {r : α → α}
theorem nonneg (hr : IsRounding r) {x : α} (h : 0 ≤ x) : 0 ≤ r x := by
  have := hr.mono h; rwa [hr.zero] at this
theorem nonpos (hr : IsRounding r) {x : α} (h : x ≤ 0) : r x ≤ 0 := by
  have := hr.mono h; rwa [hr.zero] at this
theorem le_one (hr : IsRounding r) {x : α} (h : x ≤ 1) : r x ≤ 1 := by
  have := hr.mono h; rwa [hr.one] at this
theorem one_le (hr : IsRounding r) {x : α} (h : 1 ≤ x) : 1 ≤ r x := by
  have := hr.mono h; rwa [hr.one] at this
theorem neg_one_le (hr : IsRounding r) {x : α} (h : -1 ≤ x) : -1 ≤ r x := by
  have := hr.mono h; rwa [hr.neg, hr.one] at this
/-- a quotient of magnitude at most 1 stays so after rounding numerator, denominator and quotient -/
theorem quot_range (hr : IsRounding r) {a b : α} (hb : 0 < r b) (h1 : a ≤ b) (h2 : -b ≤ a) :
    -1 ≤ r (r a / r b) ∧ r (r a / r b) ≤ 1 := by
  have u : r a ≤ r b := hr.mono h1
  have l : -r b ≤ r a := by have := hr.mono h2; rwa [hr.neg] at this
  constructor
  · apply hr.neg_one_le
    rw [le_div_iff₀ hb]; linarith
  · apply hr.le_one
    rw [div_le_one hb]; exact u
end IsRounding

namespace Rnd
variable {r : α → α}
@[simp] theorem add_val (a b : Rnd α r) : (a + b).val = r (a.val + b.val) := rfl
@[simp] theorem sub_val (a b : Rnd α r) : (a - b).val = r (a.val - b.val) := rfl
@[simp] theorem mul_val (a b : Rnd α r) : (a * b).val = r (a.val * b.val) := rfl
@[simp] theorem div_val (a b : Rnd α r) : (a / b).val = r (a.val / b.val) := rfl
@[simp] theorem neg_val (a : Rnd α r) : (-a).val = -a.val := rfl
@[simp] theorem zero_val : (0 : Rnd α r).val = 0 := rfl
@[simp] theorem one_val : (1 : Rnd α r).val = 1 := rfl
@[simp] theorem two_val : (2 : Rnd α r).val = 2 := rfl
@[simp] theorem natCast_val (n : Nat) : ((n : Rnd α r)).val = r (n : α) := rfl
theorem lt_iff (a b : Rnd α r) : a < b ↔ a.val < b.val := Iff.rfl
theorem ext_val {a b : Rnd α r} (h : a.val = b.val) : a = b := by
  cases a; cases b; simp_all
end Rnd

section sums
variable {r : α → α}

theorem sumL_val_nonneg (hr : IsRounding r) (l : List (Rnd α r)) (h : ∀ x ∈ l, 0 ≤ x.val) : 0 ≤ (sumL l).val := by
  induction l with
  | nil => simp [sumL]
  | cons x xs ih =>
    simp only [sumL, Rnd.add_val]
    exact hr.nonneg (add_nonneg (h x (by simp)) (ih fun y hy => h y (by simp [hy])))

/-- a rounded sum of rounded squares is not negative -/
theorem sse_val_nonneg (hr : IsRounding r) (o s : List (Rnd α r)) : 0 ≤ (sse o s).val := by
  induction o generalizing s with
  | nil => simp [sse]
  | cons x xs ih =>
    cases s with
    | nil => simp [sse]
    | cons y ys =>
      simp only [sse, Rnd.add_val, Rnd.mul_val, Rnd.sub_val]
      exact hr.nonneg (add_nonneg (hr.nonneg (mul_self_nonneg _)) (ih ys))

/-- the errors of a perfect simulation are exactly zero, and so is their rounded sum of squares -/
theorem sse_self_val (hr : IsRounding r) (o : List (Rnd α r)) : (sse o o).val = 0 := by
  induction o with
  | nil => simp [sse]
  | cons x xs ih => simp [sse, ih, hr.zero]

end sums

section orss
variable {r : α → α}

theorem orss_aux (hr : IsRounding r) (θ : Rnd α r) (ht : 0 ≤ θ.val) :
    ∃ v, (if -1 < θ then some ((θ - 1) / (θ + 1)) else (none : Option (Rnd α r))) = some v ∧ -1 ≤ v.val ∧ v.val ≤ 1 := by
  have hg : (-1 : Rnd α r) < θ := by
    rw [Rnd.lt_iff]; simp only [Rnd.neg_val, Rnd.one_val]; linarith
  refine ⟨_, if_pos hg, ?_⟩
  simp only [Rnd.div_val, Rnd.sub_val, Rnd.add_val, Rnd.one_val]
  have hd : 0 < r (θ.val + 1) := lt_of_lt_of_le one_pos (hr.one_le (by linarith))
  exact hr.quot_range hd (by linarith) (by linarith)

end orss

/-! ### a rounding operator that is not the identity: truncation to integers -/

/-- round toward zero to an integer (the coarsest "floating point": no fraction bits) -/
def fixR (x : ℚ) : ℚ := if 0 ≤ x then (⌊x⌋ : ℚ) else -(⌊-x⌋ : ℚ)

theorem fixR_isRounding : IsRounding fixR where
  mono := by
    intro x y hxy
    unfold fixR
    by_cases hx : 0 ≤ x
    · have hy : 0 ≤ y := le_trans hx hxy
      simp only [hx, hy, if_true]
      exact_mod_cast Int.floor_mono hxy
    · by_cases hy : 0 ≤ y
      · simp only [hx, hy, if_true, if_false]
        have h1 : (0:ℚ) ≤ (⌊-x⌋ : ℚ) := by
          have : 0 ≤ ⌊-x⌋ := Int.floor_nonneg.mpr (by linarith [not_le.mp hx])
          exact_mod_cast this
        have h2 : (0:ℚ) ≤ (⌊y⌋ : ℚ) := by
          have : 0 ≤ ⌊y⌋ := Int.floor_nonneg.mpr hy
          exact_mod_cast this
        linarith
      · simp only [hx, hy, if_false]
        have : ⌊-y⌋ ≤ ⌊-x⌋ := Int.floor_mono (by linarith)
        have : ((⌊-y⌋ : ℤ) : ℚ) ≤ ((⌊-x⌋ : ℤ) : ℚ) := by exact_mod_cast this
        linarith
  zero := by simp [fixR]
  one := by simp [fixR]
  neg := by
    intro x
    unfold fixR
    rcases lt_trichotomy x 0 with h | h | h
    · have h1 : ¬ 0 ≤ x := not_le.mpr h
      have h2 : 0 ≤ -x := by linarith
      simp [h1, h2]
    · subst h; simp
    · have h1 : 0 ≤ x := h.le
      have h2 : ¬ 0 ≤ -x := by linarith
      simp [h1, h2]

end HydroVerif.C04
