/-
C20 — helper lemmas for `Model/C20X.lean` (pareto front on NaN / ±inf / finite values with explicit roundings,
rounded plotting positions, `lhs_norm`'s call of `lhs`, `Boxplot(df).stats`).
-/
import HydroVerif.Model.C20X
import HydroVerif.Lemmas.C20
import HydroVerif.Lemmas.C20Quantile

set_option linter.unusedSectionVars false
set_option linter.unusedVariables false

namespace HydroVerif.C20

section field
variable {α : Type} [Field α] [LinearOrder α] [IsStrictOrderedRing α]

/-! ### pareto front on extended values -/

/-- the difference `a - b` of two doubles is a number (not NaN): neither is NaN and they are not the same infinity -/
def XComparable : XVal α → XVal α → Prop
  | .nan, _ => False
  | _, .nan => False
  | .pinf, .pinf => False
  | .ninf, .ninf => False
  | _, _ => True

/-- the order of the extended line: `-inf < finite < +inf` -/
def XLt : XVal α → XVal α → Prop
  | .ninf, .fin _ => True
  | .ninf, .pinf => True
  | .fin _, .pinf => True
  | .fin a, .fin b => a < b
  | _, _ => False

/-- row `rj` beats row `ri` for orientation `o` in every coordinate whose difference is a number -/
def XStrictlyBetter (o : α) (rj ri : List (XVal α)) : Prop :=
  ∀ (k : Nat) (a b : XVal α), rj[k]? = some a → ri[k]? = some b → XComparable a b →
    (0 < o ∧ XLt b a) ∨ (o < 0 ∧ XLt a b)

def XDominated (o : α) (d : List (List (XVal α))) (i : Nat) : Prop :=
  ∃ j ri rj, j ≠ i ∧ d[i]? = some ri ∧ d[j]? = some rj ∧ XStrictlyBetter o rj ri

theorem mul_sub_pos_iff (o a b : α) : 0 < o * (a - b) ↔ (0 < o ∧ b < a) ∨ (o < 0 ∧ a < b) := by
  rw [mul_pos_iff]
  constructor
  · rintro (⟨h1, h2⟩ | ⟨h1, h2⟩)
    · exact Or.inl ⟨h1, sub_pos.mp h2⟩
    · exact Or.inr ⟨h1, sub_neg.mp h2⟩
  · rintro (⟨h1, h2⟩ | ⟨h1, h2⟩)
    · exact Or.inl ⟨h1, sub_pos.mpr h2⟩
    · exact Or.inr ⟨h1, sub_neg.mpr h2⟩

/-- one coordinate: skipped exactly when the difference is NaN, otherwise the strict comparison of the extended line -/
theorem xdiffPos_spec (o : α) (a b : XVal α) :
    (xdiffPos id o a b = none ↔ ¬ XComparable a b) ∧
    (∀ p, xdiffPos id o a b = some p → (p = true ↔ (0 < o ∧ XLt b a) ∨ (o < 0 ∧ XLt a b))) := by
  cases a <;> cases b <;>
    simp [xdiffPos, XComparable, XLt, mul_sub_pos_iff]

/-- a rounding that keeps the sign of what it rounds changes no comparison -/
theorem xdiffPos_rnd (rnd : α → α) (hp : ∀ x, 0 < rnd x ↔ 0 < x) (hn : ∀ x, rnd x < 0 ↔ x < 0) (o : α)
    (a b : XVal α) : xdiffPos rnd o a b = xdiffPos id o a b := by
  cases a <;> cases b <;> simp only [xdiffPos, id_eq]
  rename_i a b
  have h1 : (0 < rnd (o * rnd (a - b))) ↔ 0 < o * (a - b) := by
    rw [hp, mul_pos_iff, mul_pos_iff, hp, hn]
  simp [h1]

theorem domByX_rnd (rnd : α → α) (hp : ∀ x, 0 < rnd x ↔ 0 < x) (hn : ∀ x, rnd x < 0 ↔ x < 0) (o : α)
    (rj ri : List (XVal α)) : domByX rnd o rj ri = domByX id o rj ri := by
  unfold domByX
  congr 2
  funext a b
  rw [xdiffPos_rnd rnd hp hn]

theorem isDominatedAtX_rnd (rnd : α → α) (hp : ∀ x, 0 < rnd x ↔ 0 < x) (hn : ∀ x, rnd x < 0 ↔ x < 0) (o : α)
    (d : List (List (XVal α))) (i : Nat) : isDominatedAtX rnd o d i = isDominatedAtX id o d i := by
  unfold isDominatedAtX
  cases d[i]? with
  | none => rfl
  | some ri =>
    simp only
    congr 1
    funext j
    cases d[j]? with
    | none => rfl
    | some rj => simp only [domByX_rnd rnd hp hn]

/-- on NaN / finite values the extended kernel is the kernel of `Model/C20.lean` -/
theorem domByX_of_opt (o : α) (rj ri : List (Option α)) :
    domByX id o (rj.map xOfOpt) (ri.map xOfOpt) = domBy o rj ri := by
  induction rj generalizing ri with
  | nil => simp [domByX, domBy]
  | cons x xs ih =>
    cases ri with
    | nil => simp [domByX, domBy]
    | cons y ys =>
      have ih' := ih ys
      unfold domByX domBy at ih' ⊢
      simp only [List.map_cons, List.zipWith_cons_cons, List.all_cons, ih']
      congr 1
      cases x <;> cases y <;> simp [xOfOpt, xdiffPos, coordOK]

theorem isDominatedAtX_of_opt (o : α) (d : List (List (Option α))) (i : Nat) :
    isDominatedAtX id o (d.map fun r => r.map xOfOpt) i = isDominatedAt o d i := by
  unfold isDominatedAtX isDominatedAt
  simp only [List.getElem?_map, List.length_map]
  cases d[i]? with
  | none => rfl
  | some ri =>
    simp only [Option.map_some]
    congr 1
    funext j
    cases d[j]? with
    | none => rfl
    | some rj => simp only [Option.map_some, domByX_of_opt]

theorem domByX_iff (o : α) (rj ri : List (XVal α)) : domByX id o rj ri = true ↔ XStrictlyBetter o rj ri := by
  induction rj generalizing ri with
  | nil => simp [domByX, XStrictlyBetter]
  | cons x xs ih =>
    cases ri with
    | nil => simp [domByX, XStrictlyBetter]
    | cons y ys =>
      have ih' := ih ys
      unfold domByX at ih' ⊢
      simp only [List.zipWith_cons_cons, List.all_cons, Bool.and_eq_true, ih']
      obtain ⟨hnone, hsome⟩ := xdiffPos_spec o x y
      have head : coordOK (xdiffPos id o x y) = true ↔
          (XComparable x y → (0 < o ∧ XLt y x) ∨ (o < 0 ∧ XLt x y)) := by
        cases hx : xdiffPos id o x y with
        | none =>
          have := hnone.mp hx
          simp [this, coordOK]
        | some p =>
          have hc : XComparable x y := by
            by_contra hc
            rw [hnone.mpr hc] at hx
            cases hx
          simp only [coordOK, hsome p hx]
          exact ⟨fun h _ => h, fun h => h hc⟩
      unfold XStrictlyBetter
      constructor
      · rintro ⟨h0, hrest⟩ k a b ha hb
        cases k with
        | zero =>
          simp only [List.getElem?_cons_zero, Option.some.injEq] at ha hb
          subst ha hb
          exact head.mp (by simpa using h0)
        | succ k => exact hrest k a b (by simpa using ha) (by simpa using hb)
      · intro h
        refine ⟨?_, fun k a b ha hb => h (k + 1) a b (by simpa using ha) (by simpa using hb)⟩
        have := head.mpr (h 0 x y rfl rfl)
        simpa using this

theorem isDominatedAtX_iff (o : α) (d : List (List (XVal α))) (i : Nat) :
    isDominatedAtX id o d i = true ↔ XDominated o d i := by
  unfold isDominatedAtX XDominated
  cases hi : d[i]? with
  | none => simp
  | some ri =>
    simp only [List.any_eq_true, List.mem_range, Bool.and_eq_true, bne_iff_ne, ne_eq]
    constructor
    · rintro ⟨j, hj, hne, hd⟩
      cases hdj : d[j]? with
      | none => simp [hdj] at hd
      | some rj =>
        simp only [hdj] at hd
        exact ⟨j, ri, rj, hne, rfl, hdj, (domByX_iff o rj ri).mp hd⟩
    · rintro ⟨j, ri', rj, hne, hri, hrj, hb⟩
      injection hri with hri
      subst hri
      have hj : j < d.length := by
        by_contra hcon
        rw [List.getElem?_eq_none (by omega)] at hrj
        cases hrj
      refine ⟨j, hj, hne, ?_⟩
      simp only [hrj]
      exact (domByX_iff o rj ri).mpr hb

/-- only the sign of the orientation matters -/
theorem domBy_pos (o : α) (ho : 0 < o) (rj ri : List (Option α)) : domBy o rj ri = domBy 1 rj ri := by
  unfold domBy
  congr 2
  funext a b
  cases a <;> cases b <;> simp only [decide_eq_decide]
  rename_i a b
  rw [one_mul, mul_pos_iff_of_pos_left ho]

theorem domBy_neg_orientation (o : α) (ho : o < 0) (rj ri : List (Option α)) : domBy o rj ri = domBy (-1) rj ri := by
  unfold domBy
  congr 2
  funext a b
  cases a <;> cases b <;> simp only [decide_eq_decide]
  rename_i a b
  rw [mul_pos_iff, mul_pos_iff]
  constructor
  · rintro (⟨h1, _⟩ | ⟨_, h2⟩)
    · exact absurd h1 (not_lt.mpr ho.le)
    · exact Or.inr ⟨by norm_num, h2⟩
  · rintro (⟨h1, _⟩ | ⟨_, h2⟩)
    · exact absurd h1 (by norm_num)
    · exact Or.inr ⟨ho, h2⟩

theorem paretoFront_congr_domBy (o o' : α) (d : List (List (Option α)))
    (h : ∀ rj ri, domBy o rj ri = domBy o' rj ri) : paretoFront o d = paretoFront o' d := by
  unfold paretoFront isDominatedAt
  simp only [h]

/-! ### rank methods "dense" and "first" -/

theorem eqv_iff (x y : α) : eqv x y = true ↔ x = y := by
  unfold eqv
  simp only [Bool.and_eq_true, Bool.not_eq_true', decide_eq_false_iff_not, not_lt]
  exact ⟨fun h => le_antisymm h.1 h.2, fun h => ⟨h.le, h.ge⟩⟩

theorem mem_distinctL {xs : List α} {x : α} : x ∈ distinctL xs ↔ x ∈ xs := by
  induction xs with
  | nil => simp [distinctL]
  | cons a t ih =>
    unfold distinctL
    by_cases h : t.any (eqv a) = true
    · rw [if_pos h, ih]
      obtain ⟨b, hb, hab⟩ := List.any_eq_true.mp h
      have : a = b := (eqv_iff a b).mp hab
      subst this
      constructor
      · exact fun hx => List.mem_cons_of_mem _ hx
      · intro hx
        rcases List.mem_cons.mp hx with rfl | hx
        · exact hb
        · exact hx
    · rw [if_neg h]
      simp only [List.mem_cons, ih]

theorem distinctL_length_le (xs : List α) : (distinctL xs).length ≤ xs.length := by
  induction xs with
  | nil => simp [distinctL]
  | cons a t ih =>
    unfold distinctL
    split
    · simp only [List.length_cons]; omega
    · simp only [List.length_cons]; omega

theorem rankDense_lt_of_lt (xs : List α) {x y : α} (hx : x ∈ xs) (h : x < y) : rankDense xs x < rankDense xs y := by
  have h1 := cntLt_add_cntEq_le (distinctL xs) h
  have h2 := cntEq_pos (distinctL xs) (mem_distinctL.mpr hx)
  unfold rankDense
  have : cntLt (distinctL xs) x + 1 < cntLt (distinctL xs) y + 1 := by omega
  exact_mod_cast this

theorem rankDense_bounds (xs : List α) {x : α} (hx : x ∈ xs) : 1 ≤ rankDense xs x ∧ rankDense xs x ≤ (xs.length : α) := by
  have h1 := cntLt_add_cntEq_le_length (distinctL xs) x
  have h2 := cntEq_pos (distinctL xs) (mem_distinctL.mpr hx)
  have h3 := distinctL_length_le xs
  unfold rankDense
  constructor
  · have : 1 ≤ cntLt (distinctL xs) x + 1 := by omega
    exact_mod_cast this
  · have : cntLt (distinctL xs) x + 1 ≤ xs.length := by omega
    exact_mod_cast this

theorem countP_take_lt {β : Type} (p : β → Bool) (xs : List β) (i j : Nat) (hij : i < j) (hj : j ≤ xs.length)
    (hp : p (xs[i]'(by omega)) = true) : (xs.take i).countP p + 1 ≤ (xs.take j).countP p := by
  induction xs generalizing i j with
  | nil => simp at hj; omega
  | cons a t ih =>
    cases j with
    | zero => omega
    | succ j =>
      cases i with
      | zero =>
        simp only [List.getElem_cons_zero] at hp
        simp [List.take_succ_cons, hp]
      | succ i =>
        simp only [List.getElem_cons_succ] at hp
        simp only [List.take_succ_cons, List.countP_cons]
        have := ih i j (by omega) (by simpa using hj) hp
        omega

/-- the 1-based rank "first" of entry `i` -/
theorem ranksFirst_getElem (xs : List α) (i : Nat) (hi : i < xs.length) :
    (ranksFirst xs)[i]? = some ((cntLt xs xs[i] + cntEq (xs.take i) xs[i] + 1 : Nat) : α) := by
  unfold ranksFirst
  rw [List.getElem?_map, List.getElem?_range hi]
  simp [List.getElem?_eq_getElem hi]

theorem cntEq_take_lt (xs : List α) (i : Nat) (hi : i < xs.length) : cntEq (xs.take i) xs[i] + 1 ≤ cntEq xs xs[i] := by
  have := countP_take_lt (fun y => !decide (y < xs[i]) && !decide (xs[i] < y)) xs i xs.length hi (le_refl _) (by simp)
  simpa [cntEq] using this

theorem firstRank_lt_of_lt (xs : List α) (i j : Nat) (hi : i < xs.length) (hj : j < xs.length) (h : xs[i] < xs[j]) :
    cntLt xs xs[i] + cntEq (xs.take i) xs[i] + 1 < cntLt xs xs[j] + cntEq (xs.take j) xs[j] + 1 := by
  have h1 := cntLt_add_cntEq_le xs h
  have h2 := cntEq_take_lt xs i hi
  omega

theorem firstRank_lt_of_tie (xs : List α) (i j : Nat) (hij : i < j) (hj : j < xs.length) (h : xs[i]'(by omega) = xs[j]) :
    cntLt xs (xs[i]'(by omega)) + cntEq (xs.take i) (xs[i]'(by omega)) + 1 < cntLt xs xs[j] + cntEq (xs.take j) xs[j] + 1 := by
  have := countP_take_lt (fun y => !decide (y < xs[j]) && !decide (xs[j] < y)) xs i j hij hj.le (by simp [h])
  rw [h]
  unfold cntEq
  omega

theorem firstRank_le_length (xs : List α) (i : Nat) (hi : i < xs.length) :
    cntLt xs xs[i] + cntEq (xs.take i) xs[i] + 1 ≤ xs.length := by
  have h1 := cntLt_add_cntEq_le_length xs xs[i]
  have h2 := cntEq_take_lt xs i hi
  omega

/-! ### lhs on unit ranges -/

theorem LhsInputsOK_replicate (n m : Nat) (a b : α) (hab : a < b) (perms : List (List Nat)) (rs : List (List α))
    (hp : perms.length = m) (hr : rs.length = m) (hperm : ∀ p ∈ perms, p.Perm (List.range n))
    (hdraw : ∀ r ∈ rs, r.length = n ∧ ∀ x ∈ r, 0 ≤ x ∧ x < 1) :
    LhsInputsOK n (List.replicate m a) (List.replicate m b) perms rs := by
  induction m generalizing perms rs with
  | zero =>
    have : perms = [] := List.eq_nil_of_length_eq_zero hp
    have : rs = [] := List.eq_nil_of_length_eq_zero hr
    subst_vars
    simp [LhsInputsOK]
  | succ m ih =>
    cases perms with
    | nil => simp at hp
    | cons p tp =>
      cases rs with
      | nil => simp at hr
      | cons r tr =>
        simp only [List.replicate_succ, LhsInputsOK]
        refine ⟨hab, hperm p (by simp), (hdraw r (by simp)).1, (hdraw r (by simp)).2, ?_⟩
        exact ih tp tr (by simpa using hp) (by simpa using hr) (fun q hq => hperm q (by simp [hq]))
          (fun q hq => hdraw q (by simp [hq]))

theorem OnePerStratum_replicate (n m : Nat) (a b : α) (cols : List (List α))
    (h : OnePerStratum n (List.replicate m a) (List.replicate m b) cols) :
    cols.length = m ∧ ∀ c ∈ cols, c.length = n ∧
      ∀ k, k < n → c.countP (fun x => decide (a + (k : α) * ((b - a) / (n : α)) ≤ x ∧
                                              x < a + ((k : α) + 1) * ((b - a) / (n : α)))) = 1 := by
  induction m generalizing cols with
  | zero =>
    cases cols with
    | nil => simp
    | cons c cs => simp [OnePerStratum] at h
  | succ m ih =>
    cases cols with
    | nil => simp [List.replicate_succ, OnePerStratum] at h
    | cons c cs =>
      simp only [List.replicate_succ, OnePerStratum] at h
      obtain ⟨hl, hc, hrest⟩ := h
      obtain ⟨ihl, ihc⟩ := ih cs hrest
      refine ⟨by simp [ihl], ?_⟩
      intro c' hc'
      rcases List.mem_cons.mp hc' with rfl | hc'
      · exact ⟨hl, hc⟩
      · exact ihc c' hc'

end field

section floor
variable {α : Type} [Field α] [LinearOrder α] [IsStrictOrderedRing α] [FloorRing α]

/-! ### Boxplot(df).stats -/

theorem statsOfColumns_spec (b w : α) (cols : List (List (Option α))) (out : List (Nat × Option (BoxVals α)))
    (h : statsOfColumns b w cols = .ok out) :
    out.length = cols.length ∧ ∀ (i : Nat) c, cols[i]? = some c → ∃ st, out[i]? = some st ∧ boxStats c b w = .ok st := by
  induction cols generalizing out with
  | nil =>
    simp only [statsOfColumns, Except.ok.injEq] at h
    subst h
    simp
  | cons c cs ih =>
    simp only [statsOfColumns] at h
    cases hb : boxStats c b w with
    | error e => simp [hb] at h
    | ok st =>
      cases ht : statsOfColumns b w cs with
      | error e => simp [hb, ht] at h
      | ok rest =>
        simp only [hb, ht, Except.ok.injEq] at h
        subst h
        obtain ⟨ihl, ihc⟩ := ih rest ht
        refine ⟨by simp [ihl], ?_⟩
        intro i c' hc'
        cases i with
        | zero =>
          simp only [List.getElem?_cons_zero, Option.some.injEq] at hc'
          subst hc'
          exact ⟨st, by simp, hb⟩
        | succ i =>
          obtain ⟨st', h1, h2⟩ := ihc i c' (by simpa using hc')
          exact ⟨st', by simpa using h1, h2⟩

theorem statsOfColumns_total (b w : α) (cols : List (List (Option α)))
    (h : ∀ c ∈ cols, ∃ st, boxStats c b w = .ok st) : ∃ out, statsOfColumns b w cols = .ok out := by
  induction cols with
  | nil => exact ⟨[], rfl⟩
  | cons c cs ih =>
    obtain ⟨st, hst⟩ := h c (by simp)
    obtain ⟨rest, hrest⟩ := ih (fun c' hc' => h c' (by simp [hc']))
    exact ⟨st :: rest, by simp only [statsOfColumns, hst, hrest]⟩

end floor

/-! ### the 53-bit rounding on exact rationals keeps signs -/

theorem pow2_pos (e : Int) : 0 < pow2 e := by
  unfold pow2
  split
  · exact_mod_cast Nat.pos_of_ne_zero (by positivity)
  · apply div_pos one_pos
    exact_mod_cast Nat.pos_of_ne_zero (by positivity)

theorem pow2_eq_zpow (e : Int) : pow2 e = (2 : Rat) ^ e := by
  cases e with
  | ofNat n =>
    simp only [pow2, Int.toNat_natCast, Int.ofNat_eq_natCast, zpow_natCast]
    push_cast
    rfl
  | negSucc n =>
    have h : ¬ Int.negSucc n ≥ 0 := by simp
    simp only [pow2, h, if_false, Int.neg_negSucc, zpow_negSucc]
    have : ((n : Int) + 1).toNat = n + 1 := by omega
    rw [show ((n + 1 : Nat) : Int) = (n : Int) + 1 by push_cast; rfl, this]
    push_cast
    rw [one_div]

theorem pow2_pred (e : Int) : pow2 (e - 1) = pow2 e / 2 := by
  rw [pow2_eq_zpow, pow2_eq_zpow, zpow_sub_one₀ (by norm_num : (2 : Rat) ≠ 0)]
  rfl

theorem pow2_succ (e : Int) : pow2 (e + 1) = pow2 e * 2 := by
  rw [pow2_eq_zpow, pow2_eq_zpow, zpow_add_one₀ (by norm_num : (2 : Rat) ≠ 0)]

theorem floor_le_rne (s : Rat) : s.floor ≤ rne s := by
  unfold rne
  simp only
  split
  · exact le_refl _
  · split
    · omega
    · split <;> omega

/-- `a > 2^(l-1)` where `l` is the difference of the bit lengths of numerator and denominator -/
theorem scaled_estimate (a : Rat) (ha : 0 < a) :
    (1 : Rat) ≤ a / pow2 ((Nat.log2 a.num.natAbs : Int) - (Nat.log2 a.den : Int) - 52 - 1) := by
  have hnum : 0 < a.num := Rat.num_pos.mpr ha
  have hden : 0 < a.den := a.den_pos
  set p := Nat.log2 a.num.natAbs with hp
  set q := Nat.log2 a.den with hq
  have h1 : 2 ^ p ≤ a.num.natAbs := Nat.log2_self_le (by omega)
  have h2 : a.den < 2 ^ (q + 1) := Nat.lt_log2_self
  have hnumc : ((2 : Rat) ^ p) ≤ (a.num : Rat) := by
    have : ((2 ^ p : Nat) : Int) ≤ a.num := by
      have : (a.num.natAbs : Int) = a.num := Int.natAbs_of_nonneg hnum.le
      rw [← this]; exact_mod_cast h1
    exact_mod_cast this
  have hdenc : (a.den : Rat) < (2 : Rat) ^ (q + 1) := by exact_mod_cast h2
  have ha' : a = (a.num : Rat) / (a.den : Rat) := (Rat.num_div_den a).symm
  have hdpos : (0 : Rat) < (a.den : Rat) := by exact_mod_cast hden
  -- a > 2^p / 2^(q+1)
  have hlow : (2 : Rat) ^ p / (2 : Rat) ^ (q + 1) ≤ a := by
    rw [ha']
    apply div_le_div₀ (by positivity) hnumc hdpos hdenc.le
  rw [pow2_eq_zpow, le_div_iff₀ (zpow_pos (by norm_num) _)]
  have hz : (2 : Rat) ^ ((p : Int) - (q : Int) - 52 - 1) = (2 : Rat) ^ p / (2 : Rat) ^ (q + 1) / 2 ^ 52 := by
    rw [show ((p : Int) - (q : Int) - 52 - 1) = (p : Int) - ((q + 1 : Nat) : Int) - (52 : Nat) by push_cast; ring]
    rw [zpow_sub₀ (by norm_num), zpow_sub₀ (by norm_num)]
    simp only [zpow_natCast]
  rw [hz]
  have h52 : (0 : Rat) < 2 ^ 52 := by positivity
  have hq0 : (0 : Rat) ≤ (2 : Rat) ^ p / (2 : Rat) ^ (q + 1) := by positivity
  calc 1 * ((2 : Rat) ^ p / (2 : Rat) ^ (q + 1) / 2 ^ 52)
      ≤ (2 : Rat) ^ p / (2 : Rat) ^ (q + 1) := by
        rw [one_mul]
        exact div_le_self hq0 (by norm_num)
    _ ≤ a := hlow

theorem one_le_scaled (a : Rat) (ha : 0 < a) : 1 ≤ a / pow2 (expo53 a) := by
  unfold expo53
  simp only
  set e0 : Int := (Nat.log2 a.num.natAbs : Int) - (Nat.log2 a.den : Int) - 52 with he0
  have hest := scaled_estimate a ha
  rw [← he0] at hest
  split
  · -- e = e0 - 1
    exact hest
  · split
    · rename_i h1 h2
      rw [pow2_succ, le_div_iff₀ (mul_pos (pow2_pos e0) (by norm_num))]
      have hp := pow2_pos e0
      rw [le_div_iff₀ hp] at h2
      have : ((2 ^ 53 : Nat) : Rat) = 2 ^ 53 := by norm_num
      rw [this] at h2
      nlinarith
    · rename_i h1 h2
      have hp := pow2_pos e0
      push Not at h1
      rw [le_div_iff₀ hp] at h1 ⊢
      have : ((2 ^ 52 : Nat) : Rat) = 2 ^ 52 := by norm_num
      rw [this] at h1
      nlinarith

theorem rndMag_pos (a : Rat) (ha : 0 < a) : 0 < rndMag a := by
  unfold rndMag
  have h1 := one_le_scaled a ha
  have h2 : (1 : Int) ≤ (a / pow2 (expo53 a)).floor := Rat.le_floor_iff.mpr (by simpa using h1)
  have h3 := floor_le_rne (a / pow2 (expo53 a))
  have h4 : (0 : Rat) < (rne (a / pow2 (expo53 a)) : Rat) := by
    have : 0 < rne (a / pow2 (expo53 a)) := by omega
    exact_mod_cast this
  exact mul_pos h4 (pow2_pos _)

/-- the 53-bit rounding the driver executes keeps the sign of what it rounds -/
theorem rnd53_sign (x : Rat) : (0 < rnd53 x ↔ 0 < x) ∧ (rnd53 x < 0 ↔ x < 0) := by
  rcases lt_trichotomy x 0 with h | h | h
  · have hm := rndMag_pos (-x) (by linarith)
    have e : rnd53 x = -(rndMag (-x)) := by simp [rnd53, h.ne, h]
    rw [e]
    constructor
    · constructor <;> intro hc <;> linarith
    · exact ⟨fun _ => h, fun _ => by linarith⟩
  · subst h
    simp [rnd53]
  · have hm := rndMag_pos x h
    have hn : ¬ x < 0 := not_lt.mpr h.le
    have e : rnd53 x = rndMag x := by simp [rnd53, h.ne', hn]
    rw [e]
    constructor
    · exact ⟨fun _ => h, fun _ => hm⟩
    · constructor <;> intro hc <;> linarith

/-! ### the Boxplot object -/

theorem boxStep_state {σ : Type} (s : BoxObj σ) (op : BoxOp) :
    (boxStep s op).1.stats = s.stats ∧ (boxStep s op).1.strNames = s.strNames ∧
      (s.drawn = true → (boxStep s op).1.drawn = true) ∧ (∀ ok st, op = .draw ok st → (boxStep s op).1.drawn = true) := by
  cases op <;> simp [boxStep]

end HydroVerif.C20
