/-
C11 — the commutative part: the left-to-right fold of the kernel as a finite sum over the cells draining
through a cell, the local recurrence over the direct upstream cells, and "no cycle ⇒ every walk ends
before the default cap" (pigeonhole).
-/
import HydroVerif.Lemmas.C11
import Mathlib.Algebra.BigOperators.Group.Finset.Basic
import Mathlib.Data.Finset.Card

namespace HydroVerif.C11
open HydroVerif.C07

/-- cells whose downstream chain passes through `c` (`c` itself included): the upstream closure of `c` -/
noncomputable def drainsThrough (g : FlowGrid) (c : Int) : Finset Nat :=
  open Classical in (Finset.range g.ntot.toNat).filter fun u => ∃ k, iterDn g k (u : Int) = c

/-- cells whose downstream cell is `c`: the direct upstream neighbours of `c` -/
def directUp (g : FlowGrid) (c : Int) : Finset Nat :=
  (Finset.range g.ntot.toNat).filter fun u => dn g (u : Int) = c

/-- no cell is on a cycle of the downstream relation -/
def NoCycle (g : FlowGrid) : Prop :=
  ∀ c : Int, validCell g.nrows g.ncols c = true → ∀ m, 1 ≤ m → iterDn g m c ≠ c

theorem mem_drainsThrough {g : FlowGrid} {c : Int} {u : Nat} :
    u ∈ drainsThrough g c ↔ u < g.ntot.toNat ∧ ∃ k, iterDn g k (u : Int) = c := by
  unfold drainsThrough
  simp

theorem mem_directUp {g : FlowGrid} {c : Int} {u : Nat} :
    u ∈ directUp g c ↔ u < g.ntot.toNat ∧ dn g (u : Int) = c := by
  unfold directUp
  simp

section Sum
variable {α : Type} [AddCommMonoid α]

theorem foldl_if_eq_sum (p : Nat → Bool) (F : Nat → α) (a : α) (m : Nat) :
    (List.range m).foldl (fun s (i : Nat) => if p i then s + F i else s) a =
      a + ∑ i ∈ (Finset.range m).filter (fun i => p i = true), F i := by
  induction m with
  | zero => simp
  | succ m ih =>
    rw [List.range_succ, List.foldl_append, ih, Finset.range_add_one, Finset.filter_insert]
    simp only [List.foldl_cons, List.foldl_nil]
    by_cases hp : p m = true
    · rw [if_pos hp, if_pos hp, Finset.sum_insert (by simp), add_assoc, add_comm (F m)]
    · rw [if_neg hp, if_neg hp]

end Sum

/-- when the walk from a cell ends, that cell is on no cycle -/
theorem no_cycle_of_ends {g : FlowGrid} {f : Nat} {x : Int} (hx : 0 ≤ x)
    (h : (endsAt g f x).isSome = true) {m : Nat} (hm : 1 ≤ m) : iterDn g m x ≠ x := by
  intro hcyc
  have := onPath_self_false (f' := m) hx h
  rw [← Bool.not_eq_true, onPath_iff hx] at this
  exact this ⟨m, hm, Nat.le_refl _, hcyc⟩

theorem noCycle_of_allTerminate {g : FlowGrid} {f : Nat} (hT : AllTerminate g f) : NoCycle g :=
  fun c hv _ hm => no_cycle_of_ends (validCell_iff.1 hv).1 (hT c hv) hm

theorem drainsThrough_eq_insert {g : FlowGrid} {fuel : Nat} (hT : AllTerminate g fuel) {j : Nat}
    (hj : j < g.ntot.toNat) :
    drainsThrough g (j : Int) =
      insert j ((Finset.range g.ntot.toNat).filter fun (i : Nat) => onPath g fuel (i : Int) (j : Int) = true) ∧
    j ∉ (Finset.range g.ntot.toNat).filter fun (i : Nat) => onPath g fuel (i : Int) (j : Int) = true := by
  have hj0 : (0 : Int) ≤ (j : Int) := by omega
  constructor
  · ext u
    rw [mem_drainsThrough, Finset.mem_insert, Finset.mem_filter, Finset.mem_range]
    constructor
    · rintro ⟨hu, k, hk⟩
      cases k with
      | zero => left; simp only [iterDn] at hk; omega
      | succ k =>
        right
        refine ⟨hu, ?_⟩
        rw [onPath_iff_exists (by omega) hj0 (hT _ (valid_of_lt hu))]
        exact ⟨k + 1, by omega, hk⟩
    · rintro (h | ⟨hu, h⟩)
      · subst h; exact ⟨hj, 0, rfl⟩
      · rw [onPath_iff_exists (by omega) hj0 (hT _ (valid_of_lt hu))] at h
        obtain ⟨m, -, hm⟩ := h
        exact ⟨hu, m, hm⟩
  · rw [Finset.mem_filter, not_and, Bool.not_eq_true]
    intro _
    exact onPath_self_false hj0 (hT _ (valid_of_lt hj))

/-- the recurrence at the level of sets: the cells draining through `c` are `c` and, disjointly, the
cells draining through each direct upstream cell of `c` -/
theorem drainsThrough_eq_biUnion {g : FlowGrid} {fuel : Nat} (hT : AllTerminate g fuel) {j : Nat}
    (hj : j < g.ntot.toNat) :
    drainsThrough g (j : Int) = insert j ((directUp g (j : Int)).biUnion fun u => drainsThrough g (u : Int)) ∧
    j ∉ (directUp g (j : Int)).biUnion (fun u => drainsThrough g (u : Int)) ∧
    ((directUp g (j : Int) : Finset Nat) : Set Nat).PairwiseDisjoint (fun u => drainsThrough g (u : Int)) := by
  have hj0 : (0 : Int) ≤ (j : Int) := by omega
  have hnc := noCycle_of_allTerminate hT
  refine ⟨?_, ?_, ?_⟩
  · ext x
    simp only [Finset.mem_insert, Finset.mem_biUnion, mem_drainsThrough, mem_directUp]
    constructor
    · rintro ⟨hx, k, hk⟩
      cases k with
      | zero => left; simp only [iterDn] at hk; omega
      | succ k =>
        right
        rw [iterDn_succ'] at hk
        have hu0 : 0 ≤ iterDn g k (x : Int) := by
          by_contra hneg
          have := dn_neg_of_neg (g := g) (c := iterDn g k (x : Int)) (by omega)
          omega
        have huv : validCell g.nrows g.ncols (iterDn g k (x : Int)) = true :=
          valid_of_dn_nonneg (by omega)
        obtain ⟨h1, h2⟩ := lt_of_valid huv
        refine ⟨(iterDn g k (x : Int)).toNat, ⟨h1, by rw [h2]; exact hk⟩, hx, k, by rw [h2]⟩
    · rintro (h | ⟨u, ⟨hu, hdu⟩, hx, k, hk⟩)
      · subst h; exact ⟨hj, 0, rfl⟩
      · exact ⟨hx, k + 1, by rw [iterDn_succ', hk, hdu]⟩
  · simp only [Finset.mem_biUnion, mem_drainsThrough, mem_directUp, not_exists, not_and]
    rintro u ⟨hu, hdu⟩ - k hk
    apply hnc (j : Int) (valid_of_lt hj) (k + 1) (by omega)
    rw [iterDn_succ', hk, hdu]
  · intro u1 hu1 u2 hu2 hne
    rw [Finset.mem_coe, mem_directUp] at hu1 hu2
    rw [Function.onFun, Finset.disjoint_left]
    intro x hx1 hx2
    rw [mem_drainsThrough] at hx1 hx2
    obtain ⟨-, a, ha⟩ := hx1
    obtain ⟨-, b, hb⟩ := hx2
    -- the later of the two is reached from the earlier one, which closes a cycle through `j`
    have key : ∀ (a b : Nat) (u1 u2 : Nat), a < b → iterDn g a (x : Int) = (u1 : Int) →
        iterDn g b (x : Int) = (u2 : Int) → dn g (u1 : Int) = (j : Int) → dn g (u2 : Int) = (j : Int) → False := by
      intro a b u1 u2 hab ha hb h1 h2
      obtain ⟨d, rfl⟩ := Nat.exists_eq_add_of_lt hab
      apply hnc (j : Int) (valid_of_lt hj) (d + 1) (by omega)
      have : iterDn g (d + 1) (iterDn g a (x : Int)) = (u2 : Int) := by
        rw [← iterDn_add, ← hb]; congr 1; omega
      rw [ha, iterDn, h1] at this
      rw [iterDn_succ', this, h2]
    rcases Nat.lt_trichotomy a b with h | h | h
    · exact key a b u1 u2 h ha hb hu1.2 hu2.2
    · subst h
      apply hne
      have : (u1 : Int) = (u2 : Int) := by rw [← ha, ← hb]
      omega
    · exact key b a u2 u1 h hb ha hu2.2 hu1.2

/-- pigeonhole: on a grid without cycles every walk ends within `ntot` iterations -/
theorem endsAt_none_chain {g : FlowGrid} {f : Nat} {x : Int} (h : endsAt g f x = none) :
    ∀ k, k < f → 0 ≤ dn g (iterDn g k x) := by
  induction f generalizing x with
  | zero => intro k hk; omega
  | succ f ih =>
    unfold endsAt at h
    split at h
    · cases h
    · rename_i hd
      intro k hk
      cases k with
      | zero => simp only [iterDn]; omega
      | succ k => rw [iterDn]; exact ih h k (by omega)

theorem allTerminate_of_noCycle {g : FlowGrid} (hg : WF g) (hnc : NoCycle g) {fuel : Nat}
    (hfuel : g.ntot.toNat ≤ fuel) : AllTerminate g fuel := by
  intro c hv
  by_contra hnone
  rw [Bool.not_eq_true, Option.isSome_eq_false_iff, Option.isNone_iff_eq_none] at hnone
  have hchain := endsAt_none_chain hnone
  -- every iterate up to `fuel` is a cell of the grid
  have hvalid : ∀ k, k ≤ fuel → validCell g.nrows g.ncols (iterDn g k c) = true := by
    intro k hk
    cases k with
    | zero => exact hv
    | succ k =>
      rw [iterDn_succ']
      exact dn_nonneg_valid hg (valid_of_dn_nonneg (hchain k (by omega))) (hchain k (by omega))
  have hmaps : Set.MapsTo (fun k => (iterDn g k c).toNat) (Finset.range (fuel + 1) : Finset Nat)
      (Finset.range g.ntot.toNat : Finset Nat) := by
    intro k hk
    rw [Finset.mem_coe, Finset.mem_range] at hk
    rw [Finset.mem_coe, Finset.mem_range]
    exact (lt_of_valid (hvalid k (by omega))).1
  obtain ⟨a, ha, b, hb, hne, hab⟩ :=
    Finset.exists_ne_map_eq_of_card_lt_of_maps_to (by simp; omega) hmaps
  rw [Finset.mem_range] at ha hb
  have hab' : iterDn g a c = iterDn g b c := by
    have h1 := (lt_of_valid (hvalid a (by omega))).2
    have h2 := (lt_of_valid (hvalid b (by omega))).2
    rw [← h1, ← h2, hab]
  have key : ∀ a b : Nat, a < b → b ≤ fuel → iterDn g a c = iterDn g b c → False := by
    intro a b hlt hb h
    obtain ⟨d, rfl⟩ := Nat.exists_eq_add_of_lt hlt
    apply hnc (iterDn g a c) (hvalid a (by omega)) (d + 1) (by omega)
    rw [← iterDn_add, h]; congr 1; omega
  rcases Nat.lt_trichotomy a b with h | h | h
  · exact key a b h (by omega) hab'
  · exact hne h
  · exact key b a h (by omega) hab'.symm

end HydroVerif.C11
