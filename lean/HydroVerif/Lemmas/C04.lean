/- helper lemmas for C04 (sums, means, deviations over an ordered field) -/
import HydroVerif.Model.C04
import Mathlib.Algebra.Order.Field.Basic
import Mathlib.Tactic.Ring
import Mathlib.Tactic.Linarith
import Mathlib.Tactic.FieldSimp
import Mathlib.Tactic.Positivity

namespace HydroVerif.C04
variable {α : Type} [Field α] [LinearOrder α] [IsStrictOrderedRing α]

@[simp] theorem sumL_nil : sumL ([] : List α) = 0 := rfl
@[simp] theorem sumL_cons (x : α) (xs : List α) : sumL (x :: xs) = x + sumL xs := rfl

theorem sumL_map_affine (a b : α) (l : List α) :
    sumL (l.map fun x => a * x + b) = a * sumL l + (l.length : α) * b := by
  induction l with
  | nil => simp
  | cons x xs ih => simp [ih]; ring

theorem sumL_map_mul (a : α) (l : List α) : sumL (l.map fun x => a * x) = a * sumL l := by
  induction l with
  | nil => simp
  | cons x xs ih => simp [ih]; ring

theorem sumL_replicate (n : Nat) (c : α) : sumL (List.replicate n c) = (n : α) * c := by
  induction n with
  | zero => simp
  | succ n ih => simp [List.replicate_succ, ih]; ring

theorem sumL_nonneg (l : List α) (h : ∀ x ∈ l, 0 ≤ x) : 0 ≤ sumL l := by
  induction l with
  | nil => simp
  | cons x xs ih =>
    simp only [sumL_cons]
    have h1 := h x (by simp)
    have h2 := ih (fun y hy => h y (by simp [hy]))
    linarith

theorem ssd_nonneg (c : α) (l : List α) : 0 ≤ ssd c l := by
  unfold ssd
  apply sumL_nonneg
  intro x hx
  simp only [List.mem_map] at hx
  obtain ⟨y, _, rfl⟩ := hx
  exact mul_self_nonneg _

theorem sse_nonneg (o s : List α) : 0 ≤ sse o s := by
  induction o generalizing s with
  | nil => simp [sse]
  | cons x xs ih =>
    cases s with
    | nil => simp [sse]
    | cons y ys =>
      simp only [sse]
      have := ih ys
      have := mul_self_nonneg (y - x)
      linarith

theorem sse_self (o : List α) : sse o o = 0 := by
  induction o with
  | nil => rfl
  | cons x xs ih => simp [sse, ih]

theorem mean_affine (a b : α) (l : List α) (hl : l ≠ []) :
    mean (l.map fun x => a * x + b) = a * mean l + b := by
  unfold mean
  rw [sumL_map_affine, List.length_map]
  have : (l.length : α) ≠ 0 := by
    have : l.length ≠ 0 := by simpa using hl
    exact_mod_cast this
  field_simp

theorem mean_mul (a : α) (l : List α) : mean (l.map fun x => a * x) = a * mean l := by
  unfold mean
  rw [sumL_map_mul, List.length_map]
  ring

theorem ssd_affine (a b c : α) (l : List α) :
    ssd (a * c + b) (l.map fun x => a * x + b) = a * a * ssd c l := by
  unfold ssd
  induction l with
  | nil => simp
  | cons x xs ih => simp only [List.map_cons, sumL_cons, ih]; ring

theorem ssd_mul (a c : α) (l : List α) :
    ssd (a * c) (l.map fun x => a * x) = a * a * ssd c l := by
  have := ssd_affine a 0 c l
  simpa using this

theorem sse_affine (a b : α) (o s : List α) :
    sse (o.map fun x => a * x + b) (s.map fun x => a * x + b) = a * a * sse o s := by
  induction o generalizing s with
  | nil => simp [sse]
  | cons x xs ih =>
    cases s with
    | nil => simp [sse]
    | cons y ys => simp only [List.map_cons, sse, ih]; ring

theorem sse_const_eq_ssd (c : α) (o : List α) : sse o (List.replicate o.length c) = ssd c o := by
  induction o with
  | nil => rfl
  | cons x xs ih => simp only [List.length_cons, List.replicate_succ, sse, ih, ssd, List.map_cons, sumL_cons]

theorem scd_self (m : α) (o : List α) : scd m m o o = ssd m o := by
  induction o with
  | nil => rfl
  | cons x xs ih => simp only [scd, ih, ssd, List.map_cons, sumL_cons]; ring

theorem scd_mul (a mx my : α) (x y : List α) :
    scd (a * mx) (a * my) (x.map fun v => a * v) (y.map fun v => a * v) = a * a * scd mx my x y := by
  induction x generalizing y with
  | nil => simp [scd]
  | cons u us ih =>
    cases y with
    | nil => simp [scd]
    | cons v vs => simp only [List.map_cons, scd, ih]; ring

theorem absG_eq_abs (x : α) : absG x = |x| := by
  unfold absG
  split
  · rw [abs_of_neg ‹_›]
  · rw [abs_of_nonneg (not_lt.mp ‹_›)]

/-- a positive sum of squared deviations needs at least two values -/
theorem two_le_length_of_ssd_pos (l : List α) (h : 0 < ssd (mean l) l) : 2 ≤ l.length := by
  match l, h with
  | [], h => simp [ssd] at h
  | [x], h => simp [ssd, mean] at h
  | _ :: _ :: _, _ => simp

end HydroVerif.C04
