/-
`Grid.clip` in ANY arithmetic (no field axioms: the statement holds for IEEE doubles with rounding as well as for exact
numbers): whenever clip returns a grid, that grid is a block of the parent array.
-/
import HydroVerif.Lemmas.C13Clip

set_option linter.unusedSectionVars false

namespace HydroVerif.C13
open HydroVerif.C07

section AnyArithmetic
variable {α : Type} [Add α] [Sub α] [Mul α] [Div α] [OfNat α 1] [C07.Trunc α]

theorem clip_ok_block (io : NumIO α) (g : Grid α) (hnc : 0 < g.ncols)
    (hr : (g.data.length : Int) = g.nrows) (hc : ∀ r ∈ g.data, (r.length : Int) = g.ncols)
    (x0 y0 x1 y1 : α) (ng : Grid α) (h : clip io g x0 y0 x1 y1 = .ok ng) :
    ∃ c0 c1 top left, c0 = coord2cell (geom g) x0 y0 ∧ c1 = coord2cell (geom g) x1 y1 ∧
      top = rowOf g.ncols c1 ∧ left = colOf g.ncols c0 ∧
      validCell g.nrows g.ncols c0 = true ∧ validCell g.nrows g.ncols c1 = true ∧
      ng.dtype = g.dtype ∧ ng.nodata = g.nodata ∧ ng.csz = g.csz ∧ ng.lo = none ∧ ng.hi = none ∧
      ng.nrows = rowOf g.ncols c0 - top + 1 ∧ ng.ncols = colOf g.ncols c1 - left + 1 ∧
      0 ≤ ng.nrows ∧ 0 ≤ ng.ncols ∧ 0 ≤ top ∧ top + ng.nrows ≤ g.nrows ∧ 0 ≤ left ∧ left + ng.ncols ≤ g.ncols ∧
      (ng.data.length : Int) = ng.nrows ∧ (∀ r ∈ ng.data, (r.length : Int) = ng.ncols) ∧
      (∀ i j : Nat, (i : Int) < ng.nrows → (j : Int) < ng.ncols →
        ∃ v, (ng.data[i]?.bind (·[j]?)) = some v ∧ (g.data[top.toNat + i]?.bind (·[left.toNat + j]?)) = some v) ∧
      (∀ r ∈ ng.data, ∀ w ∈ r, ∃ r0 ∈ g.data, w ∈ r0) ∧
      (∀ a ∈ parentAttrs, ∀ s, lookup ng.parent a ≠ some (.text s)) := by
  generalize hc0 : coord2cell (geom g) x0 y0 = c0 at h
  generalize hc1 : coord2cell (geom g) x1 y1 = c1 at h
  refine ⟨c0, c1, _, _, rfl, rfl, rfl, rfl, ?_⟩
  unfold clip at h
  simp only [hc0, hc1] at h
  split at h
  · cases h
  · rename_i hv
    have hv' : validCell g.nrows g.ncols c0 = true ∧ validCell g.nrows g.ncols c1 = true := by
      simpa using hv
    obtain ⟨v0, v1⟩ := hv'
    obtain ⟨a0, a1, a2, a3, _⟩ := valid_rowcol hnc v0
    obtain ⟨b0, b1, b2, b3, _⟩ := valid_rowcol hnc v1
    simp only [cell2rowcol, v0, v1, if_true, mkGrid, nodataWord] at h
    by_cases hneg : rowOf g.ncols c0 - rowOf g.ncols c1 + 1 < 0 ∨ colOf g.ncols c1 - colOf g.ncols c0 + 1 < 0
    · simp only [if_pos hneg] at h
      cases h
    · simp only [if_neg hneg, setData] at h
      by_cases hbad : (((slice g.data (rowOf g.ncols c1) (rowOf g.ncols c0 + 1)).map
            fun r => slice r (colOf g.ncols c0) (colOf g.ncols c1 + 1)).length : Int) ≠ rowOf g.ncols c0 - rowOf g.ncols c1 + 1 ∨
          (((slice g.data (rowOf g.ncols c1) (rowOf g.ncols c0 + 1)).map
            fun r => slice r (colOf g.ncols c0) (colOf g.ncols c1 + 1)).any
              fun r => decide ((r.length : Int) ≠ colOf g.ncols c1 - colOf g.ncols c0 + 1)) = true
      · simp only [if_pos hbad] at h
        cases h
      · simp only [if_neg hbad] at h
        have h' := Except.ok.inj h
        subst h'
        have hR : rowOf g.ncols c1 ≤ rowOf g.ncols c0 + 1 := by omega
        have hC : colOf g.ncols c0 ≤ colOf g.ncols c1 + 1 := by omega
        have hlenS : ((slice g.data (rowOf g.ncols c1) (rowOf g.ncols c0 + 1)).length : Int)
            = rowOf g.ncols c0 - rowOf g.ncols c1 + 1 := by
          rw [slice_length _ _ _ b0 (by omega) (by omega)]; omega
        refine ⟨v0, v1, rfl, rfl, rfl, rfl, rfl, rfl, rfl, by dsimp only; omega, by dsimp only; omega, b0,
          by dsimp only; omega, a2, by dsimp only; omega, ?_, ?_, ?_, ?_, ?_⟩
        · show ((clipData g.dtype none none _).length : Int) = _
          rw [clipData_default']
          simpa using hlenS
        · intro r hrm
          rw [show (clipData g.dtype none none
            ((slice g.data (rowOf g.ncols c1) (rowOf g.ncols c0 + 1)).map fun r => slice r (colOf g.ncols c0) (colOf g.ncols c1 + 1))) = _
            from clipData_default' _ _] at hrm
          obtain ⟨r0, hr0, rfl⟩ := List.mem_map.mp hrm
          have hr0' : r0 ∈ g.data := by
            unfold slice at hr0
            exact List.mem_of_mem_drop (List.mem_of_mem_take hr0)
          have := hc r0 hr0'
          rw [slice_length _ _ _ a2 (by omega) (by omega)]
          show _ = colOf g.ncols c1 - colOf g.ncols c0 + 1
          omega
        · intro i j hi hj
          show ∃ v, ((clipData g.dtype none none _)[i]?.bind (·[j]?)) = some v ∧ _
          rw [clipData_default']
          exact clip_block_get g.data g.nrows g.ncols _ _ _ _ i j hr hc b0 a1 a2 b3 hi hj
        · intro r hrm w hw
          rw [show (clipData g.dtype none none
            ((slice g.data (rowOf g.ncols c1) (rowOf g.ncols c0 + 1)).map fun r => slice r (colOf g.ncols c0) (colOf g.ncols c1 + 1))) = _
            from clipData_default' _ _] at hrm
          obtain ⟨r0, hr0, rfl⟩ := List.mem_map.mp hrm
          refine ⟨r0, ?_, ?_⟩
          · unfold slice at hr0
            exact List.mem_of_mem_drop (List.mem_of_mem_take hr0)
          · unfold slice at hw
            exact List.mem_of_mem_drop (List.mem_of_mem_take hw)
        · intro a ha s
          simp only [parentAttrs, List.map_cons, List.map_nil, List.mem_cons, List.not_mem_nil, or_false] at ha
          rcases ha with rfl | rfl | rfl | rfl | rfl | rfl | rfl | rfl <;> simp [lookup]

/-- a valid corner cell IS the cell of the column / row numbers the kernel computed -/
theorem coord2cell_valid_rowcol (gm : Geom α) (x y : α)
    (hv : validCell gm.nrows gm.ncols (coord2cell gm x y) = true) :
    colOf gm.ncols (coord2cell gm x y) = Trunc.floorToInt ((x - gm.xll) / gm.csz) ∧
    rowOf gm.ncols (coord2cell gm x y) = gm.nrows - 1 - Trunc.floorToInt ((y - gm.yll) / gm.csz) := by
  unfold coord2cell at hv ⊢
  simp only at hv ⊢
  generalize Trunc.floorToInt ((x - gm.xll) / gm.csz) = nx at *
  generalize gm.nrows - 1 - Trunc.floorToInt ((y - gm.yll) / gm.csz) = ny at *
  by_cases hin : 0 ≤ nx ∧ nx < gm.ncols ∧ 0 ≤ ny ∧ ny < gm.nrows
  · have hcell : cellOfNxNy gm.nrows gm.ncols nx ny = cellOf gm.ncols ny nx := by
      unfold cellOfNxNy cellOf
      rw [if_neg (by omega)]
    rw [hcell]
    exact ⟨colOf_cellOf hin.2.2.1 hin.1 hin.2.1, rowOf_cellOf hin.2.2.1 hin.1 hin.2.1⟩
  · have hcell : cellOfNxNy gm.nrows gm.ncols nx ny = -1 := by
      unfold cellOfNxNy
      rw [if_pos (by omega)]
    rw [hcell] at hv
    simp [validCell] at hv

/-- clip succeeds as soon as both corner cells are valid and in order (whatever arithmetic produced them) -/
theorem clip_ok_of_cells (io : NumIO α) (g : Grid α) (hnc : 0 < g.ncols)
    (hr : (g.data.length : Int) = g.nrows) (hc : ∀ r ∈ g.data, (r.length : Int) = g.ncols)
    (x0 y0 x1 y1 : α)
    (v0 : validCell g.nrows g.ncols (coord2cell (geom g) x0 y0) = true)
    (v1 : validCell g.nrows g.ncols (coord2cell (geom g) x1 y1) = true)
    (hcol : colOf g.ncols (coord2cell (geom g) x0 y0) ≤ colOf g.ncols (coord2cell (geom g) x1 y1))
    (hrow : rowOf g.ncols (coord2cell (geom g) x1 y1) ≤ rowOf g.ncols (coord2cell (geom g) x0 y0)) :
    ∃ ng, clip io g x0 y0 x1 y1 = .ok ng ∧ 0 < ng.nrows ∧ 0 < ng.ncols := by
  obtain ⟨a0, a1, a2, a3, _⟩ := valid_rowcol hnc v0
  obtain ⟨b0, b1, b2, b3, _⟩ := valid_rowcol hnc v1
  generalize hc0 : coord2cell (geom g) x0 y0 = c0 at *
  generalize hc1 : coord2cell (geom g) x1 y1 = c1 at *
  unfold clip
  simp only [hc0, hc1, v0, v1, Bool.and_self, Bool.not_true, Bool.false_eq_true, if_false, cell2rowcol, if_true]
  have hshape : ¬ (rowOf g.ncols c0 - rowOf g.ncols c1 + 1 < 0 ∨ colOf g.ncols c1 - colOf g.ncols c0 + 1 < 0) := by omega
  simp only [mkGrid, nodataWord, if_neg hshape]
  have hrowsS : ((slice g.data (rowOf g.ncols c1) (rowOf g.ncols c0 + 1)).length : Int)
      = rowOf g.ncols c0 - rowOf g.ncols c1 + 1 := by
    rw [slice_length _ _ _ b0 (by omega) (by omega)]; omega
  rw [setData_id' _ _ ⟨rfl, rfl⟩ (by simpa using hrowsS) (by
    intro r hrm
    obtain ⟨r0, hr0, rfl⟩ := List.mem_map.mp hrm
    have hr0' : r0 ∈ g.data := by
      unfold slice at hr0
      exact List.mem_of_mem_drop (List.mem_of_mem_take hr0)
    have := hc r0 hr0'
    rw [slice_length _ _ _ a2 (by omega) (by omega)]
    show _ = colOf g.ncols c1 - colOf g.ncols c0 + 1
    omega)]
  exact ⟨_, rfl, by dsimp only; omega, by dsimp only; omega⟩

end AnyArithmetic

end HydroVerif.C13
