/-
C12 — helper lemmas for the transform classes (`Model/C12T.lean`): a constructor call that is accepted without
`accept_nan` has NaN-free bounds (so the "finite or infinite bounds" hypothesis of `init_ok` / `tinit_ok` is discharged
by the class's own guards), the per-class table, `get_transform`.
-/
import HydroVerif.Lemmas.C12
import HydroVerif.Model.C12T

set_option linter.unusedSimpArgs false
set_option linter.unusedVariables false
set_option linter.unusedSectionVars false
namespace HydroVerif.C12

section
variable {α : Type} [LinearOrder α] [Add α] [Sub α] [OfNat α 0]

/-- the quantifier's "finite or infinite bounds": no NaN among the bounds given to the constructor -/
def Spec.nanFree (sp : Spec α) : Prop :=
  (∀ m, sp.mins = some m → m.any XR.isNaN = false) ∧ (∀ m, sp.maxs = some m → m.any XR.isNaN = false)

theorem reject?_false_noNaN {n : Nat} {xs : List (XR α)} (h : reject? false n xs = none) :
    xs.any XR.isNaN = false := by
  obtain ⟨_, h2⟩ := reject?_none h
  cases hx : xs.any XR.isNaN
  · rfl
  · exact absurd (h2 hx) (by simp)

/-- GUARD ⇒ HYPOTHESIS: a `Vector(...)` call WITHOUT `accept_nan` that is accepted was given NaN-free bounds
(`__checkvalues__` rejects a NaN in `mins` / `maxs`) -/
theorem mkArrays_nanFree {eps : α} {names : List String} {defaults mins maxs : Option (List (XR α))}
    {cb ch : Bool} {r : List (XR α) × List (XR α) × List (XR α)}
    (e : mkArrays eps names defaults mins maxs cb ch false = .ok r) :
    (∀ m, mins = some m → m.any XR.isNaN = false) ∧ (∀ m, maxs = some m → m.any XR.isNaN = false) := by
  unfold mkArrays at e
  simp only at e
  split at e
  · simp at e
  · split at e
    · simp at e
    · split at e
      · simp at e
      · rename_i lo' e1
        split at e
        · simp at e
        · rename_i hi' e2
          constructor
          · intro m hm; subst hm
            unfold ctorMins at e1
            simp only at e1
            split at e1
            · simp at e1
            · rename_i hr; exact reject?_false_noNaN hr
          · intro m hm; subst hm
            unfold ctorMaxs at e2
            simp only at e2
            split at e2
            · simp at e2
            · rename_i hr; exact reject?_false_noNaN hr

theorem add_nanFree {eps : α} {w w' : World α} {sp : Spec α} (e : World.add eps w sp = .ok w')
    (han : sp.acceptNan = false) : sp.nanFree := by
  unfold World.add at e
  split at e
  · simp at e
  · rename_i s v emk
    unfold mk at emk
    split at emk
    · simp at emk
    · rename_i lo hi d ea
      rw [han] at ea
      exact mkArrays_nanFree ea

/-- acceptance of a `Vector(...)` call does not depend on what else is alive -/
theorem add_accept_indep {eps : α} (w1 w2 : World α) (sp : Spec α) {w1' : World α}
    (e : World.add eps w1 sp = .ok w1') : ∃ w2', World.add eps w2 sp = .ok w2' := by
  unfold World.add at e ⊢
  unfold mk at e ⊢
  cases h : mkArrays eps sp.names sp.defaults sp.mins sp.maxs sp.checkBounds sp.checkHit sp.acceptNan with
  | error err => simp [h] at e
  | ok r => obtain ⟨lo, hi, d⟩ := r; exact ⟨_, rfl⟩

theorem emptySpec_nanFree : (emptySpec : Spec α).nanFree := by
  constructor <;> intro m h <;> simp [emptySpec] at h

theorem nanFree_of_lists {sp : Spec α} {lo hi : List (XR α)} (h1 : sp.mins = some lo) (h2 : sp.maxs = some hi)
    (n1 : lo.any XR.isNaN = false) (n2 : hi.any XR.isNaN = false) : sp.nanFree := by
  constructor
  · intro m hm; rw [h1] at hm; cases hm; exact n1
  · intro m hm; rw [h2] at hm; cases hm; exact n2

/-- the inner `BoxCox2` call, once accepted, vouches for `mininu` and `minilam` -/
theorem bc2Spec_args_noNaN {K : TConsts α} {a : CArgs α} (h : (bc2Spec K a).nanFree) :
    a.mininu.isNaN = false ∧ a.minilam.isNaN = false := by
  have := h.1 [a.mininu, a.minilam] rfl
  simpa [List.any_cons, Bool.or_eq_false_iff] using this

/-- THE CLASS TABLE IS SOUND FOR THE QUANTIFIER: whenever every `Vector(...)` call of `Class(mininu, minilam)` is
accepted, all the bounds involved are NaN-free — for the vectors built without `accept_nan` by their own NaN guard,
for the `accept_nan` constants (`nu` of BoxCox1lam, `lam` of BoxCox1nu, `xmax`) because their bounds are literals or
are vouched for by the inner `BoxCox2(mininu, minilam)` call -/
theorem classSpecs_nanFree {eps : α} {K : TConsts α} {cls : TClass} {a : CArgs α} {p c : Spec α} {b : Option (Spec α)}
    (e : classSpecs K cls a = .ok (p, c, b))
    (ap : ∃ w w', World.add eps w p = .ok w')
    (ab : ∀ sb, b = some sb → ∃ w w', World.add eps w sb = .ok w') :
    p.nanFree ∧ c.nanFree ∧ ∀ sb, b = some sb → sb.nanFree := by
  obtain ⟨wp, wp', ep⟩ := ap
  have hb2 : ∀ sb, b = some sb → sb.acceptNan = false → sb.nanFree := by
    intro sb hsb han
    obtain ⟨w, w', ew⟩ := ab sb hsb
    exact add_nanFree ew han
  cases cls <;> simp only [classSpecs] at e
  case identity | softmax =>
    simp only [Except.ok.injEq, Prod.mk.injEq] at e; obtain ⟨rfl, rfl, rfl⟩ := e
    exact ⟨emptySpec_nanFree, emptySpec_nanFree, by simp⟩
  case logit | yeojohnson | sinh =>
    simp only [Except.ok.injEq, Prod.mk.injEq] at e; obtain ⟨rfl, rfl, rfl⟩ := e
    exact ⟨add_nanFree ep rfl, emptySpec_nanFree, by simp⟩
  case log | reciprocal =>
    simp only [Except.ok.injEq, Prod.mk.injEq] at e; obtain ⟨rfl, rfl, rfl⟩ := e
    exact ⟨add_nanFree ep rfl, emptySpec_nanFree, by simp⟩
  case logsinh | manly =>
    simp only [Except.ok.injEq, Prod.mk.injEq] at e; obtain ⟨rfl, rfl, rfl⟩ := e
    refine ⟨add_nanFree ep rfl, ?_, by simp⟩
    exact nanFree_of_lists (lo := [.fin K.eps]) (hi := [.pinf]) rfl rfl (by simp [XR.isNaN]) (by simp [XR.isNaN])
  case boxcox2 =>
    split at e
    · simp at e
    · simp only [Except.ok.injEq, Prod.mk.injEq] at e; obtain ⟨rfl, rfl, rfl⟩ := e
      exact ⟨add_nanFree ep rfl, emptySpec_nanFree, by simp⟩
  case boxcox2sym =>
    split at e
    · simp at e
    · simp only [Except.ok.injEq, Prod.mk.injEq] at e; obtain ⟨rfl, rfl, rfl⟩ := e
      refine ⟨add_nanFree ep rfl, emptySpec_nanFree, ?_⟩
      intro sb hsb; cases hsb; exact add_nanFree ep rfl
  case boxcox1lam =>
    split at e
    · simp at e
    · simp only [Except.ok.injEq, Prod.mk.injEq] at e; obtain ⟨rfl, rfl, rfl⟩ := e
      have hb := hb2 (bc2Spec K a) rfl rfl
      obtain ⟨n1, n2⟩ := bc2Spec_args_noNaN hb
      refine ⟨add_nanFree ep rfl, ?_, ?_⟩
      · exact nanFree_of_lists (lo := [a.mininu]) (hi := [.pinf]) rfl rfl (by simp [n1]) (by simp [XR.isNaN])
      · intro sb hsb; cases hsb; exact hb
  case boxcox1nu =>
    split at e
    · simp at e
    · simp only [Except.ok.injEq, Prod.mk.injEq] at e; obtain ⟨rfl, rfl, rfl⟩ := e
      have hb := hb2 (bc2Spec K a) rfl rfl
      obtain ⟨n1, n2⟩ := bc2Spec_args_noNaN hb
      refine ⟨add_nanFree ep rfl, ?_, ?_⟩
      · exact nanFree_of_lists (lo := [a.minilam]) (hi := [.fin K.three]) rfl rfl (by simp [n2]) (by simp [XR.isNaN])
      · intro sb hsb; cases hsb; exact hb

/-- the inner vector exists exactly for the classes that re-sync one -/
theorem classSpecs_bc {K : TConsts α} {cls : TClass} {a : CArgs α} {p c : Spec α} {b : Option (Spec α)}
    (e : classSpecs K cls a = .ok (p, c, b)) : b.isSome = true ↔ cls.kind ≠ .plain := by
  cases cls <;> simp only [classSpecs] at e <;>
    first
    | (simp only [Except.ok.injEq, Prod.mk.injEq] at e; obtain ⟨rfl, rfl, rfl⟩ := e; simp [TClass.kind])
    | (split at e
       · simp at e
       · simp only [Except.ok.injEq, Prod.mk.injEq] at e; obtain ⟨rfl, rfl, rfl⟩ := e; simp [TClass.kind])

/-- what `tinit` accepted, it accepted call by call -/
theorem tinit_accepts {eps : α} {p c : Spec α} {b : Option (Spec α)} {w : World α} (e : tinit eps p c b = .ok w) :
    (∃ w0 w', World.add eps w0 p = .ok w') ∧ (∃ w0 w', World.add eps w0 c = .ok w')
      ∧ ∀ sb, b = some sb → ∃ w0 w', World.add eps w0 sb = .ok w' := by
  unfold tinit at e
  split at e
  · simp at e
  · rename_i w1 e1
    split at e
    · simp at e
    · rename_i w2 e2
      refine ⟨⟨_, _, e1⟩, ⟨_, _, e2⟩, ?_⟩
      intro sb hsb; subst hsb
      exact ⟨_, _, e⟩

theorem madd_accepts {eps : α} {m m' : MWorld α} {kind : TKind} {p c : Spec α} {b : Option (Spec α)}
    (e : madd eps m kind p c b = .ok m') (hk : b.isSome = true ↔ kind ≠ .plain) :
    (∃ w0 w', World.add eps w0 p = .ok w') ∧ (∃ w0 w', World.add eps w0 c = .ok w')
      ∧ ∀ sb, b = some sb → ∃ w0 w', World.add eps w0 sb = .ok w' := by
  unfold madd at e
  simp only at e
  split at e
  · simp at e
  · rename_i w1 e1
    split at e
    · simp at e
    · rename_i w2 e2
      refine ⟨⟨_, _, e1⟩, ⟨_, _, e2⟩, ?_⟩
      intro sb hsb; subst hsb
      split at e
      · rename_i hp; exact absurd hp (hk.mp rfl)
      · simp only at e
        split at e
        · simp at e
        · rename_i w3 e3; exact ⟨_, _, e3⟩

/-! ### `get_transform` -/

theorem gtAssign_ok {w w' : World α} {nm : String} {x : XR α} (hw : WorldOk w) (e : gtAssign w nm x = .ok w') :
    WorldOk w' ∧ w'.vecs.length = w.vecs.length ∧ ∀ j, w'.frozen j = w.frozen j := by
  have upd : ∀ (w0 : World α) (k : Nat), WorldOk w0 →
      WorldOk (w0.update k fun s v => setKey s v nm x).1
        ∧ (w0.update k fun s v => setKey s v nm x).1.vecs.length = w0.vecs.length
        ∧ ∀ j, (w0.update k fun s v => setKey s v nm x).1.frozen j = w0.frozen j := by
    intro w0 k h0
    have hf : ∀ v s' v', w0.vecs[k]? = some v → setKey w0.store v nm x = ((s', v'), .ok) →
        Assign w0.store v s' v' ∧ VecOk s' v' := fun v s' v' hk e => setKey_effect (h0.each k v hk) nm x e
    refine ⟨update_ok h0 hf, update_length _ _ _, ?_⟩
    intro j
    by_cases hjk : j = k
    · subst hjk; exact update_frozen_self h0 hf
    · simp only [World.frozen]; rw [update_view_other h0 hf j hjk]
  unfold gtAssign at e
  split at e
  · rename_i p c hp hc
    simp only at e
    split at e
    · simp at e
    · rename_i w1 h1
      have ok1 : WorldOk w1 ∧ w1.vecs.length = w.vecs.length ∧ ∀ j, w1.frozen j = w.frozen j := by
        split at h1
        · have := upd w 0 hw
          rw [h1] at this; exact this
        · simp only [Prod.mk.injEq, and_true] at h1; subst h1; exact ⟨hw, rfl, fun _ => rfl⟩
      split at e
      · split at e
        · simp at e
        · rename_i w2 h2
          simp only [Except.ok.injEq] at e; subst e
          have := upd w1 1 ok1.1
          rw [h2] at this
          exact ⟨this.1, by rw [this.2.1, ok1.2.1], fun j => by rw [this.2.2 j, ok1.2.2 j]⟩
      · simp only [Except.ok.injEq] at e; subst e; exact ok1
  · simp at e

theorem gtAssignAll_ok : ∀ (kw : List (String × XR α)) {w w' : World α}, WorldOk w → gtAssignAll w kw = .ok w' →
    WorldOk w' ∧ w'.vecs.length = w.vecs.length ∧ ∀ j, w'.frozen j = w.frozen j := by
  intro kw
  induction kw with
  | nil => intro w w' hw e; simp only [gtAssignAll, Except.ok.injEq] at e; subst e; exact ⟨hw, rfl, fun _ => rfl⟩
  | cons kv rest ih =>
    intro w w' hw e
    obtain ⟨nm, x⟩ := kv
    simp only [gtAssignAll] at e
    split at e
    · simp at e
    · rename_i w1 e1
      obtain ⟨o1, l1, f1⟩ := gtAssign_ok hw e1
      obtain ⟨o2, l2, f2⟩ := ih o1 e
      exact ⟨o2, by rw [l2, l1], fun j => by rw [f2 j, f1 j]⟩

end
end HydroVerif.C12
