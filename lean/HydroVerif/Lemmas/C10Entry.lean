/-
C10 — lemmas about `Model/C10Entry.lean`: the driver's sorts meet the sort hypotheses; percentileofscore kinds;
the entry points; rounded formulas; buffers.
-/
import HydroVerif.Model.C10Entry
import HydroVerif.Lemmas.C10Audit
import HydroVerif.Lemmas.C10Sort

set_option linter.unusedSectionVars false
set_option linter.unusedVariables false

namespace HydroVerif.C10
open HydroVerif.C04 (sumL absG mean ssd pearson clip1)

section sorts
variable {α : Type} [LinearOrder α]

theorem sortAsc_sorted (l : List α) : (sortAsc l).Pairwise (· ≤ ·) := by
  have := List.pairwise_mergeSort (le := fun a b : α => decide (a ≤ b))
    (fun a b c hab hbc => by simp only [decide_eq_true_eq] at *; exact le_trans hab hbc)
    (fun a b => by simp only [Bool.or_eq_true, decide_eq_true_eq]; exact le_total a b) l
  exact this.imp (by intro a b h; simpa using h)

theorem sortAsc_perm (l : List α) : (sortAsc l).Perm l := List.mergeSort_perm l _

/-- on NaN-free data the Anderson-Darling comparator is the exact order -/
theorem sortADm_map_some (xs : List α) : sortADm (xs.map some) = (sortAsc xs).map some := by
  unfold sortADm sortAsc
  rw [List.map_mergeSort]
  intro a _ b _
  by_cases h : b < a
  · simp [adLe, h, not_le.mpr h]
  · simp [adLe, h, not_lt.mp h]

end sorts

section kinds
variable {α : Type} [Field α] [LinearOrder α] [IsStrictOrderedRing α]

theorem pitKind_rank (obs : α) (ens : List α) : pitKind .rank obs ens = pitRank obs ens := rfl

/-- the natural-number numerator and the factor of each kind -/
def pctNum : PctKind → ℕ → ℕ → ℕ
  | .rank, l, r => l + r + (if l < r then 1 else 0)
  | .strict, l, _ => 2 * l
  | .weak, _, r => 2 * r
  | .mean, l, r => l + r

theorem pctFormula_eq (k : PctKind) (left right nens : ℕ) (hn : 0 < nens) :
    pctFormula (α := α) k left right nens / 100 = (pctNum k left right : α) / (2 * (nens : α)) := by
  have hnpos : (nens : α) ≠ 0 := by exact_mod_cast hn.ne'
  cases k <;> simp only [pctFormula, pctNum] <;> push_cast <;> field_simp <;> ring

theorem pctNum_le (k : PctKind) (left right nens : ℕ) (hlr : left ≤ right) (hr : right ≤ nens) :
    pctNum k left right ≤ 2 * nens := by
  cases k <;> simp only [pctNum] <;> (try split) <;> omega

theorem pctFormula_range (k : PctKind) (left right nens : ℕ) (hn : 0 < nens) (hlr : left ≤ right)
    (hr : right ≤ nens) :
    0 ≤ pctFormula (α := α) k left right nens / 100 ∧ pctFormula (α := α) k left right nens / 100 ≤ 1 := by
  rw [pctFormula_eq k left right nens hn]
  have hnpos : (0 : α) < 2 * (nens : α) := by
    have : (0 : α) < (nens : α) := by exact_mod_cast hn
    linarith
  have h1 : ((pctNum k left right : ℕ) : α) ≤ 2 * (nens : α) := by
    exact_mod_cast pctNum_le k left right nens hlr hr
  exact ⟨div_nonneg (Nat.cast_nonneg _) hnpos.le, (div_le_one hnpos).mpr h1⟩

theorem pctNum_strict (k : PctKind) (left left' ties : ℕ) (h : left < left') :
    pctNum k left (left + ties) < pctNum k left' (left' + ties) := by
  cases k <;> simp only [pctNum] <;> (try split) <;> (try split) <;> omega

theorem filter_lt_le_length (obs : α) (ens : List α) :
    (ens.filter fun a => decide (a < obs)).length ≤ (ens.filter fun a => decide (a ≤ obs)).length := by
  rw [← List.countP_eq_length_filter, ← List.countP_eq_length_filter]
  apply List.countP_mono_left
  intro x _ hx
  simp only [decide_eq_true_eq] at *
  exact hx.le

end kinds

/-! ### layouts -/

section layout
variable {β : Type}

theorem flatten_singletons (l : List β) : (l.map fun a => [a]).flatten = l := by
  induction l with
  | nil => rfl
  | cons a t ih => simp [ih]

theorem normObs_col (l : List β) : normObs (.mat 1 (l.map fun a => [a])) = .ok l := by
  simp [normObs, flatten_singletons]

theorem normObs_row (l : List β) : normObs (.mat l.length [l]) = .ok l := by
  simp [normObs]

theorem normObs_error_iff (x : ArrIn β) :
    (∃ e, normObs x = .error e) ↔ ∃ c rows, x = .mat c rows ∧ rows.length ≠ 1 ∧ c ≠ 1 := by
  cases x with
  | scalar a => simp [normObs]
  | vec l => simp [normObs]
  | mat c rows =>
    by_cases h : rows.length = 1 ∨ c = 1
    · simp only [normObs, if_pos h]
      constructor
      · rintro ⟨e, he⟩; cases he
      · rintro ⟨c', rows', hx, h1, h2⟩
        injection hx with hc hr
        subst hc; subst hr
        rcases h with h | h
        · exact absurd h h1
        · exact absurd h h2
    · simp only [normObs, if_neg h]
      rw [not_or] at h
      exact ⟨fun _ => ⟨c, rows, rfl, h.1, h.2⟩, fun _ => ⟨_, rfl⟩⟩

theorem keepRows_any (obs : List (Option β)) (ens : List (List (Option β))) :
    ∀ p ∈ keepRows obs ens, p.2.any Option.isSome = true := by
  induction obs generalizing ens with
  | nil => intro p hp; simp [keepRows] at hp
  | cons o os ih =>
    cases ens with
    | nil => intro p hp; cases o <;> simp [keepRows] at hp
    | cons e es =>
      intro p hp
      cases o with
      | none => exact ih es p (by simpa [keepRows] using hp)
      | some v =>
        by_cases h : e.any Option.isSome
        · simp only [keepRows, if_pos h, List.mem_cons] at hp
          rcases hp with rfl | hp
          · exact h
          · exact ih es p hp
        · simp only [keepRows, if_neg h] at hp
          exact ih es p hp

theorem checkEnsemble_any (obs : List (Option β)) (ens : List (List (Option β))) (k : List (β × List (Option β)))
    (h : checkEnsemble obs ens = .ok k) : ∀ p ∈ k, p.2.any Option.isSome = true := by
  unfold checkEnsemble at h
  split at h
  · cases h
  · simp only at h
    split at h
    · cases h
    · injection h with h; rw [← h]; exact keepRows_any obs ens

theorem checkEnsembleIn_any (obs ens : ArrIn (Option β)) (k : List (β × List (Option β)))
    (h : checkEnsembleIn obs ens = .ok k) : ∀ p ∈ k, p.2.any Option.isSome = true := by
  unfold checkEnsembleIn at h
  split at h
  · cases h
  · exact checkEnsemble_any _ _ k h

/-- the filter is idempotent: what it kept passes unchanged when filtered again (`alpha` → `pit`) -/
theorem keepRows_idem (k : List (β × List (Option β))) (hk : ∀ p ∈ k, p.2.any Option.isSome = true) :
    keepRows (k.map fun p => some p.1) (k.map Prod.snd) = k := by
  induction k with
  | nil => rfl
  | cons p t ih =>
    have hp := hk p (by simp)
    simp only [List.map_cons, keepRows, if_pos hp]
    rw [ih (fun q hq => hk q (by simp [hq]))]

theorem checkEnsemble_idem (k : List (β × List (Option β))) (hk : ∀ p ∈ k, p.2.any Option.isSome = true)
    (hne : k ≠ []) : checkEnsemble (k.map fun p => some p.1) (k.map Prod.snd) = .ok k := by
  unfold checkEnsemble
  rw [if_neg (by simp), keepRows_idem k hk]
  simp only
  rw [if_neg (by simpa using hne)]

end layout

/-! ### the `pit` entry point -/

section pitentry
variable {α : Type} [Field α] [LinearOrder α] [IsStrictOrderedRing α]

theorem belowJitO_le (obs dobs : α) (ens : List (Option α)) (dens : List α) :
    belowJitO obs dobs ens dens ≤ ens.length := by
  induction ens generalizing dens with
  | nil => simp [belowJitO]
  | cons e es ih =>
    cases dens with
    | nil => simp [belowJitO]
    | cons d ds =>
      have := ih ds
      simp only [belowJitO, List.length_cons]
      cases e with
      | none => dsimp only; omega
      | some v => dsimp only; split <;> omega

theorem belowJitO_some (obs dobs : α) (ens dens : List α) :
    belowJitO obs dobs (ens.map some) dens = belowJit obs dobs ens dens := by
  induction ens generalizing dens with
  | nil => simp [belowJitO, belowJit]
  | cons e es ih =>
    cases dens with
    | nil => simp [belowJitO, belowJit]
    | cons d ds => simp [belowJitO, belowJit, ih ds]

theorem isSudoO_some (eps censor obs : α) (ens : List α) :
    isSudoO eps censor obs (ens.map some) = isSudo eps censor obs ens := by
  unfold isSudoO isSudo
  congr 2
  rw [List.filter_map, List.length_map]
  rfl

theorem allSome_length (l : List (Option α)) (vs : List α) (h : allSome l = some vs) : vs.length = l.length := by
  rw [eq_map_some_of_allSome l vs h, List.length_map]

theorem pitOne_range (random : Bool) (kind : PctKind) (cst obs dobs : α) (ens : List (Option α)) (dens : List α)
    (hne : ens ≠ []) (v : α) (h : pitOne random kind cst obs dobs ens dens = some v) : 0 ≤ v ∧ v ≤ 1 := by
  unfold pitOne at h
  cases random with
  | true =>
    simp only [if_true] at h
    injection h with h
    rw [← h]
    unfold pitFormula
    have hc := clampCst_le_half cst
    have hcnt : ((belowJitO obs dobs ens dens : ℕ) : α) ≤ (ens.length : α) := by
      exact_mod_cast belowJitO_le obs dobs ens dens
    have h0 : (0 : α) ≤ ((belowJitO obs dobs ens dens : ℕ) : α) := Nat.cast_nonneg _
    have hden : 0 < 1 - clampCst cst + (ens.length : α) := by
      have : (0 : α) ≤ (ens.length : α) := Nat.cast_nonneg _
      linarith
    constructor
    · apply div_nonneg <;> linarith
    · rw [div_le_one hden]; linarith
  | false =>
    simp only [Bool.false_eq_true, if_false] at h
    cases hs : allSome ens with
    | none => rw [hs] at h; cases h
    | some vs =>
      rw [hs] at h
      injection h with h
      rw [← h]
      have hl := allSome_length ens vs hs
      unfold pitKind
      apply pctFormula_range
      · rw [hl]; exact List.length_pos_iff.mpr hne
      · exact filter_lt_le_length obs vs
      · exact List.length_filter_le _ _

theorem pitRows_range (random : Bool) (kind : PctKind) (eps cst censor : α) (k : List (α × List (Option α)))
    (hk : ∀ p ∈ k, p.2 ≠ []) (dobs : List α) (dens : List (List α)) :
    ∀ q ∈ pitRows random kind eps cst censor k dobs dens, ∀ v, q.1 = some v → 0 ≤ v ∧ v ≤ 1 := by
  induction k generalizing dobs dens with
  | nil => intro q hq; simp [pitRows] at hq
  | cons p t ih =>
    obtain ⟨o, e⟩ := p
    cases dobs with
    | nil => intro q hq; simp [pitRows] at hq
    | cons d ds =>
      cases dens with
      | nil => intro q hq; simp [pitRows] at hq
      | cons de des =>
        intro q hq v hv
        simp only [pitRows, List.mem_cons] at hq
        rcases hq with rfl | hq
        · exact pitOne_range random kind cst o d e de (hk (o, e) (by simp)) v hv
        · exact ih (fun p hp => hk p (by simp [hp])) ds des q hq v hv

theorem pitRows_random_defined (kind : PctKind) (eps cst censor : α) (k : List (α × List (Option α)))
    (dobs : List α) (dens : List (List α)) :
    ∀ q ∈ pitRows true kind eps cst censor k dobs dens, q.1.isSome = true := by
  induction k generalizing dobs dens with
  | nil => intro q hq; simp [pitRows] at hq
  | cons p t ih =>
    obtain ⟨o, e⟩ := p
    cases dobs with
    | nil => intro q hq; simp [pitRows] at hq
    | cons d ds =>
      cases dens with
      | nil => intro q hq; simp [pitRows] at hq
      | cons de des =>
        intro q hq
        simp only [pitRows, List.mem_cons] at hq
        rcases hq with rfl | hq
        · simp [pitOne]
        · exact ih ds des q hq

theorem any_isSome_ne_nil {β : Type} (l : List (Option β)) (h : l.any Option.isSome = true) : l ≠ [] := by
  intro hl; rw [hl] at h; simp at h

/-- what `pit` returns on complete data, forecast by forecast -/
def pitSpec (random : Bool) (kind : PctKind) (eps cst censor : α) :
    List α → List (List α) → List α → List (List α) → List (Option α × Bool)
  | o :: os, e :: es, d :: ds, de :: des =>
    (some (if random then pitRandom cst o d e de else pitKind kind o e), isSudo eps censor o e)
      :: pitSpec random kind eps cst censor os es ds des
  | _, _, _, _ => []

theorem pitOne_some (random : Bool) (kind : PctKind) (cst obs dobs : α) (ens dens : List α) :
    pitOne random kind cst obs dobs (ens.map some) dens
      = some (if random then pitRandom cst obs dobs ens dens else pitKind kind obs ens) := by
  unfold pitOne
  cases random with
  | true => simp [pitRandom, belowJitO_some]
  | false => simp [allSome_map_some]

theorem pitRows_complete (random : Bool) (kind : PctKind) (eps cst censor : α) (os : List α)
    (rows : List (List α)) (dobs : List α) (dens : List (List α)) :
    pitRows random kind eps cst censor (os.zip (rows.map fun r => r.map some)) dobs dens
      = pitSpec random kind eps cst censor os rows dobs dens := by
  induction os generalizing rows dobs dens with
  | nil => simp [pitRows, pitSpec]
  | cons o os ih =>
    cases rows with
    | nil => simp [pitRows, pitSpec]
    | cons e es =>
      cases dobs with
      | nil => simp [pitRows, pitSpec]
      | cons d ds =>
        cases dens with
        | nil => simp [pitRows, pitSpec]
        | cons de des =>
          simp only [List.map_cons, List.zip_cons_cons, pitRows, pitSpec, pitOne_some, isSudoO_some, ih]

/-- with a plotting constant below ½ the random branch stays strictly inside (0, 1), NaN members or not -/
theorem pitRows_random_open (kind : PctKind) (eps cst censor : α) (hc : cst < 1 / 2)
    (k : List (α × List (Option α))) (dobs : List α) (dens : List (List α)) :
    ∀ v ∈ (pitRows true kind eps cst censor k dobs dens).filterMap Prod.fst, 0 < v ∧ v < 1 := by
  induction k generalizing dobs dens with
  | nil => intro v hv; simp [pitRows] at hv
  | cons p t ih =>
    obtain ⟨o, e⟩ := p
    cases dobs with
    | nil => intro v hv; simp [pitRows] at hv
    | cons d ds =>
      cases dens with
      | nil => intro v hv; simp [pitRows] at hv
      | cons de des =>
        intro v hv
        simp only [pitRows, pitOne, if_true, List.filterMap_cons, List.mem_cons] at hv
        rcases hv with rfl | hv
        · unfold pitFormula clampCst
          rw [if_pos hc]
          have hcnt : ((belowJitO o d e de : ℕ) : α) ≤ (e.length : α) := by
            exact_mod_cast belowJitO_le o d e de
          have h0 : (0 : α) ≤ ((belowJitO o d e de : ℕ) : α) := Nat.cast_nonneg _
          have hden : 0 < 1 - cst + (e.length : α) := by
            have : (0 : α) ≤ (e.length : α) := Nat.cast_nonneg _
            linarith
          constructor
          · apply div_pos <;> linarith
          · rw [div_lt_one hden]; linarith
        · exact ih ds des v hv

end pitentry

/-! ### formulas with explicit rounding -/

section rounded
variable {α : Type} [Field α] [LinearOrder α] [IsStrictOrderedRing α]

/-- what is assumed of the rounding operator for counts up to `n`: monotone, exact on the naturals and the
half-integers up to `n + 1` (true of IEEE double precision for `n < 2^52`) -/
structure RoundsCounts (rnd : α → α) (n : ℕ) : Prop where
  mono : Monotone rnd
  nat : ∀ k : ℕ, k ≤ n + 1 → rnd (k : α) = (k : α)
  half : ∀ k : ℕ, k ≤ n + 1 → rnd ((k : α) + 1 / 2) = (k : α) + 1 / 2

theorem clampCst_nonneg (cst : α) (h : 0 ≤ cst) : 0 ≤ clampCst cst := by
  unfold clampCst; split
  · exact h
  · norm_num

/-- numerator and denominator of the rounded plotting position: `cnt ≤ num ≤ cnt + ½`, `nens + ½ ≤ den` -/
theorem pitR_parts (rnd : α → α) (n : ℕ) (hr : RoundsCounts rnd n) (c : α) (hc0 : 0 ≤ c) (hc : c ≤ 1 / 2)
    (cnt : ℕ) (hcnt : cnt ≤ n) :
    (cnt : α) ≤ rnd (rnd ((cnt : α) + 1 / 2) - c) ∧ rnd (rnd ((cnt : α) + 1 / 2) - c) ≤ (cnt : α) + 1 / 2 ∧
      (n : α) + 1 / 2 ≤ rnd (rnd (1 - c) + (n : α)) := by
  have h0 : rnd ((0 : ℕ) : α) = ((0 : ℕ) : α) := hr.nat 0 (by omega)
  have h1 : rnd ((1 : ℕ) : α) = ((1 : ℕ) : α) := hr.nat 1 (by omega)
  have hh : rnd (((0 : ℕ) : α) + 1 / 2) = ((0 : ℕ) : α) + 1 / 2 := hr.half 0 (by omega)
  simp only [Nat.cast_zero, Nat.cast_one, zero_add] at h0 h1 hh
  rw [hr.half cnt (by omega)]
  refine ⟨?_, ?_, ?_⟩
  · exact le_trans (le_of_eq (hr.nat cnt (by omega)).symm) (hr.mono (by linarith))
  · exact le_trans (hr.mono (by linarith)) (le_of_eq (hr.half cnt (by omega)))
  · have hd1 : 1 / 2 ≤ rnd (1 - c) := le_trans (le_of_eq hh.symm) (hr.mono (by linarith))
    exact le_trans (le_of_eq (hr.half n (by omega)).symm) (hr.mono (by linarith))

theorem pitFormulaR_range (rnd : α → α) (nens : ℕ) (hr : RoundsCounts rnd nens) (cst : α) (hc0 : 0 ≤ cst)
    (cnt : ℕ) (hcnt : cnt ≤ nens) :
    0 ≤ pitFormulaR rnd (clampCst cst) cnt nens ∧ pitFormulaR rnd (clampCst cst) cnt nens ≤ 1 := by
  obtain ⟨hn1, hn2, hd⟩ := pitR_parts rnd nens hr (clampCst cst) (clampCst_nonneg cst hc0) (clampCst_le_half cst)
    cnt hcnt
  have h0 : rnd ((0 : ℕ) : α) = ((0 : ℕ) : α) := hr.nat 0 (by omega)
  have h1 : rnd ((1 : ℕ) : α) = ((1 : ℕ) : α) := hr.nat 1 (by omega)
  simp only [Nat.cast_zero, Nat.cast_one] at h0 h1
  have hcn : (cnt : α) ≤ (nens : α) := by exact_mod_cast hcnt
  have hc0' : (0 : α) ≤ (cnt : α) := Nat.cast_nonneg _
  have hn0 : (0 : α) ≤ (nens : α) := Nat.cast_nonneg _
  set num := rnd (rnd ((cnt : α) + 1 / 2) - clampCst cst)
  set den := rnd (rnd (1 - clampCst cst) + (nens : α))
  have hden : 0 < den := by linarith
  unfold pitFormulaR
  constructor
  · exact le_trans (le_of_eq h0.symm) (hr.mono (div_nonneg (by linarith) hden.le))
  · exact le_trans (hr.mono ((div_le_one hden).mpr (by linarith))) (le_of_eq h1)

/-- the rounded PIT does not decrease when one more member lies below the observation -/
theorem pitFormulaR_mono (rnd : α → α) (nens : ℕ) (hr : RoundsCounts rnd nens) (cst : α) (hc0 : 0 ≤ cst)
    (cnt cnt' : ℕ) (h : cnt ≤ cnt') (hcnt : cnt' ≤ nens) :
    pitFormulaR rnd (clampCst cst) cnt nens ≤ pitFormulaR rnd (clampCst cst) cnt' nens := by
  obtain ⟨_, _, hd⟩ := pitR_parts rnd nens hr (clampCst cst) (clampCst_nonneg cst hc0) (clampCst_le_half cst)
    cnt' hcnt
  have hn0 : (0 : α) ≤ (nens : α) := Nat.cast_nonneg _
  have hden : 0 < rnd (rnd (1 - clampCst cst) + (nens : α)) := by linarith
  unfold pitFormulaR
  apply hr.mono
  apply div_le_div_of_nonneg_right _ hden.le
  apply hr.mono
  have : (cnt : α) ≤ (cnt' : α) := by exact_mod_cast h
  have := hr.mono (show (cnt : α) + 1 / 2 ≤ (cnt' : α) + 1 / 2 by linarith)
  linarith

theorem pitFormulaR_id (c : α) (cnt nens : ℕ) : pitFormulaR id c cnt nens = pitFormula c cnt nens := rfl

theorem isSudoR_id (eps censor obs : α) (ens : List α) : isSudoR id eps censor obs ens = isSudo eps censor obs ens :=
  rfl

/-- at or below the threshold the flag is raised whatever the rounding of the differences -/
theorem isSudoR_of_le (rnd : α → α) (hm : Monotone rnd) (h0 : rnd 0 = 0) (eps censor obs : α) (heps : 0 < eps)
    (ens : List α) (hobs : obs ≤ censor) (hens : ∃ a ∈ ens, a ≤ censor) : isSudoR rnd eps censor obs ens = true := by
  unfold isSudoR
  have key : ∀ x, x ≤ censor → rnd (x - censor) < eps := by
    intro x hx
    have : rnd (x - censor) ≤ rnd 0 := hm (by linarith)
    rw [h0] at this
    linarith
  simp only [Bool.and_eq_true, decide_eq_true_eq, List.length_pos_iff, ne_eq]
  refine ⟨key obs hobs, ?_⟩
  obtain ⟨a, ha, hac⟩ := hens
  apply List.ne_nil_of_mem (a := a)
  rw [List.mem_filter]
  exact ⟨ha, by simpa using key a hac⟩

/-- an observation at least `eps` above the threshold, or an ensemble wholly at least `eps` above it, is never
flagged whatever the rounding (`eps` itself is representable) -/
theorem isSudoR_of_above (rnd : α → α) (hm : Monotone rnd) (eps censor obs : α) (he : rnd eps = eps)
    (ens : List α) (h : eps ≤ obs - censor ∨ ∀ a ∈ ens, eps ≤ a - censor) : isSudoR rnd eps censor obs ens = false := by
  unfold isSudoR
  have key : ∀ x, eps ≤ x - censor → ¬ rnd (x - censor) < eps := by
    intro x hx
    have : rnd eps ≤ rnd (x - censor) := hm hx
    rw [he] at this
    exact not_lt.mpr this
  rcases h with h | h
  · simp [key obs h]
  · have : (ens.filter fun a => decide (rnd (a - censor) < eps)) = [] := by
      rw [List.filter_eq_nil_iff]
      intro a ha
      simpa using key a (h a ha)
    simp [this]

theorem clip1_range (x : α) : -1 ≤ clip1 x ∧ clip1 x ≤ 1 := by
  unfold clip1
  split
  · constructor <;> norm_num
  · split
    · constructor <;> norm_num
    · constructor <;> linarith

theorem clip1_idem (x : α) : clip1 (clip1 x) = clip1 x := by
  have h := clip1_range x
  generalize clip1 x = y at h ⊢
  unfold clip1
  rw [if_neg (by linarith [h.1]), if_neg (by linarith [h.2])]

/-- the last two operations of `dscore` keep the score in [0, 1] whatever the correlation handed over by
`np.corrcoef` before its clip and whatever the rounding -/
theorem dFinishR_range (rnd : α → α) (hm : Monotone rnd) (h0 : rnd 0 = 0) (h1 : rnd 1 = 1) (h2 : rnd 2 = 2) (r : α) :
    0 ≤ dFinishR rnd r ∧ dFinishR rnd r ≤ 1 := by
  unfold dFinishR
  have hc := clip1_range r
  have ha : 0 ≤ rnd (clip1 r + 1) := by rw [← h0]; apply hm; linarith
  have hb : rnd (clip1 r + 1) ≤ 2 := by rw [← h2]; apply hm; linarith
  constructor
  · exact le_trans (le_of_eq h0.symm) (hm (by linarith))
  · exact le_trans (hm (show rnd (clip1 r + 1) / 2 ≤ 1 by linarith)) (le_of_eq h1)

end rounded

/-! ### the `dscore` entry point -/

section dentry

theorem dscoreOfFin_eq (x y : List ℝ) : dscoreOfFin x y = dscoreOf x y := by
  unfold dscoreOfFin dscoreOf dFinishR
  have : clip1 (pearson x y) = pearson x y := by
    unfold pearson
    exact clip1_idem _
  simp only [id, this]

end dentry

/-! ### the kernel on caller-owned buffers -/

section buffers
variable {α : Type} [Field α] [LinearOrder α] [IsStrictOrderedRing α]

theorem upperF_length (F : List α → List α → α) (rows : List (List α)) : (upperF F rows).length = rows.length := by
  induction rows with
  | nil => rfl
  | cons e t ih => simp [upperF, ih]

/-- row `j` of the upper triangle of `k` forecasts has `k - 1 - j` entries -/
def UpperShape : ℕ → List (List α) → Prop
  | _, [] => True
  | k, u :: us => u.length + 1 = k ∧ UpperShape (k - 1) us

theorem upperF_shape (F : List α → List α → α) (rows : List (List α)) : UpperShape rows.length (upperF F rows) := by
  induction rows with
  | nil => trivial
  | cons e t ih => exact ⟨by simp, by simpa using ih⟩

theorem ranksOf_length (F : List α → List α → α) (rows : List (List α)) : (ranksOf F rows).length = rows.length := by
  simp [ranksOf]

theorem readUpper_writeUpper (n : ℕ) : ∀ (fm up : List (List α)) (i : ℕ), fm.length = up.length →
    i + fm.length ≤ n → (∀ r ∈ fm, r.length = n) → readUpper i (writeUpper i fm up) = up := by
  intro fm
  induction fm with
  | nil => intro up i hl _ _; cases up with
    | nil => rfl
    | cons u us => simp at hl
  | cons row rest ih =>
    intro up i hl hi hr
    cases up with
    | nil => simp at hl
    | cons u us =>
      simp only [writeUpper, readUpper]
      have hrow : row.length = n := hr row (by simp)
      have htake : (row.take (i + 1)).length = i + 1 := by
        rw [List.length_take]; simp only [List.length_cons] at hi; omega
      rw [List.drop_append_of_le_length (by omega), List.drop_of_length_le (by omega), List.nil_append]
      rw [ih us (i + 1) (by simpa using hl) (by simp only [List.length_cons] at hi; omega)
        (fun r h => hr r (by simp [h]))]

theorem writeUpper_length (fm up : List (List α)) (i : ℕ) : (writeUpper i fm up).length = fm.length := by
  induction fm generalizing up i with
  | nil => cases up <;> simp [writeUpper]
  | cons row rest ih =>
    cases up with
    | nil => simp [writeUpper]
    | cons u us => simp [writeUpper, ih]

theorem writeUpper_rows (n : ℕ) : ∀ (fm up : List (List α)) (i : ℕ), fm.length = up.length →
    i + fm.length = n → (∀ r ∈ fm, r.length = n) → UpperShape fm.length up →
    ∀ r ∈ writeUpper i fm up, r.length = n := by
  intro fm
  induction fm with
  | nil => intro up i _ _ _ _ r hr; cases up <;> simp [writeUpper] at hr
  | cons row rest ih =>
    intro up i hl hi hr hs r hmem
    cases up with
    | nil => simp at hl
    | cons u us =>
      simp only [writeUpper, List.mem_cons] at hmem
      simp only [List.length_cons] at hi hs
      obtain ⟨hu, hus⟩ := hs
      rcases hmem with rfl | hmem
      · have hrow : row.length = n := hr row (by simp)
        rw [List.length_append, List.length_take]
        omega
      · exact ih us (i + 1) (by simpa using hl) (by omega) (fun r h => hr r (by simp [h]))
          (by simpa using hus) r hmem

/-- contribution of forecast `y` to the rank of forecast `x` -/
def rankTerm (F : List α → List α → α) (x y : List α × ℕ) : α :=
  if y.2 < x.2 then 1 - uOf (F y.1 x.1) else if x.2 < y.2 then uOf (F x.1 y.1) else 0

theorem rankTerm_pair (F : List α → List α → α) (x y : List α × ℕ) (h : x.2 < y.2) :
    rankTerm F x y + rankTerm F y x = 1 := by
  unfold rankTerm
  rw [if_neg (by omega), if_pos h, if_pos h]
  ring

theorem rankTerm_self (F : List α → List α → α) (x : List α × ℕ) : rankTerm F x x = 0 := by
  unfold rankTerm; simp

theorem sum_rankTerm (F : List α → List α → α) (L : List (List α × ℕ)) (hL : L.Pairwise fun x y => x.2 < y.2) :
    (L.map fun x => (L.map fun y => rankTerm F x y).sum).sum = (L.length : α) * ((L.length : α) - 1) / 2 := by
  induction L with
  | nil => simp
  | cons x t ih =>
    have hx : ∀ y ∈ t, x.2 < y.2 := fun y hy => List.rel_of_pairwise_cons hL hy
    have ht := ih (List.Pairwise.of_cons hL)
    have h1 : (t.map fun y => rankTerm F x y).sum + (t.map fun y => rankTerm F y x).sum = (t.length : α) := by
      rw [← List.sum_map_add]
      rw [sum_map_congr t _ (fun _ => (1 : α)) (fun y hy => rankTerm_pair F x y (hx y hy))]
      simp
    simp only [List.map_cons, List.sum_cons, rankTerm_self, zero_add, List.length_cons, Nat.cast_add, Nat.cast_one]
    rw [List.sum_map_add, ht]
    have : (t.map fun y => rankTerm F x y).sum = (t.length : α) - (t.map fun y => rankTerm F y x).sum := by
      linarith
    rw [this]; ring

theorem ranksOf_sum (F : List α → List α → α) (rows : List (List α)) :
    (ranksOf F rows).sum = (rows.length : α) * ((rows.length : α) + 1) / 2 := by
  have h : ranksOf F rows = rows.zipIdx.map fun x => 1 + (rows.zipIdx.map fun y => rankTerm F x y).sum := by
    unfold ranksOf rankAt
    apply List.map_congr_left
    intro x _
    rw [sumL_eq_sum]
    rfl
  rw [h, List.sum_map_add, sum_rankTerm F rows.zipIdx (zipIdx_pairwise_snd rows 0)]
  simp only [List.map_const', List.sum_replicate, List.length_zipIdx]
  simp only [nsmul_eq_mul, mul_one]
  ring

theorem ensrank_ok_inv (sort : List (α × ℕ) → List (α × ℕ)) (epsmin eps : α) (ncol : ℕ) (rows : List (List α))
    (r : List (List α) × List α) (h : ensrank sort epsmin eps ncol rows = .ok r) :
    r = (upperF (fpair sort eps) rows, ranksOf (fpair sort eps) rows) ∧ ¬ eps < epsmin ∧ ncol ≠ 0 ∧ rows ≠ [] := by
  unfold ensrank at h
  split at h
  · cases h
  · rename_i h1
    split at h
    · cases h
    · rename_i h2
      injection h with h
      rw [not_or] at h2
      exact ⟨h.symm, h1, h2.1, by simpa [List.length_eq_zero_iff] using h2.2⟩

theorem shapesOK_iff (b : Bufs α) (n : ℕ) :
    shapesOK b n = true ↔ b.ranks.length = n ∧ b.fmat.length = n ∧ ∀ r ∈ b.fmat, r.length = n := by
  simp [shapesOK, and_assoc]

/-- shapes an operation must have for a history on `n` forecasts -/
def OpShape (n : ℕ) : BufOp α → Prop
  | .call _ _ rows => rows.length = n
  | .scribble f r => shapesOK (⟨f, r⟩ : Bufs α) n = true

theorem bufStep_call (sort : List (α × ℕ) → List (α × ℕ)) (epsmin eps : α) (ncol : ℕ) (rows : List (List α))
    (b : Bufs α) (h : shapesOK b rows.length = true) :
    (bufStep sort epsmin b (.call eps ncol rows)).2 = callReply sort epsmin eps ncol rows ∧
      shapesOK (bufStep sort epsmin b (.call eps ncol rows)).1 rows.length = true := by
  obtain ⟨hr, hf, hrow⟩ := (shapesOK_iff b _).mp h
  cases he : ensrank sort epsmin eps ncol rows with
  | error e =>
    simp [bufStep, callReply, h, he]
  | ok r =>
    obtain ⟨up, rk⟩ := r
    obtain ⟨hinv, _, _, _⟩ := ensrank_ok_inv sort epsmin eps ncol rows (up, rk) he
    injection hinv with hup hrk
    have hlen : b.fmat.length = up.length := by rw [hf, hup, upperF_length]
    simp only [bufStep, callReply, h, if_true, he]
    refine ⟨?_, ?_⟩
    · rw [readUpper_writeUpper rows.length b.fmat up 0 hlen (by omega) hrow]
    · rw [shapesOK_iff]
      refine ⟨by rw [hrk, ranksOf_length], by rw [writeUpper_length, hf], ?_⟩
      apply writeUpper_rows rows.length b.fmat up 0 hlen (by omega) hrow
      rw [hf, hup]; exact upperF_shape _ rows

end buffers

end HydroVerif.C10
