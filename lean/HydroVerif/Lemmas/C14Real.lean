/-
C14 — the piecewise-linear interpolant of a list of observations as ONE function ℝ → ℝ, and the fact that
its interval integral over a period inside the data is the sum of the clipped per-interval integrals.
-/
import HydroVerif.Lemmas.C14
import Mathlib.Analysis.SpecialFunctions.Integrals.Basic

open MeasureTheory Set

namespace HydroVerif.C14

/-- the affine piece through two observations (0 when a value is missing) -/
noncomputable def pieceFun (a b : Obs ℝ) : ℝ → ℝ := fun x =>
  match a.2, b.2 with
  | some v1, some v2 => lin (a.1 : ℝ) (b.1 : ℝ) v1 v2 x
  | _, _ => 0

/-- **the piecewise-linear interpolant** of the observations: on `[t_a, t_b)` the affine piece through
`a` and `b` (right-continuous where stamps are duplicated; 0 after the last stamp) -/
noncomputable def interp : List (Obs ℝ) → ℝ → ℝ
  | a :: b :: r => fun x => if x < (b.1 : ℝ) then pieceFun a b x else interp (b :: r) x
  | _ => fun _ => 0

theorem interp_cons_cons (a b : Obs ℝ) (r : List (Obs ℝ)) (x : ℝ) :
    interp (a :: b :: r) x = if x < (b.1 : ℝ) then pieceFun a b x else interp (b :: r) x := by
  rw [interp]

theorem interp_single (a : Obs ℝ) (x : ℝ) : interp [a] x = 0 := by simp [interp]

theorem pieceFun_continuous (a b : Obs ℝ) : Continuous (pieceFun a b) := by
  obtain ⟨ta, va⟩ := a
  obtain ⟨tb, vb⟩ := b
  cases va <;> cases vb <;> unfold pieceFun <;> dsimp only <;>
    first
    | exact continuous_const
    | (unfold lin; fun_prop)

/-- between two distinct stamps the interpolant is the affine piece, and it takes the observed value at
the left stamp -/
theorem interp_at_left (a b : Obs ℝ) (r : List (Obs ℝ)) (v1 v2 : ℝ) (ha : a.2 = some v1) (hb : b.2 = some v2)
    (hab : a.1 < b.1) : interp (a :: b :: r) (a.1 : ℝ) = v1 := by
  have : ((a.1 : Int) : ℝ) < (b.1 : ℝ) := by exact_mod_cast hab
  rw [interp_cons_cons, if_pos this]
  simp [pieceFun, ha, hb, lin]

theorem interp_intervalIntegrable : ∀ (l : List (Obs ℝ)) (S E : ℝ), IntervalIntegrable (interp l) volume S E
  | [], S, E => by
    have : interp [] = fun _ => (0 : ℝ) := by funext x; simp [interp]
    rw [this]; exact intervalIntegrable_const
  | [a], S, E => by
    have : interp [a] = fun _ => (0 : ℝ) := by funext x; simp [interp]
    rw [this]; exact intervalIntegrable_const
  | a :: b :: r, S, E => by
    have ih := interp_intervalIntegrable (b :: r) S E
    have hrw : interp (a :: b :: r) =
        fun x => (Iio (b.1 : ℝ)).indicator (pieceFun a b) x + (Ici (b.1 : ℝ)).indicator (interp (b :: r)) x := by
      funext x
      rw [interp_cons_cons]
      by_cases h : x < (b.1 : ℝ)
      · simp [h, indicator]
      · simp [h, indicator, not_lt.mp h]
    rw [hrw]
    have h1 : IntervalIntegrable (pieceFun a b) volume S E := (pieceFun_continuous a b).intervalIntegrable S E
    apply IntervalIntegrable.add
    · rw [intervalIntegrable_iff] at h1 ⊢
      exact h1.indicator measurableSet_Iio
    · rw [intervalIntegrable_iff] at ih ⊢
      exact ih.indicator measurableSet_Ici

/-- two functions that agree on the open interval have the same interval integral -/
theorem integral_congr_Ioo {f g : ℝ → ℝ} {a b : ℝ} (hab : a ≤ b) (h : ∀ x ∈ Ioo a b, f x = g x) :
    ∫ x in a..b, f x = ∫ x in a..b, g x := by
  rw [intervalIntegral.integral_of_le hab, intervalIntegral.integral_of_le hab,
    integral_Ioc_eq_integral_Ioo, integral_Ioc_eq_integral_Ioo]
  exact setIntegral_congr_fun measurableSet_Ioo h

/-- the clipped integral of one piece over the period `[S, E]` -/
noncomputable def segInt (S E : Int) (p : Obs ℝ × Obs ℝ) : ℝ :=
  if ovLo S p.1 < ovHi E p.2 then
    ∫ x in ((ovLo S p.1 : Int) : ℝ)..((ovHi E p.2 : Int) : ℝ), pieceFun p.1 p.2 x
  else 0

/-- intervals that start at or after `E` contribute nothing -/
theorem segInt_sum_zero_of_ge (S E : Int) : ∀ (l : List (Obs ℝ)), Sorted l → (∀ x ∈ l, E ≤ x.1) →
    ((pairs l).map (segInt S E)).sum = 0 := by
  intro l hs hall
  apply List.sum_eq_zero
  intro y hy
  obtain ⟨p, hp, rfl⟩ := List.mem_map.mp hy
  have h1 := hall p.1 (mem_pairs hp).1
  have : ¬ ovLo S p.1 < ovHi E p.2 := by unfold ovLo ovHi; omega
  simp [segInt, this]

/-- for intervals that start at or after `M ≥ S`, clipping at `S` or at `M` is the same -/
theorem segInt_sum_congr_lo (S M E : Int) (hSM : S ≤ M) : ∀ (l : List (Obs ℝ)), (∀ x ∈ l, M ≤ x.1) →
    ((pairs l).map (segInt M E)).sum = ((pairs l).map (segInt S E)).sum := by
  intro l hall
  congr 1
  apply List.map_congr_left
  intro p hp
  have h1 := hall p.1 (mem_pairs hp).1
  have : ovLo M p.1 = ovLo S p.1 := by unfold ovLo; omega
  simp [segInt, this]

/-- **The integral of the interpolant over a period inside the data is the sum of the clipped
per-interval integrals.** -/
theorem integral_interp_eq_sum (E : Int) :
    ∀ (l : List (Obs ℝ)) (a : Obs ℝ) (S : Int), Sorted (a :: l) → a.1 ≤ S → S ≤ E → E ≤ lastTime (a :: l) →
      ∫ x in (S : ℝ)..(E : ℝ), interp (a :: l) x = ((pairs (a :: l)).map (segInt S E)).sum := by
  intro l
  induction l with
  | nil =>
    intro a S _ h1 h2 h3
    simp only [lastTime_single] at h3
    have : S = E := by omega
    subst this
    simp
  | cons b r ih =>
    intro a S hs haS hSE hEl
    have hab : a.1 ≤ b.1 := hs.head_le b (by simp)
    have hSEr : (S : ℝ) ≤ (E : ℝ) := by exact_mod_cast hSE
    rw [pairs_cons_cons, List.map_cons, List.sum_cons]
    rw [lastTime_cons_cons] at hEl
    have hlo : ovLo S a = S := by unfold ovLo; omega
    by_cases hEb : E ≤ b.1
    · -- the whole period lies in the first interval
      have htail : ((pairs (b :: r)).map (segInt S E)).sum = 0 :=
        segInt_sum_zero_of_ge S E (b :: r) hs.tail (fun x hx => by
          rcases List.mem_cons.mp hx with rfl | hx
          · exact hEb
          · exact le_trans hEb (hs.tail.head_le x hx))
      have hhi : ovHi E b = E := by unfold ovHi; omega
      rw [htail, add_zero]
      have hcongr : ∫ x in (S : ℝ)..(E : ℝ), interp (a :: b :: r) x = ∫ x in (S : ℝ)..(E : ℝ), pieceFun a b x := by
        apply integral_congr_Ioo hSEr
        intro x hx
        have : x < (b.1 : ℝ) := lt_of_lt_of_le hx.2 (by exact_mod_cast hEb)
        rw [interp_cons_cons, if_pos this]
      rw [hcongr]
      unfold segInt
      simp only [hlo, hhi]
      by_cases hlt : S < E
      · rw [if_pos hlt]
      · have : S = E := by omega
        subst this
        simp
    · have hbE : b.1 < E := by omega
      by_cases hbS : b.1 ≤ S
      · -- the first interval ends before the period starts
        have h0 : segInt S E (a, b) = 0 := by
          have : ¬ ovLo S a < ovHi E b := by unfold ovLo ovHi; omega
          simp [segInt, this]
        rw [h0, zero_add, ← ih b S hs.tail hbS hSE hEl]
        apply integral_congr_Ioo hSEr
        intro x hx
        have : ¬ x < (b.1 : ℝ) := not_lt.mpr (le_trans (by exact_mod_cast hbS) hx.1.le)
        rw [interp_cons_cons, if_neg this]
      · -- the period straddles the stamp `b.1`
        have hSb : S < b.1 := by omega
        have hSbr : (S : ℝ) ≤ (b.1 : ℝ) := by exact_mod_cast hSb.le
        have hbEr : ((b.1 : Int) : ℝ) ≤ (E : ℝ) := by exact_mod_cast hbE.le
        rw [← intervalIntegral.integral_add_adjacent_intervals
          (interp_intervalIntegrable (a :: b :: r) (S : ℝ) (b.1 : ℝ))
          (interp_intervalIntegrable (a :: b :: r) (b.1 : ℝ) (E : ℝ))]
        congr 1
        · have hhi : ovHi E b = b.1 := by unfold ovHi; omega
          unfold segInt
          simp only [hlo, hhi, if_pos hSb]
          apply integral_congr_Ioo hSbr
          intro x hx
          rw [interp_cons_cons, if_pos hx.2]
        · rw [← segInt_sum_congr_lo S b.1 E hSb.le (b :: r) (fun x hx => by
            rcases List.mem_cons.mp hx with rfl | hx
            · exact le_refl _
            · exact hs.tail.head_le x hx)]
          rw [← ih b b.1 hs.tail (le_refl _) hbE.le hEl]
          apply integral_congr_Ioo hbEr
          intro x hx
          have : ¬ x < (b.1 : ℝ) := not_lt.mpr hx.1.le
          rw [interp_cons_cons, if_neg this]

end HydroVerif.C14
