/-
C02 — helper lemmas about the object model of `Model/C02Hist.lean` over ℝ (none of these is a property statement):
clipping lands inside the bounds, the three setters keep every stored value inside its slot, the constructors establish
that invariant and every public operation preserves it.
-/
import HydroVerif.Model.C02Hist
import HydroVerif.Lemmas.C02

namespace HydroVerif.C02
open HydroVerif.C01

/-- lower bound ≤ upper bound where both exist -/
def Slot.ok (s : Slot ℝ) : Prop := ∀ l h, s.lo = some l → s.hi = some h → l ≤ h

/-- a stored value respects its slot: NaN only where accepted, a number inside the closed bounds -/
def Slot.holds (s : Slot ℝ) (acceptNan : Bool) : Option ℝ → Prop
  | none => acceptNan = true
  | some x => (∀ l, s.lo = some l → l ≤ x) ∧ (∀ h, s.hi = some h → x ≤ h)

theorem clip_holds (s : Slot ℝ) (hs : s.ok) (acc : Bool) (v : ℝ) : s.holds acc (some (clip s.lo s.hi v)) := by
  unfold Slot.holds clip
  constructor
  · intro l hl
    rcases hlo : s.lo with _ | l' <;> rcases hhi : s.hi with _ | h' <;> simp only [hlo] at hl <;> cases hl
    · simp only
      split_ifs <;> linarith
    · have := hs l h' hlo hhi
      simp only
      split_ifs <;> linarith
  · intro h hh
    rcases hlo : s.lo with _ | l' <;> rcases hhi : s.hi with _ | h' <;> simp only [hhi] at hh <;> cases hh
    · simp only
      split_ifs <;> linarith
    · simp only
      split_ifs <;> linarith

theorem clipO_holds (s : Slot ℝ) (hs : s.ok) (acc : Bool) (x : Option ℝ) (hx : x = none → acc = true) :
    s.holds acc (clipO s.lo s.hi x) := by
  cases x with
  | none => exact hx rfl
  | some v => exact clip_holds s hs acc v

/-- a value already inside the bounds is not moved -/
theorem clip_of_holds (s : Slot ℝ) (acc : Bool) (v : ℝ) (h : s.holds acc (some v)) : clip s.lo s.hi v = v := by
  obtain ⟨h1, h2⟩ := h
  unfold clip
  rcases hlo : s.lo with _ | l' <;> rcases hhi : s.hi with _ | h'
  · rfl
  · have := h2 h' hhi
    simp only
    split_ifs <;> linarith
  · have := h1 l' hlo
    simp only
    split_ifs <;> linarith
  · have a := h1 l' hlo
    have b := h2 h' hhi
    simp only
    split_ifs <;> linarith

/-- every stored value respects its slot, the vector has one value per slot, and the slots are sane -/
structure Vec.Inv (v : Vec ℝ) : Prop where
  all : List.Forall₂ (fun s x => Slot.holds s v.acceptNan x) v.slots v.vals
  ok : ∀ s ∈ v.slots, Slot.ok s

theorem clipAll_holds (slots : List (Slot ℝ)) (acc : Bool) (xs : List (Option ℝ)) (hlen : xs.length = slots.length)
    (hok : ∀ s ∈ slots, Slot.ok s) (hnan : ∀ x ∈ xs, x = none → acc = true) :
    List.Forall₂ (fun s x => Slot.holds s acc x) slots (Vec.clipAll slots xs) := by
  induction slots generalizing xs with
  | nil => cases xs <;> simp [Vec.clipAll]
  | cons s ss ih =>
    cases xs with
    | nil => simp at hlen
    | cons x xt =>
      simp only [Vec.clipAll]
      refine List.Forall₂.cons (clipO_holds s (hok s (by simp)) acc x (hnan x (by simp))) ?_
      exact ih xt (by simpa using hlen) (fun t ht => hok t (by simp [ht])) (fun y hy => hnan y (by simp [hy]))

theorem setIdx_holds (slots : List (Slot ℝ)) (acc : Bool) (vals : List (Option ℝ)) (nm : String) (x : Option ℝ)
    (h : List.Forall₂ (fun s v => Slot.holds s acc v) slots vals) (hok : ∀ s ∈ slots, Slot.ok s)
    (hx : x = none → acc = true) :
    List.Forall₂ (fun s v => Slot.holds s acc v) slots (Vec.setIdx slots vals nm x) := by
  induction h with
  | nil => simp [Vec.setIdx]
  | @cons s v ss vs hsv _ ih =>
    simp only [Vec.setIdx]
    split_ifs
    · exact List.Forall₂.cons (clipO_holds s (hok s (by simp)) acc x hx) (by assumption)
    · exact List.Forall₂.cons hsv (ih (fun t ht => hok t (by simp [ht])))

theorem Vec.setName_inv (v : Vec ℝ) (hv : v.Inv) (nm : String) (x : Option ℝ) (v' : Vec ℝ)
    (h : v.setName nm x = .ok v') : v'.Inv ∧ v'.slots = v.slots ∧ v'.acceptNan = v.acceptNan := by
  unfold Vec.setName at h
  split_ifs at h with h1 h2
  cases h
  refine ⟨⟨?_, hv.ok⟩, rfl, rfl⟩
  refine setIdx_holds v.slots v.acceptNan v.vals nm x hv.all hv.ok ?_
  intro hx
  subst hx
  simpa using h2

theorem Vec.setAll_inv (v : Vec ℝ) (hv : v.Inv) (xs : List (Option ℝ)) (v' : Vec ℝ)
    (h : v.setAll xs = .ok v') : v'.Inv ∧ v'.slots = v.slots ∧ v'.acceptNan = v.acceptNan ∧
      v'.vals = Vec.clipAll v.slots xs := by
  unfold Vec.setAll at h
  split_ifs at h with h1 h2
  cases h
  refine ⟨⟨?_, hv.ok⟩, rfl, rfl, rfl⟩
  refine clipAll_holds v.slots v.acceptNan xs (by simpa using h1) hv.ok ?_
  intro x hx hnone
  subst hnone
  by_contra hc
  apply h2
  simp only [Bool.and_eq_true, List.any_eq_true, Bool.not_eq_eq_eq_not, Bool.not_true]
  exact ⟨⟨none, hx, rfl⟩, by simpa using hc⟩

/-- `reset` never fails on a vector whose defaults are storable -/
theorem Vec.reset_ok (v : Vec ℝ) (hd : ∀ s ∈ v.slots, s.dflt = none → v.acceptNan = true) :
    ∃ v', v.reset = .ok v' := by
  unfold Vec.reset Vec.setAll
  rw [if_neg (by simp)]
  split_ifs with h
  · exfalso
    simp only [Bool.and_eq_true, List.any_eq_true, Bool.not_eq_eq_eq_not, Bool.not_true] at h
    obtain ⟨⟨x, hx, hnone⟩, hacc⟩ := h
    rw [List.mem_map] at hx
    obtain ⟨s, hs, rfl⟩ := hx
    have := hd s hs (by simpa using hnone)
    rw [this] at hacc
    cases hacc
  · exact ⟨_, rfl⟩

theorem Vec.ofSlots_inv (slots : List (Slot ℝ)) (acc : Bool) (hok : ∀ s ∈ slots, Slot.ok s)
    (hd : ∀ s ∈ slots, s.dflt = none → acc = true) : (Vec.ofSlots slots acc).Inv := by
  refine ⟨?_, hok⟩
  refine clipAll_holds slots acc _ (by simp) hok ?_
  intro x hx hnone
  rw [List.mem_map] at hx
  obtain ⟨s, hs, rfl⟩ := hx
  exact hd s hs hnone

/-! ### the object -/

/-- the constructor options passed the guards of the constructor -/
def Ctor.ok (cls : Cls) (c : Ctor ℝ) : Prop :=
  (cls = .BoxCox2 ∨ cls = .BoxCox1lam ∨ cls = .BoxCox1nu ∨ cls = .BoxCox2sym → -3 ≤ c.minilam ∧ c.minilam ≤ 1 + eps) ∧
  (cls = .Log → ∀ b, c.base = some b → 0 < b)

structure Obj.Inv (o : Obj ℝ) : Prop where
  ctor : Ctor.ok o.cls o.ctor
  pslots : o.params.slots = paramSlots o.cls o.ctor
  cslots : o.consts.slots = constSlots o.cls o.ctor
  pacc : o.params.acceptNan = false
  cacc : o.consts.acceptNan = true
  pinv : o.params.Inv
  cinv : o.consts.Inv
  inner : if hasInner o.cls then ∃ b, o.bc = some b ∧ b.slots = bcSlots o.ctor ∧ b.acceptNan = false ∧ b.Inv
          else o.bc = none

theorem eps_le_two : (eps : ℝ) ≤ 2 := by unfold eps; norm_num

theorem bcSlots_ok (c : Ctor ℝ) (h : c.minilam ≤ 1 + eps) : ∀ s ∈ bcSlots c, Slot.ok s := by
  intro s hs
  simp only [bcSlots, List.mem_cons, List.mem_nil_iff, or_false] at hs
  have := eps_le_two
  rcases hs with rfl | rfl
  · intro l h hl hh; cases hh
  · intro l h hl hh
    cases hl; cases hh
    norm_num
    linarith

theorem paramSlots_ok (cls : Cls) (c : Ctor ℝ) (h : Ctor.ok cls c) : ∀ s ∈ paramSlots cls c, Slot.ok s := by
  intro s hs
  have he := eps_le_two
  cases cls <;> simp only [paramSlots, List.mem_cons, or_false, List.not_mem_nil] at hs
  case BoxCox2 => exact bcSlots_ok c (h.1 (Or.inl rfl)).2 s hs
  case BoxCox2sym => exact bcSlots_ok c (h.1 (Or.inr (Or.inr (Or.inr rfl)))).2 s hs
  case BoxCox1lam =>
    subst hs
    intro l hh hl hh'; cases hl; cases hh'
    have := (h.1 (Or.inr (Or.inl rfl))).2
    norm_num; linarith
  all_goals
    rcases hs with rfl | rfl | rfl <;> intro l hh hl hh' <;> cases hl <;> cases hh' <;> norm_num

theorem constSlots_ok (cls : Cls) (c : Ctor ℝ) (h : Ctor.ok cls c) : ∀ s ∈ constSlots cls c, Slot.ok s := by
  intro s hs
  have he := eps_le_two
  cases cls <;> simp only [constSlots, List.mem_cons, or_false, List.not_mem_nil] at hs
  case BoxCox1nu =>
    subst hs
    intro l hh hl hh'; cases hl; cases hh'
    have := (h.1 (Or.inr (Or.inr (Or.inl rfl)))).2
    norm_num; linarith
  all_goals
    subst hs
    intro l hh hl hh'
    cases hh'

theorem paramSlots_dflt (cls : Cls) (c : Ctor ℝ) : ∀ s ∈ paramSlots cls c, s.dflt ≠ none := by
  intro s hs
  cases cls <;> simp only [paramSlots, bcSlots, List.mem_cons, or_false, List.not_mem_nil] at hs
  all_goals
    rcases hs with rfl | rfl | rfl <;> simp

theorem bcSlots_dflt (c : Ctor ℝ) : ∀ s ∈ bcSlots c, s.dflt ≠ none := by
  intro s hs
  simp only [bcSlots, List.mem_cons, List.mem_nil_iff, or_false] at hs
  rcases hs with rfl | rfl <;> simp

theorem bcGuard_ok (c : Ctor ℝ) (h : bcGuard c = .ok ()) : -3 ≤ c.minilam ∧ c.minilam ≤ 1 + eps := by
  unfold bcGuard at h
  split_ifs at h with h1 h2 h3
  constructor
  · norm_num at h1 ⊢
    linarith
  · linarith

theorem build_inv (cls : Cls) (c : Ctor ℝ) (hc : Ctor.ok cls c) : (build cls c).Inv := by
  refine ⟨hc, rfl, rfl, rfl, rfl, ?_, ?_, ?_⟩
  · exact Vec.ofSlots_inv _ _ (paramSlots_ok cls c hc) (fun s hs hn => absurd hn (paramSlots_dflt cls c s hs))
  · exact Vec.ofSlots_inv _ _ (constSlots_ok cls c hc) (fun _ _ _ => rfl)
  · show if hasInner cls = true then _ else _
    by_cases hi : hasInner cls = true
    · rw [if_pos hi]
      refine ⟨Vec.ofSlots (bcSlots c) false, ?_, rfl, rfl, ?_⟩
      · simp [build, hi]
      · have hm : c.minilam ≤ 1 + eps := by
          cases cls <;> simp [hasInner] at hi
          · exact (hc.1 (Or.inr (Or.inl rfl))).2
          · exact (hc.1 (Or.inr (Or.inr (Or.inl rfl)))).2
          · exact (hc.1 (Or.inr (Or.inr (Or.inr rfl)))).2
        exact Vec.ofSlots_inv _ _ (bcSlots_ok c hm) (fun s hs hn => absurd hn (bcSlots_dflt c s hs))
    · rw [if_neg hi]
      simp [build, hi]

theorem ctorGuard_ok (cls : Cls) (c : Ctor ℝ) (u : Unit) (h : ctorGuard cls c = .ok u) : Ctor.ok cls c := by
  cases cls
  case BoxCox2 | BoxCox1lam | BoxCox1nu | BoxCox2sym =>
    exact ⟨fun _ => bcGuard_ok c h, fun hcl => (by cases hcl)⟩
  case Log =>
    refine ⟨fun hcl => (by rcases hcl with h | h | h | h <;> cases h), fun _ b hb => ?_⟩
    simp only [ctorGuard, hb] at h
    split_ifs at h with hle
    exact lt_of_not_ge hle
  all_goals
    exact ⟨fun hcl => (by rcases hcl with h | h | h | h <;> cases h), fun hcl => (by cases hcl)⟩

theorem mk_inv (cls : Cls) (c : Ctor ℝ) (o : Obj ℝ) (h : mk cls c = .ok o) : o.Inv := by
  unfold mk at h
  cases hg : ctorGuard cls c with
  | error e => rw [hg] at h; cases h
  | ok u =>
    rw [hg] at h
    cases h
    exact build_inv cls c (ctorGuard_ok cls c u hg)

theorem setAttr_inv (o : Obj ℝ) (ho : o.Inv) (nm : String) (v : Option ℝ) (o' : Obj ℝ)
    (h : setAttr o nm v = .ok o') : o'.Inv := by
  unfold setAttr at h
  split_ifs at h with h1 h2
  · cases hs : o.params.setName nm v with
    | error e => rw [hs] at h; cases h
    | ok p =>
      rw [hs] at h
      cases h
      obtain ⟨hi, hsl, hac⟩ := Vec.setName_inv o.params ho.pinv nm v p hs
      exact ⟨ho.ctor, hsl.trans ho.pslots, ho.cslots, hac.trans ho.pacc, ho.cacc, hi, ho.cinv, ho.inner⟩
  · cases hs : o.consts.setName nm v with
    | error e => rw [hs] at h; cases h
    | ok p =>
      rw [hs] at h
      cases h
      obtain ⟨hi, hsl, hac⟩ := Vec.setName_inv o.consts ho.cinv nm v p hs
      exact ⟨ho.ctor, ho.pslots, hsl.trans ho.cslots, ho.pacc, hac.trans ho.cacc, ho.pinv, hi, ho.inner⟩
  · cases h; exact ho

theorem setItem_inv (o : Obj ℝ) (ho : o.Inv) (nm : String) (v : Option ℝ) (o' : Obj ℝ)
    (h : setItem o nm v = .ok o') : o'.Inv := by
  have hp : ∀ p, o.params.setName nm v = .ok p → ({ o with params := p } : Obj ℝ).Inv := by
    intro p hs
    obtain ⟨hi, hsl, hac⟩ := Vec.setName_inv o.params ho.pinv nm v p hs
    exact ⟨ho.ctor, hsl.trans ho.pslots, ho.cslots, hac.trans ho.pacc, ho.cacc, hi, ho.cinv, ho.inner⟩
  unfold setItem at h
  split_ifs at h with h1 h2
  · cases hs : o.params.setName nm v with
    | error e => rw [hs] at h; cases h
    | ok p => rw [hs] at h; cases h; exact hp p hs
  · cases hs : o.params.setName nm v with
    | error e => rw [hs] at h; cases h
    | ok p => rw [hs] at h; cases h; exact hp p hs
  · cases hs : o.consts.setName nm v with
    | error e => rw [hs] at h; cases h
    | ok p =>
      rw [hs] at h
      cases h
      obtain ⟨hi, hsl, hac⟩ := Vec.setName_inv o.consts ho.cinv nm v p hs
      exact ⟨ho.ctor, ho.pslots, hsl.trans ho.cslots, ho.pacc, hac.trans ho.cacc, ho.pinv, hi, ho.inner⟩

theorem syncInner_inv (o : Obj ℝ) (ho : o.Inv) (nu lam : ℝ) (o' : Obj ℝ) (h : syncInner o nu lam = .ok o') :
    o'.Inv ∧ o'.cls = o.cls ∧ o'.ctor = o.ctor ∧ o'.params = o.params ∧ o'.consts = o.consts := by
  unfold syncInner at h
  cases hb : o.bc with
  | none => rw [hb] at h; cases h
  | some b =>
    rw [hb] at h
    simp only at h
    cases hs : b.setAll [some nu, some lam] with
    | error e => rw [hs] at h; cases h
    | ok b' =>
      rw [hs] at h
      cases h
      refine ⟨⟨ho.ctor, ho.pslots, ho.cslots, ho.pacc, ho.cacc, ho.pinv, ho.cinv, ?_⟩, rfl, rfl, rfl, rfl⟩
      have hin := ho.inner
      by_cases hi : hasInner o.cls = true
      · simp only [hi, if_true] at hin ⊢
        obtain ⟨b0, hb0, hsl, hac, hinv⟩ := hin
        rw [hb] at hb0
        cases hb0
        obtain ⟨hi', hsl', hac', _⟩ := Vec.setAll_inv b hinv _ b' hs
        exact ⟨b', rfl, hsl'.trans hsl, hac'.trans hac, hi'⟩
      · simp only [hi] at hin
        simp at hin
        rw [hb] at hin
        cases hin

/-! ### one operation, a history -/

/-- a call returns the object itself, or the object after the inner vector was re-synchronised -/
theorem callOp_state (o : Obj ℝ) (jac : Bool) (xs : List ℝ) (o' : Obj ℝ) (ys : List (Option ℝ))
    (h : callOp o jac xs = .ok (o', ys)) : o' = o ∨ ∃ nu lam, syncInner o nu lam = .ok o' := by
  unfold callOp at h
  split at h
  case h_5 | h_6 =>
    split at h
    · cases h
    · rename_i nu
      rename_i lam _ _ _ _
      right
      simp only [bind, Except.bind] at h
      split at h
      · cases h
      · rename_i o2 hs
        split at h
        · simp only [pure, Except.pure, Except.ok.injEq, Prod.mk.injEq] at h
          obtain ⟨rfl, _⟩ := h
          exact ⟨_, _, hs⟩
        · cases h
  case h_7 =>
    right
    simp only [bind, Except.bind] at h
    split at h
    · cases h
    · rename_i o2 hs
      split at h
      · simp only [pure, Except.pure, Except.ok.injEq, Prod.mk.injEq] at h
        obtain ⟨rfl, _⟩ := h
        exact ⟨_, _, hs⟩
      · cases h
  case h_9 | h_12 =>
    split at h
    · cases h
    · simp only [Except.ok.injEq, Prod.mk.injEq] at h
      exact Or.inl h.1.symm
  case h_13 => cases h
  all_goals
    simp only [Except.ok.injEq, Prod.mk.injEq] at h
    exact Or.inl h.1.symm

theorem callOp_inv (o : Obj ℝ) (ho : o.Inv) (jac : Bool) (xs : List ℝ) (o' : Obj ℝ) (ys : List (Option ℝ))
    (h : callOp o jac xs = .ok (o', ys)) : o'.Inv ∧ o'.cls = o.cls ∧ o'.ctor = o.ctor := by
  rcases callOp_state o jac xs o' ys h with rfl | ⟨nu, lam, hs⟩
  · exact ⟨ho, rfl, rfl⟩
  · obtain ⟨hi, hc, hct, _, _⟩ := syncInner_inv o ho nu lam o' hs
    exact ⟨hi, hc, hct⟩

theorem setAttr_same (o : Obj ℝ) (nm : String) (v : Option ℝ) (o' : Obj ℝ) (h : setAttr o nm v = .ok o') :
    o'.cls = o.cls ∧ o'.ctor = o.ctor := by
  unfold setAttr at h
  split_ifs at h
  · cases hs : o.params.setName nm v with
    | error e => rw [hs] at h; cases h
    | ok p => rw [hs] at h; cases h; exact ⟨rfl, rfl⟩
  · cases hs : o.consts.setName nm v with
    | error e => rw [hs] at h; cases h
    | ok p => rw [hs] at h; cases h; exact ⟨rfl, rfl⟩
  · cases h; exact ⟨rfl, rfl⟩

theorem setItem_same (o : Obj ℝ) (nm : String) (v : Option ℝ) (o' : Obj ℝ) (h : setItem o nm v = .ok o') :
    o'.cls = o.cls ∧ o'.ctor = o.ctor := by
  unfold setItem at h
  split_ifs at h
  · cases hs : o.params.setName nm v with
    | error e => rw [hs] at h; cases h
    | ok p => rw [hs] at h; cases h; exact ⟨rfl, rfl⟩
  · cases hs : o.params.setName nm v with
    | error e => rw [hs] at h; cases h
    | ok p => rw [hs] at h; cases h; exact ⟨rfl, rfl⟩
  · cases hs : o.consts.setName nm v with
    | error e => rw [hs] at h; cases h
    | ok p => rw [hs] at h; cases h; exact ⟨rfl, rfl⟩

theorem step_inv' (o : Obj ℝ) (ho : o.Inv) (op : Op ℝ) :
    (step o op).1.Inv ∧ (step o op).1.cls = o.cls ∧ (step o op).1.ctor = o.ctor := by
  cases op with
  | setAttr nm v =>
    simp only [step]
    cases hs : setAttr o nm v with
    | error e => exact ⟨ho, rfl, rfl⟩
    | ok o' => exact ⟨setAttr_inv o ho nm v o' hs, setAttr_same o nm v o' hs⟩
  | setItem nm v =>
    simp only [step]
    cases hs : setItem o nm v with
    | error e => exact ⟨ho, rfl, rfl⟩
    | ok o' => exact ⟨setItem_inv o ho nm v o' hs, setItem_same o nm v o' hs⟩
  | setValues vs =>
    simp only [step]
    cases hs : o.params.setAll vs with
    | error e => exact ⟨ho, rfl, rfl⟩
    | ok p =>
      obtain ⟨hi, hsl, hac, _⟩ := Vec.setAll_inv o.params ho.pinv vs p hs
      exact ⟨⟨ho.ctor, hsl.trans ho.pslots, ho.cslots, hac.trans ho.pacc, ho.cacc, hi, ho.cinv, ho.inner⟩, rfl, rfl⟩
  | reset =>
    simp only [step]
    cases hs : o.params.reset with
    | error e => exact ⟨ho, rfl, rfl⟩
    | ok p =>
      obtain ⟨hi, hsl, hac, _⟩ := Vec.setAll_inv o.params ho.pinv _ p hs
      exact ⟨⟨ho.ctor, hsl.trans ho.pslots, ho.cslots, hac.trans ho.pacc, ho.cacc, hi, ho.cinv, ho.inner⟩, rfl, rfl⟩
  | call jac xs =>
    simp only [step]
    cases hs : callOp o jac xs with
    | error e => exact ⟨ho, rfl, rfl⟩
    | ok r =>
      obtain ⟨o', ys⟩ := r
      exact callOp_inv o ho jac xs o' ys hs

theorem run_inv' (o : Obj ℝ) (ho : o.Inv) (ops : List (Op ℝ)) :
    (run o ops).Inv ∧ (run o ops).cls = o.cls ∧ (run o ops).ctor = o.ctor := by
  induction ops generalizing o with
  | nil => exact ⟨ho, rfl, rfl⟩
  | cons op rest ih =>
    obtain ⟨h1, h2, h3⟩ := step_inv' o ho op
    obtain ⟨g1, g2, g3⟩ := ih (step o op).1 h1
    exact ⟨g1, g2.trans h2, g3.trans h3⟩

/-! ### reading the stored values of a well-formed object -/

theorem forall2_nil_left {β γ : Type} {R : β → γ → Prop} {l : List γ} (h : List.Forall₂ R [] l) : l = [] := by
  cases h; rfl
theorem forall2_one {β γ : Type} {R : β → γ → Prop} {s : β} {l : List γ} (h : List.Forall₂ R [s] l) :
    ∃ x, l = [x] ∧ R s x := by
  cases h with
  | cons h1 h2 => cases h2; exact ⟨_, rfl, h1⟩
theorem forall2_two {β γ : Type} {R : β → γ → Prop} {s t : β} {l : List γ} (h : List.Forall₂ R [s, t] l) :
    ∃ x y, l = [x, y] ∧ R s x ∧ R t y := by
  cases h with
  | cons h1 h2 => obtain ⟨y, rfl, hy⟩ := forall2_one h2; exact ⟨_, _, rfl, h1, hy⟩
theorem forall2_three {β γ : Type} {R : β → γ → Prop} {s t u : β} {l : List γ} (h : List.Forall₂ R [s, t, u] l) :
    ∃ x y z, l = [x, y, z] ∧ R s x ∧ R t y ∧ R u z := by
  cases h with
  | cons h1 h2 => obtain ⟨y, z, rfl, hy, hz⟩ := forall2_two h2; exact ⟨_, _, _, rfl, h1, hy, hz⟩

/-- a stored value of a vector that rejects NaN is a number -/
theorem holds_false {s : Slot ℝ} {x : Option ℝ} (h : s.holds false x) :
    ∃ v, x = some v ∧ (∀ l, s.lo = some l → l ≤ v) ∧ (∀ h, s.hi = some h → v ≤ h) := by
  cases x with
  | none => exact absurd h (by simp [Slot.holds])
  | some v => exact ⟨v, rfl, h⟩

/-! ### what a well-formed object of each class holds, and what a call on it returns -/

theorem consts_nil (o : Obj ℝ) (ho : o.Inv) (h : constSlots o.cls o.ctor = []) : o.consts.vals = [] := by
  have := ho.cinv.all
  rw [ho.cslots, h] at this
  exact forall2_nil_left this

theorem Identity.of_inv (o : Obj ℝ) (ho : o.Inv) (hc : o.cls = .Identity) (jac : Bool) (xs : List ℝ) :
    callOp o jac xs = .ok (o, applyArr (if jac then Identity.jacobian {} else Identity.forward {}) xs) := by
  have hcv := consts_nil o ho (by rw [hc]; rfl)
  have hp := ho.pinv.all
  rw [ho.pslots, hc] at hp
  have hpv := forall2_nil_left hp
  unfold callOp
  rw [hc, hpv, hcv]

theorem Logit.of_inv (o : Obj ℝ) (ho : o.Inv) (hc : o.cls = .Logit) (jac : Bool) (xs : List ℝ) :
    ∃ p : Logit.Params ℝ, Logit.admissible p ∧ o.params.vals = [some p.lower, some p.logdelta] ∧
      callOp o jac xs = .ok (o, applyArr (if jac then Logit.jacobian p else Logit.forward p) xs) := by
  have hcv := consts_nil o ho (by rw [hc]; rfl)
  have hp := ho.pinv.all
  rw [ho.pslots, hc, ho.pacc] at hp
  obtain ⟨a, b, hpv, ha, hb⟩ := forall2_two hp
  obtain ⟨lower, rfl, _, _⟩ := holds_false ha
  obtain ⟨ld, rfl, h1, h2⟩ := holds_false hb
  refine ⟨⟨lower, ld⟩, ⟨h1 _ rfl, h2 _ rfl⟩, hpv, ?_⟩
  unfold callOp
  rw [hc, hpv, hcv]

theorem Log.of_inv (o : Obj ℝ) (ho : o.Inv) (hc : o.cls = .Log) (jac : Bool) (xs : List ℝ) :
    ∃ nu : ℝ, o.ctor.mininu ≤ nu ∧ (∀ b, o.ctor.base = some b → 0 < b) ∧ o.params.vals = [some nu] ∧
      callOp o jac xs = .ok (o, applyArr (if jac then Log.jacobian ⟨nu, o.ctor.base, o.ctor.mininu⟩
        else Log.forward ⟨nu, o.ctor.base, o.ctor.mininu⟩) xs) := by
  have hcv := consts_nil o ho (by rw [hc]; rfl)
  have hp := ho.pinv.all
  rw [ho.pslots, hc, ho.pacc] at hp
  obtain ⟨a, hpv, ha⟩ := forall2_one hp
  obtain ⟨nu, rfl, h1, _⟩ := holds_false ha
  refine ⟨nu, h1 _ rfl, ho.ctor.2 hc, hpv, ?_⟩
  unfold callOp
  rw [hc, hpv, hcv]

theorem BoxCox2.of_inv (o : Obj ℝ) (ho : o.Inv) (hc : o.cls = .BoxCox2) (jac : Bool) (xs : List ℝ) :
    ∃ nu lam : ℝ, o.ctor.mininu ≤ nu ∧ o.ctor.minilam ≤ lam ∧ lam ≤ 3 ∧ o.params.vals = [some nu, some lam] ∧
      callOp o jac xs = .ok (o, applyArr (if jac then BoxCox2.jacobian ⟨nu, lam, o.ctor.mininu⟩
        else BoxCox2.forward ⟨nu, lam, o.ctor.mininu⟩) xs) := by
  have hcv := consts_nil o ho (by rw [hc]; rfl)
  have hp := ho.pinv.all
  rw [ho.pslots, hc, ho.pacc] at hp
  obtain ⟨a, b, hpv, ha, hb⟩ := forall2_two hp
  obtain ⟨nu, rfl, h1, _⟩ := holds_false ha
  obtain ⟨lam, rfl, h2, h3⟩ := holds_false hb
  refine ⟨nu, lam, h1 _ rfl, h2 _ rfl, (by have := h3 _ rfl; norm_num at this; exact this), hpv, ?_⟩
  unfold callOp
  rw [hc, hpv, hcv]

/-- the inner vector after `self.BC.params.values = [nu, lam]` with values inside the (identical) bounds of the inner
object: exactly `[nu, lam]` -/
theorem syncInner_exact (o : Obj ℝ) (ho : o.Inv) (hi : hasInner o.cls = true) (nu lam : ℝ)
    (h1 : o.ctor.mininu ≤ nu) (h2 : o.ctor.minilam ≤ lam) (h3 : lam ≤ 3) :
    ∃ b, o.bc = some b ∧
      syncInner o nu lam = .ok { o with bc := some ⟨bcSlots o.ctor, false, [some nu, some lam]⟩ } := by
  have hin := ho.inner
  rw [if_pos hi] at hin
  obtain ⟨b, hb, hsl, hac, _⟩ := hin
  refine ⟨b, hb, ?_⟩
  unfold syncInner
  rw [hb]
  simp only
  have e1 : clip (some o.ctor.mininu) none nu = nu := by
    unfold clip; simp only; rw [if_neg (by linarith)]
  have e2 : clip (some o.ctor.minilam) (some 3.0) lam = lam := by
    unfold clip; simp only
    have hn : ¬ lam < o.ctor.minilam := by linarith
    rw [if_neg hn, if_neg (by norm_num; linarith)]
  have : b.setAll [some nu, some lam] = .ok ⟨bcSlots o.ctor, false, [some nu, some lam]⟩ := by
    unfold Vec.setAll
    rw [hsl, hac]
    simp [bcSlots, Vec.clipAll, clipO, e1, e2]
  rw [this]
  rfl

theorem BoxCox1lam.of_inv (o : Obj ℝ) (ho : o.Inv) (hc : o.cls = .BoxCox1lam) (jac : Bool) (xs : List ℝ) :
    ∃ (lam : ℝ) (nu : Option ℝ), o.ctor.minilam ≤ lam ∧ lam ≤ 3 ∧ (∀ v, nu = some v → o.ctor.mininu ≤ v) ∧
      o.params.vals = [some lam] ∧ o.consts.vals = [nu] ∧
      callOp o jac xs = match nu with
        | none => .error (.call .nuUnset)
        | some nu => .ok ({ o with bc := some ⟨bcSlots o.ctor, false, [some nu, some lam]⟩ },
            applyArr (if jac then BoxCox2.jacobian ⟨nu, lam, o.ctor.mininu⟩
              else BoxCox2.forward ⟨nu, lam, o.ctor.mininu⟩) xs) := by
  have hp := ho.pinv.all
  rw [ho.pslots, hc, ho.pacc] at hp
  obtain ⟨a, hpv, ha⟩ := forall2_one hp
  obtain ⟨lam, rfl, h2, h3⟩ := holds_false ha
  have hcn := ho.cinv.all
  rw [ho.cslots, hc, ho.cacc] at hcn
  obtain ⟨nu, hcv, hnu⟩ := forall2_one hcn
  have hl3 : lam ≤ 3 := by have := h3 _ rfl; norm_num at this; exact this
  refine ⟨lam, nu, h2 _ rfl, hl3, ?_, hpv, hcv, ?_⟩
  · intro v hv; subst hv; exact hnu.1 _ rfl
  · unfold callOp
    rw [hc, hpv, hcv]
    cases nu with
    | none => rfl
    | some nu =>
      obtain ⟨b, hb, hs⟩ := syncInner_exact o ho (by rw [hc]; rfl) nu lam (hnu.1 _ rfl) (h2 _ rfl) hl3
      rw [hc] at hs
      simp only [bind, Except.bind, hs, pure, Except.pure]

theorem BoxCox1nu.of_inv (o : Obj ℝ) (ho : o.Inv) (hc : o.cls = .BoxCox1nu) (jac : Bool) (xs : List ℝ) :
    ∃ (nu : ℝ) (lam : Option ℝ), o.ctor.mininu ≤ nu ∧ (∀ v, lam = some v → o.ctor.minilam ≤ v ∧ v ≤ 3) ∧
      o.params.vals = [some nu] ∧ o.consts.vals = [lam] ∧
      callOp o jac xs = match lam with
        | none => .error (.call .lamUnset)
        | some lam => .ok ({ o with bc := some ⟨bcSlots o.ctor, false, [some nu, some lam]⟩ },
            applyArr (if jac then BoxCox2.jacobian ⟨nu, lam, o.ctor.mininu⟩
              else BoxCox2.forward ⟨nu, lam, o.ctor.mininu⟩) xs) := by
  have hp := ho.pinv.all
  rw [ho.pslots, hc, ho.pacc] at hp
  obtain ⟨a, hpv, ha⟩ := forall2_one hp
  obtain ⟨nu, rfl, h1, _⟩ := holds_false ha
  have hcn := ho.cinv.all
  rw [ho.cslots, hc, ho.cacc] at hcn
  obtain ⟨lam, hcv, hlam⟩ := forall2_one hcn
  refine ⟨nu, lam, h1 _ rfl, ?_, hpv, hcv, ?_⟩
  · intro v hv; subst hv
    exact ⟨hlam.1 _ rfl, by have := hlam.2 _ rfl; norm_num at this; exact this⟩
  · unfold callOp
    rw [hc, hpv, hcv]
    cases lam with
    | none => rfl
    | some lam =>
      have hl3 : lam ≤ 3 := by have := hlam.2 _ rfl; norm_num at this; exact this
      obtain ⟨b, hb, hs⟩ := syncInner_exact o ho (by rw [hc]; rfl) nu lam (h1 _ rfl) (hlam.1 _ rfl) hl3
      rw [hc] at hs
      simp only [bind, Except.bind, hs, pure, Except.pure]

theorem BoxCox2sym.of_inv (o : Obj ℝ) (ho : o.Inv) (hc : o.cls = .BoxCox2sym) (jac : Bool) (xs : List ℝ) :
    ∃ nu lam : ℝ, o.ctor.mininu ≤ nu ∧ o.ctor.minilam ≤ lam ∧ lam ≤ 3 ∧ o.params.vals = [some nu, some lam] ∧
      callOp o jac xs = .ok ({ o with bc := some ⟨bcSlots o.ctor, false, [some nu, some lam]⟩ },
        applyArr (if jac then BoxCox2sym.jacobian ⟨nu, lam, o.ctor.mininu⟩
          else BoxCox2sym.forward ⟨nu, lam, o.ctor.mininu⟩) xs) := by
  have hcv := consts_nil o ho (by rw [hc]; rfl)
  have hp := ho.pinv.all
  rw [ho.pslots, hc, ho.pacc] at hp
  obtain ⟨a, b, hpv, ha, hb⟩ := forall2_two hp
  obtain ⟨nu, rfl, h1, _⟩ := holds_false ha
  obtain ⟨lam, rfl, h2, h3⟩ := holds_false hb
  have hl3 : lam ≤ 3 := by have := h3 _ rfl; norm_num at this; exact this
  refine ⟨nu, lam, h1 _ rfl, h2 _ rfl, hl3, hpv, ?_⟩
  obtain ⟨b, hb, hs⟩ := syncInner_exact o ho (by rw [hc]; rfl) nu lam (h1 _ rfl) (h2 _ rfl) hl3
  unfold callOp
  rw [hc, hpv, hcv]
  rw [hc] at hs
  simp only [bind, Except.bind, hs, pure, Except.pure]

theorem YeoJohnson.of_inv (o : Obj ℝ) (ho : o.Inv) (hc : o.cls = .YeoJohnson) (jac : Bool) (xs : List ℝ) :
    ∃ p : YeoJohnson.Params ℝ, YeoJohnson.admissible p ∧ o.params.vals = [some p.nu, some p.scale, some p.lam] ∧
      callOp o jac xs = .ok (o, applyArr (if jac then YeoJohnson.jacobian p else YeoJohnson.forward p) xs) := by
  have hcv := consts_nil o ho (by rw [hc]; rfl)
  have hp := ho.pinv.all
  rw [ho.pslots, hc, ho.pacc] at hp
  obtain ⟨a, b, c, hpv, ha, hb, hcc⟩ := forall2_three hp
  obtain ⟨nu, rfl, _, _⟩ := holds_false ha
  obtain ⟨sc, rfl, h1, _⟩ := holds_false hb
  obtain ⟨lam, rfl, h2, h3⟩ := holds_false hcc
  refine ⟨⟨nu, sc, lam⟩, ⟨h1 _ rfl, h2 _ rfl, h3 _ rfl⟩, hpv, ?_⟩
  unfold callOp
  rw [hc, hpv, hcv]

theorem LogSinh.of_inv (o : Obj ℝ) (ho : o.Inv) (hc : o.cls = .LogSinh) (jac : Bool) (xs : List ℝ) :
    ∃ (loga logb : ℝ) (xmax : Option ℝ), (∀ xm, xmax = some xm → LogSinh.admissible ⟨loga, logb, xm⟩) ∧
      o.params.vals = [some loga, some logb] ∧ o.consts.vals = [xmax] ∧
      callOp o jac xs = match xmax with
        | none => .error (.call .xmaxUnset)
        | some xm => .ok (o, applyArr (if jac then LogSinh.jacobian ⟨loga, logb, xm⟩
            else LogSinh.forward ⟨loga, logb, xm⟩) xs) := by
  have hp := ho.pinv.all
  rw [ho.pslots, hc, ho.pacc] at hp
  obtain ⟨a, b, hpv, ha, hb⟩ := forall2_two hp
  obtain ⟨la, rfl, h1, h2⟩ := holds_false ha
  obtain ⟨lb, rfl, h3, h4⟩ := holds_false hb
  have hcn := ho.cinv.all
  rw [ho.cslots, hc, ho.cacc] at hcn
  obtain ⟨xm, hcv, hxm⟩ := forall2_one hcn
  refine ⟨la, lb, xm, ?_, hpv, hcv, ?_⟩
  · intro v hv; subst hv
    exact ⟨h1 _ rfl, h2 _ rfl, h3 _ rfl, h4 _ rfl, hxm.1 _ rfl⟩
  · unfold callOp
    rw [hc, hpv, hcv]
    cases xm <;> rfl

theorem Reciprocal.of_inv (o : Obj ℝ) (ho : o.Inv) (hc : o.cls = .Reciprocal) (jac : Bool) (xs : List ℝ) :
    ∃ nu : ℝ, o.ctor.mininu ≤ nu ∧ o.params.vals = [some nu] ∧
      callOp o jac xs = .ok (o, applyArr (if jac then Reciprocal.jacobian ⟨nu, o.ctor.mininu⟩
        else Reciprocal.forward ⟨nu, o.ctor.mininu⟩) xs) := by
  have hcv := consts_nil o ho (by rw [hc]; rfl)
  have hp := ho.pinv.all
  rw [ho.pslots, hc, ho.pacc] at hp
  obtain ⟨a, hpv, ha⟩ := forall2_one hp
  obtain ⟨nu, rfl, h1, _⟩ := holds_false ha
  refine ⟨nu, h1 _ rfl, hpv, ?_⟩
  unfold callOp
  rw [hc, hpv, hcv]

theorem Sinh.of_inv (o : Obj ℝ) (ho : o.Inv) (hc : o.cls = .Sinh) (jac : Bool) (xs : List ℝ) :
    ∃ p : Sinh.Params ℝ, Sinh.admissible p ∧ o.params.vals = [some p.nu, some p.scale] ∧
      callOp o jac xs = .ok (o, applyArr (if jac then C02.Sinh.jacobianH p else Sinh.forward p) xs) := by
  have hcv := consts_nil o ho (by rw [hc]; rfl)
  have hp := ho.pinv.all
  rw [ho.pslots, hc, ho.pacc] at hp
  obtain ⟨a, b, hpv, ha, hb⟩ := forall2_two hp
  obtain ⟨nu, rfl, _, _⟩ := holds_false ha
  obtain ⟨sc, rfl, h1, _⟩ := holds_false hb
  refine ⟨⟨nu, sc⟩, h1 _ rfl, hpv, ?_⟩
  unfold callOp
  rw [hc, hpv, hcv]

theorem Manly.of_inv (o : Obj ℝ) (ho : o.Inv) (hc : o.cls = .Manly) (jac : Bool) (xs : List ℝ) :
    ∃ (lam : ℝ) (xmax : Option ℝ), (∀ xm, xmax = some xm → Manly.admissible ⟨lam, xm⟩) ∧
      o.params.vals = [some lam] ∧ o.consts.vals = [xmax] ∧
      callOp o jac xs = match xmax with
        | none => .error (.call .xmaxUnset)
        | some xm => .ok (o, applyArr (if jac then Manly.jacobian ⟨lam, xm⟩ else Manly.forward ⟨lam, xm⟩) xs) := by
  have hp := ho.pinv.all
  rw [ho.pslots, hc, ho.pacc] at hp
  obtain ⟨a, hpv, ha⟩ := forall2_one hp
  obtain ⟨lam, rfl, h1, h2⟩ := holds_false ha
  have hcn := ho.cinv.all
  rw [ho.cslots, hc, ho.cacc] at hcn
  obtain ⟨xm, hcv, hxm⟩ := forall2_one hcn
  refine ⟨lam, xm, ?_, hpv, hcv, ?_⟩
  · intro v hv; subst hv
    exact ⟨h1 _ rfl, h2 _ rfl, hxm.1 _ rfl⟩
  · unfold callOp
    rw [hc, hpv, hcv]
    cases xm <;> rfl

end HydroVerif.C02
