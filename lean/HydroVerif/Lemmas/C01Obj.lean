/-
C01 — helper lemmas about the object model (`Model/C01Obj.lean`) over ℝ: clipping lands inside the bounds and is the
identity on them, assignments keep `VSpec.Ok`, every operation keeps `TObj.Inv` and the specification of the object.
(None of these is a property statement; the property theorems that use them are in `Props/C01.lean`.)
-/
import HydroVerif.Model.C01Obj
import HydroVerif.Lemmas.C01Real

namespace HydroVerif.C01

/-! ### clipping -/

theorem clipv_inBounds (s : SlotSpec ℝ) (hwf : ∀ l h, s.lo = some l → s.hi = some h → l ≤ h) (v : ℝ) :
    inBounds s (clipv s.lo s.hi v) := by
  unfold inBounds clipv
  rcases hlo : s.lo with _ | l <;> rcases hhi : s.hi with _ | h <;> simp only [] <;>
    refine ⟨fun l' hl' => ?_, fun h' hh' => ?_⟩ <;> simp_all <;>
    (try subst_vars) <;> (try split_ifs) <;> (try linarith)

theorem clipv_of_inBounds (s : SlotSpec ℝ) (v : ℝ) (h : inBounds s v) : clipv s.lo s.hi v = v := by
  obtain ⟨h1, h2⟩ := h
  unfold clipv
  rcases hlo : s.lo with _ | l <;> rcases hhi : s.hi with _ | hh <;> simp only []
  · have := h2 hh hhi
    rw [if_neg (not_lt.mpr this)]
  · have := h1 l hlo
    rw [if_neg (not_lt.mpr this)]
  · have a := h1 l hlo
    have b := h2 hh hhi
    rw [if_neg (not_lt.mpr a), if_neg (not_lt.mpr b)]

theorem clipOpt_ok (nanOk : Bool) (s : SlotSpec ℝ) (hwf : ∀ l h, s.lo = some l → s.hi = some h → l ≤ h)
    (v : Option ℝ) (hn : nanOk = false → v ≠ none) : okSlot nanOk s (clipOpt s v) := by
  cases v with
  | none =>
    cases nanOk with
    | true => rfl
    | false => exact absurd rfl (hn rfl)
  | some x => exact clipv_inBounds s hwf x

theorem clipAll_ok (nanOk : Bool) : ∀ (slots : List (SlotSpec ℝ)) (vs : List (Option ℝ)),
    (∀ s ∈ slots, ∀ l h, s.lo = some l → s.hi = some h → l ≤ h) → vs.length = slots.length →
    (nanOk = false → ∀ v ∈ vs, v ≠ none) → okVals nanOk slots (clipAll slots vs)
  | [], [], _, _, _ => trivial
  | [], _ :: _, _, hl, _ => by simp at hl
  | _ :: _, [], _, hl, _ => by simp at hl
  | s :: ss, v :: vs, hwf, hl, hn => by
    refine ⟨clipOpt_ok nanOk s (hwf s (List.mem_cons_self ..)) v (fun h => hn h v (List.mem_cons_self ..)), ?_⟩
    exact clipAll_ok nanOk ss vs (fun s' hs' => hwf s' (List.mem_cons_of_mem _ hs')) (by simpa using hl)
      (fun h v' hv' => hn h v' (List.mem_cons_of_mem _ hv'))

theorem clipAll_id (nanOk : Bool) : ∀ (slots : List (SlotSpec ℝ)) (vs : List (Option ℝ)),
    okVals nanOk slots vs → clipAll slots vs = vs
  | [], [], _ => rfl
  | [], _ :: _, h => by simp [okVals] at h
  | _ :: _, [], h => by simp [okVals] at h
  | s :: ss, v :: vs, h => by
    obtain ⟨h1, h2⟩ := h
    simp only [clipAll, clipAll_id nanOk ss vs h2]
    congr 1
    cases v with
    | none => rfl
    | some x => simp only [clipOpt, Option.map_some]; rw [clipv_of_inBounds s x h1]

theorem okVals_length (nanOk : Bool) : ∀ (slots : List (SlotSpec ℝ)) (vs : List (Option ℝ)),
    okVals nanOk slots vs → vs.length = slots.length
  | [], [], _ => rfl
  | [], _ :: _, h => by simp [okVals] at h
  | _ :: _, [], h => by simp [okVals] at h
  | _ :: ss, _ :: vs, h => by simp [okVals_length nanOk ss vs h.2]

theorem okVals_noNaN : ∀ (slots : List (SlotSpec ℝ)) (vs : List (Option ℝ)),
    okVals false slots vs → ∀ v ∈ vs, v ≠ none
  | [], [], _ => by simp
  | [], _ :: _, h => by simp [okVals] at h
  | _ :: _, [], h => by simp [okVals] at h
  | _ :: ss, v :: vs, h => by
    intro v' hv'
    rcases List.mem_cons.mp hv' with rfl | hm
    · intro h0; subst h0; exact absurd h.1 (by simp [okSlot])
    · exact okVals_noNaN ss vs h.2 v' hm

theorem setAt_ok (nanOk : Bool) (k : String) (x : Option ℝ) (hn : nanOk = false → x ≠ none) :
    ∀ (slots : List (SlotSpec ℝ)) (vals l : List (Option ℝ)),
    (∀ s ∈ slots, ∀ l h, s.lo = some l → s.hi = some h → l ≤ h) → okVals nanOk slots vals →
    setAt slots vals k x = some l → okVals nanOk slots l
  | [], [], _, _, _, h => by simp [setAt] at h
  | [], _ :: _, _, _, _, h => by simp [setAt] at h
  | _ :: _, [], _, _, _, h => by simp [setAt] at h
  | s :: ss, v :: vs, l, hwf, hok, h => by
    simp only [setAt] at h
    split_ifs at h with hk
    · cases h
      exact ⟨clipOpt_ok nanOk s (hwf s (List.mem_cons_self ..)) x hn, hok.2⟩
    · rcases hr : setAt ss vs k x with _ | l'
      · simp [hr] at h
      · simp only [hr, Option.map_some, Option.some.injEq] at h
        subst h
        exact ⟨hok.1, setAt_ok nanOk k x hn ss vs l' (fun s' hs' => hwf s' (List.mem_cons_of_mem _ hs')) hok.2 hr⟩

/-! ### assignments keep the Vector invariant -/

theorem VSpec.setValues_ok (sp : VSpec ℝ) (hwf : sp.WF) (vs l : List (Option ℝ)) (h : sp.setValues vs = .ok l) :
    sp.Ok l := by
  unfold VSpec.setValues at h
  split_ifs at h with h1 h2
  cases h
  refine clipAll_ok sp.acceptNan sp.slots vs hwf (by simpa using h1) ?_
  intro hf v hv h0
  apply h2
  subst h0
  simp only [hf, Bool.not_false, Bool.true_and, List.any_eq_true]
  exact ⟨none, hv, rfl⟩

theorem VSpec.setName_ok (sp : VSpec ℝ) (hwf : sp.WF) (vals l : List (Option ℝ)) (k : String) (x : Option ℝ)
    (hok : sp.Ok vals) (h : sp.setName vals k x = .ok l) : sp.Ok l := by
  unfold VSpec.setName at h
  split_ifs at h with h1 h2
  rcases hr : setAt sp.slots vals k x with _ | l'
  · simp [hr] at h
  · simp only [hr, Except.ok.injEq] at h
    subst h
    refine setAt_ok sp.acceptNan k x ?_ sp.slots vals l' hwf hok hr
    intro hf h0
    apply h2
    subst h0
    simp [hf]

/-- a vector that satisfies the invariant is accepted by `values =` and stored unchanged (no clipping) -/
theorem VSpec.setValues_of_ok (sp : VSpec ℝ) (vs : List (Option ℝ)) (hok : sp.Ok vs) (hn : ∀ v ∈ vs, v ≠ none) :
    sp.setValues vs = .ok vs := by
  unfold VSpec.setValues
  have hl := okVals_length _ _ _ hok
  rw [if_neg (by simpa using hl)]
  have : (vs.any Option.isNone) = false := by
    rw [List.any_eq_false]
    intro v hv
    cases v with
    | none => exact absurd rfl (hn none hv)
    | some _ => simp
  rw [this]
  simp only [Bool.and_false, Bool.false_eq_true, if_false]
  rw [clipAll_id _ _ _ hok]

/-! ### every operation keeps the object invariant and the specification -/

theorem TObj.setP_inv (o : TObj ℝ) (r : Except SetErr (List (Option ℝ))) (h : o.Inv)
    (hr : ∀ l, r = .ok l → o.pspec.Ok l) : (o.setP r).1.Inv := by
  obtain ⟨a, b, c, d, e, f⟩ := h
  unfold TObj.setP assign
  cases r with
  | ok l => exact ⟨a, b, c, hr l rfl, e, f⟩
  | error _ => exact ⟨a, b, c, d, e, f⟩

theorem TObj.setC_inv (o : TObj ℝ) (r : Except SetErr (List (Option ℝ))) (h : o.Inv)
    (hr : ∀ l, r = .ok l → o.cspec.Ok l) : (o.setC r).1.Inv := by
  obtain ⟨a, b, c, d, e, f⟩ := h
  unfold TObj.setC assign
  cases r with
  | ok l => exact ⟨a, b, c, d, hr l rfl, f⟩
  | error _ => exact ⟨a, b, c, d, e, f⟩

theorem TObj.setP_spec (o : TObj ℝ) (r : Except SetErr (List (Option ℝ))) : o.sameSpec (o.setP r).1 := by
  unfold TObj.setP assign TObj.sameSpec
  cases r <;> simp

theorem TObj.setC_spec (o : TObj ℝ) (r : Except SetErr (List (Option ℝ))) : o.sameSpec (o.setC r).1 := by
  unfold TObj.setC assign TObj.sameSpec
  cases r <;> simp

/-- a refused assignment returns the object itself -/
theorem TObj.setP_rejected (o : TObj ℝ) (r : Except SetErr (List (Option ℝ))) (e : SetErr)
    (h : (o.setP r).2 = .rejected e) : (o.setP r).1 = o := by
  unfold TObj.setP assign at h ⊢
  cases r with
  | ok l => simp at h
  | error _ => rfl

theorem TObj.setC_rejected (o : TObj ℝ) (r : Except SetErr (List (Option ℝ))) (e : SetErr)
    (h : (o.setC r).2 = .rejected e) : (o.setC r).1 = o := by
  unfold TObj.setC assign at h ⊢
  cases r with
  | ok l => simp at h
  | error _ => rfl

theorem TObj.setP_not_raised (o : TObj ℝ) (r : Except SetErr (List (Option ℝ))) (e : Err) :
    (o.setP r).2 ≠ .raised e := by
  unfold TObj.setP assign
  cases r <;> simp

theorem TObj.setC_not_raised (o : TObj ℝ) (r : Except SetErr (List (Option ℝ))) (e : Err) :
    (o.setC r).2 ≠ .raised e := by
  unfold TObj.setC assign
  cases r <;> simp

/-! ### method calls: the only state a call touches is the inner BoxCox2 of the delegating classes -/

theorem TObj.evalWith_cases (cens : (ℝ → Option ℝ) → (ℝ → Option ℝ) → ℝ → ℝ → Option ℝ) (o : TObj ℝ) (m : Method)
    (c : ℝ) (xs : List ℝ) :
    (o.evalWith cens m c xs).1 = o ∨
    ∃ vs iv vals, o.ispec.setValues vs = .ok iv ∧ o.evalWith cens m c xs = ({ o with ivals := iv }, .values vals) := by
  unfold TObj.evalWith
  repeat' split
  all_goals first
    | (left; rfl)
    | (right; exact ⟨_, _, _, ‹_›, rfl⟩)

theorem TObj.evalWith_inv (cens : (ℝ → Option ℝ) → (ℝ → Option ℝ) → ℝ → ℝ → Option ℝ) (o : TObj ℝ) (m : Method)
    (c : ℝ) (xs : List ℝ) (h : o.Inv) : (o.evalWith cens m c xs).1.Inv := by
  rcases TObj.evalWith_cases cens o m c xs with h1 | ⟨vs, iv, vals, hs, he⟩
  · rw [h1]; exact h
  · rw [he]
    obtain ⟨a, b, c', d, e, _⟩ := h
    exact ⟨a, b, c', d, e, VSpec.setValues_ok o.ispec c' vs iv hs⟩

theorem TObj.evalWith_spec (cens : (ℝ → Option ℝ) → (ℝ → Option ℝ) → ℝ → ℝ → Option ℝ) (o : TObj ℝ) (m : Method)
    (c : ℝ) (xs : List ℝ) : o.sameSpec (o.evalWith cens m c xs).1 := by
  rcases TObj.evalWith_cases cens o m c xs with h1 | ⟨vs, iv, vals, _, he⟩
  · rw [h1]; simp [TObj.sameSpec]
  · rw [he]; simp [TObj.sameSpec]

/-- a call never changes a parameter or a constant -/
theorem TObj.evalWith_frame (cens : (ℝ → Option ℝ) → (ℝ → Option ℝ) → ℝ → ℝ → Option ℝ) (o : TObj ℝ) (m : Method)
    (c : ℝ) (xs : List ℝ) : (o.evalWith cens m c xs).1.pvals = o.pvals ∧ (o.evalWith cens m c xs).1.cvals = o.cvals := by
  rcases TObj.evalWith_cases cens o m c xs with h1 | ⟨vs, iv, vals, _, he⟩
  · rw [h1]; exact ⟨rfl, rfl⟩
  · rw [he]; exact ⟨rfl, rfl⟩

/-- a call that raises (or whose inner assignment is refused) leaves the object as it was -/
theorem TObj.evalWith_refused (cens : (ℝ → Option ℝ) → (ℝ → Option ℝ) → ℝ → ℝ → Option ℝ) (o : TObj ℝ) (m : Method)
    (c : ℝ) (xs : List ℝ) (h : ∀ vals, (o.evalWith cens m c xs).2 ≠ .values vals) : (o.evalWith cens m c xs).1 = o := by
  rcases TObj.evalWith_cases cens o m c xs with h1 | ⟨vs, iv, vals, _, he⟩
  · exact h1
  · exact absurd (by rw [he]) (h vals)

/-! ### one operation, and histories -/

theorem TObj.stepWith_inv (cens : (ℝ → Option ℝ) → (ℝ → Option ℝ) → ℝ → ℝ → Option ℝ) (o : TObj ℝ) (op : TOp ℝ)
    (h : o.Inv) : (o.stepWith cens op).1.Inv := by
  have hp := h.1
  have hc := h.2.1
  have hpo := h.2.2.2.1
  have hco := h.2.2.2.2.1
  cases op with
  | setAttr k v =>
    simp only [TObj.stepWith]
    split_ifs
    · exact TObj.setP_inv o _ h fun l hl => VSpec.setName_ok _ hp _ _ _ _ hpo hl
    · exact TObj.setC_inv o _ h fun l hl => VSpec.setName_ok _ hc _ _ _ _ hco hl
    · exact h
  | setItem k v =>
    simp only [TObj.stepWith]
    split_ifs
    · exact TObj.setP_inv o _ h fun l hl => VSpec.setName_ok _ hp _ _ _ _ hpo hl
    · exact TObj.setP_inv o _ h fun l hl => VSpec.setName_ok _ hp _ _ _ _ hpo hl
    · exact TObj.setC_inv o _ h fun l hl => VSpec.setName_ok _ hc _ _ _ _ hco hl
  | setPItem k v => exact TObj.setP_inv o _ h fun l hl => VSpec.setName_ok _ hp _ _ _ _ hpo hl
  | setCItem k v => exact TObj.setC_inv o _ h fun l hl => VSpec.setName_ok _ hc _ _ _ _ hco hl
  | setPValues vs => exact TObj.setP_inv o _ h fun l hl => VSpec.setValues_ok _ hp _ _ hl
  | setCValues vs => exact TObj.setC_inv o _ h fun l hl => VSpec.setValues_ok _ hc _ _ hl
  | reset => exact TObj.setP_inv o _ h fun l hl => VSpec.setValues_ok _ hp _ _ hl
  | call m c xs => exact TObj.evalWith_inv cens o m c xs h

theorem TObj.stepWith_spec (cens : (ℝ → Option ℝ) → (ℝ → Option ℝ) → ℝ → ℝ → Option ℝ) (o : TObj ℝ) (op : TOp ℝ) :
    o.sameSpec (o.stepWith cens op).1 := by
  cases op with
  | setAttr k v =>
    simp only [TObj.stepWith]
    split_ifs
    · exact TObj.setP_spec o _
    · exact TObj.setC_spec o _
    · simp [TObj.sameSpec]
  | setItem k v =>
    simp only [TObj.stepWith]
    split_ifs
    · exact TObj.setP_spec o _
    · exact TObj.setP_spec o _
    · exact TObj.setC_spec o _
  | setPItem k v => exact TObj.setP_spec o _
  | setCItem k v => exact TObj.setC_spec o _
  | setPValues vs => exact TObj.setP_spec o _
  | setCValues vs => exact TObj.setC_spec o _
  | reset => exact TObj.setP_spec o _
  | call m c xs => exact TObj.evalWith_spec cens o m c xs

theorem TObj.sameSpec_trans {a b c : TObj ℝ} (h1 : a.sameSpec b) (h2 : b.sameSpec c) : a.sameSpec c := by
  obtain ⟨a1, a2, a3, a4, a5, a6⟩ := h1
  obtain ⟨b1, b2, b3, b4, b5, b6⟩ := h2
  exact ⟨b1.trans a1, b2.trans a2, b3.trans a3, b4.trans a4, b5.trans a5, b6.trans a6⟩

theorem TObj.runWith_inv (cens : (ℝ → Option ℝ) → (ℝ → Option ℝ) → ℝ → ℝ → Option ℝ) :
    ∀ (ops : List (TOp ℝ)) (o : TObj ℝ), o.Inv → (TObj.runWith cens o ops).1.Inv
  | [], _, h => h
  | op :: ops, o, h => by
    simp only [TObj.runWith]
    exact TObj.runWith_inv cens ops _ (TObj.stepWith_inv cens o op h)

theorem TObj.runWith_spec (cens : (ℝ → Option ℝ) → (ℝ → Option ℝ) → ℝ → ℝ → Option ℝ) :
    ∀ (ops : List (TOp ℝ)) (o : TObj ℝ), o.sameSpec (TObj.runWith cens o ops).1
  | [], _ => by simp [TObj.runWith, TObj.sameSpec]
  | op :: ops, o => by
    simp only [TObj.runWith]
    exact TObj.sameSpec_trans (TObj.stepWith_spec cens o op) (TObj.runWith_spec cens ops _)

/-! ### shapes: what `okVals` says for the short slot lists of the catalogue -/

theorem okVals_nil (nanOk : Bool) (vs : List (Option ℝ)) : okVals nanOk [] vs ↔ vs = [] := by
  cases vs <;> simp [okVals]

theorem okVals_cons (nanOk : Bool) (s : SlotSpec ℝ) (ss : List (SlotSpec ℝ)) (vs : List (Option ℝ)) :
    okVals nanOk (s :: ss) vs ↔ ∃ v rest, vs = v :: rest ∧ okSlot nanOk s v ∧ okVals nanOk ss rest := by
  cases vs with
  | nil => simp [okVals]
  | cons v rest => simp [okVals]

theorem okSlot_false (s : SlotSpec ℝ) (v : Option ℝ) : okSlot false s v ↔ ∃ x, v = some x ∧ inBounds s x := by
  cases v <;> simp [okSlot]

theorem okSlot_true (s : SlotSpec ℝ) (v : Option ℝ) : okSlot true s v ↔ ∀ x, v = some x → inBounds s x := by
  cases v <;> simp [okSlot]

end HydroVerif.C01
