/-
C16 — the model in rounded arithmetic.

`Rounding` is a rounding operator on an ordered field: monotone, idempotent (its fixed points are the representable
numbers), exact on the naturals `0 .. N`. IEEE-754 round-to-nearest on the finite doubles is such an operator
(`N = 2^53`, relative error `u = 2^-53` away from underflow); so is the identity (`u = 0`). `Fl r` is the type of
representable numbers with `+ - * /` rounded after each operation, the order of the field and the conversions of
`C07.Trunc`: the generic text of `Model/C16.lean` instantiates at `Fl r` exactly as it does at `Float`, and what is
proved here about that instance are statements about ranges, order and exact integer counts — true of the
floating-point computation itself, not only of exact arithmetic.
-/
import HydroVerif.Lemmas.C16
import Mathlib.Algebra.Order.Ring.Abs
import Mathlib.Algebra.Order.BigOperators.Group.List
import Mathlib.Order.Monotone.Basic

set_option linter.unusedSectionVars false

namespace HydroVerif.C16
open HydroVerif.C07

/-- a rounding operator -/
structure Rounding (α : Type) [Field α] [LinearOrder α] [IsStrictOrderedRing α] where
  rnd : α → α
  mono : Monotone rnd
  idem : ∀ x, rnd (rnd x) = rnd x
  /-- the naturals `0 .. N` are representable -/
  N : ℕ
  nat_exact : ∀ n : ℕ, n ≤ N → rnd (n : α) = n
  one_le_N : 1 ≤ N

variable {α : Type} [Field α] [LinearOrder α] [IsStrictOrderedRing α] [FloorRing α]

/-- the representable numbers of a rounding operator -/
structure Fl (r : Rounding α) where
  val : α
  rep : r.rnd val = val

namespace Fl
variable {r : Rounding α}

theorem val_injective : Function.Injective (Fl.val : Fl r → α) := by
  intro a b h
  cases a; cases b
  cases h
  rfl

/-- round a field element into the representable numbers -/
def ofField (x : α) : Fl r := ⟨r.rnd x, r.idem x⟩

instance : Add (Fl r) := ⟨fun a b => ofField (a.val + b.val)⟩
instance : Sub (Fl r) := ⟨fun a b => ofField (a.val - b.val)⟩
instance : Mul (Fl r) := ⟨fun a b => ofField (a.val * b.val)⟩
instance : Div (Fl r) := ⟨fun a b => ofField (a.val / b.val)⟩
instance : OfNat (Fl r) 0 := ⟨ofField 0⟩
instance : OfNat (Fl r) 1 := ⟨ofField 1⟩
instance : LinearOrder (Fl r) := LinearOrder.lift' Fl.val val_injective

/-- `(double) n` rounds; the two conversions to integers read the value -/
instance : C07.Trunc (Fl r) where
  ofInt n := ofField (n : α)
  truncToInt x := if 0 ≤ x.val then ⌊x.val⌋ else ⌈x.val⌉
  floorToInt x := ⌊x.val⌋

@[simp] theorem add_val (a b : Fl r) : (a + b).val = r.rnd (a.val + b.val) := rfl
@[simp] theorem mul_val (a b : Fl r) : (a * b).val = r.rnd (a.val * b.val) := rfl
@[simp] theorem sub_val (a b : Fl r) : (a - b).val = r.rnd (a.val - b.val) := rfl
@[simp] theorem div_val (a b : Fl r) : (a / b).val = r.rnd (a.val / b.val) := rfl
theorem lt_iff (a b : Fl r) : a < b ↔ a.val < b.val := Iff.rfl
theorem le_iff (a b : Fl r) : a ≤ b ↔ a.val ≤ b.val := Iff.rfl

theorem rnd_natCast (n : ℕ) (h : n ≤ r.N) : r.rnd (n : α) = n := r.nat_exact n h

theorem rnd_zero : r.rnd 0 = 0 := by
  have := r.nat_exact 0 (Nat.zero_le _)
  simpa using this

theorem rnd_one : r.rnd 1 = 1 := by
  have := r.nat_exact 1 r.one_le_N
  simpa using this

theorem rnd_nonneg {x : α} (h : 0 ≤ x) : 0 ≤ r.rnd x := by
  have := r.mono h
  rwa [rnd_zero] at this

@[simp] theorem zero_val : (0 : Fl r).val = 0 := by
  have := r.nat_exact 0 (Nat.zero_le _)
  show r.rnd 0 = 0
  simpa using this

@[simp] theorem one_val : (1 : Fl r).val = 1 := by
  have := r.nat_exact 1 r.one_le_N
  show r.rnd 1 = 1
  simpa using this

theorem ofInt_natCast_val (n : ℕ) (h : n ≤ r.N) : (C07.Trunc.ofInt (n : Int) : Fl r).val = n := by
  show r.rnd (((n : Int) : α)) = n
  rw [Int.cast_natCast]
  exact r.nat_exact n h

end Fl

/-! ### locating a point in rounded arithmetic: monotone in each coordinate -/

section Locate
variable {r : Rounding α}

/-- `(long long) floor((x - lo) / csz)` computed with rounded `-` and `/` is non-decreasing in `x` when `csz > 0` -/
theorem floorToInt_offset_mono (lo csz : Fl r) (hcsz : 0 < csz.val) {x x' : Fl r} (h : x.val ≤ x'.val) :
    (C07.Trunc.floorToInt ((x - lo) / csz) : Int) ≤ C07.Trunc.floorToInt ((x' - lo) / csz) := by
  show ⌊((x - lo) / csz).val⌋ ≤ ⌊((x' - lo) / csz).val⌋
  apply Int.floor_le_floor
  rw [Fl.div_val, Fl.div_val, Fl.sub_val, Fl.sub_val]
  apply r.mono
  apply div_le_div_of_nonneg_right _ hcsz.le
  apply r.mono
  linarith

theorem coord2cell_rounded_mono_aux (g : Geom (Fl r)) (hcsz : 0 < g.csz.val) {x x' y y' : Fl r}
    (hx : x.val ≤ x'.val) (hy : y.val ≤ y'.val) (h : 0 ≤ coord2cell g x y) (h' : 0 ≤ coord2cell g x' y') :
    colOf g.ncols (coord2cell g x y) ≤ colOf g.ncols (coord2cell g x' y') ∧
    rowOf g.ncols (coord2cell g x' y') ≤ rowOf g.ncols (coord2cell g x y) := by
  have mx := floorToInt_offset_mono g.xll g.csz hcsz hx
  have my := floorToInt_offset_mono g.yll g.csz hcsz hy
  unfold coord2cell at h h' ⊢
  simp only [] at h h' ⊢
  generalize C07.Trunc.floorToInt ((x - g.xll) / g.csz) = nx at *
  generalize C07.Trunc.floorToInt ((x' - g.xll) / g.csz) = nx' at *
  generalize C07.Trunc.floorToInt ((y - g.yll) / g.csz) = fy at *
  generalize C07.Trunc.floorToInt ((y' - g.yll) / g.csz) = fy' at *
  unfold cellOfNxNy at h h' ⊢
  split at h
  · omega
  · split at h'
    · omega
    · rename_i h1 h2
      rw [if_neg h1, if_neg h2]
      have a1 := colOf_cellOf (ncols := g.ncols) (row := g.nrows - 1 - fy) (col := nx) (by omega) (by omega) (by omega)
      have a2 := colOf_cellOf (ncols := g.ncols) (row := g.nrows - 1 - fy') (col := nx') (by omega) (by omega) (by omega)
      have b1 := rowOf_cellOf (ncols := g.ncols) (row := g.nrows - 1 - fy) (col := nx) (by omega) (by omega) (by omega)
      have b2 := rowOf_cellOf (ncols := g.ncols) (row := g.nrows - 1 - fy') (col := nx') (by omega) (by omega) (by omega)
      unfold cellOf at a1 a2 b1 b2
      rw [a1, a2, b1, b2]
      omega

end Locate

/-! ### the accumulate loop of `c_intersect` in rounded arithmetic -/

section RepAdd
variable {r : Rounding α}

theorem repAdd_succ_val (af : Fl r) (n : Nat) :
    (repAdd af (n + 1)).val = r.rnd ((repAdd af n).val + af.val) := rfl

/-- with a non-negative area factor the weight never decreases when one more centre is counted, and is at least
the area factor -/
theorem repAdd_val_mono (af : Fl r) (h0 : 0 ≤ af.val) (n : Nat) :
    (repAdd af n).val ≤ (repAdd af (n + 1)).val := by
  rw [repAdd_succ_val]
  calc (repAdd af n).val = r.rnd (repAdd af n).val := (repAdd af n).rep.symm
    _ ≤ r.rnd ((repAdd af n).val + af.val) := r.mono (by linarith)

theorem repAdd_val_ge (af : Fl r) (h0 : 0 ≤ af.val) (n : Nat) : af.val ≤ (repAdd af n).val := by
  induction n with
  | zero => exact le_refl _
  | succ n ih => exact le_trans ih (repAdd_val_mono af h0 n)

theorem repAdd_val_monotone (af : Fl r) (h0 : 0 ≤ af.val) {m n : Nat} (h : m ≤ n) :
    (repAdd af m).val ≤ (repAdd af n).val := by
  induction h with
  | refl => exact le_refl _
  | step _ ih => exact le_trans ih (repAdd_val_mono af h0 _)

/-- the accumulated rounding error of `n` additions: with a relative error `u` per operation the weight of a cell
holding `n + 1` centres is within `((1+u)^n - 1) (n+1) af` of `(n+1) af` -/
theorem repAdd_val_error (af : Fl r) (h0 : 0 ≤ af.val) {u : α} (hu : 0 ≤ u)
    (herr : ∀ x, |r.rnd x - x| ≤ u * |x|) (n : Nat) :
    |(repAdd af n).val - ((n : α) + 1) * af.val| ≤ ((1 + u) ^ n - 1) * (((n : α) + 1) * af.val) := by
  induction n with
  | zero => simp [repAdd]
  | succ n ih =>
    have hw : 0 ≤ (repAdd af n).val := le_trans h0 (repAdd_val_ge af h0 n)
    have hp : (1 : α) ≤ (1 + u) ^ n := one_le_pow₀ (by linarith)
    have hna : 0 ≤ ((n : α) + 1) * af.val := mul_nonneg (by positivity) h0
    set w := (repAdd af n).val with hwdef
    set a := af.val with hadef
    set E := ((1 + u) ^ n - 1) * (((n : α) + 1) * a) with hE
    have hE0 : 0 ≤ E := mul_nonneg (by linarith) hna
    have hwle : w ≤ ((n : α) + 1) * a + E := by
      have := (abs_le.1 ih).2
      linarith
    have h1 : |r.rnd (w + a) - (w + a)| ≤ u * (w + a) := by
      have := herr (w + a)
      rwa [abs_of_nonneg (by linarith : 0 ≤ w + a)] at this
    rw [repAdd_succ_val]
    have hsplit : r.rnd (w + a) - (((n + 1 : ℕ) : α) + 1) * a =
        (r.rnd (w + a) - (w + a)) + (w - ((n : α) + 1) * a) := by
      push_cast; ring
    rw [hsplit]
    refine le_trans (abs_add_le _ _) ?_
    have hstep : |r.rnd (w + a) - (w + a)| + |w - ((n : α) + 1) * a| ≤
        u * (((n : α) + 1) * a + E + a) + E := by
      have : u * (w + a) ≤ u * (((n : α) + 1) * a + E + a) := mul_le_mul_of_nonneg_left (by linarith) hu
      linarith
    refine le_trans hstep ?_
    -- E ≤ ((1+u)^n - 1) (n+2) a
    have hE' : E ≤ ((1 + u) ^ n - 1) * (((n : α) + 2) * a) := by
      rw [hE]
      apply mul_le_mul_of_nonneg_left _ (by linarith)
      nlinarith
    have hgoal : ((1 + u) ^ (n + 1) - 1) * ((((n + 1 : ℕ) : α) + 1) * a) =
        (1 + u) * (((1 + u) ^ n - 1) * (((n : α) + 2) * a)) + u * (((n : α) + 2) * a) := by
      push_cast; ring
    rw [hgoal]
    have : u * (((n : α) + 1) * a + E + a) + E = (1 + u) * E + u * (((n : α) + 2) * a) := by ring
    rw [this]
    have := mul_le_mul_of_nonneg_left hE' (by linarith : (0 : α) ≤ 1 + u)
    linarith

end RepAdd

/-! ### the count vector of `c_voronoi` in rounded arithmetic: counts are exact -/

section GenericIncr
variable {β : Type} [Add β] [OfNat β 1]

theorem incr_length' (ws : List β) (j : Nat) : (incr ws j).length = ws.length := by
  induction ws generalizing j with
  | nil => rfl
  | cons w t ih => cases j <;> simp [incr, ih]

theorem incr_getElem?' (ws : List β) (j i : Nat) :
    (incr ws j)[i]? = if i = j then ws[i]?.map (· + 1) else ws[i]? := by
  induction ws generalizing j i with
  | nil => simp [incr]
  | cons w t ih =>
    cases j with
    | zero =>
      cases i with
      | zero => simp [incr]
      | succ i => simp [incr]
    | succ j =>
      cases i with
      | zero => simp [incr]
      | succ i => simp [incr, ih]

theorem mem_incr {ws : List β} {j : Nat} {w' : β} (h : w' ∈ incr ws j) : w' ∈ ws ∨ ∃ w ∈ ws, w' = w + 1 := by
  induction ws generalizing j with
  | nil => simp [incr] at h
  | cons w t ih =>
    cases j with
    | zero =>
      simp only [incr, List.mem_cons] at h
      rcases h with rfl | h
      · exact Or.inr ⟨w, by simp, rfl⟩
      · exact Or.inl (by simp [h])
    | succ j =>
      simp only [incr, List.mem_cons] at h
      rcases h with rfl | h
      · exact Or.inl (by simp)
      · rcases ih h with h | ⟨x, hx, rfl⟩
        · exact Or.inl (by simp [h])
        · exact Or.inr ⟨x, by simp [hx], rfl⟩

theorem foldl_incr_length' (Nf : Int → Nat) (cells : List Int) (ws : List β) :
    (cells.foldl (fun ws c => incr ws (Nf c)) ws).length = ws.length := by
  induction cells generalizing ws with
  | nil => rfl
  | cons c t ih => rw [List.foldl_cons, ih, incr_length']

end GenericIncr

section Counts
variable {r : Rounding α}

/-- as long as the running counts stay representable (`<= N`), every `weights[jmin] += 1` is exact: the vector
holds the exact numbers of cells credited to each point -/
theorem foldl_incr_val (Nf : Int → Nat) (cells : List Int) (ws : List (Fl r)) (i : Nat)
    (h : ∀ w ∈ ws, ∃ m : ℕ, w.val = m ∧ m + cells.length ≤ r.N) :
    ((cells.foldl (fun ws c => incr ws (Nf c)) ws)[i]?).map Fl.val =
      ws[i]?.map fun w => w.val + ((cells.countP fun c => Nf c = i : ℕ) : α) := by
  induction cells generalizing ws with
  | nil => simp
  | cons c t ih =>
    have hinv : ∀ w ∈ incr ws (Nf c), ∃ m : ℕ, w.val = m ∧ m + t.length ≤ r.N := by
      intro w' hw'
      rcases mem_incr hw' with hm | ⟨w, hw, rfl⟩
      · obtain ⟨m, e, b⟩ := h w' hm
        exact ⟨m, e, by simp only [List.length_cons] at b; omega⟩
      · obtain ⟨m, e, b⟩ := h w hw
        simp only [List.length_cons] at b
        refine ⟨m + 1, ?_, by omega⟩
        rw [Fl.add_val, Fl.one_val, e]
        have := r.nat_exact (m + 1) (by omega)
        push_cast at this ⊢
        exact this
    rw [List.foldl_cons, ih _ hinv, incr_getElem?', List.countP_cons]
    by_cases hci : Nf c = i
    · have e : i = Nf c := hci.symm
      simp only [e, if_true, Option.map_map, decide_true]
      cases hw : ws[Nf c]? with
      | none => simp
      | some w =>
        obtain ⟨m, em, b⟩ := h w (List.mem_of_getElem? hw)
        simp only [List.length_cons] at b
        simp only [Option.map_some, Function.comp, Fl.add_val, Fl.one_val, Option.some.injEq]
        rw [em]
        have := r.nat_exact (m + 1) (by omega)
        push_cast at this ⊢
        rw [this]; ring
    · have : ¬ i = Nf c := fun e => hci e.symm
      simp [hci, this]

/-- the cells credited to the points add up to the number of cells -/
theorem sum_countP_eq_length (Nf : Int → Nat) (cells : List Int) (m : Nat) (h : ∀ c ∈ cells, Nf c < m) :
    ((List.range m).map fun j => cells.countP fun c => Nf c = j).sum = cells.length := by
  induction cells with
  | nil => simp
  | cons c t ih =>
    have hone : ∀ (a m : Nat), a < m → ((List.range m).map fun j => if a = j then 1 else 0).sum = 1 := by
      intro a m
      induction m with
      | zero => intro h; omega
      | succ m ihm =>
        intro ha
        rw [List.range_succ, List.map_append, List.sum_append]
        by_cases e : a = m
        · subst e
          have : ((List.range a).map fun j => if a = j then 1 else 0).sum = 0 := by
            apply List.sum_eq_zero
            intro x hx
            obtain ⟨j, hj, rfl⟩ := List.mem_map.1 hx
            have := List.mem_range.1 hj
            simp; omega
          simp [this]
        · rw [ihm (by omega)]
          simp [e]
    have hsplit : ((List.range m).map fun j => (c :: t).countP fun c => Nf c = j) =
        (List.range m).map fun j => (t.countP fun c => Nf c = j) + (if Nf c = j then 1 else 0) := by
      apply List.map_congr_left
      intro j _
      rw [List.countP_cons]
      simp
    rw [hsplit, List.sum_map_add, ih (fun c' hc' => h c' (by simp [hc'])), hone _ _ (h c (by simp))]
    simp

/-- `|Σ rnd x - Σ x| <= u Σ x` for non-negative `x` -/
theorem abs_sum_rnd_sub_le {u : α} (herr : ∀ x, |r.rnd x - x| ≤ u * |x|) (l : List α) (h0 : ∀ x ∈ l, 0 ≤ x) :
    |(l.map r.rnd).sum - l.sum| ≤ u * l.sum := by
  induction l with
  | nil => simp
  | cons x t ih =>
    simp only [List.map_cons, List.sum_cons]
    have hx := herr x
    rw [abs_of_nonneg (h0 x (by simp))] at hx
    have ht := ih (fun y hy => h0 y (by simp [hy]))
    have : r.rnd x + (t.map r.rnd).sum - (x + t.sum) = (r.rnd x - x) + ((t.map r.rnd).sum - t.sum) := by ring
    rw [this]
    refine le_trans (abs_add_le _ _) ?_
    rw [mul_add]
    linarith

end Counts

end HydroVerif.C16
