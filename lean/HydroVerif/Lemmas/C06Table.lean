/-
C06 — facts about the GENERATED direction-code table (`Generated/FlowDir.lean`, rewritten from
`FLOWDIRCODE` in grid.py on every run). Each is closed by `decide` on the table as it is now:
a duplicated, missing, swapped or re-centred code in grid.py makes one of them fail on the next run,
and with it every theorem of `Props/C06.lean` (they all go through `tableOK`).
-/
import HydroVerif.Generated.FlowDir

namespace HydroVerif.C06
open HydroVerif.Generated.FlowDir

/-- what the upstream/downstream theorems need of a code table -/
structure TableOK (codes : List Int) : Prop where
  /-- nine entries: one per position of the 3x3 neighbourhood -/
  len : codes.length = 9
  /-- no code stands for two positions -/
  nodup : codes.Nodup
  /-- the centre entry is the sink code 0 -/
  centre : codes[4]? = some 0

/-- the literal in grid.py is a 3x3 nested list (what the Cython wrappers assert of the array) -/
theorem literal_is_3x3 : nrowsLit = 3 ∧ rowLens = [3, 3, 3] := by decide

theorem codes_length : codes.length = 9 := by decide
theorem codes_nodup : codes.Nodup := by decide
theorem codes_centre : codes[4]? = some 0 := by decide

theorem tableOK : TableOK codes := ⟨codes_length, codes_nodup, codes_centre⟩

/-! ### ESRI layout: direction `m = 0..7` counted clockwise from east has code `2^m` -/

/-- column offset of direction `m` (E, SE, S, SW, W, NW, N, NE) -/
def esriDx : Nat → Int
  | 0 => 1 | 1 => 1 | 2 => 0 | 3 => -1 | 4 => -1 | 5 => -1 | 6 => 0 | _ => 1
/-- row offset of direction `m` (rows are counted from the top: south is `+1`) -/
def esriDy : Nat → Int
  | 0 => 0 | 1 => 1 | 2 => 1 | 3 => 1 | 4 => 0 | 5 => -1 | 6 => -1 | _ => -1
/-- position of direction `m` in the 3x3 neighbourhood: `k = 1 + dx + (1 + dy) * 3` -/
def esriPos (m : Nat) : Nat := (1 + esriDx m + (1 + esriDy m) * 3).toNat

/-- **the table is the ESRI one**: east = 1, doubling clockwise, each at the position of its offset -/
theorem codes_esri : ∀ m, m < 8 → codes[esriPos m]? = some ((2 : Int) ^ m) := by decide

/-- every non-centre position holds the code of exactly one ESRI direction -/
theorem codes_esri_surj : ∀ k, k < 9 → k ≠ 4 → ∃ m, m < 8 ∧ esriPos m = k := by decide

/-- the table holds nothing but the sink code and the eight ESRI codes -/
theorem codes_are_esri_or_zero : ∀ f ∈ codes, f = 0 ∨ ∃ m, m < 8 ∧ f = (2 : Int) ^ m := by decide

/-- **mirror structure**: position `8 - k` holds the code of the opposite direction (`m + 4 mod 8`) -/
theorem codes_mirror : ∀ m, m < 8 → codes[8 - esriPos m]? = some ((2 : Int) ^ ((m + 4) % 8)) := by decide

end HydroVerif.C06
