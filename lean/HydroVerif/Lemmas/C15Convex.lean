/-
C15 — lemmas for the convex-polygon theorem: for a strictly convex polygon the even-odd answer is
"strictly on the inner side of every edge".
-/
import HydroVerif.Lemmas.C15

set_option linter.unusedSectionVars false

namespace HydroVerif.C15

variable {α : Type} [Field α] [LinearOrder α] [IsStrictOrderedRing α]

/-- strictly convex, counter-clockwise: every vertex that is not an end point of an edge is strictly left of it -/
def StrictConvexCCW (poly : List (α × α)) : Prop :=
  ∀ e ∈ edges poly, ∀ v ∈ poly, v ≠ e.1 → v ≠ e.2 → 0 < cross e.1 e.2 v

/-- the point is strictly on the left (inner, for a counter-clockwise polygon) side of every edge -/
def LeftOfAll (poly : List (α × α)) (pt : α × α) : Prop := ∀ e ∈ edges poly, 0 < cross e.1 e.2 pt

/-- the edge goes up / down through the horizontal line at `y` (half-open rule) -/
def isUp (y : α) (p1 p2 : α × α) : Bool := below y p1.2 && !below y p2.2
def isDown (y : α) (p1 p2 : α × α) : Bool := !below y p1.2 && below y p2.2

theorem isUp_iff {y : α} {p1 p2 : α × α} : isUp y p1 p2 = true ↔ p1.2 < y ∧ y ≤ p2.2 := by
  simp [isUp, below]

theorem isDown_iff {y : α} {p1 p2 : α × α} : isDown y p1 p2 = true ↔ p2.2 < y ∧ y ≤ p1.2 := by
  simp [isDown, below]; tauto

theorem straddle_eq_up_or_down (y : α) (p1 p2 : α × α) :
    straddle y p1 p2 = (isUp y p1 p2 || isDown y p1 p2) := by
  unfold straddle isUp isDown
  cases below y p1.2 <;> cases below y p2.2 <;> rfl

theorem isUp_straddle {y : α} {p1 p2 : α × α} (h : isUp y p1 p2 = true) : straddle y p1 p2 = true := by
  rw [straddle_eq_up_or_down, h]; rfl

theorem isDown_straddle {y : α} {p1 p2 : α × α} (h : isDown y p1 p2 = true) : straddle y p1 p2 = true := by
  rw [straddle_eq_up_or_down, h]; simp

/-! ### the cross product against the crossing abscissa -/

theorem cross_eq_mul {x y : α} {p1 p2 : α × α} (h : p2.2 - p1.2 ≠ 0) :
    cross p1 p2 (x, y) = (p2.2 - p1.2) * (xint y p1 p2 - x) := by
  unfold cross xint; field_simp; ring

theorem cross_pos_up {x y : α} {p1 p2 : α × α} (hu : isUp y p1 p2 = true) :
    0 < cross p1 p2 (x, y) ↔ x < xint y p1 p2 := by
  obtain ⟨h1, h2⟩ := isUp_iff.mp hu
  have hd : 0 < p2.2 - p1.2 := by linarith
  rw [cross_eq_mul hd.ne', mul_pos_iff_of_pos_left hd, sub_pos]

theorem cross_pos_down {x y : α} {p1 p2 : α × α} (hd : isDown y p1 p2 = true) :
    0 < cross p1 p2 (x, y) ↔ xint y p1 p2 < x := by
  obtain ⟨h1, h2⟩ := isDown_iff.mp hd
  have hneg : p2.2 - p1.2 < 0 := by linarith
  rw [cross_eq_mul hneg.ne]
  constructor
  · intro h
    by_contra hc
    have : 0 ≤ xint y p1 p2 - x := by linarith [not_lt.mp hc]
    nlinarith
  · intro h
    have : xint y p1 p2 - x < 0 := by linarith
    nlinarith

theorem cross_affine (p1 p2 a b : α × α) (t : α) :
    cross p1 p2 (a.1 + t * (b.1 - a.1), a.2 + t * (b.2 - a.2)) =
      (1 - t) * cross p1 p2 a + t * cross p1 p2 b := by
  unfold cross; ring

theorem cross_self_left (p1 p2 : α × α) : cross p1 p2 p1 = 0 := by unfold cross; ring
theorem cross_self_right (p1 p2 : α × α) : cross p1 p2 p2 = 0 := by unfold cross; ring

/-- the point of a straddling edge at height `y` -/
theorem level_point {y : α} {p1 p2 : α × α} (hs : straddle y p1 p2 = true) :
    ((xint y p1 p2, y) : α × α) =
      (p1.1 + tpar y p1 p2 * (p2.1 - p1.1), p1.2 + tpar y p1 p2 * (p2.2 - p1.2)) := by
  rw [← xint_eq_tpar, tpar_y hs]

/-- a convex combination of two points on the closed left side is on the closed left side, strictly if both are -/
theorem cross_seg_nonneg {p1 p2 a b : α × α} {t : α} (h0 : 0 ≤ t) (h1 : t ≤ 1)
    (ha : 0 ≤ cross p1 p2 a) (hb : 0 ≤ cross p1 p2 b) :
    0 ≤ cross p1 p2 (a.1 + t * (b.1 - a.1), a.2 + t * (b.2 - a.2)) := by
  rw [cross_affine]
  have := mul_nonneg (by linarith : 0 ≤ 1 - t) ha
  have := mul_nonneg h0 hb
  linarith

theorem cross_seg_pos {p1 p2 a b : α × α} {t : α} (h0 : 0 ≤ t) (h1 : t ≤ 1)
    (ha : 0 < cross p1 p2 a) (hb : 0 < cross p1 p2 b) :
    0 < cross p1 p2 (a.1 + t * (b.1 - a.1), a.2 + t * (b.2 - a.2)) := by
  rw [cross_affine]
  rcases eq_or_lt_of_le h0 with h | h
  · rw [← h]; simpa using ha
  · have := mul_nonneg (by linarith : 0 ≤ 1 - t) ha.le
    have := mul_pos h hb
    linarith

/-! ### parity of a list with at most one `true` -/

theorem parity_at_most_one {β : Type} {g : β → Bool} {l : List β} {e : β} (hnd : l.Nodup) (he : e ∈ l)
    (huniq : ∀ b ∈ l, g b = true → b = e) : parity (l.map g) = g e := by
  induction l with
  | nil => simp at he
  | cons a t ih =>
    have hnd' := List.nodup_cons.mp hnd
    simp only [List.map_cons, parity]
    rcases List.mem_cons.mp he with rfl | het
    · have : parity (t.map g) = false := by
        apply parity_map_false
        intro b hb
        cases hgb : g b
        · rfl
        · have := huniq b (List.mem_cons_of_mem _ hb) hgb
          exact absurd (this ▸ hb) hnd'.1
      rw [this, Bool.xor_false]
    · have hga : g a = false := by
        cases hga : g a
        · rfl
        · have := huniq a (List.mem_cons_self ..) hga
          exact absurd (this ▸ het) hnd'.1
      rw [hga, Bool.false_xor]
      exact ih hnd'.2 het fun b hb => huniq b (List.mem_cons_of_mem _ hb)

/-! ### first / second components of the edge cycle -/

section lists
variable {β : Type}

theorem edgesFrom_fst (l : List (β × β)) : ∀ p : β × β,
    (edgesFrom p l).map Prod.fst = (p :: l).dropLast := by
  induction l with
  | nil => intro p; rfl
  | cons c t ih => intro p; simp [edgesFrom, ih, List.dropLast]

theorem edgesFrom_snd (l : List (β × β)) : ∀ p : β × β, (edgesFrom p l).map Prod.snd = l := by
  induction l with
  | nil => intro p; rfl
  | cons c t ih => intro p; simp [edgesFrom, ih]

theorem edges_fst (poly : List (β × β)) : (edges poly).map Prod.fst = poly := by
  cases poly with
  | nil => rfl
  | cons v0 t =>
    show (edgesFrom v0 (t ++ [v0])).map Prod.fst = v0 :: t
    rw [edgesFrom_fst, ← List.cons_append, List.dropLast_concat]

theorem edges_snd (poly : List (β × β)) : (edges poly).map Prod.snd = poly.rotate 1 := by
  cases poly with
  | nil => rfl
  | cons v0 t =>
    show (edgesFrom v0 (t ++ [v0])).map Prod.snd = _
    rw [edgesFrom_snd]; simp

theorem edges_nodup {poly : List (β × β)} (h : poly.Nodup) : (edges poly).Nodup :=
  List.Nodup.of_map Prod.fst (by rw [edges_fst]; exact h)

theorem edge_eq_of_fst {poly : List (β × β)} (h : poly.Nodup) {e e' : (β × β) × (β × β)}
    (he : e ∈ edges poly) (he' : e' ∈ edges poly) (heq : e.1 = e'.1) : e = e' :=
  List.inj_on_of_nodup_map (by rw [edges_fst]; exact h) he he' heq

theorem edge_eq_of_snd {poly : List (β × β)} (h : poly.Nodup) {e e' : (β × β) × (β × β)}
    (he : e ∈ edges poly) (he' : e' ∈ edges poly) (heq : e.2 = e'.2) : e = e' :=
  List.inj_on_of_nodup_map (by rw [edges_snd]; exact List.nodup_rotate.mpr h) he he' heq

end lists

/-! ### a closed walk that visits both kinds of vertices switches kind -/

section walk
variable {β : Type} (s : β × β → Bool)

theorem exists_switch_from {l : List (β × β)} : ∀ {p : β × β}, s p = true → (∃ q ∈ l, s q = false) →
    ∃ e ∈ edgesFrom p l, s e.1 = true ∧ s e.2 = false := by
  induction l with
  | nil => intro p _ ⟨q, hq, _⟩; simp at hq
  | cons c t ih =>
    intro p hp ⟨q, hq, hsq⟩
    cases hc : s c
    · exact ⟨(p, c), by simp [edgesFrom], hp, hc⟩
    · rcases List.mem_cons.mp hq with rfl | hqt
      · rw [hc] at hsq; cases hsq
      · obtain ⟨e, he, h⟩ := ih hc ⟨q, hqt, hsq⟩
        exact ⟨e, by simp [edgesFrom, he], h⟩

theorem lastFrom_mem : ∀ {l : List (β × β)} {p : β × β}, l ≠ [] → lastFrom p l ∈ l := by
  intro l
  induction l with
  | nil => intro p h; exact absurd rfl h
  | cons c t ih =>
    intro p _
    cases t with
    | nil => simp [lastFrom]
    | cons d t' =>
      have := ih (p := c) (by simp)
      simp only [lastFrom] at this ⊢
      exact List.mem_cons_of_mem _ this

theorem exists_switch_back {l : List (β × β)} : ∀ {p : β × β}, (∃ q ∈ l, s q = true) →
    s (lastFrom p l) = false → ∃ e ∈ edgesFrom p l, s e.1 = true ∧ s e.2 = false := by
  induction l with
  | nil => intro p ⟨q, hq, _⟩; simp at hq
  | cons c t ih =>
    intro p ⟨q, hq, hsq⟩ hlast
    simp only [lastFrom] at hlast
    rcases List.mem_cons.mp hq with rfl | hqt
    · -- the walk is at a `true` vertex and must end at a `false` one
      cases t with
      | nil => simp only [lastFrom] at hlast; rw [hsq] at hlast; cases hlast
      | cons d t' =>
        obtain ⟨e, he, h⟩ := exists_switch_from s hsq ⟨_, lastFrom_mem (p := q) (by simp), hlast⟩
        exact ⟨e, by simp [edgesFrom] at he ⊢; exact Or.inr he, h⟩
    · obtain ⟨e, he, h⟩ := ih ⟨q, hqt, hsq⟩ hlast
      exact ⟨e, by simp [edgesFrom, he], h⟩

theorem exists_switch_cycle {poly : List (β × β)} (h1 : ∃ v ∈ poly, s v = true) (h2 : ∃ w ∈ poly, s w = false) :
    ∃ e ∈ edges poly, s e.1 = true ∧ s e.2 = false := by
  cases poly with
  | nil => obtain ⟨v, hv, _⟩ := h1; simp at hv
  | cons v0 t =>
    obtain ⟨v, hv, hsv⟩ := h1
    obtain ⟨w, hw, hsw⟩ := h2
    cases h0 : s v0
    · have hvt : v ∈ t := by
        rcases List.mem_cons.mp hv with rfl | h
        · rw [h0] at hsv; cases hsv
        · exact h
      exact exists_switch_back s ⟨v, List.mem_append_left _ hvt, hsv⟩ (by rw [lastFrom_append]; exact h0)
    · have hwt : w ∈ t := by
        rcases List.mem_cons.mp hw with rfl | h
        · rw [h0] at hsw; cases hsw
        · exact h
      exact exists_switch_from s h0 ⟨w, List.mem_append_left _ hwt, hsw⟩

/-- any vertex can be brought to second position by a rotation -/
theorem exists_rotate_second {poly : List β} {v : β} (hv : v ∈ poly) (hn : 3 ≤ poly.length) :
    ∃ (k : Nat) (u w : β) (rest : List β), poly.rotate k = u :: v :: w :: rest := by
  obtain ⟨i, hi, rfl⟩ := List.mem_iff_getElem.mp hv
  refine ⟨i + poly.length - 1, ?_⟩
  have hlen : (poly.rotate (i + poly.length - 1)).length = poly.length := List.length_rotate ..
  match hL : poly.rotate (i + poly.length - 1), hlen with
  | [], h => simp at h; omega
  | [_], h => simp at h; omega
  | [_, _], h => simp at h; omega
  | u :: v' :: w :: rest, _ =>
    refine ⟨u, w, rest, ?_⟩
    have h1 : (poly.rotate (i + poly.length - 1))[1]'(by rw [hlen]; omega) = poly[i] := by
      rw [List.getElem_rotate]
      congr 1
      rw [show 1 + (i + poly.length - 1) = i + poly.length by omega, Nat.add_mod_right, Nat.mod_eq_of_lt hi]
    have h2 : (poly.rotate (i + poly.length - 1))[1]'(by rw [hlen]; omega) = v' := by
      simp [hL]
    rw [← h1, h2]

theorem exists_min_mem {γ : Type} [LinearOrder γ] (f : β → γ) : ∀ {l : List β}, l ≠ [] →
    ∃ v ∈ l, ∀ w ∈ l, f v ≤ f w := by
  intro l
  induction l with
  | nil => intro h; exact absurd rfl h
  | cons a t ih =>
    intro _
    cases t with
    | nil => exact ⟨a, by simp, by simp⟩
    | cons b t' =>
      obtain ⟨v, hv, hmin⟩ := ih (by simp)
      rcases le_total (f a) (f v) with h | h
      · refine ⟨a, by simp, ?_⟩
        intro w hw
        rcases List.mem_cons.mp hw with rfl | hw
        · exact le_refl _
        · exact h.trans (hmin w hw)
      · refine ⟨v, List.mem_cons_of_mem _ hv, ?_⟩
        intro w hw
        rcases List.mem_cons.mp hw with rfl | hw
        · exact h
        · exact hmin w hw

end walk

end HydroVerif.C15
