/-
C15 — lemmas for the convex-polygon theorem: for a strictly convex polygon the even-odd answer is
"strictly on the inner side of every edge".
-/
import HydroVerif.Lemmas.C15

set_option linter.unusedSectionVars false

namespace HydroVerif.C15

variable {α : Type} [Field α] [LinearOrder α] [IsStrictOrderedRing α]

/-- strictly convex, counter-clockwise: every vertex that is not an end point of an edge is strictly left of it -/
def StrictConvexCCW (poly : List (α × α)) : Prop :=
  ∀ e ∈ edges poly, ∀ v ∈ poly, v ≠ e.1 → v ≠ e.2 → 0 < cross e.1 e.2 v

/-- the point is strictly on the left (inner, for a counter-clockwise polygon) side of every edge -/
def LeftOfAll (poly : List (α × α)) (pt : α × α) : Prop := ∀ e ∈ edges poly, 0 < cross e.1 e.2 pt

/-- the edge goes up / down through the horizontal line at `y` (half-open rule) -/
def isUp (y : α) (p1 p2 : α × α) : Bool := below y p1.2 && !below y p2.2
def isDown (y : α) (p1 p2 : α × α) : Bool := !below y p1.2 && below y p2.2

theorem isUp_iff {y : α} {p1 p2 : α × α} : isUp y p1 p2 = true ↔ p1.2 < y ∧ y ≤ p2.2 := by
  simp [isUp, below]

theorem isDown_iff {y : α} {p1 p2 : α × α} : isDown y p1 p2 = true ↔ p2.2 < y ∧ y ≤ p1.2 := by
  simp [isDown, below]; tauto

theorem straddle_eq_up_or_down (y : α) (p1 p2 : α × α) :
    straddle y p1 p2 = (isUp y p1 p2 || isDown y p1 p2) := by
  unfold straddle isUp isDown
  cases below y p1.2 <;> cases below y p2.2 <;> rfl

theorem isUp_straddle {y : α} {p1 p2 : α × α} (h : isUp y p1 p2 = true) : straddle y p1 p2 = true := by
  rw [straddle_eq_up_or_down, h]; rfl

theorem isDown_straddle {y : α} {p1 p2 : α × α} (h : isDown y p1 p2 = true) : straddle y p1 p2 = true := by
  rw [straddle_eq_up_or_down, h]; simp

/-! ### the cross product against the crossing abscissa -/

theorem cross_eq_mul {x y : α} {p1 p2 : α × α} (h : p2.2 - p1.2 ≠ 0) :
    cross p1 p2 (x, y) = (p2.2 - p1.2) * (xint y p1 p2 - x) := by
  unfold cross xint; field_simp; ring

theorem cross_pos_up {x y : α} {p1 p2 : α × α} (hu : isUp y p1 p2 = true) :
    0 < cross p1 p2 (x, y) ↔ x < xint y p1 p2 := by
  obtain ⟨h1, h2⟩ := isUp_iff.mp hu
  have hd : 0 < p2.2 - p1.2 := by linarith
  rw [cross_eq_mul hd.ne', mul_pos_iff_of_pos_left hd, sub_pos]

theorem cross_pos_down {x y : α} {p1 p2 : α × α} (hd : isDown y p1 p2 = true) :
    0 < cross p1 p2 (x, y) ↔ xint y p1 p2 < x := by
  obtain ⟨h1, h2⟩ := isDown_iff.mp hd
  have hneg : p2.2 - p1.2 < 0 := by linarith
  rw [cross_eq_mul hneg.ne]
  constructor
  · intro h
    by_contra hc
    have : 0 ≤ xint y p1 p2 - x := by linarith [not_lt.mp hc]
    nlinarith
  · intro h
    have : xint y p1 p2 - x < 0 := by linarith
    nlinarith

theorem cross_affine (p1 p2 a b : α × α) (t : α) :
    cross p1 p2 (a.1 + t * (b.1 - a.1), a.2 + t * (b.2 - a.2)) =
      (1 - t) * cross p1 p2 a + t * cross p1 p2 b := by
  unfold cross; ring

theorem cross_self_left (p1 p2 : α × α) : cross p1 p2 p1 = 0 := by unfold cross; ring
theorem cross_self_right (p1 p2 : α × α) : cross p1 p2 p2 = 0 := by unfold cross; ring

/-- the point of a straddling edge at height `y` -/
theorem level_point {y : α} {p1 p2 : α × α} (hs : straddle y p1 p2 = true) :
    ((xint y p1 p2, y) : α × α) =
      (p1.1 + tpar y p1 p2 * (p2.1 - p1.1), p1.2 + tpar y p1 p2 * (p2.2 - p1.2)) := by
  rw [← xint_eq_tpar, tpar_y hs]

/-- a convex combination of two points on the closed left side is on the closed left side, strictly if both are -/
theorem cross_seg_nonneg {p1 p2 a b : α × α} {t : α} (h0 : 0 ≤ t) (h1 : t ≤ 1)
    (ha : 0 ≤ cross p1 p2 a) (hb : 0 ≤ cross p1 p2 b) :
    0 ≤ cross p1 p2 (a.1 + t * (b.1 - a.1), a.2 + t * (b.2 - a.2)) := by
  rw [cross_affine]
  have := mul_nonneg (by linarith : 0 ≤ 1 - t) ha
  have := mul_nonneg h0 hb
  linarith

theorem cross_seg_pos {p1 p2 a b : α × α} {t : α} (h0 : 0 ≤ t) (h1 : t ≤ 1)
    (ha : 0 < cross p1 p2 a) (hb : 0 < cross p1 p2 b) :
    0 < cross p1 p2 (a.1 + t * (b.1 - a.1), a.2 + t * (b.2 - a.2)) := by
  rw [cross_affine]
  rcases eq_or_lt_of_le h0 with h | h
  · rw [← h]; simpa using ha
  · have := mul_nonneg (by linarith : 0 ≤ 1 - t) ha.le
    have := mul_pos h hb
    linarith

/-! ### parity of a list with at most one `true` -/

theorem parity_at_most_one {β : Type} {g : β → Bool} {l : List β} {e : β} (hnd : l.Nodup) (he : e ∈ l)
    (huniq : ∀ b ∈ l, g b = true → b = e) : parity (l.map g) = g e := by
  induction l with
  | nil => simp at he
  | cons a t ih =>
    have hnd' := List.nodup_cons.mp hnd
    simp only [List.map_cons, parity]
    rcases List.mem_cons.mp he with rfl | het
    · have : parity (t.map g) = false := by
        apply parity_map_false
        intro b hb
        cases hgb : g b
        · rfl
        · have := huniq b (List.mem_cons_of_mem _ hb) hgb
          exact absurd (this ▸ hb) hnd'.1
      rw [this, Bool.xor_false]
    · have hga : g a = false := by
        cases hga : g a
        · rfl
        · have := huniq a (List.mem_cons_self ..) hga
          exact absurd (this ▸ het) hnd'.1
      rw [hga, Bool.false_xor]
      exact ih hnd'.2 het fun b hb => huniq b (List.mem_cons_of_mem _ hb)

/-! ### first / second components of the edge cycle -/

section lists
variable {β : Type}

theorem edgesFrom_fst (l : List (β × β)) : ∀ p : β × β,
    (edgesFrom p l).map Prod.fst = (p :: l).dropLast := by
  induction l with
  | nil => intro p; rfl
  | cons c t ih => intro p; simp [edgesFrom, ih, List.dropLast]

theorem edgesFrom_snd (l : List (β × β)) : ∀ p : β × β, (edgesFrom p l).map Prod.snd = l := by
  induction l with
  | nil => intro p; rfl
  | cons c t ih => intro p; simp [edgesFrom, ih]

theorem edges_fst (poly : List (β × β)) : (edges poly).map Prod.fst = poly := by
  cases poly with
  | nil => rfl
  | cons v0 t =>
    show (edgesFrom v0 (t ++ [v0])).map Prod.fst = v0 :: t
    rw [edgesFrom_fst, ← List.cons_append, List.dropLast_concat]

theorem edges_snd (poly : List (β × β)) : (edges poly).map Prod.snd = poly.rotate 1 := by
  cases poly with
  | nil => rfl
  | cons v0 t =>
    show (edgesFrom v0 (t ++ [v0])).map Prod.snd = _
    rw [edgesFrom_snd]; simp

theorem edges_nodup {poly : List (β × β)} (h : poly.Nodup) : (edges poly).Nodup :=
  List.Nodup.of_map Prod.fst (by rw [edges_fst]; exact h)

theorem edge_eq_of_fst {poly : List (β × β)} (h : poly.Nodup) {e e' : (β × β) × (β × β)}
    (he : e ∈ edges poly) (he' : e' ∈ edges poly) (heq : e.1 = e'.1) : e = e' :=
  List.inj_on_of_nodup_map (by rw [edges_fst]; exact h) he he' heq

theorem edge_eq_of_snd {poly : List (β × β)} (h : poly.Nodup) {e e' : (β × β) × (β × β)}
    (he : e ∈ edges poly) (he' : e' ∈ edges poly) (heq : e.2 = e'.2) : e = e' :=
  List.inj_on_of_nodup_map (by rw [edges_snd]; exact List.nodup_rotate.mpr h) he he' heq

end lists

/-! ### a closed walk that visits both kinds of vertices switches kind -/

section walk
variable {β : Type} (s : β × β → Bool)

theorem exists_switch_from {l : List (β × β)} : ∀ {p : β × β}, s p = true → (∃ q ∈ l, s q = false) →
    ∃ e ∈ edgesFrom p l, s e.1 = true ∧ s e.2 = false := by
  induction l with
  | nil => intro p _ ⟨q, hq, _⟩; simp at hq
  | cons c t ih =>
    intro p hp ⟨q, hq, hsq⟩
    cases hc : s c
    · exact ⟨(p, c), by simp [edgesFrom], hp, hc⟩
    · rcases List.mem_cons.mp hq with rfl | hqt
      · rw [hc] at hsq; cases hsq
      · obtain ⟨e, he, h⟩ := ih hc ⟨q, hqt, hsq⟩
        exact ⟨e, by simp [edgesFrom, he], h⟩

theorem lastFrom_mem : ∀ {l : List (β × β)} {p : β × β}, l ≠ [] → lastFrom p l ∈ l := by
  intro l
  induction l with
  | nil => intro p h; exact absurd rfl h
  | cons c t ih =>
    intro p _
    cases t with
    | nil => simp [lastFrom]
    | cons d t' =>
      have := ih (p := c) (by simp)
      simp only [lastFrom] at this ⊢
      exact List.mem_cons_of_mem _ this

theorem exists_switch_back {l : List (β × β)} : ∀ {p : β × β}, (∃ q ∈ l, s q = true) →
    s (lastFrom p l) = false → ∃ e ∈ edgesFrom p l, s e.1 = true ∧ s e.2 = false := by
  induction l with
  | nil => intro p ⟨q, hq, _⟩; simp at hq
  | cons c t ih =>
    intro p ⟨q, hq, hsq⟩ hlast
    simp only [lastFrom] at hlast
    rcases List.mem_cons.mp hq with rfl | hqt
    · -- the walk is at a `true` vertex and must end at a `false` one
      cases t with
      | nil => simp only [lastFrom] at hlast; rw [hsq] at hlast; cases hlast
      | cons d t' =>
        obtain ⟨e, he, h⟩ := exists_switch_from s hsq ⟨_, lastFrom_mem (p := q) (by simp), hlast⟩
        exact ⟨e, by simp [edgesFrom] at he ⊢; exact Or.inr he, h⟩
    · obtain ⟨e, he, h⟩ := ih ⟨q, hqt, hsq⟩ hlast
      exact ⟨e, by simp [edgesFrom, he], h⟩

theorem exists_switch_cycle {poly : List (β × β)} (h1 : ∃ v ∈ poly, s v = true) (h2 : ∃ w ∈ poly, s w = false) :
    ∃ e ∈ edges poly, s e.1 = true ∧ s e.2 = false := by
  cases poly with
  | nil => obtain ⟨v, hv, _⟩ := h1; simp at hv
  | cons v0 t =>
    obtain ⟨v, hv, hsv⟩ := h1
    obtain ⟨w, hw, hsw⟩ := h2
    cases h0 : s v0
    · have hvt : v ∈ t := by
        rcases List.mem_cons.mp hv with rfl | h
        · rw [h0] at hsv; cases hsv
        · exact h
      exact exists_switch_back s ⟨v, List.mem_append_left _ hvt, hsv⟩ (by rw [lastFrom_append]; exact h0)
    · have hwt : w ∈ t := by
        rcases List.mem_cons.mp hw with rfl | h
        · rw [h0] at hsw; cases hsw
        · exact h
      exact exists_switch_from s h0 ⟨w, List.mem_append_left _ hwt, hsw⟩

/-- any vertex can be brought to second position by a rotation -/
theorem exists_rotate_second {poly : List β} {v : β} (hv : v ∈ poly) (hn : 3 ≤ poly.length) :
    ∃ (k : Nat) (u w : β) (rest : List β), poly.rotate k = u :: v :: w :: rest := by
  obtain ⟨i, hi, rfl⟩ := List.mem_iff_getElem.mp hv
  refine ⟨i + poly.length - 1, ?_⟩
  have hlen : (poly.rotate (i + poly.length - 1)).length = poly.length := List.length_rotate ..
  match hL : poly.rotate (i + poly.length - 1), hlen with
  | [], h => simp at h; omega
  | [_], h => simp at h; omega
  | [_, _], h => simp at h; omega
  | u :: v' :: w :: rest, _ =>
    refine ⟨u, w, rest, ?_⟩
    have h1 : (poly.rotate (i + poly.length - 1))[1]'(by rw [hlen]; omega) = poly[i] := by
      rw [List.getElem_rotate]
      congr 1
      rw [show 1 + (i + poly.length - 1) = i + poly.length by omega, Nat.add_mod_right, Nat.mod_eq_of_lt hi]
    have h2 : (poly.rotate (i + poly.length - 1))[1]'(by rw [hlen]; omega) = v' := by
      simp [hL]
    rw [← h1, h2]

theorem exists_min_mem {γ : Type} [LinearOrder γ] (f : β → γ) : ∀ {l : List β}, l ≠ [] →
    ∃ v ∈ l, ∀ w ∈ l, f v ≤ f w := by
  intro l
  induction l with
  | nil => intro h; exact absurd rfl h
  | cons a t ih =>
    intro _
    cases t with
    | nil => exact ⟨a, by simp, by simp⟩
    | cons b t' =>
      obtain ⟨v, hv, hmin⟩ := ih (by simp)
      rcases le_total (f a) (f v) with h | h
      · refine ⟨a, by simp, ?_⟩
        intro w hw
        rcases List.mem_cons.mp hw with rfl | hw
        · exact le_refl _
        · exact h.trans (hmin w hw)
      · refine ⟨v, List.mem_cons_of_mem _ hv, ?_⟩
        intro w hw
        rcases List.mem_cons.mp hw with rfl | hw
        · exact h
        · exact hmin w hw

end walk

/-! ### strictly convex polygons -/

/-- every vertex is on the closed left side of every edge -/
theorem convex_nonneg {poly : List (α × α)} (hcv : StrictConvexCCW poly) {e : (α × α) × (α × α)}
    (he : e ∈ edges poly) {v : α × α} (hv : v ∈ poly) : 0 ≤ cross e.1 e.2 v := by
  by_cases h1 : v = e.1
  · rw [h1, cross_self_left]
  by_cases h2 : v = e.2
  · rw [h2, cross_self_right]
  exact (hcv e he v hv h1 h2).le

/-- the point at height `y` of any straddling edge is on the closed left side of every edge -/
theorem level_point_nonneg {poly : List (α × α)} (hcv : StrictConvexCCW poly) {g e : (α × α) × (α × α)}
    (hg : g ∈ edges poly) (he : e ∈ edges poly) {y : α} (hs : straddle y e.1 e.2 = true) :
    0 ≤ cross g.1 g.2 (xint y e.1 e.2, y) := by
  obtain ⟨t0, t1⟩ := tpar_mem hs
  rw [level_point hs]
  exact cross_seg_nonneg t0 t1 (convex_nonneg hcv hg (mem_edges he).1) (convex_nonneg hcv hg (mem_edges he).2)

theorem up_edge_unique {poly : List (α × α)} (hnd : poly.Nodup) (hcv : StrictConvexCCW poly) {y : α}
    {e e' : (α × α) × (α × α)} (he : e ∈ edges poly) (he' : e' ∈ edges poly)
    (hu : isUp y e.1 e.2 = true) (hu' : isUp y e'.1 e'.2 = true) : e = e' := by
  by_contra hne
  have h11 : e'.1 ≠ e.1 := fun h => hne (edge_eq_of_fst hnd he he' h.symm)
  have h22 : e'.2 ≠ e.2 := fun h => hne (edge_eq_of_snd hnd he he' h.symm)
  obtain ⟨a1, a2⟩ := isUp_iff.mp hu
  obtain ⟨b1, b2⟩ := isUp_iff.mp hu'
  have h12 : e'.1 ≠ e.2 := by intro h; rw [h] at b1; linarith
  have h21 : e'.2 ≠ e.1 := by intro h; rw [h] at b2; linarith
  have c1 := hcv e he e'.1 (mem_edges he').1 h11 h12
  have c2 := hcv e he e'.2 (mem_edges he').2 h21 h22
  have d1 := hcv e' he' e.1 (mem_edges he).1 h11.symm h21.symm
  have d2 := hcv e' he' e.2 (mem_edges he).2 h12.symm h22.symm
  have hs := isUp_straddle hu
  have hs' := isUp_straddle hu'
  obtain ⟨t0, t1⟩ := tpar_mem hs
  obtain ⟨t0', t1'⟩ := tpar_mem hs'
  have q' : 0 < cross e.1 e.2 (xint y e'.1 e'.2, y) := by
    rw [level_point hs']; exact cross_seg_pos t0' t1' c1 c2
  have q : 0 < cross e'.1 e'.2 (xint y e.1 e.2, y) := by
    rw [level_point hs]; exact cross_seg_pos t0 t1 d1 d2
  rw [cross_pos_up hu] at q'
  rw [cross_pos_up hu'] at q
  exact lt_asymm q q'

theorem down_edge_unique {poly : List (α × α)} (hnd : poly.Nodup) (hcv : StrictConvexCCW poly) {y : α}
    {e e' : (α × α) × (α × α)} (he : e ∈ edges poly) (he' : e' ∈ edges poly)
    (hu : isDown y e.1 e.2 = true) (hu' : isDown y e'.1 e'.2 = true) : e = e' := by
  by_contra hne
  have h11 : e'.1 ≠ e.1 := fun h => hne (edge_eq_of_fst hnd he he' h.symm)
  have h22 : e'.2 ≠ e.2 := fun h => hne (edge_eq_of_snd hnd he he' h.symm)
  obtain ⟨a1, a2⟩ := isDown_iff.mp hu
  obtain ⟨b1, b2⟩ := isDown_iff.mp hu'
  have h12 : e'.1 ≠ e.2 := by intro h; rw [h] at b2; linarith
  have h21 : e'.2 ≠ e.1 := by intro h; rw [h] at b1; linarith
  have c1 := hcv e he e'.1 (mem_edges he').1 h11 h12
  have c2 := hcv e he e'.2 (mem_edges he').2 h21 h22
  have d1 := hcv e' he' e.1 (mem_edges he).1 h11.symm h21.symm
  have d2 := hcv e' he' e.2 (mem_edges he).2 h12.symm h22.symm
  have hs := isDown_straddle hu
  have hs' := isDown_straddle hu'
  obtain ⟨t0, t1⟩ := tpar_mem hs
  obtain ⟨t0', t1'⟩ := tpar_mem hs'
  have q' : 0 < cross e.1 e.2 (xint y e'.1 e'.2, y) := by
    rw [level_point hs']; exact cross_seg_pos t0' t1' c1 c2
  have q : 0 < cross e'.1 e'.2 (xint y e.1 e.2, y) := by
    rw [level_point hs]; exact cross_seg_pos t0 t1 d1 d2
  rw [cross_pos_down hu] at q'
  rw [cross_pos_down hu'] at q
  exact lt_asymm q q'

theorem corner_identity (u v w P : α × α) :
    (u.2 - v.2) * cross v w P + (w.2 - v.2) * cross u v P = (P.2 - v.2) * cross u v w := by
  unfold cross; ring

/-- a point strictly left of both edges at a convex corner `u → v → w` cannot lie at or below the corner when
the corner is a lowest vertex … -/
theorem corner_low {u v w P : α × α} (A : 0 < cross v w P) (B : 0 < cross u v P) (C : 0 < cross u v w)
    (hu : v.2 ≤ u.2) (hw : v.2 ≤ w.2) (hP : P.2 ≤ v.2) : False := by
  have hid := corner_identity u v w P
  have h1 : 0 ≤ (u.2 - v.2) * cross v w P := mul_nonneg (by linarith) A.le
  have h2 : 0 ≤ (w.2 - v.2) * cross u v P := mul_nonneg (by linarith) B.le
  have h3 : (P.2 - v.2) * cross u v w ≤ 0 := mul_nonpos_of_nonpos_of_nonneg (by linarith) C.le
  have e1 : (u.2 - v.2) * cross v w P = 0 := by linarith
  have e2 : (w.2 - v.2) * cross u v P = 0 := by linarith
  have hu' : u.2 = v.2 := by
    rcases mul_eq_zero.mp e1 with h | h
    · linarith
    · exact absurd h A.ne'
  have hw' : w.2 = v.2 := by
    rcases mul_eq_zero.mp e2 with h | h
    · linarith
    · exact absurd h B.ne'
  have : cross u v w = 0 := by unfold cross; rw [hu', hw']; ring
  exact absurd this C.ne'

/-- … nor strictly above it when the corner is a highest vertex -/
theorem corner_high {u v w P : α × α} (A : 0 < cross v w P) (B : 0 < cross u v P) (C : 0 < cross u v w)
    (hu : u.2 ≤ v.2) (hw : w.2 ≤ v.2) (hP : v.2 < P.2) : False := by
  have hid := corner_identity u v w P
  have h1 : (u.2 - v.2) * cross v w P ≤ 0 := mul_nonpos_of_nonpos_of_nonneg (by linarith) A.le
  have h2 : (w.2 - v.2) * cross u v P ≤ 0 := mul_nonpos_of_nonpos_of_nonneg (by linarith) B.le
  have h3 : 0 < (P.2 - v.2) * cross u v w := mul_pos (by linarith) C
  linarith

/-- the three consecutive vertices around any vertex of a polygon with at least 3 distinct vertices -/
theorem exists_corner {poly : List (α × α)} (hn : 3 ≤ poly.length) (hnd : poly.Nodup) {v : α × α}
    (hv : v ∈ poly) : ∃ u w : α × α, (u, v) ∈ edges poly ∧ (v, w) ∈ edges poly ∧ u ∈ poly ∧ w ∈ poly ∧
      w ≠ u ∧ w ≠ v := by
  obtain ⟨k, u, w, rest, hrot⟩ := exists_rotate_second hv hn
  have hnd' : (u :: v :: w :: rest).Nodup := hrot ▸ List.nodup_rotate.mpr hnd
  have hperm := edges_rotate_perm poly k
  rw [hrot] at hperm
  have he1 : (u, v) ∈ edges (u :: v :: w :: rest) := by simp [edges, edgesFrom]
  have he2 : (v, w) ∈ edges (u :: v :: w :: rest) := by simp [edges, edgesFrom]
  have hu : u ∈ poly := List.mem_rotate.mp (hrot ▸ List.mem_cons_self ..)
  have hw : w ∈ poly := by
    have : w ∈ poly.rotate k := by rw [hrot]; simp
    exact List.mem_rotate.mp this
  simp only [List.nodup_cons, List.mem_cons, not_or] at hnd'
  exact ⟨u, w, hperm.subset he1, hperm.subset he2, hu, hw, fun h => hnd'.1.2.1 h.symm,
    fun h => hnd'.2.1.1 h.symm⟩

/-- a point strictly inside (left of every edge of) a strictly convex polygon has vertices strictly below it … -/
theorem exists_below_of_leftOfAll {poly : List (α × α)} {pt : α × α} (hn : 3 ≤ poly.length) (hnd : poly.Nodup)
    (hcv : StrictConvexCCW poly) (hleft : LeftOfAll poly pt) : ∃ v ∈ poly, below pt.2 v.2 = true := by
  by_contra hc
  push Not at hc
  have hne : poly ≠ [] := by intro h; rw [h] at hn; simp at hn
  obtain ⟨v, hv, hmin⟩ := exists_min_mem (fun q : α × α => q.2) hne
  obtain ⟨u, w, he1, he2, hu, hw, hwu, hwv⟩ := exists_corner hn hnd hv
  have hP : pt.2 ≤ v.2 := by
    have := hc v hv
    simpa [below] using this
  exact corner_low (hleft _ he2) (hleft _ he1) (hcv _ he1 w hw hwu hwv) (hmin u hu) (hmin w hw) hP

/-- … and vertices at or above it -/
theorem exists_notBelow_of_leftOfAll {poly : List (α × α)} {pt : α × α} (hn : 3 ≤ poly.length) (hnd : poly.Nodup)
    (hcv : StrictConvexCCW poly) (hleft : LeftOfAll poly pt) : ∃ v ∈ poly, below pt.2 v.2 = false := by
  by_contra hc
  push Not at hc
  have hne : poly ≠ [] := by intro h; rw [h] at hn; simp at hn
  obtain ⟨v, hv, hmax⟩ := exists_min_mem (fun q : α × α => -q.2) hne
  obtain ⟨u, w, he1, he2, hu, hw, hwu, hwv⟩ := exists_corner hn hnd hv
  have hP : v.2 < pt.2 := by
    have := hc v hv
    simpa [below] using this
  have h1 := hmax u hu
  have h2 := hmax w hw
  simp only [neg_le_neg_iff] at h1 h2
  exact corner_high (hleft _ he2) (hleft _ he1) (hcv _ he1 w hw hwu hwv) h1 h2 hP

/-! ### the two directions -/

/-- strictly left of every edge ⇒ the crossing test fires exactly on the edges going up through the level of the
point -/
theorem crossR_eq_isUp_of_left {x y : α} {p1 p2 : α × α} (hl : 0 < cross p1 p2 (x, y)) :
    crossR x y p1 p2 = isUp y p1 p2 := by
  unfold crossR; rw [straddle_eq_up_or_down]
  cases hu : isUp y p1 p2
  · cases hd : isDown y p1 p2
    · rfl
    · have := (cross_pos_down hd).mp hl
      simp [not_lt.mpr this.le]
  · have := (cross_pos_up hu).mp hl
    simp [this]

theorem evenOdd_of_leftOfAll {poly : List (α × α)} {pt : α × α} (hn : 3 ≤ poly.length) (hnd : poly.Nodup)
    (hcv : StrictConvexCCW poly) (hleft : LeftOfAll poly pt) : evenOdd poly pt = true := by
  have h1 : evenOdd poly pt = parity ((edges poly).map fun e => isUp pt.2 e.1 e.2) := by
    unfold evenOdd
    apply parity_map_congr
    intro e he
    exact crossR_eq_isUp_of_left (hleft e he)
  rw [h1]
  obtain ⟨v, hv, hvb⟩ := exists_below_of_leftOfAll hn hnd hcv hleft
  obtain ⟨w, hw, hwb⟩ := exists_notBelow_of_leftOfAll hn hnd hcv hleft
  obtain ⟨e, he, hs1, hs2⟩ := exists_switch_cycle (fun q : α × α => below pt.2 q.2) ⟨v, hv, hvb⟩ ⟨w, hw, hwb⟩
  have hup : isUp pt.2 e.1 e.2 = true := by
    simp only [isUp]
    rw [show below pt.2 e.1.2 = true from hs1, show below pt.2 e.2.2 = false from hs2]; rfl
  rw [parity_at_most_one (g := fun e => isUp pt.2 e.1 e.2) (edges_nodup hnd) he
    (fun b hb hgb => up_edge_unique hnd hcv hb he hgb hup)]
  exact hup

theorem crossR_split (x y : α) (p1 p2 : α × α) :
    crossR x y p1 p2 = xor (isUp y p1 p2 && decide (x < xint y p1 p2)) (isDown y p1 p2 && decide (x < xint y p1 p2)) := by
  unfold crossR straddle isUp isDown
  cases below y p1.2 <;> cases below y p2.2 <;> cases decide (x < xint y p1 p2) <;> rfl

/-- in a strictly convex polygon: if the even-odd rule accepts the point, there are exactly one edge `e` going up and
one edge `f` going down through its level, and the point lies strictly between them -/
theorem between_of_evenOdd {poly : List (α × α)} {pt : α × α} (hnd : poly.Nodup)
    (hcv : StrictConvexCCW poly) (hoff : OffEdges poly pt) (hin : evenOdd poly pt = true) :
    ∃ e ∈ edges poly, ∃ f ∈ edges poly, isUp pt.2 e.1 e.2 = true ∧ isDown pt.2 f.1 f.2 = true ∧
      xint pt.2 f.1 f.2 < pt.1 ∧ pt.1 < xint pt.2 e.1 e.2 := by
  -- some edge is crossed, hence straddles
  have hex : ∃ e0 ∈ edges poly, crossR pt.1 pt.2 e0.1 e0.2 = true := by
    by_contra hc
    push Not at hc
    have : evenOdd poly pt = false := parity_map_false fun e he => by simpa using hc e he
    rw [this] at hin; cases hin
  obtain ⟨e0, he0, hc0⟩ := hex
  have hs0 := crossR_straddle hc0
  -- so there are vertices on both sides
  have hboth : (∃ v ∈ poly, below pt.2 v.2 = true) ∧ (∃ w ∈ poly, below pt.2 w.2 = false) := by
    unfold straddle at hs0
    cases h1 : below pt.2 e0.1.2 <;> cases h2 : below pt.2 e0.2.2
    · rw [h1, h2] at hs0; cases hs0
    · exact ⟨⟨_, (mem_edges he0).2, h2⟩, ⟨_, (mem_edges he0).1, h1⟩⟩
    · exact ⟨⟨_, (mem_edges he0).1, h1⟩, ⟨_, (mem_edges he0).2, h2⟩⟩
    · rw [h1, h2] at hs0; cases hs0
  obtain ⟨⟨v, hv, hvb⟩, ⟨w, hw, hwb⟩⟩ := hboth
  obtain ⟨e, he, hs1, hs2⟩ := exists_switch_cycle (fun q : α × α => below pt.2 q.2) ⟨v, hv, hvb⟩ ⟨w, hw, hwb⟩
  obtain ⟨f, hf, hf1, hf2⟩ := exists_switch_cycle (fun q : α × α => !below pt.2 q.2)
    ⟨w, hw, by simp [hwb]⟩ ⟨v, hv, by simp [hvb]⟩
  have hup : isUp pt.2 e.1 e.2 = true := by
    simp only [isUp]
    rw [show below pt.2 e.1.2 = true from hs1, show below pt.2 e.2.2 = false from hs2]; rfl
  have hdn : isDown pt.2 f.1 f.2 = true := by
    simp only [isDown]; simp only [Bool.not_eq_eq_eq_not, Bool.not_true, Bool.not_false] at hf1 hf2
    rw [hf1, hf2]; rfl
  -- the parity splits over the unique up edge and the unique down edge
  have hsplit : evenOdd poly pt =
      xor (decide (pt.1 < xint pt.2 e.1 e.2)) (decide (pt.1 < xint pt.2 f.1 f.2)) := by
    unfold evenOdd
    rw [parity_map_congr (g := fun e' => xor (isUp pt.2 e'.1 e'.2 && decide (pt.1 < xint pt.2 e'.1 e'.2))
      (isDown pt.2 e'.1 e'.2 && decide (pt.1 < xint pt.2 e'.1 e'.2))) (fun e' _ => crossR_split _ _ _ _),
      parity_map_xor]
    rw [parity_at_most_one (g := fun e' => isUp pt.2 e'.1 e'.2 && decide (pt.1 < xint pt.2 e'.1 e'.2))
        (edges_nodup hnd) he (fun b hb hgb =>
          up_edge_unique hnd hcv hb he (by simp only [Bool.and_eq_true] at hgb; exact hgb.1) hup),
      parity_at_most_one (g := fun e' => isDown pt.2 e'.1 e'.2 && decide (pt.1 < xint pt.2 e'.1 e'.2))
        (edges_nodup hnd) hf (fun b hb hgb =>
          down_edge_unique hnd hcv hb hf (by simp only [Bool.and_eq_true] at hgb; exact hgb.1) hdn)]
    simp only [hup, hdn, Bool.true_and]
  -- convexity orders the two crossing abscissae
  have hord : xint pt.2 f.1 f.2 ≤ xint pt.2 e.1 e.2 := by
    have := level_point_nonneg hcv he hf (isDown_straddle hdn)
    by_contra hc
    have hlt := not_le.mp hc
    have := (cross_pos_up (x := xint pt.2 f.1 f.2) hup).not.mpr (not_lt.mpr hlt.le)
    have h0 : cross e.1 e.2 (xint pt.2 f.1 f.2, pt.2) = 0 := le_antisymm (not_lt.mp this) ‹_›
    rw [cross_eq_mul (straddle_ne (isUp_straddle hup))] at h0
    rcases mul_eq_zero.mp h0 with h | h
    · exact straddle_ne (isUp_straddle hup) h
    · linarith
  rw [hsplit] at hin
  have hne_e := hoff e he (isUp_straddle hup)
  have hne_f := hoff f hf (isDown_straddle hdn)
  refine ⟨e, he, f, hf, hup, hdn, ?_, ?_⟩
  · by_contra hc
    have h1 : pt.1 < xint pt.2 f.1 f.2 := lt_of_le_of_ne (not_lt.mp hc) hne_f
    have h2 : pt.1 < xint pt.2 e.1 e.2 := lt_of_lt_of_le h1 hord
    simp [h1, h2] at hin
  · by_contra hc
    have h1 : ¬ pt.1 < xint pt.2 f.1 f.2 := fun h => hc (lt_of_lt_of_le h hord)
    simp [h1, hc] at hin

theorem xint_at_top {y : α} {p1 p2 : α × α} (h : p2.2 = y) (hne : p2.2 - p1.2 ≠ 0) : xint y p1 p2 = p2.1 := by
  unfold xint; rw [← h]; field_simp; ring

theorem xint_at_start {y : α} {p1 p2 : α × α} (h : p1.2 = y) : xint y p1 p2 = p1.1 := by
  unfold xint; rw [h, sub_self, zero_mul, zero_div, add_zero]

/-- the even-odd rule accepts a point off the boundary of a strictly convex polygon only if the point is strictly
left of every edge -/
theorem leftOfAll_of_evenOdd {poly : List (α × α)} {pt : α × α} (hnd : poly.Nodup)
    (hcv : StrictConvexCCW poly) (hfar : Far 0 poly pt) (hin : evenOdd poly pt = true) : LeftOfAll poly pt := by
  obtain ⟨e, he, f, hf, hup, hdn, hxf, hxe⟩ :=
    between_of_evenOdd hnd hcv (far_offEdges (le_refl 0) hfar) hin
  intro g hg
  set y := pt.2 with hy
  set x := pt.1 with hx
  set xe := xint y e.1 e.2 with hxe_def
  set xf := xint y f.1 f.2 with hxf_def
  have hge : 0 ≤ cross g.1 g.2 (xe, y) := level_point_nonneg hcv hg he (isUp_straddle hup)
  have hgf : 0 ≤ cross g.1 g.2 (xf, y) := level_point_nonneg hcv hg hf (isDown_straddle hdn)
  have hd : 0 < xe - xf := by linarith
  set lam := (x - xf) / (xe - xf) with hlam
  have hl0 : 0 < lam := div_pos (by linarith) hd
  have hl1 : lam < 1 := (div_lt_one hd).mpr (by linarith)
  have hpt : pt = (((xf, y) : α × α).1 + lam * (((xe, y) : α × α).1 - ((xf, y) : α × α).1),
      ((xf, y) : α × α).2 + lam * (((xe, y) : α × α).2 - ((xf, y) : α × α).2)) := by
    apply Prod.ext
    · simp only [hlam]; field_simp; ring
    · simp [hy]
  have hcomb : cross g.1 g.2 pt = (1 - lam) * cross g.1 g.2 (xf, y) + lam * cross g.1 g.2 (xe, y) := by
    conv_lhs => rw [hpt]
    exact cross_affine _ _ _ _ _
  have hnn : 0 ≤ cross g.1 g.2 pt := by
    rw [hcomb]
    have := mul_nonneg (by linarith : 0 ≤ 1 - lam) hgf
    have := mul_nonneg hl0.le hge
    linarith
  rcases eq_or_lt_of_le hnn with h0 | hpos
  swap
  · exact hpos
  exfalso
  -- both level points are on the line of `g`
  have t1 : 0 ≤ (1 - lam) * cross g.1 g.2 (xf, y) := mul_nonneg (by linarith) hgf
  have t2 : 0 ≤ lam * cross g.1 g.2 (xe, y) := mul_nonneg hl0.le hge
  have z1 : cross g.1 g.2 (xf, y) = 0 := by
    have : (1 - lam) * cross g.1 g.2 (xf, y) = 0 := by linarith
    rcases mul_eq_zero.mp this with h | h
    · linarith
    · exact h
  have z2 : cross g.1 g.2 (xe, y) = 0 := by
    have : lam * cross g.1 g.2 (xe, y) = 0 := by linarith
    rcases mul_eq_zero.mp this with h | h
    · linarith
    · exact h
  -- hence `g` is horizontal
  have hdy : g.2.2 - g.1.2 = 0 := by
    have : (g.2.2 - g.1.2) * (xe - xf) = 0 := by
      have := z1; have := z2; unfold cross at z1 z2; simp only at z1 z2; linarith
    rcases mul_eq_zero.mp this with h | h
    · exact h
    · linarith
  obtain ⟨ha1, ha2⟩ := isUp_iff.mp hup      -- e.1 strictly below, e.2 not
  obtain ⟨hc1, hc2⟩ := isDown_iff.mp hdn    -- f.2 strictly below, f.1 not
  have hcross_g : ∀ v : α × α, cross g.1 g.2 v = (g.2.1 - g.1.1) * (v.2 - g.1.2) := by
    intro v; unfold cross; rw [hdy]; ring
  have hlev : (g.2.1 - g.1.1) * (y - g.1.2) = 0 := by rw [hcross_g] at z1; exact z1
  -- the vertex below the level is strictly left of `g` unless it is an end point of `g`
  have hA : e.1 = g.1 ∨ e.1 = g.2 ∨ 0 < (g.2.1 - g.1.1) * (e.1.2 - g.1.2) := by
    by_cases h1 : e.1 = g.1
    · exact Or.inl h1
    by_cases h2 : e.1 = g.2
    · exact Or.inr (Or.inl h2)
    exact Or.inr (Or.inr (hcross_g e.1 ▸ hcv g hg e.1 (mem_edges he).1 h1 h2))
  have hB := convex_nonneg hcv hg (mem_edges he).2
  have hC := convex_nonneg hcv hg (mem_edges hf).1
  rw [hcross_g] at hB hC
  -- level of `g`
  have hgy : g.1.2 = y := by
    rcases mul_eq_zero.mp hlev with h | h
    · -- `g` degenerate: all crosses vanish, so both ends of `e` coincide with it
      exfalso
      have hz : ∀ v : α × α, cross g.1 g.2 v = 0 := by intro v; rw [hcross_g, h, zero_mul]
      have hg12 : g.1 = g.2 := Prod.ext (by linarith) (by linarith)
      have e1 : e.1 = g.1 := by
        by_contra hne
        exact absurd (hcv g hg e.1 (mem_edges he).1 hne (hg12 ▸ hne)) (by rw [hz]; exact lt_irrefl 0)
      have e2 : e.2 = g.1 := by
        by_contra hne
        exact absurd (hcv g hg e.2 (mem_edges he).2 hne (hg12 ▸ hne)) (by rw [hz]; exact lt_irrefl 0)
      rw [e1, ← e2] at ha1; linarith
    · linarith
  have hg2y : g.2.2 = y := by linarith
  have hdx : g.2.1 - g.1.1 < 0 := by
    rcases hA with h | h | h
    · rw [h, hgy] at ha1; exact absurd ha1 (lt_irrefl _)
    · rw [h, hg2y] at ha1; exact absurd ha1 (lt_irrefl _)
    · rw [hgy] at h
      by_contra hc
      have := mul_nonpos_of_nonneg_of_nonpos (not_lt.mp hc) (by linarith : e.1.2 - y ≤ 0)
      linarith
  rw [hgy] at hB hC
  have hb2 : e.2.2 = y := by
    by_contra hne
    have : 0 < e.2.2 - y := lt_of_le_of_ne (by linarith) (fun h => hne (by linarith))
    have := mul_neg_of_neg_of_pos hdx this
    linarith
  have hc2' : f.1.2 = y := by
    by_contra hne
    have : 0 < f.1.2 - y := lt_of_le_of_ne (by linarith) (fun h => hne (by linarith))
    have := mul_neg_of_neg_of_pos hdx this
    linarith
  have hbg : e.2 = g.1 ∨ e.2 = g.2 := by
    by_contra hc
    push Not at hc
    have := hcv g hg e.2 (mem_edges he).2 hc.1 hc.2
    rw [hcross_g, hb2, hgy, sub_self, mul_zero] at this
    exact lt_irrefl 0 this
  have hcg : f.1 = g.1 ∨ f.1 = g.2 := by
    by_contra hc
    push Not at hc
    have := hcv g hg f.1 (mem_edges hf).1 hc.1 hc.2
    rw [hcross_g, hc2', hgy, sub_self, mul_zero] at this
    exact lt_irrefl 0 this
  have hxe' : xe = e.2.1 := xint_at_top hb2 (straddle_ne (isUp_straddle hup))
  have hxf' : xf = f.1.1 := xint_at_start hc2'
  -- the point lies on the segment `g`
  have hbetween : min g.1.1 g.2.1 ≤ x ∧ x ≤ max g.1.1 g.2.1 := by
    rw [hxe'] at hxe; rw [hxf'] at hxf
    rcases hbg with hb | hb <;> rcases hcg with hc | hc
    · rw [hb] at hxe; rw [hc] at hxf; linarith
    · rw [hb] at hxe; rw [hc] at hxf
      exact ⟨(min_le_right _ _).trans hxf.le, hxe.le.trans (le_max_left _ _)⟩
    · rw [hb] at hxe; rw [hc] at hxf
      exact ⟨(min_le_left _ _).trans hxf.le, hxe.le.trans (le_max_right _ _)⟩
    · rw [hb] at hxe; rw [hc] at hxf; linarith
  obtain ⟨t, ht0, ht1, ht⟩ := exists_param hbetween.1 hbetween.2
  rcases hfar g hg t ht0 ht1 with h | h
  · rw [ht, sub_self, abs_zero] at h; exact lt_irrefl 0 h
  · rw [hdy, mul_zero, add_zero, hgy, sub_self, abs_zero] at h; exact lt_irrefl 0 h

theorem far_mono {a b : α} {poly : List (α × α)} {pt : α × α} (hab : a ≤ b) (h : Far b poly pt) : Far a poly pt := by
  intro e he t h0 h1
  rcases h e he t h0 h1 with h | h
  · exact Or.inl (lt_of_le_of_lt hab h)
  · exact Or.inr (lt_of_le_of_lt hab h)

theorem cross_swap (p1 p2 q : α × α) : cross p2 p1 q = -cross p1 p2 q := by unfold cross; ring

/-- left of every edge of the reversed polygon = right of every edge of the polygon -/
theorem leftOfAll_reverse {poly : List (α × α)} {pt : α × α} :
    LeftOfAll poly.reverse pt ↔ ∀ e ∈ edges poly, cross e.1 e.2 pt < 0 := by
  have hperm := edges_reverse_perm poly
  constructor
  · intro h e he
    have : e.swap ∈ edges poly.reverse := hperm.symm.subset (List.mem_map.mpr ⟨e, he, rfl⟩)
    have := h _ this
    simp only [Prod.fst_swap, Prod.snd_swap, cross_swap e.1 e.2] at this
    linarith
  · intro h e he
    obtain ⟨e', he', rfl⟩ := List.mem_map.mp (hperm.subset he)
    have := h e' he'
    simp only [Prod.fst_swap, Prod.snd_swap, cross_swap e'.1 e'.2]
    linarith

end HydroVerif.C15
