/-
C05 — helper lemmas (not property statements): a small weakest-precondition calculus for the footprint
models of `Model/C05.lean` (`wp r Q` = "the run `r` ends without fault and its result satisfies `Q`"),
the loop rule with an invariant, and the tactic `wp_step` that peels one model statement.
-/
import HydroVerif.Model.C05
import HydroVerif.Lemmas.C07Grid
import Mathlib.Tactic.Linarith
import Mathlib.Tactic.Ring
import Mathlib.Data.List.Perm.Subperm
import Mathlib.Data.List.Range
import Mathlib.Data.List.Nodup

namespace HydroVerif.C05

@[simp] theorem constExt_apply (n : Nat) (b : Buf) : constExt n b = n := rfl

/-- the run ends with a value (no fault) and the value satisfies `Q` -/
def wp {α : Type} (r : R α) (Q : α → Prop) : Prop := ∃ x, r = .ok x ∧ Q x

theorem safe_of_wp {α : Type} {r : R α} {Q : α → Prop} (h : wp r Q) : Safe r :=
  let ⟨x, hx, _⟩ := h; ⟨x, hx⟩

theorem wp_of_safe {α : Type} {r : R α} (h : Safe r) : wp r (fun _ => True) :=
  let ⟨x, hx⟩ := h; ⟨x, hx, trivial⟩

theorem wp_mono {α : Type} {r : R α} {P Q : α → Prop} (h : wp r P) (hpq : ∀ x, P x → Q x) : wp r Q :=
  let ⟨x, hx, hp⟩ := h; ⟨x, hx, hpq x hp⟩

theorem wp_ok {α : Type} {x : α} {Q : α → Prop} (h : Q x) : wp (Except.ok x : R α) Q := ⟨x, rfl, h⟩

theorem wp_pure {α : Type} {x : α} {Q : α → Prop} (h : Q x) : wp (pure x : R α) Q := ⟨x, rfl, h⟩

theorem wp_bind {α β : Type} {a : R α} {f : α → R β} {Q : β → Prop}
    (h : wp a (fun x => wp (f x) Q)) : wp (a >>= f) Q := by
  obtain ⟨x, hx, y, hy, hq⟩ := h
  exact ⟨y, by rw [hx]; exact hy, hq⟩

theorem wp_map {α β : Type} {a : R α} {f : α → β} {Q : β → Prop}
    (h : wp a (fun x => Q (f x))) : wp (a.map f) Q := by
  obtain ⟨x, hx, hq⟩ := h
  exact ⟨f x, by rw [hx]; rfl, hq⟩

theorem wp_acc {e : Ext} {b : Buf} {i : Int} {Q : Unit → Prop}
    (hi : 0 ≤ i ∧ i < (e b : Int)) (h : Q ()) : wp (acc e b i) Q :=
  ⟨(), by simp [acc, hi.1, hi.2], h⟩

theorem wp_rdI {e : Ext} {b : Buf} {f : Nat → Int} {i : Int} {Q : Int → Prop}
    (hi : 0 ≤ i ∧ i < (e b : Int)) (h : Q (f i.toNat)) : wp (rdI e b f i) Q :=
  ⟨f i.toNat, by simp [rdI, hi.1, hi.2], h⟩

theorem wp_i32 {x : Int} {Q : Int → Prop} (hx : -2147483648 ≤ x ∧ x ≤ 2147483647) (h : Q x) : wp (i32 x) Q :=
  ⟨x, by simp [i32, i32min, i32max, hx.1, hx.2], h⟩

theorem wp_i64 {x : Int} {Q : Int → Prop} (hx : -9223372036854775808 ≤ x ∧ x ≤ 9223372036854775807) (h : Q x) :
    wp (i64 x) Q :=
  ⟨x, by simp [i64, i64min, i64max, hx.1, hx.2], h⟩

theorem wp_castI32 {x : Int} {Q : Int → Prop} (hx : -2147483648 ≤ x ∧ x ≤ 2147483647) (h : Q x) :
    wp (castI32 (some x)) Q := wp_i32 hx h

theorem wp_castI64 {x : Int} {Q : Int → Prop} (hx : -9223372036854775808 ≤ x ∧ x ≤ 9223372036854775807)
    (h : Q x) : wp (castI64 (some x)) Q := wp_i64 hx h

/-- an `int` value -/
def I32 (x : Int) : Prop := -2147483648 ≤ x ∧ x ≤ 2147483647
/-- a `long long` value -/
def I64 (x : Int) : Prop := -9223372036854775808 ≤ x ∧ x ≤ 9223372036854775807

/-- C remainder: for a non-negative dividend and a positive divisor it lies in `0 .. b-1` -/
theorem wp_cmod {a b : Int} {Q : Int → Prop} (hb : b ≠ 0)
    (h : ∀ m, (0 ≤ a → 0 < b → 0 ≤ m ∧ m < b) → Q m) : wp (cmod a b) Q :=
  ⟨a.tmod b, by simp [cmod, hb],
    h _ (fun ha hb' => ⟨Int.tmod_nonneg _ ha, Int.tmod_lt_of_pos _ hb'⟩)⟩

theorem wp_cdiv {a b : Int} {Q : Int → Prop} (hb : b ≠ 0) (h : Q (a.tdiv b)) : wp (cdiv a b) Q :=
  ⟨a.tdiv b, by simp [cdiv, hb], h⟩

theorem wp_ite {α : Type} {c : Prop} [Decidable c] {a b : R α} {Q : α → Prop}
    (ht : c → wp a Q) (hf : ¬ c → wp b Q) : wp (if c then a else b) Q := by
  split
  · exact ht ‹_›
  · exact hf ‹_›

theorem wp_bite {α : Type} {c : Bool} {a b : R α} {Q : α → Prop}
    (ht : c = true → wp a Q) (hf : c = false → wp b Q) : wp (if c then a else b) Q := by
  cases c
  · exact hf rfl
  · exact ht rfl

/-- loop rule: an invariant that holds at the start, that every iteration keeps (without fault), gives the
invariant at the end — or an early exit -/
theorem wp_forLoop {σ ρ : Type} (Inv : Int → σ → Prop) {body : Int → σ → R (σ ⊕ ρ)} :
    ∀ (k : Nat) (i : Int) (s : σ) {Q : σ ⊕ ρ → Prop}, Inv i s →
      (∀ j s, i ≤ j → j < i + k → Inv j s → wp (body j s) (fun x => ∀ s', x = .inl s' → Inv (j + 1) s')) →
      (∀ x, (∀ s', x = .inl s' → Inv (i + k) s') → Q x) →
      wp (forLoop body k i s) Q := by
  intro k
  induction k with
  | zero =>
    intro i s Q h _ hq
    exact ⟨.inl s, rfl, hq _ (by intro s' hs; cases hs; simpa using h)⟩
  | succ k ih =>
    intro i s Q h hb hq
    obtain ⟨x, hx, hinv⟩ := hb i s (Int.le_refl _) (by omega) h
    cases x with
    | inr r => exact ⟨.inr r, by simp [forLoop, hx], hq _ (by intro s' hs; cases hs)⟩
    | inl s1 =>
      have h2 := ih (i + 1) s1 (Q := Q) (hinv s1 rfl)
        (fun j s hj1 hj2 hI => hb j s (by omega) (by omega) hI)
        (fun x hx => hq x (by
          intro s' hs
          have := hx s' hs
          have e : i + 1 + (k : Int) = i + ((k + 1 : Nat) : Int) := by push_cast; omega
          rw [e] at this; exact this))
      obtain ⟨y, hy, hqy⟩ := h2
      exact ⟨y, by simp [forLoop, hx, hy], hqy⟩

/-- loop rule for a stateless loop without early exit: every iteration is fault-free -/
theorem wp_forEach {body : Int → R Unit} {k : Nat} {i0 : Int} {Q : Unit → Prop}
    (hb : ∀ j, i0 ≤ j → j < i0 + k → wp (body j) (fun _ => True)) (hq : Q ()) :
    wp (forEach body k i0) Q := by
  unfold forEach
  have := wp_forLoop (σ := Unit) (ρ := Empty) (fun _ _ => True)
    (body := fun i _ => (body i).map fun _ => Sum.inl ()) k i0 () (Q := fun _ => True) trivial
    (fun j _ h1 h2 _ => wp_map (wp_mono (hb j h1 h2) (fun _ _ _ _ => trivial)))
    (fun _ _ => trivial)
  obtain ⟨x, hx, _⟩ := this
  rw [hx]
  exact ⟨(), rfl, hq⟩

/-- one statement of a model: binds, pures, accesses (bounds left as goals), conversions, `if` -/
macro "wp_step" : tactic => `(tactic| first
  | apply wp_pure
  | apply wp_ok
  | apply wp_bind
  | (refine wp_acc ⟨?_, ?_⟩ ?_)
  | (refine wp_rdI ⟨?_, ?_⟩ ?_)
  | (refine wp_i32 ⟨?_, ?_⟩ ?_)
  | (refine wp_i64 ⟨?_, ?_⟩ ?_)
  | (refine wp_castI32 ⟨?_, ?_⟩ ?_)
  | (refine wp_castI64 ⟨?_, ?_⟩ ?_)
  | (refine wp_ite (fun _ => ?_) (fun _ => ?_))
  | (refine wp_bite (fun _ => ?_) (fun _ => ?_)))

theorem wp_daysinmonth (m : Int) : wp (daysinmonth m) (fun r => r < 0 ↔ (m < 1 ∨ m > 12)) := by
  unfold daysinmonth
  refine wp_ite (fun h => wp_pure ?_) (fun h => ?_)
  · simp [h]
  · refine wp_bind (wp_acc ⟨by omega, by simp; omega⟩ (wp_pure ?_))
    simp; omega

theorem nbdayOf_range (y m : Int) : 28 ≤ nbdayOf y m ∧ nbdayOf y m ≤ 31 := by
  unfold nbdayOf
  simp only []
  split <;> [split; split] <;> omega

/-- closes the post-condition of a loop body: `∀ s', x = .inl s' → Inv (j+1) s'` -/
macro "wp_post1" : tactic =>
  `(tactic| (intro s' hs; cases hs <;> first | omega | (simp; omega) | assumption | trivial))

/-- runs `wp_step` through a model, discharging bounds with `omega`; stops at loops with state
(`wp_forLoop` needs its invariant) and at results that must be split by cases -/
macro "wp_run" : tactic =>
  `(tactic| repeat' (first | omega | trivial | (simp only [constExt_apply, nbExt, oneExt, arMax] at *; omega) | (refine wp_cmod ?_ (fun _ _ => ?_)) | (refine wp_cdiv ?_ ?_) | wp_step | (refine wp_forEach (fun _ _ _ => ?_) ?_) | wp_post1 | (refine wp_forLoop (fun _ _ => True) _ _ _ trivial (fun _ _ _ _ _ => ?_) (fun _ _ => ?_)) | split))

/-- like `wp_run`, but stops at every loop with state and never splits a `match` (used where facts about
the loop variable — products — must be added by hand before going on) -/
macro "wp_lin" : tactic =>
  `(tactic| repeat' (first | omega | trivial | (simp only [constExt_apply, nbExt, oneExt, arMax] at *; omega) | (refine wp_cmod ?_ (fun _ _ => ?_)) | (refine wp_cdiv ?_ ?_) | wp_step | (refine wp_forEach (fun _ _ _ => ?_) ?_) | wp_post1))

/-- `m*i + j` stays inside `m*n` for `0 ≤ i < n`, `0 ≤ j < m` (row-major indexing) -/
theorem mul_idx_bound {m n i : Int} (hm : 0 ≤ m) (hi0 : 0 ≤ i) (hi : i < n) :
    0 ≤ m * i ∧ m * i + m ≤ m * n := by
  constructor
  · positivity
  · nlinarith

theorem mul_idx_bound' {m n i : Int} (hm : 0 ≤ m) (hi0 : 0 ≤ i) (hi : i < n) :
    0 ≤ i * m ∧ i * m + m ≤ n * m := by
  constructor
  · positivity
  · nlinarith

theorem wp_arChecks (e : Ext) (nparams : Int) (pnan : Nat → Bool) (bad : Bool)
    (h : nparams ≤ e .params) :
    wp (arChecks e (constExt 10) nparams pnan bad) (fun r => r = some () → 0 < nparams ∧ nparams ≤ 10) := by
  unfold arChecks
  wp_run
  all_goals (intro h; cases h)

/-! ### integer grid core -/
open HydroVerif.C07

/-- a cell number inside the grid -/
def InGrid (nrows ncols c : Int) : Prop := 0 ≤ c ∧ c < nrows * ncols

theorem ncols_ne_zero_of_inGrid {nrows ncols c : Int} (h : InGrid nrows ncols c) : ncols ≠ 0 := by
  rintro rfl
  simp [InGrid] at h
  omega

theorem wp_getnxy {ncols idx : Int} {Q : Int × Int → Prop} (h : ncols ≠ 0) (hq : ∀ x, Q x) :
    wp (getnxy ncols idx) Q := by
  unfold getnxy
  wp_lin
  all_goals first | assumption | exact hq _

/-- `c_coord2cell` for one point: no conversion fault, result `-1` or a cell of the grid -/
theorem wp_coord2cell1 {nrows ncols : Int} (fx fy : XInt)
    (hN : nrows * ncols ≤ 9223372036854775807) :
    wp (coord2cell1 nrows ncols fx fy) (fun c => c = -1 ∨ InGrid nrows ncols c) := by
  unfold coord2cell1
  cases fx with
  | none => cases fy <;> exact wp_pure (Or.inl rfl)
  | some x =>
    cases fy with
    | none => exact wp_pure (Or.inl rfl)
    | some y =>
      simp only []
      refine wp_ite (fun h => ?_) (fun _ => wp_pure (Or.inl rfl))
      obtain ⟨hx0, hx1, hy0, hy1⟩ := h
      have b := mul_idx_bound' (m := ncols) (n := nrows) (i := nrows - 1 - y) (by omega) (by omega) (by omega)
      have b0 := mul_idx_bound' (m := ncols) (n := nrows) (i := 0) (by omega) (by omega) (by omega)
      have b1 : nrows ≤ nrows * ncols := by nlinarith
      wp_lin
      right
      unfold InGrid
      omega

theorem wp_neighboursInto {eb : Ext} {b : Buf} {nrows ncols idx : Int} (hb : 9 ≤ eb b)
    (hr : 0 ≤ nrows) (hc : 0 ≤ ncols) (hN : nrows * ncols ≤ 9223372036854775807) :
    wp (neighboursInto eb b nrows ncols idx) (fun r => r = none ↔ ¬ InGrid nrows ncols idx) := by
  unfold neighboursInto
  have h0 : 0 ≤ nrows * ncols := Int.mul_nonneg hr hc
  refine wp_bind (wp_i64 ⟨by omega, by omega⟩ ?_)
  refine wp_ite (fun h => wp_pure ?_) (fun h => ?_)
  · simp [InGrid]; omega
  · have hg : InGrid nrows ncols idx := by unfold InGrid; omega
    refine wp_bind (wp_getnxy (ncols_ne_zero_of_inGrid hg) (fun _ => ?_))
    wp_lin
    simp [hg]
theorem neighbour_inGrid (nrows ncols idx : Int) (k : Nat) :
    neighbour nrows ncols idx k = -1 ∨ InGrid nrows ncols (neighbour nrows ncols idx k) := by
  by_cases h : neighbour nrows ncols idx k = -1
  · exact Or.inl h
  · exact Or.inr (validCell_iff.1 (neighbour_valid rfl h))

/-- the downstream cell is a sink mark, off-grid mark, or a cell of the grid -/
theorem downCell_spec (nrows ncols : Int) (code : Nat → Int) (fd idx : Int) :
    downCell nrows ncols code fd idx = -2 ∨ downCell nrows ncols code fd idx = -1 ∨
      InGrid nrows ncols (downCell nrows ncols code fd idx) := by
  unfold downCell
  split
  · exact Or.inl rfl
  · right
    have key : ∀ (l : List Nat) (d : Int), (d = -1 ∨ InGrid nrows ncols d) →
        (l.foldl (fun d j => if fd = code j then neighbour nrows ncols idx j else d) d = -1 ∨
          InGrid nrows ncols (l.foldl (fun d j => if fd = code j then neighbour nrows ncols idx j else d) d)) := by
      intro l
      induction l with
      | nil => intro d hd; simpa using hd
      | cons j l ih =>
        intro d hd
        simp only [List.foldl_cons]
        apply ih
        split
        · exact neighbour_inGrid nrows ncols idx j
        · exact hd
    exact key _ _ (Or.inl rfl)

theorem wp_downstream1 {e eb : Ext} {bu bd : Buf} {nrows ncols : Int} {code fdir : Nat → Int} {pos idx : Int}
    (hr : 0 ≤ nrows) (hc : 0 ≤ ncols) (hN : nrows * ncols ≤ 9223372036854775807)
    (hfd : nrows * ncols ≤ e .flowdir) (hcode : 9 ≤ e .flowdircode)
    (hp : 0 ≤ pos) (hbu : pos < eb bu) (hbd : pos < eb bd) :
    wp (downstream1 e eb bu bd nrows ncols code fdir pos idx)
      (fun r => (r = none ↔ ¬ InGrid nrows ncols idx) ∧
        ∀ d, r = some d → d = -2 ∨ d = -1 ∨ InGrid nrows ncols d) := by
  unfold downstream1
  have h0 : 0 ≤ nrows * ncols := Int.mul_nonneg hr hc
  refine wp_bind (wp_acc ⟨hp, hbu⟩ ?_)
  refine wp_bind (wp_i64 ⟨by omega, by omega⟩ ?_)
  refine wp_ite (fun h => wp_pure ?_) (fun h => ?_)
  · refine ⟨by simp [InGrid]; omega, by intro d hd; cases hd⟩
  · have hg : InGrid nrows ncols idx := by unfold InGrid; omega
    refine wp_bind (wp_mono (wp_neighboursInto (eb := nbExt) (b := .nbloc) (by simp [nbExt]) hr hc hN) (fun _ _ => ?_))
    unfold InGrid at hg
    wp_lin
    · refine ⟨by simp [InGrid]; omega, ?_⟩
      intro d hd; cases hd; exact Or.inl rfl
    · refine ⟨by simp [InGrid]; omega, ?_⟩
      intro d hd; cases hd; exact downCell_spec _ _ _ _ _

theorem wp_upstream1 {e eu : Ext} {nrows ncols : Int} {code fdir : Nat → Int} {row idx : Int}
    (hr : 0 ≤ nrows) (hc : 0 ≤ ncols) (hN : nrows * ncols ≤ 9223372036854775807)
    (hfd : nrows * ncols ≤ e .flowdir) (hcode : 9 ≤ e .flowdircode)
    (hrow : 0 ≤ row) (hup : 9 * row + 9 ≤ eu .idxup) :
    wp (upstream1 e eu nrows ncols code fdir row idx) (fun _ => True) := by
  unfold upstream1
  have h0 : 0 ≤ nrows * ncols := Int.mul_nonneg hr hc
  refine wp_bind (wp_i64 ⟨by omega, by omega⟩ ?_)
  refine wp_ite (fun h => wp_pure trivial) (fun h => ?_)
  refine wp_bind (wp_mono (wp_neighboursInto (eb := nbExt) (b := .nbloc) (by simp [nbExt]) hr hc hN) (fun _ _ => ?_))
  refine wp_bind (wp_forLoop (fun j k => 0 ≤ k ∧ k ≤ j) _ _ _ (by simp) ?_ ?_)
  · intro j k hj0 hj1 hI
    have hnb := neighbour_inGrid nrows ncols idx j.toNat
    unfold InGrid at hnb
    wp_lin
  · intro x hx
    cases x with
    | inr x => exact nomatch x
    | inl k =>
      have := hx k rfl
      wp_lin


theorem length_le_of_nodup_range {N : Int} (hN : 0 ≤ N) (l : List Int) (hnd : l.Nodup)
    (hr : ∀ x ∈ l, 0 ≤ x ∧ x < N) : (l.length : Int) ≤ N := by
  have hsub : l.map Int.toNat ⊆ List.range N.toNat := by
    intro n hn
    obtain ⟨x, hx, rfl⟩ := List.mem_map.1 hn
    have := hr x hx
    exact List.mem_range.2 (by omega)
  have hnd' : (l.map Int.toNat).Nodup := by
    refine List.Nodup.map_on ?_ hnd
    intro x hx y hy hxy
    have := hr x hx; have := hr y hy
    omega
  have := (List.subperm_of_subset hnd' hsub).length_le
  simp at this
  omega

/-- loop rule with a post-condition `P` for the early exits -/
theorem wp_forLoopP {σ ρ : Type} (Inv : Int → σ → Prop) (P : ρ → Prop) {body : Int → σ → R (σ ⊕ ρ)} :
    ∀ (k : Nat) (i : Int) (s : σ) {Q : σ ⊕ ρ → Prop}, Inv i s →
      (∀ j s, i ≤ j → j < i + k → Inv j s →
        wp (body j s) (fun x => (∀ s', x = .inl s' → Inv (j + 1) s') ∧ (∀ r, x = .inr r → P r))) →
      (∀ x, (∀ s', x = .inl s' → Inv (i + k) s') → (∀ r, x = .inr r → P r) → Q x) →
      wp (forLoop body k i s) Q := by
  intro k
  induction k with
  | zero =>
    intro i s Q h _ hq
    exact ⟨.inl s, rfl, hq _ (by intro s' hs; cases hs; simpa using h) (by intro r hr; cases hr)⟩
  | succ k ih =>
    intro i s Q h hb hq
    obtain ⟨x, hx, hinv, hp⟩ := hb i s (Int.le_refl _) (by omega) h
    cases x with
    | inr r => exact ⟨.inr r, by simp [forLoop, hx], hq _ (by intro s' hs; cases hs) (by intro r' hr; cases hr; exact hp r rfl)⟩
    | inl s1 =>
      have h2 := ih (i + 1) s1 (Q := Q) (hinv s1 rfl)
        (fun j s hj1 hj2 hI => hb j s (by omega) (by omega) hI)
        (fun x hx hpx => hq x (by
          intro s' hs
          have := hx s' hs
          have e : i + 1 + (k : Int) = i + ((k + 1 : Nat) : Int) := by push_cast; omega
          rw [e] at this; exact this) hpx)
      obtain ⟨y, hy, hqy⟩ := h2
      exact ⟨y, by simp [forLoop, hx, hy], hqy⟩

theorem wp_intersectFind {e : Ext} {stored : List Int} {c : Int}
    (h1 : stored.length ≤ e .idxcells) (h2 : stored.length ≤ e .weights) :
    wp (intersectFind e stored c) (fun found => found = true ↔ c ∈ stored) := by
  unfold intersectFind
  refine wp_bind (wp_forLoopP (fun j _ => ∀ k : Nat, (k : Int) < j → stored.getD k (-1) ≠ c)
    (fun _ => c ∈ stored) _ _ _ (by intro k hk; omega) ?_ ?_)
  · intro j _ hj0 hj1 hI
    wp_lin
    · constructor
      · intro s' hs; cases hs
      · intro r _
        have heq : stored.getD j.toNat (-1) = c := by assumption
        have hlt : j.toNat < stored.length := by omega
        simp only [List.getD_eq_getElem?_getD, List.getElem?_eq_getElem hlt, Option.getD_some] at heq
        rw [← heq]
        exact List.getElem_mem _
    · constructor
      · intro s' hs; cases hs
        intro k hk
        by_cases hkj : (k : Int) < j
        · exact hI k hkj
        · have : k = j.toNat := by omega
          subst this
          assumption
      · intro r hr; cases hr
  · intro x hinv hp
    cases x with
    | inr r => exact wp_pure (by simp; exact hp r rfl)
    | inl u =>
      refine wp_pure ?_
      simp only [Bool.false_eq_true, false_iff]
      intro hmem
      obtain ⟨k, hk, hke⟩ := List.getElem_of_mem hmem
      have := hinv u rfl k (by simp; omega)
      simp only [List.getD_eq_getElem?_getD, List.getElem?_eq_getElem hk, Option.getD_some] at this
      exact this hke
theorem wp_var2hScan {e : Ext} {nvalvar hstart : Int} {sec : Nat → Int} (h : nvalvar ≤ e .varsec) :
    wp (var2hScan e nvalvar hstart sec)
      (fun v0 => 0 ≤ v0 ∧ (1 ≤ v0 → v0 + 1 ≤ nvalvar ∧ sec (v0 - 1).toNat ≤ hstart)) := by
  unfold var2hScan
  refine wp_bind (wp_forLoopP (fun j _ => 1 ≤ j → sec (j - 1).toNat ≤ hstart)
    (fun r => 0 ≤ r ∧ r + 1 < nvalvar ∧ (1 ≤ r → sec (r - 1).toNat ≤ hstart)) _ _ _ (by intro h; omega) ?_ ?_)
  · intro j _ hj0 hj1 hI
    wp_lin
    · constructor
      · intro s' hs; cases hs
        intro _
        have : j + 1 - 1 = j := by omega
        rw [this]; assumption
      · intro r hr; cases hr
    · constructor
      · intro s' hs; cases hs
      · intro r hr; cases hr
        exact ⟨hj0, by omega, hI⟩
  · intro x hinv hp
    cases x with
    | inr j =>
      have := hp j rfl
      exact wp_pure ⟨this.1, fun h1 => ⟨by omega, this.2.2 h1⟩⟩
    | inl u =>
      have := hinv u rfl
      refine wp_pure ?_
      split
      · exact ⟨le_refl 0, fun h1 => by omega⟩
      · refine ⟨by omega, fun h1 => ⟨by omega, ?_⟩⟩
        have e1 : (0:Int) + ((nvalvar - 1).toNat : Int) = nvalvar - 1 := by omega
        rw [e1] at this
        exact this h1

theorem safe_of_isOk {α : Type} {r : R α} (h : isOk r = true) : Safe r := by
  cases r with
  | ok x => exact ⟨x, rfl⟩
  | error f => cases h

theorem combi_table : ∀ n : Fin 61, ∀ k : Fin 31, isOk (combi (n : Nat) (k : Nat)) = true := by
  decide +kernel

/-- `getnxy` with the range of its result for a cell of the grid -/
theorem wp_getnxy_range {nrows ncols idx : Int} {Q : Int × Int → Prop} (hg : InGrid nrows ncols idx)
    (hc : 0 ≤ ncols)
    (hq : ∀ x : Int × Int, 0 ≤ x.1 ∧ x.1 < ncols ∧ 0 ≤ x.2 ∧ x.2 < nrows → Q x) :
    wp (getnxy ncols idx) Q := by
  have hnz := ncols_ne_zero_of_inGrid hg
  have hpos : 0 < ncols := by omega
  unfold getnxy
  refine wp_bind ⟨idx.tmod ncols, by simp [cmod, hnz], ?_⟩
  refine wp_bind ⟨(idx - idx.tmod ncols).tdiv ncols, by simp [cdiv, hnz], ?_⟩
  refine wp_pure (hq _ ?_)
  have h1 := colOf_nonneg (ncols := ncols) (idx := idx) hpos hg.1
  have h2 := colOf_lt (ncols := ncols) (idx := idx) hpos hg.1
  have h3 := rowOf_nonneg (ncols := ncols) (idx := idx) hpos hg.1
  have h4 := rowOf_lt (nrows := nrows) (ncols := ncols) (idx := idx) hpos hg.1 hg.2
  unfold colOf at h1 h2
  unfold rowOf colOf at h3 h4
  exact ⟨h1, h2, h3, h4⟩

theorem wp_bndIsOut {e : Ext} {ngrid ncols : Int} {mask : Nat → Int} {c : Int}
    (hm : ngrid ≤ e .mask) (hc : 0 ≤ c ∧ c < ngrid) (hn : ngrid ≤ 4000000000000000000)
    (hcol : 0 ≤ ncols ∧ ncols ≤ 2000000000) :
    wp (bndIsOut e ngrid ncols mask c) (fun _ => True) := by
  unfold bndIsOut
  refine wp_bind (wp_forLoop (fun _ _ => True) _ _ _ trivial ?_ ?_)
  · intro k _ hk0 hk1 _
    have hs : -2000000000 ≤ bndShift ncols k ∧ bndShift ncols k ≤ 2000000000 := by
      unfold bndShift; split <;> [skip; split <;> [skip; split]] <;> omega
    wp_lin
  · intro x _
    cases x with
    | inr x => exact nomatch x
    | inl b => exact wp_pure trivial

theorem wp_bndStep1 {e : Ext} {nval ngrid ncols : Int} {cells mask : Nat → Int}
    (hv : 1 ≤ nval) (ha : nval ≤ e .idxcellsArea) (hb : nval ≤ e .buffer) (hm : ngrid ≤ e .mask)
    (hcells : ∀ i : Nat, (i : Int) < nval → 0 ≤ cells i ∧ cells i < ngrid)
    (hn : ngrid ≤ 4000000000000000000) (hcol : 0 ≤ ncols ∧ ncols ≤ 2000000000) :
    wp (bndStep1 e nval ngrid ncols cells mask)
      (fun r => ∀ buf, r = some buf → 1 ≤ buf.length ∧ (buf.length : Int) ≤ nval ∧
        ∀ b ∈ buf, 0 ≤ b ∧ b < ngrid) := by
  unfold bndStep1
  have h0 := hcells 0 (by omega)
  wp_lin
  refine wp_forLoop (fun i (buf : List Int) => 1 ≤ buf.length ∧ (buf.length : Int) ≤ i ∧
      ∀ b ∈ buf, 0 ≤ b ∧ b < ngrid) _ _ _ ?_ ?_ ?_
  · refine ⟨by simp, by simp, ?_⟩
    intro b hb'
    simp at hb'
    subst hb'
    simpa using h0
  · intro i buf hi0 hi1 hI
    have hci := hcells i.toNat (by omega)
    wp_lin
    · refine wp_mono (wp_bndIsOut hm hci hn hcol) (fun isout _ => ?_)
      wp_lin
      · intro s' hs; cases hs
        refine ⟨by simp, by simp; omega, ?_⟩
        intro b hb'
        rcases List.mem_append.1 hb' with h | h
        · exact hI.2.2 b h
        · simp at h; subst h; exact hci
      · intro s' hs; cases hs
        exact ⟨hI.1, by omega, hI.2.2⟩
  · intro x hx
    cases x with
    | inr u => exact wp_pure (by intro buf h; cases h)
    | inl buf =>
      have := hx buf rfl
      refine wp_pure ?_
      intro buf' h; cases h
      exact ⟨this.1, by omega, this.2.2⟩
theorem sq_bound {x B : Int} (h0 : -B ≤ x) (h1 : x ≤ B) : 0 ≤ x * x ∧ x * x ≤ B * B := by
  constructor
  · nlinarith
  · nlinarith

/-- what the boundary walk keeps about `(next, knext)` and the buffer -/
def BndOK (nrows ncols : Int) (n : Nat) (next knext : Int) : Prop :=
  (knext = -1 ∨ (0 ≤ knext ∧ knext < n)) ∧ (0 ≤ knext → InGrid nrows ncols next)

theorem wp_bndSearch {e : Ext} {nrows ncols cx cy : Int} {buf : List Int} {k : Int} {s : Int × Int × Int}
    (hb : (buf.length : Int) ≤ e .buffer) (hk : 0 ≤ k ∧ k < buf.length)
    (hbuf : ∀ b ∈ buf, b < 0 ∨ InGrid nrows ncols b)
    (hcx : 0 ≤ cx ∧ cx < ncols) (hcy : 0 ≤ cy ∧ cy < nrows)
    (hr : nrows ≤ 2000000000) (hc : 0 ≤ ncols ∧ ncols ≤ 2000000000)
    (hs : BndOK nrows ncols buf.length s.1 s.2.1) :
    wp (bndSearch e ncols cx cy buf k s)
      (fun x => (∀ s', x = .inl s' → BndOK nrows ncols buf.length s'.1 s'.2.1) ∧
                (∀ s', x = .inr s' → BndOK nrows ncols buf.length s'.1 s'.2.1)) := by
  unfold bndSearch
  refine wp_bind (wp_acc ⟨hk.1, by omega⟩ ?_)
  have hlt : k.toNat < buf.length := by omega
  have hmem : buf.getD k.toNat (-1) ∈ buf := by
    simp only [List.getD_eq_getElem?_getD, List.getElem?_eq_getElem hlt, Option.getD_some]
    exact List.getElem_mem _
  generalize buf.getD k.toNat (-1) = b at hmem
  simp only []
  refine wp_ite (fun _ => wp_pure ⟨by intro s' h; cases h; exact hs, by intro s' h; cases h⟩) (fun hb0 => ?_)
  have hg : InGrid nrows ncols b := (hbuf b hmem).resolve_left hb0
  refine wp_bind (wp_getnxy_range hg hc.1 (fun bxy hxy => ?_))
  have hdx := sq_bound (x := cx - bxy.1) (B := 2000000000) (by omega) (by omega)
  have hdy := sq_bound (x := cy - bxy.2) (B := 2000000000) (by omega) (by omega)
  norm_num at hdx hdy
  have hnew : BndOK nrows ncols buf.length b k := ⟨Or.inr ⟨hk.1, by omega⟩, fun _ => hg⟩
  wp_lin
  all_goals (refine ⟨?_, ?_⟩ <;> intro s' h <;> cases h <;> first | (split <;> assumption) | assumption)

/-- invariant of the boundary walk -/
def BndInv (nrows ncols : Int) (n : Nat) (j : Int) (s : Bnd2) : Prop :=
  InGrid nrows ncols s.idxcell ∧ s.buf.length = n ∧ (∀ b ∈ s.buf, b < 0 ∨ InGrid nrows ncols b) ∧
  BndOK nrows ncols n s.next s.knext ∧ s.ibnd = j

theorem wp_bndWalk {e : Ext} {nrows ncols dmax2 sx sy : Int} {n : Nat} {j : Int} {s : Bnd2}
    (hb : (n : Int) ≤ e .buffer) (hbd : (n : Int) ≤ e .idxboundary) (hj : 0 ≤ j ∧ j < n)
    (hr : nrows ≤ 2000000000) (hc : 0 ≤ ncols ∧ ncols ≤ 2000000000)
    (hsx : 0 ≤ sx ∧ sx < ncols) (hsy : 0 ≤ sy ∧ sy < nrows)
    (hI : BndInv nrows ncols n j s) :
    wp (bndWalk e ncols dmax2 sx sy j s)
      (fun x => (∀ s', x = .inl s' → BndInv nrows ncols n (j + 1) s') ∧
                (∀ s', x = .inr s' → 0 ≤ s'.ibnd ∧ s'.ibnd < n)) := by
  obtain ⟨hcell, hlen, hbuf, hok, hib⟩ := hI
  unfold bndWalk
  refine wp_bind (wp_getnxy_range hcell hc.1 (fun cxy hxy => ?_))
  refine wp_bind (wp_acc ⟨hj.1, by omega⟩ ?_)
  refine wp_bind (wp_forLoopP (fun _ (t : Int × Int × Int) => BndOK nrows ncols s.buf.length t.1 t.2.1)
    (fun (t : Int × Int × Int) => BndOK nrows ncols s.buf.length t.1 t.2.1) _ _ _
    (by rw [hlen]; exact hok) ?_ ?_)
  · intro k t hk0 hk1 ht
    exact wp_bndSearch (by rw [hlen]; exact hb) ⟨hk0, by omega⟩ hbuf ⟨hxy.1, hxy.2.1⟩ ⟨hxy.2.2.1, hxy.2.2.2⟩ hr hc ht
  · intro r hinl hinr
    have ht : ∀ t, (r = .inl t ∨ r = .inr t) → BndOK nrows ncols n t.1 t.2.1 := by
      intro t h
      rw [← hlen]
      rcases h with h | h
      · exact hinl t h
      · exact hinr t h
    have hdx := sq_bound (x := cxy.1 - sx) (B := 2000000000) (by omega) (by omega)
    have hdy := sq_bound (x := cxy.2 - sy) (B := 2000000000) (by omega) (by omega)
    norm_num at hdx hdy
    cases r with
    | inl t =>
      have hk := ht t (Or.inl rfl)
      obtain ⟨hk1, hk2⟩ := hk
      simp only []
      wp_lin
      all_goals first
        | (refine ⟨?_, ?_⟩ <;> intro s' h <;> cases h <;> first | (simp only []; omega) | skip)
        | skip
      all_goals first
        | (refine ⟨hk2 (by omega), by simp [hlen], ?_, ⟨hk1, hk2⟩, rfl⟩
           intro b hb'
           rcases List.mem_or_eq_of_mem_set hb' with h | h
           · exact hbuf b h
           · left; omega)
        | skip
    | inr t =>
      have hk := ht t (Or.inr rfl)
      obtain ⟨hk1, hk2⟩ := hk
      simp only []
      wp_lin
      all_goals first
        | (refine ⟨?_, ?_⟩ <;> intro s' h <;> cases h <;> first | (simp only []; omega) | skip)
        | skip
      all_goals first
        | (refine ⟨hk2 (by omega), by simp [hlen], ?_, ⟨hk1, hk2⟩, rfl⟩
           intro b hb'
           rcases List.mem_or_eq_of_mem_set hb' with h | h
           · exact hbuf b h
           · left; omega)
        | skip
theorem upList_inGrid (nrows ncols : Int) (code fdir : Nat → Int) (c : Int) :
    ∀ x ∈ upList nrows ncols code fdir c, InGrid nrows ncols x := by
  intro x hx
  unfold upList at hx
  obtain ⟨j, _, hj⟩ := List.mem_filterMap.1 hx
  simp only [] at hj
  split at hj
  · cases hj
  · split at hj
    · cases hj
    · split at hj
      · cases hj
        rename_i hne _ _
        exact (neighbour_inGrid nrows ncols c j).resolve_left hne
      · cases hj

theorem wp_isInlet {e : Ext} {ninlets : Int} {inlets : Nat → Int} {idx : Int} (h : ninlets ≤ e .idxinlets) :
    wp (isInlet e ninlets inlets idx) (fun _ => True) := by
  unfold isInlet
  wp_run

/-- invariant inside a layer: `i0` = value of `i` when the layer started -/
def DAInv (nrows ncols nval i0 : Int) (s : DA) : Prop :=
  0 ≤ s.i ∧ s.i ≤ nval - 1 ∧ (s.buf2.length : Int) ≤ nval - 1 ∧ (∀ b ∈ s.buf2, InGrid nrows ncols b) ∧
  s.i = i0 + s.buf2.length

theorem wp_daStore {e : Ext} {nrows ncols nval i0 idx : Int} {s : DA}
    (ha : nval ≤ e .idxcellsArea) (hb : nval ≤ e .buffer2) (hg : InGrid nrows ncols idx)
    (hI : DAInv nrows ncols nval i0 s) :
    wp (daStore e nval idx s) (fun x => ∀ s', x = .inl s' → DAInv nrows ncols nval i0 s') := by
  obtain ⟨h0, h1, h2, h3, h4⟩ := hI
  unfold daStore
  wp_lin
  intro s' hs; cases hs
  refine ⟨by simp; omega, by simp; omega, by simp; omega, ?_, by simp; omega⟩
  intro b hb'
  rcases List.mem_append.1 hb' with h | h
  · exact h3 b h
  · simp at h; subst h; exact hg

theorem wp_daCell {e : Ext} {nrows ncols nval ninlets i0 : Int} {code fdir inlets : Nat → Int}
    {idxcell : Int} {s : DA}
    (hr : 0 ≤ nrows) (hc : 0 ≤ ncols) (hN : nrows * ncols ≤ 9223372036854775807)
    (hfd : nrows * ncols ≤ e .flowdir) (hcode : 9 ≤ e .flowdircode) (hin : ninlets ≤ e .idxinlets)
    (ha : nval ≤ e .idxcellsArea) (hb : nval ≤ e .buffer2)
    (hI : DAInv nrows ncols nval i0 s) :
    wp (daCell e nrows ncols nval ninlets code fdir inlets idxcell s)
      (fun x => ∀ s', x = .inl s' → DAInv nrows ncols nval i0 s') := by
  unfold daCell
  refine wp_bind (wp_mono (wp_upstream1 hr hc hN hfd hcode (le_refl 0) (by simp)) (fun _ _ => ?_))
  refine wp_bind (wp_forEach (fun k _ _ => wp_acc ⟨by omega, by simp; omega⟩ trivial) ?_)
  simp only []
  refine wp_forLoop (fun _ s => DAInv nrows ncols nval i0 s) _ _ _ hI ?_ (fun x hx => hx)
  intro k s' hk0 hk1 hs'
  have hlt : k.toNat < (upList nrows ncols code fdir idxcell).length := by omega
  have hmem : (upList nrows ncols code fdir idxcell).getD k.toNat (-1) ∈ upList nrows ncols code fdir idxcell := by
    simp only [List.getD_eq_getElem?_getD, List.getElem?_eq_getElem hlt, Option.getD_some]
    exact List.getElem_mem _
  have hg := upList_inGrid nrows ncols code fdir idxcell _ hmem
  refine wp_bind (wp_mono (wp_isInlet hin) (fun isin _ => ?_))
  refine wp_bite (fun _ => wp_pure (by intro s'' h; cases h; exact hs')) (fun _ => ?_)
  exact wp_mono (wp_daStore ha hb hg hs') (fun x hx => hx)
/-- invariant at the start of layer `t` -/
def LInv (nrows ncols nval : Int) (t : Int) (s : DA) : Prop :=
  t ≤ s.i ∧ s.i ≤ nval - 1 ∧ 1 ≤ s.buf2.length ∧ (s.buf2.length : Int) ≤ nval ∧
  (∀ b ∈ s.buf2, InGrid nrows ncols b)

theorem wp_daLayer {e : Ext} {nrows ncols nval ninlets idxoutlet : Int} {code fdir inlets : Nat → Int}
    {t : Int} {s : DA}
    (hr : 0 ≤ nrows) (hc : 0 ≤ ncols) (hN : nrows * ncols ≤ 9223372036854775807)
    (hfd : nrows * ncols ≤ e .flowdir) (hcode : 9 ≤ e .flowdircode) (hin : ninlets ≤ e .idxinlets)
    (ha : nval ≤ e .idxcellsArea) (hb1 : nval ≤ e .buffer1) (hb2 : nval ≤ e .buffer2)
    (ht : 0 ≤ t) (hI : LInv nrows ncols nval t s) :
    wp (daLayer e nrows ncols nval ninlets idxoutlet code fdir inlets t s)
      (fun x => ∀ s', x = .inl s' → LInv nrows ncols nval (t + 1) s') := by
  obtain ⟨h0, h1, h2, h3, h4⟩ := hI
  unfold daLayer
  refine wp_bind (wp_forEach (fun l _ _ => ?_) ?_)
  · wp_lin
  refine wp_bind (wp_forLoop (fun _ s' => DAInv nrows ncols nval s.i s') _ _ _ ?_ ?_ ?_)
  · exact ⟨by simp; omega, by simp; omega, by simp; omega, by simp, by simp⟩
  · intro l s' hl0 hl1 hs'
    refine wp_bind (wp_acc ⟨hl0, by omega⟩ ?_)
    exact wp_mono (wp_daCell hr hc hN hfd hcode hin ha hb2 hs') (fun x hx => hx)
  · intro r hr'
    cases r with
    | inr c => exact wp_pure (by intro s' h; cases h)
    | inl s' =>
      obtain ⟨g0, g1, g2, g3, g4⟩ := hr' s' rfl
      simp only []
      refine wp_ite (fun _ => wp_pure (by intro s'' h; cases h)) (fun hne => ?_)
      have hpos : 1 ≤ s'.buf2.length := by omega
      refine wp_ite (fun ht0 => ?_) (fun _ => wp_pure ?_)
      · refine wp_ite (fun _ => wp_pure (by intro s'' h; cases h)) (fun hni => ?_)
        refine wp_bind (wp_acc ⟨g0, by omega⟩ (wp_pure ?_))
        intro s'' h; cases h
        exact ⟨by simp; omega, by simp; omega, hpos, by simp; omega, g3⟩
      · intro s'' h; cases h
        exact ⟨by omega, g1, hpos, by omega, g3⟩

end HydroVerif.C05
