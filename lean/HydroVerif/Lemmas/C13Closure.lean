/-
Closure lemmas for `Props/C13.lean`: whatever `from_stream` accepts, and whatever `clip` returns, is again a grid of the
property's domain (so that the history theorems compose across load / clip / edit / save).
-/
import HydroVerif.Lemmas.C13Machine
import HydroVerif.Lemmas.C13ClipAny

namespace HydroVerif.C13

/-- no parent attribute is a text -/
def ParentNumeric {ν : Type} (p : List (Str × PVal ν)) : Prop := ∀ e ∈ p, ∀ s, e.2 ≠ .text s

theorem dictSet_numeric {ν : Type} (p : List (Str × PVal ν)) (k : Str) (v : PVal ν) (hp : ParentNumeric p)
    (hv : ∀ s, v ≠ .text s) : ParentNumeric (dictSet p k v) := by
  unfold dictSet
  split
  · intro e he s
    obtain ⟨e0, h0, rfl⟩ := List.mem_map.mp he
    split
    · exact hv s
    · exact hp e0 h0 s
  · intro e he s
    rcases List.mem_append.mp he with h | h
    · exact hp e h s
    · simp at h; rw [h]; exact hv s

theorem lookup_numeric {ν : Type} (p : List (Str × PVal ν)) (hp : ParentNumeric p) (a s : Str) :
    lookup p a ≠ some (.text s) := by
  unfold lookup
  intro h
  cases hf : p.find? (fun x => x.1 == a) with
  | none => rw [hf] at h; simp at h
  | some e =>
    rw [hf] at h
    simp at h
    exact hp e (List.mem_of_find?_eq_some hf) s h

theorem parseLine_numeric {ν : Type} (io : NumIO ν) (c c' : Config ν) (l : Str) (h : parseLine io c l = .ok c')
    (hp : ParentNumeric c.parent) : ParentNumeric c'.parent := by
  unfold parseLine at h
  simp only at h
  split at h
  · cases h
    unfold Config.setText
    split_ifs <;> exact hp
  · split at h
    · cases h
    · split at h
      · split at h
        · cases h
          unfold Config.setInt
          split_ifs
          · exact dictSet_numeric _ _ _ hp (fun s => by simp)
          all_goals exact hp
        · cases h; exact hp
      · split at h
        · split at h
          · cases h
            unfold Config.setNodata
            split_ifs <;> exact hp
          · split at h
            · cases h
              unfold Config.setNodata
              split_ifs <;> exact hp
            · cases h; exact hp
        · split at h
          · cases h
            unfold Config.setNum
            split_ifs
            · exact dictSet_numeric _ _ _ hp (fun s => by simp)
            all_goals exact hp
          · cases h; exact hp

theorem parseLines_numeric {ν : Type} (io : NumIO ν) (ls : List Str) : ∀ (c c' : Config ν), parseLines io c ls = .ok c' →
    ParentNumeric c.parent → ParentNumeric c'.parent := by
  induction ls with
  | nil => intro c c' h hp; cases h; exact hp
  | cons l ls ih =>
    intro c c' h hp
    unfold parseLines at h
    split at h
    · cases h
    · rename_i c1 h1
      exact ih c1 c' h (parseLine_numeric io c c1 l h1 hp)

theorem dtypeOfStr_mem (s : Str) (bo : ByteOrder) (t : DType) (h : dtypeOfStr s = some (bo, t)) : t ∈ allDTypes := by
  have hs : t.supported = true := by
    unfold dtypeOfStr at h
    simp only at h
    split at h
    · split at h
      · split at h
        · cases h; assumption
        · cases h
      · cases h
    · cases h
  obtain ⟨k, b⟩ := t
  cases k <;> simp [DType.supported, allDTypes] at hs ⊢ <;> omega

theorem mkGrid_ok {ν : Type} (io : NumIO ν) (name : Str) (ncols nrows : Int) (csz xll yll : ν) (t : DType) (nd : NVal ν)
    (comment : Str) (g : Grid ν) (h : mkGrid io name ncols nrows csz xll yll t nd comment = .ok g) :
    g.dtype = t ∧ nodataWord io t nd = .ok g.nodata ∧ g.nrows = nrows ∧ g.ncols = ncols ∧ 0 ≤ nrows ∧ 0 ≤ ncols ∧
      g.lo = none ∧ g.hi = none ∧ g.parent = [] ∧ g.data = zeros nrows.toNat ncols.toNat := by
  unfold mkGrid at h
  split at h
  · cases h
  · rename_i w hw
    split at h
    · cases h
    · rename_i hs
      cases h
      exact ⟨rfl, hw, rfl, rfl, by omega, by omega, rfl, rfl, rfl, rfl⟩

theorem finishConfig_ok {ν : Type} (io : NumIO ν) (c : Config ν) (hi : HeaderInfo ν) (h : finishConfig io c = .ok hi) :
    ∃ t ncols nrows csz xll yll nd, t ∈ allDTypes ∧
      mkGrid io c.name ncols nrows csz xll yll t nd c.comment = .ok hi.grid := by
  unfold finishConfig at h
  split at h
  · cases h
  · simp only at h
    split at h
    · cases h
    · rename_i bo t hdt
      split at h
      · cases h
      · split at h
        · cases h
        · split at h
          · cases h
          · split at h
            · cases h
            · rename_i g hg
              cases h
              exact ⟨t, _, _, _, _, _, _, dtypeOfStr_mem _ _ _ hdt, hg⟩

/-- what a successful `Grid.load` gives, whatever the grid held before -/
theorem load_ok_spec {ν : Type} (g0 g1 : Grid ν) (bo : ByteOrder) (bytes : List UInt8) (h : load g0 bo bytes = .ok g1)
    (hnr : 0 ≤ g0.nrows) (hnc : 0 ≤ g0.ncols) (hb : BoundsOK g0.dtype g0.lo g0.hi) :
    g1 = { g0 with data := g1.data } ∧ (g1.data.length : Int) = g0.nrows ∧ (∀ r ∈ g1.data, (r.length : Int) = g0.ncols) ∧
      ∀ r ∈ g1.data, ∀ w ∈ r, w < wordBound g0.dtype := by
  unfold load at h
  dsimp only at h
  split at h
  · cases h
  · rename_i hc
    cases h
    have hlen : (fromfile bo g0.dtype bytes).length = g0.nrows.toNat * g0.ncols.toNat := by
      have h : ((fromfile bo g0.dtype bytes).length : Int) = g0.nrows * g0.ncols := by
        by_contra h; exact hc h
      have h2 : ((g0.nrows.toNat * g0.ncols.toNat : Nat) : Int) = g0.nrows * g0.ncols := by
        push_cast
        rw [Int.toNat_of_nonneg hnr, Int.toNat_of_nonneg hnc]
      omega
    obtain ⟨s1, s2, s3⟩ := reshape_spec g0.ncols.toNat g0.nrows.toNat _ hlen
    refine ⟨rfl, ?_, ?_, ?_⟩
    · show ((clipData g0.dtype g0.lo g0.hi _).length : Int) = g0.nrows
      simp only [clipData, List.length_map, s1]
      exact Int.toNat_of_nonneg hnr
    · intro r hrm
      obtain ⟨r0, h0, rfl⟩ := List.mem_map.mp hrm
      simp only [List.length_map, s2 r0 h0]
      exact Int.toNat_of_nonneg hnc
    · intro r hrm x hx
      obtain ⟨r0, h0, rfl⟩ := List.mem_map.mp hrm
      obtain ⟨x0, hx0, rfl⟩ := List.mem_map.mp hx
      exact clipWord_lt g0.dtype g0.lo g0.hi x0 (fromfile_lt bo g0.dtype bytes x0 (s3 r0 h0 x0 hx0)) hb

theorem init_parent_numeric {ν : Type} (io : NumIO ν) (d : Str) : ParentNumeric (Config.init io d).parent := by
  intro e he; simp [Config.init] at he

/-- **whatever `from_stream` accepts is a grid of the property's domain** — any header text (written by `save` or not:
ULXMAP / XDIM variants, either byte order, extra keys), any data bytes: supported dtype, non-negative shape, `nrows × ncols`
words of the dtype, numeric parent attributes, default bounds. The only facts not read off the model are about the
no-data scalar numpy built from the header token (a word of the dtype that prints and reads back): external for the
float types and for a float token given to an integer raster. -/
theorem fromStream_state {ν : Type} (io : NumIO ν) (d h : Str) (bytes : List UInt8) (g : Grid ν)
    (hload : fromStream io d h (some bytes) = .ok g)
    (hnd : g.nodata < wordBound g.dtype) (hp : NodataPrintable io g.dtype g.nodata) :
    StateOK io g ∧ g.lo = none ∧ g.hi = none := by
  unfold fromStream at hload
  split at hload
  · cases hload
  · rename_i c hc
    split at hload
    · cases hload
    · rename_i hi hfin
      simp only at hload
      split at hload
      · cases hload
      · rename_i g1 hl
        cases hload
        obtain ⟨t, ncols, nrows, csz, xll, yll, nd, ht, hmk⟩ := finishConfig_ok io c hi hfin
        obtain ⟨m1, _, m3, m4, m5, m6, m7, m8, _, _⟩ := mkGrid_ok io _ _ _ _ _ _ _ _ _ _ hmk
        have hb0 : BoundsOK hi.grid.dtype hi.grid.lo hi.grid.hi := by
          rw [m7, m8]; intro _; exact ⟨fun _ h => by simp at h, fun _ h => by simp at h⟩
        obtain ⟨e1, e2, e3, e4⟩ := load_ok_spec hi.grid g1 hi.byteorder bytes hl (by rw [m3]; exact m5) (by rw [m4]; exact m6) hb0
        have hd : g1.dtype = hi.grid.dtype := by rw [e1]
        have hn : g1.nodata = hi.grid.nodata := by rw [e1]
        have hr : g1.nrows = hi.grid.nrows := by rw [e1]
        have hcn : g1.ncols = hi.grid.ncols := by rw [e1]
        have hlo : g1.lo = hi.grid.lo := by rw [e1]
        have hhi : g1.hi = hi.grid.hi := by rw [e1]
        have hpn := parseLines_numeric io _ _ c hc (init_parent_numeric io d)
        refine ⟨⟨⟨⟨?_, hnd, ?_, ?_, ?_, hp⟩, ?_, ?_, ?_⟩, ?_⟩, ?_, ?_⟩
        · show g1.dtype ∈ allDTypes; rw [hd, m1]; exact ht
        · show 0 ≤ g1.nrows; rw [hr, m3]; exact m5
        · show 0 ≤ g1.ncols; rw [hcn, m4]; exact m6
        · intro a _ s hl'
          exact absurd hl' (lookup_numeric _ hpn a s)
        · show (g1.data.length : Int) = g1.nrows; rw [hr]; exact e2
        · show ∀ r ∈ g1.data, (r.length : Int) = g1.ncols; rw [hcn]; exact e3
        · show ∀ r ∈ g1.data, ∀ w ∈ r, w < wordBound g1.dtype; rw [hd]; exact e4
        · show BoundsOK g1.dtype g1.lo g1.hi; rw [hd, hlo, hhi]; exact hb0
        · show g1.lo = none; rw [hlo]; exact m7
        · show g1.hi = none; rw [hhi]; exact m8

/-- **whatever `clip` returns is a grid of the property's domain**, in any arithmetic: shape, words, no-data value and
default bounds; its parent attributes under the names `save` writes are numbers (the parent's NAME, which may hold
anything, is not written). So a clipped grid can be saved, exported, cloned, edited and clipped again under the same
theorems. -/
theorem clip_state {α : Type} [Add α] [Sub α] [Mul α] [Div α] [OfNat α 1] [C07.Trunc α]
    (io : NumIO α) (g : Grid α) (hg : GridOK io g) (hnc : 0 < g.ncols) (x0 y0 x1 y1 : α) (ng : Grid α)
    (h : clip io g x0 y0 x1 y1 = .ok ng) : StateOK io ng ∧ ng.lo = none ∧ ng.hi = none := by
  obtain ⟨c0, c1, top, left, _, _, _, _, _, _, hdt, hnd, _, hlo, hhi, _, _, hr0, hc0, _, _, _, _, hlen, hrows, _, hmem, hpar⟩ :=
    clip_ok_block io g hnc hg.rows hg.cols x0 y0 x1 y1 ng h
  refine ⟨⟨⟨⟨?_, ?_, hr0, hc0, ?_, ?_⟩, hlen, hrows, ?_⟩, ?_⟩, hlo, hhi⟩
  · rw [hdt]; exact hg.header.supported
  · rw [hdt, hnd]; exact hg.header.nodata_lt
  · intro a ha s hl
    exact absurd hl (hpar a ha s)
  · rw [hdt, hnd]; exact hg.header.nodata_printable
  · intro r hr w hw
    obtain ⟨r0, hr0', hw0⟩ := hmem r hr w hw
    rw [hdt]; exact hg.words r0 hr0' w hw0
  · rw [hlo, hhi]; intro _; exact ⟨fun _ h => by simp at h, fun _ h => by simp at h⟩

end HydroVerif.C13
