/-
C05 — the definitions GENERATED from `gis/c_grid.c` (`Generated/CKernels.lean`): values and safety of `getnxy`,
`c_cell2rowcol`, `c_neighbours`, `c_upstream`, `c_downstream` against the integer grid core of `Model/C07.lean`.
Restated as property theorems in `Props/C05.lean`.
-/
import HydroVerif.Lemmas.CGen

set_option linter.unusedSimpArgs false
set_option linter.unusedTactic false
set_option linter.unreachableTactic false
set_option linter.unnecessarySeqFocus false
set_option linter.unusedVariables false
namespace HydroVerif.C05
open HydroVerif.CSem HydroVerif.CGen HydroVerif.C07

theorem getD_set_same (l : List Int) (i : Nat) (v d : Int) (h : i < l.length) : (l.set i v).getD i d = v := by
  simp [List.getD_eq_getElem?_getD, List.getElem?_set, h]

theorem getD_set_other (l : List Int) (i j : Nat) (v d : Int) (h : i ≠ j) :
    (l.set i v).getD j d = l.getD j d := by
  simp [List.getD_eq_getElem?_getD, List.getElem?_set, h]

theorem colOf_le {ncols idx : Int} (hc : 0 < ncols) (h0 : 0 ≤ idx) : colOf ncols idx ≤ idx := by
  have h := cellOf_rowOf_colOf hc h0
  have hr := rowOf_nonneg hc h0
  unfold cellOf at h
  have : 0 ≤ rowOf ncols idx * ncols := Int.mul_nonneg hr hc.le
  omega

theorem rowOf_le {ncols idx : Int} (hc : 0 < ncols) (h0 : 0 ≤ idx) : rowOf ncols idx ≤ idx := by
  rw [rowOf_eq_ediv hc h0]; exact Int.ediv_le_self _ h0

/-- `getnxy` for a non-negative cell number and a positive number of columns -/
theorem cgen_getnxy_eq' {ncols idx : Int} (nxy : List Int) (h2 : 2 ≤ nxy.length) (hc : 0 < ncols) (h0 : 0 ≤ idx)
    (hI : idx ≤ 9223372036854775807) :
    CGen.getnxy ncols idx nxy = .ok (0, (nxy.set 0 (colOf ncols idx)).set 1 (rowOf ncols idx)) := by
  have c0 := colOf_nonneg hc h0
  have c1 := colOf_le hc h0
  have r0 := rowOf_nonneg hc h0
  have r1 := rowOf_le hc h0
  apply eq_ok_of_wp
  unfold CGen.getnxy
  refine wp_bind (wp_mod64 (by omega) (by omega) ?_)
  refine wp_bind (wp_wr ⟨by omega, by omega⟩ ?_)
  refine wp_bind (wp_rd ⟨by omega, by simp; omega⟩ ?_)
  simp only [Int.toNat_zero, Int.toNat_one]
  rw [getD_set_same _ _ _ _ (by omega)]
  change wp (ci64 (idx - colOf ncols idx) >>= _) _
  refine wp_bind (wp_ci64 ⟨by omega, by omega⟩ ?_)
  refine wp_bind (wp_div64 (by omega) ⟨?_, ?_⟩ ?_)
  · change -9223372036854775808 ≤ rowOf ncols idx; omega
  · change rowOf ncols idx ≤ 9223372036854775807; omega
  refine wp_bind (wp_wr ⟨by omega, by simp; omega⟩ ?_)
  exact wp_pure rfl

macro_rules | `(tactic| cg_call) => `(tactic| refine wp_of_eq_ok (cgen_getnxy_eq' _ ?_ ?_ ?_ ?_) ?_)

/-- what the validity guard gives: a grid with a cell has columns -/
theorem ncols_pos_of_cells {nrows ncols : Int} (hr : 0 ≤ nrows) (hc : 0 ≤ ncols) : 0 < nrows * ncols → 0 < ncols := by
  intro h
  rcases Int.lt_or_eq_of_le hc with h' | h'
  · exact h'
  · subst h'; simp at h

theorem colrow_range {nrows ncols c : Int} (hc : 0 < ncols) (h0 : 0 ≤ c) (h1 : c < nrows * ncols) :
    0 ≤ colOf ncols c ∧ colOf ncols c < ncols ∧ 0 ≤ rowOf ncols c ∧ rowOf ncols c < nrows :=
  ⟨colOf_nonneg hc h0, colOf_lt hc h0, rowOf_nonneg hc h0, rowOf_lt hc h0 h1⟩

theorem getD_set_int (l : List Int) (i : Int) (p : Nat) (v : Int) (hi : 0 ≤ i) (hl : i < l.length) :
    (l.set i.toNat v).getD p 0 = if (p : Int) = i then v else l.getD p 0 := by
  by_cases h : (p : Int) = i
  · have : i.toNat = p := by omega
    rw [if_pos h, this, getD_set_same _ _ _ _ (by omega)]
  · rw [if_neg h, getD_set_other _ _ _ _ _ (by omega)]

theorem pair_write (l : List Int) (j a b : Int) (p : Nat) (hj : 0 ≤ j) (hl : 2 * j + 1 < l.length) :
    ((l.set (2 * j).toNat a).set (2 * j + 1).toNat b).getD p 0 =
      if (p : Int) = 2 * j + 1 then b else if (p : Int) = 2 * j then a else l.getD p 0 := by
  rw [getD_set_int _ _ _ _ (by omega) (by simp; omega), getD_set_int _ _ _ _ (by omega) (by omega)]

theorem pair_write' (l : List Int) (j a b : Int) (p : Nat) (hj : 0 ≤ j) (hl : 2 * j + 1 < l.length) :
    ((l.set (2 * j + 1).toNat b).set (2 * j).toNat a).getD p 0 =
      if (p : Int) = 2 * j + 1 then b else if (p : Int) = 2 * j then a else l.getD p 0 := by
  rw [getD_set_int _ _ _ _ (by omega) (by simp; omega), getD_set_int _ _ _ _ (by omega) (by omega)]
  split <;> split <;> first | rfl | omega

theorem cgen_cell2rowcol_spec' (junk : Nat → Int) (nrows ncols nval : Int) (idxcell rowcols : List Int)
    (hr : 0 ≤ nrows) (hc : 0 ≤ ncols) (hN : nrows * ncols ≤ 9223372036854775807)
    (h1 : nval ≤ idxcell.length) (h2 : 2 * nval ≤ rowcols.length)
    (hL : (rowcols.length : Int) ≤ 9223372036854775807) :
    wp (c_cell2rowcol junk nrows ncols nval idxcell rowcols) (fun r => r.1 = 0 ∧ r.2.length = rowcols.length ∧
      ∀ i : Nat, (i : Int) < nval →
        r.2.getD (2 * i) 0 = (C07.cell2rowcol nrows ncols (idxcell.getD i 0)).1 ∧
        r.2.getD (2 * i + 1) 0 = (C07.cell2rowcol nrows ncols (idxcell.getD i 0)).2) := by
  have hpos := ncols_pos_of_cells hr hc
  unfold c_cell2rowcol
  simp only []
  refine wp_bind (wp_forLoop (fun i (s : List Int × List Int) => s.1.length = rowcols.length ∧ s.2.length = 2 ∧
      ∀ k : Nat, (k : Int) < i →
        s.1.getD (2 * k) 0 = (C07.cell2rowcol nrows ncols (idxcell.getD k 0)).1 ∧
        s.1.getD (2 * k + 1) 0 = (C07.cell2rowcol nrows ncols (idxcell.getD k 0)).2) _ _ _ ?_ ?_ ?_)
  · exact ⟨rfl, by simp [uninit], by intro k hk; omega⟩
  · intro j s hj0 hj1 hI
    obtain ⟨hl1, hl2, hprev⟩ := hI
    obtain ⟨jn, rfl⟩ : ∃ jn : Nat, j = jn := ⟨j.toNat, by omega⟩
    have hcr := @colrow_range nrows ncols (idxcell.getD jn 0)
    have h0 : 0 ≤ nrows * ncols := Int.mul_nonneg hr hc
    have hlen : 2 * (jn : Int) + 1 < (s.1.length : Int) := by omega
    cg_run
    all_goals (
      intro s' hs; cases hs
      refine ⟨by simp [hl1], by simp [hl2], ?_⟩
      intro k hk
      have hp := hprev k
      simp only [pair_write _ _ _ _ _ hj0 hlen, pair_write' _ _ _ _ _ hj0 hlen]
      by_cases hkj : k = jn
      · subst hkj
        have e1 : ¬ ((2 * k : Nat) : Int) = 2 * (k : Int) + 1 := by omega
        have e2 : ((2 * k : Nat) : Int) = 2 * (k : Int) := by omega
        have e3 : ((2 * k + 1 : Nat) : Int) = 2 * (k : Int) + 1 := by omega
        have e0 : ¬ (2 * (k : Int) = 2 * (k : Int) + 1) := by omega
        simp only [e1, e2, e3, e0, if_true, if_false]
        first
          | (have hv : validCell nrows ncols (idxcell.getD k 0) = false := by
              rw [validCell_eq_false_iff]; cg_side
             simp only [C07.cell2rowcol, hv]; exact ⟨rfl, rfl⟩)
          | (have hv : validCell nrows ncols (idxcell.getD k 0) = true := by
              rw [validCell_iff]; cg_side
             simp only [C07.cell2rowcol, hv, if_true]
             refine ⟨?_, ?_⟩
             · rw [getD_set_same _ _ _ _ (by simp; omega)]
             · rw [getD_set_other _ _ _ _ _ (by omega), getD_set_same _ _ _ _ (by omega)])
      · have e1 : ¬ ((2 * k : Nat) : Int) = 2 * (jn : Int) + 1 := by omega
        have e2 : ¬ ((2 * k : Nat) : Int) = 2 * (jn : Int) := by omega
        have e3 : ¬ ((2 * k + 1 : Nat) : Int) = 2 * (jn : Int) + 1 := by omega
        have e4 : ¬ ((2 * k + 1 : Nat) : Int) = 2 * (jn : Int) := by omega
        simp only [e1, e2, e3, e4, if_false]
        exact hp (by omega))
  · intro x hx
    cases x with
    | inr x => exact nomatch x
    | inl s =>
      have := hx s rfl
      refine wp_pure ⟨rfl, this.1, ?_⟩
      intro i hi
      exact this.2.2 i (by omega)

theorem uninit_2 (junk : Nat → Int) (off : Nat) : uninit junk off 2 = [junk (off + 0), junk (off + 1)] := rfl
theorem uninit_9 (junk : Nat → Int) (off : Nat) : uninit junk off 9 =
    [junk (off + 0), junk (off + 1), junk (off + 2), junk (off + 3), junk (off + 4), junk (off + 5), junk (off + 6),
     junk (off + 7), junk (off + 8)] := rfl

/-- position `1+ix+(1+iy)*3` of the neighbour vector holds the neighbour at offsets `(ix, iy)` -/
theorem neighbour_at (nrows ncols idx ix iy : Int) (hx : -1 ≤ ix ∧ ix ≤ 1) (hy : -1 ≤ iy ∧ iy ≤ 1) (k : Nat)
    (hk : (k : Int) = 1 + ix + (1 + iy) * 3) : neighbour nrows ncols idx k = nbCell nrows ncols idx ix iy := by
  unfold neighbour
  have e1 : nbDx k = ix := by unfold nbDx; omega
  have e2 : nbDy k = iy := by unfold nbDy; omega
  rw [e1, e2]

/-- `c_neighbours` refuses a cell outside the grid before anything is touched -/
theorem cgen_neighbours_invalid' (junk : Nat → Int) (nrows ncols idx : Int) (nb : List Int)
    (hN : -9223372036854775808 ≤ nrows * ncols ∧ nrows * ncols ≤ 9223372036854775807)
    (h : idx < 0 ∨ idx ≥ nrows * ncols) : c_neighbours junk nrows ncols idx nb = .ok (1, nb) := by
  apply eq_ok_of_wp
  unfold c_neighbours
  cg_run

theorem cgen_neighbours_spec' (junk : Nat → Int) (nrows ncols idx : Int) (nb : List Int)
    (hr : 0 ≤ nrows) (hc : 0 ≤ ncols) (hN : nrows * ncols ≤ 9223372036854775807)
    (hg : 0 ≤ idx ∧ idx < nrows * ncols) (h9 : 9 ≤ nb.length) :
    wp (c_neighbours junk nrows ncols idx nb) (fun r => r.1 = 0 ∧ r.2.length = nb.length ∧
      (∀ k : Nat, k < 9 → r.2.getD k 0 = neighbour nrows ncols idx k) ∧
      ∀ p : Nat, 9 ≤ p → r.2.getD p 0 = nb.getD p 0) := by
  have hpos := ncols_pos_of_cells hr hc (by omega)
  have hcr := colrow_range hpos hg.1 hg.2
  have hcN : ncols ≤ nrows * ncols := by nlinarith
  have hrN : nrows ≤ nrows * ncols := by nlinarith
  unfold c_neighbours
  simp only [uninit_2]
  cg_run
  refine wp_forLoop (fun iy (l : List Int) => l.length = nb.length ∧
      (∀ k : Nat, (k : Int) < 3 * (iy + 1) → l.getD k 0 = neighbour nrows ncols idx k) ∧
      ∀ p : Nat, 9 ≤ p → l.getD p 0 = nb.getD p 0) _ _ _ ⟨rfl, by intro k hk; omega, by intro p _; rfl⟩ ?_ ?_
  · intro iy l hy0 hy1 hI
    obtain ⟨hl, hdone, hrest⟩ := hI
    refine wp_bind (wp_forLoop (fun ix (l' : List Int) => l'.length = nb.length ∧
      (∀ k : Nat, (k : Int) < 3 * (iy + 1) + (ix + 1) → l'.getD k 0 = neighbour nrows ncols idx k) ∧
      ∀ p : Nat, 9 ≤ p → l'.getD p 0 = nb.getD p 0) _ _ _ ⟨hl, by intro k hk; exact hdone k (by omega), hrest⟩ ?_ ?_)
    · intro ix l' hx0 hx1 hI'
      obtain ⟨hl', hdone', hrest'⟩ := hI'
      have hb := @mul_idx_bound' ncols nrows (rowOf ncols idx + iy) hc
      have hkk : (0 : Int) ≤ 1 + ix + (1 + iy) * 3 ∧ 1 + ix + (1 + iy) * 3 < 9 := by omega
      cg_run
      all_goals (
        intro s' hs; cases hs
        refine ⟨by simp [hl'], ?_, ?_⟩
        · intro k hk
          rw [getD_set_int _ _ _ _ (by omega) (by omega)]
          split
          · rename_i hkeq
            rw [neighbour_at nrows ncols idx ix iy ⟨hx0, by omega⟩ ⟨hy0, by omega⟩ k hkeq]
            simp only [nbCell]
            (repeat' split) <;> cg_side
          · exact hdone' k (by omega)
        · intro p hp
          rw [getD_set_int _ _ _ _ (by omega) (by omega), if_neg (by omega)]
          exact hrest' p hp)
    · intro x hx
      cases x with
      | inr x => exact nomatch x
      | inl l' =>
        obtain ⟨a, b, c⟩ := hx l' rfl
        refine wp_pure ?_
        intro s' hs; cases hs
        exact ⟨a, by intro k hk; exact b k (by omega), c⟩
  · intro x hx
    cases x with
    | inr x => exact nomatch x
    | inl l =>
      obtain ⟨a, b, c⟩ := hx l rfl
      exact wp_pure ⟨rfl, a, by intro k hk; exact b k (by omega), c⟩


theorem cgen_downstream_safe' (junk : Nat → Int) (nrows ncols nval : Int) (code fdir cells out : List Int)
    (hr : 0 ≤ nrows) (hc : 0 ≤ ncols) (hN : nrows * ncols ≤ 9223372036854775807)
    (hfd : nrows * ncols ≤ fdir.length) (hcode : 9 ≤ code.length)
    (h1 : nval ≤ cells.length) (h2 : nval ≤ out.length) :
    wp (c_downstream junk nrows ncols code fdir nval cells out) (fun r => r.2.length = out.length) := by
  have h0 : 0 ≤ nrows * ncols := Int.mul_nonneg hr hc
  unfold c_downstream
  simp only [uninit_9]
  refine wp_bind (wp_forLoopP (fun _ (s : List Int × List Int) => s.1.length = out.length ∧ s.2.length = 9)
    (fun (r : Int × List Int) => r.2.length = out.length) _ _ _ ⟨rfl, by simp⟩ ?_ ?_)
  · intro i s hi0 hi1 hI
    obtain ⟨hl1, hl2⟩ := hI
    cg_run
    all_goals first
      | exact ⟨(by intro s' h; cases h), (by intro r h; cases h; exact hl1)⟩
      | skip
    refine wp_mono (cgen_neighbours_spec' junk nrows ncols _ _ hr hc hN ⟨?_, ?_⟩ ?_) ?_
    · omega
    · cg_side
    · omega
    intro r hr9
    obtain ⟨_, hlen, _, _⟩ := hr9
    cg_run
    · exact ⟨(by intro s' h; cases h; exact ⟨by simp [hl1], by show r.2.length = 9; omega⟩), (by intro r' h; cases h)⟩
    · refine wp_forLoop (fun _ (l : List Int) => l.length = out.length) _ _ _ (by simp [hl1]) ?_ ?_
      · intro j l hj0 hj1 hl
        cg_run
        all_goals (intro s' h; cases h; simp [hl])
      · intro x hx
        cases x with
        | inr x => exact nomatch x
        | inl l =>
          have := hx l rfl
          exact wp_pure ⟨(by intro s' h; cases h; exact ⟨this, by show r.2.length = 9; omega⟩), (by intro r' h; cases h)⟩
  · intro x hinl hinr
    cases x with
    | inr r => exact wp_pure (hinr r rfl)
    | inl s => exact wp_pure (hinl s rfl).1

theorem cgen_upstream_safe' (junk : Nat → Int) (nrows ncols nval : Int) (code fdir cells out : List Int)
    (hr : 0 ≤ nrows) (hc : 0 ≤ ncols) (hN : nrows * ncols ≤ 9223372036854775807)
    (hfd : nrows * ncols ≤ fdir.length) (hcode : 9 ≤ code.length)
    (h1 : nval ≤ cells.length) (h2 : 9 * nval ≤ out.length) (hL : (out.length : Int) ≤ 9223372036854775807) :
    wp (c_upstream junk nrows ncols code fdir nval cells out) (fun r => r.2.length = out.length) := by
  have h0 : 0 ≤ nrows * ncols := Int.mul_nonneg hr hc
  unfold c_upstream
  simp only [uninit_9]
  refine wp_bind (wp_forLoopP (fun _ (s : List Int × List Int) => s.1.length = out.length ∧ s.2.length = 9)
    (fun (r : Int × List Int) => r.2.length = out.length) _ _ _ ⟨rfl, by simp⟩ ?_ ?_)
  · intro i s hi0 hi1 hI
    obtain ⟨hl1, hl2⟩ := hI
    cg_run
    all_goals first
      | exact ⟨(by intro s' h; cases h), (by intro r h; cases h; exact hl1)⟩
      | skip
    refine wp_mono (cgen_neighbours_spec' junk nrows ncols _ _ hr hc hN ⟨?_, ?_⟩ ?_) ?_
    · omega
    · cg_side
    · omega
    intro r hr9
    obtain ⟨_, hlen, hnb, _⟩ := hr9
    cg_run
    refine wp_forLoop (fun j (t : List Int × Int) => t.1.length = out.length ∧ 0 ≤ t.2 ∧ t.2 ≤ j) _ _ _
      ⟨hl1, by omega, by omega⟩ ?_ ?_
    · intro j t hj0 hj1 ht
      obtain ⟨ht1, ht2, ht3⟩ := ht
      have hnbj := hnb j.toNat (by omega)
      have hin := neighbour_inGrid nrows ncols (cells.getD i.toNat 0) j.toNat
      unfold InGrid at hin
      cg_run
      all_goals (intro s' h; cases h; refine ⟨by simp [ht1], ?_, ?_⟩ <;> (simp only []; omega))
    · intro x hx
      cases x with
      | inr x => exact nomatch x
      | inl t =>
        obtain ⟨ht1, ht2, ht3⟩ := hx t rfl
        simp only []
        refine wp_bind (wp_forLoop (fun _ (l : List Int) => l.length = out.length) _ _ _ ht1 ?_ ?_)
        · intro j l hj0 hj1 hl
          cg_run
          all_goals (intro s' h; cases h; simp [hl])
        · intro y hy
          cases y with
          | inr y => exact nomatch y
          | inl l =>
            have := hy l rfl
            exact wp_pure ⟨(by intro s' h; cases h; exact ⟨this, by show r.2.length = 9; omega⟩),
              (by intro r' h; cases h)⟩
  · intro x hinl hinr
    cases x with
    | inr r => exact wp_pure (hinr r rfl)
    | inl s => exact wp_pure (hinl s rfl).1

theorem cgen_clipi_eq' (x a b : Int) : clipi x a b = .ok (if x < a then a else if x > b then b else x) := by
  apply eq_ok_of_wp
  unfold clipi
  cg_run

/-- the code class of a kernel that walks over `nval` cell numbers: `0` when all are cells of the grid, else `1` -/
def AllInGrid (nrows ncols nval : Int) (cells : Nat → Int) : Prop :=
  ∀ k : Nat, (k : Int) < nval → InGrid nrows ncols (cells k)

theorem cgen_downstream_code' (junk : Nat → Int) (nrows ncols nval : Int) (code fdir cells out : List Int)
    (hr : 0 ≤ nrows) (hc : 0 ≤ ncols) (hN : nrows * ncols ≤ 9223372036854775807)
    (hfd : nrows * ncols ≤ fdir.length) (hcode : 9 ≤ code.length)
    (h1 : nval ≤ cells.length) (h2 : nval ≤ out.length) :
    wp (c_downstream junk nrows ncols code fdir nval cells out) (fun r => r.2.length = out.length ∧
      ((r.1 = 0 ∧ AllInGrid nrows ncols nval (fun k => cells.getD k 0)) ∨
       (r.1 = 1 ∧ ¬ AllInGrid nrows ncols nval (fun k => cells.getD k 0)))) := by
  have h0 : 0 ≤ nrows * ncols := Int.mul_nonneg hr hc
  unfold c_downstream
  simp only [uninit_9]
  refine wp_bind (wp_forLoopP (fun i (s : List Int × List Int) => s.1.length = out.length ∧ s.2.length = 9 ∧
      ∀ k : Nat, (k : Int) < i → InGrid nrows ncols (cells.getD k 0))
    (fun (r : Int × List Int) => r.2.length = out.length ∧ r.1 = 1 ∧
      ¬ AllInGrid nrows ncols nval (fun k => cells.getD k 0)) _ _ _ ⟨rfl, by simp, by intro k hk; omega⟩ ?_ ?_)
  · intro i s hi0 hi1 hI
    obtain ⟨hl1, hl2, hprev⟩ := hI
    have hbad : ¬ InGrid nrows ncols (cells.getD i.toNat 0) → ¬ AllInGrid nrows ncols nval (fun k => cells.getD k 0) := by
      intro hb hall
      exact hb (hall i.toNat (by omega))
    have hnext : InGrid nrows ncols (cells.getD i.toNat 0) →
        ∀ k : Nat, (k : Int) < i + 1 → InGrid nrows ncols (cells.getD k 0) := by
      intro hg k hk
      by_cases hki : (k : Int) < i
      · exact hprev k hki
      · have : k = i.toNat := by omega
        rw [this]; exact hg
    unfold InGrid at hbad hnext
    cg_run
    all_goals first
      | exact ⟨(by intro s' h; cases h), (by intro r h; cases h; exact ⟨hl1, rfl, hbad (by cg_side)⟩)⟩
      | skip
    refine wp_mono (cgen_neighbours_spec' junk nrows ncols _ _ hr hc hN ⟨?_, ?_⟩ ?_) ?_
    · omega
    · cg_side
    · omega
    intro r hr9
    obtain ⟨_, hlen, _, _⟩ := hr9
    have hg : 0 ≤ cells.getD i.toNat 0 ∧ cells.getD i.toNat 0 < nrows * ncols := by cg_side
    cg_run
    · exact ⟨(by intro s' h; cases h; exact ⟨by simp [hl1], by show r.2.length = 9; omega, hnext hg⟩),
        (by intro r' h; cases h)⟩
    · refine wp_forLoop (fun _ (l : List Int) => l.length = out.length) _ _ _ (by simp [hl1]) ?_ ?_
      · intro j l hj0 hj1 hl
        cg_run
        all_goals (intro s' h; cases h; simp [hl])
      · intro x hx
        cases x with
        | inr x => exact nomatch x
        | inl l =>
          have := hx l rfl
          exact wp_pure ⟨(by intro s' h; cases h; exact ⟨this, by show r.2.length = 9; omega, hnext hg⟩),
            (by intro r' h; cases h)⟩
  · intro x hinl hinr
    cases x with
    | inr r =>
      obtain ⟨a, b, c⟩ := hinr r rfl
      exact wp_pure ⟨a, Or.inr ⟨b, c⟩⟩
    | inl s =>
      obtain ⟨a, _, c⟩ := hinl s rfl
      refine wp_pure ⟨a, Or.inl ⟨rfl, ?_⟩⟩
      intro k hk
      exact c k (by omega)

/-- the hand-written footprint model of `c_downstream`: its return code -/
theorem downstream_code (e : Ext) (nrows ncols nval : Int) (code fdir cells : Nat → Int)
    (hr : 0 ≤ nrows) (hc : 0 ≤ ncols) (hN : nrows * ncols ≤ 9223372036854775807)
    (hfd : nrows * ncols ≤ e .flowdir) (hcode : 9 ≤ e .flowdircode)
    (h1 : nval ≤ e .idxup) (h2 : nval ≤ e .idxdown) :
    wp (downstream e nrows ncols nval code fdir cells) (fun c =>
      (c = 0 ∧ AllInGrid nrows ncols nval cells) ∨ (c = 1 ∧ ¬ AllInGrid nrows ncols nval cells)) := by
  unfold downstream
  refine wp_bind (wp_forLoopP (fun i (_ : Unit) => ∀ k : Nat, (k : Int) < i → InGrid nrows ncols (cells k))
    (fun (_ : Unit) => ¬ AllInGrid nrows ncols nval cells) _ _ _ (by intro k hk; omega) ?_ ?_)
  · intro i _ hi0 hi1 hprev
    refine wp_bind (wp_rdI ⟨by omega, by omega⟩ ?_)
    refine wp_bind (wp_mono (wp_downstream1 hr hc hN hfd hcode (by omega) (by omega) (by omega)) (fun d hd => ?_))
    cases d with
    | none =>
      refine wp_pure ⟨(by intro s' h; cases h), ?_⟩
      intro r _ hall
      exact (hd.1.1 rfl) (hall i.toNat (by omega))
    | some v =>
      refine wp_pure ⟨?_, (by intro r h; cases h)⟩
      intro s' _ k hk
      by_cases hki : (k : Int) < i
      · exact hprev k hki
      · have : k = i.toNat := by omega
        rw [this]
        by_contra hb
        have := hd.1.2 hb
        cases this
  · intro x hinl hinr
    cases x with
    | inr r => exact wp_pure (Or.inr ⟨rfl, hinr r rfl⟩)
    | inl s =>
      refine wp_pure (Or.inl ⟨rfl, ?_⟩)
      intro k hk
      exact hinl s rfl k (by omega)

/-- under the kernel's precondition the generated `c_downstream` and its hand-written footprint model both run without
fault and return the same code class -/
theorem cgen_downstream_refines' (junk : Nat → Int) (nrows ncols nval : Int) (code fdir cells out : List Int) (e : Ext)
    (hr : 0 ≤ nrows) (hc : 0 ≤ ncols) (hN : nrows * ncols ≤ 9223372036854775807)
    (hfd : nrows * ncols ≤ fdir.length) (hcode : 9 ≤ code.length)
    (h1 : nval ≤ cells.length) (h2 : nval ≤ out.length)
    (he1 : e .flowdir = fdir.length) (he2 : e .flowdircode = code.length) (he3 : e .idxup = cells.length)
    (he4 : e .idxdown = out.length) :
    ∃ x c, c_downstream junk nrows ncols code fdir nval cells out = .ok x ∧
      downstream e nrows ncols nval (fun k => code.getD k 0) (fun k => fdir.getD k 0) (fun k => cells.getD k 0) = .ok c ∧
      c = x.1 := by
  obtain ⟨x, hx, _, hxc⟩ := cgen_downstream_code' junk nrows ncols nval code fdir cells out hr hc hN hfd hcode h1 h2
  obtain ⟨c, hc', hcc⟩ := downstream_code e nrows ncols nval (fun k => code.getD k 0) (fun k => fdir.getD k 0)
    (fun k => cells.getD k 0) hr hc hN (by omega) (by omega) (by omega) (by omega)
  refine ⟨x, c, hx, hc', ?_⟩
  rcases hxc with ⟨a, b⟩ | ⟨a, b⟩ <;> rcases hcc with ⟨a', b'⟩ | ⟨a', b'⟩
  · omega
  · exact absurd b b'
  · exact absurd b' b
  · omega

theorem cgen_upstream_code' (junk : Nat → Int) (nrows ncols nval : Int) (code fdir cells out : List Int)
    (hr : 0 ≤ nrows) (hc : 0 ≤ ncols) (hN : nrows * ncols ≤ 9223372036854775807)
    (hfd : nrows * ncols ≤ fdir.length) (hcode : 9 ≤ code.length)
    (h1 : nval ≤ cells.length) (h2 : 9 * nval ≤ out.length) (hL : (out.length : Int) ≤ 9223372036854775807) :
    wp (c_upstream junk nrows ncols code fdir nval cells out) (fun r => r.2.length = out.length ∧
      ((r.1 = 0 ∧ AllInGrid nrows ncols nval (fun k => cells.getD k 0)) ∨
       (r.1 = 1 ∧ ¬ AllInGrid nrows ncols nval (fun k => cells.getD k 0)))) := by
  have h0 : 0 ≤ nrows * ncols := Int.mul_nonneg hr hc
  unfold c_upstream
  simp only [uninit_9]
  refine wp_bind (wp_forLoopP (fun i (s : List Int × List Int) => s.1.length = out.length ∧ s.2.length = 9 ∧
      ∀ k : Nat, (k : Int) < i → InGrid nrows ncols (cells.getD k 0))
    (fun (r : Int × List Int) => r.2.length = out.length ∧ r.1 = 1 ∧
      ¬ AllInGrid nrows ncols nval (fun k => cells.getD k 0)) _ _ _ ⟨rfl, by simp, by intro k hk; omega⟩ ?_ ?_)
  · intro i s hi0 hi1 hI
    obtain ⟨hl1, hl2, hprev⟩ := hI
    have hbad : ¬ InGrid nrows ncols (cells.getD i.toNat 0) → ¬ AllInGrid nrows ncols nval (fun k => cells.getD k 0) := by
      intro hb hall
      exact hb (hall i.toNat (by omega))
    have hnext : InGrid nrows ncols (cells.getD i.toNat 0) →
        ∀ k : Nat, (k : Int) < i + 1 → InGrid nrows ncols (cells.getD k 0) := by
      intro hg k hk
      by_cases hki : (k : Int) < i
      · exact hprev k hki
      · have : k = i.toNat := by omega
        rw [this]; exact hg
    unfold InGrid at hbad hnext
    cg_run
    all_goals first
      | exact ⟨(by intro s' h; cases h), (by intro r h; cases h; exact ⟨hl1, rfl, hbad (by cg_side)⟩)⟩
      | skip
    refine wp_mono (cgen_neighbours_spec' junk nrows ncols _ _ hr hc hN ⟨?_, ?_⟩ ?_) ?_
    · omega
    · cg_side
    · omega
    intro r hr9
    obtain ⟨_, hlen, hnb, _⟩ := hr9
    have hg : 0 ≤ cells.getD i.toNat 0 ∧ cells.getD i.toNat 0 < nrows * ncols := by cg_side
    cg_run
    refine wp_forLoop (fun j (t : List Int × Int) => t.1.length = out.length ∧ 0 ≤ t.2 ∧ t.2 ≤ j) _ _ _
      ⟨hl1, by omega, by omega⟩ ?_ ?_
    · intro j t hj0 hj1 ht
      obtain ⟨ht1, ht2, ht3⟩ := ht
      have hnbj := hnb j.toNat (by omega)
      have hin := neighbour_inGrid nrows ncols (cells.getD i.toNat 0) j.toNat
      unfold InGrid at hin
      cg_run
      all_goals (intro s' h; cases h; refine ⟨by simp [ht1], ?_, ?_⟩ <;> (simp only []; omega))
    · intro x hx
      cases x with
      | inr x => exact nomatch x
      | inl t =>
        obtain ⟨ht1, ht2, ht3⟩ := hx t rfl
        simp only []
        refine wp_bind (wp_forLoop (fun _ (l : List Int) => l.length = out.length) _ _ _ ht1 ?_ ?_)
        · intro j l hj0 hj1 hl
          cg_run
          all_goals (intro s' h; cases h; simp [hl])
        · intro y hy
          cases y with
          | inr y => exact nomatch y
          | inl l =>
            have := hy l rfl
            exact wp_pure ⟨(by intro s' h; cases h; exact ⟨this, by show r.2.length = 9; omega, hnext hg⟩),
              (by intro r' h; cases h)⟩
  · intro x hinl hinr
    cases x with
    | inr r =>
      obtain ⟨a, b, c⟩ := hinr r rfl
      exact wp_pure ⟨a, Or.inr ⟨b, c⟩⟩
    | inl s =>
      obtain ⟨a, _, c⟩ := hinl s rfl
      refine wp_pure ⟨a, Or.inl ⟨rfl, ?_⟩⟩
      intro k hk
      exact c k (by omega)

/-- `upstream1` of the footprint model answers `false` exactly for a cell outside the grid -/
theorem wp_upstream1_code {e eu : Ext} {nrows ncols : Int} {code fdir : Nat → Int} {row idx : Int}
    (hr : 0 ≤ nrows) (hc : 0 ≤ ncols) (hN : nrows * ncols ≤ 9223372036854775807)
    (hfd : nrows * ncols ≤ e .flowdir) (hcode : 9 ≤ e .flowdircode)
    (hrow : 0 ≤ row) (hup : 9 * row + 9 ≤ eu .idxup) :
    wp (upstream1 e eu nrows ncols code fdir row idx) (fun ok => ok = true ↔ InGrid nrows ncols idx) := by
  unfold upstream1
  have h0 : 0 ≤ nrows * ncols := Int.mul_nonneg hr hc
  refine wp_bind (wp_i64 ⟨by omega, by omega⟩ ?_)
  refine wp_ite (fun h => wp_pure (by simp [InGrid]; omega)) (fun h => ?_)
  have hg : InGrid nrows ncols idx := by unfold InGrid; omega
  refine wp_bind (wp_mono (wp_neighboursInto (eb := nbExt) (b := .nbloc) (by simp [nbExt]) hr hc hN) (fun _ _ => ?_))
  refine wp_bind (wp_forLoop (fun j k => 0 ≤ k ∧ k ≤ j) _ _ _ (by simp) ?_ ?_)
  · intro j k hj0 hj1 hI
    have hnb := neighbour_inGrid nrows ncols idx j.toNat
    unfold InGrid at hnb
    wp_lin
  · intro x hx
    cases x with
    | inr x => exact nomatch x
    | inl k =>
      have := hx k rfl
      wp_lin
      simp [hg]

theorem upstream_code (e : Ext) (nrows ncols nval : Int) (code fdir cells : Nat → Int)
    (hr : 0 ≤ nrows) (hc : 0 ≤ ncols) (hN : nrows * ncols ≤ 9223372036854775807)
    (hfd : nrows * ncols ≤ e .flowdir) (hcode : 9 ≤ e .flowdircode)
    (h1 : nval ≤ e .idxdown) (h2 : 9 * nval ≤ e .idxup) :
    wp (upstream e nrows ncols nval code fdir cells) (fun c =>
      (c = 0 ∧ AllInGrid nrows ncols nval cells) ∨ (c = 1 ∧ ¬ AllInGrid nrows ncols nval cells)) := by
  unfold upstream
  refine wp_bind (wp_forLoopP (fun i (_ : Unit) => ∀ k : Nat, (k : Int) < i → InGrid nrows ncols (cells k))
    (fun (_ : Unit) => ¬ AllInGrid nrows ncols nval cells) _ _ _ (by intro k hk; omega) ?_ ?_)
  · intro i _ hi0 hi1 hprev
    refine wp_bind (wp_rdI ⟨by omega, by omega⟩ ?_)
    refine wp_bind (wp_mono (wp_upstream1_code hr hc hN hfd hcode (by omega) (by omega)) (fun ok hok => ?_))
    cases ok with
    | false =>
      refine wp_pure ⟨(by intro s' h; cases h), ?_⟩
      intro r _ hall
      have := hok.2 (hall i.toNat (by omega))
      cases this
    | true =>
      refine wp_pure ⟨?_, (by intro r h; cases h)⟩
      intro s' _ k hk
      by_cases hki : (k : Int) < i
      · exact hprev k hki
      · have : k = i.toNat := by omega
        rw [this]
        exact hok.1 rfl
  · intro x hinl hinr
    cases x with
    | inr r => exact wp_pure (Or.inr ⟨rfl, hinr r rfl⟩)
    | inl s =>
      refine wp_pure (Or.inl ⟨rfl, ?_⟩)
      intro k hk
      exact hinl s rfl k (by omega)


end HydroVerif.C05
