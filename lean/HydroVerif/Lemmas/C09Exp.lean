/- helper lemmas for C09: the exponent format `%0.{d}e` -/
import HydroVerif.Lemmas.C09Num
import Mathlib.Data.Int.Log
import Mathlib.Algebra.Order.GroupWithZero.Basic

namespace HydroVerif.C09

theorem pow10_eq_zpow (e : ℤ) : pow10 e = (10 : ℚ) ^ e := by
  unfold pow10
  by_cases h : 0 ≤ e
  · rw [if_pos h]
    conv_rhs => rw [← Int.toNat_of_nonneg h]
    rw [zpow_natCast]
  · rw [if_neg h]
    have h' : 0 ≤ -e := by omega
    have : e = -((-e).toNat : ℤ) := by rw [Int.toNat_of_nonneg h']; ring
    conv_rhs => rw [this, zpow_neg, zpow_natCast]
    rw [one_div]

theorem pow10_pos (e : ℤ) : 0 < pow10 e := by
  rw [pow10_eq_zpow]; exact zpow_pos (by norm_num) e

/-- the search finds the decimal exponent when it starts within `fuel` of it -/
theorem findExp_spec (fuel : ℕ) (mag : ℚ) (E : ℤ) (hE1 : (10 : ℚ) ^ E ≤ mag) (hE2 : mag < (10 : ℚ) ^ (E + 1)) :
    ∀ e : ℤ, |e - E| ≤ fuel → findExp fuel mag e = E := by
  have h10 : (1 : ℚ) < 10 := by norm_num
  induction fuel with
  | zero =>
    intro e he
    have : e = E := by
      have := abs_nonneg (e - E)
      have h0 : |e - E| = 0 := le_antisymm (by exact_mod_cast he) this
      have := abs_eq_zero.mp h0
      omega
    simp [findExp, this]
  | succ fuel ih =>
    intro e he
    unfold findExp
    rw [pow10_eq_zpow, pow10_eq_zpow]
    have he' : |e - E| ≤ (fuel : ℤ) + 1 := by exact_mod_cast he
    rw [abs_le] at he'
    by_cases h1 : mag < (10 : ℚ) ^ e
    · rw [if_pos h1]
      have : E < e := (zpow_lt_zpow_iff_right₀ h10).mp (lt_of_le_of_lt hE1 h1)
      apply ih
      rw [abs_le]; constructor <;> omega
    · rw [if_neg h1]
      by_cases h2 : (10 : ℚ) ^ (e + 1) ≤ mag
      · rw [if_pos h2]
        have : e + 1 < E + 1 := (zpow_lt_zpow_iff_right₀ h10).mp (lt_of_le_of_lt h2 hE2)
        apply ih
        rw [abs_le]; constructor <;> omega
      · rw [if_neg h2]
        have a1 : e < E + 1 := (zpow_lt_zpow_iff_right₀ h10).mp (lt_of_le_of_lt (not_lt.mp h1) hE2)
        have a2 : E < e + 1 := (zpow_lt_zpow_iff_right₀ h10).mp (lt_of_le_of_lt hE1 (not_le.mp h2))
        omega

/-- every positive rational has a decimal exponent -/
theorem exists_decimal_exponent (mag : ℚ) (hm : 0 < mag) : ∃ E : ℤ, (10 : ℚ) ^ E ≤ mag ∧ mag < (10 : ℚ) ^ (E + 1) := by
  refine ⟨Int.log 10 mag, ?_, ?_⟩
  · have := Int.zpow_log_le_self (b := 10) (r := mag) (by norm_num) hm
    simpa using this
  · have := Int.lt_zpow_succ_log_self (b := 10) (by norm_num) mag
    simpa using this

/-- for magnitudes in the range of doubles (and far beyond) the search of `expParts` returns the decimal exponent -/
theorem findExp_800 (mag : ℚ) (hlo : (10 : ℚ) ^ (-800 : ℤ) ≤ mag) (hhi : mag < (10 : ℚ) ^ (800 : ℤ)) :
    (10 : ℚ) ^ (findExp 800 mag 0) ≤ mag ∧ mag < (10 : ℚ) ^ (findExp 800 mag 0 + 1) := by
  have h10 : (1 : ℚ) < 10 := by norm_num
  have hm : 0 < mag := lt_of_lt_of_le (zpow_pos (by norm_num) _) hlo
  obtain ⟨E, hE1, hE2⟩ := exists_decimal_exponent mag hm
  have b1 : (-800 : ℤ) < E + 1 := (zpow_lt_zpow_iff_right₀ h10).mp (lt_of_le_of_lt hlo hE2)
  have b2 : E < 800 := (zpow_lt_zpow_iff_right₀ h10).mp (lt_of_le_of_lt hE1 hhi)
  have := findExp_spec 800 mag E hE1 hE2 0 (by rw [abs_le]; constructor <;> push_cast <;> omega)
  rw [this]
  exact ⟨hE1, hE2⟩

theorem natVal_zero_cons (s : Str) : natVal ('0' :: s) = natVal s := by
  simp [natVal, digitVal]

theorem isDigitChar_zero : isDigitChar '0' := by unfold isDigitChar; decide

end HydroVerif.C09
