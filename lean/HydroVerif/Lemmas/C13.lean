/-
Helper lemmas for `Props/C13.lean` (bytes and words, chunking, reshaping).
-/
import HydroVerif.Model.C13
import Mathlib.Tactic.Linarith
import Mathlib.Tactic.Ring

namespace HydroVerif.C13

/-! ### words ↔ bytes -/

theorem encodeLE_length (n w : Nat) : (encodeLE n w).length = n := by
  induction n generalizing w with
  | zero => rfl
  | succ n ih => simp [encodeLE, ih]

theorem decodeLE_encodeLE (n w : Nat) (h : w < 256 ^ n) : decodeLE (encodeLE n w) = w := by
  induction n generalizing w with
  | zero => simp at h; simp [encodeLE, decodeLE, h]
  | succ n ih =>
    have h2 : w / 256 < 256 ^ n := by
      rw [Nat.div_lt_iff_lt_mul (by norm_num)]
      calc w < 256 ^ (n + 1) := h
        _ = 256 ^ n * 256 := by ring
    simp only [encodeLE, decodeLE, ih _ h2]
    have : (UInt8.ofNat (w % 256)).toNat = w % 256 := by
      simp [UInt8.toNat_ofNat']
    rw [this]
    omega

theorem decodeLE_lt (bs : List UInt8) : decodeLE bs < 256 ^ bs.length := by
  induction bs with
  | nil => simp [decodeLE]
  | cons b bs ih =>
    simp only [decodeLE, List.length_cons]
    have hb : b.toNat < 256 := b.toNat_lt
    calc b.toNat + 256 * decodeLE bs < 256 + 256 * decodeLE bs := by omega
      _ = 256 * (decodeLE bs + 1) := by ring
      _ ≤ 256 * 256 ^ bs.length := Nat.mul_le_mul_left _ ih
      _ = 256 ^ (bs.length + 1) := by ring

theorem encodeLE_decodeLE (bs : List UInt8) : encodeLE bs.length (decodeLE bs) = bs := by
  induction bs with
  | nil => rfl
  | cons b bs ih =>
    have hb : b.toNat < 256 := b.toNat_lt
    simp only [decodeLE, List.length_cons, encodeLE]
    have h1 : (b.toNat + 256 * decodeLE bs) % 256 = b.toNat := by omega
    have h2 : (b.toNat + 256 * decodeLE bs) / 256 = decodeLE bs := by omega
    rw [h1, h2, ih]
    congr 1
    exact UInt8.ofNat_toNat

/-- two byte strings of the same length that decode to the same word are equal -/
theorem decodeLE_injective {a b : List UInt8} (hl : a.length = b.length) (h : decodeLE a = decodeLE b) : a = b := by
  rw [← encodeLE_decodeLE a, ← encodeLE_decodeLE b, hl, h]

/-! ### items of a file, rows of an array -/

theorem chunksAux_flatten {β : Type} (n : Nat) (hn : 0 < n) (blocks : List (List β))
    (hb : ∀ b ∈ blocks, b.length = n) (fuel : Nat) (hf : blocks.flatten.length ≤ fuel) :
    chunksAux n fuel blocks.flatten = blocks := by
  induction blocks generalizing fuel with
  | nil =>
    cases fuel with
    | zero => rfl
    | succ f => simp [chunksAux]
  | cons b bs ih =>
    have hbl : b.length = n := hb b (by simp)
    have hbs : ∀ b ∈ bs, b.length = n := fun x hx => hb x (by simp [hx])
    simp only [List.flatten_cons, List.length_append] at hf ⊢
    cases fuel with
    | zero => omega
    | succ f =>
      have hc : ¬ (n = 0 ∨ (b ++ bs.flatten).length < n) := by
        simp only [List.length_append]; omega
      simp only [chunksAux, if_neg hc]
      have ht : (b ++ bs.flatten).take n = b := by rw [← hbl]; simp
      have hd : (b ++ bs.flatten).drop n = bs.flatten := by rw [← hbl]; simp
      rw [ht, hd, ih hbs f (by omega)]

theorem chunks_flatten {β : Type} (n : Nat) (hn : 0 < n) (blocks : List (List β))
    (hb : ∀ b ∈ blocks, b.length = n) : chunks n blocks.flatten = blocks :=
  chunksAux_flatten n hn blocks hb _ (Nat.le_refl _)

theorem reshape_flatten {β : Type} (ncols : Nat) (rows : List (List β)) (h : ∀ r ∈ rows, r.length = ncols) :
    reshape rows.length ncols rows.flatten = rows := by
  induction rows with
  | nil => rfl
  | cons r rs ih =>
    have hr : r.length = ncols := h r (by simp)
    have hrs : ∀ x ∈ rs, x.length = ncols := fun x hx => h x (by simp [hx])
    simp only [List.length_cons, reshape, List.flatten_cons]
    have ht : (r ++ rs.flatten).take ncols = r := by rw [← hr]; simp
    have hd : (r ++ rs.flatten).drop ncols = rs.flatten := by rw [← hr]; simp
    rw [ht, hd, ih hrs]

theorem length_flatten_uniform {β : Type} (ncols : Nat) (rows : List (List β)) (h : ∀ r ∈ rows, r.length = ncols) :
    rows.flatten.length = rows.length * ncols := by
  induction rows with
  | nil => simp
  | cons r rs ih =>
    have hr : r.length = ncols := h r (by simp)
    have hrs : ∀ x ∈ rs, x.length = ncols := fun x hx => h x (by simp [hx])
    simp only [List.flatten_cons, List.length_append, List.length_cons, ih hrs, hr]
    ring

/-! ### integer words -/

theorem ofInt_toInt (t : DType) (w : Nat) (h : w < wordBound t) : ofInt t (toInt t w) = w := by
  unfold ofInt toInt
  have hB : (0 : Int) < (wordBound t : Int) := by
    have : 0 < wordBound t := Nat.lt_of_le_of_lt (Nat.zero_le _) h
    exact_mod_cast this
  have hw : ((w : Int)) < (wordBound t : Int) := by exact_mod_cast h
  cases t.kind <;> simp only
  · split
    · rw [Int.emod_eq_of_lt (by omega) hw]; simp
    · rw [Int.sub_emod_right, Int.emod_eq_of_lt (by omega) hw]; simp
  · rw [Int.emod_eq_of_lt (by omega) hw]; simp
  · rw [Int.emod_eq_of_lt (by omega) hw]; simp

theorem intInRange_toInt (t : DType) (w : Nat) (h : w < wordBound t) : intInRange t (toInt t w) = true := by
  unfold intInRange toInt
  have hw : ((w : Int)) < (wordBound t : Int) := by exact_mod_cast h
  cases t.kind <;> simp only
  · split
    · rename_i h2
      have : (2 * (w : Int)) < (wordBound t : Int) := by exact_mod_cast h2
      simp; omega
    · rename_i h2
      have : ¬ (2 * (w : Int)) < (wordBound t : Int) := by
        intro hh; apply h2; exact_mod_cast hh
      simp; omega
  · simp; omega
  · simp; omega

/-! ### data path -/

/-- with the default bounds the whole array goes through unchanged, whatever the values (NaN, inf, 2^63-1 …) -/
theorem clipData_default' (t : DType) (rows : List (List Nat)) : clipData t none none rows = rows := by
  unfold clipData
  have hw : ∀ w, clipWord t none none w = w := by
    intro w; unfold clipWord; cases t.kind <;> simp [clipLoF, clipHiF]
  have hr : ∀ r : List Nat, r.map (clipWord t none none) = r := by
    intro r
    calc r.map (clipWord t none none) = r.map id := List.map_congr_left (fun w _ => hw w)
      _ = r := List.map_id _
  calc rows.map (fun r => r.map (clipWord t none none)) = rows.map id := List.map_congr_left (fun r _ => hr r)
    _ = rows := List.map_id _

/-- the data setter keeps an array of the right shape bit-identical (default bounds) -/
theorem setData_id' {ν : Type} (g : Grid ν) (rows : List (List Nat)) (hb : g.lo = none ∧ g.hi = none)
    (hr : (rows.length : Int) = g.nrows) (hc : ∀ r ∈ rows, (r.length : Int) = g.ncols) :
    setData g rows = .ok { g with data := rows } := by
  unfold setData
  rw [if_neg (by simpa [hr] using hc)]
  rw [hb.1, hb.2, clipData_default']

/-! ### array store -/

theorem read_set_ne (s : Store) (a : Handle) (i : Nat) (v : List (List Nat)) (h : a.arr ≠ i) :
    Store.read (s.set i v) a = Store.read s a := by
  unfold Store.read
  simp [List.getD_eq_getElem?_getD, List.getElem?_set_ne (Ne.symm h)]

theorem read_append (s : Store) (a : Handle) (x : List (List Nat)) (h : a.arr < s.length) :
    Store.read (s ++ [x]) a = Store.read s a := by
  unfold Store.read
  simp [List.getD_eq_getElem?_getD, List.getElem?_append_left h]

theorem read_append_new (s : Store) (x : List (List Nat)) : Store.read (s ++ [x]) ⟨s.length⟩ = x := by
  unfold Store.read
  simp [List.getD_eq_getElem?_getD]


/-- one operation through handle `b` leaves what another handle `a` (a different array) sees unchanged, and keeps
the two handles on different arrays -/
theorem apply_other (s : Store) (a b : Handle) (ha : a.arr < s.length) (hb : b.arr < s.length) (hne : a.arr ≠ b.arr)
    (op : SOp) :
    (op.apply s b).1.read a = s.read a ∧ a.arr < (op.apply s b).1.length ∧
      (op.apply s b).2.arr < (op.apply s b).1.length ∧ a.arr ≠ (op.apply s b).2.arr := by
  cases op with
  | setItem idx w => simp only [SOp.apply]; exact ⟨read_set_ne _ _ _ _ hne, by simpa using ha, by simpa using hb, hne⟩
  | fill w => simp only [SOp.apply]; exact ⟨read_set_ne _ _ _ _ hne, by simpa using ha, by simpa using hb, hne⟩
  | setData rows =>
    simp only [SOp.apply]
    split
    · exact ⟨read_append _ _ _ ha, by simp; omega, by simp, by simp; omega⟩
    · exact ⟨rfl, ha, hb, hne⟩

theorem applyAll_other (ops : List SOp) : ∀ (s : Store) (a b : Handle), a.arr < s.length → b.arr < s.length →
    a.arr ≠ b.arr → (applyAll s b ops).1.read a = s.read a := by
  induction ops with
  | nil => intro s a b _ _ _; rfl
  | cons op ops ih =>
    intro s a b ha hb hne
    obtain ⟨h1, h2, h3, h4⟩ := apply_other s a b ha hb hne op
    simp only [applyAll]
    rw [ih _ a _ h2 h3 h4, h1]



theorem bytes_pos_of_mem {t : DType} (h : t ∈ allDTypes) : 0 < t.bytes := by
  revert t; decide


end HydroVerif.C13
