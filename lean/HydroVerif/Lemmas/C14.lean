/-
C14 — helper definitions and lemmas: the specification vocabulary (consecutive pairs, per-pair
contribution, sums over all pairs) and the loop invariant of the `c_var2h` walk, over any ordered field.
-/
import HydroVerif.Model.C14
import Mathlib.Algebra.Order.Field.Basic
import Mathlib.Algebra.Order.Ring.Cast
import Mathlib.Algebra.BigOperators.Group.List.Basic
import Mathlib.Tactic.Ring
import Mathlib.Tactic.Linarith
import Mathlib.Tactic.FieldSimp

namespace HydroVerif.C14

/-! ### vocabulary -/

/-- non-decreasing time stamps -/
def Sorted {α : Type} (l : List (Obs α)) : Prop := l.Pairwise (fun x y => x.1 ≤ y.1)

/-- the observation intervals: consecutive pairs -/
def pairs {α : Type} : List (Obs α) → List (Obs α × Obs α)
  | a :: b :: r => (a, b) :: pairs (b :: r)
  | _ => []

/-- time of the last observation (0 for the empty list) -/
def lastTime {α : Type} : List (Obs α) → Int
  | [] => 0
  | [a] => a.1
  | _ :: b :: r => lastTime (b :: r)

@[simp] theorem pairs_nil {α : Type} : pairs ([] : List (Obs α)) = [] := rfl
@[simp] theorem pairs_single {α : Type} (a : Obs α) : pairs [a] = [] := rfl
@[simp] theorem pairs_cons_cons {α : Type} (a b : Obs α) (r : List (Obs α)) :
    pairs (a :: b :: r) = (a, b) :: pairs (b :: r) := rfl
@[simp] theorem lastTime_single {α : Type} (a : Obs α) : lastTime [a] = a.1 := rfl
@[simp] theorem lastTime_cons_cons {α : Type} (a b : Obs α) (r : List (Obs α)) :
    lastTime (a :: b :: r) = lastTime (b :: r) := rfl

theorem pairs_append {α : Type} (pre : List (Obs α)) (a : Obs α) (l : List (Obs α)) :
    pairs (pre ++ a :: l) = pairs (pre ++ [a]) ++ pairs (a :: l) := by
  induction pre with
  | nil => simp
  | cons x pre ih =>
    cases pre with
    | nil => simp
    | cons y pre => simpa using ih

theorem lastTime_append {α : Type} (pre : List (Obs α)) (a : Obs α) (l : List (Obs α)) :
    lastTime (pre ++ a :: l) = lastTime (a :: l) := by
  induction pre with
  | nil => simp
  | cons x pre ih =>
    cases pre with
    | nil => simp
    | cons y pre => simpa using ih

theorem Sorted.tail {α : Type} {a : Obs α} {l : List (Obs α)} (h : Sorted (a :: l)) : Sorted l :=
  (List.pairwise_cons.mp h).2

theorem Sorted.head_le {α : Type} {a : Obs α} {l : List (Obs α)} (h : Sorted (a :: l)) :
    ∀ x ∈ l, a.1 ≤ x.1 := (List.pairwise_cons.mp h).1

theorem Sorted.le_lastTime {α : Type} : ∀ {l : List (Obs α)}, Sorted l → ∀ x ∈ l, x.1 ≤ lastTime l
  | [], _, x, hx => by simp at hx
  | [a], _, x, hx => by simp at hx; simp [hx]
  | a :: b :: r, h, x, hx => by
    rw [lastTime_cons_cons]
    rcases List.mem_cons.mp hx with rfl | hx
    · exact le_trans (h.head_le b (by simp)) (Sorted.le_lastTime h.tail b (by simp))
    · exact Sorted.le_lastTime h.tail x hx

/-- members of a pair of a sorted list are ordered, and both belong to the list -/
theorem mem_pairs {α : Type} : ∀ {l : List (Obs α)} {p : Obs α × Obs α}, p ∈ pairs l → p.1 ∈ l ∧ p.2 ∈ l
  | [], p, h => by simp at h
  | [a], p, h => by simp at h
  | a :: b :: r, p, h => by
    rw [pairs_cons_cons] at h
    rcases List.mem_cons.mp h with rfl | h
    · simp
    · have := mem_pairs h
      exact ⟨List.mem_cons_of_mem _ this.1, List.mem_cons_of_mem _ this.2⟩

theorem Sorted.pair_le {α : Type} : ∀ {l : List (Obs α)}, Sorted l → ∀ p ∈ pairs l, p.1.1 ≤ p.2.1
  | [], _, p, h => by simp at h
  | [a], _, p, h => by simp at h
  | a :: b :: r, hs, p, h => by
    rw [pairs_cons_cons] at h
    rcases List.mem_cons.mp h with rfl | h
    · exact hs.head_le b (by simp)
    · exact Sorted.pair_le hs.tail p h

section field
set_option linter.unusedSectionVars false
variable {α : Type} [Field α] [LinearOrder α] [IsStrictOrderedRing α]

/-- contribution of the interval `(a, b)` to `hvalue` for the period `[s, e)` (0 when nothing is added) -/
def pieceVal (c : Cfg α) (s e : α) (a b : Obs α) : α := (piece c s e a b).getD 0

/-- sum of the contributions of **all** observation intervals -/
def psum (c : Cfg α) (s e : α) (l : List (Obs α)) : α :=
  ((pairs l).map fun p => pieceVal c s e p.1 p.2).sum

/-- some interval that starts before `e` is invalid -/
def pmiss (c : Cfg α) (e : α) (l : List (Obs α)) : Bool :=
  (pairs l).any fun p => decide ((p.1.1 : α) < e) && invalid c p.1 p.2

theorem addPiece_eq (h : α) (p : Option α) : addPiece h p = h + p.getD 0 := by
  cases p <;> simp [addPiece]

@[simp] theorem psum_single (c : Cfg α) (s e : α) (a : Obs α) : psum c s e [a] = 0 := by simp [psum]
@[simp] theorem psum_cons_cons (c : Cfg α) (s e : α) (a b : Obs α) (r : List (Obs α)) :
    psum c s e (a :: b :: r) = pieceVal c s e a b + psum c s e (b :: r) := by simp [psum]
@[simp] theorem pmiss_single (c : Cfg α) (e : α) (a : Obs α) : pmiss c e [a] = false := by simp [pmiss]
@[simp] theorem pmiss_cons_cons (c : Cfg α) (e : α) (a b : Obs α) (r : List (Obs α)) :
    pmiss c e (a :: b :: r) = ((decide ((a.1 : α) < e) && invalid c a b) || pmiss c e (b :: r)) := by
  simp [pmiss]

theorem psum_append (c : Cfg α) (s e : α) (pre : List (Obs α)) (a : Obs α) (l : List (Obs α)) :
    psum c s e (pre ++ a :: l) = psum c s e (pre ++ [a]) + psum c s e (a :: l) := by
  rw [psum, pairs_append, List.map_append, List.sum_append]; rfl

theorem clipLo_ge (s : α) (a : Obs α) : (a.1 : α) ≤ clipLo s a ∧ s ≤ clipLo s a := by
  unfold clipLo; split_ifs with h
  · exact ⟨h.le, le_refl _⟩
  · exact ⟨le_refl _, not_lt.mp h⟩

theorem clipHi_le (e : α) (b : Obs α) : clipHi e b ≤ (b.1 : α) ∧ clipHi e b ≤ e := by
  unfold clipHi; split_ifs with h
  · exact ⟨h.le, le_refl _⟩
  · exact ⟨le_refl _, not_lt.mp h⟩

/-- an interval that starts at or after the end of the period adds nothing -/
theorem pieceVal_of_ge_end (c : Cfg α) (heps : 0 ≤ c.eps) (s e : α) (a b : Obs α) (h : e ≤ (a.1 : α)) :
    pieceVal c s e a b = 0 := by
  have h1 := (clipLo_ge s a).1
  have h2 := (clipHi_le e b).2
  have : ¬ c.eps < clipHi e b - clipLo s a := by
    have : clipHi e b - clipLo s a ≤ 0 := by linarith
    exact not_lt.mpr (le_trans this heps)
  simp [pieceVal, piece, this]

/-- an interval that ends at or before the start of the period adds nothing -/
theorem pieceVal_of_le_start (c : Cfg α) (heps : 0 ≤ c.eps) (s e : α) (a b : Obs α) (h : (b.1 : α) ≤ s) :
    pieceVal c s e a b = 0 := by
  have h1 := (clipLo_ge s a).2
  have h2 := (clipHi_le e b).1
  have : ¬ c.eps < clipHi e b - clipLo s a := by
    have : clipHi e b - clipLo s a ≤ 0 := by linarith
    exact not_lt.mpr (le_trans this heps)
  simp [pieceVal, piece, this]

theorem psum_of_ge_end (c : Cfg α) (heps : 0 ≤ c.eps) (s e : α) :
    ∀ (l : List (Obs α)), (∀ x ∈ l, e ≤ (x.1 : α)) → psum c s e l = 0
  | [], _ => by simp [psum]
  | [a], _ => by simp
  | a :: b :: r, h => by
    rw [psum_cons_cons, pieceVal_of_ge_end c heps s e a b (h a (by simp)),
      psum_of_ge_end c heps s e (b :: r) (fun x hx => h x (List.mem_cons_of_mem _ hx))]
    simp

theorem psum_of_le_start (c : Cfg α) (heps : 0 ≤ c.eps) (s e : α) :
    ∀ (l : List (Obs α)), (∀ x ∈ l, (x.1 : α) ≤ s) → psum c s e l = 0
  | [], _ => by simp [psum]
  | [a], _ => by simp
  | a :: b :: r, h => by
    rw [psum_cons_cons, pieceVal_of_le_start c heps s e a b (h b (by simp)),
      psum_of_le_start c heps s e (b :: r) (fun x hx => h x (List.mem_cons_of_mem _ hx))]
    simp

theorem pmiss_of_ge_end (c : Cfg α) (e : α) :
    ∀ (l : List (Obs α)), (∀ x ∈ l, e ≤ (x.1 : α)) → pmiss c e l = false
  | [], _ => by simp [pmiss]
  | [a], _ => by simp
  | a :: b :: r, h => by
    rw [pmiss_cons_cons, pmiss_of_ge_end c e (b :: r) (fun x hx => h x (List.mem_cons_of_mem _ hx))]
    have : ¬ (a.1 : α) < e := not_lt.mpr (h a (by simp))
    simp [this]

theorem pmiss_iff (c : Cfg α) (e : α) (l : List (Obs α)) :
    pmiss c e l = true ↔ ∃ p ∈ pairs l, (p.1.1 : α) < e ∧ invalid c p.1 p.2 = true := by
  simp [pmiss, List.any_eq_true]

/-! ### the walk -/

theorem walk_last (c : Cfg α) (s e : α) (a b : Obs α) (h : α) (m : Bool) :
    walk c s e a [b] (h, m) =
      if (b.1 : α) < (a.1 : α) then .error .decreasing
      else .ok ((addPiece h (piece c s e a b), (m || invalid c a b) || decide ((b.1 : α) < e)), (a, [b])) := by
  rw [walk]

theorem walk_cons (c : Cfg α) (s e : α) (a b r : Obs α) (rest : List (Obs α)) (h : α) (m : Bool) :
    walk c s e a (b :: r :: rest) (h, m) =
      if (b.1 : α) < (a.1 : α) then .error .decreasing
      else if (b.1 : α) < e then walk c s e b (r :: rest) (addPiece h (piece c s e a b), m || invalid c a b)
      else .ok ((addPiece h (piece c s e a b), m || invalid c a b), (a, b :: r :: rest)) := by
  rw [walk]

/-- The `while` loop entered at `a` with the rest `l` of the observations: it adds the contributions of
all remaining intervals (those not reached add nothing), raises `miss` exactly when an interval starting
before `e` is invalid or the observations end before `e`, and comes back to the last interval that
starts before `e`. -/
theorem walk_spec (c : Cfg α) (heps : 0 ≤ c.eps) (s e : α) :
    ∀ (l : List (Obs α)) (a : Obs α) (h : α) (m : Bool), l ≠ [] → Sorted (a :: l) → (a.1 : α) < e →
      ∃ suf, walk c s e a l (h, m) = .ok ((h + psum c s e (a :: l),
          m || pmiss c e (a :: l) || decide ((lastTime (a :: l) : α) < e)), suf)
        ∧ (∃ pre, a :: l = pre ++ suf.1 :: suf.2) ∧ suf.2 ≠ [] ∧ (suf.1.1 : α) < e
        ∧ ((∃ b, suf.2 = [b]) ∨ ∀ b ∈ suf.2.head?, e ≤ (b.1 : α)) := by
  intro l
  induction l with
  | nil => intro a h m hne; exact absurd rfl hne
  | cons b rest ih =>
    intro a h m _ hs hae
    have hab : a.1 ≤ b.1 := hs.head_le b (by simp)
    have hnlt : ¬ (b.1 : α) < (a.1 : α) := not_lt.mpr (by exact_mod_cast hab)
    cases rest with
    | nil =>
      refine ⟨(a, [b]), ?_, ⟨[], by simp⟩, by simp, hae, Or.inl ⟨b, rfl⟩⟩
      rw [walk_last, if_neg hnlt, addPiece_eq]
      simp only [psum_cons_cons, psum_single, pmiss_cons_cons, pmiss_single, lastTime_cons_cons,
        lastTime_single, hae, decide_true, Bool.true_and, Bool.or_false, add_zero]
      rfl
    | cons r rest' =>
      by_cases hbe : (b.1 : α) < e
      · obtain ⟨suf, hw, ⟨pre, hpre⟩, h2, h3, h4⟩ :=
          ih b (h + pieceVal c s e a b) (m || invalid c a b) (by simp) hs.tail hbe
        refine ⟨suf, ?_, ⟨a :: pre, by rw [hpre]; simp⟩, h2, h3, h4⟩
        rw [walk_cons, if_neg hnlt, if_pos hbe, addPiece_eq]
        rw [show h + (piece c s e a b).getD 0 = h + pieceVal c s e a b from rfl, hw]
        simp only [psum_cons_cons, pmiss_cons_cons, lastTime_cons_cons, hae, decide_true, Bool.true_and,
          add_assoc, Bool.or_assoc]
        rfl
      · refine ⟨(a, b :: r :: rest'), ?_, ⟨[], by simp⟩, by simp, hae, Or.inr (by simpa using not_lt.mp hbe)⟩
        have hall : ∀ x ∈ b :: r :: rest', e ≤ (x.1 : α) := by
          intro x hx
          have hbx : b.1 ≤ x.1 := by
            rcases List.mem_cons.mp hx with rfl | hx
            · exact le_refl _
            · exact hs.tail.head_le x hx
          exact le_trans (not_lt.mp hbe) (by exact_mod_cast hbx)
        have hlast : ¬ ((lastTime (b :: r :: rest') : Int) : α) < e := by
          have : b.1 ≤ lastTime (b :: r :: rest') := Sorted.le_lastTime hs.tail b (by simp)
          exact not_lt.mpr (le_trans (not_lt.mp hbe) (by exact_mod_cast this))
        rw [walk_cons, if_neg hnlt, if_neg hbe, addPiece_eq]
        rw [psum_cons_cons, psum_of_ge_end c heps s e _ hall, pmiss_cons_cons, pmiss_of_ge_end c e _ hall,
          lastTime_cons_cons]
        simp only [hae, hlast, decide_true, decide_false, Bool.true_and, Bool.or_false, add_zero]
        rfl

/-! ### the loop invariant -/

/-- position of `varindex` at the start of the period that begins at `S`:
`varsec[varindex] ≤ S`, there is a next observation, and it is not earlier than `S` unless it is the last one -/
structure Inv (obs : List (Obs α)) (S : Int) (suf : Obs α × List (Obs α)) : Prop where
  pre : ∃ pre, obs = pre ++ suf.1 :: suf.2
  ne : suf.2 ≠ []
  le : suf.1.1 ≤ S
  nxt : (∃ b, suf.2 = [b]) ∨ ∀ b ∈ suf.2.head?, S ≤ b.1

/-- what the property requires of the value returned for the period `[S, E)` -/
def PeriodOK (c : Cfg α) (obs : List (Obs α)) (S E : Int) : Option α → Prop
  | some h => h * (c.P : α) = psum c (S : α) (E : α) obs ∧ E ≤ lastTime obs ∧
      ∀ p ∈ pairs obs, p.1.1 < E → S < p.2.1 → invalid c p.1 p.2 = false
  | none => lastTime obs < E ∨ ∃ p ∈ pairs obs, p.1.1 < E ∧ S ≤ p.2.1 ∧ invalid c p.1 p.2 = true

theorem mem_pairs_snd : ∀ {l : List (Obs α)} {a : Obs α} {p : Obs α × Obs α}, p ∈ pairs (a :: l) → p.2 ∈ l
  | [], a, p, h => by simp at h
  | b :: r, a, p, h => by
    rw [pairs_cons_cons] at h
    rcases List.mem_cons.mp h with rfl | h
    · simp
    · exact List.mem_cons_of_mem _ (mem_pairs_snd h)

theorem Sorted.of_append {pre l : List (Obs α)} (h : Sorted (pre ++ l)) : Sorted l :=
  (List.pairwise_append.mp h).2.1

theorem Sorted.pre_le {pre l : List (Obs α)} (h : Sorted (pre ++ l)) : ∀ x ∈ pre, ∀ y ∈ l, x.1 ≤ y.1 :=
  (List.pairwise_append.mp h).2.2

theorem pStart_eq (c : Cfg α) (hstart : Int) (i : Nat) :
    pStart c hstart i = ((hstart + (i : Int) * c.P : Int) : α) := rfl

theorem pEnd_eq (c : Cfg α) (hstart : Int) (i : Nat) :
    pEnd c hstart i = ((hstart + (i : Int) * c.P + c.P : Int) : α) := by
  simp [pEnd, pStart]

/-- one iteration of the `for` loop -/
theorem period_spec (c : Cfg α) (heps : 0 ≤ c.eps) (hP : 0 < c.P) (obs : List (Obs α)) (hs : Sorted obs)
    (hstart : Int) (i : Nat) (suf : Obs α × List (Obs α))
    (hinv : Inv obs (hstart + (i : Int) * c.P) suf) :
    ∃ o suf', period c hstart i suf = .ok (o, suf')
      ∧ PeriodOK c obs (hstart + (i : Int) * c.P) (hstart + (i : Int) * c.P + c.P) o
      ∧ Inv obs (hstart + (i : Int) * c.P + c.P) suf' := by
  obtain ⟨a, l⟩ := suf
  obtain ⟨⟨pre, hpre⟩, hne, hle, hnxt⟩ := hinv
  simp only at hpre hne hle hnxt
  generalize hS : hstart + (i : Int) * c.P = S at *
  set E := S + c.P with hE
  have hSE : S < E := by omega
  have hsuf : Sorted (a :: l) := by rw [hpre] at hs; exact hs.of_append
  have hae : ((a.1 : Int) : α) < ((E : Int) : α) := by exact_mod_cast (lt_of_le_of_lt hle hSE)
  obtain ⟨suf', hw, ⟨pre', hpre'⟩, h2, h3, h4⟩ :=
    walk_spec c heps ((S : Int) : α) ((E : Int) : α) l a 0 false hne hsuf hae
  have hPne : (c.P : α) ≠ 0 := by exact_mod_cast hP.ne'
  -- contributions of the intervals already passed vanish
  have hpresum : psum c (S : α) (E : α) obs = psum c (S : α) (E : α) (a :: l) := by
    rw [hpre, psum_append, psum_of_le_start c heps _ _ (pre ++ [a]), zero_add]
    intro x hx
    have : x.1 ≤ a.1 := by
      rcases List.mem_append.mp hx with hx | hx
      · rw [hpre] at hs; exact hs.pre_le x hx a (by simp)
      · simp at hx; rw [hx]
    exact_mod_cast le_trans this hle
  have hlast : lastTime obs = lastTime (a :: l) := by rw [hpre, lastTime_append]
  have hpairs : ∀ p, p ∈ pairs obs ↔ p ∈ pairs (pre ++ [a]) ∨ p ∈ pairs (a :: l) := by
    intro p; rw [hpre, pairs_append, List.mem_append]
  have hold : ∀ p ∈ pairs (pre ++ [a]), p.2.1 ≤ S := by
    intro p hp
    have hm := (mem_pairs hp).2
    have : p.2.1 ≤ a.1 := by
      rcases List.mem_append.mp hm with hx | hx
      · rw [hpre] at hs; exact hs.pre_le _ hx a (by simp)
      · simp at hx; rw [hx]
    exact le_trans this hle
  have hper : ∃ o, period c hstart i (a, l) = .ok (o, suf') ∧
      o = if (pmiss c (E : α) (a :: l) || decide (((lastTime (a :: l) : Int) : α) < (E : α))) = true then none
          else some (psum c (S : α) (E : α) (a :: l) / (c.P : α)) := by
    refine ⟨_, ?_, rfl⟩
    simp only [period, pStart_eq, pEnd_eq, hS]
    rw [if_pos hae, hw]
    simp only [zero_add, Bool.false_or]
  obtain ⟨o, hper, ho⟩ := hper
  refine ⟨o, suf', hper, ?_, ?_⟩
  · rw [ho]
    cases hm : (pmiss c (E : α) (a :: l) || decide (((lastTime (a :: l) : Int) : α) < (E : α))) with
    | true =>
      simp only [if_true, PeriodOK]
      rcases Bool.or_eq_true _ _ |>.mp hm with hm | hm
      · obtain ⟨p, hp, hpe, hinvd⟩ := (pmiss_iff c _ _).mp hm
        have hpe' : p.1.1 < E := by exact_mod_cast hpe
        rcases hnxt with ⟨b, hb⟩ | hnx
        · subst hb
          simp at hp
          subst hp
          by_cases hbS : S ≤ b.1
          · exact Or.inr ⟨(a, b), (hpairs _).mpr (Or.inr (by simp)), hpe', hbS, hinvd⟩
          · left; rw [hlast]; simp; omega
        · right
          refine ⟨p, (hpairs _).mpr (Or.inr hp), hpe', ?_, hinvd⟩
          cases l with
          | nil => exact absurd rfl hne
          | cons b r =>
            have hb : S ≤ b.1 := hnx b (by simp)
            have := mem_pairs_snd hp
            rcases List.mem_cons.mp this with h | h
            · rw [h]; exact hb
            · exact le_trans hb (hsuf.tail.head_le _ h)
      · left; rw [hlast]; exact_mod_cast of_decide_eq_true hm
    | false =>
      simp only [Bool.false_eq_true, if_false, PeriodOK]
      have hm1 : pmiss c (E : α) (a :: l) = false := by
        cases h : pmiss c (E : α) (a :: l) <;> simp [h] at hm ⊢
      have hm2 : ¬ ((lastTime (a :: l) : Int) : α) < (E : α) := by
        intro h; simp [h] at hm
      refine ⟨?_, ?_, ?_⟩
      · rw [div_mul_cancel₀ _ hPne, hpresum]
      · rw [hlast]; exact_mod_cast not_lt.mp hm2
      · intro p hp hpE hSp
        rcases (hpairs p).mp hp with hp | hp
        · exact absurd (hold p hp) (by omega)
        · by_contra hcon
          have : pmiss c (E : α) (a :: l) = true :=
            (pmiss_iff c _ _).mpr ⟨p, hp, by exact_mod_cast hpE, by simpa using hcon⟩
          rw [hm1] at this; exact absurd this (by simp)
  · refine ⟨⟨pre ++ pre', by rw [hpre, hpre']; simp⟩, h2, ?_, ?_⟩
    · have : suf'.1.1 < E := by exact_mod_cast h3
      omega
    · rcases h4 with h4 | h4
      · exact Or.inl h4
      · exact Or.inr (fun b hb => by exact_mod_cast h4 b hb)

/-- start and end second of period `i` -/
def perS (P hstart : Int) (i : Nat) : Int := hstart + (i : Int) * P
def perE (P hstart : Int) (i : Nat) : Int := hstart + (i : Int) * P + P

theorem perS_succ (P hstart : Int) (i : Nat) : perS P hstart (i + 1) = perE P hstart i := by
  simp only [perS, perE]; push_cast; ring

/-- the `for` loop: `n` periods from number `i` on -/
theorem loop_spec (c : Cfg α) (heps : 0 ≤ c.eps) (hP : 0 < c.P) (obs : List (Obs α)) (hs : Sorted obs)
    (hstart : Int) :
    ∀ (n i : Nat) (suf : Obs α × List (Obs α)), Inv obs (perS c.P hstart i) suf →
      ∃ out, loop c hstart n i suf = .ok out ∧ out.length = n ∧
        ∀ k o, out[k]? = some o → PeriodOK c obs (perS c.P hstart (i + k)) (perE c.P hstart (i + k)) o := by
  intro n
  induction n with
  | zero => intro i suf _; exact ⟨[], rfl, rfl, by simp⟩
  | succ n ih =>
    intro i suf hinv
    obtain ⟨o, suf', hper, hok, hinv'⟩ := period_spec c heps hP obs hs hstart i suf hinv
    have hinv'' : Inv obs (perS c.P hstart (i + 1)) suf' := by rw [perS_succ]; exact hinv'
    obtain ⟨out, hl, hlen, hall⟩ := ih (i + 1) suf' hinv''
    refine ⟨o :: out, ?_, by simp [hlen], ?_⟩
    · simp only [loop, hper, hl]
    · intro k o' hk
      cases k with
      | zero => simp at hk; subst hk; exact hok
      | succ k =>
        simp at hk
        have := hall k o' hk
        rwa [show i + 1 + k = i + (k + 1) by omega] at this

/-- the start scan establishes the invariant for period 0 -/
theorem scanFrom_inv (obs : List (Obs α)) (hstart : Int) :
    ∀ (l : List (Obs α)) (a : Obs α) (pre : List (Obs α)), obs = pre ++ a :: l → l ≠ [] → a.1 ≤ hstart →
      Inv obs hstart (scanFrom hstart a l) := by
  intro l
  induction l with
  | nil => intro a pre _ hne; exact absurd rfl hne
  | cons b rest ih =>
    intro a pre hpre _ ha
    cases rest with
    | nil => exact ⟨⟨pre, hpre⟩, by simp [scanFrom], ha, Or.inl ⟨b, rfl⟩⟩
    | cons r rest' =>
      by_cases hb : b.1 ≤ hstart
      · have : scanFrom hstart a (b :: r :: rest') = scanFrom hstart b (r :: rest') := by
          rw [scanFrom]; simp [hb]
        rw [this]
        exact ih b (pre ++ [a]) (by rw [hpre]; simp) (by simp) hb
      · have : scanFrom hstart a (b :: r :: rest') = (a, b :: r :: rest') := by
          rw [scanFrom]; simp [hb]
        rw [this]
        exact ⟨⟨pre, hpre⟩, by simp, ha, Or.inr (by simp; omega)⟩

/-! ### closed form of one contribution -/

/-- the affine interpolant through `(t1, v1)` and `(t2, v2)` -/
def lin (t1 t2 v1 v2 x : α) : α := (v2 - v1) / (t2 - t1) * (x - t1) + v1

/-- overlap of the interval `[t_a, t_b]` with the period `[S, E]`, in whole seconds -/
def ovLo (S : Int) (a : Obs α) : Int := max a.1 S
def ovHi (E : Int) (b : Obs α) : Int := min b.1 E

/-- area under the interpolant between `lo` and `hi` (trapezoid) -/
def trapArea (a b : Obs α) (v1 v2 : α) (lo hi : Int) : α :=
  (lin (a.1 : α) (b.1 : α) v1 v2 (hi : α) + lin (a.1 : α) (b.1 : α) v1 v2 (lo : α)) * ((hi : α) - (lo : α)) / 2

/-- share of the increment `v2` that falls between `lo` and `hi` when spread uniformly over `[t_a, t_b]` -/
def rainShare (a b : Obs α) (v2 : α) (lo hi : Int) : α :=
  v2 * ((hi : α) - (lo : α)) / ((b.1 : α) - (a.1 : α))

/-- exact contribution of one interval to the period `[S, E)`: nothing unless the overlap has positive
length; then the trapezoid area (or the prorated increment times `P`, which the final division removes) -/
def contrib (c : Cfg α) (S E : Int) (a b : Obs α) : α :=
  if ovLo S a < ovHi E b then
    match a.2, b.2 with
    | some v1, some v2 =>
      if c.rain = 1 then rainShare a b v2 (ovLo S a) (ovHi E b) * (c.P : α)
      else trapArea a b v1 v2 (ovLo S a) (ovHi E b)
    | _, _ => 0
  else 0

theorem clipLo_cast (S : Int) (a : Obs α) : clipLo ((S : Int) : α) a = ((ovLo S a : Int) : α) := by
  unfold clipLo ovLo
  rw [Int.cast_max]
  split_ifs with h
  · exact (max_eq_right h.le).symm
  · exact (max_eq_left (not_lt.mp h)).symm

theorem clipHi_cast (E : Int) (b : Obs α) : clipHi ((E : Int) : α) b = ((ovHi E b : Int) : α) := by
  unfold clipHi ovHi
  rw [Int.cast_min]
  split_ifs with h
  · exact (min_eq_right h.le).symm
  · exact (min_eq_left (not_lt.mp h)).symm

/-- with whole-second stamps the `1e-8` tolerance is an exact "positive length" test -/
theorem eps_lt_cast_sub (eps : α) (h0 : 0 < eps) (h1 : eps < 1) (lo hi : Int) :
    eps < ((hi : Int) : α) - ((lo : Int) : α) ↔ lo < hi := by
  rw [← Int.cast_sub]
  constructor
  · intro h
    by_contra hc
    have : ((hi - lo : Int) : α) ≤ 0 := by exact_mod_cast (by omega : hi - lo ≤ 0)
    linarith
  · intro h
    have : (1 : α) ≤ ((hi - lo : Int) : α) := by exact_mod_cast (by omega : 1 ≤ hi - lo)
    linarith

/-- the value the kernel adds is the exact contribution -/
theorem pieceVal_eq_contrib (c : Cfg α) (h0 : 0 < c.eps) (h1 : c.eps < 1) (S E : Int) (a b : Obs α) :
    pieceVal c (S : α) (E : α) a b = contrib c S E a b := by
  obtain ⟨ta, va⟩ := a
  obtain ⟨tb, vb⟩ := b
  unfold pieceVal piece contrib
  simp only [clipLo_cast, clipHi_cast, eps_lt_cast_sub c.eps h0 h1]
  by_cases h : ovLo S (ta, va) < ovHi E (tb, vb)
  · simp only [h, if_true]
    cases va <;> cases vb <;> simp [trapArea, rainShare, lin]
    split_ifs <;> simp
  · simp [h]

theorem psum_eq_contrib (c : Cfg α) (h0 : 0 < c.eps) (h1 : c.eps < 1) (S E : Int) (l : List (Obs α)) :
    psum c (S : α) (E : α) l = ((pairs l).map fun p => contrib c S E p.1 p.2).sum := by
  unfold psum
  congr 1
  apply List.map_congr_left
  intro p _
  exact pieceVal_eq_contrib c h0 h1 S E p.1 p.2

/-! ### additivity in the period (conservation) -/

theorem trapArea_add (a b : Obs α) (v1 v2 : α) (lo mid hi : Int) :
    trapArea a b v1 v2 lo mid + trapArea a b v1 v2 mid hi = trapArea a b v1 v2 lo hi := by
  unfold trapArea lin
  generalize (v2 - v1) / ((b.1 : α) - (a.1 : α)) = sl
  ring

theorem rainShare_add (a b : Obs α) (v2 : α) (lo mid hi : Int) :
    rainShare a b v2 lo mid + rainShare a b v2 mid hi = rainShare a b v2 lo hi := by
  unfold rainShare
  rw [← add_div]; congr 1; ring

theorem trapArea_self (a b : Obs α) (v1 v2 : α) (x : Int) : trapArea a b v1 v2 x x = 0 := by
  simp [trapArea]

theorem rainShare_self (a b : Obs α) (v2 : α) (x : Int) : rainShare a b v2 x x = 0 := by
  simp [rainShare]

/-- splitting a period at `M` splits every contribution -/
theorem contrib_add (c : Cfg α) (S M E : Int) (hSM : S ≤ M) (hME : M ≤ E) (a b : Obs α) (hab : a.1 ≤ b.1) :
    contrib c S M a b + contrib c M E a b = contrib c S E a b := by
  obtain ⟨ta, va⟩ := a
  obtain ⟨tb, vb⟩ := b
  simp only at hab
  unfold contrib ovLo ovHi
  simp only
  cases va with
  | none => simp
  | some v1 =>
    cases vb with
    | none => simp
    | some v2 =>
      simp only
      by_cases hr : c.rain = 1
      · simp only [hr, if_true]
        by_cases h1 : max ta S < min tb M <;> by_cases h2 : max ta M < min tb E <;>
          by_cases h3 : max ta S < min tb E <;> simp only [h1, h2, h3, if_true, if_false, add_zero, zero_add]
        · have e1 : min tb M = M := by omega
          have e2 : max ta M = M := by omega
          rw [e1, e2, ← add_mul, rainShare_add]
        · omega
        · have e1 : min tb M = min tb E := by omega
          rw [e1]
        · omega
        · have e1 : max ta M = max ta S := by omega
          rw [e1]
        · omega
        · omega
      · simp only [hr, if_false]
        by_cases h1 : max ta S < min tb M <;> by_cases h2 : max ta M < min tb E <;>
          by_cases h3 : max ta S < min tb E <;> simp only [h1, h2, h3, if_true, if_false, add_zero, zero_add]
        · have e1 : min tb M = M := by omega
          have e2 : max ta M = M := by omega
          rw [e1, e2, trapArea_add]
        · omega
        · have e1 : min tb M = min tb E := by omega
          rw [e1]
        · omega
        · have e1 : max ta M = max ta S := by omega
          rw [e1]
        · omega
        · omega

theorem contribSum_add (c : Cfg α) (S M E : Int) (hSM : S ≤ M) (hME : M ≤ E) :
    ∀ (l : List (Obs α)), Sorted l →
      ((pairs l).map fun p => contrib c S M p.1 p.2).sum + ((pairs l).map fun p => contrib c M E p.1 p.2).sum
        = ((pairs l).map fun p => contrib c S E p.1 p.2).sum
  | [], _ => by simp
  | [a], _ => by simp
  | a :: b :: r, hs => by
    have ih := contribSum_add c S M E hSM hME (b :: r) hs.tail
    have hab := hs.head_le b (by simp)
    simp only [pairs_cons_cons, List.map_cons, List.sum_cons]
    rw [← ih, ← contrib_add c S M E hSM hME a b hab]
    ring

/-! ### the kernel as a whole -/

/-- admissible scalar arguments: what the kernel's guards accept, and `eps` a tolerance below one second -/
structure CfgOK (c : Cfg α) : Prop where
  period : c.P = 1800 ∨ c.P = 3600
  rain : c.rain = 0 ∨ c.rain = 1
  eps_pos : 0 < c.eps
  eps_lt : c.eps < 1

theorem CfgOK.P_pos {c : Cfg α} (h : CfgOK c) : 0 < c.P := by rcases h.period with h | h <;> omega

theorem startScan_inv (hstart : Int) (a b : Obs α) (rest : List (Obs α)) (ha : a.1 ≤ hstart) :
    ∃ suf, startScan hstart (a :: b :: rest) = some suf ∧ Inv (a :: b :: rest) hstart suf := by
  refine ⟨scanFrom hstart a (b :: rest), by simp [startScan, ha], ?_⟩
  exact scanFrom_inv (a :: b :: rest) hstart (b :: rest) a [] rfl (by simp) ha

/-- On a non-decreasing series of at least two observations whose first stamp is not later than the
origin, the kernel returns `nvalh - 1` values and each of them is what the property requires. -/
theorem kernel_spec (c : Cfg α) (hc : CfgOK c) (hstart nvalh : Int) (a b : Obs α) (rest : List (Obs α))
    (hs : Sorted (a :: b :: rest)) (ha : a.1 ≤ hstart) :
    ∃ out, kernel c hstart nvalh (a :: b :: rest) = .ok out ∧ out.length = (nvalh - 1).toNat ∧
      ∀ i o, out[i]? = some o →
        PeriodOK c (a :: b :: rest) (perS c.P hstart i) (perE c.P hstart i) o := by
  obtain ⟨suf, hscan, hinv⟩ := startScan_inv hstart a b rest ha
  have hinv0 : Inv (a :: b :: rest) (perS c.P hstart 0) suf := by simpa [perS] using hinv
  obtain ⟨out, hl, hlen, hall⟩ :=
    loop_spec c hc.eps_pos.le hc.P_pos (a :: b :: rest) hs hstart (nvalh - 1).toNat 0 suf hinv0
  refine ⟨out, ?_, hlen, fun i o h => by simpa using hall i o h⟩
  have h1 : ¬ (c.rain < 0 ∨ 1 < c.rain) := by rcases hc.rain with h | h <;> omega
  have h2 : ¬ (c.P ≠ 1800 ∧ c.P ≠ 3600) := by rcases hc.period with h | h <;> omega
  simp only [kernel, h1, h2, if_false, hscan, hl]

end field

end HydroVerif.C14
