/-
C10 — helper lemmas of the deepening round: the jitter of `pit(random=True)` against the true count, PIT series of
`alpha`, the NaN filter in front of `pit` / `alpha`.
-/
import HydroVerif.Lemmas.C10Table

set_option linter.unusedSectionVars false
set_option linter.unusedVariables false

namespace HydroVerif.C10

section field
variable {α : Type} [Field α] [LinearOrder α] [IsStrictOrderedRing α]

/-- one member: certainly counted when more than `2e` below the observation, and only counted when at most `2e` above -/
theorem jit_member (e obs dobs a d : α) (hd : |dobs| ≤ e) (hda : |d| ≤ e) :
    (a < obs - 2 * e → a + d - (obs + dobs) < 0) ∧ (a + d - (obs + dobs) < 0 → a ≤ obs + 2 * e) := by
  have h1 := abs_le.mp hd
  have h2 := abs_le.mp hda
  constructor <;> intro h <;> linarith [h1.1, h1.2, h2.1, h2.2]

theorem belowJit_bounds (e obs dobs : α) (hd : |dobs| ≤ e) : ∀ (ens dens : List α),
    dens.length = ens.length → (∀ d ∈ dens, |d| ≤ e) →
    (ens.filter fun a => decide (a < obs - 2 * e)).length ≤ belowJit obs dobs ens dens ∧
      belowJit obs dobs ens dens ≤ (ens.filter fun a => decide (a ≤ obs + 2 * e)).length := by
  intro ens
  induction ens with
  | nil => intro dens _ _; simp [belowJit]
  | cons a ens ih =>
    intro dens hlen hdens
    cases dens with
    | nil => simp at hlen
    | cons d dens =>
      have hm := jit_member e obs dobs a d hd (hdens d (by simp))
      have := ih dens (by simpa using hlen) (fun x hx => hdens x (by simp [hx]))
      simp only [belowJit, List.filter_cons]
      by_cases hc : a + d - (obs + dobs) < 0
      · have h2 : a ≤ obs + 2 * e := hm.2 hc
        simp only [hc, if_true, h2, decide_true]
        by_cases h1 : a < obs - 2 * e
        · simp only [h1, decide_true, if_true, List.length_cons]; omega
        · simp only [h1, decide_false, List.length_cons]; simp; omega
      · have h1 : ¬ a < obs - 2 * e := fun h => hc (hm.1 h)
        simp only [hc, if_false, h1, decide_false]
        by_cases h2 : a ≤ obs + 2 * e
        · simp only [h2, decide_true, if_true, List.length_cons]; simp; omega
        · simp only [h2, decide_false]; simp; omega

/-- PIT values of a series drawn with a plotting constant below ½ lie strictly inside (0, 1) -/
theorem pitRandom_open (cst obs dobs : α) (ens dens : List α) (hc : cst < 1 / 2) :
    0 < pitRandom cst obs dobs ens dens ∧ pitRandom cst obs dobs ens dens < 1 := by
  unfold pitRandom pitFormula clampCst
  rw [if_pos hc]
  have hcnt : ((belowJit obs dobs ens dens : ℕ) : α) ≤ (ens.length : α) := by
    exact_mod_cast belowJit_le obs dobs ens dens
  have h0 : (0 : α) ≤ ((belowJit obs dobs ens dens : ℕ) : α) := Nat.cast_nonneg _
  have hden : 0 < 1 - cst + (ens.length : α) := by
    have : (0 : α) ≤ (ens.length : α) := Nat.cast_nonneg _
    linarith
  constructor
  · apply div_pos <;> linarith
  · rw [div_lt_one hden]; linarith

theorem pitRandomAll_open (cst : α) (hc : cst < 1 / 2) : ∀ (obs dobs : List α) (ens dens : List (List α)),
    ∀ p ∈ pitRandomAll cst obs dobs ens dens, 0 < p ∧ p < 1 := by
  intro obs
  induction obs with
  | nil => intro dobs ens dens p hp; simp [pitRandomAll] at hp
  | cons o os ih =>
    intro dobs ens dens p hp
    cases dobs with
    | nil => simp [pitRandomAll] at hp
    | cons d ds =>
      cases ens with
      | nil => simp [pitRandomAll] at hp
      | cons e es =>
        cases dens with
        | nil => simp [pitRandomAll] at hp
        | cons de des =>
          simp only [pitRandomAll, List.mem_cons] at hp
          rcases hp with h | h
          · rw [h]; exact pitRandom_open cst o d e de hc
          · exact ih ds es des p h

end field

/-! ### `np.argsort(np.argsort(obs))` is external: any ordinal ranking of distinct observations is the stable one -/

section ranking
variable {α : Type} [Field α] [LinearOrder α] [IsStrictOrderedRing α]

/-- what `np.argsort(np.argsort(obs))` returns whatever the sorting algorithm behind it: the ranks 0..n-1,
each used once, increasing with the observations -/
def ValidRanking (obs : List α) (r : List ℕ) : Prop :=
  r.length = obs.length ∧ r.Perm (List.range obs.length) ∧
    ∀ p ∈ obs.zip r, ∀ q ∈ obs.zip r, p.1 < q.1 → p.2 < q.2

theorem countP_lt_range (n k : ℕ) (hk : k ≤ n) : (List.range n).countP (fun x => decide (x < k)) = k := by
  induction n with
  | zero => simp at hk; subst hk; rfl
  | succ n ih =>
    rw [List.range_succ, List.countP_append]
    by_cases h : k ≤ n
    · rw [ih h]; simp; omega
    · have hk' : k = n + 1 := by omega
      subst hk'
      have : (List.range n).countP (fun x => decide (x < n + 1)) = n := by
        rw [List.countP_eq_length.mpr]
        · simp
        · intro a ha; simp at ha ⊢; omega
      rw [this]; simp

theorem stableRanks_nodup_nat (obs : List α) (hnd : obs.Nodup) :
    stableRanks obs = obs.map fun a => (obs.filter fun b => decide (b < a)).length := by
  unfold stableRanks
  have : ∀ xi ∈ obs.zipIdx, (fun xi : α × ℕ =>
      (obs.zipIdx.filter fun yk => decide (yk.1 < xi.1) ||
        (!decide (yk.1 < xi.1) && !decide (xi.1 < yk.1) && decide (yk.2 < xi.2))).length) xi
      = (fun a => (obs.filter fun b => decide (b < a)).length) xi.1 := by
    intro xi hxi
    simp only
    have hf : (obs.zipIdx.filter fun yk => decide (yk.1 < xi.1) ||
        (!decide (yk.1 < xi.1) && !decide (xi.1 < yk.1) && decide (yk.2 < xi.2)))
        = obs.zipIdx.filter fun yk => decide (yk.1 < xi.1) := by
      apply List.filter_congr
      intro yk hyk
      by_cases h1 : yk.1 < xi.1
      · simp [h1]
      · by_cases h2 : xi.1 < yk.1
        · simp [h1, h2]
        · have he : yk.1 = xi.1 := le_antisymm (not_lt.mp h2) (not_lt.mp h1)
          have hidx : yk.2 = xi.2 := by
            rw [List.mem_zipIdx_iff_getElem?] at hyk hxi
            obtain ⟨hy1, hy2⟩ := List.getElem?_eq_some_iff.mp hyk
            obtain ⟨hx1, hx2⟩ := List.getElem?_eq_some_iff.mp hxi
            exact (hnd.getElem_inj_iff).mp (by rw [hy2, hx2, he])
          simp [h1, h2, hidx]
    rw [hf, ← List.countP_eq_length_filter, ← List.countP_eq_length_filter]
    conv_rhs => rw [← List.zipIdx_map_fst 0 obs, List.countP_map]
    rfl
  rw [List.map_congr_left this]
  exact map_fst_zipIdx (fun a => (obs.filter fun b => decide (b < a)).length) obs 0

/-- for pairwise distinct observations every ordinal ranking is the stable one: the unspecified tie-breaking of
numpy's argsort cannot matter -/
theorem validRanking_unique (obs : List α) (hnd : obs.Nodup) (r : List ℕ) (h : ValidRanking obs r) :
    r = stableRanks obs := by
  obtain ⟨hlen, hperm, hmono⟩ := h
  set Z := obs.zip r with hZ
  have hfst : Z.map Prod.fst = obs := by rw [hZ]; exact List.map_fst_zip (le_of_eq hlen.symm)
  have hsnd : Z.map Prod.snd = r := by rw [hZ]; exact List.map_snd_zip (le_of_eq hlen)
  have hinj : ∀ p ∈ Z, ∀ q ∈ Z, p.1 = q.1 → p = q := fun p hp q hq he =>
    List.inj_on_of_nodup_map (by rw [hfst]; exact hnd) hp hq he
  have hiff : ∀ p ∈ Z, ∀ q ∈ Z, (q.2 < p.2 ↔ q.1 < p.1) := by
    intro p hp q hq
    constructor
    · intro hlt
      rcases lt_trichotomy q.1 p.1 with h1 | h1 | h1
      · exact h1
      · have := hinj q hq p hp h1; rw [this] at hlt; exact absurd hlt (lt_irrefl _)
      · have := hmono p hp q hq h1; omega
    · exact hmono q hq p hp
  have hval : ∀ p ∈ Z, p.2 = (obs.filter fun b => decide (b < p.1)).length := by
    intro p hp
    have hpr : p.2 ∈ r := by rw [← hsnd]; exact List.mem_map_of_mem hp
    have hpn : p.2 < obs.length := by
      have := hperm.mem_iff.mp hpr; simpa using this
    have h1 : r.countP (fun x => decide (x < p.2)) = p.2 := by
      rw [hperm.countP_eq, countP_lt_range _ _ hpn.le]
    rw [← h1, ← hsnd, List.countP_map, ← List.countP_eq_length_filter]
    conv_rhs => rw [← hfst, List.countP_map]
    apply List.countP_congr
    intro q hq
    simp only [Function.comp_def, decide_eq_true_eq]
    exact hiff p hp q hq
  have key : ∀ g : α → ℕ, obs.map g = Z.map fun p => g p.1 := by
    intro g
    conv_lhs => rw [← hfst, List.map_map]
    rfl
  rw [stableRanks_nodup_nat obs hnd, key, ← hsnd]
  apply List.map_congr_left
  intro p hp
  exact hval p hp

end ranking

/-! ### `__check_ensemble_data` -/

section glue
variable {β : Type}

theorem keepRows_spec (obs : List (Option β)) (ens : List (List (Option β))) :
    keepRows obs ens = (obs.zip ens).filterMap fun p =>
      match p.1 with
      | some o => if p.2.any Option.isSome then some (o, p.2) else none
      | none => none := by
  induction obs generalizing ens with
  | nil => cases ens <;> simp [keepRows]
  | cons o os ih =>
    cases ens with
    | nil => cases o <;> simp [keepRows]
    | cons e es =>
      cases o with
      | none => simp [keepRows, ih]
      | some v =>
        by_cases h : e.any Option.isSome = true
        · rw [keepRows, if_pos h, ih, List.zip_cons_cons, List.filterMap_cons]
          simp only [h, if_true]
        · rw [keepRows, if_neg h, ih, List.zip_cons_cons, List.filterMap_cons]
          simp only [h, if_false, Bool.false_eq_true]

/-- on complete data (no NaN, at least one member per forecast) nothing is dropped -/
theorem keepRows_complete (os : List β) (rows : List (List β)) (hlen : rows.length = os.length)
    (hne : ∀ r ∈ rows, r ≠ []) :
    keepRows (os.map some) (rows.map fun r => r.map some) = os.zip (rows.map fun r => r.map some) := by
  induction os generalizing rows with
  | nil => cases rows <;> simp [keepRows]
  | cons o os ih =>
    cases rows with
    | nil => simp at hlen
    | cons r rows =>
      have hr : r ≠ [] := hne r (by simp)
      have hany : (r.map some).any Option.isSome = true := by
        cases r with
        | nil => exact absurd rfl hr
        | cons x xs => simp
      simp only [List.map_cons, keepRows, hany, if_true, List.zip_cons_cons]
      rw [ih rows (by simpa using hlen) (fun r' hr' => hne r' (by simp [hr']))]

end glue

end HydroVerif.C10
