/-
C12 — helper lemmas (not property statements): IEEE-style comparison / clipping on `XR`, element-wise list
helpers, allocation frames of the array store.
-/
import HydroVerif.Model.C12
import Mathlib.Order.Defs.LinearOrder
import Mathlib.Order.Basic
import Mathlib.Algebra.Order.Group.Defs
import Mathlib.Algebra.Order.Monoid.Defs
import Mathlib.Tactic.Order
import Mathlib.Data.List.Basic

set_option linter.unusedSimpArgs false
set_option linter.unusedVariables false
namespace HydroVerif.C12
open XR

section xr
variable {α : Type} [LinearOrder α]

@[simp] theorem XR.lt_self (x : XR α) : XR.lt x x = false := by
  cases x <;> simp [XR.lt]

theorem XR.clipNp_nan (lo hi : XR α) : XR.clipNp .nan lo hi = .nan := by
  simp [XR.clipNp, XR.maxNp, XR.minNp, XR.isNaN]

theorem XR.clipPy_nan (lo hi : XR α) : XR.clipPy .nan lo hi = .nan := by
  cases lo <;> cases hi <;> simp [XR.clipPy, XR.lt]

theorem XR.clipNp_inf (x : XR α) : XR.clipNp x .ninf .pinf = x := by
  cases x <;> simp [XR.clipNp, XR.maxNp, XR.minNp, XR.isNaN, XR.lt]

theorem XR.ne_of_lt {x y : XR α} (h : XR.lt x y = true) : x ≠ y := by
  intro e; subst e; simp at h

theorem XR.maxNp_cases (a b : XR α) (ha : a.isNaN = false) (hb : b.isNaN = false) :
    (XR.maxNp a b = a ∧ XR.lt a b = false) ∨ (XR.maxNp a b = b ∧ XR.lt a b = true) := by
  unfold XR.maxNp; simp only [ha, hb]; cases h : XR.lt a b <;> simp

theorem XR.minNp_cases (a b : XR α) (ha : a.isNaN = false) (hb : b.isNaN = false) :
    (XR.minNp a b = a ∧ XR.lt b a = false) ∨ (XR.minNp a b = b ∧ XR.lt b a = true) := by
  unfold XR.minNp; simp only [ha, hb]; cases h : XR.lt b a <;> simp

/-- the two clipping conventions agree as soon as the bounds are not NaN -/
theorem XR.clipPy_eq_clipNp (x lo hi : XR α) (hlo : lo.isNaN = false) (hhi : hi.isNaN = false) :
    XR.clipPy x lo hi = XR.clipNp x lo hi := by
  cases hx : x.isNaN
  · unfold XR.clipPy XR.clipNp
    rcases XR.maxNp_cases x lo hx hlo with ⟨e, h⟩ | ⟨e, h⟩
    · rw [e]; simp only [h]
      rcases XR.minNp_cases x hi hx hhi with ⟨e2, h2⟩ | ⟨e2, h2⟩ <;> simp [e2, h2]
    · rw [e]; simp only [h]
      rcases XR.minNp_cases lo hi hlo hhi with ⟨e2, h2⟩ | ⟨e2, h2⟩ <;> simp [e2, h2]
  · have : x = .nan := by cases x <;> simp_all [XR.isNaN]
    subst this; rw [XR.clipPy_nan, XR.clipNp_nan]

theorem XR.clipNp_within (x lo hi : XR α) (hx : x.isNaN = false) (hlo : lo.isNaN = false)
    (hhi : hi.isNaN = false) (hb : XR.lt hi lo = false) :
    XR.within (XR.clipNp x lo hi) lo hi = true := by
  unfold XR.clipNp
  rcases XR.maxNp_cases x lo hx hlo with ⟨e, h⟩ | ⟨e, h⟩ <;> rw [e]
  · rcases XR.minNp_cases x hi hx hhi with ⟨e2, h2⟩ | ⟨e2, h2⟩ <;> rw [e2] <;> simp [XR.within, *]
  · rcases XR.minNp_cases lo hi hlo hhi with ⟨e2, h2⟩ | ⟨e2, h2⟩ <;> rw [e2] <;> simp_all [XR.within]

/-- a value already inside the interval is returned unchanged -/
theorem XR.clipNp_of_within (x lo hi : XR α) (hlo : lo.isNaN = false) (hhi : hi.isNaN = false)
    (h : XR.within x lo hi = true) : XR.clipNp x lo hi = x := by
  simp only [XR.within, Bool.and_eq_true, Bool.not_eq_true'] at h
  obtain ⟨⟨hx, h1⟩, h2⟩ := h
  simp [XR.clipNp, XR.maxNp, XR.minNp, hx, h1, h2, hlo, hhi]

/-- clipped exactly when strictly outside -/
theorem XR.clipNp_ne_iff (x lo hi : XR α) (hx : x.isNaN = false) (hlo : lo.isNaN = false)
    (hhi : hi.isNaN = false) (hb : XR.lt hi lo = false) :
    XR.clipNp x lo hi ≠ x ↔ XR.outside x lo hi = true := by
  unfold XR.clipNp XR.outside
  rcases XR.maxNp_cases x lo hx hlo with ⟨e, h⟩ | ⟨e, h⟩ <;> rw [e]
  · rcases XR.minNp_cases x hi hx hhi with ⟨e2, h2⟩ | ⟨e2, h2⟩ <;> rw [e2] <;> simp [h, h2]
    exact XR.ne_of_lt h2
  · rcases XR.minNp_cases lo hi hlo hhi with ⟨e2, h2⟩ | ⟨e2, h2⟩ <;> rw [e2] <;> simp_all
    exact (XR.ne_of_lt h).symm

end xr

/-! ### the only facts about `x - EPS` / `x + EPS` the theorems use

`EpsOk eps`: subtracting the margin never moves a bound up, adding it never moves a bound down. It holds in every
ordered additive group for `0 ≤ eps` (`EpsOk.of_nonneg`) AND in every arithmetic whose `+` / `-` are the exact
operations followed by a monotone rounding onto the representable values (`Rounding`, `EpsOk.of_rounding`) — that is
what IEEE-754 double arithmetic is, so no theorem of C12 depends on `mins - EPS` / `maxs + EPS` being exact. -/
structure EpsOk {α : Type} [LE α] [Add α] [Sub α] (eps : α) : Prop where
  sub_le : ∀ a : α, a - eps ≤ a
  le_add : ∀ a : α, a ≤ a + eps

theorem EpsOk.of_nonneg {α : Type} [LinearOrder α] [AddCommGroup α] [IsOrderedAddMonoid α] {eps : α}
    (h : 0 ≤ eps) : EpsOk eps :=
  ⟨fun a => sub_le_self a h, fun a => le_add_of_nonneg_right h⟩

/-- a rounding operator on an ordered group: monotone, the identity on its own results (the representable values),
and `0` is representable -/
structure Rounding (β : Type) [LinearOrder β] [AddCommGroup β] where
  rnd : β → β
  mono : ∀ x y, x ≤ y → rnd x ≤ rnd y
  idem : ∀ x, rnd (rnd x) = rnd x
  zero : rnd 0 = 0

/-- the representable values of a rounding, with the ROUNDED `+` and `-` (the order is the one of `β`) -/
def Rounding.Fl {β : Type} [LinearOrder β] [AddCommGroup β] (R : Rounding β) : Type := { x : β // R.rnd x = x }

namespace Rounding
variable {β : Type} [LinearOrder β] [AddCommGroup β] (R : Rounding β)
instance : LinearOrder R.Fl := inferInstanceAs (LinearOrder { x : β // R.rnd x = x })
instance : Add R.Fl := ⟨fun a b => ⟨R.rnd (a.1 + b.1), R.idem _⟩⟩
instance : Sub R.Fl := ⟨fun a b => ⟨R.rnd (a.1 - b.1), R.idem _⟩⟩
instance : OfNat R.Fl 0 := ⟨⟨0, R.zero⟩⟩
/-- a representable value -/
def toFl (x : β) (h : R.rnd x = x) : R.Fl := ⟨x, h⟩
theorem Fl.le_def (a b : R.Fl) : a ≤ b ↔ a.1 ≤ b.1 := Iff.rfl
theorem Fl.add_val (a b : R.Fl) : (a + b).1 = R.rnd (a.1 + b.1) := rfl
theorem Fl.sub_val (a b : R.Fl) : (a - b).1 = R.rnd (a.1 - b.1) := rfl
end Rounding

/-- ROUNDED ARITHMETIC: with `+` / `-` rounded by any monotone rounding, a non-negative margin still satisfies `EpsOk`
(`rnd (a - eps) ≤ rnd a = a` because `a` is representable) -/
theorem EpsOk.of_rounding {β : Type} [LinearOrder β] [AddCommGroup β] [IsOrderedAddMonoid β] (R : Rounding β)
    (eps : R.Fl) (h : (0 : β) ≤ eps.1) : EpsOk eps := by
  constructor
  · intro a
    rw [Rounding.Fl.le_def, Rounding.Fl.sub_val]
    calc R.rnd (a.1 - eps.1) ≤ R.rnd a.1 := R.mono _ _ (sub_le_self _ h)
      _ = a.1 := a.2
  · intro a
    rw [Rounding.Fl.le_def, Rounding.Fl.add_val]
    calc a.1 = R.rnd a.1 := a.2.symm
      _ ≤ R.rnd (a.1 + eps.1) := R.mono _ _ (le_add_of_nonneg_right h)

section eps
variable {α : Type} [LinearOrder α] [Add α] [Sub α]

/-- the executable check the driver reports is implied by `EpsOk` -/
theorem XR.epsOkAt_of_epsOk {eps : α} (heps : EpsOk eps) (x : XR α) : XR.epsOkAt eps x = true := by
  cases x <;> simp [XR.epsOkAt, heps.sub_le, heps.le_add]

theorem XR.lt_of_lt_subEps {eps : α} (heps : EpsOk eps) (x lo : XR α)
    (h : XR.lt x (lo.subEps eps) = true) : XR.lt x lo = true := by
  cases x <;> cases lo <;> simp_all [XR.lt, XR.subEps]
  exact lt_of_lt_of_le h (heps.sub_le _)

theorem XR.lt_of_addEps_lt {eps : α} (heps : EpsOk eps) (x hi : XR α)
    (h : XR.lt (hi.addEps eps) x = true) : XR.lt hi x = true := by
  cases x <;> cases hi <;> simp_all [XR.lt, XR.addEps]
  exact lt_of_le_of_lt (heps.le_add _) h

/-- the margin test never fires where the plain test does not -/
theorem XR.outside_of_outsideEps {eps : α} (heps : EpsOk eps) (x lo hi : XR α)
    (h : XR.outsideEps eps x lo hi = true) : XR.outside x lo hi = true := by
  simp only [XR.outsideEps, XR.outside, Bool.or_eq_true] at *
  rcases h with h | h
  · exact Or.inl (XR.lt_of_lt_subEps heps _ _ h)
  · exact Or.inr (XR.lt_of_addEps_lt heps _ _ h)

theorem XR.outsideEps_false_of_ok {eps : α} (heps : EpsOk eps) (an : Bool) (x lo hi : XR α)
    (h : okElem an x lo hi = true) : XR.outsideEps eps x lo hi = false := by
  by_contra hc
  have ho := XR.outside_of_outsideEps heps x lo hi (by simpa using hc)
  simp only [okElem, XR.within, XR.outside, Bool.or_eq_true, Bool.and_eq_true, Bool.not_eq_true'] at h ho
  rcases h with ⟨hx, _⟩ | ⟨⟨_, h1⟩, h2⟩
  · have : x = .nan := by cases x <;> simp_all [XR.isNaN]
    subst this; cases lo <;> cases hi <;> simp [XR.lt] at ho
  · rcases ho with ho | ho <;> simp_all
end eps

section lists
variable {α : Type} [LinearOrder α]

theorem map3_length {β γ : Type} (f : β → β → β → γ) (n : Nat) :
    ∀ (a b c : List β), a.length = n → b.length = n → c.length = n → (map3 f a b c).length = n := by
  induction n with
  | zero => intro a b c ha hb hc; cases a <;> simp_all [map3]
  | succ n ih =>
    intro a b c ha hb hc
    cases a <;> cases b <;> cases c <;> simp_all [map3]

theorem clipAll_length (n : Nat) (xs lo hi : List (XR α)) (h1 : xs.length = n) (h2 : lo.length = n)
    (h3 : hi.length = n) : (clipAll xs lo hi).length = n := map3_length _ n xs lo hi h1 h2 h3

theorem XR.isNaN_eq_nan {x : XR α} (h : x.isNaN = true) : x = .nan := by
  cases x <;> simp_all [XR.isNaN]

theorem okElem_clipNp (an : Bool) (x l h : XR α) (hb : boundElem l h = true) (hx : x.isNaN = true → an = true) :
    okElem an (XR.clipNp x l h) l h = true := by
  simp only [boundElem, Bool.and_eq_true, Bool.not_eq_true'] at hb
  obtain ⟨⟨hl, hh⟩, hlt⟩ := hb
  cases hn : x.isNaN
  · simp [okElem, XR.clipNp_within x l h hn hl hh hlt]
  · have := XR.isNaN_eq_nan hn; subst this
    simp [okElem, XR.clipNp_nan, XR.isNaN, hx hn]

/-- `np.clip` re-establishes the value invariant (whatever the lengths: `map3` / `all3` truncate alike) -/
theorem valuesOk_clipAll (an : Bool) : ∀ (xs lo hi : List (XR α)), boundsOk lo hi = true →
    (xs.any XR.isNaN = true → an = true) → valuesOk an (clipAll xs lo hi) lo hi = true := by
  intro xs
  induction xs with
  | nil => intro lo hi _ _; simp [clipAll, map3, valuesOk, all3]
  | cons x xs ih =>
    intro lo hi hb hn
    cases lo with
    | nil => simp [clipAll, map3, valuesOk, all3]
    | cons l lo =>
      cases hi with
      | nil => simp [clipAll, map3, valuesOk, all3]
      | cons h hi =>
        simp only [boundsOk, all2, Bool.and_eq_true] at hb
        simp only [clipAll, map3, valuesOk, all3, Bool.and_eq_true]
        refine ⟨okElem_clipNp an x l h hb.1 (fun hx => hn (by simp [hx])), ?_⟩
        exact ih lo hi hb.2 (fun hx => hn (by simp only [List.any_cons, hx, Bool.or_true]))

theorem okElem_clip_self (an : Bool) (x l h : XR α) (hb : boundElem l h = true) (hx : okElem an x l h = true) :
    XR.clipNp x l h = x := by
  simp only [boundElem, Bool.and_eq_true, Bool.not_eq_true'] at hb
  simp only [okElem, Bool.or_eq_true, Bool.and_eq_true] at hx
  rcases hx with ⟨hn, _⟩ | hw
  · have := XR.isNaN_eq_nan hn; subst this; exact XR.clipNp_nan _ _
  · exact XR.clipNp_of_within x l h hb.1.1 hb.1.2 hw

/-- values that already satisfy the invariant are returned unchanged by the clipping -/
theorem clipAll_eq_self (an : Bool) : ∀ (xs lo hi : List (XR α)), boundsOk lo hi = true →
    valuesOk an xs lo hi = true → xs.length = lo.length → xs.length = hi.length → clipAll xs lo hi = xs := by
  intro xs
  induction xs with
  | nil => intro lo hi _ _ _ _; cases lo <;> cases hi <;> simp [clipAll, map3]
  | cons x xs ih =>
    intro lo hi hb hv h1 h2
    cases lo with
    | nil => simp at h1
    | cons l lo =>
      cases hi with
      | nil => simp at h2
      | cons h hi =>
        simp only [boundsOk, all2, Bool.and_eq_true] at hb
        simp only [valuesOk, all3, Bool.and_eq_true] at hv
        simp only [clipAll, map3, List.cons.injEq]
        exact ⟨okElem_clip_self an x l h hb.1 hv.1, ih lo hi hb.2 hv.2 (by simpa using h1) (by simpa using h2)⟩

theorem all3_set {β : Type} (p : β → β → β → Bool) : ∀ (xs lo hi : List β) (i : Nat) (x l h : β),
    all3 p xs lo hi = true → lo[i]? = some l → hi[i]? = some h → p x l h = true →
    all3 p (xs.set i x) lo hi = true := by
  intro xs
  induction xs with
  | nil => intro lo hi i x l h _ _ _ _; simp [all3]
  | cons y ys ih =>
    intro lo hi i x l h ha hl hh hp
    cases lo with
    | nil => simp at hl
    | cons l0 lo =>
      cases hi with
      | nil => simp at hh
      | cons h0 hi =>
        simp only [all3, Bool.and_eq_true] at ha
        cases i with
        | zero =>
          simp only [List.getElem?_cons_zero, Option.some.injEq] at hl hh
          subst hl; subst hh
          simp [all3, hp, ha.2]
        | succ i =>
          simp only [List.getElem?_cons_succ] at hl hh
          simp only [List.set_cons_succ, all3, Bool.and_eq_true]
          exact ⟨ha.1, ih lo hi i x l h ha.2 hl hh hp⟩

theorem all2_get {β : Type} (p : β → β → Bool) : ∀ (lo hi : List β) (i : Nat) (l h : β),
    all2 p lo hi = true → lo[i]? = some l → hi[i]? = some h → p l h = true := by
  intro lo
  induction lo with
  | nil => intro hi i l h _ hl; simp at hl
  | cons l0 lo ih =>
    intro hi i l h ha hl hh
    cases hi with
    | nil => simp at hh
    | cons h0 hi =>
      simp only [all2, Bool.and_eq_true] at ha
      cases i with
      | zero => simp only [List.getElem?_cons_zero, Option.some.injEq] at hl hh; subst hl; subst hh; exact ha.1
      | succ i => simp only [List.getElem?_cons_succ] at hl hh; exact ih hi i l h ha.2 hl hh

theorem all3_get {β : Type} (p : β → β → β → Bool) : ∀ (xs lo hi : List β) (i : Nat) (x l h : β),
    all3 p xs lo hi = true → xs[i]? = some x → lo[i]? = some l → hi[i]? = some h → p x l h = true := by
  intro xs
  induction xs with
  | nil => intro lo hi i x l h _ hx; simp at hx
  | cons y ys ih =>
    intro lo hi i x l h ha hx hl hh
    cases lo with
    | nil => simp at hl
    | cons l0 lo =>
      cases hi with
      | nil => simp at hh
      | cons h0 hi =>
        simp only [all3, Bool.and_eq_true] at ha
        cases i with
        | zero =>
          simp only [List.getElem?_cons_zero, Option.some.injEq] at hx hl hh
          subst hx; subst hl; subst hh; exact ha.1
        | succ i => simp only [List.getElem?_cons_succ] at hx hl hh; exact ih lo hi i x l h ha.2 hx hl hh

theorem clipAll_inf (n : Nat) : ∀ (m : List (XR α)), m.length = n →
    clipAll m (List.replicate n .ninf) (List.replicate n .pinf) = m := by
  induction n with
  | zero => intro m h; cases m <;> simp_all [clipAll, map3]
  | succ n ih =>
    intro m h
    cases m with
    | nil => simp at h
    | cons x m =>
      simp only [List.replicate_succ, clipAll, map3, XR.clipNp_inf, List.cons.injEq, true_and]
      exact ih m (by simpa using h)

/-- `maxs` after the constructor's clipping against `mins`: a real interval in every position -/
theorem boundsOk_clip_maxs (n : Nat) : ∀ (lo m : List (XR α)), lo.length = n → m.length = n →
    lo.any XR.isNaN = false → m.any XR.isNaN = false →
    boundsOk lo (clipAll m lo (List.replicate n .pinf)) = true := by
  induction n with
  | zero => intro lo m h1 h2 _ _; cases lo <;> cases m <;> simp_all [boundsOk, all2, clipAll, map3]
  | succ n ih =>
    intro lo m h1 h2 hl hm
    cases lo with
    | nil => simp at h1
    | cons l lo =>
      cases m with
      | nil => simp at h2
      | cons x m =>
        simp only [List.any_cons, Bool.or_eq_false_iff] at hl hm
        simp only [List.replicate_succ, clipAll, map3, boundsOk, all2, Bool.and_eq_true]
        refine ⟨?_, ih lo m (by simpa using h1) (by simpa using h2) hl.2 hm.2⟩
        have hw := XR.clipNp_within x l .pinf hm.1 hl.1 (by simp [XR.isNaN]) (by cases l <;> simp [XR.lt])
        simp only [XR.within, Bool.and_eq_true, Bool.not_eq_true'] at hw
        simp [boundElem, hl.1, hw.1.1, hw.1.2]

theorem boundsOk_replicate (n : Nat) :
    boundsOk (List.replicate n (.ninf : XR α)) (List.replicate n .pinf) = true := by
  induction n with
  | zero => simp [boundsOk, all2]
  | succ n ih => simpa [List.replicate_succ, boundsOk, all2, boundElem, XR.isNaN, XR.lt] using ih

theorem any_isNaN_replicate (n : Nat) (x : XR α) (hx : x.isNaN = false) :
    (List.replicate n x).any XR.isNaN = false := by
  induction n with
  | zero => simp
  | succ n ih => simp [List.replicate_succ, hx, ih]

/-- no NaN among the bounds that `boundsOk` accepts -/
theorem boundsOk_noNaN : ∀ (lo hi : List (XR α)), boundsOk lo hi = true → lo.length = hi.length →
    lo.any XR.isNaN = false ∧ hi.any XR.isNaN = false := by
  intro lo
  induction lo with
  | nil => intro hi _ h; cases hi <;> simp_all
  | cons l lo ih =>
    intro hi hb h
    cases hi with
    | nil => simp at h
    | cons h0 hi =>
      simp only [boundsOk, all2, Bool.and_eq_true, boundElem, Bool.not_eq_true'] at hb
      have := ih hi (by simpa [boundsOk] using hb.2) (by simpa using h)
      simp [hb.1.1.1, hb.1.1.2, this.1, this.2]

end lists

section lists_eps
variable {α : Type} [LinearOrder α] [Add α] [Sub α]

/-- values satisfying the invariant never trigger the constructor / setter hit test -/
theorem hitAll_false_of_ok {eps : α} (heps : EpsOk eps) (an : Bool) : ∀ (xs lo hi : List (XR α)),
    valuesOk an xs lo hi = true → hitAll eps xs lo hi = false := by
  intro xs
  induction xs with
  | nil => intro lo hi _; simp [hitAll, any3]
  | cons x xs ih =>
    intro lo hi hv
    cases lo with
    | nil => simp [hitAll, any3]
    | cons l lo =>
      cases hi with
      | nil => simp [hitAll, any3]
      | cons h hi =>
        simp only [valuesOk, all3, Bool.and_eq_true] at hv
        simp only [hitAll, any3, Bool.or_eq_false_iff]
        exact ⟨XR.outsideEps_false_of_ok heps an x l h hv.1, ih lo hi hv.2⟩
end lists_eps

/-! ### the store -/
section store
variable {α : Type}

@[simp] theorem alloc_next (s : Store α) (a : List (XR α)) : (s.alloc a).1.next = s.next + 1 := rfl
@[simp] theorem alloc_ref (s : Store α) (a : List (XR α)) : (s.alloc a).2 = s.next := rfl
theorem alloc_cells_old (s : Store α) (a : List (XR α)) (r : Nat) (h : r < s.next) :
    (s.alloc a).1.cells r = s.cells r := by
  have : r ≠ s.next := Nat.ne_of_lt h
  simp [Store.alloc, this]
@[simp] theorem alloc_cells_new (s : Store α) (a : List (XR α)) : (s.alloc a).1.cells s.next = a := by
  simp [Store.alloc]
@[simp] theorem write_next (s : Store α) (r : Nat) (i : Nat) (x : XR α) : (s.write r i x).next = s.next := rfl
theorem write_cells_ne (s : Store α) (r r' : Nat) (i : Nat) (x : XR α) (h : r' ≠ r) :
    (s.write r i x).cells r' = s.cells r' := by simp [Store.write, h]
@[simp] theorem write_cells_eq (s : Store α) (r : Nat) (i : Nat) (x : XR α) :
    (s.write r i x).cells r = (s.cells r).set i x := by simp [Store.write]
end store

/-! ### invariants -/
section inv
variable {α : Type} [LinearOrder α]

/-- a vector is well formed in a store: its four arrays are allocated, pairwise distinct, of length `nval`;
names are unique; bounds are real intervals; defaults and values lie inside them (NaN only with permission);
the option flags are consistent and an unmaintained hit flag is off -/
structure VecOk (s : Store α) (v : Vec) : Prop where
  lt_next : ∀ r ∈ v.refs, r < s.next
  nodup : v.refs.Nodup
  len_values : (s.cells v.values).length = v.n
  len_mins : (s.cells v.mins).length = v.n
  len_maxs : (s.cells v.maxs).length = v.n
  len_defaults : (s.cells v.defaults).length = v.n
  names : nodupB v.names = true
  bounds : boundsOk (s.cells v.mins) (s.cells v.maxs) = true
  defaults_ok : valuesOk v.acceptNan (s.cells v.defaults) (s.cells v.mins) (s.cells v.maxs) = true
  values_ok : valuesOk v.acceptNan (s.cells v.values) (s.cells v.mins) (s.cells v.maxs) = true
  flags : v.checkHit = true → v.checkBounds = true
  hit_off : v.checkHit = false → v.hit = false

/-- all vectors well formed, and no array shared between two vectors -/
structure WorldOk (w : World α) : Prop where
  each : ∀ (k : Nat) (v : Vec), w.vecs[k]? = some v → VecOk w.store v
  sep : ∀ (i j : Nat) (vi vj : Vec), w.vecs[i]? = some vi → w.vecs[j]? = some vj → i ≠ j → ∀ r ∈ vi.refs, r ∉ vj.refs

theorem VecOk.congr {s s' : Store α} {v : Vec} (h : VecOk s v) (hn : s.next ≤ s'.next)
    (hc : ∀ r ∈ v.refs, s'.cells r = s.cells r) : VecOk s' v := by
  have e1 := hc v.values (by simp [Vec.refs])
  have e2 := hc v.mins (by simp [Vec.refs])
  have e3 := hc v.maxs (by simp [Vec.refs])
  have e4 := hc v.defaults (by simp [Vec.refs])
  exact { lt_next := fun r hr => Nat.lt_of_lt_of_le (h.lt_next r hr) hn
          nodup := h.nodup
          len_values := by rw [e1]; exact h.len_values
          len_mins := by rw [e2]; exact h.len_mins
          len_maxs := by rw [e3]; exact h.len_maxs
          len_defaults := by rw [e4]; exact h.len_defaults
          names := h.names
          bounds := by rw [e2, e3]; exact h.bounds
          defaults_ok := by rw [e4, e2, e3]; exact h.defaults_ok
          values_ok := by rw [e1, e2, e3]; exact h.values_ok
          flags := h.flags
          hit_off := h.hit_off }

/-- the footprint of an accepted assignment on `v` -/
structure Assign (s : Store α) (v : Vec) (s' : Store α) (v' : Vec) : Prop where
  next_le : s.next ≤ s'.next
  frame : ∀ r, r < s.next → r ≠ v.values → s'.cells r = s.cells r
  values_ref : v'.values = v.values ∨ s.next ≤ v'.values
  names : v'.names = v.names
  mins : v'.mins = v.mins
  maxs : v'.maxs = v.maxs
  defaults : v'.defaults = v.defaults
  checkBounds : v'.checkBounds = v.checkBounds
  checkHit : v'.checkHit = v.checkHit
  acceptNan : v'.acceptNan = v.acceptNan

/-- the footprint of an operation that only allocates a new vector -/
structure Spawn (s s' : Store α) (c : Vec) : Prop where
  next_le : s.next ≤ s'.next
  frame : ∀ r, r < s.next → s'.cells r = s.cells r
  fresh : ∀ r ∈ c.refs, s.next ≤ r

theorem indexOf_lt (nm : String) : ∀ (l : List String) (i : Nat), indexOf nm l = some i → i < l.length := by
  intro l
  induction l with
  | nil => intro i h; simp [indexOf] at h
  | cons a t ih =>
    intro i h
    simp only [indexOf] at h
    split at h
    · simp at h; subst h; simp
    · cases hi : indexOf nm t with
      | none => simp [hi] at h
      | some j => simp [hi] at h; have := ih j hi; simp; omega

theorem getElem?_of_lt {β : Type} (l : List β) (i : Nat) (h : i < l.length) : ∃ x, l[i]? = some x :=
  ⟨l[i], List.getElem?_eq_getElem h⟩

end inv

/-! ### single-vector operations -/
section ops
variable {α : Type} [LinearOrder α] [Add α] [Sub α]

theorem VecOk.distinct {s : Store α} {v : Vec} (h : VecOk s v) :
    v.values ≠ v.mins ∧ v.values ≠ v.maxs ∧ v.values ≠ v.defaults ∧ v.mins ≠ v.maxs ∧ v.mins ≠ v.defaults
      ∧ v.maxs ≠ v.defaults := by
  have := h.nodup
  simp only [Vec.refs, List.nodup_cons, List.mem_cons, List.mem_singleton, not_or, List.not_mem_nil,
    not_false_eq_true, List.nodup_nil, and_true] at this
  tauto

theorem Assign.refl (s : Store α) (v : Vec) : Assign s v s v :=
  ⟨Nat.le_refl _, fun _ _ _ => rfl, Or.inl rfl, rfl, rfl, rfl, rfl, rfl, rfl, rfl⟩

theorem setAttr_effect {s s' : Store α} {v v' : Vec} (h : VecOk s v) (nm : String) (x : XR α)
    (e : setAttr s v nm x = ((s', v'), .ok)) : Assign s v s' v' ∧ VecOk s' v' := by
  unfold setAttr at e
  split at e
  · simp only [Prod.mk.injEq, and_true] at e; obtain ⟨rfl, rfl⟩ := e
    exact ⟨Assign.refl _ _, h⟩
  · rename_i i hi
    split at e
    · simp at e
    · rename_i hnan
      split at e
      · rename_i lo hi hlo hhi
        simp only [Prod.mk.injEq, and_true] at e; obtain ⟨rfl, rfl⟩ := e
        obtain ⟨d1, d2, d3, d4, d5, d6⟩ := h.distinct
        have hb := all2_get boundElem _ _ i lo hi h.bounds hlo hhi
        have hb' := hb
        simp only [boundElem, Bool.and_eq_true, Bool.not_eq_true'] at hb'
        have hx : x.isNaN = true → v.acceptNan = true := by
          intro hx; cases ha : v.acceptNan <;> simp_all
        have hok : okElem v.acceptNan (XR.clipPy x lo hi) lo hi = true := by
          rw [XR.clipPy_eq_clipNp x lo hi hb'.1.1 hb'.1.2]; exact okElem_clipNp _ x lo hi hb hx
        refine ⟨⟨Nat.le_refl _, fun r _ hr => write_cells_ne _ _ _ _ _ hr, Or.inl rfl, rfl, rfl, rfl, rfl, rfl, rfl, rfl⟩, ?_⟩
        have c2 := write_cells_ne s v.values v.mins i (XR.clipPy x lo hi) d1.symm
        have c3 := write_cells_ne s v.values v.maxs i (XR.clipPy x lo hi) d2.symm
        have c4 := write_cells_ne s v.values v.defaults i (XR.clipPy x lo hi) d3.symm
        exact { lt_next := h.lt_next
                nodup := h.nodup
                len_values := by
                  show ((s.write _ _ _).cells v.values).length = v.names.length
                  rw [write_cells_eq, List.length_set]; exact h.len_values
                len_mins := by show ((s.write _ _ _).cells v.mins).length = _; rw [c2]; exact h.len_mins
                len_maxs := by show ((s.write _ _ _).cells v.maxs).length = _; rw [c3]; exact h.len_maxs
                len_defaults := by show ((s.write _ _ _).cells v.defaults).length = _; rw [c4]; exact h.len_defaults
                names := h.names
                bounds := by show boundsOk ((s.write _ _ _).cells v.mins) ((s.write _ _ _).cells v.maxs) = _
                             rw [c2, c3]; exact h.bounds
                defaults_ok := by
                  show valuesOk _ ((s.write _ _ _).cells v.defaults) ((s.write _ _ _).cells v.mins)
                    ((s.write _ _ _).cells v.maxs) = _
                  rw [c2, c3, c4]; exact h.defaults_ok
                values_ok := by
                  show valuesOk _ ((s.write _ _ _).cells v.values) ((s.write _ _ _).cells v.mins)
                    ((s.write _ _ _).cells v.maxs) = _
                  rw [c2, c3, write_cells_eq]
                  exact all3_set _ _ _ _ i _ lo hi h.values_ok hlo hhi hok
                flags := h.flags
                hit_off := by
                  intro hc
                  have hc' : v.checkHit = false := hc
                  simp [hc', h.hit_off hc'] }
      · simp at e

/-- under `VecOk` the index error branch of `setAttr` is dead -/
theorem setAttr_no_index {s : Store α} {v : Vec} (h : VecOk s v) (nm : String) (x : XR α) :
    (setAttr s v nm x).2 ≠ .rejected .index := by
  unfold setAttr
  split
  · simp
  · rename_i i hi
    split
    · simp
    · have hlt := indexOf_lt nm v.names i hi
      obtain ⟨lo, hlo⟩ := getElem?_of_lt (s.cells v.mins) i (by rw [h.len_mins]; exact hlt)
      obtain ⟨hi', hhi⟩ := getElem?_of_lt (s.cells v.maxs) i (by rw [h.len_maxs]; exact hlt)
      simp [hlo, hhi]

theorem setKey_effect {s s' : Store α} {v v' : Vec} (h : VecOk s v) (nm : String) (x : XR α)
    (e : setKey s v nm x = ((s', v'), .ok)) : Assign s v s' v' ∧ VecOk s' v' := by
  unfold setKey at e
  split at e
  · simp at e
  · exact setAttr_effect h nm x e

theorem reject?_none {an : Bool} {n : Nat} {xs : List (XR α)} (h : reject? an n xs = none) :
    xs.length = n ∧ (xs.any XR.isNaN = true → an = true) := by
  unfold reject? at h
  split at h
  · simp at h
  · split at h
    · simp at h
    · rename_i h1 h2
      refine ⟨by simpa using h1, fun hx => ?_⟩
      cases an <;> simp_all

theorem setAll_effect (eps : α) {s s' : Store α} {v v' : Vec} (h : VecOk s v) (xs : List (XR α))
    (e : setAll eps s v xs = ((s', v'), .ok)) : Assign s v s' v' ∧ VecOk s' v' := by
  unfold setAll at e
  split at e
  · simp at e
  · rename_i hrej
    obtain ⟨hlen, hnan⟩ := reject?_none hrej
    simp only [Prod.mk.injEq, and_true] at e; obtain ⟨rfl, rfl⟩ := e
    have hr := h.lt_next
    simp only [Vec.refs, List.mem_cons, List.mem_singleton, List.not_mem_nil, or_false, forall_eq_or_imp, forall_eq] at hr
    obtain ⟨r1, r2, r3, r4⟩ := hr
    obtain ⟨d1, d2, d3, d4, d5, d6⟩ := h.distinct
    set a := clipAll xs (s.cells v.mins) (s.cells v.maxs) with ha
    have c2 := alloc_cells_old s a v.mins r2
    have c3 := alloc_cells_old s a v.maxs r3
    have c4 := alloc_cells_old s a v.defaults r4
    refine ⟨⟨by simp, fun r hr _ => alloc_cells_old s a r hr, Or.inr (by simp), rfl, rfl, rfl, rfl, rfl, rfl, rfl⟩, ?_⟩
    exact { lt_next := by
              intro r hr
              simp only [Vec.refs, List.mem_cons, List.mem_singleton, List.not_mem_nil, or_false, alloc_ref] at hr
              simp only [alloc_next]
              rcases hr with e | e | e | e <;> rw [e] <;> omega
            nodup := by
              simp only [Vec.refs, alloc_ref, List.nodup_cons, List.mem_cons, List.mem_singleton, not_or,
                List.not_mem_nil, not_false_eq_true, List.nodup_nil, and_true]
              refine ⟨⟨?_, ?_, ?_⟩, ⟨d4, d5⟩, d6⟩ <;> omega
            len_values := by
              show ((s.alloc a).1.cells s.next).length = _
              rw [alloc_cells_new]; exact clipAll_length _ _ _ _ hlen h.len_mins h.len_maxs
            len_mins := by show ((s.alloc a).1.cells v.mins).length = _; rw [c2]; exact h.len_mins
            len_maxs := by show ((s.alloc a).1.cells v.maxs).length = _; rw [c3]; exact h.len_maxs
            len_defaults := by show ((s.alloc a).1.cells v.defaults).length = _; rw [c4]; exact h.len_defaults
            names := h.names
            bounds := by
              show boundsOk ((s.alloc a).1.cells v.mins) ((s.alloc a).1.cells v.maxs) = _
              rw [c2, c3]; exact h.bounds
            defaults_ok := by
              show valuesOk _ ((s.alloc a).1.cells v.defaults) ((s.alloc a).1.cells v.mins) ((s.alloc a).1.cells v.maxs) = _
              rw [c2, c3, c4]; exact h.defaults_ok
            values_ok := by
              show valuesOk _ ((s.alloc a).1.cells s.next) ((s.alloc a).1.cells v.mins) ((s.alloc a).1.cells v.maxs) = _
              rw [c2, c3, alloc_cells_new]
              exact valuesOk_clipAll _ _ _ _ h.bounds hnan
            flags := h.flags
            hit_off := by
              intro hc
              have hc' : v.checkHit = false := hc
              simp [hc'] }

theorem reset_effect (eps : α) {s s' : Store α} {v v' : Vec} (h : VecOk s v)
    (e : reset eps s v = ((s', v'), .ok)) : Assign s v s' v' ∧ VecOk s' v' :=
  setAll_effect eps h _ e

end ops

/-! ### constructor -/
section ctor
variable {α : Type} [LinearOrder α] [Add α] [Sub α]

theorem ctorMins_ok {an : Bool} {n : Nat} {mins : Option (List (XR α))} {lo : List (XR α)}
    (e : ctorMins an n mins = .ok lo) (hm : ∀ m, mins = some m → m.any XR.isNaN = false) :
    lo.length = n ∧ lo.any XR.isNaN = false := by
  unfold ctorMins at e
  split at e
  · simp only [Except.ok.injEq] at e; subst e
    exact ⟨by simp, any_isNaN_replicate n _ (by simp [XR.isNaN])⟩
  · rename_i m
    split at e
    · simp at e
    · rename_i hr
      simp only [Except.ok.injEq] at e
      obtain ⟨hl, _⟩ := reject?_none hr
      rw [clipAll_inf n m hl] at e; subst e
      exact ⟨hl, hm _ rfl⟩

theorem ctorMaxs_ok {eps : α} {an : Bool} {n : Nat} {lo : List (XR α)} {maxs : Option (List (XR α))}
    {hi : List (XR α)} (e : ctorMaxs eps an n lo maxs = .ok hi) (hlo : lo.length = n)
    (hlon : lo.any XR.isNaN = false) (hm : ∀ m, maxs = some m → m.any XR.isNaN = false) :
    hi.length = n ∧ boundsOk lo hi = true := by
  unfold ctorMaxs at e
  split at e
  · simp only [Except.ok.injEq] at e; subst e
    refine ⟨by simp, ?_⟩
    clear hm
    induction n generalizing lo with
    | zero => cases lo <;> simp_all [boundsOk, all2]
    | succ n ih =>
      cases lo with
      | nil => simp at hlo
      | cons l lo =>
        simp only [List.any_cons, Bool.or_eq_false_iff] at hlon
        simp only [List.replicate_succ, boundsOk, all2, Bool.and_eq_true]
        refine ⟨?_, ih (by simpa using hlo) hlon.2⟩
        cases l <;> simp_all [boundElem, XR.isNaN, XR.lt]
  · rename_i m
    split at e
    · simp at e
    · rename_i hr
      obtain ⟨hl, _⟩ := reject?_none hr
      split at e
      · simp at e
      · simp only [Except.ok.injEq] at e; subst e
        exact ⟨clipAll_length n _ _ _ hl hlo (by simp), boundsOk_clip_maxs n lo m hlo hl hlon (hm _ rfl)⟩

theorem ctorDefaults_ok [OfNat α 0] {eps : α} {an : Bool} {n : Nat} {lo hi : List (XR α)}
    {defaults : Option (List (XR α))} {d : List (XR α)} (e : ctorDefaults eps an n lo hi defaults = .ok d)
    (hlo : lo.length = n) (hhi : hi.length = n) (hb : boundsOk lo hi = true) :
    d.length = n ∧ valuesOk an d lo hi = true := by
  unfold ctorDefaults at e
  split at e
  · simp only [Except.ok.injEq] at e; subst e
    refine ⟨clipAll_length n _ _ _ (by simp) hlo hhi, valuesOk_clipAll an _ lo hi hb ?_⟩
    intro h
    rw [any_isNaN_replicate n _ (by simp [XR.isNaN])] at h
    simp at h
  · rename_i dv
    split at e
    · simp at e
    · rename_i hr
      obtain ⟨hl, hn⟩ := reject?_none hr
      split at e
      · simp at e
      · simp only [Except.ok.injEq] at e; subst e
        exact ⟨clipAll_length n _ _ _ hl hlo hhi, valuesOk_clipAll an _ lo hi hb hn⟩

/-- what the validation part of the constructor guarantees about the arrays it returns -/
structure ArraysOk (names : List String) (cb ch an : Bool) (lo hi d : List (XR α)) : Prop where
  len_lo : lo.length = names.length
  len_hi : hi.length = names.length
  len_d : d.length = names.length
  bounds : boundsOk lo hi = true
  d_ok : valuesOk an d lo hi = true
  names : nodupB names = true
  flags : ch = true → cb = true

theorem mkArrays_ok [OfNat α 0] {eps : α} {names : List String} {defaults mins maxs : Option (List (XR α))}
    {cb ch an : Bool} {lo hi d : List (XR α)}
    (e : mkArrays eps names defaults mins maxs cb ch an = .ok (lo, hi, d))
    (hmins : ∀ m, mins = some m → m.any XR.isNaN = false)
    (hmaxs : ∀ m, maxs = some m → m.any XR.isNaN = false) : ArraysOk names cb ch an lo hi d := by
  unfold mkArrays at e
  simp only at e
  split at e
  · simp at e
  · rename_i hf
    split at e
    · simp at e
    · rename_i hnd
      split at e
      · simp at e
      · rename_i lo' e1
        split at e
        · simp at e
        · rename_i hi' e2
          split at e
          · simp at e
          · rename_i d' e3
            simp only [Except.ok.injEq, Prod.mk.injEq] at e
            obtain ⟨rfl, rfl, rfl⟩ := e
            obtain ⟨l1, l2⟩ := ctorMins_ok e1 hmins
            obtain ⟨h1, h2⟩ := ctorMaxs_ok e2 l1 l2 hmaxs
            obtain ⟨d1, d2⟩ := ctorDefaults_ok e3 l1 h1 h2
            refine ⟨l1, h1, d1, h2, d2, by simpa using hnd, ?_⟩
            intro hch; cases cb <;> simp_all

theorem mkFrom_ok {s : Store α} {names : List String} {cb ch an : Bool} {lo hi d : List (XR α)}
    (h : ArraysOk names cb ch an lo hi d) :
    Spawn s (mkFrom s names lo hi d cb ch an).1 (mkFrom s names lo hi d cb ch an).2
      ∧ VecOk (mkFrom s names lo hi d cb ch an).1 (mkFrom s names lo hi d cb ch an).2
      ∧ view (mkFrom s names lo hi d cb ch an).1 (mkFrom s names lo hi d cb ch an).2
          = ⟨names, d, lo, hi, d, false, cb, ch, an⟩ := by
  have c3 : ((((s.alloc lo).1.alloc hi).1.alloc d).1.alloc d).1.cells (s.next + 1 + 1 + 1) = d := by
    simp [Store.alloc]
  have c2 : ((((s.alloc lo).1.alloc hi).1.alloc d).1.alloc d).1.cells (s.next + 1 + 1) = d := by
    simp [Store.alloc]
  have c1 : ((((s.alloc lo).1.alloc hi).1.alloc d).1.alloc d).1.cells (s.next + 1) = hi := by
    simp [Store.alloc]
  have c0 : ((((s.alloc lo).1.alloc hi).1.alloc d).1.alloc d).1.cells s.next = lo := by
    have h1 : s.next ≠ s.next + 1 + 1 + 1 := by omega
    have h2 : s.next ≠ s.next + 1 + 1 := by omega
    simp [Store.alloc, h1, h2]
  have cold : ∀ r, r < s.next → ((((s.alloc lo).1.alloc hi).1.alloc d).1.alloc d).1.cells r = s.cells r := by
    intro r hr
    have h1 : r ≠ s.next + 1 + 1 + 1 := by omega
    have h2 : r ≠ s.next + 1 + 1 := by omega
    have h3 : r ≠ s.next + 1 := by omega
    have h4 : r ≠ s.next := by omega
    simp [Store.alloc, h1, h2, h3, h4]
  refine ⟨⟨?_, ?_, ?_⟩, ?_, ?_⟩
  · simp [mkFrom]; omega
  · intro r hr
    exact cold r hr
  · intro r hr
    simp only [mkFrom, Vec.refs, alloc_ref, alloc_next, List.mem_cons, List.mem_singleton, List.not_mem_nil, or_false] at hr
    omega
  · exact { lt_next := by
              intro r hr
              simp only [mkFrom, Vec.refs, alloc_ref, alloc_next, List.mem_cons, List.mem_singleton, List.not_mem_nil,
                or_false] at hr ⊢
              omega
            nodup := by
              simp only [mkFrom, Vec.refs, alloc_ref, alloc_next, List.nodup_cons, List.mem_cons, List.mem_singleton,
                not_or, List.not_mem_nil, not_false_eq_true, List.nodup_nil, and_true]
              omega
            len_values := by simp only [mkFrom, alloc_ref, alloc_next, Vec.n]; rw [c3]; exact h.len_d
            len_mins := by simp only [mkFrom, alloc_ref, alloc_next, Vec.n]; rw [c0]; exact h.len_lo
            len_maxs := by simp only [mkFrom, alloc_ref, alloc_next, Vec.n]; rw [c1]; exact h.len_hi
            len_defaults := by simp only [mkFrom, alloc_ref, alloc_next, Vec.n]; rw [c2]; exact h.len_d
            names := h.names
            bounds := by simp only [mkFrom, alloc_ref, alloc_next]; rw [c0, c1]; exact h.bounds
            defaults_ok := by simp only [mkFrom, alloc_ref, alloc_next]; rw [c0, c1, c2]; exact h.d_ok
            values_ok := by simp only [mkFrom, alloc_ref, alloc_next]; rw [c0, c1, c3]; exact h.d_ok
            flags := h.flags
            hit_off := by intro _; rfl }
  · simp only [view, mkFrom, alloc_ref, alloc_next]
    rw [c0, c1, c2, c3]

end ctor

/-! ### dictionary items, rebuilding a vector from its own data -/
section selfcopy
variable {α : Type} [LinearOrder α]

theorem items_spec (n : Nat) : ∀ (ns : List String) (vs los his ds : List (XR α)),
    ns.length = n → vs.length = n → los.length = n → his.length = n → ds.length = n →
    (items ns vs los his ds).length = n ∧ (items ns vs los his ds).map (·.name) = ns
      ∧ (items ns vs los his ds).map (·.value) = vs ∧ (items ns vs los his ds).map (·.min) = los
      ∧ (items ns vs los his ds).map (·.max) = his ∧ (items ns vs los his ds).map (·.default) = ds := by
  induction n with
  | zero =>
    intro ns vs los his ds h1 h2 h3 h4 h5
    cases ns <;> cases vs <;> cases los <;> cases his <;> cases ds <;> simp_all [items]
  | succ n ih =>
    intro ns vs los his ds h1 h2 h3 h4 h5
    cases ns with
    | nil => simp at h1
    | cons a ns => cases vs with
      | nil => simp at h2
      | cons b vs => cases los with
        | nil => simp at h3
        | cons c los => cases his with
          | nil => simp at h4
          | cons d his => cases ds with
            | nil => simp at h5
            | cons e ds =>
              have := ih ns vs los his ds (by simpa using h1) (by simpa using h2) (by simpa using h3)
                (by simpa using h4) (by simpa using h5)
              simp only [items, List.length_cons, List.map_cons, List.cons.injEq, true_and]
              exact ⟨by omega, this.2.1, this.2.2.1, this.2.2.2.1, this.2.2.2.2.1, this.2.2.2.2.2⟩

/-- a NaN among values that satisfy the invariant means NaN is allowed -/
theorem valuesOk_nan_an (an : Bool) : ∀ (xs lo hi : List (XR α)), valuesOk an xs lo hi = true →
    xs.length = lo.length → xs.length = hi.length → xs.any XR.isNaN = true → an = true := by
  intro xs
  induction xs with
  | nil => intro lo hi _ _ _ h; simp at h
  | cons x xs ih =>
    intro lo hi hv h1 h2 hn
    cases lo with
    | nil => simp at h1
    | cons l lo =>
      cases hi with
      | nil => simp at h2
      | cons h hi =>
        simp only [valuesOk, all3, Bool.and_eq_true] at hv
        simp only [List.any_cons, Bool.or_eq_true] at hn
        rcases hn with hn | hn
        · have := hv.1
          simp only [okElem, XR.within, hn, Bool.true_and, Bool.not_true, Bool.false_and, Bool.or_false] at this
          exact this
        · exact ih lo hi hv.2 (by simpa using h1) (by simpa using h2) hn

theorem reject?_of_ok (an : Bool) (n : Nat) (xs : List (XR α)) (hl : xs.length = n)
    (hn : xs.any XR.isNaN = true → an = true) : reject? an n xs = none := by
  unfold reject?
  simp only [hl, ne_eq, not_true_eq_false, if_false]
  cases h : xs.any XR.isNaN
  · simp
  · simp [hn h]

/-- `maxs` as a value vector for the interval `[mins, +∞]` -/
theorem valuesOk_maxs (an : Bool) (n : Nat) : ∀ (lo hi : List (XR α)), lo.length = n → hi.length = n →
    boundsOk lo hi = true → valuesOk an hi lo (List.replicate n .pinf) = true ∧
      boundsOk lo (List.replicate n .pinf) = true := by
  induction n with
  | zero => intro lo hi h1 h2 _; cases lo <;> cases hi <;> simp_all [valuesOk, all3, boundsOk, all2]
  | succ n ih =>
    intro lo hi h1 h2 hb
    cases lo with
    | nil => simp at h1
    | cons l lo =>
      cases hi with
      | nil => simp at h2
      | cons h hi =>
        simp only [boundsOk, all2, Bool.and_eq_true, boundElem, Bool.not_eq_true'] at hb
        have := ih lo hi (by simpa using h1) (by simpa using h2) (by simpa [boundsOk] using hb.2)
        simp only [List.replicate_succ, valuesOk, all3, boundsOk, all2, Bool.and_eq_true]
        refine ⟨⟨?_, this.1⟩, ?_, this.2⟩
        · have hp : XR.lt .pinf h = false := by cases h <;> simp [XR.lt]
          simp [okElem, XR.within, hb.1.1.2, hb.1.2, hp]
        · have hp : XR.lt .pinf l = false := by cases l <;> simp [XR.lt]
          have hl0 : l.isNaN = false := hb.1.1.1
          simp [boundElem, hl0, hp]; simp [XR.isNaN]

end selfcopy

section selfcopy_eps
variable {α : Type} [LinearOrder α] [Add α] [Sub α] [OfNat α 0]

/-- the constructor accepts, unchanged, the bounds / defaults of a well-formed vector (fixed `clone`, `from_dict`) -/
theorem mkArrays_self {eps : α} (heps : EpsOk eps) {names : List String} {cb ch an : Bool} {lo hi d : List (XR α)}
    (h : ArraysOk names cb ch an lo hi d) :
    mkArrays eps names (some d) (some lo) (some hi) cb ch an = .ok (lo, hi, d) := by
  obtain ⟨nl, nh⟩ := boundsOk_noNaN lo hi h.bounds (by rw [h.len_lo, h.len_hi])
  have hf : (ch && !cb) = false := by
    cases hc : ch
    · simp
    · simp [h.flags hc]
  have e1 : ctorMins an names.length (some lo) = .ok lo := by
    simp only [ctorMins]
    rw [reject?_of_ok an _ lo h.len_lo (by intro hx; rw [nl] at hx; simp at hx)]
    simp [clipAll_inf _ lo h.len_lo]
  obtain ⟨vm, bm⟩ := valuesOk_maxs an names.length lo hi h.len_lo h.len_hi h.bounds
  have e2 : ctorMaxs eps an names.length lo (some hi) = .ok hi := by
    simp only [ctorMaxs]
    rw [reject?_of_ok an _ hi h.len_hi (by intro hx; rw [nh] at hx; simp at hx)]
    simp only [hitAll_false_of_ok heps an hi lo _ vm, Bool.false_eq_true, if_false]
    rw [clipAll_eq_self an hi lo _ bm vm (by rw [h.len_hi, h.len_lo]) (by simp [h.len_hi])]
  have e3 : ctorDefaults eps an names.length lo hi (some d) = .ok d := by
    simp only [ctorDefaults]
    rw [reject?_of_ok an _ d h.len_d
      (valuesOk_nan_an an d lo hi h.d_ok (by rw [h.len_d, h.len_lo]) (by rw [h.len_d, h.len_hi]))]
    simp only [hitAll_false_of_ok heps an d lo hi h.d_ok, Bool.false_eq_true, if_false]
    rw [clipAll_eq_self an d lo hi h.bounds h.d_ok (by rw [h.len_d, h.len_lo]) (by rw [h.len_d, h.len_hi])]
  unfold mkArrays
  simp only [hf, Bool.false_eq_true, if_false, h.names, Bool.not_true, e1, e2, e3]

/-- constructor + values setter + hit flag on a well-formed vector's own data: accepted, and the result shows
exactly the data it was given -/
theorem rebuild_self {eps : α} (heps : EpsOk eps) (s : Store α) {names : List String} {cb ch an : Bool}
    {lo hi d vals : List (XR α)} (hit : Bool) (h : ArraysOk names cb ch an lo hi d)
    (hv : valuesOk an vals lo hi = true) (hl : vals.length = names.length) :
    ∃ s' c, rebuild eps s names d lo hi vals hit cb ch an = .ok (s', c)
      ∧ view s' c = ⟨names, vals, lo, hi, d, hit, cb, ch, an⟩ := by
  obtain ⟨sp, ok1, vw⟩ := mkFrom_ok (s := s) h
  have emk : mk eps s names (some d) (some lo) (some hi) cb ch an = .ok (mkFrom s names lo hi d cb ch an) := by
    unfold mk; rw [mkArrays_self heps h]
  generalize hmk : mkFrom s names lo hi d cb ch an = p at *
  obtain ⟨s1, c1⟩ := p
  simp only [view, View.mk.injEq] at vw
  obtain ⟨v1, v2, v3, v4, v5, v6, v7, v8, v9⟩ := vw
  have hrej : reject? c1.acceptNan c1.n vals = none := by
    rw [v9, Vec.n, v1]
    exact reject?_of_ok an _ vals hl
      (valuesOk_nan_an an vals lo hi hv (by rw [hl, h.len_lo]) (by rw [hl, h.len_hi]))
  have hclip : clipAll vals (s1.cells c1.mins) (s1.cells c1.maxs) = vals := by
    rw [v3, v4]
    exact clipAll_eq_self an vals lo hi h.bounds hv (by rw [hl, h.len_lo]) (by rw [hl, h.len_hi])
  have r2 := ok1.lt_next c1.mins (by simp [Vec.refs])
  have r3 := ok1.lt_next c1.maxs (by simp [Vec.refs])
  have r4 := ok1.lt_next c1.defaults (by simp [Vec.refs])
  refine ⟨(s1.alloc vals).1, { c1 with values := s1.next, hit := hit }, ?_, ?_⟩
  · unfold rebuild
    rw [emk]
    simp only [setAll, hrej, hclip, alloc_ref]
  · simp only [view, alloc_cells_new, alloc_cells_old s1 vals _ r2, alloc_cells_old s1 vals _ r3,
      alloc_cells_old s1 vals _ r4, v1, v3, v4, v5, v7, v8, v9]

end selfcopy_eps

/-! ### rebuilding (clone / from_dict) and the world -/
section world
variable {α : Type} [LinearOrder α] [Add α] [Sub α]

theorem VecOk.setHit {s : Store α} {v : Vec} (h : VecOk s v) (b : Bool) (hb : v.checkHit = false → b = false) :
    VecOk s { v with hit := b } :=
  { lt_next := h.lt_next, nodup := h.nodup, len_values := h.len_values, len_mins := h.len_mins,
    len_maxs := h.len_maxs, len_defaults := h.len_defaults, names := h.names, bounds := h.bounds,
    defaults_ok := h.defaults_ok, values_ok := h.values_ok, flags := h.flags, hit_off := hb }

theorem mk_ok [OfNat α 0] {eps : α} {s s1 : Store α} {names : List String}
    {defaults mins maxs : Option (List (XR α))} {cb ch an : Bool} {c : Vec}
    (e : mk eps s names defaults mins maxs cb ch an = .ok (s1, c))
    (hmins : ∀ m, mins = some m → m.any XR.isNaN = false)
    (hmaxs : ∀ m, maxs = some m → m.any XR.isNaN = false) :
    Spawn s s1 c ∧ VecOk s1 c ∧ c.names = names ∧ c.checkBounds = cb ∧ c.checkHit = ch ∧ c.acceptNan = an
      ∧ c.hit = false := by
  unfold mk at e
  split at e
  · simp at e
  · rename_i lo hi d ea
    simp only [Except.ok.injEq] at e
    have ha := mkArrays_ok ea hmins hmaxs
    obtain ⟨h1, h2, _⟩ := mkFrom_ok (s := s) ha
    rw [e] at h1 h2
    have e2 := congrArg Prod.snd e
    simp only [mkFrom, alloc_ref, alloc_next] at e2
    subst e2
    exact ⟨h1, h2, rfl, rfl, rfl, rfl, rfl⟩

theorem rebuild_ok [OfNat α 0] {eps : α} {s s' : Store α} {names : List String}
    {defaults mins maxs values : List (XR α)} {hit cb ch an : Bool} {c : Vec}
    (e : rebuild eps s names defaults mins maxs values hit cb ch an = .ok (s', c))
    (hmins : mins.any XR.isNaN = false) (hmaxs : maxs.any XR.isNaN = false) (hhit : ch = false → hit = false) :
    Spawn s s' c ∧ VecOk s' c := by
  unfold rebuild at e
  split at e
  · simp at e
  · rename_i s1 c1 emk
    obtain ⟨sp, ok1, _, _, hch, _, _⟩ := mk_ok emk (by intro m hm; simp at hm; subst hm; exact hmins)
      (by intro m hm; simp at hm; subst hm; exact hmaxs)
    split at e
    · rename_i s2 c2 eset
      simp only [Except.ok.injEq, Prod.mk.injEq] at e
      obtain ⟨rfl, rfl⟩ := e
      obtain ⟨as, ok2⟩ := setAll_effect eps ok1 values eset
      refine ⟨⟨Nat.le_trans sp.next_le as.next_le, ?_, ?_⟩, ok2.setHit hit ?_⟩
      · intro r hr
        have hv : r ≠ c1.values := by
          have := sp.fresh c1.values (by simp [Vec.refs]); omega
        rw [as.frame r (Nat.lt_of_lt_of_le hr sp.next_le) hv, sp.frame r hr]
      · intro r hr
        simp only [Vec.refs, List.mem_cons, List.mem_singleton, List.not_mem_nil, or_false] at hr
        have f1 := sp.fresh c1.values (by simp [Vec.refs])
        have f2 := sp.fresh c1.mins (by simp [Vec.refs])
        have f3 := sp.fresh c1.maxs (by simp [Vec.refs])
        have f4 := sp.fresh c1.defaults (by simp [Vec.refs])
        have := sp.next_le
        rcases hr with e | e | e | e
        · rcases as.values_ref with h | h <;> omega
        · rw [e, as.mins]; exact f2
        · rw [e, as.maxs]; exact f3
        · rw [e, as.defaults]; exact f4
      · intro h; rw [as.checkHit, hch] at h; exact hhit h
    · simp at e

/-- an accepted in-place / rebinding assignment on vector `k` keeps the world well formed -/
theorem update_ok {w : World α} {k : Nat} {f : Store α → Vec → (Store α × Vec) × Out} (hw : WorldOk w)
    (hf : ∀ v s' v', w.vecs[k]? = some v → f w.store v = ((s', v'), .ok) → Assign w.store v s' v' ∧ VecOk s' v') :
    WorldOk (w.update k f).1 := by
  unfold World.update
  split
  · exact hw
  · rename_i v hk
    split
    · rename_i s' v' e
      obtain ⟨as, ok'⟩ := hf v s' v' hk e
      have hklt : k < w.vecs.length := by
        rcases List.getElem?_eq_some_iff.mp hk with ⟨h, _⟩; exact h
      have okv := hw.each k v hk
      have other : ∀ j u, j ≠ k → w.vecs[j]? = some u → (∀ r ∈ u.refs, r < w.store.next ∧ r ≠ v.values) := by
        intro j u hj hu r hr
        refine ⟨(hw.each j u hu).lt_next r hr, ?_⟩
        intro e
        exact hw.sep k j v u hk hu (Ne.symm hj) v.values (by simp [Vec.refs]) (e ▸ hr)
      have refs' : ∀ r ∈ v'.refs, r ∈ v.refs ∨ w.store.next ≤ r := by
        intro r hr
        simp only [Vec.refs, List.mem_cons, List.mem_singleton, List.not_mem_nil, or_false] at hr ⊢
        rcases hr with e | e | e | e
        · rcases as.values_ref with h | h
          · left; left; rw [e, h]
          · right; omega
        · left; right; left; rw [e, as.mins]
        · left; right; right; left; rw [e, as.maxs]
        · left; right; right; right; rw [e, as.defaults]
      refine ⟨?_, ?_⟩
      · intro j u hu
        simp only [List.getElem?_set] at hu
        split at hu
        · rename_i hkj
          simp only [hklt, if_true, Option.some.injEq] at hu
          subst hu; exact ok'
        · rename_i hkj
          have hjk : j ≠ k := fun h => hkj h.symm
          exact (hw.each j u hu).congr as.next_le
            (fun r hr => as.frame r (other j u hjk hu r hr).1 (other j u hjk hu r hr).2)
      · intro i j vi vj hi hj hij r hr
        simp only [List.getElem?_set] at hi hj
        by_cases hki : k = i
        · have hkj : ¬ k = j := fun h => hij (hki ▸ h ▸ rfl)
          simp only [hki, if_true] at hi
          simp only [hkj, if_false] at hj
          have : i < w.vecs.length := hki ▸ hklt
          simp only [this, if_true, Option.some.injEq] at hi
          subst hi
          have hj' : w.vecs[j]? = some vj := hj
          rcases refs' r hr with h | h
          · exact hw.sep k j v vj hk hj' (fun h => hkj h) r h
          · intro hm
            have := (hw.each j vj hj').lt_next r hm; omega
        · simp only [hki, if_false] at hi
          by_cases hkj : k = j
          · simp only [hkj, if_true] at hj
            have : j < w.vecs.length := hkj ▸ hklt
            simp only [this, if_true, Option.some.injEq] at hj
            subst hj
            intro hm
            rcases refs' r hm with h | h
            · exact hw.sep i k vi v hi hk (fun h => hki h.symm) r hr h
            · have := (hw.each i vi hi).lt_next r hr; omega
          · simp only [hkj, if_false] at hj
            exact hw.sep i j vi vj hi hj hij r hr
    · exact hw

/-- … and does not touch what any other vector shows -/
theorem update_view_other {w : World α} {k : Nat} {f : Store α → Vec → (Store α × Vec) × Out} (hw : WorldOk w)
    (hf : ∀ v s' v', w.vecs[k]? = some v → f w.store v = ((s', v'), .ok) → Assign w.store v s' v' ∧ VecOk s' v')
    (j : Nat) (hj : j ≠ k) : (w.update k f).1.view j = w.view j := by
  unfold World.update
  split
  · rfl
  · rename_i v hk
    split
    · rename_i s' v' e
      obtain ⟨as, _⟩ := hf v s' v' hk e
      simp only [World.view, List.getElem?_set, (Ne.symm hj : ¬ k = j), if_false]
      cases hu : w.vecs[j]? with
      | none => rfl
      | some u =>
        have okU := hw.each j u hu
        have fr : ∀ r ∈ u.refs, s'.cells r = w.store.cells r := by
          intro r hr
          refine as.frame r (okU.lt_next r hr) ?_
          intro e
          exact hw.sep k j v u hk hu (Ne.symm hj) v.values (by simp [Vec.refs]) (e ▸ hr)
        simp only [Option.map_some, Option.some.injEq, view]
        rw [fr u.values (by simp [Vec.refs]), fr u.mins (by simp [Vec.refs]), fr u.maxs (by simp [Vec.refs]),
          fr u.defaults (by simp [Vec.refs])]
    · rfl

/-- … nor the names, bounds, defaults and option flags of the vector it is applied to -/
theorem update_frozen_self {w : World α} {k : Nat} {f : Store α → Vec → (Store α × Vec) × Out} (hw : WorldOk w)
    (hf : ∀ v s' v', w.vecs[k]? = some v → f w.store v = ((s', v'), .ok) → Assign w.store v s' v' ∧ VecOk s' v') :
    (w.update k f).1.frozen k = w.frozen k := by
  unfold World.update
  split
  · rfl
  · rename_i v hk
    split
    · rename_i s' v' e
      obtain ⟨as, _⟩ := hf v s' v' hk e
      have hklt : k < w.vecs.length := by
        rcases List.getElem?_eq_some_iff.mp hk with ⟨h, _⟩; exact h
      have okv := hw.each k v hk
      obtain ⟨d1, d2, d3, _, _, _⟩ := okv.distinct
      have r2 := okv.lt_next v.mins (by simp [Vec.refs])
      have r3 := okv.lt_next v.maxs (by simp [Vec.refs])
      have r4 := okv.lt_next v.defaults (by simp [Vec.refs])
      simp only [World.frozen, World.view, List.getElem?_set, if_true, hklt, hk, Option.map_some, Option.some.injEq,
        View.frozen, view]
      rw [as.names, as.mins, as.maxs, as.defaults, as.checkBounds, as.checkHit, as.acceptNan,
        as.frame v.mins r2 d1.symm, as.frame v.maxs r3 d2.symm, as.frame v.defaults r4 d3.symm]
    · rfl

theorem update_rejected (w : World α) (k : Nat) (f : Store α → Vec → (Store α × Vec) × Out) (e : Err)
    (h : (w.update k f).2 = .rejected e) : (w.update k f).1 = w := by
  unfold World.update at h ⊢
  cases hk : w.vecs[k]? with
  | none => simp
  | some v =>
    simp only [hk] at h ⊢
    rcases hf : f w.store v with ⟨⟨s', v'⟩, o⟩
    cases o with
    | ok => simp [hf] at h
    | rejected e' => simp

theorem update_length (w : World α) (k : Nat) (f : Store α → Vec → (Store α × Vec) × Out) :
    (w.update k f).1.vecs.length = w.vecs.length := by
  unfold World.update
  split
  · rfl
  · split
    · simp
    · rfl

theorem spawn_rejected (w : World α) (k : Nat) (f : Store α → Vec → Except Err (Store α × Vec)) (e : Err)
    (h : (w.spawn k f).2 = .rejected e) : (w.spawn k f).1 = w := by
  unfold World.spawn at h ⊢
  cases hk : w.vecs[k]? with
  | none => simp
  | some v =>
    simp only [hk] at h ⊢
    cases hf : f w.store v with
    | ok p => simp [hf] at h
    | error e' => simp

/-- appending a freshly allocated, well-formed vector keeps the world well formed and every existing vector
as it was -/
theorem append_ok {w : World α} {s' : Store α} {c : Vec} (hw : WorldOk w) (sp : Spawn w.store s' c)
    (okc : VecOk s' c) :
    WorldOk ⟨s', w.vecs ++ [c]⟩ ∧ ∀ j, j < w.vecs.length → (⟨s', w.vecs ++ [c]⟩ : World α).view j = w.view j := by
  refine ⟨⟨?_, ?_⟩, ?_⟩
  · intro j u hu
    simp only [List.getElem?_append] at hu
    split at hu
    · exact (hw.each j u hu).congr sp.next_le (fun r hr => sp.frame r ((hw.each j u hu).lt_next r hr))
    · rename_i hlt
      have : j - w.vecs.length = 0 ∨ 0 < j - w.vecs.length := by omega
      rcases this with h0 | h0
      · simp only [h0, List.getElem?_cons_zero, Option.some.injEq] at hu; subst hu; exact okc
      · have : ([c] : List Vec)[j - w.vecs.length]? = none := by
          apply List.getElem?_eq_none; simp; omega
        simp [this] at hu
  · intro i j vi vj hi hj hij r hr
    simp only [List.getElem?_append] at hi hj
    have newc : ∀ (m : Nat) (u : Vec), ¬ m < w.vecs.length → ([c] : List Vec)[m - w.vecs.length]? = some u →
        u = c ∧ m = w.vecs.length := by
      intro m u hm hu
      have : m - w.vecs.length = 0 ∨ 0 < m - w.vecs.length := by omega
      rcases this with h0 | h0
      · simp only [h0, List.getElem?_cons_zero, Option.some.injEq] at hu; exact ⟨hu.symm, by omega⟩
      · have : ([c] : List Vec)[m - w.vecs.length]? = none := by
          apply List.getElem?_eq_none; simp; omega
        simp [this] at hu
    split at hi <;> split at hj
    · exact hw.sep i j vi vj hi hj hij r hr
    · rename_i h1 h2
      obtain ⟨rfl, _⟩ := newc j vj h2 hj
      intro hm
      have := sp.fresh r hm
      have := (hw.each i vi hi).lt_next r hr; omega
    · rename_i h1 h2
      obtain ⟨rfl, _⟩ := newc i vi h1 hi
      intro hm
      have := sp.fresh r hr
      have := (hw.each j vj hj).lt_next r hm; omega
    · rename_i h1 h2
      obtain ⟨_, e1⟩ := newc i vi h1 hi
      obtain ⟨_, e2⟩ := newc j vj h2 hj
      omega
  · intro j hj
    simp only [World.view, List.getElem?_append, hj, if_true]
    cases hu : w.vecs[j]? with
    | none => rfl
    | some u =>
      have okU := hw.each j u hu
      have fr : ∀ r ∈ u.refs, s'.cells r = w.store.cells r :=
        fun r hr => sp.frame r (okU.lt_next r hr)
      simp only [Option.map_some, Option.some.injEq, view]
      rw [fr u.values (by simp [Vec.refs]), fr u.mins (by simp [Vec.refs]), fr u.maxs (by simp [Vec.refs]),
        fr u.defaults (by simp [Vec.refs])]

/-- an allocation-only operation keeps the world well formed and every existing vector as it was -/
theorem spawn_ok {w : World α} {k : Nat} {f : Store α → Vec → Except Err (Store α × Vec)} (hw : WorldOk w)
    (hf : ∀ v s' c, w.vecs[k]? = some v → f w.store v = .ok (s', c) → Spawn w.store s' c ∧ VecOk s' c) :
    WorldOk (w.spawn k f).1 ∧ ∀ j, j < w.vecs.length → (w.spawn k f).1.view j = w.view j := by
  unfold World.spawn
  split
  · exact ⟨hw, fun _ _ => rfl⟩
  · rename_i v hk
    split
    · rename_i s' c e
      obtain ⟨sp, okc⟩ := hf v s' c hk e
      exact append_ok hw sp okc
    · exact ⟨hw, fun _ _ => rfl⟩

theorem emptyWorld_ok : WorldOk (⟨Store.empty, []⟩ : World α) :=
  ⟨fun k v h => by simp at h, fun i j vi vj h => by simp at h⟩

theorem clone_effect [OfNat α 0] (eps : α) {s s' : Store α} {v c : Vec} (h : VecOk s v)
    (e : clone eps s v = .ok (s', c)) : Spawn s s' c ∧ VecOk s' c := by
  obtain ⟨n1, n2⟩ := boundsOk_noNaN _ _ h.bounds (by rw [h.len_mins, h.len_maxs])
  exact rebuild_ok e n1 n2 h.hit_off

theorem dictRT_effect [OfNat α 0] (eps : α) {s s' : Store α} {v c : Vec} (h : VecOk s v)
    (e : fromDict eps s (toDict s v) = .ok (s', c)) : Spawn s s' c ∧ VecOk s' c := by
  obtain ⟨n1, n2⟩ := boundsOk_noNaN _ _ h.bounds (by rw [h.len_mins, h.len_maxs])
  obtain ⟨il, i1, i2, i3, i4, i5⟩ := items_spec v.n v.names (s.cells v.values) (s.cells v.mins) (s.cells v.maxs)
    (s.cells v.defaults) rfl h.len_values h.len_mins h.len_maxs h.len_defaults
  unfold fromDict at e
  simp only [toDict, il, Nat.lt_irrefl, if_false] at e
  have ht : List.take v.n (items v.names (s.cells v.values) (s.cells v.mins) (s.cells v.maxs) (s.cells v.defaults))
      = items v.names (s.cells v.values) (s.cells v.mins) (s.cells v.maxs) (s.cells v.defaults) :=
    List.take_of_length_le (by omega)
  rw [ht, i1, i2, i3, i4, i5] at e
  exact rebuild_ok e n1 n2 h.hit_off

@[simp] theorem peek_fst (w : World α) (k : Nat) (f : Store α → Vec → Out) : (w.peek k f).1 = w := by
  unfold World.peek; split <;> rfl

theorem step_length_le [OfNat α 0] (eps : α) (w : World α) (op : Op α) :
    w.vecs.length ≤ (step eps w op).1.vecs.length := by
  cases op with
  | setAttr k nm x => simp [step, update_length]
  | setKey k nm x => simp [step, update_length]
  | setAll k xs => simp [step, update_length]
  | reset k => simp [step, update_length]
  | clone k =>
    simp only [step, World.spawn]; split
    · exact Nat.le_refl _
    · split <;> simp
  | dictRT k =>
    simp only [step, World.spawn]; split
    · exact Nat.le_refl _
    · split <;> simp
  | getKey k nm => simp [step]
  | getAttr k nm => simp [step]
  | read k => simp [step]
  | setBad k => simp [step]
  | pyCopy k works =>
    cases works
    · simp [step]
    · simp only [step, if_true, World.spawn]; split
      · exact Nat.le_refl _
      · split <;> simp

/-- a transform whose three vectors are three different objects of the world -/
def Trans.wf (t : Trans) : Prop := t.bc ≠ t.params ∧ t.bc ≠ t.constants

theorem sync_ok (eps : α) (w : World α) (t : Trans) (hw : WorldOk w) : WorldOk (sync eps w t) := by
  unfold sync
  split
  · exact hw
  · rename_i xs _
    exact update_ok hw fun v s' v' hk e => setAll_effect eps (hw.each t.bc v hk) xs e

theorem sync_view (eps : α) (w : World α) (t : Trans) (hw : WorldOk w) (j : Nat) (hj : j ≠ t.bc) :
    (sync eps w t).view j = w.view j := by
  unfold sync
  split
  · rfl
  · rename_i xs _
    exact update_view_other hw (fun v s' v' hk e => setAll_effect eps (hw.each t.bc v hk) xs e) j hj

theorem VecOk.arraysOk {s : Store α} {v : Vec} (h : VecOk s v) :
    ArraysOk v.names v.checkBounds v.checkHit v.acceptNan (s.cells v.mins) (s.cells v.maxs) (s.cells v.defaults) :=
  ⟨h.len_mins, h.len_maxs, h.len_defaults, h.bounds, h.defaults_ok, h.names, h.flags⟩

end world

/-! ### several transform instances -/
section instances
variable {α : Type} [LinearOrder α] [Add α] [Sub α]

theorem sync_plain (eps : α) (w : World α) (t : Trans) (h : t.kind = .plain) : sync eps w t = w := by
  unfold sync syncValues
  cases w.vecs[t.params]? <;> cases w.vecs[t.constants]? <;> simp [h]

theorem Trans.params_mem_idx (t : Trans) : t.params ∈ t.idx := by
  unfold Trans.idx; cases t.kind <;> simp
theorem Trans.constants_mem_idx (t : Trans) : t.constants ∈ t.idx := by
  unfold Trans.idx; cases t.kind <;> simp
theorem Trans.bc_mem_idx (t : Trans) (h : t.kind ≠ .plain) : t.bc ∈ t.idx := by
  unfold Trans.idx; cases hk : t.kind <;> simp_all

theorem sync_length (eps : α) (w : World α) (t : Trans) : (sync eps w t).vecs.length = w.vecs.length := by
  unfold sync; split
  · rfl
  · exact update_length _ _ _

theorem tstep_length (eps : α) (w : World α) (t : Trans) (op : TOp α) :
    (tstep eps w t op).1.vecs.length = w.vecs.length := by
  cases op with
  | forward => simp only [tstep, sync_length]
  | backward => simp only [tstep, sync_length]
  | jacobian => simp only [tstep, sync_length]
  | sample => rfl
  | logprior => rfl
  | print => rfl
  | getItem nm => simp only [tstep]; split <;> simp
  | getAttr nm => simp only [tstep]; split <;> rfl
  | setItem nm x =>
    simp only [tstep]
    split
    · split
      · exact update_length _ _ _
      · split <;> exact update_length _ _ _
    · rfl
  | setAttr nm x =>
    simp only [tstep]
    split
    · split
      · exact update_length _ _ _
      · split
        · exact update_length _ _ _
        · rfl
    · rfl
  | reset => exact update_length _ _ _
  | setParams xs => exact update_length _ _ _
  | setConstants xs => exact update_length _ _ _

/-- the two read accessors of a transform return the world they were given -/
@[simp] theorem tstep_getItem_fst (eps : α) (w : World α) (t : Trans) (nm : String) :
    (tstep eps w t (.getItem nm)).1 = w := by
  simp only [tstep]; split <;> simp
@[simp] theorem tstep_getAttr_fst (eps : α) (w : World α) (t : Trans) (nm : String) :
    (tstep eps w t (.getAttr nm)).1 = w := by
  simp only [tstep]; split <;> rfl

/-- a fresh vector shows its defaults and an unset hit flag -/
theorem mk_view [OfNat α 0] {eps : α} {s s1 : Store α} {names : List String}
    {defaults mins maxs : Option (List (XR α))} {cb ch an : Bool} {c : Vec}
    (e : mk eps s names defaults mins maxs cb ch an = .ok (s1, c)) :
    (view s1 c).values = (view s1 c).defaults ∧ (view s1 c).hit = false := by
  unfold mk at e
  split at e
  · simp at e
  · rename_i lo hi d _
    simp only [Except.ok.injEq] at e
    have e2 := congrArg Prod.snd e
    have e1 := congrArg Prod.fst e
    simp only at e1 e2
    subst e1; subst e2
    constructor
    · simp [view, mkFrom, Store.alloc]
    · rfl

/-- one more constructed vector: the world stays well formed, every existing vector shows what it showed, the new
one (last) shows its defaults with the hit flag off -/
theorem add_spec [OfNat α 0] (eps : α) (w w' : World α) (sp : Spec α) (hw : WorldOk w)
    (e : World.add eps w sp = .ok w')
    (hmins : ∀ m, sp.mins = some m → m.any XR.isNaN = false)
    (hmaxs : ∀ m, sp.maxs = some m → m.any XR.isNaN = false) :
    WorldOk w' ∧ w'.vecs.length = w.vecs.length + 1 ∧ (∀ j, j < w.vecs.length → w'.view j = w.view j)
      ∧ ∃ vw, w'.view w.vecs.length = some vw ∧ vw.values = vw.defaults ∧ vw.hit = false := by
  unfold World.add at e
  split at e
  · simp at e
  · rename_i s v emk
    simp only [Except.ok.injEq] at e; subst e
    obtain ⟨sp', ok, _⟩ := mk_ok emk hmins hmaxs
    obtain ⟨h1, h2⟩ := append_ok hw sp' ok
    obtain ⟨v1, v2⟩ := mk_view emk
    refine ⟨h1, by simp, h2, view s v, ?_, v1, v2⟩
    simp [World.view]

/-- the instances of a process: the world is well formed, each non-plain instance has its inner vector apart from
its own params / constants, the vectors of an instance exist, and NO vector belongs to two instances -/
structure MOk (m : MWorld α) : Prop where
  world : WorldOk m.world
  wf : ∀ (i : Nat) (t : Trans), m.insts[i]? = some t → t.kind ≠ .plain → t.bc ≠ t.params ∧ t.bc ≠ t.constants
  lt : ∀ (i : Nat) (t : Trans), m.insts[i]? = some t → ∀ j ∈ t.idx, j < m.world.vecs.length
  sep : ∀ (i i' : Nat) (t t' : Trans), m.insts[i]? = some t → m.insts[i']? = some t' → i ≠ i' →
    ∀ j ∈ t'.idx, j ∉ t.idx

end instances

/-! ### the margin test against actual clipping -/
section hitlemmas
variable {α : Type} [LinearOrder α] [Add α] [Sub α]

theorem elem_hit_iff {eps : α} (heps : EpsOk eps) (x l h : XR α) (hb : boundElem l h = true)
    (hr : XR.inRegion eps x l h = true) : XR.outsideEps eps x l h = true ↔ XR.clipNp x l h ≠ x := by
  simp only [boundElem, Bool.and_eq_true, Bool.not_eq_true'] at hb
  cases hx : x.isNaN
  · rw [XR.clipNp_ne_iff x l h hx hb.1.1 hb.1.2 hb.2]
    constructor
    · exact XR.outside_of_outsideEps heps x l h
    · intro ho
      simp only [XR.inRegion, hx, Bool.false_or, Bool.or_eq_true] at hr
      rcases hr with hw | he
      · simp only [XR.within, XR.outside, Bool.and_eq_true, Bool.not_eq_true', Bool.or_eq_true] at hw ho
        rcases ho with ho | ho <;> simp_all
      · exact he
  · have := XR.isNaN_eq_nan hx; subst this
    rw [XR.clipNp_nan]
    cases l <;> cases h <;> simp [XR.outsideEps, XR.lt, XR.subEps, XR.addEps]

theorem hitAll_iff {eps : α} (heps : EpsOk eps) : ∀ (xs lo hi : List (XR α)), boundsOk lo hi = true →
    all3 (XR.inRegion eps) xs lo hi = true → xs.length = lo.length → xs.length = hi.length →
    (hitAll eps xs lo hi = true ↔ clipAll xs lo hi ≠ xs) := by
  intro xs
  induction xs with
  | nil => intro lo hi _ _ h1 h2; cases lo <;> cases hi <;> simp_all [hitAll, any3, clipAll, map3]
  | cons x xs ih =>
    intro lo hi hb hr h1 h2
    cases lo with
    | nil => simp at h1
    | cons l lo =>
      cases hi with
      | nil => simp at h2
      | cons h hi =>
        simp only [boundsOk, all2, Bool.and_eq_true] at hb
        simp only [all3, Bool.and_eq_true] at hr
        have e1 := elem_hit_iff heps x l h hb.1 hr.1
        have e2 := ih lo hi hb.2 hr.2 (by simpa using h1) (by simpa using h2)
        simp only [hitAll] at e2
        simp only [hitAll, any3, clipAll, map3, Bool.or_eq_true, ne_eq, List.cons.injEq, not_and_or]
        simp only [clipAll] at e2
        rw [e1, e2]
end hitlemmas

end HydroVerif.C12
