/-
C12 — helper lemmas (not property statements): IEEE-style comparison / clipping on `XR`, element-wise list
helpers, allocation frames of the array store.
-/
import HydroVerif.Model.C12
import Mathlib.Order.Defs.LinearOrder
import Mathlib.Order.Basic
import Mathlib.Algebra.Order.Group.Defs
import Mathlib.Algebra.Order.Monoid.Defs
import Mathlib.Tactic.Order
import Mathlib.Data.List.Basic

set_option linter.unusedSimpArgs false
set_option linter.unusedVariables false
namespace HydroVerif.C12
open XR

section xr
variable {α : Type} [LinearOrder α]

@[simp] theorem XR.lt_self (x : XR α) : XR.lt x x = false := by
  cases x <;> simp [XR.lt]

theorem XR.clipNp_nan (lo hi : XR α) : XR.clipNp .nan lo hi = .nan := by
  simp [XR.clipNp, XR.maxNp, XR.minNp, XR.isNaN]

theorem XR.clipPy_nan (lo hi : XR α) : XR.clipPy .nan lo hi = .nan := by
  cases lo <;> cases hi <;> simp [XR.clipPy, XR.lt]

theorem XR.clipNp_inf (x : XR α) : XR.clipNp x .ninf .pinf = x := by
  cases x <;> simp [XR.clipNp, XR.maxNp, XR.minNp, XR.isNaN, XR.lt]

theorem XR.ne_of_lt {x y : XR α} (h : XR.lt x y = true) : x ≠ y := by
  intro e; subst e; simp at h

theorem XR.maxNp_cases (a b : XR α) (ha : a.isNaN = false) (hb : b.isNaN = false) :
    (XR.maxNp a b = a ∧ XR.lt a b = false) ∨ (XR.maxNp a b = b ∧ XR.lt a b = true) := by
  unfold XR.maxNp; simp only [ha, hb]; cases h : XR.lt a b <;> simp

theorem XR.minNp_cases (a b : XR α) (ha : a.isNaN = false) (hb : b.isNaN = false) :
    (XR.minNp a b = a ∧ XR.lt b a = false) ∨ (XR.minNp a b = b ∧ XR.lt b a = true) := by
  unfold XR.minNp; simp only [ha, hb]; cases h : XR.lt b a <;> simp

/-- the two clipping conventions agree as soon as the bounds are not NaN -/
theorem XR.clipPy_eq_clipNp (x lo hi : XR α) (hlo : lo.isNaN = false) (hhi : hi.isNaN = false) :
    XR.clipPy x lo hi = XR.clipNp x lo hi := by
  cases hx : x.isNaN
  · unfold XR.clipPy XR.clipNp
    rcases XR.maxNp_cases x lo hx hlo with ⟨e, h⟩ | ⟨e, h⟩
    · rw [e]; simp only [h]
      rcases XR.minNp_cases x hi hx hhi with ⟨e2, h2⟩ | ⟨e2, h2⟩ <;> simp [e2, h2]
    · rw [e]; simp only [h]
      rcases XR.minNp_cases lo hi hlo hhi with ⟨e2, h2⟩ | ⟨e2, h2⟩ <;> simp [e2, h2]
  · have : x = .nan := by cases x <;> simp_all [XR.isNaN]
    subst this; rw [XR.clipPy_nan, XR.clipNp_nan]

theorem XR.clipNp_within (x lo hi : XR α) (hx : x.isNaN = false) (hlo : lo.isNaN = false)
    (hhi : hi.isNaN = false) (hb : XR.lt hi lo = false) :
    XR.within (XR.clipNp x lo hi) lo hi = true := by
  unfold XR.clipNp
  rcases XR.maxNp_cases x lo hx hlo with ⟨e, h⟩ | ⟨e, h⟩ <;> rw [e]
  · rcases XR.minNp_cases x hi hx hhi with ⟨e2, h2⟩ | ⟨e2, h2⟩ <;> rw [e2] <;> simp [XR.within, *]
  · rcases XR.minNp_cases lo hi hlo hhi with ⟨e2, h2⟩ | ⟨e2, h2⟩ <;> rw [e2] <;> simp_all [XR.within]

/-- a value already inside the interval is returned unchanged -/
theorem XR.clipNp_of_within (x lo hi : XR α) (hlo : lo.isNaN = false) (hhi : hi.isNaN = false)
    (h : XR.within x lo hi = true) : XR.clipNp x lo hi = x := by
  simp only [XR.within, Bool.and_eq_true, Bool.not_eq_true'] at h
  obtain ⟨⟨hx, h1⟩, h2⟩ := h
  simp [XR.clipNp, XR.maxNp, XR.minNp, hx, h1, h2, hlo, hhi]

/-- clipped exactly when strictly outside -/
theorem XR.clipNp_ne_iff (x lo hi : XR α) (hx : x.isNaN = false) (hlo : lo.isNaN = false)
    (hhi : hi.isNaN = false) (hb : XR.lt hi lo = false) :
    XR.clipNp x lo hi ≠ x ↔ XR.outside x lo hi = true := by
  unfold XR.clipNp XR.outside
  rcases XR.maxNp_cases x lo hx hlo with ⟨e, h⟩ | ⟨e, h⟩ <;> rw [e]
  · rcases XR.minNp_cases x hi hx hhi with ⟨e2, h2⟩ | ⟨e2, h2⟩ <;> rw [e2] <;> simp [h, h2]
    exact XR.ne_of_lt h2
  · rcases XR.minNp_cases lo hi hlo hhi with ⟨e2, h2⟩ | ⟨e2, h2⟩ <;> rw [e2] <;> simp_all
    exact (XR.ne_of_lt h).symm

end xr

section eps
variable {α : Type} [LinearOrder α] [AddCommGroup α] [IsOrderedAddMonoid α]

theorem XR.lt_of_lt_subEps {eps : α} (heps : 0 ≤ eps) (x lo : XR α)
    (h : XR.lt x (lo.subEps eps) = true) : XR.lt x lo = true := by
  cases x <;> cases lo <;> simp_all [XR.lt, XR.subEps]
  exact lt_of_lt_of_le h (sub_le_self _ heps)

theorem XR.lt_of_addEps_lt {eps : α} (heps : 0 ≤ eps) (x hi : XR α)
    (h : XR.lt (hi.addEps eps) x = true) : XR.lt hi x = true := by
  cases x <;> cases hi <;> simp_all [XR.lt, XR.addEps]
  exact lt_of_le_of_lt (le_add_of_nonneg_right heps) h

/-- the margin test never fires where the plain test does not -/
theorem XR.outside_of_outsideEps {eps : α} (heps : 0 ≤ eps) (x lo hi : XR α)
    (h : XR.outsideEps eps x lo hi = true) : XR.outside x lo hi = true := by
  simp only [XR.outsideEps, XR.outside, Bool.or_eq_true] at *
  rcases h with h | h
  · exact Or.inl (XR.lt_of_lt_subEps heps _ _ h)
  · exact Or.inr (XR.lt_of_addEps_lt heps _ _ h)

theorem XR.outsideEps_false_of_ok {eps : α} (heps : 0 ≤ eps) (an : Bool) (x lo hi : XR α)
    (h : okElem an x lo hi = true) : XR.outsideEps eps x lo hi = false := by
  by_contra hc
  have ho := XR.outside_of_outsideEps heps x lo hi (by simpa using hc)
  simp only [okElem, XR.within, XR.outside, Bool.or_eq_true, Bool.and_eq_true, Bool.not_eq_true'] at h ho
  rcases h with ⟨hx, _⟩ | ⟨⟨_, h1⟩, h2⟩
  · have : x = .nan := by cases x <;> simp_all [XR.isNaN]
    subst this; cases lo <;> cases hi <;> simp [XR.lt] at ho
  · rcases ho with ho | ho <;> simp_all
end eps

section lists
variable {α : Type} [LinearOrder α]

theorem map3_length {β γ : Type} (f : β → β → β → γ) (n : Nat) :
    ∀ (a b c : List β), a.length = n → b.length = n → c.length = n → (map3 f a b c).length = n := by
  induction n with
  | zero => intro a b c ha hb hc; cases a <;> simp_all [map3]
  | succ n ih =>
    intro a b c ha hb hc
    cases a <;> cases b <;> cases c <;> simp_all [map3]

theorem clipAll_length (n : Nat) (xs lo hi : List (XR α)) (h1 : xs.length = n) (h2 : lo.length = n)
    (h3 : hi.length = n) : (clipAll xs lo hi).length = n := map3_length _ n xs lo hi h1 h2 h3

theorem XR.isNaN_eq_nan {x : XR α} (h : x.isNaN = true) : x = .nan := by
  cases x <;> simp_all [XR.isNaN]

theorem okElem_clipNp (an : Bool) (x l h : XR α) (hb : boundElem l h = true) (hx : x.isNaN = true → an = true) :
    okElem an (XR.clipNp x l h) l h = true := by
  simp only [boundElem, Bool.and_eq_true, Bool.not_eq_true'] at hb
  obtain ⟨⟨hl, hh⟩, hlt⟩ := hb
  cases hn : x.isNaN
  · simp [okElem, XR.clipNp_within x l h hn hl hh hlt]
  · have := XR.isNaN_eq_nan hn; subst this
    simp [okElem, XR.clipNp_nan, XR.isNaN, hx hn]

/-- `np.clip` re-establishes the value invariant (whatever the lengths: `map3` / `all3` truncate alike) -/
theorem valuesOk_clipAll (an : Bool) : ∀ (xs lo hi : List (XR α)), boundsOk lo hi = true →
    (xs.any XR.isNaN = true → an = true) → valuesOk an (clipAll xs lo hi) lo hi = true := by
  intro xs
  induction xs with
  | nil => intro lo hi _ _; simp [clipAll, map3, valuesOk, all3]
  | cons x xs ih =>
    intro lo hi hb hn
    cases lo with
    | nil => simp [clipAll, map3, valuesOk, all3]
    | cons l lo =>
      cases hi with
      | nil => simp [clipAll, map3, valuesOk, all3]
      | cons h hi =>
        simp only [boundsOk, all2, Bool.and_eq_true] at hb
        simp only [clipAll, map3, valuesOk, all3, Bool.and_eq_true]
        refine ⟨okElem_clipNp an x l h hb.1 (fun hx => hn (by simp [hx])), ?_⟩
        exact ih lo hi hb.2 (fun hx => hn (by simp only [List.any_cons, hx, Bool.or_true]))

theorem okElem_clip_self (an : Bool) (x l h : XR α) (hb : boundElem l h = true) (hx : okElem an x l h = true) :
    XR.clipNp x l h = x := by
  simp only [boundElem, Bool.and_eq_true, Bool.not_eq_true'] at hb
  simp only [okElem, Bool.or_eq_true, Bool.and_eq_true] at hx
  rcases hx with ⟨hn, _⟩ | hw
  · have := XR.isNaN_eq_nan hn; subst this; exact XR.clipNp_nan _ _
  · exact XR.clipNp_of_within x l h hb.1.1 hb.1.2 hw

/-- values that already satisfy the invariant are returned unchanged by the clipping -/
theorem clipAll_eq_self (an : Bool) : ∀ (xs lo hi : List (XR α)), boundsOk lo hi = true →
    valuesOk an xs lo hi = true → xs.length = lo.length → xs.length = hi.length → clipAll xs lo hi = xs := by
  intro xs
  induction xs with
  | nil => intro lo hi _ _ _ _; cases lo <;> cases hi <;> simp [clipAll, map3]
  | cons x xs ih =>
    intro lo hi hb hv h1 h2
    cases lo with
    | nil => simp at h1
    | cons l lo =>
      cases hi with
      | nil => simp at h2
      | cons h hi =>
        simp only [boundsOk, all2, Bool.and_eq_true] at hb
        simp only [valuesOk, all3, Bool.and_eq_true] at hv
        simp only [clipAll, map3, List.cons.injEq]
        exact ⟨okElem_clip_self an x l h hb.1 hv.1, ih lo hi hb.2 hv.2 (by simpa using h1) (by simpa using h2)⟩

theorem all3_set {β : Type} (p : β → β → β → Bool) : ∀ (xs lo hi : List β) (i : Nat) (x l h : β),
    all3 p xs lo hi = true → lo[i]? = some l → hi[i]? = some h → p x l h = true →
    all3 p (xs.set i x) lo hi = true := by
  intro xs
  induction xs with
  | nil => intro lo hi i x l h _ _ _ _; simp [all3]
  | cons y ys ih =>
    intro lo hi i x l h ha hl hh hp
    cases lo with
    | nil => simp at hl
    | cons l0 lo =>
      cases hi with
      | nil => simp at hh
      | cons h0 hi =>
        simp only [all3, Bool.and_eq_true] at ha
        cases i with
        | zero =>
          simp only [List.getElem?_cons_zero, Option.some.injEq] at hl hh
          subst hl; subst hh
          simp [all3, hp, ha.2]
        | succ i =>
          simp only [List.getElem?_cons_succ] at hl hh
          simp only [List.set_cons_succ, all3, Bool.and_eq_true]
          exact ⟨ha.1, ih lo hi i x l h ha.2 hl hh hp⟩

theorem all2_get {β : Type} (p : β → β → Bool) : ∀ (lo hi : List β) (i : Nat) (l h : β),
    all2 p lo hi = true → lo[i]? = some l → hi[i]? = some h → p l h = true := by
  intro lo
  induction lo with
  | nil => intro hi i l h _ hl; simp at hl
  | cons l0 lo ih =>
    intro hi i l h ha hl hh
    cases hi with
    | nil => simp at hh
    | cons h0 hi =>
      simp only [all2, Bool.and_eq_true] at ha
      cases i with
      | zero => simp only [List.getElem?_cons_zero, Option.some.injEq] at hl hh; subst hl; subst hh; exact ha.1
      | succ i => simp only [List.getElem?_cons_succ] at hl hh; exact ih hi i l h ha.2 hl hh

theorem all3_get {β : Type} (p : β → β → β → Bool) : ∀ (xs lo hi : List β) (i : Nat) (x l h : β),
    all3 p xs lo hi = true → xs[i]? = some x → lo[i]? = some l → hi[i]? = some h → p x l h = true := by
  intro xs
  induction xs with
  | nil => intro lo hi i x l h _ hx; simp at hx
  | cons y ys ih =>
    intro lo hi i x l h ha hx hl hh
    cases lo with
    | nil => simp at hl
    | cons l0 lo =>
      cases hi with
      | nil => simp at hh
      | cons h0 hi =>
        simp only [all3, Bool.and_eq_true] at ha
        cases i with
        | zero =>
          simp only [List.getElem?_cons_zero, Option.some.injEq] at hx hl hh
          subst hx; subst hl; subst hh; exact ha.1
        | succ i => simp only [List.getElem?_cons_succ] at hx hl hh; exact ih lo hi i x l h ha.2 hx hl hh

theorem clipAll_inf (n : Nat) : ∀ (m : List (XR α)), m.length = n →
    clipAll m (List.replicate n .ninf) (List.replicate n .pinf) = m := by
  induction n with
  | zero => intro m h; cases m <;> simp_all [clipAll, map3]
  | succ n ih =>
    intro m h
    cases m with
    | nil => simp at h
    | cons x m =>
      simp only [List.replicate_succ, clipAll, map3, XR.clipNp_inf, List.cons.injEq, true_and]
      exact ih m (by simpa using h)

/-- `maxs` after the constructor's clipping against `mins`: a real interval in every position -/
theorem boundsOk_clip_maxs (n : Nat) : ∀ (lo m : List (XR α)), lo.length = n → m.length = n →
    lo.any XR.isNaN = false → m.any XR.isNaN = false →
    boundsOk lo (clipAll m lo (List.replicate n .pinf)) = true := by
  induction n with
  | zero => intro lo m h1 h2 _ _; cases lo <;> cases m <;> simp_all [boundsOk, all2, clipAll, map3]
  | succ n ih =>
    intro lo m h1 h2 hl hm
    cases lo with
    | nil => simp at h1
    | cons l lo =>
      cases m with
      | nil => simp at h2
      | cons x m =>
        simp only [List.any_cons, Bool.or_eq_false_iff] at hl hm
        simp only [List.replicate_succ, clipAll, map3, boundsOk, all2, Bool.and_eq_true]
        refine ⟨?_, ih lo m (by simpa using h1) (by simpa using h2) hl.2 hm.2⟩
        have hw := XR.clipNp_within x l .pinf hm.1 hl.1 (by simp [XR.isNaN]) (by cases l <;> simp [XR.lt])
        simp only [XR.within, Bool.and_eq_true, Bool.not_eq_true'] at hw
        simp [boundElem, hl.1, hw.1.1, hw.1.2]

theorem boundsOk_replicate (n : Nat) :
    boundsOk (List.replicate n (.ninf : XR α)) (List.replicate n .pinf) = true := by
  induction n with
  | zero => simp [boundsOk, all2]
  | succ n ih => simpa [List.replicate_succ, boundsOk, all2, boundElem, XR.isNaN, XR.lt] using ih

theorem any_isNaN_replicate (n : Nat) (x : XR α) (hx : x.isNaN = false) :
    (List.replicate n x).any XR.isNaN = false := by
  induction n with
  | zero => simp
  | succ n ih => simp [List.replicate_succ, hx, ih]

/-- no NaN among the bounds that `boundsOk` accepts -/
theorem boundsOk_noNaN : ∀ (lo hi : List (XR α)), boundsOk lo hi = true → lo.length = hi.length →
    lo.any XR.isNaN = false ∧ hi.any XR.isNaN = false := by
  intro lo
  induction lo with
  | nil => intro hi _ h; cases hi <;> simp_all
  | cons l lo ih =>
    intro hi hb h
    cases hi with
    | nil => simp at h
    | cons h0 hi =>
      simp only [boundsOk, all2, Bool.and_eq_true, boundElem, Bool.not_eq_true'] at hb
      have := ih hi (by simpa [boundsOk] using hb.2) (by simpa using h)
      simp [hb.1.1.1, hb.1.1.2, this.1, this.2]

end lists

section lists_eps
variable {α : Type} [LinearOrder α] [AddCommGroup α] [IsOrderedAddMonoid α]

/-- values satisfying the invariant never trigger the constructor / setter hit test -/
theorem hitAll_false_of_ok {eps : α} (heps : 0 ≤ eps) (an : Bool) : ∀ (xs lo hi : List (XR α)),
    valuesOk an xs lo hi = true → hitAll eps xs lo hi = false := by
  intro xs
  induction xs with
  | nil => intro lo hi _; simp [hitAll, any3]
  | cons x xs ih =>
    intro lo hi hv
    cases lo with
    | nil => simp [hitAll, any3]
    | cons l lo =>
      cases hi with
      | nil => simp [hitAll, any3]
      | cons h hi =>
        simp only [valuesOk, all3, Bool.and_eq_true] at hv
        simp only [hitAll, any3, Bool.or_eq_false_iff]
        exact ⟨XR.outsideEps_false_of_ok heps an x l h hv.1, ih lo hi hv.2⟩
end lists_eps

/-! ### the store -/
section store
variable {α : Type}

@[simp] theorem alloc_next (s : Store α) (a : List (XR α)) : (s.alloc a).1.next = s.next + 1 := rfl
@[simp] theorem alloc_ref (s : Store α) (a : List (XR α)) : (s.alloc a).2 = s.next := rfl
theorem alloc_cells_old (s : Store α) (a : List (XR α)) (r : Nat) (h : r < s.next) :
    (s.alloc a).1.cells r = s.cells r := by
  have : r ≠ s.next := Nat.ne_of_lt h
  simp [Store.alloc, this]
@[simp] theorem alloc_cells_new (s : Store α) (a : List (XR α)) : (s.alloc a).1.cells s.next = a := by
  simp [Store.alloc]
@[simp] theorem write_next (s : Store α) (r : Nat) (i : Nat) (x : XR α) : (s.write r i x).next = s.next := rfl
theorem write_cells_ne (s : Store α) (r r' : Nat) (i : Nat) (x : XR α) (h : r' ≠ r) :
    (s.write r i x).cells r' = s.cells r' := by simp [Store.write, h]
@[simp] theorem write_cells_eq (s : Store α) (r : Nat) (i : Nat) (x : XR α) :
    (s.write r i x).cells r = (s.cells r).set i x := by simp [Store.write]
end store

/-! ### invariants -/
section inv
variable {α : Type} [LinearOrder α]

/-- a vector is well formed in a store: its four arrays are allocated, pairwise distinct, of length `nval`;
names are unique; bounds are real intervals; defaults and values lie inside them (NaN only with permission);
the option flags are consistent and an unmaintained hit flag is off -/
structure VecOk (s : Store α) (v : Vec) : Prop where
  lt_next : ∀ r ∈ v.refs, r < s.next
  nodup : v.refs.Nodup
  len_values : (s.cells v.values).length = v.n
  len_mins : (s.cells v.mins).length = v.n
  len_maxs : (s.cells v.maxs).length = v.n
  len_defaults : (s.cells v.defaults).length = v.n
  names : nodupB v.names = true
  bounds : boundsOk (s.cells v.mins) (s.cells v.maxs) = true
  defaults_ok : valuesOk v.acceptNan (s.cells v.defaults) (s.cells v.mins) (s.cells v.maxs) = true
  values_ok : valuesOk v.acceptNan (s.cells v.values) (s.cells v.mins) (s.cells v.maxs) = true
  flags : v.checkHit = true → v.checkBounds = true
  hit_off : v.checkHit = false → v.hit = false

/-- all vectors well formed, and no array shared between two vectors -/
structure WorldOk (w : World α) : Prop where
  each : ∀ (k : Nat) (v : Vec), w.vecs[k]? = some v → VecOk w.store v
  sep : ∀ (i j : Nat) (vi vj : Vec), w.vecs[i]? = some vi → w.vecs[j]? = some vj → i ≠ j → ∀ r ∈ vi.refs, r ∉ vj.refs

theorem VecOk.congr {s s' : Store α} {v : Vec} (h : VecOk s v) (hn : s.next ≤ s'.next)
    (hc : ∀ r ∈ v.refs, s'.cells r = s.cells r) : VecOk s' v := by
  have e1 := hc v.values (by simp [Vec.refs])
  have e2 := hc v.mins (by simp [Vec.refs])
  have e3 := hc v.maxs (by simp [Vec.refs])
  have e4 := hc v.defaults (by simp [Vec.refs])
  exact { lt_next := fun r hr => Nat.lt_of_lt_of_le (h.lt_next r hr) hn
          nodup := h.nodup
          len_values := by rw [e1]; exact h.len_values
          len_mins := by rw [e2]; exact h.len_mins
          len_maxs := by rw [e3]; exact h.len_maxs
          len_defaults := by rw [e4]; exact h.len_defaults
          names := h.names
          bounds := by rw [e2, e3]; exact h.bounds
          defaults_ok := by rw [e4, e2, e3]; exact h.defaults_ok
          values_ok := by rw [e1, e2, e3]; exact h.values_ok
          flags := h.flags
          hit_off := h.hit_off }

/-- the footprint of an accepted assignment on `v` -/
structure Assign (s : Store α) (v : Vec) (s' : Store α) (v' : Vec) : Prop where
  next_le : s.next ≤ s'.next
  frame : ∀ r, r < s.next → r ≠ v.values → s'.cells r = s.cells r
  values_ref : v'.values = v.values ∨ s.next ≤ v'.values
  names : v'.names = v.names
  mins : v'.mins = v.mins
  maxs : v'.maxs = v.maxs
  defaults : v'.defaults = v.defaults
  checkBounds : v'.checkBounds = v.checkBounds
  checkHit : v'.checkHit = v.checkHit
  acceptNan : v'.acceptNan = v.acceptNan

/-- the footprint of an operation that only allocates a new vector -/
structure Spawn (s s' : Store α) (c : Vec) : Prop where
  next_le : s.next ≤ s'.next
  frame : ∀ r, r < s.next → s'.cells r = s.cells r
  fresh : ∀ r ∈ c.refs, s.next ≤ r

theorem indexOf_lt (nm : String) : ∀ (l : List String) (i : Nat), indexOf nm l = some i → i < l.length := by
  intro l
  induction l with
  | nil => intro i h; simp [indexOf] at h
  | cons a t ih =>
    intro i h
    simp only [indexOf] at h
    split at h
    · simp at h; subst h; simp
    · cases hi : indexOf nm t with
      | none => simp [hi] at h
      | some j => simp [hi] at h; have := ih j hi; simp; omega

theorem getElem?_of_lt {β : Type} (l : List β) (i : Nat) (h : i < l.length) : ∃ x, l[i]? = some x :=
  ⟨l[i], List.getElem?_eq_getElem h⟩

end inv

/-! ### single-vector operations -/
section ops
variable {α : Type} [LinearOrder α] [Add α] [Sub α]

theorem VecOk.distinct {s : Store α} {v : Vec} (h : VecOk s v) :
    v.values ≠ v.mins ∧ v.values ≠ v.maxs ∧ v.values ≠ v.defaults ∧ v.mins ≠ v.maxs ∧ v.mins ≠ v.defaults
      ∧ v.maxs ≠ v.defaults := by
  have := h.nodup
  simp only [Vec.refs, List.nodup_cons, List.mem_cons, List.mem_singleton, not_or, List.not_mem_nil,
    not_false_eq_true, List.nodup_nil, and_true] at this
  tauto

theorem Assign.refl (s : Store α) (v : Vec) : Assign s v s v :=
  ⟨Nat.le_refl _, fun _ _ _ => rfl, Or.inl rfl, rfl, rfl, rfl, rfl, rfl, rfl, rfl⟩

theorem setAttr_effect {s s' : Store α} {v v' : Vec} (h : VecOk s v) (nm : String) (x : XR α)
    (e : setAttr s v nm x = ((s', v'), .ok)) : Assign s v s' v' ∧ VecOk s' v' := by
  unfold setAttr at e
  split at e
  · simp only [Prod.mk.injEq, and_true] at e; obtain ⟨rfl, rfl⟩ := e
    exact ⟨Assign.refl _ _, h⟩
  · rename_i i hi
    split at e
    · simp at e
    · rename_i hnan
      split at e
      · rename_i lo hi hlo hhi
        simp only [Prod.mk.injEq, and_true] at e; obtain ⟨rfl, rfl⟩ := e
        obtain ⟨d1, d2, d3, d4, d5, d6⟩ := h.distinct
        have hb := all2_get boundElem _ _ i lo hi h.bounds hlo hhi
        have hb' := hb
        simp only [boundElem, Bool.and_eq_true, Bool.not_eq_true'] at hb'
        have hx : x.isNaN = true → v.acceptNan = true := by
          intro hx; cases ha : v.acceptNan <;> simp_all
        have hok : okElem v.acceptNan (XR.clipPy x lo hi) lo hi = true := by
          rw [XR.clipPy_eq_clipNp x lo hi hb'.1.1 hb'.1.2]; exact okElem_clipNp _ x lo hi hb hx
        refine ⟨⟨Nat.le_refl _, fun r _ hr => write_cells_ne _ _ _ _ _ hr, Or.inl rfl, rfl, rfl, rfl, rfl, rfl, rfl, rfl⟩, ?_⟩
        have c2 := write_cells_ne s v.values v.mins i (XR.clipPy x lo hi) d1.symm
        have c3 := write_cells_ne s v.values v.maxs i (XR.clipPy x lo hi) d2.symm
        have c4 := write_cells_ne s v.values v.defaults i (XR.clipPy x lo hi) d3.symm
        exact { lt_next := h.lt_next
                nodup := h.nodup
                len_values := by
                  show ((s.write _ _ _).cells v.values).length = v.names.length
                  rw [write_cells_eq, List.length_set]; exact h.len_values
                len_mins := by show ((s.write _ _ _).cells v.mins).length = _; rw [c2]; exact h.len_mins
                len_maxs := by show ((s.write _ _ _).cells v.maxs).length = _; rw [c3]; exact h.len_maxs
                len_defaults := by show ((s.write _ _ _).cells v.defaults).length = _; rw [c4]; exact h.len_defaults
                names := h.names
                bounds := by show boundsOk ((s.write _ _ _).cells v.mins) ((s.write _ _ _).cells v.maxs) = _
                             rw [c2, c3]; exact h.bounds
                defaults_ok := by
                  show valuesOk _ ((s.write _ _ _).cells v.defaults) ((s.write _ _ _).cells v.mins)
                    ((s.write _ _ _).cells v.maxs) = _
                  rw [c2, c3, c4]; exact h.defaults_ok
                values_ok := by
                  show valuesOk _ ((s.write _ _ _).cells v.values) ((s.write _ _ _).cells v.mins)
                    ((s.write _ _ _).cells v.maxs) = _
                  rw [c2, c3, write_cells_eq]
                  exact all3_set _ _ _ _ i _ lo hi h.values_ok hlo hhi hok
                flags := h.flags
                hit_off := by
                  intro hc
                  have hc' : v.checkHit = false := hc
                  simp [hc', h.hit_off hc'] }
      · simp at e

/-- under `VecOk` the index error branch of `setAttr` is dead -/
theorem setAttr_no_index {s : Store α} {v : Vec} (h : VecOk s v) (nm : String) (x : XR α) :
    (setAttr s v nm x).2 ≠ .rejected .index := by
  unfold setAttr
  split
  · simp
  · rename_i i hi
    split
    · simp
    · have hlt := indexOf_lt nm v.names i hi
      obtain ⟨lo, hlo⟩ := getElem?_of_lt (s.cells v.mins) i (by rw [h.len_mins]; exact hlt)
      obtain ⟨hi', hhi⟩ := getElem?_of_lt (s.cells v.maxs) i (by rw [h.len_maxs]; exact hlt)
      simp [hlo, hhi]

theorem setKey_effect {s s' : Store α} {v v' : Vec} (h : VecOk s v) (nm : String) (x : XR α)
    (e : setKey s v nm x = ((s', v'), .ok)) : Assign s v s' v' ∧ VecOk s' v' := by
  unfold setKey at e
  split at e
  · simp at e
  · exact setAttr_effect h nm x e

theorem reject?_none {an : Bool} {n : Nat} {xs : List (XR α)} (h : reject? an n xs = none) :
    xs.length = n ∧ (xs.any XR.isNaN = true → an = true) := by
  unfold reject? at h
  split at h
  · simp at h
  · split at h
    · simp at h
    · rename_i h1 h2
      refine ⟨by simpa using h1, fun hx => ?_⟩
      cases an <;> simp_all

theorem setAll_effect (eps : α) {s s' : Store α} {v v' : Vec} (h : VecOk s v) (xs : List (XR α))
    (e : setAll eps s v xs = ((s', v'), .ok)) : Assign s v s' v' ∧ VecOk s' v' := by
  unfold setAll at e
  split at e
  · simp at e
  · rename_i hrej
    obtain ⟨hlen, hnan⟩ := reject?_none hrej
    simp only [Prod.mk.injEq, and_true] at e; obtain ⟨rfl, rfl⟩ := e
    have hr := h.lt_next
    simp only [Vec.refs, List.mem_cons, List.mem_singleton, List.not_mem_nil, or_false, forall_eq_or_imp, forall_eq] at hr
    obtain ⟨r1, r2, r3, r4⟩ := hr
    obtain ⟨d1, d2, d3, d4, d5, d6⟩ := h.distinct
    set a := clipAll xs (s.cells v.mins) (s.cells v.maxs) with ha
    have c2 := alloc_cells_old s a v.mins r2
    have c3 := alloc_cells_old s a v.maxs r3
    have c4 := alloc_cells_old s a v.defaults r4
    refine ⟨⟨by simp, fun r hr _ => alloc_cells_old s a r hr, Or.inr (by simp), rfl, rfl, rfl, rfl, rfl, rfl, rfl⟩, ?_⟩
    exact { lt_next := by
              intro r hr
              simp only [Vec.refs, List.mem_cons, List.mem_singleton, List.not_mem_nil, or_false, alloc_ref] at hr
              simp only [alloc_next]
              rcases hr with e | e | e | e <;> rw [e] <;> omega
            nodup := by
              simp only [Vec.refs, alloc_ref, List.nodup_cons, List.mem_cons, List.mem_singleton, not_or,
                List.not_mem_nil, not_false_eq_true, List.nodup_nil, and_true]
              refine ⟨⟨?_, ?_, ?_⟩, ⟨d4, d5⟩, d6⟩ <;> omega
            len_values := by
              show ((s.alloc a).1.cells s.next).length = _
              rw [alloc_cells_new]; exact clipAll_length _ _ _ _ hlen h.len_mins h.len_maxs
            len_mins := by show ((s.alloc a).1.cells v.mins).length = _; rw [c2]; exact h.len_mins
            len_maxs := by show ((s.alloc a).1.cells v.maxs).length = _; rw [c3]; exact h.len_maxs
            len_defaults := by show ((s.alloc a).1.cells v.defaults).length = _; rw [c4]; exact h.len_defaults
            names := h.names
            bounds := by
              show boundsOk ((s.alloc a).1.cells v.mins) ((s.alloc a).1.cells v.maxs) = _
              rw [c2, c3]; exact h.bounds
            defaults_ok := by
              show valuesOk _ ((s.alloc a).1.cells v.defaults) ((s.alloc a).1.cells v.mins) ((s.alloc a).1.cells v.maxs) = _
              rw [c2, c3, c4]; exact h.defaults_ok
            values_ok := by
              show valuesOk _ ((s.alloc a).1.cells s.next) ((s.alloc a).1.cells v.mins) ((s.alloc a).1.cells v.maxs) = _
              rw [c2, c3, alloc_cells_new]
              exact valuesOk_clipAll _ _ _ _ h.bounds hnan
            flags := h.flags
            hit_off := by
              intro hc
              have hc' : v.checkHit = false := hc
              simp [hc'] }

theorem reset_effect (eps : α) {s s' : Store α} {v v' : Vec} (h : VecOk s v)
    (e : reset eps s v = ((s', v'), .ok)) : Assign s v s' v' ∧ VecOk s' v' :=
  setAll_effect eps h _ e

end ops

end HydroVerif.C12
