/-
C12 — helper lemmas (not property statements): IEEE-style comparison / clipping on `XR`, element-wise list
helpers, allocation frames of the array store.
-/
import HydroVerif.Model.C12
import Mathlib.Order.Defs.LinearOrder
import Mathlib.Order.Basic
import Mathlib.Algebra.Order.Group.Defs
import Mathlib.Algebra.Order.Monoid.Defs
import Mathlib.Tactic.Order
import Mathlib.Data.List.Basic

set_option linter.unusedSimpArgs false
set_option linter.unusedVariables false
namespace HydroVerif.C12
open XR

section xr
variable {α : Type} [LinearOrder α]

@[simp] theorem XR.lt_self (x : XR α) : XR.lt x x = false := by
  cases x <;> simp [XR.lt]

theorem XR.clipNp_nan (lo hi : XR α) : XR.clipNp .nan lo hi = .nan := by
  simp [XR.clipNp, XR.maxNp, XR.minNp, XR.isNaN]

theorem XR.clipPy_nan (lo hi : XR α) : XR.clipPy .nan lo hi = .nan := by
  cases lo <;> cases hi <;> simp [XR.clipPy, XR.lt]

theorem XR.clipNp_inf (x : XR α) : XR.clipNp x .ninf .pinf = x := by
  cases x <;> simp [XR.clipNp, XR.maxNp, XR.minNp, XR.isNaN, XR.lt]

theorem XR.ne_of_lt {x y : XR α} (h : XR.lt x y = true) : x ≠ y := by
  intro e; subst e; simp at h

theorem XR.maxNp_cases (a b : XR α) (ha : a.isNaN = false) (hb : b.isNaN = false) :
    (XR.maxNp a b = a ∧ XR.lt a b = false) ∨ (XR.maxNp a b = b ∧ XR.lt a b = true) := by
  unfold XR.maxNp; simp only [ha, hb]; cases h : XR.lt a b <;> simp

theorem XR.minNp_cases (a b : XR α) (ha : a.isNaN = false) (hb : b.isNaN = false) :
    (XR.minNp a b = a ∧ XR.lt b a = false) ∨ (XR.minNp a b = b ∧ XR.lt b a = true) := by
  unfold XR.minNp; simp only [ha, hb]; cases h : XR.lt b a <;> simp

/-- the two clipping conventions agree as soon as the bounds are not NaN -/
theorem XR.clipPy_eq_clipNp (x lo hi : XR α) (hlo : lo.isNaN = false) (hhi : hi.isNaN = false) :
    XR.clipPy x lo hi = XR.clipNp x lo hi := by
  cases hx : x.isNaN
  · unfold XR.clipPy XR.clipNp
    rcases XR.maxNp_cases x lo hx hlo with ⟨e, h⟩ | ⟨e, h⟩
    · rw [e]; simp only [h]
      rcases XR.minNp_cases x hi hx hhi with ⟨e2, h2⟩ | ⟨e2, h2⟩ <;> simp [e2, h2]
    · rw [e]; simp only [h]
      rcases XR.minNp_cases lo hi hlo hhi with ⟨e2, h2⟩ | ⟨e2, h2⟩ <;> simp [e2, h2]
  · have : x = .nan := by cases x <;> simp_all [XR.isNaN]
    subst this; rw [XR.clipPy_nan, XR.clipNp_nan]

theorem XR.clipNp_within (x lo hi : XR α) (hx : x.isNaN = false) (hlo : lo.isNaN = false)
    (hhi : hi.isNaN = false) (hb : XR.lt hi lo = false) :
    XR.within (XR.clipNp x lo hi) lo hi = true := by
  unfold XR.clipNp
  rcases XR.maxNp_cases x lo hx hlo with ⟨e, h⟩ | ⟨e, h⟩ <;> rw [e]
  · rcases XR.minNp_cases x hi hx hhi with ⟨e2, h2⟩ | ⟨e2, h2⟩ <;> rw [e2] <;> simp [XR.within, *]
  · rcases XR.minNp_cases lo hi hlo hhi with ⟨e2, h2⟩ | ⟨e2, h2⟩ <;> rw [e2] <;> simp_all [XR.within]

/-- a value already inside the interval is returned unchanged -/
theorem XR.clipNp_of_within (x lo hi : XR α) (hlo : lo.isNaN = false) (hhi : hi.isNaN = false)
    (h : XR.within x lo hi = true) : XR.clipNp x lo hi = x := by
  simp only [XR.within, Bool.and_eq_true, Bool.not_eq_true'] at h
  obtain ⟨⟨hx, h1⟩, h2⟩ := h
  simp [XR.clipNp, XR.maxNp, XR.minNp, hx, h1, h2, hlo, hhi]

/-- clipped exactly when strictly outside -/
theorem XR.clipNp_ne_iff (x lo hi : XR α) (hx : x.isNaN = false) (hlo : lo.isNaN = false)
    (hhi : hi.isNaN = false) (hb : XR.lt hi lo = false) :
    XR.clipNp x lo hi ≠ x ↔ XR.outside x lo hi = true := by
  unfold XR.clipNp XR.outside
  rcases XR.maxNp_cases x lo hx hlo with ⟨e, h⟩ | ⟨e, h⟩ <;> rw [e]
  · rcases XR.minNp_cases x hi hx hhi with ⟨e2, h2⟩ | ⟨e2, h2⟩ <;> rw [e2] <;> simp [h, h2]
    exact XR.ne_of_lt h2
  · rcases XR.minNp_cases lo hi hlo hhi with ⟨e2, h2⟩ | ⟨e2, h2⟩ <;> rw [e2] <;> simp_all
    exact (XR.ne_of_lt h).symm

end xr
end HydroVerif.C12
