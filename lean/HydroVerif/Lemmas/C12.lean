/-
C12 — helper lemmas (not property statements): IEEE-style comparison / clipping on `XR`, element-wise list
helpers, allocation frames of the array store.
-/
import HydroVerif.Model.C12
import Mathlib.Order.Defs.LinearOrder
import Mathlib.Order.Basic
import Mathlib.Algebra.Order.Group.Defs
import Mathlib.Algebra.Order.Monoid.Defs
import Mathlib.Tactic.Order
import Mathlib.Data.List.Basic

set_option linter.unusedSimpArgs false
set_option linter.unusedVariables false
namespace HydroVerif.C12
open XR

section xr
variable {α : Type} [LinearOrder α]

@[simp] theorem XR.lt_self (x : XR α) : XR.lt x x = false := by
  cases x <;> simp [XR.lt]

theorem XR.clipNp_nan (lo hi : XR α) : XR.clipNp .nan lo hi = .nan := by
  simp [XR.clipNp, XR.maxNp, XR.minNp, XR.isNaN]

theorem XR.clipPy_nan (lo hi : XR α) : XR.clipPy .nan lo hi = .nan := by
  cases lo <;> cases hi <;> simp [XR.clipPy, XR.lt]

theorem XR.clipNp_inf (x : XR α) : XR.clipNp x .ninf .pinf = x := by
  cases x <;> simp [XR.clipNp, XR.maxNp, XR.minNp, XR.isNaN, XR.lt]

theorem XR.ne_of_lt {x y : XR α} (h : XR.lt x y = true) : x ≠ y := by
  intro e; subst e; simp at h

theorem XR.maxNp_cases (a b : XR α) (ha : a.isNaN = false) (hb : b.isNaN = false) :
    (XR.maxNp a b = a ∧ XR.lt a b = false) ∨ (XR.maxNp a b = b ∧ XR.lt a b = true) := by
  unfold XR.maxNp; simp only [ha, hb]; cases h : XR.lt a b <;> simp

theorem XR.minNp_cases (a b : XR α) (ha : a.isNaN = false) (hb : b.isNaN = false) :
    (XR.minNp a b = a ∧ XR.lt b a = false) ∨ (XR.minNp a b = b ∧ XR.lt b a = true) := by
  unfold XR.minNp; simp only [ha, hb]; cases h : XR.lt b a <;> simp

/-- the two clipping conventions agree as soon as the bounds are not NaN -/
theorem XR.clipPy_eq_clipNp (x lo hi : XR α) (hlo : lo.isNaN = false) (hhi : hi.isNaN = false) :
    XR.clipPy x lo hi = XR.clipNp x lo hi := by
  cases hx : x.isNaN
  · unfold XR.clipPy XR.clipNp
    rcases XR.maxNp_cases x lo hx hlo with ⟨e, h⟩ | ⟨e, h⟩
    · rw [e]; simp only [h]
      rcases XR.minNp_cases x hi hx hhi with ⟨e2, h2⟩ | ⟨e2, h2⟩ <;> simp [e2, h2]
    · rw [e]; simp only [h]
      rcases XR.minNp_cases lo hi hlo hhi with ⟨e2, h2⟩ | ⟨e2, h2⟩ <;> simp [e2, h2]
  · have : x = .nan := by cases x <;> simp_all [XR.isNaN]
    subst this; rw [XR.clipPy_nan, XR.clipNp_nan]

theorem XR.clipNp_within (x lo hi : XR α) (hx : x.isNaN = false) (hlo : lo.isNaN = false)
    (hhi : hi.isNaN = false) (hb : XR.lt hi lo = false) :
    XR.within (XR.clipNp x lo hi) lo hi = true := by
  unfold XR.clipNp
  rcases XR.maxNp_cases x lo hx hlo with ⟨e, h⟩ | ⟨e, h⟩ <;> rw [e]
  · rcases XR.minNp_cases x hi hx hhi with ⟨e2, h2⟩ | ⟨e2, h2⟩ <;> rw [e2] <;> simp [XR.within, *]
  · rcases XR.minNp_cases lo hi hlo hhi with ⟨e2, h2⟩ | ⟨e2, h2⟩ <;> rw [e2] <;> simp_all [XR.within]

/-- a value already inside the interval is returned unchanged -/
theorem XR.clipNp_of_within (x lo hi : XR α) (hlo : lo.isNaN = false) (hhi : hi.isNaN = false)
    (h : XR.within x lo hi = true) : XR.clipNp x lo hi = x := by
  simp only [XR.within, Bool.and_eq_true, Bool.not_eq_true'] at h
  obtain ⟨⟨hx, h1⟩, h2⟩ := h
  simp [XR.clipNp, XR.maxNp, XR.minNp, hx, h1, h2, hlo, hhi]

/-- clipped exactly when strictly outside -/
theorem XR.clipNp_ne_iff (x lo hi : XR α) (hx : x.isNaN = false) (hlo : lo.isNaN = false)
    (hhi : hi.isNaN = false) (hb : XR.lt hi lo = false) :
    XR.clipNp x lo hi ≠ x ↔ XR.outside x lo hi = true := by
  unfold XR.clipNp XR.outside
  rcases XR.maxNp_cases x lo hx hlo with ⟨e, h⟩ | ⟨e, h⟩ <;> rw [e]
  · rcases XR.minNp_cases x hi hx hhi with ⟨e2, h2⟩ | ⟨e2, h2⟩ <;> rw [e2] <;> simp [h, h2]
    exact XR.ne_of_lt h2
  · rcases XR.minNp_cases lo hi hlo hhi with ⟨e2, h2⟩ | ⟨e2, h2⟩ <;> rw [e2] <;> simp_all
    exact (XR.ne_of_lt h).symm

end xr

section eps
variable {α : Type} [LinearOrder α] [AddCommGroup α] [IsOrderedAddMonoid α]

theorem XR.lt_of_lt_subEps {eps : α} (heps : 0 ≤ eps) (x lo : XR α)
    (h : XR.lt x (lo.subEps eps) = true) : XR.lt x lo = true := by
  cases x <;> cases lo <;> simp_all [XR.lt, XR.subEps]
  exact lt_of_lt_of_le h (sub_le_self _ heps)

theorem XR.lt_of_addEps_lt {eps : α} (heps : 0 ≤ eps) (x hi : XR α)
    (h : XR.lt (hi.addEps eps) x = true) : XR.lt hi x = true := by
  cases x <;> cases hi <;> simp_all [XR.lt, XR.addEps]
  exact lt_of_le_of_lt (le_add_of_nonneg_right heps) h

/-- the margin test never fires where the plain test does not -/
theorem XR.outside_of_outsideEps {eps : α} (heps : 0 ≤ eps) (x lo hi : XR α)
    (h : XR.outsideEps eps x lo hi = true) : XR.outside x lo hi = true := by
  simp only [XR.outsideEps, XR.outside, Bool.or_eq_true] at *
  rcases h with h | h
  · exact Or.inl (XR.lt_of_lt_subEps heps _ _ h)
  · exact Or.inr (XR.lt_of_addEps_lt heps _ _ h)

theorem XR.outsideEps_false_of_ok {eps : α} (heps : 0 ≤ eps) (an : Bool) (x lo hi : XR α)
    (h : okElem an x lo hi = true) : XR.outsideEps eps x lo hi = false := by
  by_contra hc
  have ho := XR.outside_of_outsideEps heps x lo hi (by simpa using hc)
  simp only [okElem, XR.within, XR.outside, Bool.or_eq_true, Bool.and_eq_true, Bool.not_eq_true'] at h ho
  rcases h with ⟨hx, _⟩ | ⟨⟨_, h1⟩, h2⟩
  · have : x = .nan := by cases x <;> simp_all [XR.isNaN]
    subst this; cases lo <;> cases hi <;> simp [XR.lt] at ho
  · rcases ho with ho | ho <;> simp_all
end eps

section lists
variable {α : Type} [LinearOrder α]

theorem map3_length {β γ : Type} (f : β → β → β → γ) (n : Nat) :
    ∀ (a b c : List β), a.length = n → b.length = n → c.length = n → (map3 f a b c).length = n := by
  induction n with
  | zero => intro a b c ha hb hc; cases a <;> simp_all [map3]
  | succ n ih =>
    intro a b c ha hb hc
    cases a <;> cases b <;> cases c <;> simp_all [map3]

theorem clipAll_length (n : Nat) (xs lo hi : List (XR α)) (h1 : xs.length = n) (h2 : lo.length = n)
    (h3 : hi.length = n) : (clipAll xs lo hi).length = n := map3_length _ n xs lo hi h1 h2 h3

theorem XR.isNaN_eq_nan {x : XR α} (h : x.isNaN = true) : x = .nan := by
  cases x <;> simp_all [XR.isNaN]

theorem okElem_clipNp (an : Bool) (x l h : XR α) (hb : boundElem l h = true) (hx : x.isNaN = true → an = true) :
    okElem an (XR.clipNp x l h) l h = true := by
  simp only [boundElem, Bool.and_eq_true, Bool.not_eq_true'] at hb
  obtain ⟨⟨hl, hh⟩, hlt⟩ := hb
  cases hn : x.isNaN
  · simp [okElem, XR.clipNp_within x l h hn hl hh hlt]
  · have := XR.isNaN_eq_nan hn; subst this
    simp [okElem, XR.clipNp_nan, XR.isNaN, hx hn]

/-- `np.clip` re-establishes the value invariant (whatever the lengths: `map3` / `all3` truncate alike) -/
theorem valuesOk_clipAll (an : Bool) : ∀ (xs lo hi : List (XR α)), boundsOk lo hi = true →
    (xs.any XR.isNaN = true → an = true) → valuesOk an (clipAll xs lo hi) lo hi = true := by
  intro xs
  induction xs with
  | nil => intro lo hi _ _; simp [clipAll, map3, valuesOk, all3]
  | cons x xs ih =>
    intro lo hi hb hn
    cases lo with
    | nil => simp [clipAll, map3, valuesOk, all3]
    | cons l lo =>
      cases hi with
      | nil => simp [clipAll, map3, valuesOk, all3]
      | cons h hi =>
        simp only [boundsOk, all2, Bool.and_eq_true] at hb
        simp only [clipAll, map3, valuesOk, all3, Bool.and_eq_true]
        refine ⟨okElem_clipNp an x l h hb.1 (fun hx => hn (by simp [hx])), ?_⟩
        exact ih lo hi hb.2 (fun hx => hn (by simp only [List.any_cons, hx, Bool.or_true]))

theorem okElem_clip_self (an : Bool) (x l h : XR α) (hb : boundElem l h = true) (hx : okElem an x l h = true) :
    XR.clipNp x l h = x := by
  simp only [boundElem, Bool.and_eq_true, Bool.not_eq_true'] at hb
  simp only [okElem, Bool.or_eq_true, Bool.and_eq_true] at hx
  rcases hx with ⟨hn, _⟩ | hw
  · have := XR.isNaN_eq_nan hn; subst this; exact XR.clipNp_nan _ _
  · exact XR.clipNp_of_within x l h hb.1.1 hb.1.2 hw

/-- values that already satisfy the invariant are returned unchanged by the clipping -/
theorem clipAll_eq_self (an : Bool) : ∀ (xs lo hi : List (XR α)), boundsOk lo hi = true →
    valuesOk an xs lo hi = true → xs.length = lo.length → xs.length = hi.length → clipAll xs lo hi = xs := by
  intro xs
  induction xs with
  | nil => intro lo hi _ _ _ _; cases lo <;> cases hi <;> simp [clipAll, map3]
  | cons x xs ih =>
    intro lo hi hb hv h1 h2
    cases lo with
    | nil => simp at h1
    | cons l lo =>
      cases hi with
      | nil => simp at h2
      | cons h hi =>
        simp only [boundsOk, all2, Bool.and_eq_true] at hb
        simp only [valuesOk, all3, Bool.and_eq_true] at hv
        simp only [clipAll, map3, List.cons.injEq]
        exact ⟨okElem_clip_self an x l h hb.1 hv.1, ih lo hi hb.2 hv.2 (by simpa using h1) (by simpa using h2)⟩

theorem all3_set {β : Type} (p : β → β → β → Bool) : ∀ (xs lo hi : List β) (i : Nat) (x l h : β),
    all3 p xs lo hi = true → lo[i]? = some l → hi[i]? = some h → p x l h = true →
    all3 p (xs.set i x) lo hi = true := by
  intro xs
  induction xs with
  | nil => intro lo hi i x l h _ _ _ _; simp [all3]
  | cons y ys ih =>
    intro lo hi i x l h ha hl hh hp
    cases lo with
    | nil => simp at hl
    | cons l0 lo =>
      cases hi with
      | nil => simp at hh
      | cons h0 hi =>
        simp only [all3, Bool.and_eq_true] at ha
        cases i with
        | zero =>
          simp only [List.getElem?_cons_zero, Option.some.injEq] at hl hh
          subst hl; subst hh
          simp [all3, hp, ha.2]
        | succ i =>
          simp only [List.getElem?_cons_succ] at hl hh
          simp only [List.set_cons_succ, all3, Bool.and_eq_true]
          exact ⟨ha.1, ih lo hi i x l h ha.2 hl hh hp⟩

theorem all2_get {β : Type} (p : β → β → Bool) : ∀ (lo hi : List β) (i : Nat) (l h : β),
    all2 p lo hi = true → lo[i]? = some l → hi[i]? = some h → p l h = true := by
  intro lo
  induction lo with
  | nil => intro hi i l h _ hl; simp at hl
  | cons l0 lo ih =>
    intro hi i l h ha hl hh
    cases hi with
    | nil => simp at hh
    | cons h0 hi =>
      simp only [all2, Bool.and_eq_true] at ha
      cases i with
      | zero => simp only [List.getElem?_cons_zero, Option.some.injEq] at hl hh; subst hl; subst hh; exact ha.1
      | succ i => simp only [List.getElem?_cons_succ] at hl hh; exact ih hi i l h ha.2 hl hh

theorem all3_get {β : Type} (p : β → β → β → Bool) : ∀ (xs lo hi : List β) (i : Nat) (x l h : β),
    all3 p xs lo hi = true → xs[i]? = some x → lo[i]? = some l → hi[i]? = some h → p x l h = true := by
  intro xs
  induction xs with
  | nil => intro lo hi i x l h _ hx; simp at hx
  | cons y ys ih =>
    intro lo hi i x l h ha hx hl hh
    cases lo with
    | nil => simp at hl
    | cons l0 lo =>
      cases hi with
      | nil => simp at hh
      | cons h0 hi =>
        simp only [all3, Bool.and_eq_true] at ha
        cases i with
        | zero =>
          simp only [List.getElem?_cons_zero, Option.some.injEq] at hx hl hh
          subst hx; subst hl; subst hh; exact ha.1
        | succ i => simp only [List.getElem?_cons_succ] at hx hl hh; exact ih lo hi i x l h ha.2 hx hl hh

theorem clipAll_inf (n : Nat) : ∀ (m : List (XR α)), m.length = n →
    clipAll m (List.replicate n .ninf) (List.replicate n .pinf) = m := by
  induction n with
  | zero => intro m h; cases m <;> simp_all [clipAll, map3]
  | succ n ih =>
    intro m h
    cases m with
    | nil => simp at h
    | cons x m =>
      simp only [List.replicate_succ, clipAll, map3, XR.clipNp_inf, List.cons.injEq, true_and]
      exact ih m (by simpa using h)

/-- `maxs` after the constructor's clipping against `mins`: a real interval in every position -/
theorem boundsOk_clip_maxs (n : Nat) : ∀ (lo m : List (XR α)), lo.length = n → m.length = n →
    lo.any XR.isNaN = false → m.any XR.isNaN = false →
    boundsOk lo (clipAll m lo (List.replicate n .pinf)) = true := by
  induction n with
  | zero => intro lo m h1 h2 _ _; cases lo <;> cases m <;> simp_all [boundsOk, all2, clipAll, map3]
  | succ n ih =>
    intro lo m h1 h2 hl hm
    cases lo with
    | nil => simp at h1
    | cons l lo =>
      cases m with
      | nil => simp at h2
      | cons x m =>
        simp only [List.any_cons, Bool.or_eq_false_iff] at hl hm
        simp only [List.replicate_succ, clipAll, map3, boundsOk, all2, Bool.and_eq_true]
        refine ⟨?_, ih lo m (by simpa using h1) (by simpa using h2) hl.2 hm.2⟩
        have hw := XR.clipNp_within x l .pinf hm.1 hl.1 (by simp [XR.isNaN]) (by cases l <;> simp [XR.lt])
        simp only [XR.within, Bool.and_eq_true, Bool.not_eq_true'] at hw
        simp [boundElem, hl.1, hw.1.1, hw.1.2]

theorem boundsOk_replicate (n : Nat) :
    boundsOk (List.replicate n (.ninf : XR α)) (List.replicate n .pinf) = true := by
  induction n with
  | zero => simp [boundsOk, all2]
  | succ n ih => simpa [List.replicate_succ, boundsOk, all2, boundElem, XR.isNaN, XR.lt] using ih

theorem any_isNaN_replicate (n : Nat) (x : XR α) (hx : x.isNaN = false) :
    (List.replicate n x).any XR.isNaN = false := by
  induction n with
  | zero => simp
  | succ n ih => simp [List.replicate_succ, hx, ih]

/-- no NaN among the bounds that `boundsOk` accepts -/
theorem boundsOk_noNaN : ∀ (lo hi : List (XR α)), boundsOk lo hi = true → lo.length = hi.length →
    lo.any XR.isNaN = false ∧ hi.any XR.isNaN = false := by
  intro lo
  induction lo with
  | nil => intro hi _ h; cases hi <;> simp_all
  | cons l lo ih =>
    intro hi hb h
    cases hi with
    | nil => simp at h
    | cons h0 hi =>
      simp only [boundsOk, all2, Bool.and_eq_true, boundElem, Bool.not_eq_true'] at hb
      have := ih hi (by simpa [boundsOk] using hb.2) (by simpa using h)
      simp [hb.1.1.1, hb.1.1.2, this.1, this.2]

end lists

section lists_eps
variable {α : Type} [LinearOrder α] [AddCommGroup α] [IsOrderedAddMonoid α]

/-- values satisfying the invariant never trigger the constructor / setter hit test -/
theorem hitAll_false_of_ok {eps : α} (heps : 0 ≤ eps) (an : Bool) : ∀ (xs lo hi : List (XR α)),
    valuesOk an xs lo hi = true → hitAll eps xs lo hi = false := by
  intro xs
  induction xs with
  | nil => intro lo hi _; simp [hitAll, any3]
  | cons x xs ih =>
    intro lo hi hv
    cases lo with
    | nil => simp [hitAll, any3]
    | cons l lo =>
      cases hi with
      | nil => simp [hitAll, any3]
      | cons h hi =>
        simp only [valuesOk, all3, Bool.and_eq_true] at hv
        simp only [hitAll, any3, Bool.or_eq_false_iff]
        exact ⟨XR.outsideEps_false_of_ok heps an x l h hv.1, ih lo hi hv.2⟩
end lists_eps

end HydroVerif.C12
