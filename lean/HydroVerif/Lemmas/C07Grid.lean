/-
Index lemmas of the integer grid core (`Model/C07.lean`, PART 1), proved once for C06 / C07 / C11 / C16:
`idx % ncols`, `(idx - col) / ncols`, the bijection cell <-> (row, col), and the neighbour table
(range, row/col offsets, symmetry with mirrored position `8 - k`).
-/
import HydroVerif.Model.C07
import Mathlib.Tactic.Linarith
import Mathlib.Tactic.IntervalCases

namespace HydroVerif.C07

/-! ### validity -/

theorem validCell_iff {nrows ncols idx : Int} :
    validCell nrows ncols idx = true ↔ 0 ≤ idx ∧ idx < nrows * ncols := by
  unfold validCell
  generalize nrows * ncols = n
  simp only [Bool.not_eq_true', Bool.or_eq_false_iff, decide_eq_false_iff_not]
  omega

theorem validCell_eq_false_iff {nrows ncols idx : Int} :
    validCell nrows ncols idx = false ↔ idx < 0 ∨ nrows * ncols ≤ idx := by
  rw [← Bool.not_eq_true, validCell_iff]
  generalize nrows * ncols = n
  omega

/-- a valid cell exists only on a grid with `ncols ≠ 0`: `getnxy` never divides by zero behind the guard -/
theorem validCell_ncols_ne_zero {nrows ncols idx : Int} (h : validCell nrows ncols idx = true) :
    ncols ≠ 0 := by
  rintro rfl
  rw [validCell_iff] at h
  simp at h
  omega

theorem nrows_pos_of_valid {nrows ncols idx : Int} (hc : 0 < ncols)
    (h : validCell nrows ncols idx = true) : 0 < nrows := by
  rw [validCell_iff] at h
  by_contra hn
  have : nrows * ncols ≤ 0 := Int.mul_nonpos_of_nonpos_of_nonneg (by omega) (by omega)
  omega

/-! ### cell -> (row, col) -/

theorem colOf_eq_emod {ncols idx : Int} (h0 : 0 ≤ idx) : colOf ncols idx = idx % ncols :=
  Int.tmod_eq_emod_of_nonneg h0

theorem rowOf_eq_ediv {ncols idx : Int} (hc : 0 < ncols) (h0 : 0 ≤ idx) :
    rowOf ncols idx = idx / ncols := by
  unfold rowOf
  rw [colOf_eq_emod h0]
  have h1 : idx - idx % ncols = idx / ncols * ncols := by
    have := Int.mul_ediv_add_emod idx ncols
    linarith [Int.mul_comm ncols (idx / ncols)]
  have h2 : 0 ≤ idx - idx % ncols := by
    rw [h1]; exact Int.mul_nonneg (Int.ediv_nonneg h0 hc.le) hc.le
  rw [Int.tdiv_eq_ediv_of_nonneg h2, h1, Int.mul_ediv_cancel _ hc.ne']

theorem colOf_nonneg {ncols idx : Int} (hc : 0 < ncols) (h0 : 0 ≤ idx) : 0 ≤ colOf ncols idx := by
  rw [colOf_eq_emod h0]; exact Int.emod_nonneg _ hc.ne'

theorem colOf_lt {ncols idx : Int} (hc : 0 < ncols) (h0 : 0 ≤ idx) : colOf ncols idx < ncols := by
  rw [colOf_eq_emod h0]; exact Int.emod_lt_of_pos _ hc

theorem rowOf_nonneg {ncols idx : Int} (hc : 0 < ncols) (h0 : 0 ≤ idx) : 0 ≤ rowOf ncols idx := by
  rw [rowOf_eq_ediv hc h0]; exact Int.ediv_nonneg h0 hc.le

theorem rowOf_lt {nrows ncols idx : Int} (hc : 0 < ncols) (h0 : 0 ≤ idx) (h1 : idx < nrows * ncols) :
    rowOf ncols idx < nrows := by
  rw [rowOf_eq_ediv hc h0]; exact Int.ediv_lt_of_lt_mul hc h1

/-- row-major numbering: `row * ncols + col = idx` -/
theorem cellOf_rowOf_colOf {ncols idx : Int} (hc : 0 < ncols) (h0 : 0 ≤ idx) :
    cellOf ncols (rowOf ncols idx) (colOf ncols idx) = idx := by
  unfold cellOf
  rw [rowOf_eq_ediv hc h0, colOf_eq_emod h0]
  have := Int.mul_ediv_add_emod idx ncols
  linarith [Int.mul_comm ncols (idx / ncols)]

/-! ### (row, col) -> cell -/

theorem ediv_emod_cellOf {ncols row col : Int} (hc0 : 0 ≤ col) (hc1 : col < ncols) :
    cellOf ncols row col / ncols = row ∧ cellOf ncols row col % ncols = col := by
  have hc : 0 < ncols := by omega
  rw [Int.ediv_emod_unique hc]
  refine ⟨?_, hc0, hc1⟩
  unfold cellOf
  rw [Int.mul_comm]; omega

theorem cellOf_nonneg {ncols row col : Int} (hr : 0 ≤ row) (hc0 : 0 ≤ col) (hc1 : col < ncols) :
    0 ≤ cellOf ncols row col := by
  unfold cellOf
  have : 0 ≤ row * ncols := Int.mul_nonneg hr (by omega)
  omega

theorem colOf_cellOf {ncols row col : Int} (hr : 0 ≤ row) (hc0 : 0 ≤ col) (hc1 : col < ncols) :
    colOf ncols (cellOf ncols row col) = col := by
  rw [colOf_eq_emod (cellOf_nonneg hr hc0 hc1)]; exact (ediv_emod_cellOf hc0 hc1).2

theorem rowOf_cellOf {ncols row col : Int} (hr : 0 ≤ row) (hc0 : 0 ≤ col) (hc1 : col < ncols) :
    rowOf ncols (cellOf ncols row col) = row := by
  rw [rowOf_eq_ediv (by omega) (cellOf_nonneg hr hc0 hc1)]; exact (ediv_emod_cellOf hc0 hc1).1

theorem cellOf_lt {nrows ncols row col : Int} (hr1 : row < nrows) (hc1 : col < ncols) (hc : 0 < ncols) :
    cellOf ncols row col < nrows * ncols := by
  unfold cellOf
  have h : (row + 1) * ncols ≤ nrows * ncols := Int.mul_le_mul_of_nonneg_right (by omega) hc.le
  have : (row + 1) * ncols = row * ncols + ncols := by rw [Int.add_mul]; omega
  omega

/-- a (row, col) pair names a valid cell exactly when it is inside the grid (col already in range) -/
theorem validCell_cellOf_iff {nrows ncols row col : Int} (hc0 : 0 ≤ col) (hc1 : col < ncols) :
    validCell nrows ncols (cellOf ncols row col) = true ↔ 0 ≤ row ∧ row < nrows := by
  have hc : 0 < ncols := by omega
  rw [validCell_iff]
  constructor
  · rintro ⟨h0, h1⟩
    have hr := (ediv_emod_cellOf (row := row) hc0 hc1).1
    constructor
    · rw [← hr]; exact Int.ediv_nonneg h0 hc.le
    · rw [← hr]; exact Int.ediv_lt_of_lt_mul hc h1
  · rintro ⟨h0, h1⟩
    exact ⟨cellOf_nonneg h0 hc0 hc1, cellOf_lt h1 hc1 hc⟩

theorem validCell_cellOf {nrows ncols row col : Int} (hr0 : 0 ≤ row) (hr1 : row < nrows)
    (hc0 : 0 ≤ col) (hc1 : col < ncols) : validCell nrows ncols (cellOf ncols row col) = true :=
  (validCell_cellOf_iff hc0 hc1).2 ⟨hr0, hr1⟩

/-- the numbering is injective on in-range (row, col) pairs -/
theorem cellOf_injective {ncols r1 c1 r2 c2 : Int} (h10 : 0 ≤ c1) (h11 : c1 < ncols)
    (h20 : 0 ≤ c2) (h21 : c2 < ncols) (h : cellOf ncols r1 c1 = cellOf ncols r2 c2) :
    r1 = r2 ∧ c1 = c2 := by
  have a := ediv_emod_cellOf (row := r1) h10 h11
  have b := ediv_emod_cellOf (row := r2) h20 h21
  rw [h] at a
  exact ⟨a.1.symm.trans b.1, a.2.symm.trans b.2⟩

/-- facts about a valid cell, packaged for the users of the neighbour lemmas -/
theorem valid_rowcol {nrows ncols idx : Int} (hc : 0 < ncols) (h : validCell nrows ncols idx = true) :
    0 ≤ rowOf ncols idx ∧ rowOf ncols idx < nrows ∧ 0 ≤ colOf ncols idx ∧ colOf ncols idx < ncols ∧
      cellOf ncols (rowOf ncols idx) (colOf ncols idx) = idx := by
  rw [validCell_iff] at h
  exact ⟨rowOf_nonneg hc h.1, rowOf_lt hc h.1 h.2, colOf_nonneg hc h.1, colOf_lt hc h.1,
    cellOf_rowOf_colOf hc h.1⟩

/-! ### neighbours -/

theorem nbDx_mirror {k : Nat} (hk : k < 9) : nbDx (8 - k) = - nbDx k := by
  unfold nbDx; interval_cases k <;> decide

theorem nbDy_mirror {k : Nat} (hk : k < 9) : nbDy (8 - k) = - nbDy k := by
  unfold nbDy; interval_cases k <;> decide

theorem nbDx_range (k : Nat) : -1 ≤ nbDx k ∧ nbDx k ≤ 1 := by unfold nbDx; omega

theorem nbDy_range {k : Nat} (hk : k < 9) : -1 ≤ nbDy k ∧ nbDy k ≤ 1 := by
  have := hk; unfold nbDy; omega

theorem nb_centre_iff {k : Nat} (hk : k < 9) : (nbDx k = 0 ∧ nbDy k = 0) ↔ k = 4 := by
  unfold nbDx nbDy; omega

/-- position from offsets: `k = 1 + ix + (1 + iy) * 3` -/
theorem nb_pos (k : Nat) : (k : Int) = 1 + nbDx k + (1 + nbDy k) * 3 := by unfold nbDx nbDy; omega

/-- the neighbour entry in terms of rows and columns -/
theorem neighbour_eq (nrows ncols idx : Int) (k : Nat) :
    neighbour nrows ncols idx k =
      if nbDx k = 0 ∧ nbDy k = 0 then -1
      else if 0 ≤ colOf ncols idx + nbDx k ∧ colOf ncols idx + nbDx k < ncols ∧
              0 ≤ rowOf ncols idx + nbDy k ∧ rowOf ncols idx + nbDy k < nrows
        then cellOf ncols (rowOf ncols idx + nbDy k) (colOf ncols idx + nbDx k) else -1 := by
  unfold neighbour nbCell cellOf
  simp only []
  split
  · rfl
  · split <;> split <;> first | rfl | omega

/-- an entry different from `-1` is a valid cell, at the expected row/col offset -/
theorem neighbour_spec {nrows ncols idx : Int} {k : Nat} {d : Int}
    (h : neighbour nrows ncols idx k = d) (hd : d ≠ -1) :
    ¬ (nbDx k = 0 ∧ nbDy k = 0) ∧
    0 ≤ colOf ncols idx + nbDx k ∧ colOf ncols idx + nbDx k < ncols ∧
    0 ≤ rowOf ncols idx + nbDy k ∧ rowOf ncols idx + nbDy k < nrows ∧
    d = cellOf ncols (rowOf ncols idx + nbDy k) (colOf ncols idx + nbDx k) := by
  rw [neighbour_eq] at h
  split at h
  · exact absurd h.symm hd
  · split at h
    · rename_i h1 h2
      exact ⟨h1, h2.1, h2.2.1, h2.2.2.1, h2.2.2.2, h.symm⟩
    · exact absurd h.symm hd

theorem neighbour_valid {nrows ncols idx : Int} {k : Nat} {d : Int}
    (h : neighbour nrows ncols idx k = d) (hd : d ≠ -1) : validCell nrows ncols d = true := by
  obtain ⟨-, c0, c1, r0, r1, rfl⟩ := neighbour_spec h hd
  exact validCell_cellOf r0 r1 c0 c1

theorem neighbour_rowcol {nrows ncols idx : Int} {k : Nat} {d : Int}
    (h : neighbour nrows ncols idx k = d) (hd : d ≠ -1) :
    rowOf ncols d = rowOf ncols idx + nbDy k ∧ colOf ncols d = colOf ncols idx + nbDx k := by
  obtain ⟨-, c0, c1, r0, r1, rfl⟩ := neighbour_spec h hd
  exact ⟨rowOf_cellOf r0 c0 c1, colOf_cellOf r0 c0 c1⟩

/-- entries are `-1` or non-negative -/
theorem neighbour_eq_neg_one_or_nonneg (nrows ncols idx : Int) (k : Nat) :
    neighbour nrows ncols idx k = -1 ∨ 0 ≤ neighbour nrows ncols idx k := by
  by_cases hd : neighbour nrows ncols idx k = -1
  · exact Or.inl hd
  · exact Or.inr (validCell_iff.1 (neighbour_valid rfl hd)).1

/-- off-grid (or centre) exactly when the entry is `-1` -/
theorem neighbour_eq_neg_one_iff {nrows ncols idx : Int} {k : Nat} :
    neighbour nrows ncols idx k = -1 ↔
      (nbDx k = 0 ∧ nbDy k = 0) ∨
      ¬ (0 ≤ colOf ncols idx + nbDx k ∧ colOf ncols idx + nbDx k < ncols ∧
         0 ≤ rowOf ncols idx + nbDy k ∧ rowOf ncols idx + nbDy k < nrows) := by
  constructor
  · intro h
    by_contra hn
    rw [not_or, not_not] at hn
    rw [neighbour_eq, if_neg hn.1, if_pos hn.2] at h
    have := cellOf_nonneg hn.2.2.2.1 hn.2.1 hn.2.2.1
    omega
  · intro h
    rw [neighbour_eq]
    rcases h with h | h
    · rw [if_pos h]
    · by_cases hcen : nbDx k = 0 ∧ nbDy k = 0
      · rw [if_pos hcen]
      · rw [if_neg hcen, if_neg h]

/-- **symmetry with mirrored position**: if `d` is the neighbour of the valid cell `idx` at position
`k`, then `idx` is the neighbour of `d` at position `8 - k` -/
theorem neighbour_mirror {nrows ncols idx : Int} {k : Nat} {d : Int} (hc : 0 < ncols)
    (hv : validCell nrows ncols idx = true) (hk : k < 9)
    (h : neighbour nrows ncols idx k = d) (hd : d ≠ -1) :
    neighbour nrows ncols d (8 - k) = idx := by
  obtain ⟨hcen, c0, c1, r0, r1, hdef⟩ := neighbour_spec h hd
  obtain ⟨hr0, hr1, hc0, hc1, hidx⟩ := valid_rowcol hc hv
  have hrow : rowOf ncols d = rowOf ncols idx + nbDy k := by rw [hdef]; exact rowOf_cellOf r0 c0 c1
  have hcol : colOf ncols d = colOf ncols idx + nbDx k := by rw [hdef]; exact colOf_cellOf r0 c0 c1
  rw [neighbour_eq, nbDx_mirror hk, nbDy_mirror hk, hrow, hcol]
  rw [if_neg (by omega)]
  have e1 : colOf ncols idx + nbDx k + -nbDx k = colOf ncols idx := by omega
  have e2 : rowOf ncols idx + nbDy k + -nbDy k = rowOf ncols idx := by omega
  rw [e1, e2, if_pos ⟨hc0, hc1, hr0, hr1⟩, hidx]

/-- a cell is never its own neighbour -/
theorem neighbour_ne_self {nrows ncols idx : Int} {k : Nat}
    (hv : validCell nrows ncols idx = true) : neighbour nrows ncols idx k ≠ idx := by
  intro h
  have hd : idx ≠ -1 := by have := (validCell_iff.1 hv).1; omega
  obtain ⟨hcen, -⟩ := neighbour_spec h hd
  obtain ⟨hr, hcl⟩ := neighbour_rowcol h hd
  omega

/-- the vector returned by `c_neighbours` lists `neighbour · k` for `k = 0..8` -/
theorem cNeighbours_eq {nrows ncols idx : Int} (hv : validCell nrows ncols idx = true) :
    cNeighbours nrows ncols idx = .ok ((List.range 9).map (neighbour nrows ncols idx)) := by
  unfold cNeighbours
  rw [if_pos hv]
  rfl

theorem cNeighbours_invalid {nrows ncols idx : Int} (hv : validCell nrows ncols idx = false) :
    cNeighbours nrows ncols idx = .error .badCell := by
  unfold cNeighbours
  simp [hv]

end HydroVerif.C07
