/-
C08 — helper lemmas for the buffer-level kernels (`cAggregate`, `cFlathomogen`), the Cython layer (`pyxAggregate`,
`pyxFlathomogen`) and the wrappers written through them (`aggregateWB`, `flathomogenWB`).
The error-keeping loops `loopB` / `hloopB` refine `loop` / `hloop`: same verdict, same final state, and on an error the
`out` component has only grown.
-/
import HydroVerif.Lemmas.C08

namespace HydroVerif.C08

section buf
set_option linter.unusedSectionVars false
variable {α : Type} [Add α] [Div α] [LT α] [DecidableLT α] [OfNat α 0] [NatCast α]

theorem loopB_loop (op maxnan : Int) (nval : Nat) :
    ∀ (l : List (Int × Option α)) (s : St α),
      match loopB op maxnan nval s l with
      | .ok s' => loop op maxnan nval s l = .ok s'
      | .error (e, s') => loop op maxnan nval s l = .error e ∧ ∃ w, s'.out = w ++ s.out
  | [], s => by simp [loopB, loop]
  | (ia, x) :: rest, s => by
    by_cases h1 : ia < s.prev
    · simp [loopB, loop, stepB, step, h1]
    · by_cases h2 : ia = s.prev
      · have ih := loopB_loop op maxnan nval rest
          { prev := s.prev, acc := accStep op s.acc x, out := s.out }
        simp only [loopB, loop, stepB, step, h2, lt_irrefl, if_false, ne_eq, not_true_eq_false]
        exact ih
      · by_cases h3 : nval ≤ (flush op maxnan s.acc :: s.out).length
        · simp only [loopB, loop, stepB, step, h1, h2, h3, if_false, if_true, ne_eq, not_false_eq_true]
          exact ⟨trivial, [flush op maxnan s.acc], rfl⟩
        · have ih := loopB_loop op maxnan nval rest
            { prev := ia, acc := accStep op Acc.init x, out := flush op maxnan s.acc :: s.out }
          simp only [loopB, loop, stepB, step, h1, h2, h3, if_false, if_true, ne_eq, not_false_eq_true]
          split
          · rename_i s' hs'
            rw [hs'] at ih
            exact ih
          · rename_i e s' hs'
            rw [hs'] at ih
            obtain ⟨h, w, hw⟩ := ih
            exact ⟨h, w ++ [flush op maxnan s.acc], by simp [hw]⟩

theorem hloopB_hloop (maxnan : Int) :
    ∀ (l : List (Int × Option α)) (s : HSt α),
      match hloopB maxnan s l with
      | .ok s' => hloop maxnan s l = .ok s'
      | .error (e, s') => hloop maxnan s l = .error e ∧ ∃ w, s'.out = w ++ s.out
  | [], s => by simp [hloopB, hloop]
  | (ia, x) :: rest, s => by
    by_cases h1 : ia < s.prev
    · simp [hloopB, hloop, hstepB, hstep, h1]
    · by_cases h2 : ia = s.prev
      · have ih := hloopB_hloop maxnan rest
          { prev := s.prev, acc := accStep 0 s.acc x, grp := x :: s.grp, out := s.out }
        simp only [hloopB, hloop, hstepB, hstep, h2, lt_irrefl, if_false, ne_eq, not_true_eq_false]
        exact ih
      · have ih := hloopB_hloop maxnan rest
          { prev := ia, acc := accStep 0 Acc.init x, grp := [x], out := hflush maxnan s.acc s.grp ++ s.out }
        simp only [hloopB, hloop, hstepB, hstep, h1, h2, if_false, if_true, ne_eq, not_false_eq_true]
        split
        · rename_i s' hs'
          rw [hs'] at ih
          exact ih
        · rename_i e s' hs'
          rw [hs'] at ih
          obtain ⟨h, w, hw⟩ := ih
          exact ⟨h, w ++ hflush maxnan s.acc s.grp, by simp [hw]⟩

/-- success: the results overwrite the head of the buffer, the tail is untouched, `iend[0]` = number of results -/
theorem cAggregate_of_ok (op maxnan : Int) (l : List (Int × Option α)) (buf : List (Option α)) (i0 : Int)
    (out : List (Option α)) (h : aggregate op maxnan l = .ok out) :
    cAggregate op maxnan l buf i0 =
      { ierr := none, outputs := out ++ buf.drop out.length, iend := (out.length : Int) } := by
  cases l with
  | nil => simp [aggregate] at h
  | cons p rest =>
    obtain ⟨i, x⟩ := p
    have hB := loopB_loop op maxnan ((i, x) :: rest).length ((i, x) :: rest)
      ({ prev := i, acc := Acc.init, out := [] } : St α)
    simp only [aggregate] at h
    simp only [cAggregate]
    split
    · rename_i e s' hs'
      rw [hs'] at hB
      rw [hB.1] at h
      cases h
    · rename_i s' hs'
      rw [hs'] at hB
      rw [hB] at h
      cases h
      rfl

/-- error: same verdict as `aggregate`, `iend[0]` untouched, the buffer untouched beyond the groups already closed -/
theorem cAggregate_of_error (op maxnan : Int) (l : List (Int × Option α)) (buf : List (Option α)) (i0 : Int)
    (e : Err) (h : aggregate op maxnan l = .error e) :
    (cAggregate op maxnan l buf i0).ierr = some e ∧ (cAggregate op maxnan l buf i0).iend = i0 ∧
      ∃ w, (cAggregate op maxnan l buf i0).outputs = w ++ buf.drop w.length := by
  cases l with
  | nil =>
    simp only [aggregate] at h
    cases h
    exact ⟨rfl, rfl, [], by simp [cAggregate]⟩
  | cons p rest =>
    obtain ⟨i, x⟩ := p
    have hB := loopB_loop op maxnan ((i, x) :: rest).length ((i, x) :: rest)
      ({ prev := i, acc := Acc.init, out := [] } : St α)
    simp only [aggregate] at h
    simp only [cAggregate]
    split
    · rename_i e' s' hs'
      rw [hs'] at hB
      rw [hB.1] at h
      cases h
      exact ⟨rfl, rfl, s'.out.reverse, by simp⟩
    · rename_i s' hs'
      rw [hs'] at hB
      rw [hB] at h
      cases h

theorem cFlathomogen_of_ok (maxnan : Int) (l : List (Int × Option α)) (buf : List (Option α))
    (out : List (Option α)) (h : flathomogen maxnan l = .ok out) :
    cFlathomogen maxnan l buf = (none, out ++ buf.drop out.length) := by
  cases l with
  | nil => simp [flathomogen] at h
  | cons p rest =>
    obtain ⟨i, x⟩ := p
    have hB := hloopB_hloop maxnan ((i, x) :: rest) ({ prev := i, acc := Acc.init, grp := [], out := [] } : HSt α)
    simp only [flathomogen] at h
    simp only [cFlathomogen]
    split
    · rename_i e s' hs'
      rw [hs'] at hB
      rw [hB.1] at h
      cases h
    · rename_i s' hs'
      rw [hs'] at hB
      rw [hB] at h
      cases h
      rfl

theorem cFlathomogen_of_error (maxnan : Int) (l : List (Int × Option α)) (buf : List (Option α))
    (e : Err) (h : flathomogen maxnan l = .error e) :
    (cFlathomogen maxnan l buf).1 = some e ∧ ∃ w, (cFlathomogen maxnan l buf).2 = w ++ buf.drop w.length := by
  cases l with
  | nil =>
    simp only [flathomogen] at h
    cases h
    exact ⟨rfl, [], by simp [cFlathomogen]⟩
  | cons p rest =>
    obtain ⟨i, x⟩ := p
    have hB := hloopB_hloop maxnan ((i, x) :: rest) ({ prev := i, acc := Acc.init, grp := [], out := [] } : HSt α)
    simp only [flathomogen] at h
    simp only [cFlathomogen]
    split
    · rename_i e' s' hs'
      rw [hs'] at hB
      rw [hB.1] at h
      cases h
      exact ⟨rfl, s'.out.reverse, by simp⟩
    · rename_i s' hs'
      rw [hs'] at hB
      rw [hB] at h
      cases h

/-- the number of values `flathomogen` returns -/
theorem flathomogen_length (maxnan : Int) (l : List (Int × Option α)) (out : List (Option α))
    (h : flathomogen maxnan l = .ok out) : out.length = l.length := by
  have hlen : ∀ (l : List (Int × Option α)) (s s' : HSt α), hloop maxnan s l = .ok s' →
      s'.grp.length + s'.out.length = s.grp.length + s.out.length + l.length := by
    intro l
    induction l with
    | nil => intro s s' h; simp [hloop] at h; subst h; simp
    | cons p rest ih =>
      obtain ⟨ia, x⟩ := p
      intro s s' h
      simp only [hloop] at h
      split at h
      · cases h
      · rename_i s1 hs1
        have := ih s1 s' h
        simp only [hstep] at hs1
        split at hs1
        · cases hs1
        · split at hs1
          · cases hs1
            simp [hflush] at this ⊢
            omega
          · cases hs1
            simp at this ⊢
            omega
  cases l with
  | nil => simp [flathomogen] at h
  | cons p rest =>
    obtain ⟨i, x⟩ := p
    simp only [flathomogen] at h
    split at h
    · cases h
    · rename_i s' hs'
      cases h
      have := hlen _ _ _ hs'
      simp [hflush] at this ⊢
      omega

end buf

/-! ### histories -/
section hist
set_option linter.unusedSectionVars false
variable {α : Type} [Add α] [Div α] [LT α] [DecidableLT α] [OfNat α 0] [NatCast α]

theorem histRun_append (s : Hist α) (a b : List (HOp α)) :
    histRun s (a ++ b) = ((histRun (histRun s a).1 b).1, (histRun s a).2 ++ (histRun (histRun s a).1 b).2) := by
  induction a generalizing s with
  | nil => simp [histRun]
  | cons o rest ih =>
    simp only [List.cons_append, histRun, ih]
    cases (histStep s o).2 <;> simp

theorem histStep_args (s : Hist α) (o : HOp α) :
    (histStep s o).1.idx = (match o with | .setIdx i k => s.idx.set i k | _ => s.idx) ∧
    (histStep s o).1.vals = (match o with | .setVal i v => s.vals.set i v | _ => s.vals) := by
  cases o with
  | setVal i v => exact ⟨rfl, rfl⟩
  | setIdx i k => exact ⟨rfl, rfl⟩
  | scribble r v => exact ⟨rfl, rfl⟩
  | callAgg op maxnan =>
    simp only [histStep]
    cases aggregateW op maxnan s.idx s.vals <;> exact ⟨rfl, rfl⟩
  | callHomog maxnan =>
    simp only [histStep]
    cases flathomogenW maxnan s.idx s.vals <;> exact ⟨rfl, rfl⟩

end hist

end HydroVerif.C08
