/-
C17 — helper lemmas: the index-by-index inner loops of the two kernels computed in closed form
(dot product with the lag buffer, buffer shifted by one lag), for every order `p`.
-/
import HydroVerif.Model.C17
import Mathlib.Algebra.BigOperators.Fin
import Mathlib.Algebra.BigOperators.Intervals
import Mathlib.Tactic.Ring
import Mathlib.Tactic.Abel

namespace HydroVerif.C17

open Finset

variable {α : Type} [CommRing α] {p : Nat}

/-- in exact arithmetic no computed value is NaN -/
abbrev nf : α → Bool := fun _ => false

/-- `params[j] * prev_centered[j]` (0 outside the buffer) -/
def term (ps buf : Vector α p) (j : Nat) : α := if h : j < p then ps[j] * buf[j] else 0

/-- `Σ_{j<k} params[j] * prev_centered[j]` -/
def dotUpTo (ps buf : Vector α p) (k : Nat) : α := ∑ j ∈ range k, term ps buf j

/-- `Σ_{j<p} params[j] * prev_centered[j]` -/
def dot (ps buf : Vector α p) : α := dotUpTo ps buf p

/-- the lag buffer after one step: new value in front, every lag moved one place up, last one dropped -/
def shift (x : α) (buf : Vector α p) : Vector α p :=
  Vector.ofFn fun j : Fin p => if j.val = 0 then x else buf[j.val - 1]

theorem term_lt (ps buf : Vector α p) {j : Nat} (h : j < p) : term ps buf j = ps[j] * buf[j] := by
  simp [term, h]

theorem dotUpTo_succ (ps buf : Vector α p) (k : Nat) :
    dotUpTo ps buf (k+1) = dotUpTo ps buf k + term ps buf k := by
  simp [dotUpTo, sum_range_succ]

theorem dotUpTo_congr (ps buf buf' : Vector α p) (k : Nat)
    (h : ∀ j (hj : j < p), j < k → buf'[j] = buf[j]) : dotUpTo ps buf' k = dotUpTo ps buf k := by
  unfold dotUpTo
  apply sum_congr rfl
  intro j hj
  have hjk : j < k := mem_range.mp hj
  unfold term
  split
  · rename_i hjp; rw [h j hjp hjk]
  · rfl

theorem dot_eq_sum_fin (ps buf : Vector α p) : dot ps buf = ∑ j : Fin p, ps[j.val] * buf[j.val] := by
  unfold dot dotUpTo
  rw [Finset.sum_range]
  apply sum_congr rfl
  intro j _
  simp [term]


/-! ### the inner loops in closed form -/

theorem simLoop_gen (ps : Vector α p) : ∀ (k : Nat) (hk : k ≤ p) (tmp : α) (buf : Vector α p),
    simLoop nf ps k hk tmp buf =
      (tmp + dotUpTo ps buf k,
       Vector.ofFn fun j : Fin p =>
         if j.val < k then (if j.val = 0 then tmp + dotUpTo ps buf k else buf[j.val - 1]) else buf[j.val]) := by
  intro k
  induction k with
  | zero =>
    intro hk tmp buf
    simp only [simLoop, dotUpTo, range_zero, sum_empty, add_zero]
    congr 1
    ext j hj
    simp
  | succ k ih =>
    intro hk tmp buf
    have hkp : k < p := hk
    simp only [simLoop, nf, Bool.false_eq_true, if_false]
    rw [ih]
    have hdot : dotUpTo ps (buf.set k (if 0 < k then buf[k - 1] else tmp + ps[k] * buf[k])) k = dotUpTo ps buf k := by
      apply dotUpTo_congr
      intro j hj hjk
      rw [Vector.getElem_set_ne]
      omega
    have hT : tmp + ps[k] * buf[k] + dotUpTo ps buf k = tmp + dotUpTo ps buf (k+1) := by
      rw [dotUpTo_succ, term_lt ps buf hkp]; ring
    rw [hdot, hT]
    congr 1
    ext j hj
    simp only [Vector.getElem_ofFn]
    by_cases h1 : j < k
    · have h2 : j < k + 1 := by omega
      simp only [h1, h2, if_true]
      by_cases h0 : j = 0
      · simp [h0]
      · simp only [h0, if_false]
        rw [Vector.getElem_set_ne]
        omega
    · by_cases h2 : j = k
      · subst h2
        simp only [lt_irrefl, if_false, Nat.lt_succ_self, if_true, Vector.getElem_set_self]
        by_cases h0 : j = 0
        · subst h0
          simp [dotUpTo, term, hkp]
        · have : 0 < j := by omega
          simp [h0, this]
      · have h3 : ¬ j < k + 1 := by omega
        simp only [h1, h3, if_false]
        rw [Vector.getElem_set_ne]
        omega


theorem resLoop_gen (ps : Vector α p) (value : α) : ∀ (k : Nat) (hk : k ≤ p) (tmp : α) (buf : Vector α p),
    resLoop ps value k hk tmp buf =
      (tmp - dotUpTo ps buf k,
       Vector.ofFn fun j : Fin p =>
         if j.val < k then (if j.val = 0 then value else buf[j.val - 1]) else buf[j.val]) := by
  intro k
  induction k with
  | zero =>
    intro hk tmp buf
    simp only [resLoop, dotUpTo, range_zero, sum_empty, sub_zero]
    congr 1
    ext j hj
    simp
  | succ k ih =>
    intro hk tmp buf
    have hkp : k < p := hk
    simp only [resLoop]
    rw [ih]
    have hdot : dotUpTo ps (buf.set k (if 0 < k then buf[k - 1] else value)) k = dotUpTo ps buf k := by
      apply dotUpTo_congr
      intro j hj hjk
      rw [Vector.getElem_set_ne]
      omega
    have hT : tmp - ps[k] * buf[k] - dotUpTo ps buf k = tmp - dotUpTo ps buf (k+1) := by
      rw [dotUpTo_succ, term_lt ps buf hkp]; ring
    rw [hdot, hT]
    congr 1
    ext j hj
    simp only [Vector.getElem_ofFn]
    by_cases h1 : j < k
    · have h2 : j < k + 1 := by omega
      simp only [h1, h2, if_true]
      by_cases h0 : j = 0
      · simp [h0]
      · simp only [h0, if_false]
        rw [Vector.getElem_set_ne]
        omega
    · by_cases h2 : j = k
      · subst h2
        simp only [lt_irrefl, if_false, Nat.lt_succ_self, if_true, Vector.getElem_set_self]
        by_cases h0 : j = 0
        · subst h0
          simp
        · have : 0 < j := by omega
          simp [h0, this]
      · have h3 : ¬ j < k + 1 := by omega
        simp only [h1, h3, if_false]
        rw [Vector.getElem_set_ne]
        omega

theorem predLoop_gen (ps buf : Vector α p) : ∀ (n : Nat) (hn : n ≤ p) (v : α),
    predLoop ps buf n hn v = v + ∑ j ∈ Ico (p - n) p, term ps buf j := by
  intro n
  induction n with
  | zero => intro hn v; simp [predLoop]
  | succ n ih =>
    intro hn v
    simp only [predLoop]
    rw [ih]
    have h1 : p - (n + 1) < p := by omega
    rw [Finset.sum_eq_sum_Ico_succ_bot h1, show p - (n + 1) + 1 = p - n by omega, term_lt ps buf h1]
    ring

/-- one pass of the simulation inner loop: accumulator `v + φ·buf`, buffer shifted with it in front -/
theorem simLoop_full (ps : Vector α p) (v : α) (buf : Vector α p) :
    simLoop nf ps p (Nat.le_refl p) v buf = (v + dot ps buf, shift (v + dot ps buf) buf) := by
  rw [simLoop_gen]
  unfold dot shift
  congr 1
  ext j hj
  simp

/-- one pass of the residual inner loop: accumulator `tmp - φ·buf`, buffer shifted with `value` in front -/
theorem resLoop_full (ps : Vector α p) (value tmp : α) (buf : Vector α p) :
    resLoop ps value p (Nat.le_refl p) tmp buf = (tmp - dot ps buf, shift value buf) := by
  rw [resLoop_gen]
  unfold dot shift
  congr 1
  ext j hj
  simp

/-- the prediction loop is the same dot product -/
theorem predLoop_full (ps buf : Vector α p) : predLoop ps buf p (Nat.le_refl p) 0 = dot ps buf := by
  rw [predLoop_gen]
  simp [dot, dotUpTo]


/-! ### the series loops, one step at a time -/

/-- a missing innovation reads as zero -/
def zeroNaN : Option α → α
  | none => 0
  | some x => x

/-- the centred value the residual kernel works with: `x - m`, or the AR prediction when `x` is missing -/
def cval (ps buf : Vector α p) (m : α) : Option α → α
  | none => dot ps buf
  | some x => x - m

theorem centred_eq (ps buf : Vector α p) (m : α) (x : Option α) :
    centred nf ps buf m x = cval ps buf m x := by
  cases x <;> simp [centred, cval, predLoop_full, nf]

@[simp] theorem simRun_nil (ps : Vector α p) (m : α) (buf : Vector α p) : simRun nf ps m buf [] = [] := rfl
@[simp] theorem resRun_nil (ps : Vector α p) (m : α) (buf : Vector α p) : resRun nf ps m buf [] = [] := rfl

theorem simRun_cons (ps : Vector α p) (m : α) (buf : Vector α p) (e : Option α) (es : List (Option α)) :
    simRun nf ps m buf (e :: es) =
      (zeroNaN e + dot ps buf + m) :: simRun nf ps m (shift (zeroNaN e + dot ps buf) buf) es := by
  cases e <;> simp [simRun, simLoop_full, zeroNaN]

theorem resRun_cons (ps : Vector α p) (m : α) (buf : Vector α p) (x : Option α) (xs : List (Option α)) :
    resRun nf ps m buf (x :: xs) =
      (cval ps buf m x - dot ps buf) :: resRun nf ps m (shift (cval ps buf m x) buf) xs := by
  simp [resRun, resLoop_full, centred_eq]

theorem simBuf_cons (ps : Vector α p) (buf : Vector α p) (e : Option α) (es : List (Option α)) :
    simBuf nf ps buf (e :: es) = simBuf nf ps (shift (zeroNaN e + dot ps buf) buf) es := by
  cases e <;> simp [simBuf, simLoop_full, zeroNaN]

theorem resBuf_cons (ps : Vector α p) (m : α) (buf : Vector α p) (x : Option α) (xs : List (Option α)) :
    resBuf nf ps m buf (x :: xs) = resBuf nf ps m (shift (cval ps buf m x) buf) xs := by
  simp [resBuf, resLoop_full, centred_eq]

theorem simRun_length (ps : Vector α p) (m : α) : ∀ (es : List (Option α)) (buf : Vector α p),
    (simRun nf ps m buf es).length = es.length := by
  intro es; induction es with
  | nil => intro buf; rfl
  | cons e es ih => intro buf; rw [simRun_cons]; simp [ih]

theorem resRun_length (ps : Vector α p) (m : α) : ∀ (xs : List (Option α)) (buf : Vector α p),
    (resRun nf ps m buf xs).length = xs.length := by
  intro xs; induction xs with
  | nil => intro buf; rfl
  | cons x xs ih => intro buf; rw [resRun_cons]; simp [ih]

/-- the series the residuals stand for: present inputs as they are, missing inputs replaced by the AR
prediction from the (filled) past -/
def fill (ps : Vector α p) (m : α) : Vector α p → List (Option α) → List α
  | _, [] => []
  | buf, x :: xs => (cval ps buf m x + m) :: fill ps m (shift (cval ps buf m x) buf) xs

/-! ### inverse in both directions, by "both kernels hold the same buffer" (induction over the series) -/

theorem resRun_simRun (ps : Vector α p) (m : α) : ∀ (es : List (Option α)) (buf : Vector α p),
    resRun nf ps m buf ((simRun nf ps m buf es).map some) = es.map zeroNaN := by
  intro es; induction es with
  | nil => intro buf; rfl
  | cons e es ih =>
    intro buf
    rw [simRun_cons, List.map_cons, resRun_cons]
    have hv : cval ps buf m (some (zeroNaN e + dot ps buf + m)) = zeroNaN e + dot ps buf := by
      simp [cval]
    rw [hv, ih]
    simp

theorem simRun_resRun (ps : Vector α p) (m : α) : ∀ (xs : List (Option α)) (buf : Vector α p),
    simRun nf ps m buf ((resRun nf ps m buf xs).map some) = fill ps m buf xs := by
  intro xs; induction xs with
  | nil => intro buf; rfl
  | cons x xs ih =>
    intro buf
    rw [resRun_cons, List.map_cons, simRun_cons]
    have hv : zeroNaN (some (cval ps buf m x - dot ps buf)) + dot ps buf = cval ps buf m x := by
      simp [zeroNaN]
    rw [hv, ih]
    rfl

theorem fill_present (ps : Vector α p) (m : α) : ∀ (ys : List α) (buf : Vector α p),
    fill ps m buf (ys.map some) = ys := by
  intro ys; induction ys with
  | nil => intro buf; rfl
  | cons y ys ih => intro buf; simp [fill, cval, ih]

theorem fill_length (ps : Vector α p) (m : α) : ∀ (xs : List (Option α)) (buf : Vector α p),
    (fill ps m buf xs).length = xs.length := by
  intro xs; induction xs with
  | nil => intro buf; rfl
  | cons x xs ih => intro buf; simp [fill, ih]

theorem fill_at_present (ps : Vector α p) (m : α) : ∀ (xs : List (Option α)) (buf : Vector α p) (t : Nat) (y : α),
    xs[t]? = some (some y) → (fill ps m buf xs)[t]? = some y := by
  intro xs; induction xs with
  | nil => intro buf t y h; simp at h
  | cons x xs ih =>
    intro buf t y h
    cases t with
    | zero =>
      simp only [List.getElem?_cons_zero, Option.some.injEq] at h
      subst h
      simp [fill, cval]
    | succ t =>
      simp only [List.getElem?_cons_succ] at h
      simp only [fill, List.getElem?_cons_succ]
      exact ih _ t y h

theorem resRun_at_missing (ps : Vector α p) (m : α) : ∀ (xs : List (Option α)) (buf : Vector α p) (t : Nat),
    xs[t]? = some none → (resRun nf ps m buf xs)[t]? = some 0 := by
  intro xs; induction xs with
  | nil => intro buf t h; simp at h
  | cons x xs ih =>
    intro buf t h
    rw [resRun_cons]
    cases t with
    | zero =>
      simp only [List.getElem?_cons_zero, Option.some.injEq] at h
      subst h
      simp [cval]
    | succ t =>
      simp only [List.getElem?_cons_succ] at h ⊢
      exact ih _ t h

/-- the invariant itself: after every prefix of the series both kernels hold the same lag buffer -/
theorem resBuf_simRun (ps : Vector α p) (m : α) : ∀ (es : List (Option α)) (buf : Vector α p) (n : Nat),
    resBuf nf ps m buf (((simRun nf ps m buf es).map some).take n) = simBuf nf ps buf (es.take n) := by
  intro es; induction es with
  | nil => intro buf n; simp [resBuf, simBuf]
  | cons e es ih =>
    intro buf n
    cases n with
    | zero => simp [resBuf, simBuf]
    | succ n =>
      rw [simRun_cons, List.map_cons, List.take_succ_cons, List.take_succ_cons, resBuf_cons, simBuf_cons]
      have hv : cval ps buf m (some (zeroNaN e + dot ps buf + m)) = zeroNaN e + dot ps buf := by
        simp [cval]
      rw [hv, ih]

theorem simBuf_resRun (ps : Vector α p) (m : α) : ∀ (xs : List (Option α)) (buf : Vector α p) (n : Nat),
    simBuf nf ps buf (((resRun nf ps m buf xs).map some).take n) = resBuf nf ps m buf (xs.take n) := by
  intro xs; induction xs with
  | nil => intro buf n; simp [resBuf, simBuf]
  | cons x xs ih =>
    intro buf n
    cases n with
    | zero => simp [resBuf, simBuf]
    | succ n =>
      rw [resRun_cons, List.map_cons, List.take_succ_cons, List.take_succ_cons, resBuf_cons, simBuf_cons]
      have hv : zeroNaN (some (cval ps buf m x - dot ps buf)) + dot ps buf = cval ps buf m x := by
        simp [zeroNaN]
      rw [hv, ih]


/-! ### the AR recursion -/

/-- centred value `k+1` steps before step `t` in a run started from the buffer `b0`:
an earlier output minus the mean, or what the initial buffer held for that lag -/
def glag (ys : List α) (b0 : Vector α p) (m : α) (t k : Nat) (hk : k < p) : α :=
  if k < t then ys.getD (t - 1 - k) 0 - m else b0[k - t]'(by omega)

theorem glag_cons (tmp m : α) (ys : List α) (buf : Vector α p) (t k : Nat) (hk : k < p) :
    glag ((tmp + m) :: ys) buf m (t + 1) k hk = glag ys (shift tmp buf) m t k hk := by
  unfold glag
  by_cases h1 : k < t
  · have h2 : k < t + 1 := by omega
    simp only [h1, h2, if_true]
    rw [show t + 1 - 1 - k = (t - 1 - k) + 1 by omega, List.getD_cons_succ]
  · by_cases h2 : k = t
    · subst h2
      simp [shift]
    · have h3 : ¬ k < t + 1 := by omega
      simp only [h1, h3, if_false, shift, Vector.getElem_ofFn]
      have h4 : k - t ≠ 0 := by omega
      simp only [h4, if_false]
      congr 1

theorem simRun_recursion (ps : Vector α p) (m : α) :
    ∀ (es : List (Option α)) (buf : Vector α p) (t : Nat) (e : Option α) (y : α),
      es[t]? = some e → (simRun nf ps m buf es)[t]? = some y →
      y - m = (∑ k : Fin p, ps[k.val] * glag (simRun nf ps m buf es) buf m t k.val k.isLt) + zeroNaN e := by
  intro es; induction es with
  | nil => intro buf t e y h; simp at h
  | cons e0 es ih =>
    intro buf t e y he hy
    rw [simRun_cons] at hy ⊢
    cases t with
    | zero =>
      simp only [List.getElem?_cons_zero, Option.some.injEq] at he hy
      subst he; subst hy
      rw [dot_eq_sum_fin]
      simp only [glag, Nat.not_lt_zero, if_false, Nat.sub_zero]
      ring
    | succ t =>
      simp only [List.getElem?_cons_succ] at he hy
      rw [ih _ t e y he hy]
      congr 1
      apply sum_congr rfl
      intro k _
      rw [glag_cons]

/-- what the buffer holds after the series: the centred past values, most recent first -/
theorem simBuf_content (ps : Vector α p) (m : α) :
    ∀ (es : List (Option α)) (buf : Vector α p) (k : Nat) (hk : k < p),
      (simBuf nf ps buf es)[k] = glag (simRun nf ps m buf es) buf m es.length k hk := by
  intro es; induction es with
  | nil => intro buf k hk; simp [simBuf, glag]
  | cons e es ih =>
    intro buf k hk
    rw [simBuf_cons, simRun_cons, List.length_cons, glag_cons, ih]

end HydroVerif.C17
