/-
C17 — helper lemmas: the index-by-index inner loops of the two kernels computed in closed form
(dot product with the lag buffer, buffer shifted by one lag), for every order `p`.
-/
import HydroVerif.Model.C17
import HydroVerif.Model.C17Spec
import Mathlib.Algebra.BigOperators.Fin
import Mathlib.Algebra.BigOperators.Intervals
import Mathlib.Tactic.Ring
import Mathlib.Tactic.Abel

namespace HydroVerif.C17

open Finset

variable {α : Type} [CommRing α] {p : Nat}

/-- in exact arithmetic no computed value is NaN -/
abbrev nf : α → Bool := fun _ => false

/-- `params[j] * prev_centered[j]` (0 outside the buffer) -/
def term (ps buf : Vector α p) (j : Nat) : α := if h : j < p then ps[j] * buf[j] else 0

/-- `Σ_{j<k} params[j] * prev_centered[j]` -/
def dotUpTo (ps buf : Vector α p) (k : Nat) : α := ∑ j ∈ range k, term ps buf j

/-- `Σ_{j<p} params[j] * prev_centered[j]` -/
def dot (ps buf : Vector α p) : α := dotUpTo ps buf p

/-- the lag buffer after one step: new value in front, every lag moved one place up, last one dropped -/
def shift (x : α) (buf : Vector α p) : Vector α p :=
  Vector.ofFn fun j : Fin p => if j.val = 0 then x else buf[j.val - 1]

theorem term_lt (ps buf : Vector α p) {j : Nat} (h : j < p) : term ps buf j = ps[j] * buf[j] := by
  simp [term, h]

theorem dotUpTo_succ (ps buf : Vector α p) (k : Nat) :
    dotUpTo ps buf (k+1) = dotUpTo ps buf k + term ps buf k := by
  simp [dotUpTo, sum_range_succ]

theorem dotUpTo_congr (ps buf buf' : Vector α p) (k : Nat)
    (h : ∀ j (hj : j < p), j < k → buf'[j] = buf[j]) : dotUpTo ps buf' k = dotUpTo ps buf k := by
  unfold dotUpTo
  apply sum_congr rfl
  intro j hj
  have hjk : j < k := mem_range.mp hj
  unfold term
  split
  · rename_i hjp; rw [h j hjp hjk]
  · rfl

theorem dot_eq_sum_fin (ps buf : Vector α p) : dot ps buf = ∑ j : Fin p, ps[j.val] * buf[j.val] := by
  unfold dot dotUpTo
  rw [Finset.sum_range]
  apply sum_congr rfl
  intro j _
  simp [term]


/-! ### the inner loops in closed form -/

theorem simLoop_gen (ps : Vector α p) : ∀ (k : Nat) (hk : k ≤ p) (tmp : α) (buf : Vector α p),
    simLoop nf ps k hk tmp buf =
      (tmp + dotUpTo ps buf k,
       Vector.ofFn fun j : Fin p =>
         if j.val < k then (if j.val = 0 then tmp + dotUpTo ps buf k else buf[j.val - 1]) else buf[j.val]) := by
  intro k
  induction k with
  | zero =>
    intro hk tmp buf
    simp only [simLoop, dotUpTo, range_zero, sum_empty, add_zero]
    congr 1
    ext j hj
    simp
  | succ k ih =>
    intro hk tmp buf
    have hkp : k < p := hk
    simp only [simLoop, nf, Bool.false_eq_true, if_false]
    rw [ih]
    have hdot : dotUpTo ps (buf.set k (if 0 < k then buf[k - 1] else tmp + ps[k] * buf[k])) k = dotUpTo ps buf k := by
      apply dotUpTo_congr
      intro j hj hjk
      rw [Vector.getElem_set_ne]
      omega
    have hT : tmp + ps[k] * buf[k] + dotUpTo ps buf k = tmp + dotUpTo ps buf (k+1) := by
      rw [dotUpTo_succ, term_lt ps buf hkp]; ring
    rw [hdot, hT]
    congr 1
    ext j hj
    simp only [Vector.getElem_ofFn]
    by_cases h1 : j < k
    · have h2 : j < k + 1 := by omega
      simp only [h1, h2, if_true]
      by_cases h0 : j = 0
      · simp [h0]
      · simp only [h0, if_false]
        rw [Vector.getElem_set_ne]
        omega
    · by_cases h2 : j = k
      · subst h2
        simp only [lt_irrefl, if_false, Nat.lt_succ_self, if_true, Vector.getElem_set_self]
        by_cases h0 : j = 0
        · subst h0
          simp [dotUpTo, term, hkp]
        · have : 0 < j := by omega
          simp [h0, this]
      · have h3 : ¬ j < k + 1 := by omega
        simp only [h1, h3, if_false]
        rw [Vector.getElem_set_ne]
        omega


theorem resLoop_gen (ps : Vector α p) (value : α) : ∀ (k : Nat) (hk : k ≤ p) (tmp : α) (buf : Vector α p),
    resLoop ps value k hk tmp buf =
      (tmp - dotUpTo ps buf k,
       Vector.ofFn fun j : Fin p =>
         if j.val < k then (if j.val = 0 then value else buf[j.val - 1]) else buf[j.val]) := by
  intro k
  induction k with
  | zero =>
    intro hk tmp buf
    simp only [resLoop, dotUpTo, range_zero, sum_empty, sub_zero]
    congr 1
    ext j hj
    simp
  | succ k ih =>
    intro hk tmp buf
    have hkp : k < p := hk
    simp only [resLoop]
    rw [ih]
    have hdot : dotUpTo ps (buf.set k (if 0 < k then buf[k - 1] else value)) k = dotUpTo ps buf k := by
      apply dotUpTo_congr
      intro j hj hjk
      rw [Vector.getElem_set_ne]
      omega
    have hT : tmp - ps[k] * buf[k] - dotUpTo ps buf k = tmp - dotUpTo ps buf (k+1) := by
      rw [dotUpTo_succ, term_lt ps buf hkp]; ring
    rw [hdot, hT]
    congr 1
    ext j hj
    simp only [Vector.getElem_ofFn]
    by_cases h1 : j < k
    · have h2 : j < k + 1 := by omega
      simp only [h1, h2, if_true]
      by_cases h0 : j = 0
      · simp [h0]
      · simp only [h0, if_false]
        rw [Vector.getElem_set_ne]
        omega
    · by_cases h2 : j = k
      · subst h2
        simp only [lt_irrefl, if_false, Nat.lt_succ_self, if_true, Vector.getElem_set_self]
        by_cases h0 : j = 0
        · subst h0
          simp
        · have : 0 < j := by omega
          simp [h0, this]
      · have h3 : ¬ j < k + 1 := by omega
        simp only [h1, h3, if_false]
        rw [Vector.getElem_set_ne]
        omega

theorem predLoop_gen (ps buf : Vector α p) : ∀ (n : Nat) (hn : n ≤ p) (v : α),
    predLoop ps buf n hn v = v + ∑ j ∈ Ico (p - n) p, term ps buf j := by
  intro n
  induction n with
  | zero => intro hn v; simp [predLoop]
  | succ n ih =>
    intro hn v
    simp only [predLoop]
    rw [ih]
    have h1 : p - (n + 1) < p := by omega
    rw [Finset.sum_eq_sum_Ico_succ_bot h1, show p - (n + 1) + 1 = p - n by omega, term_lt ps buf h1]
    ring

/-- one pass of the simulation inner loop: accumulator `v + φ·buf`, buffer shifted with it in front -/
theorem simLoop_full (ps : Vector α p) (v : α) (buf : Vector α p) :
    simLoop nf ps p (Nat.le_refl p) v buf = (v + dot ps buf, shift (v + dot ps buf) buf) := by
  rw [simLoop_gen]
  unfold dot shift
  congr 1
  ext j hj
  simp

/-- one pass of the residual inner loop: accumulator `tmp - φ·buf`, buffer shifted with `value` in front -/
theorem resLoop_full (ps : Vector α p) (value tmp : α) (buf : Vector α p) :
    resLoop ps value p (Nat.le_refl p) tmp buf = (tmp - dot ps buf, shift value buf) := by
  rw [resLoop_gen]
  unfold dot shift
  congr 1
  ext j hj
  simp

/-- the prediction loop is the same dot product -/
theorem predLoop_full (ps buf : Vector α p) : predLoop ps buf p (Nat.le_refl p) 0 = dot ps buf := by
  rw [predLoop_gen]
  simp [dot, dotUpTo]


/-! ### the series loops, one step at a time -/

/-! `zeroNaN` (a missing innovation reads as zero), `past` and `glag` live in `Model/C17Spec.lean` (executable). -/

@[simp] theorem zeroNaN_none : zeroNaN (none : Option α) = 0 := rfl
@[simp] theorem zeroNaN_some (x : α) : zeroNaN (some x) = x := rfl

/-- the centred value the residual kernel works with: `x - m`, or the AR prediction when `x` is missing -/
def cval (ps buf : Vector α p) (m : α) : Option α → α
  | none => dot ps buf
  | some x => x - m

theorem centred_eq (ps buf : Vector α p) (m : α) (x : Option α) :
    centred nf ps buf m x = cval ps buf m x := by
  cases x <;> simp [centred, cval, predLoop_full, nf]

@[simp] theorem simRun_nil (ps : Vector α p) (m : α) (buf : Vector α p) : simRun nf ps m buf [] = [] := rfl
@[simp] theorem resRun_nil (ps : Vector α p) (m : α) (buf : Vector α p) : resRun nf ps m buf [] = [] := rfl

theorem simRun_cons (ps : Vector α p) (m : α) (buf : Vector α p) (e : Option α) (es : List (Option α)) :
    simRun nf ps m buf (e :: es) =
      (zeroNaN e + dot ps buf + m) :: simRun nf ps m (shift (zeroNaN e + dot ps buf) buf) es := by
  cases e <;> simp [simRun, simLoop_full, zeroNaN]

theorem resRun_cons (ps : Vector α p) (m : α) (buf : Vector α p) (x : Option α) (xs : List (Option α)) :
    resRun nf ps m buf (x :: xs) =
      (cval ps buf m x - dot ps buf) :: resRun nf ps m (shift (cval ps buf m x) buf) xs := by
  simp [resRun, resLoop_full, centred_eq]

theorem simBuf_cons (ps : Vector α p) (buf : Vector α p) (e : Option α) (es : List (Option α)) :
    simBuf nf ps buf (e :: es) = simBuf nf ps (shift (zeroNaN e + dot ps buf) buf) es := by
  cases e <;> simp [simBuf, simLoop_full, zeroNaN]

theorem resBuf_cons (ps : Vector α p) (m : α) (buf : Vector α p) (x : Option α) (xs : List (Option α)) :
    resBuf nf ps m buf (x :: xs) = resBuf nf ps m (shift (cval ps buf m x) buf) xs := by
  simp [resBuf, resLoop_full, centred_eq]

theorem simRun_length (ps : Vector α p) (m : α) : ∀ (es : List (Option α)) (buf : Vector α p),
    (simRun nf ps m buf es).length = es.length := by
  intro es; induction es with
  | nil => intro buf; rfl
  | cons e es ih => intro buf; rw [simRun_cons]; simp [ih]

theorem resRun_length (ps : Vector α p) (m : α) : ∀ (xs : List (Option α)) (buf : Vector α p),
    (resRun nf ps m buf xs).length = xs.length := by
  intro xs; induction xs with
  | nil => intro buf; rfl
  | cons x xs ih => intro buf; rw [resRun_cons]; simp [ih]

/-- the series the residuals stand for: present inputs as they are, missing inputs replaced by the AR
prediction from the (filled) past -/
def fill (ps : Vector α p) (m : α) : Vector α p → List (Option α) → List α
  | _, [] => []
  | buf, x :: xs => (cval ps buf m x + m) :: fill ps m (shift (cval ps buf m x) buf) xs

/-! ### inverse in both directions, by "both kernels hold the same buffer" (induction over the series) -/

theorem resRun_simRun (ps : Vector α p) (m : α) : ∀ (es : List (Option α)) (buf : Vector α p),
    resRun nf ps m buf ((simRun nf ps m buf es).map some) = es.map zeroNaN := by
  intro es; induction es with
  | nil => intro buf; rfl
  | cons e es ih =>
    intro buf
    rw [simRun_cons, List.map_cons, resRun_cons]
    have hv : cval ps buf m (some (zeroNaN e + dot ps buf + m)) = zeroNaN e + dot ps buf := by
      simp [cval]
    rw [hv, ih]
    simp

theorem simRun_resRun (ps : Vector α p) (m : α) : ∀ (xs : List (Option α)) (buf : Vector α p),
    simRun nf ps m buf ((resRun nf ps m buf xs).map some) = fill ps m buf xs := by
  intro xs; induction xs with
  | nil => intro buf; rfl
  | cons x xs ih =>
    intro buf
    rw [resRun_cons, List.map_cons, simRun_cons]
    have hv : zeroNaN (some (cval ps buf m x - dot ps buf)) + dot ps buf = cval ps buf m x := by
      simp [zeroNaN]
    rw [hv, ih]
    rfl

theorem fill_present (ps : Vector α p) (m : α) : ∀ (ys : List α) (buf : Vector α p),
    fill ps m buf (ys.map some) = ys := by
  intro ys; induction ys with
  | nil => intro buf; rfl
  | cons y ys ih => intro buf; simp [fill, cval, ih]

theorem fill_length (ps : Vector α p) (m : α) : ∀ (xs : List (Option α)) (buf : Vector α p),
    (fill ps m buf xs).length = xs.length := by
  intro xs; induction xs with
  | nil => intro buf; rfl
  | cons x xs ih => intro buf; simp [fill, ih]

theorem fill_at_present (ps : Vector α p) (m : α) : ∀ (xs : List (Option α)) (buf : Vector α p) (t : Nat) (y : α),
    xs[t]? = some (some y) → (fill ps m buf xs)[t]? = some y := by
  intro xs; induction xs with
  | nil => intro buf t y h; simp at h
  | cons x xs ih =>
    intro buf t y h
    cases t with
    | zero =>
      simp only [List.getElem?_cons_zero, Option.some.injEq] at h
      subst h
      simp [fill, cval]
    | succ t =>
      simp only [List.getElem?_cons_succ] at h
      simp only [fill, List.getElem?_cons_succ]
      exact ih _ t y h

theorem resRun_at_missing (ps : Vector α p) (m : α) : ∀ (xs : List (Option α)) (buf : Vector α p) (t : Nat),
    xs[t]? = some none → (resRun nf ps m buf xs)[t]? = some 0 := by
  intro xs; induction xs with
  | nil => intro buf t h; simp at h
  | cons x xs ih =>
    intro buf t h
    rw [resRun_cons]
    cases t with
    | zero =>
      simp only [List.getElem?_cons_zero, Option.some.injEq] at h
      subst h
      simp [cval]
    | succ t =>
      simp only [List.getElem?_cons_succ] at h ⊢
      exact ih _ t h

/-- the invariant itself: after every prefix of the series both kernels hold the same lag buffer -/
theorem resBuf_simRun (ps : Vector α p) (m : α) : ∀ (es : List (Option α)) (buf : Vector α p) (n : Nat),
    resBuf nf ps m buf (((simRun nf ps m buf es).map some).take n) = simBuf nf ps buf (es.take n) := by
  intro es; induction es with
  | nil => intro buf n; simp [resBuf, simBuf]
  | cons e es ih =>
    intro buf n
    cases n with
    | zero => simp [resBuf, simBuf]
    | succ n =>
      rw [simRun_cons, List.map_cons, List.take_succ_cons, List.take_succ_cons, resBuf_cons, simBuf_cons]
      have hv : cval ps buf m (some (zeroNaN e + dot ps buf + m)) = zeroNaN e + dot ps buf := by
        simp [cval]
      rw [hv, ih]

theorem simBuf_resRun (ps : Vector α p) (m : α) : ∀ (xs : List (Option α)) (buf : Vector α p) (n : Nat),
    simBuf nf ps buf (((resRun nf ps m buf xs).map some).take n) = resBuf nf ps m buf (xs.take n) := by
  intro xs; induction xs with
  | nil => intro buf n; simp [resBuf, simBuf]
  | cons x xs ih =>
    intro buf n
    cases n with
    | zero => simp [resBuf, simBuf]
    | succ n =>
      rw [resRun_cons, List.map_cons, List.take_succ_cons, List.take_succ_cons, resBuf_cons, simBuf_cons]
      have hv : zeroNaN (some (cval ps buf m x - dot ps buf)) + dot ps buf = cval ps buf m x := by
        simp [zeroNaN]
      rw [hv, ih]


/-! ### the AR recursion -/

theorem glag_cons (tmp m : α) (ys : List α) (buf : Vector α p) (t k : Nat) (hk : k < p) :
    glag ((tmp + m) :: ys) buf m (t + 1) k hk = glag ys (shift tmp buf) m t k hk := by
  unfold glag
  by_cases h1 : k < t
  · have h2 : k < t + 1 := by omega
    simp only [h1, h2, if_true]
    rw [show t + 1 - 1 - k = (t - 1 - k) + 1 by omega, List.getD_cons_succ]
  · by_cases h2 : k = t
    · subst h2
      simp [shift]
    · have h3 : ¬ k < t + 1 := by omega
      simp only [h1, h3, if_false, shift, Vector.getElem_ofFn]
      have h4 : k - t ≠ 0 := by omega
      simp only [h4, if_false]
      congr 1

theorem simRun_recursion (ps : Vector α p) (m : α) :
    ∀ (es : List (Option α)) (buf : Vector α p) (t : Nat) (e : Option α) (y : α),
      es[t]? = some e → (simRun nf ps m buf es)[t]? = some y →
      y - m = (∑ k : Fin p, ps[k.val] * glag (simRun nf ps m buf es) buf m t k.val k.isLt) + zeroNaN e := by
  intro es; induction es with
  | nil => intro buf t e y h; simp at h
  | cons e0 es ih =>
    intro buf t e y he hy
    rw [simRun_cons] at hy ⊢
    cases t with
    | zero =>
      simp only [List.getElem?_cons_zero, Option.some.injEq] at he hy
      subst he; subst hy
      rw [dot_eq_sum_fin]
      simp only [glag, Nat.not_lt_zero, if_false, Nat.sub_zero]
      ring
    | succ t =>
      simp only [List.getElem?_cons_succ] at he hy
      rw [ih _ t e y he hy]
      congr 1
      apply sum_congr rfl
      intro k _
      rw [glag_cons]

/-- what the buffer holds after the series: the centred past values, most recent first -/
theorem simBuf_content (ps : Vector α p) (m : α) :
    ∀ (es : List (Option α)) (buf : Vector α p) (k : Nat) (hk : k < p),
      (simBuf nf ps buf es)[k] = glag (simRun nf ps m buf es) buf m es.length k hk := by
  intro es; induction es with
  | nil => intro buf k hk; simp [simBuf, glag]
  | cons e es ih =>
    intro buf k hk
    rw [simBuf_cons, simRun_cons, List.length_cons, glag_cons, ih]


/-! ### guards -/

theorem allSome_map_some {β : Type} (ps : List β) : allSome (ps.map some) = some ps := by
  induction ps with
  | nil => rfl
  | cons a t ih => simp [allSome, ih]

theorem allSome_eq_some {β : Type} : ∀ (l : List (Option β)) (ps : List β), allSome l = some ps → l = ps.map some := by
  intro l; induction l with
  | nil => intro ps h; simp [allSome] at h; subst h; rfl
  | cons a t ih =>
    intro ps h
    cases a with
    | none => simp [allSome] at h
    | some a =>
      simp only [allSome] at h
      cases ht : allSome t with
      | none => simp [ht] at h
      | some l' =>
        simp only [ht, Option.some.injEq] at h
        subst h
        simp [ih l' ht]

theorem allSome_eq_none {β : Type} : ∀ (l : List (Option β)), allSome l = none ↔ none ∈ l := by
  intro l; induction l with
  | nil => simp [allSome]
  | cons a t ih =>
    cases a with
    | none => simp [allSome]
    | some a =>
      simp only [allSome]
      cases ht : allSome t with
      | none => simp [ih.mp ht]
      | some l' =>
        have : none ∉ t := fun h => by rw [ih.mpr h] at ht; cases ht
        simp [this]

omit [CommRing α] in
/-- the guards accept exactly: order in 1..10, no NaN coefficient, mean and initial value not NaN -/
theorem validate_ok (ps : List α) (m i : α) (h1 : 1 ≤ ps.length) (h10 : ps.length ≤ 10) :
    validate (ps.map some) (some m) (some i) = .ok (ps, m, i) := by
  have : ¬ (10 < ps.length) := by omega
  have h0 : ps.length ≠ 0 := by omega
  simp [validate, nparamsMax, allSome_map_some, this, h0]

omit [CommRing α] in
theorem validate_eq_ok (params : List (Option α)) (mean ini : Option α) (ps : List α) (m i : α)
    (h : validate params mean ini = .ok (ps, m, i)) :
    params = ps.map some ∧ mean = some m ∧ ini = some i ∧ 1 ≤ ps.length ∧ ps.length ≤ 10 := by
  unfold validate at h
  split at h
  · cases h
  · rename_i hlen
    simp [nparamsMax] at hlen
    cases hp : allSome params with
    | none => simp [hp] at h
    | some ps' =>
      cases mean with
      | none => simp [hp] at h
      | some m' =>
        cases ini with
        | none => simp [hp] at h
        | some i' =>
          simp only [hp, Except.ok.injEq, Prod.mk.injEq] at h
          obtain ⟨rfl, rfl, rfl⟩ := h
          have := allSome_eq_some params ps' hp
          subst this
          have h10 : ¬ 10 < ps'.length := by
            have := of_decide_eq_false hlen.1
            simpa using this
          have h0 : ps' ≠ [] := by
            intro h0; subst h0; simp at hlen
          have := List.length_pos_iff.mpr h0
          exact ⟨rfl, rfl, rfl, by omega, by omega⟩


omit [CommRing α] in
theorem validate_isOk_iff (params : List (Option α)) (mean ini : Option α) :
    (∃ r, validate params mean ini = .ok r) ↔
      (1 ≤ params.length ∧ params.length ≤ 10 ∧ none ∉ params ∧ mean ≠ none ∧ ini ≠ none) := by
  constructor
  · rintro ⟨⟨ps, m, i⟩, h⟩
    obtain ⟨rfl, rfl, rfl, h1, h10⟩ := validate_eq_ok params mean ini ps m i h
    simp [h1, h10]
  · rintro ⟨h1, h10, hp, hm, hi⟩
    cases hps : allSome params with
    | none => exact absurd ((allSome_eq_none params).mp hps) hp
    | some ps =>
      have := allSome_eq_some params ps hps
      subst this
      obtain ⟨m, rfl⟩ := Option.ne_none_iff_exists'.mp hm
      obtain ⟨i, rfl⟩ := Option.ne_none_iff_exists'.mp hi
      simp only [List.length_map] at h1 h10
      exact ⟨_, validate_ok ps m i h1 h10⟩

omit [CommRing α] in
/-- which guard speaks, in the order of the C text -/
theorem validate_error (params : List (Option α)) (mean ini : Option α) :
    (validate params mean ini = .error .badOrder ↔ (params.length = 0 ∨ 10 < params.length)) ∧
    (validate params mean ini = .error .nanParam ↔
      (1 ≤ params.length ∧ params.length ≤ 10 ∧ none ∈ params)) ∧
    (validate params mean ini = .error .nanMean ↔
      (1 ≤ params.length ∧ params.length ≤ 10 ∧ none ∉ params ∧ mean = none)) ∧
    (validate params mean ini = .error .nanIni ↔
      (1 ≤ params.length ∧ params.length ≤ 10 ∧ none ∉ params ∧ mean ≠ none ∧ ini = none)) := by
  unfold validate
  by_cases hb : params.length = 0 ∨ 10 < params.length
  · have hlen : (decide (nparamsMax < params.length) || params.length == 0) = true := by
      rcases hb with h | h
      · simp [h]
      · simp [nparamsMax, h]
    rw [if_pos hlen]
    refine ⟨⟨fun _ => hb, fun _ => rfl⟩, ⟨fun h => (by cases h), fun h => (by omega)⟩,
      ⟨fun h => (by cases h), fun h => (by omega)⟩, ⟨fun h => (by cases h), fun h => (by omega)⟩⟩
  · have hlen : ¬ (decide (nparamsMax < params.length) || params.length == 0) = true := by
      intro h
      rcases (Bool.or_eq_true _ _).mp h with h | h
      · have h' := of_decide_eq_true h
        simp only [nparamsMax] at h'
        omega
      · have h' : params.length = 0 := by simpa using h
        omega
    have hl : 1 ≤ params.length ∧ params.length ≤ 10 := by omega
    rw [if_neg hlen]
    cases hps : allSome params with
    | none =>
      have hin := (allSome_eq_none params).mp hps
      refine ⟨⟨fun h => (by cases h), fun h => absurd h hb⟩, ⟨fun _ => ⟨hl.1, hl.2, hin⟩, fun _ => rfl⟩,
        ⟨fun h => (by cases h), fun h => absurd hin h.2.2.1⟩, ⟨fun h => (by cases h), fun h => absurd hin h.2.2.1⟩⟩
    | some ps =>
      have hnot : none ∉ params := fun h => by rw [(allSome_eq_none params).mpr h] at hps; cases hps
      cases mean with
      | none =>
        refine ⟨⟨fun h => (by cases h), fun h => absurd h hb⟩, ⟨fun h => (by cases h), fun h => absurd h.2.2 hnot⟩,
          ⟨fun _ => ⟨hl.1, hl.2, hnot, rfl⟩, fun _ => rfl⟩, ⟨fun h => (by cases h), fun h => absurd rfl h.2.2.2.1⟩⟩
      | some m =>
        cases ini with
        | none =>
          refine ⟨⟨fun h => (by cases h), fun h => absurd h hb⟩, ⟨fun h => (by cases h), fun h => absurd h.2.2 hnot⟩,
            ⟨fun h => (by cases h), fun h => (by cases h.2.2.2)⟩,
            ⟨fun _ => ⟨hl.1, hl.2, hnot, by simp, rfl⟩, fun _ => rfl⟩⟩
        | some i =>
          refine ⟨⟨fun h => (by cases h), fun h => absurd h hb⟩, ⟨fun h => (by cases h), fun h => absurd h.2.2 hnot⟩,
            ⟨fun h => (by cases h), fun h => (by cases h.2.2.2)⟩, ⟨fun h => (by cases h), fun h => (by cases h.2.2.2.2)⟩⟩

/-! ### from the API-level functions down to the series loops -/

theorem sim_of_valid (nan : α → Bool) (ps : List α) (m i : α) (innov : List (Option α))
    (h1 : 1 ≤ ps.length) (h10 : ps.length ≤ 10) :
    sim nan (ps.map some) (some m) (some i) innov =
      .ok (simRun nan (toVec ps) m (Vector.replicate ps.length (i - m)) innov) := by
  simp [sim, validate_ok ps m i h1 h10]

theorem residual_of_valid (nan : α → Bool) (ps : List α) (m i : α) (inputs : List (Option α))
    (h1 : 1 ≤ ps.length) (h10 : ps.length ≤ 10) :
    residual nan (ps.map some) (some m) (some i) inputs =
      .ok (resRun nan (toVec ps) m (Vector.replicate ps.length (i - m)) inputs) := by
  simp [residual, validate_ok ps m i h1 h10]

theorem sim_eq_ok (nan : α → Bool) (params : List (Option α)) (mean ini : Option α)
    (innov : List (Option α)) (ys : List α) (h : sim nan params mean ini innov = .ok ys) :
    ∃ (ps : List α) (m i : α), params = ps.map some ∧ mean = some m ∧ ini = some i ∧
      1 ≤ ps.length ∧ ps.length ≤ 10 ∧
      ys = simRun nan (toVec ps) m (Vector.replicate ps.length (i - m)) innov := by
  unfold sim at h
  cases hv : validate params mean ini with
  | error e => simp [hv] at h
  | ok r =>
    obtain ⟨ps, m, i⟩ := r
    simp only [hv, Except.ok.injEq] at h
    obtain ⟨h1, h2, h3, h4, h5⟩ := validate_eq_ok params mean ini ps m i hv
    exact ⟨ps, m, i, h1, h2, h3, h4, h5, h.symm⟩

theorem residual_eq_ok (nan : α → Bool) (params : List (Option α)) (mean ini : Option α)
    (inputs : List (Option α)) (rs : List α) (h : residual nan params mean ini inputs = .ok rs) :
    ∃ (ps : List α) (m i : α), params = ps.map some ∧ mean = some m ∧ ini = some i ∧
      1 ≤ ps.length ∧ ps.length ≤ 10 ∧
      rs = resRun nan (toVec ps) m (Vector.replicate ps.length (i - m)) inputs := by
  unfold residual at h
  cases hv : validate params mean ini with
  | error e => simp [hv] at h
  | ok r =>
    obtain ⟨ps, m, i⟩ := r
    simp only [hv, Except.ok.injEq] at h
    obtain ⟨h1, h2, h3, h4, h5⟩ := validate_eq_ok params mean ini ps m i hv
    exact ⟨ps, m, i, h1, h2, h3, h4, h5, h.symm⟩

theorem sim_error_iff (nan : α → Bool) (params : List (Option α)) (mean ini : Option α)
    (innov : List (Option α)) (e : Err) :
    sim nan params mean ini innov = .error e ↔ validate params mean ini = .error e := by
  unfold sim
  cases hv : validate params mean ini with
  | error e' => simp
  | ok r => obtain ⟨ps, m, i⟩ := r; simp

theorem residual_error_iff (nan : α → Bool) (params : List (Option α)) (mean ini : Option α)
    (inputs : List (Option α)) (e : Err) :
    residual nan params mean ini inputs = .error e ↔ validate params mean ini = .error e := by
  unfold residual
  cases hv : validate params mean ini with
  | error e' => simp
  | ok r => obtain ⟨ps, m, i⟩ := r; simp

theorem simRun_length' (nan : α → Bool) (ps : Vector α p) (m : α) :
    ∀ (es : List (Option α)) (buf : Vector α p), (simRun nan ps m buf es).length = es.length := by
  intro es; induction es with
  | nil => intro buf; rfl
  | cons e es ih => intro buf; simp [simRun, ih]

theorem resRun_length' (nan : α → Bool) (ps : Vector α p) (m : α) :
    ∀ (xs : List (Option α)) (buf : Vector α p), (resRun nan ps m buf xs).length = xs.length := by
  intro xs; induction xs with
  | nil => intro buf; rfl
  | cons x xs ih => intro buf; simp [resRun, ih]

/-- a NaN innovation is read as 0 before anything else happens (any `isnan`, e.g. at `Float`) -/
theorem simRun_zeroed (nan : α → Bool) (ps : Vector α p) (m : α) :
    ∀ (es : List (Option α)) (buf : Vector α p),
      simRun nan ps m buf (es.map fun e => some (zeroNaN e)) = simRun nan ps m buf es := by
  intro es; induction es with
  | nil => intro buf; rfl
  | cons e es ih => intro buf; cases e <;> simp only [List.map_cons, simRun, zeroNaN_none, zeroNaN_some, ih]

omit [CommRing α] in
theorem toVec_getElem (ps : List α) (k : Nat) (hk : k < ps.length) : (toVec ps)[k] = ps[k] := by
  simp [toVec]

theorem glag_replicate (ys : List α) (ini m : α) (t k : Nat) (hk : k < p) (ht : t ≤ ys.length) :
    glag ys (Vector.replicate p (ini - m)) m t k hk = past ys ini t k - m := by
  unfold glag past
  by_cases h1 : k < t
  · have h2 : t - 1 - k < ys.length := by omega
    simp [h1, h2, List.getD_eq_getElem?_getD]
  · simp [h1]


/-! ### the lag buffer is the whole state: a run can be cut anywhere and resumed from it (any `isnan`) -/

theorem simRun_append (nan : α → Bool) (ps : Vector α p) (m : α) :
    ∀ (es1 es2 : List (Option α)) (buf : Vector α p),
      simRun nan ps m buf (es1 ++ es2) =
        simRun nan ps m buf es1 ++ simRun nan ps m (simBuf nan ps buf es1) es2 := by
  intro es1; induction es1 with
  | nil => intro es2 buf; rfl
  | cons e es ih => intro es2 buf; simp only [List.cons_append, simRun, simBuf, ih]

theorem simBuf_append (nan : α → Bool) (ps : Vector α p) :
    ∀ (es1 es2 : List (Option α)) (buf : Vector α p),
      simBuf nan ps buf (es1 ++ es2) = simBuf nan ps (simBuf nan ps buf es1) es2 := by
  intro es1; induction es1 with
  | nil => intro es2 buf; rfl
  | cons e es ih => intro es2 buf; simp only [List.cons_append, simBuf, ih]

theorem resRun_append (nan : α → Bool) (ps : Vector α p) (m : α) :
    ∀ (xs1 xs2 : List (Option α)) (buf : Vector α p),
      resRun nan ps m buf (xs1 ++ xs2) =
        resRun nan ps m buf xs1 ++ resRun nan ps m (resBuf nan ps m buf xs1) xs2 := by
  intro xs1; induction xs1 with
  | nil => intro xs2 buf; rfl
  | cons x xs ih => intro xs2 buf; simp only [List.cons_append, resRun, resBuf, ih]

theorem resBuf_append (nan : α → Bool) (ps : Vector α p) (m : α) :
    ∀ (xs1 xs2 : List (Option α)) (buf : Vector α p),
      resBuf nan ps m buf (xs1 ++ xs2) = resBuf nan ps m (resBuf nan ps m buf xs1) xs2 := by
  intro xs1; induction xs1 with
  | nil => intro xs2 buf; rfl
  | cons x xs ih => intro xs2 buf; simp only [List.cons_append, resBuf, ih]

/-! ### `numpy.nanmean`: defined exactly when some value is present -/

omit [CommRing α] in
theorem dataCount_eq_zero_iff (xs : List (Option α)) : dataCount xs = 0 ↔ ∀ x ∈ xs, x = none := by
  unfold dataCount
  rw [List.length_eq_zero_iff, List.filter_eq_nil_iff]
  constructor
  · intro h x hx
    have := h x hx
    cases x with
    | none => rfl
    | some v => simp at this
  · intro h x hx
    rw [h x hx]; simp

end HydroVerif.C17
