/-
C08 — helper lemmas for the calendar-day level of monthly2daily: consecutive days (`nextDay`, `daysFrom`) against the
month-by-month enumeration (`monthDays`, `monthAt`), the month a day belongs to (`monthIndex`), and the two branches of
`m2dSeries` as the stamped per-month lists of `m2d` (`stampMonths`).
-/
import HydroVerif.Lemmas.C08

namespace HydroVerif.C08

/-! ### consecutive days -/

/-- the first day of the month after `(y, m)` -/
def firstOfNext (y : Int) (m : Nat) : Date :=
  if m < 12 then { y := y, m := m + 1, d := 1 } else { y := y + 1, m := 1, d := 1 }

theorem daysFrom_append (t : Date) (a b : Nat) :
    daysFrom t (a + b) = daysFrom t a ++ daysFrom ((nextDay^[a]) t) b := by
  induction a generalizing t with
  | zero => simp [daysFrom]
  | succ a ih =>
    rw [show a + 1 + b = (a + b) + 1 by omega]
    simp only [daysFrom, Function.iterate_succ, Function.comp_apply]
    rw [ih]
    rfl

theorem daysFrom_length (t : Date) (n : Nat) : (daysFrom t n).length = n := by
  induction n generalizing t with
  | zero => rfl
  | succ n ih => simp [daysFrom, ih]

/-- from day `d` to the end of the month, then on into the next month -/
theorem daysFrom_in_month (y : Int) (m : Nat) (r : Nat) :
    ∀ (k d : Nat), d + k = daysInMonth y m →
      daysFrom { y := y, m := m, d := d } (k + 1 + r) =
        (List.range' d (k + 1)).map (fun e => ({ y := y, m := m, d := e } : Date)) ++ daysFrom (firstOfNext y m) r
  | 0, d, h => by
    have hn : nextDay { y := y, m := m, d := d } = firstOfNext y m := by
      simp only [nextDay, firstOfNext]
      rw [if_neg (by omega)]
    rw [show 0 + 1 + r = r + 1 by omega]
    simp [daysFrom, hn, List.range']
  | k + 1, d, h => by
    have hn : nextDay { y := y, m := m, d := d } = { y := y, m := m, d := d + 1 } := by
      simp only [nextDay]
      rw [if_pos (by omega)]
    have ih := daysFrom_in_month y m r k (d + 1) (by omega)
    rw [show k + 1 + 1 + r = (k + 1 + r) + 1 by omega]
    simp only [daysFrom, hn]
    rw [ih]
    simp [List.range']

theorem monthDays_eq (y : Int) (m : Nat) :
    monthDays y m = (List.range' 1 (daysInMonth y m)).map (fun e => ({ y := y, m := m, d := e } : Date)) := by
  unfold monthDays
  rw [List.range'_eq_map_range, List.map_map]
  apply List.map_congr_left
  intro d _
  simp [Nat.add_comm]

/-- a whole month, then on into the next -/
theorem daysFrom_month (y : Int) (m : Nat) (h1 : 1 ≤ m) (h12 : m ≤ 12) (r : Nat) :
    daysFrom { y := y, m := m, d := 1 } (daysInMonth y m + r) = monthDays y m ++ daysFrom (firstOfNext y m) r := by
  have hr := daysInMonth_range y m h1 h12
  obtain ⟨k, hk⟩ : ∃ k, daysInMonth y m = k + 1 := ⟨daysInMonth y m - 1, by omega⟩
  have := daysFrom_in_month y m r k 1 (by omega)
  rw [monthDays_eq, hk, this]

theorem monthAt_zero' (y0 : Int) (m0 : Nat) (h1 : 1 ≤ m0) (h12 : m0 ≤ 12) : monthAt y0 m0 0 = (y0, m0) := by
  simp only [monthAt, Nat.add_zero]
  have h1 : (m0 - 1) / 12 = 0 := by omega
  have h2 : (m0 - 1) % 12 + 1 = m0 := by omega
  simp [h1, h2]

theorem firstOfNext_monthAt (y0 : Int) (m0 j : Nat) :
    firstOfNext (monthAt y0 m0 j).1 (monthAt y0 m0 j).2 =
      { y := (monthAt y0 m0 (j + 1)).1, m := (monthAt y0 m0 (j + 1)).2, d := 1 } := by
  unfold firstOfNext
  split
  · rename_i h
    simp only [monthAt] at h ⊢
    have h1 : (m0 - 1 + (j + 1)) / 12 = (m0 - 1 + j) / 12 := by omega
    have h2 : (m0 - 1 + (j + 1)) % 12 = (m0 - 1 + j) % 12 + 1 := by omega
    rw [h1, h2]
  · rename_i h
    simp only [monthAt] at h ⊢
    have h1 : (m0 - 1 + (j + 1)) / 12 = (m0 - 1 + j) / 12 + 1 := by omega
    have h2 : (m0 - 1 + (j + 1)) % 12 = 0 := by omega
    rw [h1, h2]
    simp only [Nat.cast_add, Nat.cast_one, Date.mk.injEq, and_true]
    omega

theorem monthLengths_succ (y0 : Int) (m0 k : Nat) :
    monthLengths y0 m0 (k + 1) = monthLengths y0 m0 k ++ [ndaysAt y0 m0 k] := by
  simp [monthLengths, List.range_succ]

/-- **consecutive days = calendar days of consecutive months**: counting on from the first day of the starting month
for the total length of `k` months enumerates exactly the days of these months, month by month, and arrives at the
first day of month `k` -/
theorem daysFrom_months (y0 : Int) (m0 : Nat) (h1 : 1 ≤ m0) (h12 : m0 ≤ 12) :
    ∀ (k r : Nat), daysFrom { y := y0, m := m0, d := 1 } ((monthLengths y0 m0 k).sum + r) =
      ((List.range k).flatMap fun j => monthDays (monthAt y0 m0 j).1 (monthAt y0 m0 j).2) ++
        daysFrom { y := (monthAt y0 m0 k).1, m := (monthAt y0 m0 k).2, d := 1 } r
  | 0, r => by
    simp [monthLengths, monthAt_zero' y0 m0 h1 h12]
  | k + 1, r => by
    have hv := monthAt_month_valid y0 m0 k
    rw [monthLengths_succ, List.sum_append, List.sum_singleton, Nat.add_assoc,
      daysFrom_months y0 m0 h1 h12 k (ndaysAt y0 m0 k + r)]
    unfold ndaysAt
    rw [daysFrom_month _ _ hv.1 hv.2, firstOfNext_monthAt, List.range_succ, List.flatMap_append]
    simp

theorem mem_monthDays {y : Int} {m : Nat} {t : Date} (h : t ∈ monthDays y m) :
    t.y = y ∧ t.m = m ∧ 1 ≤ t.d ∧ t.d ≤ daysInMonth y m := by
  unfold monthDays at h
  obtain ⟨d, hd, rfl⟩ := List.mem_map.mp h
  have := List.mem_range.mp hd
  simp
  omega

theorem monthDays_length (y : Int) (m : Nat) : (monthDays y m).length = daysInMonth y m := by
  simp [monthDays]

/-- the month a day of month `j` of the series belongs to is month `j` -/
theorem monthIndex_monthAt (y0 : Int) (m0 : Nat) (h1 : 1 ≤ m0) (h12 : m0 ≤ 12) (j : Nat) (t : Date)
    (ht : t ∈ monthDays (monthAt y0 m0 j).1 (monthAt y0 m0 j).2) : monthIndex y0 m0 t = (j : Int) := by
  obtain ⟨hy, hm, _, _⟩ := mem_monthDays ht
  simp only [monthIndex, hy, hm, monthAt]
  omega

/-- different positions of the series are different calendar months -/
theorem monthAt_injective (y0 : Int) (m0 i j : Nat) (h : monthAt y0 m0 i = monthAt y0 m0 j) : i = j := by
  simp only [monthAt, Prod.mk.injEq] at h
  omega

/-! ### list plumbing -/

theorem zip_replicate_right {β γ : Type} (xs : List β) (c : γ) :
    xs.zip (List.replicate xs.length c) = xs.map fun x => (x, c) := by
  induction xs with
  | nil => rfl
  | cons x t ih => simp [List.replicate_succ, ih]

/-- zipping two concatenations of blocks of pairwise equal lengths = concatenating the zipped blocks -/
theorem zip_flatMap_range {β γ : Type} (f : Nat → List β) (g : Nat → List γ) :
    ∀ (k : Nat), (∀ j < k, (f j).length = (g j).length) →
      ((List.range k).flatMap f).zip ((List.range k).flatMap g) = (List.range k).flatMap fun j => (f j).zip (g j)
  | 0, _ => by simp
  | k + 1, h => by
    have ih := zip_flatMap_range f g k (fun j hj => h j (by omega))
    have hl : ((List.range k).flatMap f).length = ((List.range k).flatMap g).length := by
      have := congrArg List.length ih
      have hlen : ∀ j ∈ List.range k, ((f j).zip (g j)).length = (f j).length := by
        intro j hj
        simp [h j (by have := List.mem_range.mp hj; omega)]
      clear ih this hlen
      induction k with
      | zero => simp
      | succ k ihk =>
        simp only [List.range_succ, List.flatMap_append, List.length_append, List.flatMap_cons, List.flatMap_nil,
          List.append_nil]
        rw [ihk (fun j hj => h j (by omega)), h k (by omega)]
    simp only [List.range_succ, List.flatMap_append, List.flatMap_cons, List.flatMap_nil, List.append_nil]
    rw [List.zip_append hl, ih]

theorem flatten_eq_flatMap_range {β : Type} (L : List (List β)) :
    L.flatten = (List.range L.length).flatMap fun j => L.getD j [] := by
  induction L using List.reverseRecOn with
  | nil => simp
  | append_singleton L x ih =>
    rw [List.flatten_append, ih, List.length_append, List.length_singleton, List.range_succ, List.flatMap_append]
    congr 1
    · apply List.flatMap_congr
      intro j hj
      have := List.mem_range.mp hj
      simp [List.getD_eq_getElem?_getD, List.getElem?_append_left this]
    · simp [List.getD_eq_getElem?_getD]

/-- in a concatenation of blocks each carrying its own tag, filtering on one tag returns that block -/
theorem filter_flatMap_block {β : Type} (B : Nat → List β) (tag : β → Nat) (k j : Nat) (hj : j < k)
    (htag : ∀ i < k, ∀ b ∈ B i, tag b = i) :
    ((List.range k).flatMap B).filter (fun b => tag b == j) = B j := by
  induction k with
  | zero => omega
  | succ k ih =>
    rw [List.range_succ, List.flatMap_append, List.filter_append]
    simp only [List.flatMap_cons, List.flatMap_nil, List.append_nil]
    by_cases hjk : j = k
    · subst hjk
      have h1 : ((List.range j).flatMap B).filter (fun b => tag b == j) = [] := by
        rw [List.filter_eq_nil_iff]
        intro b hb
        obtain ⟨i, hi, hbi⟩ := List.mem_flatMap.mp hb
        have hi' := List.mem_range.mp hi
        have := htag i (by omega) b hbi
        simp
        omega
      have h2 : (B j).filter (fun b => tag b == j) = B j := by
        rw [List.filter_eq_self]
        intro b hb
        simp [htag j (by omega) b hb]
      rw [h1, h2, List.nil_append]
    · have h2 : (B k).filter (fun b => tag b == j) = [] := by
        rw [List.filter_eq_nil_iff]
        intro b hb
        have := htag k (by omega) b hb
        simp
        omega
      rw [h2, List.append_nil]
      exact ih (by omega) (fun i hi => htag i (by omega))

/-! ### the flat branch, day by day = the stamped per-month lists (any carrier: no arithmetic law is used) -/
section flatser
set_option linter.unusedSectionVars false
variable {α : Type} [Add α] [Sub α] [Mul α] [Div α] [LT α] [DecidableLT α] [OfNat α 0] [OfNat α 1] [NatCast α]

theorem flatMonth_eq_replicate (minthr : α) (v : Option α) (n : Nat) :
    flatMonth minthr v n = List.replicate n
      (if fillMissing minthr v / (n : α) < minthr then none else some (fillMissing minthr v / (n : α))) := by
  cases v <;> rfl

theorem m2dFlatSeries_eq (y0 : Int) (m0 : Nat) (minthr : α) (vs : List (Option α)) :
    m2dFlatSeries y0 m0 minthr vs =
      match m2dFlat y0 m0 minthr vs with
      | .ok months => .ok (stampMonths y0 m0 months)
      | .error e => .error e := by
  unfold m2dFlatSeries m2dFlat
  by_cases hm : m0 < 1 ∨ 12 < m0
  · rw [if_pos hm, if_pos hm]
  by_cases hv : vs = []
  · rw [if_neg hm, if_pos hv, if_neg hm, if_pos hv]
  rw [if_neg hm, if_neg hv, if_neg hm, if_neg hv]
  have h1 : 1 ≤ m0 := by omega
  have h12 : m0 ≤ 12 := by omega
  simp only [List.length_map]
  congr 1
  rw [daysFrom_months y0 m0 h1 h12 vs.length 1]
  simp only [daysFrom, List.map_append, List.map_cons, List.map_nil, List.dropLast_concat, List.map_flatMap,
    List.map_map]
  unfold stampMonths
  have hlen : (List.zipWith (flatMonth minthr) vs (monthLengths y0 m0 vs.length)).length = vs.length := by
    simp [monthLengths_length]
  rw [hlen]
  apply List.flatMap_congr
  intro j hj
  have hj' : j < vs.length := List.mem_range.mp hj
  have hget : (List.zipWith (flatMonth minthr) vs (monthLengths y0 m0 vs.length)).getD j [] =
      flatMonth minthr vs[j] (ndaysAt y0 m0 j) := by
    rw [List.getD_eq_getElem?_getD, List.getElem?_eq_getElem (by rw [hlen]; exact hj')]
    simp [monthLengths_getElem]
  rw [hget, flatMonth_eq_replicate]
  have hml : (monthDays (monthAt y0 m0 j).1 (monthAt y0 m0 j).2).length = ndaysAt y0 m0 j := by
    simp [monthDays_length, ndaysAt]
  rw [← hml, zip_replicate_right, hml]
  apply List.map_congr_left
  intro t ht
  have hidx := monthIndex_monthAt y0 m0 h1 h12 j t ht
  obtain ⟨hy, hmm, _, _⟩ := mem_monthDays ht
  simp only [Function.comp_apply, hidx, Int.toNat_natCast, List.getElem?_map,
    List.getElem?_eq_getElem hj', Option.map_some, Option.join_some, hy, hmm, Option.bind_some]
  rfl

end flatser

/-! ### the cubic branch up to the returned Series = the stamped per-month lists (ordered field: nothing is NaN) -/
section cubicser
set_option linter.unusedSectionVars false
variable {α : Type} [Field α] [LinearOrder α] [IsStrictOrderedRing α]

theorem cubicRow_filter (isnan : α → Bool) (hnan : ∀ x, isnan x = false) (m : Month α) (hn : 0 < m.n)
    (h31 : m.n ≤ 31) : (cubicRow isnan m).filterMap id = cubicMonth m := by
  unfold cubicRow cubicMonth
  have hn' : (0 : α) < (m.n : α) := by exact_mod_cast hn
  have hcond : ∀ j : Nat, ((1 : α) < ((j + 1 : Nat) : α) / (m.n : α)) ↔ m.n < j + 1 := by
    intro j
    rw [lt_div_iff₀ hn', one_mul]
    exact_mod_cast Iff.rfl
  rw [List.filterMap_map]
  obtain ⟨r, hr⟩ : ∃ r, 31 = m.n + r := ⟨31 - m.n, by omega⟩
  rw [hr, List.range_add, List.filterMap_append]
  have h2 : ((List.range r).map (m.n + ·)).filterMap
      (id ∘ fun j => if (1 : α) < ((j + 1 : Nat) : α) / (m.n : α) then none
        else if isnan (cum m (j + 1) - cum m j) = true then none else some (cum m (j + 1) - cum m j)) = [] := by
    rw [List.filterMap_eq_nil_iff]
    intro j hj
    obtain ⟨i, _, rfl⟩ := List.mem_map.mp hj
    have : m.n < m.n + i + 1 := by omega
    simp only [Function.comp_apply, id, if_pos ((hcond (m.n + i)).mpr this)]
  rw [h2, List.append_nil]
  rw [← List.filterMap_eq_map]
  apply List.filterMap_congr
  intro j hj
  have hj' := List.mem_range.mp hj
  have : ¬ m.n < j + 1 := by omega
  simp only [Function.comp_apply, id, if_neg ((hcond j).not.mpr this), hnan, Bool.false_eq_true, if_false]

theorem rows_filter (isnan : α → Bool) (hnan : ∀ x, isnan x = false) :
    ∀ (ms : List (Month α)), (∀ m ∈ ms, 0 < m.n ∧ m.n ≤ 31) →
      ((ms.map (cubicRow isnan)).flatten).filterMap id = (ms.map cubicMonth).flatten
  | [], _ => by simp
  | m :: rest, h => by
    have hm := h m (List.mem_cons_self ..)
    simp only [List.map_cons, List.flatten_cons, List.filterMap_append]
    rw [cubicRow_filter isnan hnan m hm.1 hm.2,
      rows_filter isnan hnan rest (fun m' hm' => h m' (List.mem_cons_of_mem _ hm'))]

/-- the months keep the lengths of the calendar through set-up and sweep -/
theorem sweep_cubicInit_n (ys : List α) (ns : List Nat) (h : ys.length = ns.length) :
    (sweep (cubicInit ys ns)).map (fun m => m.n) = ns := by
  have := congrArg (List.map Prod.snd) ((sweep_yn (cubicInit ys ns)).trans (cubicInit_yn ys ns h))
  simpa [List.map_map, Function.comp_def, List.map_snd_zip (by omega : ns.length ≤ ys.length) ] using this

theorem m2dCubicSeries_eq (isnan : α → Bool) (hnan : ∀ x, isnan x = false) (y0 : Int) (m0 : Nat) (minthr : α)
    (vs : List (Option α)) :
    m2dCubicSeries isnan y0 m0 minthr vs =
      match m2dCubic y0 m0 minthr vs with
      | .ok months => .ok (stampMonths y0 m0 months)
      | .error e => .error e := by
  unfold m2dCubicSeries m2dCubic
  by_cases hm : m0 < 1 ∨ 12 < m0
  · rw [if_pos hm, if_pos hm]
  by_cases hv : vs = []
  · rw [if_neg hm, if_pos hv, if_neg hm, if_pos hv]
  rw [if_neg hm, if_neg hv, if_neg hm, if_neg hv]
  have h1 : 1 ≤ m0 := by omega
  have h12 : m0 ≤ 12 := by omega
  simp only [List.length_map]
  congr 1
  generalize hms : sweep (cubicInit (vs.map (fillMissing minthr)) (monthLengths y0 m0 vs.length)) = ms
  have hns : ms.map (fun m => m.n) = monthLengths y0 m0 vs.length := by
    rw [← hms]
    exact sweep_cubicInit_n _ _ (by simp [monthLengths_length])
  have hk : ms.length = vs.length := by
    have := congrArg List.length hns
    simpa [monthLengths_length] using this
  have hnj : ∀ j (hj : j < ms.length), ms[j].n = ndaysAt y0 m0 j := by
    intro j hj
    have := congrArg (fun l => l[j]?) hns
    simp only [List.getElem?_map, List.getElem?_eq_getElem hj, Option.map_some] at this
    rw [List.getElem?_eq_getElem (by simp [monthLengths_length]; omega)] at this
    simpa [monthLengths_getElem] using this
  have hrange : ∀ m ∈ ms, 0 < m.n ∧ m.n ≤ 31 := by
    intro m hmem
    obtain ⟨j, hj, rfl⟩ := List.getElem_of_mem hmem
    rw [hnj j hj]
    have := ndaysAt_pos y0 m0 j
    have h2 := monthAt_month_valid y0 m0 j
    have h3 := daysInMonth_range (monthAt y0 m0 j).1 (monthAt y0 m0 j).2 h2.1 h2.2
    unfold ndaysAt at this ⊢
    omega
  rw [rows_filter isnan hnan ms hrange]
  have hlen : ((ms.map cubicMonth).flatten).length = (monthLengths y0 m0 vs.length).sum + 0 := by
    rw [← hns, List.length_flatten, List.map_map, Nat.add_zero]
    congr 1
    apply List.map_congr_left
    intro m _
    simp [cubicMonth]
  rw [hlen, daysFrom_months y0 m0 h1 h12 vs.length 0]
  simp only [daysFrom, List.append_nil]
  unfold stampMonths
  rw [flatten_eq_flatMap_range (ms.map cubicMonth), List.length_map, hk]
  apply zip_flatMap_range
  intro j hj
  have hj' : j < ms.length := by omega
  rw [List.getD_eq_getElem?_getD, List.getElem?_eq_getElem (by simpa using hj')]
  simp [monthDays_length, cubicMonth, hnj j hj', ndaysAt]

end cubicser

end HydroVerif.C08
