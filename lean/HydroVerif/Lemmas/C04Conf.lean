/- helper lemmas for the confusion-matrix part of C04 -/
import HydroVerif.Model.C04
import Mathlib.Data.List.Range
import Mathlib.Data.List.Basic
import Mathlib.Data.List.Sort
import Mathlib.Tactic.Linarith

namespace HydroVerif.C04

def tableTotal (t : List (List Nat)) : Nat := (t.map List.sum).sum

theorem sum_indicator (n a c : Nat) (h : a < n) :
    ((List.range n).map fun i => if a = i then c else 0).sum = c := by
  induction n with
  | zero => omega
  | succ n ih =>
    rw [List.range_succ, List.map_append, List.sum_append]
    by_cases hn : a = n
    · subst hn
      have : ((List.range a).map fun i => if a = i then c else 0) = (List.range a).map fun _ => 0 := by
        apply List.map_congr_left
        intro i hi
        have := List.mem_range.mp hi
        rw [if_neg (by omega)]
      simp [this]
    · have : a < n := by omega
      simp [ih this, hn]

theorem sum_map_zero {β} (l : List β) : (l.map fun _ => (0:Nat)).sum = 0 := by
  induction l with
  | nil => rfl
  | cons x xs ih => simp

theorem sum_map_add {β} (l : List β) (f g : β → Nat) :
    (l.map fun x => f x + g x).sum = (l.map f).sum + (l.map g).sum := by
  induction l with
  | nil => rfl
  | cons x xs ih => simp [ih]; omega

/-- with every label in `0..n-1`, the cells of the `n x n` table add up to the number of pairs -/
theorem total_count (n : Nat) (obs sim : List Int)
    (h : ∀ p ∈ obs.zip sim, (0 ≤ p.1 ∧ p.1 < n) ∧ (0 ≤ p.2 ∧ p.2 < n)) :
    tableTotal (((List.range n).map Int.ofNat).map fun i => ((List.range n).map Int.ofNat).map fun j => count obs sim i j)
      = (obs.zip sim).length := by
  unfold tableTotal count
  generalize obs.zip sim = ps at h
  induction ps with
  | nil => simp [Function.comp_def, sum_map_zero]
  | cons p ps ih =>
    have hp := h p (by simp)
    have ih' := ih (fun q hq => h q (by simp [hq]))
    simp only [List.map_map, Function.comp_def, List.filter_cons] at ih' ⊢
    have e : ∀ i j : Nat,
        (if (p.1 == Int.ofNat i && p.2 == Int.ofNat j) = true
          then p :: List.filter (fun q => q.1 == Int.ofNat i && q.2 == Int.ofNat j) ps
          else List.filter (fun q => q.1 == Int.ofNat i && q.2 == Int.ofNat j) ps).length
        = (if p.1.toNat = i then (if p.2.toNat = j then 1 else 0) else 0)
          + (List.filter (fun q => q.1 == Int.ofNat i && q.2 == Int.ofNat j) ps).length := by
      intro i j
      have h1 : (p.1 == Int.ofNat i) = decide (p.1.toNat = i) := by
        have := hp.1.1
        rw [Bool.eq_iff_iff]; simp; omega
      have h2 : (p.2 == Int.ofNat j) = decide (p.2.toNat = j) := by
        have := hp.2.1
        rw [Bool.eq_iff_iff]; simp; omega
      rw [h1, h2]
      by_cases a : p.1.toNat = i <;> by_cases b : p.2.toNat = j <;> simp [a, b] <;> omega
    simp only [e, sum_map_add]
    rw [ih']
    have h1 : p.1.toNat < n := by have := hp.1; omega
    have h2 : p.2.toNat < n := by have := hp.2; omega
    have inner : ∀ i : Nat, ((List.range n).map fun j => if p.1.toNat = i then (if p.2.toNat = j then 1 else 0) else 0).sum
        = if p.1.toNat = i then 1 else 0 := by
      intro i
      by_cases a : p.1.toNat = i
      · simp only [a, if_true]; exact sum_indicator n _ 1 h2
      · simp [a]
    simp only [inner, sum_indicator n _ 1 h1, List.length_cons]
    omega

/-! strictly increasing integer lists inside `[a, a+n)` of length `n` are `a, a+1, …` -/

theorem insertSorted_mem (x y : Int) (l : List Int) : y ∈ insertSorted x l ↔ y = x ∨ y ∈ l := by
  induction l with
  | nil => simp [insertSorted]
  | cons z zs ih =>
    simp only [insertSorted]
    split
    · simp
    · split
      · rename_i h; subst h; simp
      · simp [ih]; tauto

theorem insertSorted_sorted (x : Int) (l : List Int) (h : l.Pairwise (· < ·)) :
    (insertSorted x l).Pairwise (· < ·) := by
  induction l with
  | nil => simp [insertSorted]
  | cons z zs ih =>
    simp only [insertSorted]
    rw [List.pairwise_cons] at h
    split
    · rename_i hx
      refine List.pairwise_cons.mpr ⟨?_, List.pairwise_cons.mpr h⟩
      intro y hy
      rcases List.mem_cons.mp hy with rfl | hy
      · exact hx
      · exact lt_trans hx (h.1 y hy)
    · split
      · exact List.pairwise_cons.mpr h
      · rename_i h1 h2
        refine List.pairwise_cons.mpr ⟨?_, ih h.2⟩
        intro y hy
        rcases (insertSorted_mem x y zs).mp hy with rfl | hy
        · omega
        · exact h.1 y hy

theorem uniqueSorted_sorted (l : List Int) : (uniqueSorted l).Pairwise (· < ·) := by
  induction l with
  | nil => simp [uniqueSorted]
  | cons x xs ih => exact insertSorted_sorted x _ ih

theorem uniqueSorted_mem (l : List Int) (y : Int) : y ∈ uniqueSorted l ↔ y ∈ l := by
  induction l with
  | nil => simp [uniqueSorted]
  | cons x xs ih =>
    have : uniqueSorted (x :: xs) = insertSorted x (uniqueSorted xs) := rfl
    rw [this, insertSorted_mem, ih]; simp

theorem sorted_length_le (l : List Int) (a b : Int) (hs : l.Pairwise (· < ·))
    (hb : ∀ x ∈ l, a ≤ x ∧ x < b) : (l.length : Int) ≤ max (b - a) 0 := by
  induction l generalizing a with
  | nil => simp
  | cons x xs ih =>
    rw [List.pairwise_cons] at hs
    have hx := hb x (by simp)
    have := ih (x + 1) hs.2 (fun y hy => ⟨by have := hs.1 y hy; omega, (hb y (by simp [hy])).2⟩)
    simp only [List.length_cons]
    push_cast
    omega

theorem sorted_full_eq_range (l : List Int) (a : Int) (hs : l.Pairwise (· < ·))
    (hb : ∀ x ∈ l, a ≤ x ∧ x < a + l.length) :
    l = (List.range l.length).map fun (i : Nat) => a + (i : Int) := by
  induction l generalizing a with
  | nil => rfl
  | cons x xs ih =>
    rw [List.pairwise_cons] at hs
    have hx := hb x (by simp)
    simp only [List.length_cons] at hb hx
    have hlen := sorted_length_le xs (x + 1) (a + (xs.length + 1 : Nat)) hs.2
      (fun y hy => ⟨by have := hs.1 y hy; omega, (hb y (by simp [hy])).2⟩)
    have hxa : x = a := by push_cast at hlen hx; omega
    subst hxa
    have := ih (x + 1) hs.2 (fun y hy => ⟨by have := hs.1 y hy; omega, by
      have := (hb y (by simp [hy])).2; push_cast at this ⊢; omega⟩)
    rw [List.length_cons, List.range_succ_eq_map, List.map_cons, List.map_map]
    congr 1
    · simp
    · refine this.trans ?_
      apply List.map_congr_left
      intro i _
      simp only [Function.comp_def]
      push_cast; omega

end HydroVerif.C04
