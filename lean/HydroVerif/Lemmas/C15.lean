/-
C15 — helper definitions and lemmas for `Props/C15.lean` (ordered-field instance of `Model/C15.lean`).
-/
import HydroVerif.Model.C15
import Mathlib.Algebra.Order.Field.Basic
import Mathlib.Algebra.Order.AbsoluteValue.Basic
import Mathlib.Data.List.Perm.Basic
import Mathlib.Data.List.Rotate
import Mathlib.Tactic.Linarith
import Mathlib.Tactic.Ring
import Mathlib.Tactic.FieldSimp

set_option linter.unusedSectionVars false

namespace HydroVerif.C15

variable {α : Type} [Field α] [LinearOrder α] [IsStrictOrderedRing α]

/-! ### C helpers are `min`, `max`, `|·|` -/

theorem fmin_eq (a b : α) : fmin a b = min a b := by
  unfold fmin; split <;> rename_i h
  · exact (min_eq_left h.le).symm
  · exact (min_eq_right (not_lt.mp h)).symm

theorem fmax_eq (a b : α) : fmax a b = max a b := by
  unfold fmax; split <;> rename_i h
  · exact (max_eq_right h.le).symm
  · exact (max_eq_left (not_lt.mp h)).symm

theorem fabs_eq (a : α) : fabs a = |a| := by
  unfold fabs; split <;> rename_i h
  · exact (abs_of_neg h).symm
  · exact (abs_of_nonneg (not_lt.mp h)).symm

/-! ### parity -/

theorem parity_append (l1 l2 : List Bool) : parity (l1 ++ l2) = xor (parity l1) (parity l2) := by
  induction l1 with
  | nil => simp [parity]
  | cons b t ih => simp [parity, ih]

theorem parity_perm {l1 l2 : List Bool} (h : l1.Perm l2) : parity l1 = parity l2 := by
  induction h with
  | nil => rfl
  | cons x _ ih => simp [parity, ih]
  | swap x y l => simp only [parity]; rw [← Bool.xor_assoc, ← Bool.xor_assoc, Bool.xor_comm y x]
  | trans _ _ ih1 ih2 => exact ih1.trans ih2

theorem parity_map_xor {β : Type} (f g : β → Bool) (l : List β) :
    parity (l.map fun e => xor (f e) (g e)) = xor (parity (l.map f)) (parity (l.map g)) := by
  induction l with
  | nil => simp [parity]
  | cons b t ih =>
    simp only [List.map_cons, parity, ih]
    generalize parity (List.map f t) = u; generalize parity (List.map g t) = v
    cases f b <;> cases g b <;> cases u <;> cases v <;> rfl

theorem parity_map_congr {β : Type} {f g : β → Bool} {l : List β} (h : ∀ e ∈ l, f e = g e) :
    parity (l.map f) = parity (l.map g) := by
  rw [List.map_congr_left h]

theorem parity_map_false {β : Type} {f : β → Bool} {l : List β} (h : ∀ e ∈ l, f e = false) :
    parity (l.map f) = false := by
  induction l with
  | nil => rfl
  | cons b t ih =>
    simp only [List.map_cons, parity, h b (List.mem_cons_self ..), Bool.false_xor]
    exact ih fun e he => h e (List.mem_cons_of_mem _ he)

theorem parity_reverse (l : List Bool) : parity l.reverse = parity l :=
  parity_perm (List.reverse_perm l)

/-! ### the crossing loop is the parity of the per-edge toggles over the closed edge cycle -/

/-- last vertex reached by an edge walk -/
def lastFrom {β : Type} : β × β → List (β × β) → β × β
  | p, [] => p
  | _, q :: t => lastFrom q t

theorem lastFrom_append {β : Type} (l : List (β × β)) : ∀ (p q : β × β), lastFrom p (l ++ [q]) = q := by
  induction l with
  | nil => intro p q; rfl
  | cons c t ih => intro p q; simpa [lastFrom] using ih c q

section loop
variable {β : Type} [Add β] [Sub β] [Mul β] [Div β] [Neg β] [LT β] [DecidableLT β] [LE β] [DecidableLE β] [OfNat β 0]

theorem walk_eq (atol x y : β) (l : List (β × β)) : ∀ (p1 : β × β) (ins : Bool),
    walk atol x y p1 l ins = xor ins (parity ((edgesFrom p1 l).map fun e => edgeToggle atol x y e.1 e.2)) := by
  induction l with
  | nil => intro p1 ins; simp [walk, edgesFrom, parity]
  | cons p2 rest ih => intro p1 ins; simp [walk, edgesFrom, parity, ih]

theorem crossing_eq (atol : β) (poly : List (β × β)) (pt : β × β) :
    crossing atol poly pt = parity ((edges poly).map fun e => edgeToggle atol pt.1 pt.2 e.1 e.2) := by
  cases poly with
  | nil => rfl
  | cons v0 t => simp [crossing, edges, walk_eq]

/-- around any walk the number of straddling edges is odd exactly when the two ends lie on different sides -/
theorem parity_straddle_from (y : β) (l : List (β × β)) : ∀ p1 : β × β,
    parity ((edgesFrom p1 l).map fun e => straddle y e.1 e.2) = xor (below y p1.2) (below y (lastFrom p1 l).2) := by
  induction l with
  | nil => intro p1; simp [edgesFrom, parity, lastFrom]
  | cons p2 rest ih =>
    intro p1
    simp only [edgesFrom, List.map_cons, parity, lastFrom]
    rw [ih]; simp only [straddle]
    generalize below y p1.2 = a; generalize below y p2.2 = b; generalize below y (lastFrom p2 rest).2 = c
    cases a <;> cases b <;> cases c <;> rfl

/-- closed cycle ⇒ an even number of edges straddle any horizontal line -/
theorem parity_straddle_cycle (y : β) (poly : List (β × β)) :
    parity ((edges poly).map fun e => straddle y e.1 e.2) = false := by
  cases poly with
  | nil => rfl
  | cons v0 t => simp [edges, parity_straddle_from, lastFrom_append]

theorem zipWith_replicate_false {γ : Type} (f : γ → Bool → Bool) (pts : List γ) :
    List.zipWith f pts (List.replicate pts.length false) = pts.map fun pt => f pt false := by
  induction pts with
  | nil => rfl
  | cons a t ih => simp [List.replicate_succ, ih]

/-- the vector interface is the per-point model applied to each point, whatever a caller-supplied answer
vector (of the right length) contained -/
theorem pointsInsidePolygon_cons (atol : β) (pts : List (β × β)) (v0 : β × β) (t : List (β × β))
    (insideLen : Option Nat) (hlen : ∀ n, insideLen = some n → n = pts.length) :
    pointsInsidePolygon atol pts (v0 :: t) insideLen = .ok (pts.map (pointInside atol (v0 :: t))) := by
  cases insideLen with
  | none =>
    simp only [pointsInsidePolygon, Bool.false_eq_true, if_false, cInside, zipWith_replicate_false]
    rfl
  | some n =>
    simp only [pointsInsidePolygon, hlen n rfl, bne_self_eq_false, Bool.false_eq_true, if_false, cInside,
      zipWith_replicate_false]
    rfl

theorem filter_zip_map {γ : Type} (g : γ → Bool) (l : List γ) :
    ((l.zip (l.map g)).filter (·.2)).map (·.1) = l.filter g := by
  induction l with
  | nil => rfl
  | cons a t ih =>
    simp only [List.map_cons, List.zip_cons_cons, List.filter_cons]
    cases g a <;> simp [ih]

theorem cellsInside_cons [NatCast β] (nrows ncols : Nat) (xll yll csz atol : β) (v0 : β × β) (t : List (β × β)) :
    cellsInside nrows ncols xll yll csz atol (v0 :: t) =
      .ok ((List.range (nrows * ncols)).filter fun i =>
        pointInside atol (v0 :: t) (cellCentre nrows ncols xll yll csz i)) := by
  simp only [cellsInside]
  rw [pointsInsidePolygon_cons atol _ v0 t none (by intro n h; cases h)]
  simp only [List.map_map]
  rw [filter_zip_map]
  rfl

theorem table_zip_filter {γ δ ε : Type} (f : γ → δ) (g : δ → Bool) (h : δ → γ → ε) (l : List γ) :
    ((((l.map f).zip l).zip ((l.map f).map g)).filter (·.2)).map (fun r => h r.1.1 r.1.2) =
      (l.filter fun c => g (f c)).map fun c => h (f c) c := by
  induction l with
  | nil => rfl
  | cons a t ih =>
    simp only [List.map_cons, List.zip_cons_cons, List.filter_cons]
    cases g (f a) <;> simp only [Bool.false_eq_true, if_false, if_true, List.map_cons, ih]

/-- the returned table holds, for each listed cell, the coordinates of its centre and its number -/
theorem cellsInsideTable_cons [NatCast β] (nrows ncols : Nat) (xll yll csz atol : β) (v0 : β × β)
    (t : List (β × β)) :
    cellsInsideTable nrows ncols xll yll csz atol (v0 :: t) =
      .ok (((List.range (nrows * ncols)).filter fun i =>
          pointInside atol (v0 :: t) (cellCentre nrows ncols xll yll csz i)).map fun c =>
        ((cellCentre nrows ncols xll yll csz c).1, (cellCentre nrows ncols xll yll csz c).2, c)) := by
  simp only [cellsInsideTable]
  rw [pointsInsidePolygon_cons atol _ v0 t none (by intro n h; cases h)]
  simp only []
  rw [table_zip_filter (cellCentre nrows ncols xll yll csz) (pointInside atol (v0 :: t))
    (fun p c => (p.1, p.2, c))]

/-- the whole call, guard by guard in the order of the code -/
theorem pointsInsidePolygonCall_spec (atol : β) (ptsWidth : Nat) (pts : List (β × β)) (polyWidth : Nat)
    (poly : List (β × β)) (inside : Option (Bool × Nat)) :
    ((∃ n, inside = some (false, n)) → pointsInsidePolygonCall atol ptsWidth pts polyWidth poly inside = .error .insideDtype) ∧
    ((∃ n, inside = some (true, n) ∧ n ≠ pts.length) →
      pointsInsidePolygonCall atol ptsWidth pts polyWidth poly inside = .error .insideLength) ∧
    ((inside = none ∨ inside = some (true, pts.length)) →
      ((ptsWidth ≠ 2 ∨ polyWidth ≠ 2) →
        pointsInsidePolygonCall atol ptsWidth pts polyWidth poly inside = .error .shapeAssert) ∧
      (ptsWidth = 2 → polyWidth = 2 → poly = [] →
        pointsInsidePolygonCall atol ptsWidth pts polyWidth poly inside = .error .emptyPolygon) ∧
      (ptsWidth = 2 → polyWidth = 2 → ∀ v0 t, poly = v0 :: t →
        pointsInsidePolygonCall atol ptsWidth pts polyWidth poly inside =
          .ok (pts.map (pointInside atol (v0 :: t))))) := by
  refine ⟨?_, ?_, ?_⟩
  · rintro ⟨n, rfl⟩; simp [pointsInsidePolygonCall]
  · rintro ⟨n, rfl, hn⟩; simp [pointsInsidePolygonCall, hn]
  · intro hin
    have hpre : ∀ r, (ptsWidth = 2 → polyWidth = 2 →
        pointsInsidePolygon atol pts poly (inside.map (·.2)) = r →
        pointsInsidePolygonCall atol ptsWidth pts polyWidth poly inside = r) := by
      intro r h1 h2 h
      rcases hin with rfl | rfl <;> simp [pointsInsidePolygonCall, h1, h2] at h ⊢ <;> exact h
    refine ⟨?_, ?_, ?_⟩
    · intro hw
      rcases hin with rfl | rfl <;> rcases hw with hw | hw <;> simp [pointsInsidePolygonCall, hw]
    · intro h1 h2 hp
      apply hpre _ h1 h2
      subst hp
      rcases hin with rfl | rfl <;> simp [pointsInsidePolygon]
    · intro h1 h2 v0 t hp
      apply hpre _ h1 h2
      subst hp
      rcases hin with rfl | rfl
      · exact pointsInsidePolygon_cons atol pts v0 t none (by intro n h; cases h)
      · exact pointsInsidePolygon_cons atol pts v0 t (some pts.length) (by intro n h; cases h; rfl)

end loop

/-! ### one edge, ordered field -/

theorem minmax_iff (y b1 b2 : α) :
    (min b1 b2 < y ∧ y ≤ max b1 b2) ↔ (b1 < y ∧ y ≤ b2) ∨ (b2 < y ∧ y ≤ b1) := by
  rcases le_total b1 b2 with h | h
  · rw [min_eq_left h, max_eq_right h]
    constructor
    · intro h'; exact Or.inl h'
    · rintro (h' | ⟨h1, h2⟩)
      · exact h'
      · exact ⟨by linarith, by linarith⟩
  · rw [min_eq_right h, max_eq_left h]
    constructor
    · intro h'; exact Or.inr h'
    · rintro (⟨h1, h2⟩ | h')
      · exact ⟨by linarith, by linarith⟩
      · exact h'

theorem straddle_iff (y : α) (p1 p2 : α × α) :
    straddle y p1 p2 = true ↔ (p1.2 < y ∧ y ≤ p2.2) ∨ (p2.2 < y ∧ y ≤ p1.2) := by
  unfold straddle below
  rcases lt_or_ge p1.2 y with h1 | h1 <;> rcases lt_or_ge p2.2 y with h2 | h2
  · simp [h1, h2, not_le.mpr h1, not_le.mpr h2]
  · simp [h1, h2, not_lt.mpr h2]
  · simp [h1, h2, not_lt.mpr h1]
  · simp [h1, h2, not_lt.mpr h1, not_lt.mpr h2]

theorem edgeToggle_iff (atol x y : α) (p1 p2 : α × α) :
    edgeToggle atol x y p1 p2 = true ↔
      (min p1.2 p2.2 < y ∧ y ≤ max p1.2 p2.2 ∧ x ≤ max p1.1 p2.1 ∧
        (|p1.1 - p2.1| < atol ∨ x ≤ xinters atol y p1 p2)) := by
  unfold edgeToggle; simp only [fmin_eq, fmax_eq, fabs_eq]
  split_ifs <;> simp [*]

theorem edgeToggle_iff' (atol x y : α) (p1 p2 : α × α) :
    edgeToggle atol x y p1 p2 = true ↔
      (straddle y p1 p2 = true ∧ x ≤ max p1.1 p2.1 ∧
        (|p1.1 - p2.1| < atol ∨ x ≤ xinters atol y p1 p2)) := by
  rw [edgeToggle_iff, straddle_iff, ← minmax_iff]; tauto

/-- parameter of the point of the edge at height `y` -/
def tpar (y : α) (p1 p2 : α × α) : α := (y - p1.2) / (p2.2 - p1.2)

theorem xint_eq_tpar (y : α) (p1 p2 : α × α) : xint y p1 p2 = p1.1 + tpar y p1 p2 * (p2.1 - p1.1) := by
  unfold xint tpar; ring

theorem straddle_ne {y : α} {p1 p2 : α × α} (h : straddle y p1 p2 = true) : p2.2 - p1.2 ≠ 0 := by
  rw [straddle_iff] at h
  rcases h with ⟨h1, h2⟩ | ⟨h1, h2⟩
  · exact ne_of_gt (by linarith)
  · exact ne_of_lt (by linarith)

theorem tpar_mem {y : α} {p1 p2 : α × α} (h : straddle y p1 p2 = true) :
    0 ≤ tpar y p1 p2 ∧ tpar y p1 p2 ≤ 1 := by
  rw [straddle_iff] at h
  unfold tpar
  rcases h with ⟨h1, h2⟩ | ⟨h1, h2⟩
  · have hd : 0 < p2.2 - p1.2 := by linarith
    exact ⟨div_nonneg (by linarith) hd.le, (div_le_one hd).mpr (by linarith)⟩
  · have hd : 0 < p1.2 - p2.2 := by linarith
    rw [← neg_div_neg_eq]
    exact ⟨div_nonneg (by linarith) (by linarith), (div_le_one (by linarith)).mpr (by linarith)⟩

theorem tpar_y {y : α} {p1 p2 : α × α} (h : straddle y p1 p2 = true) :
    p1.2 + tpar y p1 p2 * (p2.2 - p1.2) = y := by
  have := straddle_ne h
  unfold tpar; field_simp; ring

/-- the crossing abscissa lies between the end points -/
theorem xint_mem {y : α} {p1 p2 : α × α} (h : straddle y p1 p2 = true) :
    min p1.1 p2.1 ≤ xint y p1 p2 ∧ xint y p1 p2 ≤ max p1.1 p2.1 := by
  obtain ⟨h0, h1⟩ := tpar_mem h
  rw [xint_eq_tpar]
  generalize tpar y p1 p2 = t at h0 h1
  rcases le_total p1.1 p2.1 with hx | hx
  · rw [min_eq_left hx, max_eq_right hx]
    constructor <;> nlinarith
  · rw [min_eq_right hx, max_eq_left hx]
    constructor <;> nlinarith

/-! ### distance to the boundary (Chebyshev distance to every edge segment) -/

/-- the point `(x, y)` is farther than `atol`, in the sup norm, from every point of the segment `p1 p2` -/
def FarEdge (atol x y : α) (p1 p2 : α × α) : Prop :=
  ∀ t : α, 0 ≤ t → t ≤ 1 →
    atol < |x - (p1.1 + t * (p2.1 - p1.1))| ∨ atol < |y - (p1.2 + t * (p2.2 - p1.2))|

/-- the point is farther than `atol` from the polygon boundary -/
def Far (atol : α) (poly : List (α × α)) (pt : α × α) : Prop :=
  ∀ e ∈ edges poly, FarEdge atol pt.1 pt.2 e.1 e.2

theorem exists_param {a1 a2 x : α} (hlo : min a1 a2 ≤ x) (hhi : x ≤ max a1 a2) :
    ∃ t : α, 0 ≤ t ∧ t ≤ 1 ∧ a1 + t * (a2 - a1) = x := by
  rcases lt_trichotomy a1 a2 with h | h | h
  · rw [min_eq_left h.le] at hlo; rw [max_eq_right h.le] at hhi
    have hd : 0 < a2 - a1 := by linarith
    refine ⟨(x - a1) / (a2 - a1), div_nonneg (by linarith) hd.le, (div_le_one hd).mpr (by linarith), ?_⟩
    field_simp; ring
  · subst h; rw [min_self] at hlo; rw [max_self] at hhi
    exact ⟨0, le_refl _, zero_le_one, by rw [zero_mul, add_zero]; exact le_antisymm hlo hhi⟩
  · rw [min_eq_right h.le] at hlo; rw [max_eq_left h.le] at hhi
    have hd : 0 < a1 - a2 := by linarith
    refine ⟨(a1 - x) / (a1 - a2), div_nonneg (by linarith) hd.le, (div_le_one hd).mpr (by linarith), ?_⟩
    field_simp; ring

/-- every point of the segment has its ordinate between the end points -/
theorem seg_y_close {y t : α} {p1 p2 : α × α} (hs : straddle y p1 p2 = true) (ht0 : 0 ≤ t) (ht1 : t ≤ 1) :
    |y - (p1.2 + t * (p2.2 - p1.2))| ≤ |p1.2 - p2.2| := by
  rw [straddle_iff] at hs
  rcases hs with ⟨h1, h2⟩ | ⟨h1, h2⟩
  · rw [abs_of_nonpos (by linarith : p1.2 - p2.2 ≤ 0), abs_le]
    constructor <;> nlinarith
  · rw [abs_of_nonneg (by linarith : 0 ≤ p1.2 - p2.2), abs_le]
    constructor <;> nlinarith

/-- **one edge**: far from the edge, the C test (pre-test, two tolerance guards, closed ray) is the plain
crossing test of the open right ray -/
theorem edgeToggle_eq_crossR_of_far {atol x y : α} {p1 p2 : α × α} (h0 : 0 ≤ atol)
    (hfar : FarEdge atol x y p1 p2) : edgeToggle atol x y p1 p2 = crossR x y p1 p2 := by
  rw [Bool.eq_iff_iff, edgeToggle_iff']
  unfold crossR
  rw [Bool.and_eq_true, decide_eq_true_eq]
  by_cases hs : straddle y p1 p2 = true
  swap
  · simp [hs]
  simp only [hs, true_and]
  obtain ⟨ht0, ht1⟩ := tpar_mem hs
  obtain ⟨hlo, hhi⟩ := xint_mem hs
  have hfx : atol < |x - xint y p1 p2| := by
    rcases hfar _ ht0 ht1 with h | h
    · rwa [← xint_eq_tpar] at h
    · rw [tpar_y hs, sub_self, abs_zero] at h; exact absurd h (not_lt.mpr h0)
  have hne : x ≠ xint y p1 p2 := by
    intro heq; rw [heq, sub_self, abs_zero] at hfx; exact absurd hfx (not_lt.mpr h0)
  unfold xinters; rw [fabs_eq]
  by_cases hdy : atol < |p1.2 - p2.2|
  · rw [if_pos hdy]
    change _ ∧ (_ ∨ x ≤ xint y p1 p2) ↔ _
    constructor
    · rintro ⟨hmax, hdx | hle⟩
      · by_contra hnot
        have hge : xint y p1 p2 ≤ x := not_lt.mp hnot
        have h1 : |x - xint y p1 p2| ≤ max p1.1 p2.1 - min p1.1 p2.1 := by
          rw [abs_of_nonneg (by linarith)]; linarith
        have h2 : max p1.1 p2.1 - min p1.1 p2.1 = |p1.1 - p2.1| := by
          rcases le_total p1.1 p2.1 with h | h
          · rw [max_eq_right h, min_eq_left h, abs_of_nonpos (by linarith)]; ring
          · rw [max_eq_left h, min_eq_right h, abs_of_nonneg (by linarith)]
        linarith
      · exact lt_of_le_of_ne hle hne
    · intro hlt; exact ⟨by linarith, Or.inr hlt.le⟩
  · rw [if_neg hdy]
    have hx : ∀ t : α, 0 ≤ t → t ≤ 1 → atol < |x - (p1.1 + t * (p2.1 - p1.1))| := by
      intro t h0t h1t
      rcases hfar t h0t h1t with h | h
      · exact h
      · exact absurd (lt_of_lt_of_le h (seg_y_close hs h0t h1t)) hdy
    have hout : x < min p1.1 p2.1 ∨ max p1.1 p2.1 < x := by
      by_contra hc
      push Not at hc
      obtain ⟨t, h0t, h1t, ht⟩ := exists_param hc.1 hc.2
      have := hx t h0t h1t
      rw [ht, sub_self, abs_zero] at this
      exact absurd this (not_lt.mpr h0)
    rcases hout with hl | hr
    · have : x < p1.1 := lt_of_lt_of_le hl (min_le_left _ _)
      constructor
      · intro _; linarith
      · intro _; exact ⟨by linarith [le_max_left p1.1 p2.1], Or.inr this.le⟩
    · constructor
      · rintro ⟨hmax, _⟩; exact absurd hmax (not_le.mpr hr)
      · intro hlt; exact absurd (lt_of_lt_of_le hlt hhi) (not_lt.mpr hr.le)

/-! ### the bounding box -/

theorem colMin_le (l : List α) : ∀ m : α, colMin m l ≤ m ∧ ∀ a ∈ l, colMin m l ≤ a := by
  induction l with
  | nil => intro m; simp [colMin]
  | cons b t ih =>
    intro m
    obtain ⟨h1, h2⟩ := ih (fmin m b)
    rw [fmin_eq] at h1 h2
    simp only [colMin, fmin_eq]
    refine ⟨h1.trans (min_le_left _ _), ?_⟩
    intro a ha
    rcases List.mem_cons.mp ha with rfl | ha
    · exact h1.trans (min_le_right _ _)
    · exact h2 a ha

theorem le_colMax (l : List α) : ∀ m : α, m ≤ colMax m l ∧ ∀ a ∈ l, a ≤ colMax m l := by
  induction l with
  | nil => intro m; simp [colMax]
  | cons b t ih =>
    intro m
    obtain ⟨h1, h2⟩ := ih (fmax m b)
    rw [fmax_eq] at h1 h2
    simp only [colMax, fmax_eq]
    refine ⟨(le_max_left _ _).trans h1, ?_⟩
    intro a ha
    rcases List.mem_cons.mp ha with rfl | ha
    · exact (le_max_right _ _).trans h1
    · exact h2 a ha

theorem extent_bounds {v0 v : α × α} {t : List (α × α)} (hv : v ∈ v0 :: t) :
    (extentX v0 t).1 ≤ v.1 ∧ v.1 ≤ (extentX v0 t).2 ∧ (extentY v0 t).1 ≤ v.2 ∧ v.2 ≤ (extentY v0 t).2 := by
  unfold extentX extentY
  rcases List.mem_cons.mp hv with rfl | hv
  · exact ⟨(colMin_le _ _).1, (le_colMax _ _).1, (colMin_le _ _).1, (le_colMax _ _).1⟩
  · exact ⟨(colMin_le _ _).2 _ (List.mem_map_of_mem hv), (le_colMax _ _).2 _ (List.mem_map_of_mem hv),
      (colMin_le _ _).2 _ (List.mem_map_of_mem hv), (le_colMax _ _).2 _ (List.mem_map_of_mem hv)⟩

section
variable {β : Type}
theorem mem_edgesFrom {e : (β × β) × (β × β)} : ∀ {l : List (β × β)} {p : β × β},
    e ∈ edgesFrom p l → e.1 ∈ p :: l ∧ e.2 ∈ l := by
  intro l
  induction l with
  | nil => intro p h; simp [edgesFrom] at h
  | cons q t ih =>
    intro p h
    simp only [edgesFrom, List.mem_cons] at h
    rcases h with rfl | h
    · simp
    · obtain ⟨h1, h2⟩ := ih h
      exact ⟨List.mem_cons_of_mem _ h1, List.mem_cons_of_mem _ h2⟩

theorem mem_edges {e : (β × β) × (β × β)} {poly : List (β × β)} (h : e ∈ edges poly) :
    e.1 ∈ poly ∧ e.2 ∈ poly := by
  cases poly with
  | nil => simp [edges] at h
  | cons v0 t =>
    obtain ⟨h1, h2⟩ := mem_edgesFrom h
    constructor
    · rcases List.mem_cons.mp h1 with h | h
      · exact h ▸ List.mem_cons_self ..
      · rcases List.mem_append.mp h with h | h
        · exact List.mem_cons_of_mem _ h
        · rw [List.mem_singleton.mp h]; exact List.mem_cons_self ..
    · rcases List.mem_append.mp h2 with h | h
      · exact List.mem_cons_of_mem _ h
      · rw [List.mem_singleton.mp h]; exact List.mem_cons_self ..
end

/-- a per-edge crossing test that (1) only fires on straddling edges, (2) fires on every straddling edge lying
entirely right of the point and (3) on none lying entirely left of it, counts an even number of edges for a point
outside the bounding box -/
theorem parity_outsideBox {v0 : α × α} {t : List (α × α)} {x y : α} (f : α × α → α × α → Bool)
    (hf1 : ∀ p1 p2, f p1 p2 = true → straddle y p1 p2 = true)
    (hf2 : ∀ p1 p2, straddle y p1 p2 = true → x < min p1.1 p2.1 → f p1 p2 = true)
    (hf3 : ∀ p1 p2, max p1.1 p2.1 < x → f p1 p2 = false)
    (hout : outsideBox (extentX v0 t) (extentY v0 t) (x, y) = true) :
    parity ((edges (v0 :: t)).map fun e => f e.1 e.2) = false := by
  have hb : ∀ e ∈ edges (v0 :: t), _ := fun e he =>
    And.intro (extent_bounds (mem_edges he).1) (extent_bounds (mem_edges he).2)
  simp only [outsideBox, Bool.or_eq_true, decide_eq_true_eq] at hout
  rcases hout with ((hx | hx) | hy) | hy
  · -- left of the box: every straddling edge counts
    rw [← parity_straddle_cycle y (v0 :: t)]
    apply parity_map_congr
    intro e he
    obtain ⟨⟨h1, -, -, -⟩, ⟨h2, -, -, -⟩⟩ := hb e he
    cases hs : straddle y e.1 e.2
    · cases hfe : f e.1 e.2
      · rfl
      · rw [hf1 _ _ hfe] at hs; exact absurd hs (by simp)
    · exact hf2 _ _ hs (lt_of_lt_of_le hx (le_min h1 h2))
  · apply parity_map_false
    intro e he
    obtain ⟨⟨-, h1, -, -⟩, ⟨-, h2, -, -⟩⟩ := hb e he
    exact hf3 _ _ (lt_of_le_of_lt (max_le h1 h2) hx)
  · apply parity_map_false
    intro e he
    obtain ⟨⟨-, -, h1, -⟩, ⟨-, -, h2, -⟩⟩ := hb e he
    cases hfe : f e.1 e.2
    · rfl
    · have := (straddle_iff _ _ _).mp (hf1 _ _ hfe)
      rcases this with ⟨h, _⟩ | ⟨h, _⟩ <;> linarith
  · apply parity_map_false
    intro e he
    obtain ⟨⟨-, -, -, h1⟩, ⟨-, -, -, h2⟩⟩ := hb e he
    cases hfe : f e.1 e.2
    · rfl
    · have := (straddle_iff _ _ _).mp (hf1 _ _ hfe)
      rcases this with ⟨_, h⟩ | ⟨_, h⟩ <;> linarith

theorem crossR_straddle {x y : α} {p1 p2 : α × α} (h : crossR x y p1 p2 = true) : straddle y p1 p2 = true := by
  unfold crossR at h; exact (Bool.and_eq_true _ _ ▸ h).1

theorem crossRle_straddle {x y : α} {p1 p2 : α × α} (h : crossRle x y p1 p2 = true) :
    straddle y p1 p2 = true := by
  unfold crossRle at h; exact (Bool.and_eq_true _ _ ▸ h).1

/-- a point outside the bounding box is outside under the even-odd rule: the box test changes nothing -/
theorem evenOdd_outsideBox {v0 : α × α} {t : List (α × α)} {pt : α × α}
    (hout : outsideBox (extentX v0 t) (extentY v0 t) pt = true) : evenOdd (v0 :: t) pt = false := by
  unfold evenOdd
  apply parity_outsideBox (crossR pt.1 pt.2) (fun _ _ => crossR_straddle) _ _ hout
  · intro p1 p2 hs hx
    simp only [crossR, hs, Bool.true_and, decide_eq_true_eq]
    exact lt_of_lt_of_le hx (xint_mem hs).1
  · intro p1 p2 hx
    cases hs' : straddle pt.2 p1 p2
    · simp [crossR, hs']
    · simp only [crossR, hs', Bool.true_and, decide_eq_false_iff_not, not_lt]
      exact ((xint_mem hs').2.trans_lt hx).le

theorem evenOddLe_outsideBox {v0 : α × α} {t : List (α × α)} {pt : α × α}
    (hout : outsideBox (extentX v0 t) (extentY v0 t) pt = true) : evenOddLe (v0 :: t) pt = false := by
  unfold evenOddLe
  apply parity_outsideBox (crossRle pt.1 pt.2) (fun _ _ => crossRle_straddle) _ _ hout
  · intro p1 p2 hs hx
    simp only [crossRle, hs, Bool.true_and, decide_eq_true_eq]
    exact (lt_of_lt_of_le hx (xint_mem hs).1).le
  · intro p1 p2 hx
    cases hs' : straddle pt.2 p1 p2
    · simp [crossRle, hs']
    · simp only [crossRle, hs', Bool.true_and, decide_eq_false_iff_not, not_le]
      exact (xint_mem hs').2.trans_lt hx

/-! ### well-separated polygons, points off the edges -/

/-- consecutive vertices differ, in each coordinate, by nothing or by more than the tolerance -/
def SepEdge (atol : α) (p1 p2 : α × α) : Prop :=
  (p1.2 = p2.2 ∨ atol < |p1.2 - p2.2|) ∧ (p1.1 = p2.1 ∨ atol ≤ |p1.1 - p2.1|)

def Sep (atol : α) (poly : List (α × α)) : Prop := ∀ e ∈ edges poly, SepEdge atol e.1 e.2

/-- the point lies on no edge (half-open rule: the lower end point of an edge does not belong to it) -/
def OffEdges (poly : List (α × α)) (pt : α × α) : Prop :=
  ∀ e ∈ edges poly, straddle pt.2 e.1 e.2 = true → pt.1 ≠ xint pt.2 e.1 e.2

theorem edgeToggle_eq_crossRle_of_sep {atol x y : α} {p1 p2 : α × α} (hsep : SepEdge atol p1 p2) :
    edgeToggle atol x y p1 p2 = crossRle x y p1 p2 := by
  rw [Bool.eq_iff_iff, edgeToggle_iff']
  unfold crossRle
  rw [Bool.and_eq_true, decide_eq_true_eq]
  by_cases hs : straddle y p1 p2 = true
  swap
  · simp [hs]
  simp only [hs, true_and]
  obtain ⟨hlo, hhi⟩ := xint_mem hs
  have hne := straddle_ne hs
  have hdy : atol < |p1.2 - p2.2| := by
    rcases hsep.1 with h | h
    · exact absurd (by rw [h, sub_self]) hne
    · exact h
  unfold xinters; rw [fabs_eq, if_pos hdy]
  change _ ∧ (_ ∨ x ≤ xint y p1 p2) ↔ _
  constructor
  · rintro ⟨hmax, hdx | hle⟩
    · rcases hsep.2 with h | h
      · have : xint y p1 p2 = max p1.1 p2.1 := by
          unfold xint; rw [h, sub_self, mul_zero, zero_div, add_zero, max_self]
        rw [this]; exact hmax
      · exact absurd hdx (not_lt.mpr h)
    · exact hle
  · intro hle; exact ⟨hle.trans hhi, Or.inr hle⟩

theorem far_offEdges {atol : α} {poly : List (α × α)} {pt : α × α} (h0 : 0 ≤ atol) (h : Far atol poly pt) :
    OffEdges poly pt := by
  intro e he hs heq
  obtain ⟨ht0, ht1⟩ := tpar_mem hs
  rcases h e he _ ht0 ht1 with h | h
  · rw [← xint_eq_tpar, heq, sub_self, abs_zero] at h; exact absurd h (not_lt.mpr h0)
  · rw [tpar_y hs, sub_self, abs_zero] at h; exact absurd h (not_lt.mpr h0)

/-! ### the edge cycle under rotation, reversal, closing, and vertex maps -/

section lists
variable {β : Type}

theorem edgesFrom_append (l : List (β × β)) : ∀ (p q : β × β),
    edgesFrom p (l ++ [q]) = edgesFrom p l ++ [(lastFrom p l, q)] := by
  induction l with
  | nil => intro p q; rfl
  | cons c t ih => intro p q; simp [edgesFrom, lastFrom, ih]

/-- moving the first vertex to the end -/
def rot1 : List (β × β) → List (β × β)
  | [] => []
  | a :: t => t ++ [a]

theorem edges_rot1_perm (poly : List (β × β)) : (edges (rot1 poly)).Perm (edges poly) := by
  match poly with
  | [] => exact List.Perm.refl _
  | [a] => exact List.Perm.refl _
  | a :: b :: t =>
    have : edges (rot1 (a :: b :: t)) = edgesFrom b (t ++ [a]) ++ [(a, b)] := by
      show edgesFrom b ((t ++ [a]) ++ [b]) = _
      rw [edgesFrom_append, lastFrom_append]
    rw [this]
    show (edgesFrom b (t ++ [a]) ++ [(a, b)]).Perm ((a, b) :: edgesFrom b (t ++ [a]))
    exact List.perm_append_singleton _ _

theorem rot1_eq_rotate (poly : List (β × β)) : rot1 poly = poly.rotate 1 := by
  cases poly with
  | nil => rfl
  | cons a t => simp [rot1]

theorem edges_rotate_perm (poly : List (β × β)) (k : Nat) : (edges (poly.rotate k)).Perm (edges poly) := by
  induction k with
  | zero => simp
  | succ k ih =>
    rw [← List.rotate_rotate, ← rot1_eq_rotate]
    exact (edges_rot1_perm _).trans ih

theorem edges_close (v0 : β × β) (t : List (β × β)) :
    edges ((v0 :: t) ++ [v0]) = edges (v0 :: t) ++ [(v0, v0)] := by
  show edgesFrom v0 ((t ++ [v0]) ++ [v0]) = edgesFrom v0 (t ++ [v0]) ++ [(v0, v0)]
  rw [edgesFrom_append, lastFrom_append]

theorem edgesFrom_reverse (l : List (β × β)) : ∀ p : β × β,
    edgesFrom (lastFrom p l) ((p :: l).reverse.tail) = ((edgesFrom p l).map Prod.swap).reverse := by
  induction l with
  | nil => intro p; rfl
  | cons c t ih =>
    intro p
    have h := ih c
    simp only [lastFrom, edgesFrom, List.map_cons, List.reverse_cons, Prod.swap_prod_mk] at h ⊢
    rw [← h]
    cases hr : (t.reverse ++ [c]) with
    | nil => simp at hr
    | cons d r =>
      have hd : d = lastFrom c t := by
        have : (t.reverse ++ [c]).head? = some (lastFrom c t) := by
          clear h ih hr
          induction t generalizing c with
          | nil => rfl
          | cons e t' ih' =>
            simp only [lastFrom, List.reverse_cons]
            rw [List.head?_append_of_ne_nil _ (by simp)]
            exact ih' e
        rw [hr] at this; simpa using this
      subst hd
      simp only [List.tail_cons, List.cons_append]
      rw [edgesFrom_append]
      congr 2
      -- last vertex of the reversed walk is `c`
      have : lastFrom (lastFrom c t) r = c := by
        have hl : lastFrom (lastFrom c t) r = ((lastFrom c t) :: r).getLast (by simp) := by
          clear hr h ih
          generalize lastFrom c t = z
          induction r generalizing z with
          | nil => rfl
          | cons e r' ih' => simp only [lastFrom]; rw [ih' e]; simp
        rw [hl]; simp only [← hr]; simp
      rw [this]

theorem edges_reverse_perm (poly : List (β × β)) :
    (edges poly.reverse).Perm ((edges poly).map Prod.swap) := by
  cases poly with
  | nil => exact List.Perm.refl _
  | cons v0 t =>
    have h1 : edges (v0 :: t.reverse) = ((edges (v0 :: t)).map Prod.swap).reverse := by
      have h := edgesFrom_reverse (t ++ [v0]) v0
      rw [lastFrom_append] at h
      simpa [edges] using h
    have h2 : (v0 :: t).reverse = rot1 (v0 :: t.reverse) := by simp [rot1]
    rw [h2]
    exact (edges_rot1_perm _).trans (h1 ▸ List.reverse_perm _)

theorem edgesFrom_map {γ : Type} (f : β × β → γ × γ) (l : List (β × β)) : ∀ p : β × β,
    edgesFrom (f p) (l.map f) = (edgesFrom p l).map (Prod.map f f) := by
  induction l with
  | nil => intro p; rfl
  | cons c t ih => intro p; simp [edgesFrom, ih]

theorem edges_map {γ : Type} (f : β × β → γ × γ) (poly : List (β × β)) :
    edges (poly.map f) = (edges poly).map (Prod.map f f) := by
  cases poly with
  | nil => rfl
  | cons v0 t =>
    show edgesFrom (f v0) (t.map f ++ [f v0]) = _
    rw [show t.map f ++ [f v0] = (t ++ [v0]).map f by simp, edgesFrom_map]
    rfl

end lists

/-! ### symmetry of the per-edge tests; transport of `Far` -/

theorem straddle_swap (y : α) (p1 p2 : α × α) : straddle y p2 p1 = straddle y p1 p2 := by
  unfold straddle; exact Bool.xor_comm _ _

theorem xint_swap {y : α} {p1 p2 : α × α} (h : p2.2 - p1.2 ≠ 0) : xint y p2 p1 = xint y p1 p2 := by
  have h' : p1.2 - p2.2 ≠ 0 := by intro h0; apply h; linarith
  unfold xint; field_simp; ring

theorem crossR_swap (x y : α) (p1 p2 : α × α) : crossR x y p2 p1 = crossR x y p1 p2 := by
  unfold crossR; rw [straddle_swap]
  cases hs : straddle y p1 p2
  · rfl
  · rw [xint_swap (straddle_ne hs)]

theorem farEdge_swap {atol x y : α} {p1 p2 : α × α} (h : FarEdge atol x y p1 p2) : FarEdge atol x y p2 p1 := by
  intro t h0 h1
  have := h (1 - t) (by linarith) (by linarith)
  rw [show p1.1 + (1 - t) * (p2.1 - p1.1) = p2.1 + t * (p1.1 - p2.1) by ring,
    show p1.2 + (1 - t) * (p2.2 - p1.2) = p2.2 + t * (p1.2 - p2.2) by ring] at this
  exact this

theorem far_of_edges_subset {atol : α} {poly poly' : List (α × α)} {pt : α × α}
    (hsub : ∀ e ∈ edges poly', e ∈ edges poly) (h : Far atol poly pt) : Far atol poly' pt :=
  fun e he => h e (hsub e he)

theorem far_rotate {atol : α} {poly : List (α × α)} {pt : α × α} (k : Nat) (h : Far atol poly pt) :
    Far atol (poly.rotate k) pt :=
  far_of_edges_subset (fun _ he => (edges_rotate_perm poly k).subset he) h

theorem far_reverse {atol : α} {poly : List (α × α)} {pt : α × α} (h : Far atol poly pt) :
    Far atol poly.reverse pt := by
  intro e he
  have := (edges_reverse_perm poly).subset he
  obtain ⟨e', he', rfl⟩ := List.mem_map.mp this
  exact farEdge_swap (h e' he')

theorem far_close {atol : α} {v0 : α × α} {t : List (α × α)} {pt : α × α} (h : Far atol (v0 :: t) pt) :
    Far atol ((v0 :: t) ++ [v0]) pt := by
  intro e he
  rw [edges_close] at he
  rcases List.mem_append.mp he with he | he
  · exact h e he
  · rw [List.mem_singleton.mp he]
    -- the first edge starts at `v0`
    have hfirst : ∃ q, (v0, q) ∈ edges (v0 :: t) := by
      cases t with
      | nil => exact ⟨v0, by simp [edges, edgesFrom]⟩
      | cons b t' => exact ⟨b, by simp [edges, edgesFrom]⟩
    obtain ⟨q, hq⟩ := hfirst
    intro s _ _
    have := h _ hq 0 (le_refl _) zero_le_one
    simpa using this

/-- translation by `d` -/
def shift (d : α × α) (p : α × α) : α × α := (p.1 + d.1, p.2 + d.2)
/-- scaling by `c` -/
def scale (c : α) (p : α × α) : α × α := (c * p.1, c * p.2)

theorem straddle_shift (d : α × α) (y : α) (p1 p2 : α × α) :
    straddle (y + d.2) (shift d p1) (shift d p2) = straddle y p1 p2 := by
  simp [straddle, below, shift]

theorem xint_shift (d : α × α) (y : α) (p1 p2 : α × α) :
    xint (y + d.2) (shift d p1) (shift d p2) = xint y p1 p2 + d.1 := by
  simp only [xint, shift, add_sub_add_right_eq_sub]; ring

theorem crossR_shift (d : α × α) (x y : α) (p1 p2 : α × α) :
    crossR (x + d.1) (y + d.2) (shift d p1) (shift d p2) = crossR x y p1 p2 := by
  simp [crossR, straddle_shift, xint_shift]

theorem straddle_scale {c : α} (hc : 0 < c) (y : α) (p1 p2 : α × α) :
    straddle (c * y) (scale c p1) (scale c p2) = straddle y p1 p2 := by
  simp [straddle, below, scale, mul_lt_mul_iff_right₀ hc]

theorem xint_scale {c : α} (hc : 0 < c) (y : α) (p1 p2 : α × α) :
    xint (c * y) (scale c p1) (scale c p2) = c * xint y p1 p2 := by
  simp only [xint, scale, ← mul_sub]
  rw [show c * (y - p1.2) * (c * (p2.1 - p1.1)) = c * ((y - p1.2) * (c * (p2.1 - p1.1))) by ring,
    mul_div_mul_left _ _ hc.ne']
  ring

theorem crossR_scale {c : α} (hc : 0 < c) (x y : α) (p1 p2 : α × α) :
    crossR (c * x) (c * y) (scale c p1) (scale c p2) = crossR x y p1 p2 := by
  simp [crossR, straddle_scale hc, xint_scale hc, mul_lt_mul_iff_right₀ hc]

theorem farEdge_shift {atol x y : α} {p1 p2 : α × α} (d : α × α) (h : FarEdge atol x y p1 p2) :
    FarEdge atol (x + d.1) (y + d.2) (shift d p1) (shift d p2) := by
  intro t h0 h1
  have := h t h0 h1
  simp only [shift, add_sub_add_right_eq_sub]
  rw [show x + d.1 - (p1.1 + d.1 + t * (p2.1 - p1.1)) = x - (p1.1 + t * (p2.1 - p1.1)) by ring,
    show y + d.2 - (p1.2 + d.2 + t * (p2.2 - p1.2)) = y - (p1.2 + t * (p2.2 - p1.2)) by ring]
  exact this

theorem far_shift {atol : α} {poly : List (α × α)} {pt : α × α} (d : α × α) (h : Far atol poly pt) :
    Far atol (poly.map (shift d)) (shift d pt) := by
  intro e he
  rw [edges_map] at he
  obtain ⟨e', he', rfl⟩ := List.mem_map.mp he
  exact farEdge_shift d (h e' he')

end HydroVerif.C15
