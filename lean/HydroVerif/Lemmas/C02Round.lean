/-
C02 — a ROUNDED instance of the transform model (helper definitions and lemmas; the property statements that use
them are in `Props/C02.lean`).

The model text of `Model/C01.lean` is generic over its carrier. Besides `Float` (driver), the error-tracking pairs
(driver) and `ℝ` (exact theorems) it is instantiated here at `Rd M`: real numbers on which EVERY arithmetic
operation is followed by a rounding `M.rnd` and every library function is an arbitrary function `M.fexp, M.flog, …`
of which only order properties are assumed. `M : FP` collects what is assumed:

* `rnd` is monotone, fixes 0, 1/2 and 1 and is idempotent — true of every IEEE-754 binary format and rounding mode,
  overflow to ±∞ and gradual underflow included as far as order goes (negation is exact and is not rounded);
* the library functions are monotone where the exact functions are (`exp`, `asinh` everywhere; `log` on the positive
  numbers; `pow` in its base, increasing for a non-negative and decreasing for a non-positive exponent) and keep the
  sign of their exact counterparts (`exp, sqrt, pow ≥ 0`, `tanh ≥ 0` on non-negative arguments). This is an
  assumption about libm / numpy's loops (it holds for any implementation that is accurate to less than half the gap
  between neighbouring results, and is what "faithful and monotone" means in libm documentation); it is NOT verified.

Division by zero and NaN are outside this abstraction (`x / 0 = 0` in ℝ): the statements carry the hypotheses that keep
the computed denominators non-zero wherever the sign of a quotient matters.

What is proved over this instance (Props/C02.lean): `X.fwd` is (weakly) increasing in exactly the arithmetic the code
performs — the property's `x1 < x2 ⇒ forward(x1) ≤ forward(x2)` without any rounding allowance — and `X.jac ≥ 0`.
-/
import HydroVerif.Lemmas.C02

namespace HydroVerif.C02
open HydroVerif.C01

/-- an abstract floating-point arithmetic on the reals: a rounding and a mathematical library, known by order
properties only -/
structure FP where
  rnd : ℝ → ℝ
  rnd_mono : Monotone rnd
  rnd_zero : rnd 0 = 0
  rnd_one : rnd 1 = 1
  /-- binary formats: one half is a floating-point number -/
  rnd_half : rnd (1 / 2) = 1 / 2
  rnd_idem : ∀ x, rnd (rnd x) = rnd x
  fexp : ℝ → ℝ
  flog : ℝ → ℝ
  fsqrt : ℝ → ℝ
  fsinh : ℝ → ℝ
  fcosh : ℝ → ℝ
  ftanh : ℝ → ℝ
  fasinh : ℝ → ℝ
  fpow : ℝ → ℝ → ℝ
  exp_mono : Monotone fexp
  exp_nonneg : ∀ x, 0 ≤ fexp x
  log_mono : ∀ x y, 0 < x → x ≤ y → flog x ≤ flog y
  sqrt_nonneg : ∀ x, 0 ≤ fsqrt x
  tanh_nonneg : ∀ x, 0 ≤ x → 0 ≤ ftanh x
  asinh_mono : Monotone fasinh
  pow_mono : ∀ k x y, 0 ≤ k → 0 < x → x ≤ y → fpow x k ≤ fpow y k
  pow_anti : ∀ k x y, k ≤ 0 → 0 < x → x ≤ y → fpow y k ≤ fpow x k
  pow_nonneg : ∀ x k, 0 < x → 0 ≤ fpow x k

/-- the exact real arithmetic is one such model (so the assumptions are consistent, and every statement over `Rd M`
specialises to a statement about the exact formulas); any IEEE-754 format with a monotone library is another -/
noncomputable def FP.exact : FP where
  rnd := id
  rnd_mono := monotone_id
  rnd_zero := rfl
  rnd_one := rfl
  rnd_half := rfl
  rnd_idem := fun _ => rfl
  fexp := Real.exp
  flog := Real.log
  fsqrt := Real.sqrt
  fsinh := Real.sinh
  fcosh := Real.cosh
  ftanh := Real.tanh
  fasinh := Real.arsinh
  fpow := fun x y => x ^ y
  exp_mono := Real.exp_monotone
  exp_nonneg := fun x => (Real.exp_pos x).le
  log_mono := fun _ _ hx h => Real.log_le_log hx h
  sqrt_nonneg := Real.sqrt_nonneg
  tanh_nonneg := fun x hx => by
    rcases hx.eq_or_lt with h | h
    · rw [← h]; simp
    · exact (tanh_pos h).le
  asinh_mono := fun _ _ h => Real.arsinh_le_arsinh.mpr h
  pow_mono := fun _ _ _ hk hx h => Real.rpow_le_rpow hx.le h hk
  pow_anti := fun _ _ _ hk hx h => Real.rpow_le_rpow_of_nonpos hx h hk
  pow_nonneg := fun _ _ hx => Real.rpow_nonneg hx.le _

/-- a number of the arithmetic `M` (a real; the results of operations are rounded) -/
structure Rd (M : FP) where
  val : ℝ

namespace Rd
variable {M : FP}

@[ext] theorem ext' {a b : Rd M} (h : a.val = b.val) : a = b := by cases a; cases b; simp_all

noncomputable instance : LinearOrder (Rd M) := LinearOrder.lift' Rd.val (fun _ _ h => ext' h)

instance : Add (Rd M) := ⟨fun a b => ⟨M.rnd (a.val + b.val)⟩⟩
instance : Sub (Rd M) := ⟨fun a b => ⟨M.rnd (a.val - b.val)⟩⟩
instance : Mul (Rd M) := ⟨fun a b => ⟨M.rnd (a.val * b.val)⟩⟩
noncomputable instance : Div (Rd M) := ⟨fun a b => ⟨M.rnd (a.val / b.val)⟩⟩
/-- negation is exact in IEEE arithmetic -/
instance : Neg (Rd M) := ⟨fun a => ⟨-a.val⟩⟩
instance (n : ℕ) : OfNat (Rd M) n := ⟨⟨M.rnd n⟩⟩
noncomputable instance : OfScientific (Rd M) := ⟨fun m s e => ⟨M.rnd (OfScientific.ofScientific m s e)⟩⟩
instance : Transc (Rd M) where
  exp a := ⟨M.fexp a.val⟩
  log a := ⟨M.flog a.val⟩
  sqrt a := ⟨M.fsqrt a.val⟩
  sinh a := ⟨M.fsinh a.val⟩
  cosh a := ⟨M.fcosh a.val⟩
  tanh a := ⟨M.ftanh a.val⟩
  asinh a := ⟨M.fasinh a.val⟩
  pow a b := ⟨M.fpow a.val b.val⟩

theorem le_def {a b : Rd M} : a ≤ b ↔ a.val ≤ b.val := Iff.rfl
theorem lt_def {a b : Rd M} : a < b ↔ a.val < b.val := Iff.rfl
@[simp] theorem add_val (a b : Rd M) : (a + b).val = M.rnd (a.val + b.val) := rfl
@[simp] theorem sub_val (a b : Rd M) : (a - b).val = M.rnd (a.val - b.val) := rfl
@[simp] theorem mul_val (a b : Rd M) : (a * b).val = M.rnd (a.val * b.val) := rfl
@[simp] theorem div_val (a b : Rd M) : (a / b).val = M.rnd (a.val / b.val) := rfl
@[simp] theorem neg_val (a : Rd M) : (-a).val = -a.val := rfl
@[simp] theorem zero_val : (0 : Rd M).val = 0 := by
  show M.rnd ((0 : ℕ) : ℝ) = 0
  simp [M.rnd_zero]
@[simp] theorem one_val : (1 : Rd M).val = 1 := by
  show M.rnd ((1 : ℕ) : ℝ) = 1
  simp [M.rnd_one]
theorem two_val : (2 : Rd M).val = M.rnd 2 := by
  show M.rnd ((2 : ℕ) : ℝ) = M.rnd 2
  norm_num
@[simp] theorem exp_val (a : Rd M) : (Transc.exp a).val = M.fexp a.val := rfl
@[simp] theorem log_val (a : Rd M) : (Transc.log a).val = M.flog a.val := rfl
@[simp] theorem sqrt_val (a : Rd M) : (Transc.sqrt a).val = M.fsqrt a.val := rfl
@[simp] theorem tanh_val (a : Rd M) : (Transc.tanh a).val = M.ftanh a.val := rfl
@[simp] theorem asinh_val (a : Rd M) : (Transc.asinh a).val = M.fasinh a.val := rfl
@[simp] theorem pow_val (a b : Rd M) : (Transc.pow a b).val = M.fpow a.val b.val := rfl

theorem rnd_nonneg {x : ℝ} (h : 0 ≤ x) : 0 ≤ M.rnd x := by
  have := M.rnd_mono h
  rwa [M.rnd_zero] at this
theorem rnd_nonpos {x : ℝ} (h : x ≤ 0) : M.rnd x ≤ 0 := by
  have := M.rnd_mono h
  rwa [M.rnd_zero] at this
theorem rnd_le_one {x : ℝ} (h : x ≤ 1) : M.rnd x ≤ 1 := by
  have := M.rnd_mono h
  rwa [M.rnd_one] at this
theorem one_le_rnd {x : ℝ} (h : 1 ≤ x) : 1 ≤ M.rnd x := by
  have := M.rnd_mono h
  rwa [M.rnd_one] at this
/-- a positive result of a rounded operation had a positive exact value -/
theorem pos_of_rnd_pos {x : ℝ} (h : 0 < M.rnd x) : 0 < x := by
  by_contra hx
  exact absurd (rnd_nonpos (M := M) (not_lt.mp hx)) (not_le.mpr h)
theorem neg_of_rnd_neg {x : ℝ} (h : M.rnd x < 0) : x < 0 := by
  by_contra hx
  exact absurd (rnd_nonneg (M := M) (not_lt.mp hx)) (not_le.mpr h)

theorem two_pos : (0 : Rd M) < 2 := by
  rw [lt_def, zero_val, two_val]
  exact lt_of_lt_of_le one_pos (one_le_rnd (by norm_num))
theorem one_pos' : (0 : Rd M) < 1 := by rw [lt_def, zero_val, one_val]; exact one_pos
theorem neg_two_nonpos : (-2 : Rd M) ≤ 0 := by
  rw [le_def, neg_val, zero_val]
  have := (two_pos (M := M)); rw [lt_def, zero_val] at this
  linarith
theorem neg_one_nonpos : (-1 : Rd M) ≤ 0 := by rw [le_def, neg_val, zero_val, one_val]; norm_num

/-! ### monotonicity of the rounded operations -/
theorem add_le_add' {a b c d : Rd M} (h1 : a ≤ c) (h2 : b ≤ d) : a + b ≤ c + d :=
  M.rnd_mono (add_le_add h1 h2)
theorem sub_le_sub' {a b c d : Rd M} (h1 : a ≤ c) (h2 : d ≤ b) : a - b ≤ c - d :=
  M.rnd_mono (sub_le_sub h1 h2)
theorem neg_le_neg' {a b : Rd M} (h : a ≤ b) : -b ≤ -a := by
  rw [le_def] at *; simpa using h
theorem mul_le_mul_right' {a b c : Rd M} (h : a ≤ b) (hc : 0 ≤ c) : a * c ≤ b * c := by
  rw [le_def, zero_val] at hc
  exact M.rnd_mono (mul_le_mul_of_nonneg_right h hc)
theorem mul_le_mul_left' {a b c : Rd M} (h : a ≤ b) (hc : 0 ≤ c) : c * a ≤ c * b := by
  rw [le_def, zero_val] at hc
  exact M.rnd_mono (mul_le_mul_of_nonneg_left h hc)
theorem mul_le_mul_left_of_nonpos {a b c : Rd M} (h : a ≤ b) (hc : c ≤ 0) : c * b ≤ c * a := by
  rw [le_def, zero_val] at hc
  exact M.rnd_mono (mul_le_mul_of_nonpos_left h hc)
theorem div_le_div_right' {a b c : Rd M} (h : a ≤ b) (hc : 0 ≤ c) : a / c ≤ b / c := by
  rw [le_def, zero_val] at hc
  exact M.rnd_mono (div_le_div_of_nonneg_right h hc)
theorem div_le_div_right_of_nonpos {a b c : Rd M} (h : a ≤ b) (hc : c ≤ 0) : b / c ≤ a / c := by
  rw [le_def, zero_val] at hc
  exact M.rnd_mono (div_le_div_of_nonpos_of_le hc h)
/-- a non-negative numerator over a growing positive denominator -/
theorem div_le_div_left_nonneg {a b c : Rd M} (ha : 0 ≤ a) (hb : 0 < b) (h : b ≤ c) : a / c ≤ a / b := by
  rw [le_def, zero_val] at ha
  rw [lt_def, zero_val] at hb
  exact M.rnd_mono (div_le_div_of_nonneg_left ha hb h)
/-- a non-positive numerator over a growing positive denominator -/
theorem div_le_div_left_nonpos {a b c : Rd M} (ha : a ≤ 0) (hb : 0 < b) (h : b ≤ c) : a / b ≤ a / c := by
  rw [le_def, zero_val] at ha
  rw [lt_def, zero_val] at hb
  refine M.rnd_mono ?_
  have h1 : (-a.val) / c.val ≤ (-a.val) / b.val := div_le_div_of_nonneg_left (by linarith) hb h
  have e1 : (-a.val) / c.val = -(a.val / c.val) := by ring
  have e2 : (-a.val) / b.val = -(a.val / b.val) := by ring
  rw [e1, e2] at h1
  linarith
theorem log_le_log' {a b : Rd M} (ha : 0 < a) (h : a ≤ b) : (Transc.log a : Rd M) ≤ Transc.log b := by
  rw [lt_def, zero_val] at ha
  exact M.log_mono _ _ ha h
theorem exp_le_exp' {a b : Rd M} (h : a ≤ b) : (Transc.exp a : Rd M) ≤ Transc.exp b := M.exp_mono h
theorem asinh_le_asinh' {a b : Rd M} (h : a ≤ b) : (Transc.asinh a : Rd M) ≤ Transc.asinh b := M.asinh_mono h
theorem pow_le_pow_base {a b k : Rd M} (hk : 0 ≤ k) (ha : 0 < a) (h : a ≤ b) :
    (Transc.pow a k : Rd M) ≤ Transc.pow b k := by
  rw [le_def, zero_val] at hk
  rw [lt_def, zero_val] at ha
  exact M.pow_mono _ _ _ hk ha h
theorem pow_le_pow_base_of_nonpos {a b k : Rd M} (hk : k ≤ 0) (ha : 0 < a) (h : a ≤ b) :
    (Transc.pow b k : Rd M) ≤ Transc.pow a k := by
  rw [le_def, zero_val] at hk
  rw [lt_def, zero_val] at ha
  exact M.pow_anti _ _ _ hk ha h

/-! ### signs -/
theorem add_nonneg' {a b : Rd M} (ha : 0 ≤ a) (hb : 0 ≤ b) : 0 ≤ a + b := by
  rw [le_def, zero_val] at *
  exact rnd_nonneg (add_nonneg ha hb)
theorem mul_nonneg' {a b : Rd M} (ha : 0 ≤ a) (hb : 0 ≤ b) : 0 ≤ a * b := by
  rw [le_def, zero_val] at *
  exact rnd_nonneg (mul_nonneg ha hb)
theorem mul_self_nonneg' (a : Rd M) : 0 ≤ a * a := by
  rw [le_def, zero_val]
  exact rnd_nonneg (mul_self_nonneg _)
theorem div_nonneg' {a b : Rd M} (ha : 0 ≤ a) (hb : 0 ≤ b) : 0 ≤ a / b := by
  rw [le_def, zero_val] at *
  exact rnd_nonneg (div_nonneg ha hb)
theorem sub_nonneg' {a b : Rd M} (h : b ≤ a) : 0 ≤ a - b := by
  rw [le_def, zero_val]
  exact rnd_nonneg (sub_nonneg.mpr h)
theorem exp_nonneg' (a : Rd M) : (0 : Rd M) ≤ Transc.exp a := by
  rw [le_def, zero_val]; exact M.exp_nonneg _
theorem sqrt_nonneg' (a : Rd M) : (0 : Rd M) ≤ Transc.sqrt a := by
  rw [le_def, zero_val]; exact M.sqrt_nonneg _
theorem tanh_nonneg' {a : Rd M} (h : 0 ≤ a) : (0 : Rd M) ≤ Transc.tanh a := by
  rw [le_def, zero_val] at *; exact M.tanh_nonneg _ h
theorem pow_nonneg' {a : Rd M} (k : Rd M) (h : 0 < a) : (0 : Rd M) ≤ Transc.pow a k := by
  rw [lt_def, zero_val] at h
  rw [le_def, zero_val]; exact M.pow_nonneg _ _ h
/-- a value the arithmetic produced is a fixed point of the rounding -/
def Repr (a : Rd M) : Prop := M.rnd a.val = a.val
theorem repr_add (a b : Rd M) : Repr (a + b) := M.rnd_idem _
theorem repr_sub (a b : Rd M) : Repr (a - b) := M.rnd_idem _

/-! ### the constants of transform.py -/
theorem eps_val : (eps : Rd M).val = M.rnd 1e-10 := rfl
theorem eps_nonneg : (0 : Rd M) ≤ eps := by
  rw [le_def, zero_val, eps_val]; exact rnd_nonneg (by norm_num)
theorem eps_le_one : (eps : Rd M) ≤ 1 := by
  rw [le_def, one_val, eps_val]; exact rnd_le_one (by norm_num)

theorem eps_le_half : (eps : Rd M).val ≤ 1 / 2 := by
  rw [eps_val]
  have := M.rnd_mono (show (1e-10 : ℝ) ≤ 1 / 2 by norm_num)
  rwa [M.rnd_half] at this
/-- `1 - w > 0` survives the rounding when `w < EPS` -/
theorem neg_add_one_pos {w : Rd M} (h : ¬ eps ≤ w) : (0 : Rd M) < -w + 1 := by
  rw [le_def, not_le] at h
  rw [lt_def, zero_val, add_val, neg_val, one_val]
  have h2 := eps_le_half (M := M)
  have : (1 : ℝ) / 2 ≤ -w.val + 1 := by linarith
  have h3 := M.rnd_mono this
  rw [M.rnd_half] at h3
  linarith
/-- `w + 1 ≥ 1` survives the rounding when `w ≥ EPS` -/
theorem add_one_pos {w : Rd M} (h : eps ≤ w) : (0 : Rd M) < w + 1 := by
  have he := eps_nonneg (M := M)
  rw [le_def] at h he
  rw [zero_val] at he
  rw [lt_def, zero_val, add_val, one_val]
  have : (1 : ℝ) ≤ w.val + 1 := by linarith
  have := one_le_rnd (M := M) this
  linarith

theorem absv_nonneg (a : Rd M) : (0 : Rd M) ≤ absv a := by
  unfold absv
  split_ifs with h
  · rw [lt_def, zero_val] at h
    rw [le_def, zero_val, neg_val]; linarith
  · rw [lt_def, zero_val] at h
    rw [le_def, zero_val]; linarith
theorem le_absv (a : Rd M) : a ≤ absv a := by
  unfold absv
  split_ifs with h
  · rw [lt_def, zero_val] at h
    rw [le_def, neg_val]; linarith
  · exact le_rfl
/-- `abs(lam) > EPS` excludes `lam = 0` -/
theorem lamBig_ne {lam : Rd M} (h : lamBig lam = true) : lam.val < 0 ∨ 0 < lam.val := by
  unfold lamBig at h
  have h' := of_decide_eq_true h
  have he := eps_nonneg (M := M)
  rw [le_def, zero_val] at he
  rw [lt_def] at h'
  unfold absv at h'
  split_ifs at h' with hneg
  · left; rwa [lt_def, zero_val] at hneg
  · right; linarith
end Rd

end HydroVerif.C02
