/-
C14 — the missing pattern of the kernel does not depend on the arithmetic: the kernel, run in ANY number system in
which whole seconds (in a range `R`) are cast, compared, added and subtracted exactly, marks as missing exactly the
periods that the control skeleton `kernelMiss` marks on the `marks` of the observations.  No law of
multiplication, division or rounding is assumed: `ExactInt` is true of IEEE doubles for `R x := |x| ≤ 2^53`
(epoch seconds are far inside), of exact rationals and reals for every `R`, and of arithmetics that round every
operation (see the `Rnd8` example in `Props/C14.lean`).
-/
import HydroVerif.Model.C14
import Mathlib.Tactic.Common

namespace HydroVerif.C14

/-- whole seconds in the range `R` are cast, compared, added and subtracted exactly -/
structure ExactInt (α : Type) [Add α] [Sub α] [LT α] [IntCast α] (R : Int → Prop) : Prop where
  lt_iff : ∀ x y : Int, R x → R y → (((x : α) < (y : α)) ↔ x < y)
  add_cast : ∀ x y : Int, R x → R y → R (x + y) → (x : α) + (y : α) = ((x + y : Int) : α)
  sub_cast : ∀ x y : Int, R x → R y → R (x - y) → (x : α) - (y : α) = ((x - y : Int) : α)

section anyarith
set_option linter.unusedSectionVars false
variable {α : Type} [Add α] [Sub α] [Mul α] [Div α] [Neg α] [LT α] [DecidableLT α]
  [OfNat α 0] [OfNat α 2] [IntCast α]

@[simp] theorem marksFrom_nil (c : Cfg α) (a : Obs α) : marksFrom c a [] = [] := rfl
@[simp] theorem marksFrom_cons (c : Cfg α) (a b : Obs α) (r : List (Obs α)) :
    marksFrom c a (b :: r) = (b.1, invalid c a b) :: marksFrom c b r := rfl

/-- the `while` loop and its skeleton: same error, or same `miss` flag and corresponding suffix -/
theorem walk_marks {R : Int → Prop} (hx : ExactInt α R) (c : Cfg α) (s : α) (E : Int) (hE : R E) :
    ∀ (l : List (Obs α)) (a : Obs α) (aM : Mark) (h : α) (m : Bool), aM.1 = a.1 → R a.1 → (∀ x ∈ l, R x.1) →
      (∀ hm suf, walk c s (E : α) a l (h, m) = .ok (hm, suf) →
        ∃ sufM, walkM E aM (marksFrom c a l) m = .ok (hm.2, sufM) ∧ sufM.1.1 = suf.1.1 ∧
          sufM.2 = marksFrom c suf.1 suf.2 ∧ R suf.1.1 ∧ ∀ x ∈ suf.2, R x.1) ∧
      (∀ x, walk c s (E : α) a l (h, m) = .error x → walkM E aM (marksFrom c a l) m = .error x) := by
  intro l
  induction l with
  | nil =>
    intro a aM h m _ _ _
    refine ⟨?_, ?_⟩
    · intro hm suf hw; rw [walk] at hw; exact absurd hw (by simp)
    · intro x hw; rw [walk] at hw
      simp only [Except.error.injEq] at hw; subst hw
      simp [walkM]
  | cons b rest ih =>
    intro a aM h m haM hRa hRl
    have hRb : R b.1 := hRl b (by simp)
    have hlt : ((b.1 : α) < (a.1 : α)) ↔ b.1 < a.1 := hx.lt_iff _ _ hRb hRa
    have hltE : ((b.1 : α) < (E : α)) ↔ b.1 < E := hx.lt_iff _ _ hRb hE
    cases rest with
    | nil =>
      rw [walk, marksFrom_cons, marksFrom_nil, walkM]
      simp only [haM]
      by_cases hd : b.1 < a.1
      · simp [hd, hlt.mpr hd]
      · have hd' : ¬ (b.1 : α) < (a.1 : α) := fun h => hd (hlt.mp h)
        simp only [hd, hd', if_false]
        refine ⟨?_, ?_⟩
        · intro hm suf hw
          simp only [Except.ok.injEq, Prod.mk.injEq] at hw
          obtain ⟨hw1, hw2⟩ := hw
          subst hw1 hw2
          refine ⟨(aM, [(b.1, invalid c a b)]), ?_, haM, by simp, hRa, by simpa using hRb⟩
          simp only [Except.ok.injEq, Prod.mk.injEq, and_true]
          by_cases hbe : b.1 < E
          · simp [hbe, hltE.mpr hbe]
          · have : ¬ (b.1 : α) < (E : α) := fun h => hbe (hltE.mp h)
            simp [hbe, this]
        · intro x hw; exact absurd hw (by simp)
    | cons r rest' =>
      rw [walk, marksFrom_cons, marksFrom_cons, walkM]
      simp only [haM]
      by_cases hd : b.1 < a.1
      · simp [hd, hlt.mpr hd]
      · have hd' : ¬ (b.1 : α) < (a.1 : α) := fun h => hd (hlt.mp h)
        simp only [hd, hd', if_false]
        by_cases hbe : b.1 < E
        · have hbe' : (b.1 : α) < (E : α) := hltE.mpr hbe
          simp only [hbe, hbe', if_true]
          have := ih b (b.1, invalid c a b) (addPiece h (piece c s (E : α) a b)) (m || invalid c a b) rfl hRb
            (fun x hx' => hRl x (List.mem_cons_of_mem _ hx'))
          simpa only [marksFrom_cons] using this
        · have hbe' : ¬ (b.1 : α) < (E : α) := fun h => hbe (hltE.mp h)
          simp only [hbe, hbe', if_false]
          refine ⟨?_, ?_⟩
          · intro hm suf hw
            simp only [Except.ok.injEq, Prod.mk.injEq] at hw
            obtain ⟨hw1, hw2⟩ := hw
            subst hw1 hw2
            exact ⟨_, rfl, haM, by simp, hRa, hRl⟩
          · intro x hw; exact absurd hw (by simp)

/-- one period and its skeleton -/
theorem period_marks {R : Int → Prop} (hx : ExactInt α R) (c : Cfg α) (hstart : Int) (i : Nat)
    (hR1 : R (hstart + (i : Int) * c.P)) (hRP : R c.P) (hR2 : R (hstart + (i : Int) * c.P + c.P))
    (suf : Obs α × List (Obs α)) (sufM : Mark × List Mark) (h1 : sufM.1.1 = suf.1.1)
    (h2 : sufM.2 = marksFrom c suf.1 suf.2) (hRs : R suf.1.1 ∧ ∀ x ∈ suf.2, R x.1) :
    (∀ o suf', period c hstart i suf = .ok (o, suf') →
      ∃ sufM', periodM c.P hstart i sufM = .ok (o.isNone, sufM') ∧ sufM'.1.1 = suf'.1.1 ∧
        sufM'.2 = marksFrom c suf'.1 suf'.2 ∧ R suf'.1.1 ∧ ∀ x ∈ suf'.2, R x.1) ∧
    (∀ x, period c hstart i suf = .error x → periodM c.P hstart i sufM = .error x) := by
  have hend : pEnd c hstart i = ((hstart + (i : Int) * c.P + c.P : Int) : α) := by
    simp only [pEnd, pStart]; exact hx.add_cast _ _ hR1 hRP hR2
  have hlt : ((suf.1.1 : α) < ((hstart + (i : Int) * c.P + c.P : Int) : α)) ↔ suf.1.1 < hstart + (i : Int) * c.P + c.P :=
    hx.lt_iff _ _ hRs.1 hR2
  obtain ⟨hw1, hw2⟩ := walk_marks hx c (pStart c hstart i) (hstart + (i : Int) * c.P + c.P) hR2 suf.2 suf.1 sufM.1
    0 false h1 hRs.1 hRs.2
  unfold period periodM
  simp only [hend, h1, h2]
  by_cases hd : suf.1.1 < hstart + (i : Int) * c.P + c.P
  · simp only [hd, hlt.mpr hd, if_true]
    cases hw : walk c (pStart c hstart i) ((hstart + (i : Int) * c.P + c.P : Int) : α) suf.1 suf.2 (0, false) with
    | error x =>
      refine ⟨fun o suf' h => absurd h (by simp), ?_⟩
      intro y hy
      simp only [Except.error.injEq] at hy; subst hy
      exact hw2 x hw
    | ok r =>
      obtain ⟨⟨hh, m⟩, suf'⟩ := r
      obtain ⟨sufM', hM, r1, r2, r3⟩ := hw1 (hh, m) suf' hw
      refine ⟨?_, fun y hy => absurd hy (by simp)⟩
      intro o suf'' h
      simp only [Except.ok.injEq, Prod.mk.injEq] at h
      obtain ⟨ho, hs⟩ := h
      subst hs
      refine ⟨sufM', ?_, r1, r2, r3⟩
      rw [hM]
      subst ho
      cases m <;> simp
  · have : ¬ (suf.1.1 : α) < ((hstart + (i : Int) * c.P + c.P : Int) : α) := fun h => hd (hlt.mp h)
    simp only [hd, this, if_false]
    exact ⟨fun o suf' h => absurd h (by simp), fun y hy => by simpa using hy⟩

/-- the `for` loop and its skeleton -/
theorem loop_marks {R : Int → Prop} (hx : ExactInt α R) (c : Cfg α) (hstart : Int) (hRP : R c.P) (N : Nat)
    (hRper : ∀ k : Nat, k < N → R (hstart + (k : Int) * c.P) ∧ R (hstart + (k : Int) * c.P + c.P)) :
    ∀ (n i : Nat) (suf : Obs α × List (Obs α)) (sufM : Mark × List Mark), i + n ≤ N → sufM.1.1 = suf.1.1 →
      sufM.2 = marksFrom c suf.1 suf.2 → (R suf.1.1 ∧ ∀ x ∈ suf.2, R x.1) →
      (∀ out, loop c hstart n i suf = .ok out → loopM c.P hstart n i sufM = .ok (out.map Option.isNone)) ∧
      (∀ x, loop c hstart n i suf = .error x → loopM c.P hstart n i sufM = .error x) := by
  intro n
  induction n with
  | zero =>
    intro i suf sufM _ _ _ _
    refine ⟨?_, ?_⟩
    · intro out h; simp only [loop, Except.ok.injEq] at h; subst h; simp [loopM]
    · intro x h; simp [loop] at h
  | succ n ih =>
    intro i suf sufM hiN h1 h2 hRs
    obtain ⟨hp1, hp2⟩ := period_marks hx c hstart i (hRper i (by omega)).1 hRP (hRper i (by omega)).2 suf sufM h1 h2 hRs
    rw [loop, loopM]
    cases hp : period c hstart i suf with
    | error x =>
      rw [hp2 x hp]
      exact ⟨fun out h => absurd h (by simp), fun y hy => by simpa using hy⟩
    | ok r =>
      obtain ⟨o, suf'⟩ := r
      obtain ⟨sufM', hM, r1, r2, r3⟩ := hp1 o suf' hp
      rw [hM]
      simp only
      obtain ⟨hl1, hl2⟩ := ih (i + 1) suf' sufM' (by omega) r1 r2 r3
      cases hl : loop c hstart n (i + 1) suf' with
      | error x =>
        rw [hl2 x hl]
        exact ⟨fun out h => absurd h (by simp), fun y hy => by simpa using hy⟩
      | ok hs =>
        rw [hl1 hs hl]
        refine ⟨?_, fun y hy => absurd hy (by simp)⟩
        intro out h
        simp only [Except.ok.injEq] at h; subst h
        simp

/-- the start scan only compares whole seconds -/
theorem scanFrom_marks (c : Cfg α) (hstart : Int) :
    ∀ (l : List (Obs α)) (a : Obs α) (aM : Mark), aM.1 = a.1 →
      (scanFromM hstart aM (marksFrom c a l)).1.1 = (scanFrom hstart a l).1.1 ∧
      (scanFromM hstart aM (marksFrom c a l)).2 = marksFrom c (scanFrom hstart a l).1 (scanFrom hstart a l).2 ∧
      ∀ R : Int → Prop, R a.1 → (∀ x ∈ l, R x.1) →
        R (scanFrom hstart a l).1.1 ∧ ∀ x ∈ (scanFrom hstart a l).2, R x.1 := by
  intro l
  induction l with
  | nil => intro a aM h; simp [scanFrom, scanFromM, h]
  | cons b rest ih =>
    intro a aM h
    cases rest with
    | nil =>
      simp only [marksFrom_cons, marksFrom_nil, scanFrom, scanFromM]
      exact ⟨h, by simp, fun R ha hl => ⟨ha, hl⟩⟩
    | cons r rest' =>
      by_cases hb : b.1 ≤ hstart
      · have e1 : scanFrom hstart a (b :: r :: rest') = scanFrom hstart b (r :: rest') := by
          rw [scanFrom]; simp [hb]
        have e2 : scanFromM hstart aM (marksFrom c a (b :: r :: rest')) =
            scanFromM hstart (b.1, invalid c a b) (marksFrom c b (r :: rest')) := by
          rw [marksFrom_cons, marksFrom_cons, scanFromM]; simp [hb]
        rw [e1, e2]
        obtain ⟨i1, i2, i3⟩ := ih b (b.1, invalid c a b) rfl
        exact ⟨i1, i2, fun R ha hl => i3 R (hl b (by simp)) (fun x hx' => hl x (List.mem_cons_of_mem _ hx'))⟩
      · have e1 : scanFrom hstart a (b :: r :: rest') = (a, b :: r :: rest') := by
          rw [scanFrom]; simp [hb]
        have e2 : scanFromM hstart aM (marksFrom c a (b :: r :: rest')) = (aM, marksFrom c a (b :: r :: rest')) := by
          rw [marksFrom_cons, marksFrom_cons, scanFromM]; simp [hb]
        rw [e1, e2]
        exact ⟨h, rfl, fun R ha hl => ⟨ha, hl⟩⟩

/-- **the kernel and its control skeleton**: same error, or the same missing pattern -/
theorem kernel_marks {R : Int → Prop} (hx : ExactInt α R) (c : Cfg α) (hstart nvalh : Int) (obs : List (Obs α))
    (hRobs : ∀ x ∈ obs, R x.1) (hRP : R c.P)
    (hRper : ∀ k : Nat, (k : Int) < nvalh - 1 → R (hstart + (k : Int) * c.P) ∧ R (hstart + (k : Int) * c.P + c.P)) :
    (∀ out, kernel c hstart nvalh obs = .ok out →
      kernelMiss c.P c.rain hstart nvalh (marks c obs) = .ok (out.map Option.isNone)) ∧
    (∀ x, kernel c hstart nvalh obs = .error x → kernelMiss c.P c.rain hstart nvalh (marks c obs) = .error x) := by
  unfold kernel kernelMiss
  by_cases h1 : c.rain < 0 ∨ 1 < c.rain
  · rw [if_pos h1, if_pos h1]
    exact ⟨fun out h => absurd h (by simp), fun y hy => by simpa using hy⟩
  · rw [if_neg h1, if_neg h1]
    by_cases h2 : c.P ≠ 1800 ∧ c.P ≠ 3600
    · rw [if_pos h2, if_pos h2]
      exact ⟨fun out h => absurd h (by simp), fun y hy => by simpa using hy⟩
    · rw [if_neg h2, if_neg h2]
      match obs, hRobs with
      | [], _ => simp [startScan, startScanM, marks]
      | [a], _ => simp [startScan, startScanM, marks]
      | a :: b :: rest, hRobs =>
        simp only [startScan, marks, marksFrom_cons, startScanM]
        by_cases ha : a.1 ≤ hstart
        · simp only [ha, if_true]
          obtain ⟨s1, s2, s3⟩ := scanFrom_marks c hstart (b :: rest) a (a.1, false) rfl
          have hr := s3 R (hRobs a (by simp)) (fun x hx' => hRobs x (List.mem_cons_of_mem _ hx'))
          have := loop_marks hx c hstart hRP (nvalh - 1).toNat
            (fun k hk => hRper k (by omega)) (nvalh - 1).toNat 0 (scanFrom hstart a (b :: rest))
            (scanFromM hstart (a.1, false) (marksFrom c a (b :: rest))) (by omega) s1 s2 hr
          simpa only [marksFrom_cons] using this
        · simp only [ha, if_false]
          exact ⟨fun out h => absurd h (by simp), fun y hy => by simpa using hy⟩

end anyarith

end HydroVerif.C14
