/-
C15 — the even-odd answer is constant along every segment (hence every polygonal path) that misses the boundary.
This is the topological content of "interior under the even-odd rule" that the theorems carry: the points answered 1
cannot be joined to a point outside the bounding box without meeting an edge.
-/
import HydroVerif.Lemmas.C15Direction

set_option linter.unusedSectionVars false

namespace HydroVerif.C15

variable {α : Type} [Field α] [LinearOrder α] [IsStrictOrderedRing α]

/-- point of the segment `A B` at parameter `t` -/
def segPt (A B : α × α) (t : α) : α × α := (A.1 + t * (B.1 - A.1), A.2 + t * (B.2 - A.2))

/-- the closed segment `P Q` has no point in common with any edge (closed segment) of the polygon -/
def SegFree (poly : List (α × α)) (P Q : α × α) : Prop :=
  ∀ e ∈ edges poly, ∀ s t : α, 0 ≤ s → s ≤ 1 → 0 ≤ t → t ≤ 1 → segPt P Q s ≠ segPt e.1 e.2 t

theorem segFree_far_left {poly : List (α × α)} {P Q : α × α} (h : SegFree poly P Q) : Far 0 poly P := by
  intro e he
  rw [far0_edge_iff]
  intro t h0 h1 heq
  apply h e he 0 t (le_refl _) zero_le_one h0 h1
  simp only [segPt, zero_mul, add_zero]
  exact heq

theorem segFree_far_right {poly : List (α × α)} {P Q : α × α} (h : SegFree poly P Q) : Far 0 poly Q := by
  intro e he
  rw [far0_edge_iff]
  intro t h0 h1 heq
  apply h e he 1 t zero_le_one (le_refl _) h0 h1
  simp only [segPt, one_mul, add_sub_cancel]
  exact heq

/-- an injective map sending segments to segments (same parameter) keeps a segment off the boundary -/
theorem segFree_map {f : α × α → α × α} (hinj : Function.Injective f)
    (haff : ∀ (p q : α × α) (t : α), f (segPt p q t) = segPt (f p) (f q) t)
    {poly : List (α × α)} {P Q : α × α} (h : SegFree poly P Q) : SegFree (poly.map f) (f P) (f Q) := by
  intro e he s t hs0 hs1 ht0 ht1 heq
  rw [edges_map] at he
  obtain ⟨e', he', rfl⟩ := List.mem_map.mp he
  apply h e' he' s t hs0 hs1 ht0 ht1
  apply hinj
  rw [haff, haff]
  exact heq

theorem shift_segPt (d p q : α × α) (t : α) : shift d (segPt p q t) = segPt (shift d p) (shift d q) t := by
  simp only [shift, segPt]; exact Prod.ext (by ring) (by ring)

theorem shift_injective (d : α × α) : Function.Injective (shift d) := by
  intro p q h
  have h1 := congrArg Prod.fst h
  have h2 := congrArg Prod.snd h
  simp only [shift] at h1 h2
  exact Prod.ext (add_right_cancel h1) (add_right_cancel h2)

/-- along a horizontal segment that misses the boundary the crossing parity does not change -/
theorem evenOdd_horizontal_free {poly : List (α × α)} {x1 x2 y : α} (hx : x1 < x2)
    (h : SegFree poly (x1, y) (x2, y)) : evenOdd poly (x1, y) = evenOdd poly (x2, y) := by
  unfold evenOdd
  apply parity_map_congr
  intro e he
  unfold crossR
  cases hs : straddle y e.1 e.2
  · rfl
  · simp only [Bool.true_and, decide_eq_decide]
    constructor
    · intro h1
      by_contra h2
      have h2' : xint y e.1 e.2 ≤ x2 := not_lt.mp h2
      -- the point (xint, y) lies on the edge and on the segment
      obtain ⟨ht0, ht1⟩ := tpar_mem hs
      have hd : 0 < x2 - x1 := by linarith
      apply h e he ((xint y e.1 e.2 - x1) / (x2 - x1)) (tpar y e.1 e.2)
        (div_nonneg (by linarith) hd.le) ((div_le_one hd).mpr (by linarith)) ht0 ht1
      simp only [segPt]
      refine Prod.ext ?_ ?_
      · simp only
        rw [← xint_eq_tpar]
        field_simp
        ring
      · simp only
        rw [tpar_y hs, sub_self, mul_zero, add_zero]
    · intro h2; linarith

/-- **the even-odd answer is the same at both ends of every segment that misses the boundary** -/
theorem evenOdd_segFree {poly : List (α × α)} {P Q : α × α} (h : SegFree poly P Q) :
    evenOdd poly P = evenOdd poly Q := by
  by_cases hPQ : P = Q
  · rw [hPQ]
  set d : α × α := (Q.1 - P.1, Q.2 - P.2) with hd
  have hd0 : d ≠ (0, 0) := by
    intro h0
    have h1 := congrArg Prod.fst h0
    have h2 := congrArg Prod.snd h0
    simp only [hd] at h1 h2
    exact hPQ (Prod.ext (sub_eq_zero.mp h1).symm (sub_eq_zero.mp h2).symm)
  have hdet : d.1 * d.1 - d.2 * -d.2 ≠ 0 := by
    intro h0
    have : d.1 * d.1 + d.2 * d.2 = 0 := by linarith
    obtain ⟨h1, h2⟩ := mul_self_add_mul_self_eq_zero.mp this
    exact hd0 (Prod.ext h1 h2)
  set sh := shift (-P.1, -P.2) with hsh
  set L := lin d.1 d.2 (-d.2) d.1 with hL
  have hP := segFree_far_left h
  have hQ := segFree_far_right h
  have eP : evenOdd ((poly.map sh).map L) (L (sh P)) = evenOdd poly P := by
    rw [(inv_lin hdet _ _ (far_shift (-P.1, -P.2) hP)).1, evenOdd_shift']
  have eQ : evenOdd ((poly.map sh).map L) (L (sh Q)) = evenOdd poly Q := by
    rw [(inv_lin hdet _ _ (far_shift (-P.1, -P.2) hQ)).1, evenOdd_shift']
  have hfree : SegFree ((poly.map sh).map L) (L (sh P)) (L (sh Q)) :=
    segFree_map (lin_injective hdet) (fun p q t => lin_affine _ _ _ _ p q t)
      (segFree_map (shift_injective _) (shift_segPt _) h)
  have hLP : L (sh P) = (0, 0) := by simp [hL, hsh, lin, shift]
  have hLQ : L (sh Q) = (d.1 * d.1 + d.2 * d.2, 0) := by
    simp only [hL, hsh, lin, shift, hd]; exact Prod.ext (by ring) (by ring)
  have hc : (0 : α) < d.1 * d.1 + d.2 * d.2 := by
    rcases lt_or_gt_of_ne (fun h0 : d.1 * d.1 + d.2 * d.2 = 0 => hdet (by linarith)) with hlt | hgt
    · nlinarith [mul_self_nonneg d.1, mul_self_nonneg d.2]
    · exact hgt
  rw [← eP, ← eQ, hLP, hLQ]
  rw [hLP, hLQ] at hfree
  exact evenOdd_horizontal_free hc hfree

/-- consecutive points of the path are joined by segments that miss the boundary -/
def PathFree (poly : List (α × α)) : List (α × α) → Prop
  | [] => True
  | [_] => True
  | p :: q :: rest => SegFree poly p q ∧ PathFree poly (q :: rest)

/-- … hence the same at both ends of every polygonal path that misses the boundary -/
theorem evenOdd_pathFree {poly : List (α × α)} : ∀ (P : α × α) (path : List (α × α)),
    PathFree poly (P :: path) → evenOdd poly P = evenOdd poly ((P :: path).getLast (List.cons_ne_nil _ _)) := by
  intro P path
  induction path generalizing P with
  | nil => intro _; rfl
  | cons q rest ih =>
    intro h
    obtain ⟨h1, h2⟩ := h
    rw [evenOdd_segFree h1, ih q h2]
    rfl

end HydroVerif.C15
