/-
C17 — the two kernels are linear maps of (innovations / inputs, mean, lag buffer): homogeneity (scale
freedom), additivity, and invariance under a common shift of mean, initial value and series.
Exact arithmetic (any commutative ring); used by `Props/C17.lean`.
-/
import HydroVerif.Lemmas.C17

namespace HydroVerif.C17

open Finset

variable {α : Type} [CommRing α] {p : Nat}

@[simp] theorem zeroNaN_scaleOpt (c : α) (e : Option α) : zeroNaN (scaleOpt c e) = c * zeroNaN e := by
  cases e <;> simp [scaleOpt, zeroNaN]

theorem term_scale (ps buf : Vector α p) (c : α) (j : Nat) :
    term ps (buf.map (c * ·)) j = c * term ps buf j := by
  unfold term
  split
  · simp [Vector.getElem_map]; ring
  · simp

theorem dot_scale (ps buf : Vector α p) (c : α) : dot ps (buf.map (c * ·)) = c * dot ps buf := by
  unfold dot dotUpTo
  rw [Finset.mul_sum]
  exact sum_congr rfl fun j _ => term_scale ps buf c j

theorem shift_scale (x c : α) (buf : Vector α p) :
    shift (c * x) (buf.map (c * ·)) = (shift x buf).map (c * ·) := by
  unfold shift
  ext j hj
  simp only [Vector.getElem_ofFn, Vector.getElem_map]
  split <;> rfl

theorem cval_scale (ps buf : Vector α p) (m c : α) (x : Option α) :
    cval ps (buf.map (c * ·)) (c * m) (scaleOpt c x) = c * cval ps buf m x := by
  cases x with
  | none => simp [cval, scaleOpt, dot_scale]
  | some x => simp [cval, scaleOpt]; ring

theorem simRun_scale (ps : Vector α p) (m c : α) : ∀ (es : List (Option α)) (buf : Vector α p),
    simRun nf ps (c * m) (buf.map (c * ·)) (es.map (scaleOpt c)) = (simRun nf ps m buf es).map (c * ·) := by
  intro es; induction es with
  | nil => intro buf; rfl
  | cons e es ih =>
    intro buf
    rw [List.map_cons, simRun_cons, simRun_cons, List.map_cons, zeroNaN_scaleOpt, dot_scale]
    have h1 : c * zeroNaN e + c * dot ps buf = c * (zeroNaN e + dot ps buf) := by ring
    rw [h1, shift_scale, ih]
    congr 1
    ring

theorem resRun_scale (ps : Vector α p) (m c : α) : ∀ (xs : List (Option α)) (buf : Vector α p),
    resRun nf ps (c * m) (buf.map (c * ·)) (xs.map (scaleOpt c)) = (resRun nf ps m buf xs).map (c * ·) := by
  intro xs; induction xs with
  | nil => intro buf; rfl
  | cons x xs ih =>
    intro buf
    rw [List.map_cons, resRun_cons, resRun_cons, List.map_cons, cval_scale, dot_scale, shift_scale, ih]
    congr 1
    ring

theorem replicate_scale (c x : α) : (Vector.replicate p x).map (c * ·) = Vector.replicate p (c * x) := by
  ext j hj
  simp

/-! ### a common shift of mean, initial value (and inputs) -/

theorem simRun_shift (ps : Vector α p) (m d : α) : ∀ (es : List (Option α)) (buf : Vector α p),
    simRun nf ps (m + d) buf es = (simRun nf ps m buf es).map (· + d) := by
  intro es; induction es with
  | nil => intro buf; rfl
  | cons e es ih =>
    intro buf
    rw [simRun_cons, simRun_cons, List.map_cons, ih]
    congr 1
    ring

theorem cval_shift (ps buf : Vector α p) (m d : α) (x : Option α) :
    cval ps buf (m + d) (shiftOpt d x) = cval ps buf m x := by
  cases x with
  | none => rfl
  | some x => simp [cval, shiftOpt]

theorem resRun_shift (ps : Vector α p) (m d : α) : ∀ (xs : List (Option α)) (buf : Vector α p),
    resRun nf ps (m + d) buf (xs.map (shiftOpt d)) = resRun nf ps m buf xs := by
  intro xs; induction xs with
  | nil => intro buf; rfl
  | cons x xs ih =>
    intro buf
    rw [List.map_cons, resRun_cons, resRun_cons, cval_shift, ih]

/-! ### additivity -/

theorem term_add (ps buf buf' : Vector α p) (j : Nat) :
    term ps (Vector.zipWith (· + ·) buf buf') j = term ps buf j + term ps buf' j := by
  unfold term
  split
  · simp [Vector.getElem_zipWith]; ring
  · simp

theorem dot_add (ps buf buf' : Vector α p) :
    dot ps (Vector.zipWith (· + ·) buf buf') = dot ps buf + dot ps buf' := by
  unfold dot dotUpTo
  rw [← Finset.sum_add_distrib]
  exact sum_congr rfl fun j _ => term_add ps buf buf' j

theorem shift_add (x x' : α) (buf buf' : Vector α p) :
    shift (x + x') (Vector.zipWith (· + ·) buf buf') = Vector.zipWith (· + ·) (shift x buf) (shift x' buf') := by
  unfold shift
  ext j hj
  simp only [Vector.getElem_ofFn, Vector.getElem_zipWith]
  split <;> rfl

theorem simRun_add (ps : Vector α p) (m m' : α) : ∀ (es es' : List (Option α)) (buf buf' : Vector α p),
    simRun nf ps (m + m') (Vector.zipWith (· + ·) buf buf') (addInnov es es') =
      List.zipWith (· + ·) (simRun nf ps m buf es) (simRun nf ps m' buf' es') := by
  intro es; induction es with
  | nil => intro es' buf buf'; simp [addInnov]
  | cons e es ih =>
    intro es' buf buf'
    cases es' with
    | nil => simp [addInnov]
    | cons e' es' =>
      rw [addInnov, simRun_cons, simRun_cons, simRun_cons, List.zipWith_cons_cons, zeroNaN_some, dot_add]
      have h1 : zeroNaN e + zeroNaN e' + (dot ps buf + dot ps buf') =
          (zeroNaN e + dot ps buf) + (zeroNaN e' + dot ps buf') := by ring
      rw [h1, shift_add, ih]
      congr 1
      ring

end HydroVerif.C17
