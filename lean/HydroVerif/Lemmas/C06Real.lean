/-
C06 — the real numbers with `Real.sqrt` as an instance of the numeric interface of the length model
(`pathLength`, `hypot` only use `sqrt`; the other functions of the shared class `Transc` play no role in
C06 and are given placeholder values here). The instance is a plain definition (not a global instance):
the theorems that use it say so with `letI`.
-/
import HydroVerif.Lemmas.C06
import Mathlib.Analysis.Real.Sqrt

namespace HydroVerif.C06

/-- `ℝ` with `Real.sqrt` -/
@[reducible] noncomputable def realTransc : Transc ℝ where
  exp := fun x => x
  log := fun x => x
  sqrt := Real.sqrt
  sinh := fun x => x
  cosh := fun x => x
  tanh := fun x => x
  asinh := fun x => x
  pow := fun x _ => x

theorem realTransc_sqrt_zero : realTransc.sqrt (0 : ℝ) = 0 := Real.sqrt_zero
theorem realTransc_sqrt_one : realTransc.sqrt (1 : ℝ) = 1 := Real.sqrt_one
theorem realTransc_sqrt_two : realTransc.sqrt (1 + 1 : ℝ) = Real.sqrt 2 := by
  show Real.sqrt (1 + 1) = Real.sqrt 2
  norm_num

end HydroVerif.C06
