/-
C18 — helper lemmas: the invariant linking the syntactic ownership check to the buffers of a run.
No Mathlib needed.
-/
import HydroVerif.Model.C18
namespace HydroVerif.C18

/-- abstract value `none` ⇒ the local holds a private buffer; `some r` ⇒ caller `r`'s buffer or a private one -/
def AbsOK (a : Abs) (env : Nat → Entry) : Prop :=
  ∀ x, match a x with
       | none => (env x).buf.isFresh = true
       | some r => (env x).buf = .caller r ∨ (env x).buf.isFresh = true

/-- every caller buffer written so far is one the wrapper may write -/
def WrittenOK (allowed : List Nat) (w : List Buf) : Prop := ∀ i, Buf.caller i ∈ w → i ∈ allowed

/-- every kernel argument flagged as written is private or an allowed caller buffer -/
def EventsOK (allowed : List Nat) (evs : List Event) : Prop :=
  ∀ e ∈ evs, ∀ arg ∈ e.args, arg.2 = true → ∀ i, arg.1 = some i → i ∈ allowed

theorem absOK_init (kinds : Nat → Kind) (n0 : Nat) : AbsOK absInit (init kinds n0).env := by
  intro x; simp [absInit, init]

theorem absOK_upd_fresh {a : Abs} {env : Nat → Entry} (h : AbsOK a env) (d n : Nat) (k : Kind) :
    AbsOK (absUpd a d none) (upd env d ⟨.fresh n, k⟩) := by
  intro x
  by_cases hx : x = d
  · simp [absUpd, upd, hx, Buf.isFresh]
  · have := h x
    simpa [absUpd, upd, hx] using this

theorem absOK_upd_view {a : Abs} {env : Nat → Entry} (h : AbsOK a env) (d s : Nat) :
    AbsOK (absUpd a d (a s)) (upd env d (env s)) := by
  intro x
  by_cases hx : x = d
  · have := h s
    simpa [absUpd, upd, hx] using this
  · have := h x
    simpa [absUpd, upd, hx] using this

/-- a buffer whose abstract value passes the check is private or allowed -/
theorem buf_ok_of_check {allowed : List Nat} {a : Abs} {env : Nat → Entry} (h : AbsOK a env) (x : Nat)
    (hc : (match a x with | none => true | some r => allowed.contains r) = true) (i : Nat)
    (hb : (env x).buf = .caller i) : i ∈ allowed := by
  have hx := h x
  cases hax : a x with
  | none => rw [hax] at hx; simp [hb, Buf.isFresh] at hx
  | some r =>
    rw [hax] at hx hc
    rcases hx with hx | hx
    · rw [hb] at hx; injection hx with hx; subst hx; simpa using hc
    · simp [hb, Buf.isFresh] at hx

theorem callerIdx_eq_some {b : Buf} {i : Nat} : b.callerIdx = some i ↔ b = .caller i := by
  cases b <;> simp [Buf.callerIdx]

/-- the generic invariant step: the syntactic check propagates through any program -/
theorem sound_aux (allowed : List Nat) :
    ∀ (p : Program) (a : Abs) (st : State), safeFrom allowed a p = true → AbsOK a st.env →
      WrittenOK allowed st.written → EventsOK allowed st.events →
      WrittenOK allowed (runFrom st p).written ∧ EventsOK allowed (runFrom st p).events := by
  intro p
  induction p with
  | nil => intro a st _ _ hw he; exact ⟨hw, he⟩
  | cons s p ih =>
    intro a st hs ha hw he
    cases s with
    | copy d src dt =>
      simp only [safeFrom] at hs
      exact ih _ (step st (.copy d src dt)) hs (absOK_upd_fresh ha d _ _) hw he
    | alloc d dt =>
      simp only [safeFrom] at hs
      exact ih _ (step st (.alloc d dt)) hs (absOK_upd_fresh ha d _ _) hw he
    | retype x dt =>
      simp only [safeFrom] at hs
      refine ih a (step st (.retype x dt)) hs ?_ hw he
      intro y
      by_cases hy : y = x
      · have := ha x
        simpa [step, upd, hy] using this
      · have := ha y
        simpa [step, upd, hy] using this
    | view d src c =>
      simp only [safeFrom] at hs
      by_cases hc : c.sat (st.env src).kind = true
      · have hst : step st (.view d src c) = { st with env := upd st.env d (st.env src) } := by
          simp [step, hc]
        have := ih (absUpd a d (a src)) (step st (.view d src c)) hs
          (by rw [hst]; exact absOK_upd_view ha d src) (by rw [hst]; exact hw) (by rw [hst]; exact he)
        exact this
      · have hst : step st (.view d src c) =
            { st with env := upd st.env d ⟨.fresh st.next, freshKind (c.dt.getD (st.env src).kind.dt)⟩,
                      next := st.next + 1 } := by
          simp [step, hc]
        -- a private buffer satisfies any abstract value
        have hok : AbsOK (absUpd a d (a src)) (step st (.view d src c)).env := by
          rw [hst]
          intro x
          by_cases hx : x = d
          · cases a src <;> simp [absUpd, upd, hx, Buf.isFresh]
          · have := ha x
            simpa [absUpd, upd, hx] using this
        exact ih _ _ hs hok (by rw [hst]; exact hw) (by rw [hst]; exact he)
    | pywrite x =>
      simp only [safeFrom, Bool.and_eq_true] at hs
      refine ih a (step st (.pywrite x)) hs.2 ha ?_ he
      intro i hi
      simp only [step, List.mem_cons] at hi
      rcases hi with hi | hi
      · exact buf_ok_of_check ha x hs.1 i hi.symm
      · exact hw i hi
    | kernel name args =>
      simp only [safeFrom, Bool.and_eq_true, List.all_eq_true] at hs
      refine ih a (step st (.kernel name args)) hs.2 ha ?_ ?_
      · intro i hi
        simp only [step, List.mem_append, List.mem_map, List.mem_filter] at hi
        rcases hi with ⟨arg, ⟨harg, hwflag⟩, hb⟩ | hi
        · have hc := hs.1 arg harg
          simp only [hwflag, Bool.not_true, Bool.false_or] at hc
          exact buf_ok_of_check ha arg.1 hc i hb
        · exact hw i hi
      · intro e hemem
        simp only [step, List.mem_append, List.mem_singleton] at hemem
        rcases hemem with hemem | hemem
        · exact he e hemem
        · subst hemem
          intro earg hearg hwflag i hi
          simp only [List.mem_map] at hearg
          obtain ⟨arg, harg, rfl⟩ := hearg
          simp only at hwflag hi
          have hc := hs.1 arg harg
          simp only [hwflag, Bool.not_true, Bool.false_or] at hc
          exact buf_ok_of_check ha arg.1 hc i (callerIdx_eq_some.mp hi)

/-! ### what a body hands back: the abstract environment describes the final environment -/

theorem absOK_step (a : Abs) (st : State) (h : AbsOK a st.env) (s : Stmt) : AbsOK (absStep a s) (step st s).env := by
  cases s with
  | copy d src dt => exact absOK_upd_fresh h d _ _
  | alloc d dt => exact absOK_upd_fresh h d _ _
  | retype x dt =>
    intro y
    by_cases hy : y = x
    · have := h x
      simpa [absStep, step, upd, hy] using this
    · have := h y
      simpa [absStep, step, upd, hy] using this
  | pywrite x => exact h
  | kernel name args => exact h
  | view d src c =>
    by_cases hc : c.sat (st.env src).kind = true
    · have hst : (step st (.view d src c)).env = upd st.env d (st.env src) := by simp [step, hc]
      rw [hst]; exact absOK_upd_view h d src
    · have hst : (step st (.view d src c)).env =
          upd st.env d ⟨.fresh st.next, freshKind (c.dt.getD (st.env src).kind.dt)⟩ := by simp [step, hc]
      rw [hst]
      intro x
      by_cases hx : x = d
      · cases ha : a src <;> simp [absStep, absUpd, upd, hx, Buf.isFresh, ha]
      · have := h x
        simpa [absStep, absUpd, upd, hx] using this

theorem absOK_run : ∀ (p : Program) (a : Abs) (st : State), AbsOK a st.env → AbsOK (absRun a p) (runFrom st p).env := by
  intro p
  induction p with
  | nil => intro a st h; exact h
  | cons s p ih => intro a st h; exact ih (absStep a s) (step st s) (absOK_step a st h s)

/-! ### dtype of the caller's objects -/

theorem step_retyped_of_not_retype (st : State) (s : Stmt) (h : (match s with | .retype _ _ => false | _ => true) = true) :
    (step st s).retyped = st.retyped := by
  cases s with
  | retype x dt => simp at h
  | view d src c => simp only [step]; split <;> rfl
  | _ => rfl

theorem runFrom_retyped_of_noRetype : ∀ (p : Program) (st : State), noRetype p = true →
    (runFrom st p).retyped = st.retyped := by
  intro p
  induction p with
  | nil => intro st _; rfl
  | cons s p ih =>
    intro st h
    simp only [noRetype, List.all_cons, Bool.and_eq_true] at h
    show (runFrom (step st s) p).retyped = st.retyped
    rw [ih (step st s) h.2, step_retyped_of_not_retype st s h.1]

/-! ### memory semantics: frame property -/

theorem mstep_st {α} (sem : Sem α) (ms : MState α) (s : Stmt) : (mstep sem ms s).st = step ms.st s := by
  cases s with
  | view d src c =>
    simp only [mstep]
    split <;> rfl
  | _ => rfl

theorem mrunFrom_st {α} (sem : Sem α) : ∀ (p : Program) (ms : MState α),
    (mrunFrom sem ms p).st = runFrom ms.st p := by
  intro p
  induction p with
  | nil => intro ms; rfl
  | cons s p ih =>
    intro ms
    show (mrunFrom sem (mstep sem ms s) p).st = runFrom (step ms.st s) p
    rw [ih, mstep_st]

theorem step_next_le (st : State) (s : Stmt) : st.next ≤ (step st s).next := by
  cases s with
  | view d src c => simp only [step]; split <;> simp
  | _ => simp [step]

theorem step_written_mono (st : State) (s : Stmt) (b : Buf) (h : b ∈ st.written) : b ∈ (step st s).written := by
  cases s with
  | view d src c => simp only [step]; split <;> exact h
  | pywrite x => simp [step, h]
  | kernel name args => simp [step, h]
  | _ => exact h

theorem runFrom_written_mono : ∀ (p : Program) (st : State) (b : Buf), b ∈ st.written → b ∈ (runFrom st p).written := by
  intro p
  induction p with
  | nil => intro st b h; exact h
  | cons s p ih => intro st b h; exact ih (step st s) b (step_written_mono st s b h)

theorem storeOut_frame {α} : ∀ (bufs : List (Buf × Bool)) (m : Mem α) (outs : List α) (b : Buf),
    storeOut m bufs outs b = m b ∨ (b, true) ∈ bufs := by
  intro bufs
  induction bufs with
  | nil => intro m outs b; left; rfl
  | cons bw rest ih =>
    intro m outs b
    obtain ⟨b0, w⟩ := bw
    cases outs with
    | nil => left; rfl
    | cons v vs =>
      simp only [storeOut]
      rcases ih (if w then memSet m b0 v else m) vs b with h | h
      · cases w with
        | false => left; simpa using h
        | true =>
          by_cases hb : b = b0
          · right; simp [hb]
          · left; rw [h]; simp [memSet, hb]
      · right; exact List.mem_cons_of_mem _ h

/-- one statement changes memory only at the buffer it allocates or at a buffer it records as written -/
theorem mstep_frame {α} (sem : Sem α) (ms : MState α) (s : Stmt) (b : Buf) :
    (mstep sem ms s).mem b = ms.mem b ∨ b = .fresh ms.st.next ∨ b ∈ (step ms.st s).written := by
  cases s with
  | copy d src dt =>
    by_cases hb : b = .fresh ms.st.next
    · right; left; exact hb
    · left; simp [mstep, memSet, hb]
  | alloc d dt =>
    by_cases hb : b = .fresh ms.st.next
    · right; left; exact hb
    · left; simp [mstep, memSet, hb]
  | view d src c =>
    simp only [mstep]
    split
    · left; rfl
    · by_cases hb : b = .fresh ms.st.next
      · right; left; exact hb
      · left; simp [memSet, hb]
  | retype x dt => left; rfl
  | pywrite x =>
    by_cases hb : b = (ms.st.env x).buf
    · right; right; simp [step, hb]
    · left; simp [mstep, memSet, hb]
  | kernel name args =>
    simp only [mstep]
    rcases storeOut_frame (args.map fun a => ((ms.st.env a.1).buf, a.2)) ms.mem
      (sem.kernel name ((args.map fun a => ((ms.st.env a.1).buf, a.2)).map fun b => ms.mem b.1)) b with h | h
    · left; exact h
    · right; right
      simp only [List.mem_map] at h
      obtain ⟨arg, harg, heq⟩ := h
      simp only [step, List.mem_append, List.mem_map, List.mem_filter]
      left
      injection heq with h1 h2
      exact ⟨arg, ⟨harg, h2⟩, h1⟩

/-- a run changes memory only at buffers allocated during the run or recorded as written -/
theorem mrun_frame {α} (sem : Sem α) : ∀ (p : Program) (ms : MState α) (b : Buf),
    (mrunFrom sem ms p).mem b = ms.mem b ∨ (∃ n, b = .fresh n ∧ ms.st.next ≤ n) ∨
      b ∈ (runFrom ms.st p).written := by
  intro p
  induction p with
  | nil => intro ms b; left; rfl
  | cons s p ih =>
    intro ms b
    have h1 := ih (mstep sem ms s) b
    rw [mstep_st] at h1
    show (mrunFrom sem (mstep sem ms s) p).mem b = ms.mem b ∨ _ ∨ b ∈ (runFrom (step ms.st s) p).written
    rcases h1 with h1 | ⟨n, hn, hle⟩ | h1
    · rcases mstep_frame sem ms s b with h2 | h2 | h2
      · left; rw [h1, h2]
      · right; left; exact ⟨ms.st.next, h2, Nat.le_refl _⟩
      · right; right; exact runFrom_written_mono p _ b h2
    · right; left; exact ⟨n, hn, Nat.le_trans (step_next_le ms.st s) hle⟩
    · right; right; exact h1

/-- what a prefix of the body has written stays written -/
theorem written_of_prefix (pre post : Program) (st : State) (b : Buf) (h : b ∈ (runFrom st pre).written) :
    b ∈ (runFrom st (pre ++ post)).written := by
  unfold runFrom at *
  rw [List.foldl_append]
  exact runFrom_written_mono post _ b h

/-! ### two runs from equal caller contents: fresh buffers correspond by a shift of the allocator -/

def shiftBuf (δ : Nat) : Buf → Buf
  | .caller i => .caller i
  | .fresh n => .fresh (n + δ)

theorem shiftBuf_inj (δ : Nat) {a b : Buf} (h : shiftBuf δ a = shiftBuf δ b) : a = b := by
  cases a <;> cases b <;> simp [shiftBuf] at h ⊢ <;> omega

theorem callerIdx_shift (δ : Nat) (b : Buf) : (shiftBuf δ b).callerIdx = b.callerIdx := by
  cases b <;> rfl

/-- buffers that exist in a run started with allocator state `n0`: every caller buffer, and the private
buffers handed out so far -/
def Valid (n0 nx : Nat) : Buf → Prop
  | .caller _ => True
  | .fresh n => n0 ≤ n ∧ n < nx

theorem Valid.mono {n0 nx nx' : Nat} {b : Buf} (h : Valid n0 nx b) (hle : nx ≤ nx') : Valid n0 nx' b := by
  cases b with
  | caller i => trivial
  | fresh n => exact ⟨h.1, Nat.lt_of_lt_of_le h.2 hle⟩

structure Rel {α} (δ n0 : Nat) (m1 m2 : MState α) : Prop where
  next : m2.st.next = m1.st.next + δ
  base : n0 ≤ m1.st.next
  envBuf : ∀ x, (m2.st.env x).buf = shiftBuf δ (m1.st.env x).buf
  envKind : ∀ x, (m2.st.env x).kind = (m1.st.env x).kind
  valid : ∀ x, Valid n0 m1.st.next (m1.st.env x).buf
  events : m2.st.events = m1.st.events
  written : m2.st.written = m1.st.written.map (shiftBuf δ)
  mem : ∀ b, Valid n0 m1.st.next b → m2.mem (shiftBuf δ b) = m1.mem b

theorem storeOut_shift {α} (δ n0 nx : Nat) : ∀ (bufs : List (Buf × Bool)) (m1 m2 : Mem α) (outs : List α),
    (∀ b, Valid n0 nx b → m2 (shiftBuf δ b) = m1 b) → (∀ bw ∈ bufs, Valid n0 nx bw.1) →
    ∀ b, Valid n0 nx b →
      storeOut m2 (bufs.map fun bw => (shiftBuf δ bw.1, bw.2)) outs (shiftBuf δ b) = storeOut m1 bufs outs b := by
  intro bufs
  induction bufs with
  | nil => intro m1 m2 outs hm _ b hb; exact hm b hb
  | cons bw rest ih =>
    intro m1 m2 outs hm hv b hb
    obtain ⟨b0, w⟩ := bw
    cases outs with
    | nil => exact hm b hb
    | cons v vs =>
      simp only [List.map_cons, storeOut]
      apply ih _ _ vs _ (fun bw h => hv bw (List.mem_cons_of_mem _ h)) b hb
      intro b' hb'
      cases w with
      | false => simpa using hm b' hb'
      | true =>
        simp only [if_true, memSet]
        by_cases h : b' = b0
        · simp [h]
        · have : shiftBuf δ b' ≠ shiftBuf δ b0 := fun h' => h (shiftBuf_inj δ h')
          simp [h, this, hm b' hb']

theorem rel_alloc {α} {δ n0 : Nat} {m1 m2 : MState α} (h : Rel δ n0 m1 m2) (d : Nat) (k : Kind) (v1 v2 : α)
    (hv : v2 = v1) :
    Rel δ n0
      ⟨{ m1.st with env := upd m1.st.env d ⟨.fresh m1.st.next, k⟩, next := m1.st.next + 1 },
        memSet m1.mem (.fresh m1.st.next) v1⟩
      ⟨{ m2.st with env := upd m2.st.env d ⟨.fresh m2.st.next, k⟩, next := m2.st.next + 1 },
        memSet m2.mem (.fresh m2.st.next) v2⟩ := by
  subst hv
  refine ⟨?_, ?_, ?_, ?_, ?_, h.events, h.written, ?_⟩
  · simp [h.next]; omega
  · exact Nat.le_succ_of_le h.base
  · intro x
    by_cases hx : x = d
    · simp [upd, hx, shiftBuf, h.next]
    · simpa [upd, hx] using h.envBuf x
  · intro x
    by_cases hx : x = d
    · simp [upd, hx]
    · simpa [upd, hx] using h.envKind x
  · intro x
    by_cases hx : x = d
    · simp only [upd, hx, if_true]; exact ⟨h.base, Nat.lt_succ_self _⟩
    · simp only [upd, hx, if_false]; exact (h.valid x).mono (Nat.le_succ _)
  · intro b hb
    by_cases hbn : b = .fresh m1.st.next
    · subst hbn; simp [memSet, shiftBuf, h.next]
    · have hb' : Valid n0 m1.st.next b := by
        cases b with
        | caller i => trivial
        | fresh n =>
          refine ⟨hb.1, ?_⟩
          have : n ≠ m1.st.next := fun e => hbn (by rw [e])
          have := hb.2
          simp only at this
          omega
      have hne : shiftBuf δ b ≠ .fresh m2.st.next := by
        rw [h.next]
        intro e
        exact hbn (shiftBuf_inj δ (by simpa [shiftBuf] using e))
      simp [memSet, hbn, hne, h.mem b hb']

theorem rel_step {α} (sem : Sem α) {δ n0 : Nat} {m1 m2 : MState α} (h : Rel δ n0 m1 m2) (s : Stmt) :
    Rel δ n0 (mstep sem m1 s) (mstep sem m2 s) := by
  cases s with
  | copy d src dt =>
    have hk := h.envKind src
    have hm : m2.mem (m2.st.env src).buf = m1.mem (m1.st.env src).buf := by
      rw [h.envBuf src]; exact h.mem _ (h.valid src)
    simp only [mstep, step]
    rw [hk]
    exact rel_alloc h d _ _ _ (by rw [hm])
  | alloc d dt =>
    simp only [mstep, step]
    exact rel_alloc h d _ _ _ rfl
  | view d src c =>
    have hk := h.envKind src
    have hm : m2.mem (m2.st.env src).buf = m1.mem (m1.st.env src).buf := by
      rw [h.envBuf src]; exact h.mem _ (h.valid src)
    by_cases hc : c.sat (m1.st.env src).kind = true
    · have hc2 : c.sat (m2.st.env src).kind = true := by rw [hk]; exact hc
      simp only [mstep, step, hc, hc2, if_true]
      refine ⟨h.next, h.base, ?_, ?_, ?_, h.events, h.written, h.mem⟩
      · intro x
        by_cases hx : x = d
        · simpa [upd, hx] using h.envBuf src
        · simpa [upd, hx] using h.envBuf x
      · intro x
        by_cases hx : x = d
        · simpa [upd, hx] using h.envKind src
        · simpa [upd, hx] using h.envKind x
      · intro x
        by_cases hx : x = d
        · simpa [upd, hx] using h.valid src
        · simpa [upd, hx] using h.valid x
    · have hc2 : ¬ c.sat (m2.st.env src).kind = true := by rw [hk]; exact hc
      simp only [mstep, step, hc, hc2]
      rw [hk]
      exact rel_alloc h d _ _ _ (by rw [hm])
  | retype x dt =>
    simp only [mstep, step]
    refine ⟨h.next, h.base, ?_, ?_, ?_, h.events, h.written, h.mem⟩
    · intro y
      by_cases hy : y = x
      · simpa [upd, hy] using h.envBuf x
      · simpa [upd, hy] using h.envBuf y
    · intro y
      by_cases hy : y = x
      · simp [upd, hy]
      · simpa [upd, hy] using h.envKind y
    · intro y
      by_cases hy : y = x
      · simpa [upd, hy] using h.valid x
      · simpa [upd, hy] using h.valid y
  | pywrite x =>
    have hm : m2.mem (m2.st.env x).buf = m1.mem (m1.st.env x).buf := by
      rw [h.envBuf x]; exact h.mem _ (h.valid x)
    simp only [mstep, step]
    refine ⟨h.next, h.base, h.envBuf, h.envKind, h.valid, h.events, ?_, ?_⟩
    · simp [h.written, h.envBuf x]
    · intro b hb
      rw [h.envBuf x, hm] at *
      by_cases hbx : b = (m1.st.env x).buf
      · simp [memSet, hbx]
      · have : shiftBuf δ b ≠ shiftBuf δ (m1.st.env x).buf := fun e => hbx (shiftBuf_inj δ e)
        simp [memSet, hbx, this, h.mem b hb]
  | kernel name args =>
    simp only [mstep, step]
    have hbufs : (args.map fun a => ((m2.st.env a.1).buf, a.2)) =
        (args.map fun a => ((m1.st.env a.1).buf, a.2)).map fun bw => (shiftBuf δ bw.1, bw.2) := by
      simp [List.map_map, Function.comp_def, h.envBuf]
    have hins : ((args.map fun a => ((m2.st.env a.1).buf, a.2)).map fun b => m2.mem b.1) =
        ((args.map fun a => ((m1.st.env a.1).buf, a.2)).map fun b => m1.mem b.1) := by
      simp only [List.map_map, Function.comp_def]
      apply List.map_congr_left
      intro a _
      rw [h.envBuf a.1]; exact h.mem _ (h.valid a.1)
    refine ⟨h.next, h.base, h.envBuf, h.envKind, h.valid, ?_, ?_, ?_⟩
    · simp [h.events, h.envBuf, callerIdx_shift]
    · simp [h.written, List.map_map, Function.comp_def, h.envBuf]
    · intro b hb
      rw [hins, hbufs]
      apply storeOut_shift δ n0 m1.st.next _ _ _ _ h.mem _ b hb
      intro bw hbw
      simp only [List.mem_map] at hbw
      obtain ⟨a, _, rfl⟩ := hbw
      exact h.valid a.1

theorem rel_run {α} (sem : Sem α) {δ n0 : Nat} : ∀ (p : Program) {m1 m2 : MState α}, Rel δ n0 m1 m2 →
    Rel δ n0 (mrunFrom sem m1 p) (mrunFrom sem m2 p) := by
  intro p
  induction p with
  | nil => intro m1 m2 h; exact h
  | cons s p ih => intro m1 m2 h; exact ih (rel_step sem h s)

theorem rel_init {α} (kinds : Nat → Kind) (m m' : Mem α) (n0 δ : Nat)
    (hm : ∀ i, m' (.caller i) = m (.caller i)) :
    Rel δ n0 (⟨init kinds n0, m⟩ : MState α) ⟨init kinds (n0 + δ), m'⟩ := by
  refine ⟨rfl, Nat.le_refl _, ?_, ?_, ?_, rfl, rfl, ?_⟩
  · intro x; rfl
  · intro x; rfl
  · intro x; trivial
  · intro b hb
    cases b with
    | caller i => exact hm i
    | fresh n =>
      have h1 : n0 ≤ n := hb.1
      have h2 : n < n0 := hb.2
      omega

end HydroVerif.C18
