/-
C10 — rank vectors: index-free form of the Weigel–Mason ranks, their invariances, observation ranks,
single-member forecasts. Helper lemmas.
-/
import HydroVerif.Lemmas.C10Rank
import Mathlib.Data.List.Nodup
import Mathlib.Data.List.Forall2

set_option linter.unusedSectionVars false
set_option linter.unusedVariables false

namespace HydroVerif.C10
open HydroVerif.C04 (sumL absG)

variable {α : Type} [Field α] [LinearOrder α] [IsStrictOrderedRing α]

/-! ### order-only dependence of the specification -/

theorem wmU_map {f : α → α} (hf : StrictMono f) (ei ek : List α) : wmU (ei.map f) (ek.map f) = wmU ei ek := by
  unfold wmU; rw [wm_map hf, wm_map hf]

theorem wmU_perm {ei ei' ek ek' : List α} (h1 : ei.Perm ei') (h2 : ek.Perm ek') : wmU ei ek = wmU ei' ek' := by
  unfold wmU; rw [wm_perm h1 h2, wm_perm h2 h1]

theorem wmF_map {f : α → α} (hf : StrictMono f) (e1 e2 : List α) : wmF (e1.map f) (e2.map f) = wmF e1 e2 := by
  unfold wmF; rw [wm_map hf, List.length_map]

theorem wmF_perm {e1 e1' e2 e2' : List α} (h1 : e1.Perm e1') (h2 : e2.Perm e2') : wmF e1 e2 = wmF e1' e2' := by
  unfold wmF; rw [wm_perm h1 h2, h1.length_eq]

theorem wmU_self (e : List α) : wmU e e = 1 / 2 := by simp [wmU]

theorem zipIdx_map' {β γ : Type} (g : β → γ) (l : List β) (k : ℕ) :
    (l.map g).zipIdx k = (l.zipIdx k).map fun x => (g x.1, x.2) := by
  induction l generalizing k with
  | nil => rfl
  | cons a l ih => simp [ih]

theorem wmRanks_map {f : α → α} (hf : StrictMono f) (rows : List (List α)) :
    wmRanks (rows.map (List.map f)) = wmRanks rows := by
  unfold wmRanks wmRank
  rw [zipIdx_map', List.map_map]
  apply List.map_congr_left
  intro ei _
  simp only [Function.comp_def, List.map_map, wmU_map hf]

theorem wmRank_inner_perm (i : ℕ) {ei ei' : List α} (hi : ei.Perm ei') {rows rows' : List (List α)}
    (h : List.Forall₂ List.Perm rows rows') (k : ℕ) :
    ((rows.zipIdx k).map fun ek => if ek.2 = i then 0 else wmU ei ek.1).sum
      = ((rows'.zipIdx k).map fun ek => if ek.2 = i then 0 else wmU ei' ek.1).sum := by
  induction h generalizing k with
  | nil => rfl
  | cons hab _ ih =>
    simp only [List.zipIdx_cons, List.map_cons, List.sum_cons, ih (k + 1), wmU_perm hi hab]

/-- permuting the members inside each ensemble does not change the ranks -/
theorem wmRanks_perm {rows rows' : List (List α)} (h : List.Forall₂ List.Perm rows rows') :
    wmRanks rows = wmRanks rows' := by
  unfold wmRanks
  have gen : ∀ (A A' : List (List α)), List.Forall₂ List.Perm A A' → ∀ k,
      ((A.zipIdx k).map fun ei => wmRank rows ei.2 ei.1) = ((A'.zipIdx k).map fun ei => wmRank rows' ei.2 ei.1) := by
    intro A A' hA
    induction hA with
    | nil => intro k; rfl
    | cons hab _ ih =>
      intro k
      simp only [List.zipIdx_cons, List.map_cons, ih (k + 1)]
      congr 1
      unfold wmRank
      rw [wmRank_inner_perm k hab h 0]
  exact gen rows rows' h 0

theorem upperF_wmF_map {f : α → α} (hf : StrictMono f) (rows : List (List α)) :
    upperF wmF (rows.map (List.map f)) = upperF wmF rows := by
  induction rows with
  | nil => rfl
  | cons e rest ih => simp [upperF, ih, wmF_map hf, Function.comp_def]

theorem upperF_wmF_perm {rows rows' : List (List α)} (h : List.Forall₂ List.Perm rows rows') :
    upperF wmF rows = upperF wmF rows' := by
  induction h with
  | nil => rfl
  | cons hab hrest ih =>
    simp only [upperF, ih]
    congr 1
    clear ih
    induction hrest with
    | nil => rfl
    | cons hcd _ ih2 => simp [ih2, wmF_perm hab hcd]

theorem forall₂_perm_length {rows rows' : List (List α)} (hp : List.Forall₂ List.Perm rows rows') (m : ℕ)
    (h : ∀ e ∈ rows, e.length = m) : ∀ e ∈ rows', e.length = m := by
  induction hp with
  | nil => intro e he; simp at he
  | cons hab _ ih =>
    intro e he
    rcases List.mem_cons.mp he with h1 | h1
    · rw [h1, ← hab.length_eq]; exact h _ (by simp)
    · exact ih (fun e' he' => h e' (by simp [he'])) e h1

theorem forall₂_perm_ne_nil {rows rows' : List (List α)} (hp : List.Forall₂ List.Perm rows rows')
    (h : rows ≠ []) : rows' ≠ [] := by
  cases hp with
  | nil => exact absurd rfl h
  | cons _ _ => simp

/-! ### index-free form of the ranks: rank = ½ + Σ_k u(i, k), the mid-rank among the ensembles -/

theorem map_fst_zipIdx {β γ : Type} (g : β → γ) (l : List β) (k : ℕ) :
    ((l.zipIdx k).map fun x => g x.1) = l.map g := by
  induction l generalizing k with
  | nil => rfl
  | cons a l ih => simp [ih]

theorem sum_zipIdx_skip {β : Type} (g : β → α) (l : List β) (k : ℕ) (x : β) (i : ℕ) (hx : (x, i) ∈ l.zipIdx k) :
    ((l.zipIdx k).map fun y => if y.2 = i then 0 else g y.1).sum = (l.map g).sum - g x := by
  induction l generalizing k with
  | nil => simp at hx
  | cons a l ih =>
    simp only [List.zipIdx_cons, List.mem_cons] at hx
    simp only [List.zipIdx_cons, List.map_cons, List.sum_cons]
    rcases hx with he | hmem
    · injection he with h1 h2
      subst h1; subst h2
      have hrest : ((l.zipIdx (i + 1)).map fun y => if y.2 = i then 0 else g y.1).sum = (l.map g).sum := by
        have : ((l.zipIdx (i + 1)).map fun y => if y.2 = i then 0 else g y.1)
            = ((l.zipIdx (i + 1)).map fun y => g y.1) := by
          apply List.map_congr_left
          intro y hy
          have := List.le_snd_of_mem_zipIdx hy
          rw [if_neg (by omega)]
        rw [this]
        rw [map_fst_zipIdx]
      rw [hrest]; simp
    · have hki : k ≠ i := by
        have := List.le_snd_of_mem_zipIdx hmem
        simp at this; omega
      rw [if_neg hki, ih (k + 1) hmem]; ring

theorem wmRank_eq (rows : List (List α)) (ei : List α) (i : ℕ) (h : (ei, i) ∈ rows.zipIdx) :
    wmRank rows i ei = 1 / 2 + (rows.map (wmU ei)).sum := by
  unfold wmRank
  rw [sum_zipIdx_skip (wmU ei) rows 0 ei i h, wmU_self]; ring

theorem wmRanks_eq (rows : List (List α)) :
    wmRanks rows = rows.map fun ei => 1 / 2 + (rows.map (wmU ei)).sum := by
  unfold wmRanks
  have : (rows.zipIdx.map fun ei => wmRank rows ei.2 ei.1)
      = rows.zipIdx.map fun ei => (fun e => 1 / 2 + (rows.map (wmU e)).sum) ei.1 := by
    apply List.map_congr_left
    intro ei hei
    exact wmRank_eq rows ei.1 ei.2 hei
  rw [this]
  exact map_fst_zipIdx (fun e => 1 / 2 + (rows.map (wmU e)).sum) rows 0

/-! ### single-member forecasts: mid-ranks of the column -/

theorem rowScore_eq_counts (a : α) (l : List α) :
    rowScore a l = (((l.filter fun b => decide (b < a)).length : ℕ) : α)
      + (((l.filter fun b => !decide (b < a) && !decide (a < b)).length : ℕ) : α) / 2 := by
  induction l with
  | nil => simp
  | cons b l ih =>
    rw [rowScore_cons, ih]
    rcases lt_trichotomy b a with h | h | h
    · simp [ps_of_lt h, h, not_lt.mpr h.le]; ring
    · subst h; simp [ps_self]; ring
    · simp [ps_of_gt h, h, not_lt.mpr h.le]

theorem midRanks_eq (l : List α) : midRanks l = l.map fun a => 1 / 2 + rowScore a l := by
  unfold midRanks
  apply List.map_congr_left
  intro a _
  rw [rowScore_eq_counts]; ring

theorem wm_singleton (a b : α) : wm [a] [b] = ps a b := by simp [wm, rowScore]

theorem wmU_singleton (a b : α) : wmU [a] [b] = ps a b := by
  unfold wmU
  rw [wm_singleton, wm_singleton]
  rcases lt_trichotomy a b with h | h | h
  · simp [ps_of_gt h, ps_of_lt h]
  · subst h; simp [ps_self]
  · simp [ps_of_gt h, ps_of_lt h]

/-- for single-member forecasts the mid-ranks of the column are the Weigel–Mason ranks -/
theorem midRanks_singletons (col : List α) :
    midRanks ((col.map fun a => [a]).flatten) = wmRanks (col.map fun a => [a]) := by
  have hfl : (col.map fun a => [a]).flatten = col := by
    induction col with
    | nil => rfl
    | cons a l ih => simp [ih]
  rw [hfl, midRanks_eq, wmRanks_eq, List.map_map]
  apply List.map_congr_left
  intro a _
  simp only [Function.comp_def, List.map_map, wmU_singleton, rowScore]

theorem singletons_eq (rows : List (List α)) (h : ∀ e ∈ rows, e.length = 1) :
    rows = rows.flatten.map fun a => [a] := by
  induction rows with
  | nil => rfl
  | cons e rest ih =>
    have he := h e (by simp)
    match e, he with
    | [a], _ =>
      simp only [List.flatten_cons, List.singleton_append, List.map_cons]
      rw [← ih (fun e' he' => h e' (by simp [he']))]

/-- the conditions under which `dscore` obtains its forecast ranks: a valid kernel call on `n ≥ 1` forecasts of
`m ≥ 1` members, every pair of ensembles tied-or-separated and stably sorted (not needed for `m = 1`,
where the kernel is not used) -/
def RanksOK (sort : List (α × ℕ) → List (α × ℕ)) (epsmin eps ceps : α) (m : ℕ) (rows : List (List α)) : Prop :=
  epsmin ≤ eps ∧ 0 < eps ∧ 0 ≤ ceps ∧ 0 < m ∧ rows ≠ [] ∧ (∀ e ∈ rows, e.length = m) ∧
    (m ≠ 1 → rows.Pairwise (PairOK sort eps ceps))

/-! ### observation ranks -/

theorem stableRanks_map {f : α → α} (hf : StrictMono f) (obs : List α) :
    stableRanks (obs.map f) = stableRanks obs := by
  unfold stableRanks
  rw [zipIdx_map', List.map_map]
  apply List.map_congr_left
  intro xi _
  simp only [Function.comp_def, List.filter_map, List.length_map, hf.lt_iff_lt]

end HydroVerif.C10
