/-
C17 — the quantities the theorems speak about (specification side), executable and Mathlib-free so that the
driver evaluates them on the correspondence stream: a missing innovation read as zero, the value `k+1` steps
before step `t` of an output series, the centred lag a run started from an arbitrary buffer sees, scaling /
shifting / adding series with missing values.
-/
import HydroVerif.Model.C17

namespace HydroVerif.C17

/-- a missing innovation reads as zero -/
def zeroNaN {α : Type} [OfNat α 0] : Option α → α
  | none => 0
  | some x => x

/-- the value `k+1` steps before step `t` of the output series `ys`: an earlier output, or the initial
value before the start of the series (`y[t-(k+1)]` with `y[-j] = ini`) -/
def past {α : Type} (ys : List α) (ini : α) (t k : Nat) : α :=
  if h : k < t ∧ t - 1 - k < ys.length then ys[t - 1 - k] else ini

/-- centred value `k+1` steps before step `t` in a run started from the buffer `b0`:
an earlier output minus the mean, or what the initial buffer held for that lag -/
def glag {α : Type} [Sub α] [OfNat α 0] {p : Nat} (ys : List α) (b0 : Vector α p) (m : α) (t k : Nat) (hk : k < p) : α :=
  if k < t then ys.getD (t - 1 - k) 0 - m else b0[k - t]'(by omega)

/-- multiply a possibly-missing value (a missing value stays missing) -/
def scaleOpt {α : Type} [Mul α] (c : α) : Option α → Option α
  | none => none
  | some x => some (c * x)

/-- add to a possibly-missing value -/
def shiftOpt {α : Type} [Add α] (d : α) : Option α → Option α
  | none => none
  | some x => some (x + d)

/-- the sum of two innovation series, position by position (missing = 0) -/
def addInnov {α : Type} [Add α] [OfNat α 0] : List (Option α) → List (Option α) → List (Option α)
  | e :: es, e' :: es' => some (zeroNaN e + zeroNaN e') :: addInnov es es'
  | _, _ => []

end HydroVerif.C17
