/-
C12 — the transform CLASSES of `hydrodiy.stat.transform`: what each constructor builds (names, defaults, bounds and
flags of the parameter vector, of the constant vector and of the inner `BoxCox2`), which classes re-sync an inner
object, the constructor guards, `get_transform(name, **kwargs)`, and a process holding several instances built by
class. No Mathlib. Mirrors transform.py class by class:

  Identity, Softmax   `super().__init__(name)`                          no parameter, no constant
  Logit               Vector(["lower","logdelta"], [0,0], [-inf,-10], [inf,10])
  Log(mininu)         Vector(["nu"], defaults=[mininu], mins=[mininu])   (maxs omitted)
  Reciprocal(mininu)  Vector(["nu"], [mininu], [mininu])
  BoxCox2(mininu, minilam)      `minilam < -3` -> ValueError; Vector(["nu","lam"], [mininu,1], [mininu,minilam], [inf,3])
  BoxCox2sym(mininu, minilam)   same guard, same vector, `self.BC = BoxCox2(mininu, minilam)`
  BoxCox1lam(mininu, minilam)   Vector(["lam"],[1],[minilam],[3]); constants Vector(["nu"],[nan],[mininu],[inf],accept_nan);
                                `self.BC = BoxCox2(..)` (whose guard and constructor run last)
  BoxCox1nu(mininu, minilam)    Vector(["nu"],[mininu],[mininu],[inf]); constants Vector(["lam"],[nan],[minilam],[3],accept_nan); BC
  YeoJohnson          Vector(["nu","scale","lam"], [0,1,1], [-inf,1e-5,-1], [inf,inf,3])
  LogSinh             Vector(["loga","logb"], [-1,0], [-20,-5], [0,5]); constants Vector(["xmax"],[nan],[EPS],[inf],accept_nan)
  Sinh                Vector(["nu","scale"], [0,1], [-inf,1e-10], [inf,inf])
  Manly               Vector(["lam"],[0.1],[-5],[5]); constants Vector(["xmax"],[nan],[EPS],[inf],accept_nan)

`Transform.__init__` takes `params=Vector([])` / `constants=Vector([])` as DEFAULT ARGUMENTS: the classes that do not
pass one share a single empty vector object. The model gives every instance its own empty vector; an empty vector shows
the same thing whatever is done to it (`noname_inert` in Props), so the difference is not observable.
The numeric literals are a parameter (`TConsts`; the driver passes the Float values): the theorems hold for any values.
-/
import HydroVerif.Model.C12

namespace HydroVerif.C12

section
variable {α : Type} [LT α] [DecidableLT α] [Add α] [Sub α] [OfNat α 0]

inductive TClass
  | identity | logit | log | boxcox2 | boxcox1lam | boxcox1nu | boxcox2sym | yeojohnson | reciprocal | softmax
  | sinh | logsinh | manly
  deriving DecidableEq, Repr

/-- `transform.__all__`, in its order -/
def TClass.all : List TClass :=
  [.identity, .logit, .log, .boxcox2, .boxcox1lam, .boxcox1nu, .boxcox2sym, .yeojohnson, .reciprocal, .softmax,
   .sinh, .logsinh, .manly]

def TClass.name : TClass → String
  | .identity => "Identity" | .logit => "Logit" | .log => "Log" | .boxcox2 => "BoxCox2"
  | .boxcox1lam => "BoxCox1lam" | .boxcox1nu => "BoxCox1nu" | .boxcox2sym => "BoxCox2sym"
  | .yeojohnson => "YeoJohnson" | .reciprocal => "Reciprocal" | .softmax => "Softmax" | .sinh => "Sinh"
  | .logsinh => "LogSinh" | .manly => "Manly"

/-- `name in __all__` / `getattr(module, name)` -/
def TClass.ofName? (s : String) : Option TClass := TClass.all.find? (fun c => c.name == s)

/-- which classes write to an inner `BoxCox2` in forward / backward / jacobian (read off the `_forward` bodies) -/
def TClass.kind : TClass → TKind
  | .boxcox1lam => .bc1lam
  | .boxcox1nu => .bc1nu
  | .boxcox2sym => .bc2sym
  | _ => .plain

/-- the keyword arguments of each constructor that reach a `Vector` (`base` of `Log` only sets a plain attribute) -/
def TClass.ctorKeys : TClass → List String
  | .log => ["mininu", "base"]
  | .reciprocal => ["mininu"]
  | .boxcox2 | .boxcox1lam | .boxcox1nu | .boxcox2sym => ["mininu", "minilam"]
  | _ => []

/-- the numeric literals of transform.py -/
structure TConsts (α : Type) where
  eps : α      -- EPS = 1e-10 (default `mininu`, lower bound of `xmax`, lower bound of Sinh's `scale`)
  em5 : α      -- 1e-5
  tenth : α    -- 0.1
  zero : α
  one : α
  three : α
  five : α
  ten : α
  n1 : α       -- -1
  n3 : α       -- -3
  n5 : α       -- -5
  n10 : α      -- -10
  n20 : α      -- -20

/-- constructor arguments (already defaulted) -/
structure CArgs (α : Type) where
  mininu : XR α
  minilam : XR α

/-- `mininu=EPS, minilam=0.` -/
def CArgs.default (K : TConsts α) : CArgs α := ⟨.fin K.eps, .fin K.zero⟩

/-- `Vector([])`: the default `params` / `constants` -/
def emptySpec : Spec α := ⟨[], none, none, none, true, false, false⟩

/-- the `Vector(...)` call inside `BoxCox2.__init__` / `BoxCox2sym.__init__` -/
def bc2Spec (K : TConsts α) (a : CArgs α) : Spec α :=
  ⟨["nu", "lam"], some [a.mininu, .fin K.one], some [a.mininu, a.minilam], some [.pinf, .fin K.three], true, false, false⟩

/-- `if minilam < -3: raise ValueError` (false on a NaN, like the Python comparison) -/
def bc2Guard (K : TConsts α) (a : CArgs α) : Bool := XR.lt a.minilam (.fin K.n3)

/-- `Vector(["xmax"], [nan], [EPS], [inf], accept_nan=True)` -/
def xmaxSpec (K : TConsts α) : Spec α := ⟨["xmax"], some [.nan], some [.fin K.eps], some [.pinf], true, false, true⟩

/-- the `Vector(...)` calls of `Class(mininu, minilam)` in the order the constructor makes them: parameter vector,
constant vector, and — for the classes that own one — the inner `BoxCox2`'s parameter vector; or the guard's error -/
def classSpecs (K : TConsts α) (cls : TClass) (a : CArgs α) : Except Err (Spec α × Spec α × Option (Spec α)) :=
  match cls with
  | .identity | .softmax => .ok (emptySpec, emptySpec, none)
  | .logit =>
    .ok (⟨["lower", "logdelta"], some [.fin K.zero, .fin K.zero], some [.ninf, .fin K.n10], some [.pinf, .fin K.ten],
          true, false, false⟩, emptySpec, none)
  | .log | .reciprocal =>
    .ok (⟨["nu"], some [a.mininu], some [a.mininu], none, true, false, false⟩, emptySpec, none)
  | .boxcox2 => if bc2Guard K a then .error .ctorGuard else .ok (bc2Spec K a, emptySpec, none)
  | .boxcox2sym => if bc2Guard K a then .error .ctorGuard else .ok (bc2Spec K a, emptySpec, some (bc2Spec K a))
  | .boxcox1lam =>
    if bc2Guard K a then .error .ctorGuard
    else .ok (⟨["lam"], some [.fin K.one], some [a.minilam], some [.fin K.three], true, false, false⟩,
              ⟨["nu"], some [.nan], some [a.mininu], some [.pinf], true, false, true⟩, some (bc2Spec K a))
  | .boxcox1nu =>
    if bc2Guard K a then .error .ctorGuard
    else .ok (⟨["nu"], some [a.mininu], some [a.mininu], some [.pinf], true, false, false⟩,
              ⟨["lam"], some [.nan], some [a.minilam], some [.fin K.three], true, false, true⟩, some (bc2Spec K a))
  | .yeojohnson =>
    .ok (⟨["nu", "scale", "lam"], some [.fin K.zero, .fin K.one, .fin K.one], some [.ninf, .fin K.em5, .fin K.n1],
          some [.pinf, .pinf, .fin K.three], true, false, false⟩, emptySpec, none)
  | .logsinh =>
    .ok (⟨["loga", "logb"], some [.fin K.n1, .fin K.zero], some [.fin K.n20, .fin K.n5],
          some [.fin K.zero, .fin K.five], true, false, false⟩, xmaxSpec K, none)
  | .sinh =>
    .ok (⟨["nu", "scale"], some [.fin K.zero, .fin K.one], some [.ninf, .fin K.eps], some [.pinf, .pinf],
          true, false, false⟩, emptySpec, none)
  | .manly =>
    .ok (⟨["lam"], some [.fin K.tenth], some [.fin K.n5], some [.fin K.five], true, false, false⟩, xmaxSpec K, none)

/-- `Class(mininu=.., minilam=..)`: the world of the new transform (vector 0 = params, 1 = constants, 2 = BC.params) -/
def cinit (eps : α) (K : TConsts α) (cls : TClass) (a : CArgs α) : Except Err (World α) :=
  match classSpecs K cls a with
  | .error e => .error e
  | .ok (p, c, b) => tinit eps p c b

/-- the descriptor of a transform built by `cinit` -/
def TClass.trans (cls : TClass) : Trans := ⟨cls.kind, 0, 1, 2⟩

/-! ### `get_transform(name, **kwargs)` -/

/-- the constructor arguments `get_transform` extracts from the keyword arguments of ITS caller: a key is a
constructor argument only when the class's signature has it -/
def gtArgs (K : TConsts α) (cls : TClass) (kw : List (String × XR α)) : CArgs α :=
  let pick (key : String) (dflt : XR α) : XR α :=
    if cls.ctorKeys.contains key then (kw.lookup key).getD dflt else dflt
  ⟨pick "mininu" (CArgs.default K).mininu, pick "minilam" (CArgs.default K).minilam⟩

/-- one remaining keyword: `trans.params[name] = x` when `name` is a parameter name, `trans.constants[name] = x` when
it is a constant name, skipped otherwise. A rejected assignment (NaN without permission) aborts `get_transform`. -/
def gtAssign (w : World α) (nm : String) (x : XR α) : Except Err (World α) :=
  match w.vecs[0]?, w.vecs[1]? with
  | some p, some c =>
    let r1 : World α × Out := if p.names.contains nm then w.update 0 fun s v => setKey s v nm x else (w, .ok)
    match r1 with
    | (_, .rejected e) => .error e
    | (w1, .ok) =>
      if c.names.contains nm then
        match w1.update 1 fun s v => setKey s v nm x with
        | (_, .rejected e) => .error e
        | (w2, .ok) => .ok w2
      else .ok w1
  | _, _ => .error .index

def gtAssignAll (w : World α) : List (String × XR α) → Except Err (World α)
  | [] => .ok w
  | (nm, x) :: rest => match gtAssign w nm x with
    | .error e => .error e
    | .ok w' => gtAssignAll w' rest

/-- `get_transform(name, **kw)`: unknown name -> ValueError; constructor arguments split off; the remaining keywords
assigned in order -/
def getTransform (eps : α) (K : TConsts α) (name : String) (kw : List (String × XR α)) :
    Except Err (TClass × World α) :=
  match TClass.ofName? name with
  | none => .error .unknownClass
  | some cls =>
    match cinit eps K cls (gtArgs K cls kw) with
    | .error e => .error e
    | .ok w =>
      match gtAssignAll w (kw.filter fun kv => !cls.ctorKeys.contains kv.1) with
      | .error e => .error e
      | .ok w' => .ok (cls, w')

/-! ### a process holding several instances, built by class -/

/-- `Class(**args)` next to the live instances -/
def maddC (eps : α) (K : TConsts α) (m : MWorld α) (cls : TClass) (a : CArgs α) : Except Err (MWorld α) :=
  match classSpecs K cls a with
  | .error e => .error e
  | .ok (p, c, b) => madd eps m cls.kind p c b

/-- one event of a multi-instance history: a construction (accepted or not) or an operation on the `i`-th instance -/
inductive MOp (α : Type) where
  | new (cls : TClass) (a : CArgs α)
  | at (i : Nat) (op : TOp α)

def mstepC (eps : α) (K : TConsts α) (m : MWorld α) : MOp α → MWorld α × Out
  | .new cls a => match maddC eps K m cls a with
    | .error e => (m, .rejected e)
    | .ok m' => (m', .ok)
  | .at i op => mstep eps m i op

def mrun (eps : α) (K : TConsts α) (m : MWorld α) : List (MOp α) → MWorld α
  | [] => m
  | op :: ops => mrun eps K (mstepC eps K m op).1 ops

end
end HydroVerif.C12
