/-
C15 — state histories.

`points_inside_polygon` and `Grid.cells_inside_polygon` are called many times on the same arrays / the same object.
This file models what lives BETWEEN the calls and every operation the harness drives:

  * `PipWorld` / `PipOp` / `pipStep`: the caller's points array, polygon array, tolerance and (optional) int32 answer
    buffer; operations: re-fill / replace either array, change the tolerance, allocate / drop / scribble on the buffer,
    call with no `inside`, with the caller's buffer, or with a foreign vector of some dtype and length (the refused
    calls). The only thing a call may write is the caller's buffer, and only after both guards of `gutils.py` passed
    (`inside.fill(0)` sits behind them); a call refused later, by the extension layer, has already zeroed it.
  * `GridWorld` / `GridOp` / `gridStep`: a list of Grid objects (geometry only — the model has no other state);
    operations: re-assign `xllcorner` / `yllcorner` / `cellsize` of one object, clone one (clone, deepcopy, pickle
    round trip), query one with a polygon array of some width (width ≠ 2 and the empty polygon are the refused queries).
  * `PipAbs` / `pipAbsStep`, `gridQueryFree`: the memoryless specifications the two machines are proved to refine in
    `Props/C15.lean` (no buffer content; queries erased).

No Mathlib.
-/
import HydroVerif.Model.C15
namespace HydroVerif.C15

section generic
variable {α : Type} [Add α] [Sub α] [Mul α] [Div α] [Neg α] [LT α] [DecidableLT α] [LE α] [DecidableLE α]
  [OfNat α 0]

/-! ### `points_inside_polygon` on one set of argument arrays -/

/-- what the caller owns between two calls -/
structure PipWorld (α : Type) where
  pts : List (α × α)
  poly : List (α × α)
  atol : α
  /-- the int32 answer buffer the caller keeps (`none`: its variable holds `None`) -/
  buf : Option (List Int)
  deriving DecidableEq

/-- the `inside` argument of one call -/
inductive InsideArg
  | none                                    -- not passed: a fresh vector is returned
  | buffer                                  -- the caller's own buffer
  | foreign (isInt32 : Bool) (len : Nat)    -- some other vector (thrown away afterwards)
  deriving DecidableEq, Repr

inductive PipOp (α : Type)
  | setPoints (l : List (α × α))            -- array re-filled in place or replaced: the model sees values only
  | setPolygon (l : List (α × α))
  | setAtol (a : α)
  | newBuffer (content : List Int)
  | dropBuffer
  | scribble (v : Int)                      -- the caller overwrites every entry of its buffer
  | call (arg : InsideArg)

/-- `(dtype is int32, length)` of the vector that reaches `gutils.points_inside_polygon` -/
def insideOf (w : PipWorld α) : InsideArg → Option (Bool × Nat)
  | .none => none
  | .buffer => w.buf.map fun b => (true, b.length)
  | .foreign i n => some (i, n)

def answersToInt (l : List Bool) : List Int := l.map fun b => if b then 1 else 0

/-- the caller's buffer after a call with argument `arg` whose outcome is `r` -/
def bufAfter (buf : Option (List Int)) (arg : InsideArg) (r : Except Err (List Bool)) : Option (List Int) :=
  match arg, r with
  | .buffer, .ok l => buf.map fun _ => answersToInt l
  | .buffer, .error .shapeAssert => buf.map fun b => b.map fun _ => 0     -- refused after `inside.fill(0)`
  | .buffer, .error .emptyPolygon => buf.map fun b => b.map fun _ => 0    -- refused after `inside.fill(0)`
  | _, _ => buf                                                            -- refused before it, or not the caller's

/-- one operation: new world, and the outcome when the operation is a call -/
def pipStep (w : PipWorld α) : PipOp α → PipWorld α × Option (Except Err (List Bool))
  | .setPoints l => ({ w with pts := l }, none)
  | .setPolygon l => ({ w with poly := l }, none)
  | .setAtol a => ({ w with atol := a }, none)
  | .newBuffer c => ({ w with buf := some c }, none)
  | .dropBuffer => ({ w with buf := none }, none)
  | .scribble v => ({ w with buf := w.buf.map fun b => b.map fun _ => v }, none)
  | .call arg =>
    let r := pointsInsidePolygonCall w.atol 2 w.pts 2 w.poly (insideOf w arg)
    ({ w with buf := bufAfter w.buf arg r }, some r)

/-- a whole history: the outcomes of its calls, in order, and the final world -/
def pipRun (w : PipWorld α) : List (PipOp α) → List (Except Err (List Bool)) × PipWorld α
  | [] => ([], w)
  | op :: rest =>
    let s := pipStep w op
    let r := pipRun s.1 rest
    ((match s.2 with | some o => o :: r.1 | none => r.1), r.2)

/-- the memoryless view: arrays, tolerance and the LENGTH of the caller's buffer — no content, no past answers -/
structure PipAbs (α : Type) where
  pts : List (α × α)
  poly : List (α × α)
  atol : α
  buflen : Option Nat
  deriving DecidableEq

def PipWorld.abs (w : PipWorld α) : PipAbs α := ⟨w.pts, w.poly, w.atol, w.buf.map List.length⟩

def absInsideOf (a : PipAbs α) : InsideArg → Option (Bool × Nat)
  | .none => none
  | .buffer => a.buflen.map fun n => (true, n)
  | .foreign i n => some (i, n)

/-- specification: a call is a pure function of the arrays' current content and changes nothing -/
def pipAbsStep (a : PipAbs α) : PipOp α → PipAbs α × Option (Except Err (List Bool))
  | .setPoints l => ({ a with pts := l }, none)
  | .setPolygon l => ({ a with poly := l }, none)
  | .setAtol t => ({ a with atol := t }, none)
  | .newBuffer c => ({ a with buflen := some c.length }, none)
  | .dropBuffer => ({ a with buflen := none }, none)
  | .scribble _ => (a, none)
  | .call arg => (a, some (pointsInsidePolygonCall a.atol 2 a.pts 2 a.poly (absInsideOf a arg)))

def pipAbsRun (a : PipAbs α) : List (PipOp α) → List (Except Err (List Bool)) × PipAbs α
  | [] => ([], a)
  | op :: rest =>
    let s := pipAbsStep a op
    let r := pipAbsRun s.1 rest
    ((match s.2 with | some o => o :: r.1 | none => r.1), r.2)

/-! ### `Grid.cells_inside_polygon` on Grid objects that live on -/

/-- `Grid.cells_inside_polygon(polygon)` as the caller makes it: `polyWidth` is `polygon.shape[1]` -/
def cellsInsideCall [NatCast α] (nrows ncols : Nat) (xll yll csz : α) (atolDefault : α) (polyWidth : Nat)
    (poly : List (α × α)) : Except Err (List (α × α × Nat)) :=
  if polyWidth != 2 then .error .shapeAssert else cellsInsideTable nrows ncols xll yll csz atolDefault poly

structure Geom (α : Type) where
  nrows : Nat
  ncols : Nat
  xll : α
  yll : α
  csz : α
  deriving DecidableEq

inductive GridOp (α : Type)
  | setXll (i : Nat) (v : α)
  | setYll (i : Nat) (v : α)
  | setCsz (i : Nat) (v : α)
  | clone (i : Nat)                                       -- clone / deepcopy / pickle round trip, appended
  | query (i : Nat) (polyWidth : Nat) (poly : List (α × α))

def GridOp.isQuery : GridOp α → Bool
  | .query .. => true
  | _ => false

def modifyAt {β : Type} (f : β → β) : Nat → List β → List β
  | _, [] => []
  | 0, g :: t => f g :: t
  | i + 1, g :: t => g :: modifyAt f i t

/-- one operation on the list of live objects; `atolDefault` is the default of `points_inside_polygon`.
An index beyond the live objects addresses nothing: no change, no outcome -/
def gridStep [NatCast α] (atolDefault : α) (objs : List (Geom α)) :
    GridOp α → List (Geom α) × Option (Except Err (List (α × α × Nat)))
  | .setXll i v => (modifyAt (fun g => { g with xll := v }) i objs, none)
  | .setYll i v => (modifyAt (fun g => { g with yll := v }) i objs, none)
  | .setCsz i v => (modifyAt (fun g => { g with csz := v }) i objs, none)
  | .clone i => (match objs[i]? with | some g => objs ++ [g] | none => objs, none)
  | .query i w poly =>
    (objs, objs[i]?.map fun g => cellsInsideCall g.nrows g.ncols g.xll g.yll g.csz atolDefault w poly)

def gridRun [NatCast α] (atolDefault : α) (objs : List (Geom α)) :
    List (GridOp α) → List (Except Err (List (α × α × Nat))) × List (Geom α)
  | [] => ([], objs)
  | op :: rest =>
    let s := gridStep atolDefault objs op
    let r := gridRun atolDefault s.1 rest
    ((match s.2 with | some o => o :: r.1 | none => r.1), r.2)

end generic

end HydroVerif.C15
