/-
CSem — semantic primitives of the definitions GENERATED from the C text of the integer kernels
(`harness/c2lean.py` → `Generated/CKernels.lean`). No Mathlib.

A generated function runs in `R = Except Fault` (`Model/C05.lean`) and carries the full integer semantics of the C
text: values and faults.

* C `int` / `long long` values are `Int`; every arithmetic expression of type `int` goes through `ci32` (= `C05.i32`), of
  type `long long` through `ci64` (= `C05.i64`) (`Fault.ovf` when the mathematical result leaves the type — signed overflow is
  undefined behaviour). A conversion `long long → int` that changes the value is also reported as `ovf`
  (stricter than C, where it is implementation-defined).
* `/` and `%`: `Fault.div0` for a zero divisor, `ovf` for `MIN / -1` and `MIN % -1`; otherwise truncated division
  (`Int.tdiv`, `Int.tmod`, C99).
* a buffer (pointer parameter or local array) is the list of its elements; its extent is the length of the list.
  `rd b m i` / `wr b m i v` = `m[i]` / `m[i] = v`: `Fault.oob b i` outside `0 .. extent-1`. `b` only names the
  buffer in the fault (`.arg k`: the `k`-th parameter of the function, `.loc k`: its `k`-th local array).
  Distinct buffers do not overlap (no aliasing): a function that writes through a pointer returns the new contents.
* a local array without initialiser starts with ARBITRARY contents: `uninit junk off n` = the `n` values
  `junk off .. junk (off+n-1)` of an oracle the caller supplies; theorems quantify over every `junk`. (Local scalars
  must be assigned before they are read: the translator refuses the function otherwise.)
* `&&`, `||`, `?:` evaluate what C evaluates (short circuit): a fault in an operand that C does not evaluate does
  not occur.
* loops `for (i = a; i < b; i++)` are `C05.forLoop` over `(b - a).toNat` iterations; `return` inside the body is the
  early exit `.inr`.
-/
import HydroVerif.Model.C05

namespace HydroVerif.CSem
open HydroVerif.C05

/-- an `int` expression (`C05.i32`, opaque to the elaborator's unifier) -/
def ci32 (x : Int) : R Int := i32 x
/-- a `long long` expression -/
def ci64 (x : Int) : R Int := i64 x

/-- `m[i]` -/
def rd (b : Buf) (m : List Int) (i : Int) : R Int :=
  if 0 ≤ i ∧ i < (m.length : Int) then .ok (m.getD i.toNat 0) else .error (.oob b i)

/-- `m[i] = v` -/
def wr (b : Buf) (m : List Int) (i v : Int) : R (List Int) :=
  if 0 ≤ i ∧ i < (m.length : Int) then .ok (m.set i.toNat v) else .error (.oob b i)

/-- `a / b` on `int` -/
def div32 (a b : Int) : R Int := if b = 0 then .error .div0 else i32 (a.tdiv b)
/-- `a / b` on `long long` -/
def div64 (a b : Int) : R Int := if b = 0 then .error .div0 else i64 (a.tdiv b)
/-- `a % b` on `int` (`INT_MIN % -1` is undefined: the quotient is not representable) -/
def mod32 (a b : Int) : R Int :=
  if b = 0 then .error .div0 else if a = i32min ∧ b = -1 then .error .ovf else .ok (a.tmod b)
/-- `a % b` on `long long` -/
def mod64 (a b : Int) : R Int :=
  if b = 0 then .error .div0 else if a = i64min ∧ b = -1 then .error .ovf else .ok (a.tmod b)

/-- initial contents of a local array of `n` elements declared without initialiser -/
def uninit (junk : Nat → Int) (off n : Nat) : List Int := (List.range n).map fun i => junk (off + i)

/- the primitives are kept opaque to the elaborator's unifier: unfolding `if -9223372036854775808 ≤ x ∧ …` while
unifying two runs is never useful and can be very deep (`unfold` / `simp [ci64]` still open them) -/
attribute [irreducible] ci32 ci64 rd wr div32 div64 mod32 mod64

/-- the junk oracle the driver runs the generated functions with -/
def driverJunk : Nat → Int := fun i => 6510615555426900570 + i

end HydroVerif.CSem
