import HydroVerif.Generated.C09Consts
/-
C09 — model of `hydrodiy.io.csv`. Strings are `List Char` (ASCII range is what the property quantifies over). No Mathlib.
Here: the comment header writer `_csvhead` in full (the four kinds of `comment` argument, key normalisation with collapsing
keys, sorted keys, count lines, author resolution, system pairs), the reader's prefix strip and `_header2comment`, the record
writer of `DataFrame.to_csv` (minimal quoting) and the tokeniser of `pd.read_csv` restricted to `,` and `"`, the column-name
split, the file as a whole (`readline` loop, header / column line / body), and the file-name / archive-member resolution of
`write_csv` / `read_csv` (`_check_name`). Numbers: `Model/C09Num.lean`; directory and archive state machines: `Model/C09Fs.lean`.
pandas' type inference, `zipfile` and the file system are external; the file system appears as an `exists` predicate here and
as an association list in `C09Fs`.
-/
namespace HydroVerif.C09

abbrev Str := List Char

/-! ### string helpers mirroring the python calls -/

/-- python `str.strip()` whitespace (ASCII) -/
def isSpace (c : Char) : Bool :=
  c == ' ' || c == '\t' || c == '\n' || c == '\r' || c == '\x0b' || c == '\x0c'

def lstrip (s : Str) : Str := s.dropWhile isSpace
def rstrip (s : Str) : Str := (s.reverse.dropWhile isSpace).reverse
def strip (s : Str) : Str := rstrip (lstrip s)

def lower (s : Str) : Str := s.map Char.toLower

/-- does `s` start with `p` -/
def startsWith : Str → Str → Bool
  | _, [] => true
  | [], _ :: _ => false
  | c :: s, d :: p => c == d && startsWith s p

/-- `re.fullmatch("-{10,}", s)`: a rule is a line made of at least ten dashes and nothing else -/
def isRule (s : Str) : Bool := decide (10 ≤ s.length) && s.all (· == '-')

/-- `re.sub(" +", "_", s)`: every maximal run of spaces becomes one underscore -/
def subSpacesAux : Bool → Str → Str
  | _, [] => []
  | inRun, c :: s =>
    if c == ' ' then (if inRun then subSpacesAux true s else '_' :: subSpacesAux true s)
    else c :: subSpacesAux false s
def subSpaces (s : Str) : Str := subSpacesAux false s

/-- regenerated from csv.py on every run (`Generated/C09Consts.lean`) -/
def KEY_LENGTH_MAX : Nat := Gen.keyLengthMax

/-! ### writer -/

/-- dictionary keys are written with colons removed and lower-cased -/
def writerKey (k : Str) : Str := lower (k.filter (· != ':'))

def headLine (k v : Str) : Str := "# ".toList ++ k ++ " : ".toList ++ v

def rule : Str := "# --------------------------------------------------".toList

/-- decimal digit `d < 10` as a character -/
def digitChar (d : Nat) : Char := Char.ofNat (48 + d)

/-- python `str(n)` / `f"{n}"` for a non-negative integer: decimal digits, most significant first (`fuel` bounds the recursion) -/
def natStrAux : Nat → Nat → Str
  | 0, _ => []
  | fuel + 1, n => if n < 10 then [digitChar n] else natStrAux fuel (n / 10) ++ [digitChar (n % 10)]
def natStr (n : Nat) : Str := natStrAux (n + 1) n

/-- value of a string of decimal digits (python `int(s)` on digits) -/
def digitVal (c : Char) : Nat := c.toNat - 48
def natVal (s : Str) : Nat := s.foldl (fun a c => 10 * a + digitVal c) 0

/-- insertion sort on strings (python `sorted` on the keys) -/
def strLt (a b : Str) : Bool := decide (String.ofList a < String.ofList b)
def insertKey (kv : Str × Str) : List (Str × Str) → List (Str × Str)
  | [] => [kv]
  | x :: xs => if strLt kv.1 x.1 then kv :: x :: xs else x :: insertKey kv xs
def sortKeys (l : List (Str × Str)) : List (Str × Str) := l.foldr insertKey []

/-- python dict assignment on an association list: overwrite or append -/
def dictSet (d : List (Str × Str)) (k v : Str) : List (Str × Str) :=
  if d.any (·.1 == k) then d.map (fun e => if e.1 == k then (k, v) else e) else d ++ [(k, v)]

/-- the `comment` argument of `write_csv`: a string, a list (or any other iterable) of strings, or a dictionary -/
inductive CommentArg
  | str (s : Str)
  | list (l : List Str)
  | dict (d : List (Str × Str))
  deriving Repr

/-- `f"{i:02d}"` -/
def idx2 (i : Nat) : Str := if i < 10 then '0' :: natStr i else natStr i

def enumFrom {α : Type} : Nat → List α → List (Nat × α)
  | _, [] => []
  | i, x :: xs => (i, x) :: enumFrom (i + 1) xs

/-- the four `isinstance` branches of `_csvhead`: the dictionary that is written. A string goes under `comment`, the items
of a list under `comment00, comment01, …`, dictionary keys lose their colons and are lower-cased - two keys that collapse
to the same text share one entry, the later value wins (python dict assignment) -/
def commentsOf : CommentArg → List (Str × Str)
  | .str s => [("comment".toList, s)]
  | .list l => (enumFrom 0 l).foldl (fun d ic => dictSet d ("comment".toList ++ idx2 ic.1) ic.2) []
  | .dict d => d.foldl (fun acc kv => dictSet acc (writerKey kv.1) kv.2) []

/-- the values `_csvhead` takes from the interpreter and the operating system when `write_sys_info` is set -/
structure SysInfo where
  workDir : Str
  osName : Str
  pyVersion : Str
  pandasVersion : Str
  numpyVersion : Str
  /-- `get_python_inc()`, `get_python_lib()` when `distutils` can be imported -/
  distutils : Option (Str × Str)
  deriving Repr

/-- `author` argument, else the login name when system information is written, else (or when `getuser` fails) "unknown" -/
def resolveAuthor (author : Option Str) (writeSys : Bool) (getuser : Option Str) : Str :=
  match author with
  | some a => a
  | none => if writeSys then (match getuser with | some u => u | none => "unknown".toList) else "unknown".toList

/-- the (key, value) pairs `_csvhead` appends after the caller's comments: time stamp, author, source file (full path with
the system information, else the file name only) and the interpreter / library versions -/
def systemPairs (time author sourcePath sourceName : Str) (sys : Option SysInfo) : List (Str × Str) :=
  [("time_generated".toList, time), ("author".toList, author)] ++
  match sys with
  | some si =>
    [("source_file".toList, sourcePath), ("work_dir".toList, si.workDir), ("python_environment".toList, si.osName),
     ("python_version".toList, si.pyVersion), ("pandas_version".toList, si.pandasVersion), ("numpy_version".toList, si.numpyVersion)]
    ++ (match si.distutils with
        | some (inc, lib) => [("python_inc".toList, inc), ("python_lib".toList, lib)]
        | none => [])
  | none => [("source_file".toList, sourceName)]

/-- every (key, value) pair of the header in the order written: counts, the caller's comments sorted by key, system pairs -/
def headPairs (nrow ncol : Nat) (comments : List (Str × Str)) (system : List (Str × Str)) : List (Str × Str) :=
  [("nrow".toList, natStr nrow), ("ncol".toList, natStr ncol)] ++ sortKeys comments ++ system

/-- `_csvhead` with everything it writes modelled: rule, one `# key : value` line per pair, rule -/
def csvheadFull (nrow ncol : Nat) (comment : CommentArg) (system : List (Str × Str)) : List Str :=
  rule :: (headPairs nrow ncol (commentsOf comment) system).map (fun kv => headLine kv.1 kv.2) ++ [rule]

/-- `_csvhead`: rule, nrow, ncol, the caller's comments (sorted by key), then system lines (time stamp,
author, source file, … given as ready-made lines), rule -/
def csvhead (nrow ncol : Nat) (comments : List (Str × Str)) (system : List Str) : List Str :=
  [rule, headLine "nrow".toList (natStr nrow), headLine "ncol".toList (natStr ncol)]
  ++ (sortKeys (commentsOf (.dict comments))).map (fun kv => headLine kv.1 kv.2)
  ++ system ++ [rule]

/-! ### reader -/

/-- `re.sub("^# *|\n$", "", line)` for a line that starts with `#` -/
def readerStrip (line : Str) : Str :=
  let body := match line with
    | '#' :: rest => rest.dropWhile (· == ' ')
    | l => l
  match body.reverse with
  | '\n' :: r => r.reverse
  | _ => body

/-- one header element → optional (key, value) and the next `comment_nn` counter -/
def h2cElem (i : Nat) (elem : Str) : Option (Str × Str) × Nat :=
  if isRule elem then (none, i) else
  let key0 := elem.takeWhile (· != ':')            -- re.sub(":.*$", "", elem), single-line elem
  let val0 := strip (elem.drop (key0.length + 1))
  let key1 := subSpaces (lower (strip key0))
  if (elem.take KEY_LENGTH_MAX).contains ':' then
    (if val0 = [] then none else some (key1, val0), i)
  else
    let n := if i < 10 then '0' :: natStr i else natStr i
    (if elem = [] then none else some ("comment_".toList ++ n, elem), i + 1)

def h2cLoop : Nat → List (Str × Str) → List Str → List (Str × Str)
  | _, d, [] => d
  | i, d, e :: es =>
    match h2cElem i e with
    | (some (k, v), i') => h2cLoop i' (dictSet d k v) es
    | (none, i') => h2cLoop i' d es

/-- `_header2comment` -/
def header2comment (header : List Str) : List (Str × Str) := h2cLoop 1 [] header

/-- what `read_csv` does with the header lines it collected -/
def readHeader (lines : List Str) : List (Str × Str) := header2comment (lines.map readerStrip)

/-- `read_csv` collects header lines while they start with `#`; the first other line holds the column
names and everything after it is table body, whatever it starts with -/
def splitFile (lines : List Str) : List Str × Option Str × List Str :=
  let header := lines.takeWhile fun l => startsWith l ['#']
  match lines.drop header.length with
  | [] => (header, none, [])
  | cols :: body => (header, some cols, body)


/-! ### table body: one record of `DataFrame.to_csv` (python `csv` writer, QUOTE_MINIMAL) and the reader's tokeniser -/

/-- characters that force a field to be quoted -/
def special (c : Char) : Bool := c == ',' || c == '"' || c == '\n' || c == '\r'

def needsQuote (s : Str) : Bool := s.any special

/-- a quote inside a quoted field is doubled -/
def escapeQ : Str → Str
  | [] => []
  | c :: s => if c == '"' then '"' :: '"' :: escapeQ s else c :: escapeQ s

def quoteField (s : Str) : Str := if needsQuote s then '"' :: (escapeQ s ++ ['"']) else s

/-- one record: fields joined by commas (no line terminator) -/
def writeRow : List Str → Str
  | [] => []
  | [f] => quoteField f
  | f :: g :: fs => quoteField f ++ ',' :: writeRow (g :: fs)

inductive PSt | start | unq | q | qq
  deriving DecidableEq, Repr

/-- tokeniser state: where we are, the field being read, the fields completed so far -/
structure PState where
  st : PSt
  cur : Str
  done : List Str
  deriving Repr

/-- one character of the tokeniser (the state machine of pandas' C parser restricted to `,` and `"`):
`start` = nothing of the field read yet, `unq` = inside an unquoted field, `q` = inside quotes,
`qq` = a quote seen inside quotes (closing quote, or first half of a doubled quote) -/
def pstep (s : PState) (c : Char) : PState :=
  match s.st with
  | .start =>
    if c == '"' then { s with st := .q }
    else if c == ',' then { st := .start, cur := [], done := s.done ++ [s.cur] }
    else { s with st := .unq, cur := s.cur ++ [c] }
  | .unq =>
    if c == ',' then { st := .start, cur := [], done := s.done ++ [s.cur] }
    else { s with cur := s.cur ++ [c] }
  | .q =>
    if c == '"' then { s with st := .qq } else { s with cur := s.cur ++ [c] }
  | .qq =>
    if c == '"' then { s with st := .q, cur := s.cur ++ ['"'] }
    else if c == ',' then { st := .start, cur := [], done := s.done ++ [s.cur] }
    else { s with st := .unq, cur := s.cur ++ [c] }

def parseRow (line : Str) : List Str :=
  let s := line.foldl pstep ⟨.start, [], []⟩
  s.done ++ [s.cur]

/-- the column-name line as `read_csv` treats it: `line.rstrip("\r\n").split(",")` (not quote-aware) -/
def splitOnComma : Str → List Str
  | [] => [[]]
  | c :: s =>
    match splitOnComma s with
    | [] => [[]]           -- unreachable
    | f :: fs => if c == ',' then [] :: f :: fs else (c :: f) :: fs

/-- `line.rstrip("\r\n")`: only the line terminator goes -/
def rstripNL (s : Str) : Str := (s.reverse.dropWhile fun c => c == '\n' || c == '\r').reverse

def splitCols (line : Str) : List Str := splitOnComma (rstripNL line)

/-! ### the file as a whole: lines joined by the writer, `readline` on the reader's side -/

/-- the text written: every line followed by a line feed (`fobj.write(line + "\n")` in a plain file,
`"\n".join(head) + "\n" + txt` in an archive member; `to_csv` ends every record with a line feed) -/
def joinLines (lines : List Str) : Str := lines.flatMap (· ++ ['\n'])

/-- `fobj.readline()` repeated to the end of the text: each line keeps its line feed, a last piece without one is a line -/
def readLines : Str → List Str
  | [] => []
  | c :: s =>
    match readLines s with
    | [] => [[c]]
    | l :: ls => if c == '\n' then [c] :: l :: ls else (c :: l) :: ls

/-- a table as text: column names and records of fields (numbers already formatted) -/
structure Table where
  names : List Str
  rows : List (List Str)
  deriving Repr, DecidableEq

/-- `write_csv`: header lines, the column-name record, one record per row -/
def writeFile (head : List Str) (t : Table) : Str :=
  joinLines (head ++ writeRow t.names :: t.rows.map writeRow)

/-- drop the line feed `readline` left at the end of a line -/
def chomp (l : Str) : Str :=
  match l.reverse with
  | '\n' :: r => r.reverse
  | _ => l

/-- `re.sub("\\.", "_", cn)` on the column names after reading -/
def fixName (n : Str) : Str := n.map fun c => if c == '.' then '_' else c

structure ReadResult where
  comment : List (Str × Str)
  table : Table
  deriving Repr, DecidableEq

/-- `read_csv(has_colnames=True)`: header lines while they start with `#`, the next line gives the column names
(`line.rstrip("\r\n").split(",")`, dots replaced), every later line is a record for the tokeniser; a text without a
column-name line gives nothing (pandas raises) -/
def readFile (text : Str) : Option ReadResult :=
  match splitFile (readLines text) with
  | (header, some cols, body) =>
    some { comment := readHeader header, table := { names := (splitCols cols).map fixName, rows := body.map fun l => parseRow (chomp l) } }
  | (_, none, _) => none

/-! ### file names (last path component only; the parent directory is carried along unchanged) -/

/-- pathlib's split of a name at its last '.', when that dot is neither the first nor the last character:
`(stem, suffix)` with the suffix starting with the dot -/
def splitExt (name : Str) : Option (Str × Str) :=
  let r := name.reverse
  let ext := r.takeWhile (· != '.')
  match r.drop ext.length with
  | '.' :: before => if before ≠ [] ∧ ext ≠ [] then some (before.reverse, '.' :: ext.reverse) else none
  | _ => none

def stem (name : Str) : Str := match splitExt name with | some p => p.1 | none => name
def suffix (name : Str) : Str := match splitExt name with | some p => p.2 | none => []

def extZip : Str := ".zip".toList
def extGz : Str := ".gz".toList
def extCsv : Str := ".csv".toList

/-- `write_csv`: (file written, archive member) for compress=True; member `none` for a plain file -/
def writeTarget (name : Str) (compress : Bool) : Str × Option Str :=
  if compress then
    let full := if suffix name = extZip then name else stem name ++ extZip
    (full, some (stem name ++ extCsv))
  else (name, none)

/-- `_check_name`: the file itself if it exists, else the first existing of stem.{gz,zip,csv,csv.gz} -/
def checkName (exists_ : Str → Bool) (name : Str) : Option Str :=
  if exists_ name then some name else
  (Gen.checkNameExtensions.map fun e => stem name ++ '.' :: e.toList).find? exists_

inductive Opened
  | gz (file : Str) | zipMember (file member : Str) | plain (file : Str)
  deriving DecidableEq, Repr

/-- `read_csv` (no archive argument): which file is opened, how, and which member is read -/
def readTarget (exists_ : Str → Bool) (name : Str) : Option Opened :=
  match checkName exists_ name with
  | none => none
  | some full =>
    if suffix full = extGz then some (.gz full)
    else if suffix full = extZip then some (.zipMember full (stem name ++ extCsv))
    else some (.plain full)

end HydroVerif.C09
