import HydroVerif.Generated.C09Consts
/-
C09 — model of `hydrodiy.io.csv`: the comment header writer (`_csvhead`), the reader's prefix strip and
`_header2comment`, and the file-name / archive-member resolution of `write_csv` / `read_csv` (`_check_name`).
Strings are `List Char` (ASCII range is what the property quantifies over). No Mathlib.
The table body (`DataFrame.to_csv` / `pd.read_csv`), `zipfile` and the file system are external; the file
system appears as an `exists` predicate.
-/
namespace HydroVerif.C09

abbrev Str := List Char

/-! ### string helpers mirroring the python calls -/

/-- python `str.strip()` whitespace (ASCII) -/
def isSpace (c : Char) : Bool :=
  c == ' ' || c == '\t' || c == '\n' || c == '\r' || c == '\x0b' || c == '\x0c'

def lstrip (s : Str) : Str := s.dropWhile isSpace
def rstrip (s : Str) : Str := (s.reverse.dropWhile isSpace).reverse
def strip (s : Str) : Str := rstrip (lstrip s)

def lower (s : Str) : Str := s.map Char.toLower

/-- does `s` start with `p` -/
def startsWith : Str → Str → Bool
  | _, [] => true
  | [], _ :: _ => false
  | c :: s, d :: p => c == d && startsWith s p

/-- `re.search("-{10}", s)` -/
def hasDashRule : Str → Bool
  | [] => false
  | c :: s => startsWith (c :: s) (List.replicate 10 '-') || hasDashRule s

/-- `re.sub(" +", "_", s)`: every maximal run of spaces becomes one underscore -/
def subSpacesAux : Bool → Str → Str
  | _, [] => []
  | inRun, c :: s =>
    if c == ' ' then (if inRun then subSpacesAux true s else '_' :: subSpacesAux true s)
    else c :: subSpacesAux false s
def subSpaces (s : Str) : Str := subSpacesAux false s

/-- regenerated from csv.py on every run (`Generated/C09Consts.lean`) -/
def KEY_LENGTH_MAX : Nat := Gen.keyLengthMax

/-! ### writer -/

/-- dictionary keys are written with colons removed and lower-cased -/
def writerKey (k : Str) : Str := lower (k.filter (· != ':'))

def headLine (k v : Str) : Str := "# ".toList ++ k ++ " : ".toList ++ v

def rule : Str := "# --------------------------------------------------".toList

def natStr (n : Nat) : Str := (toString n).toList

/-- insertion sort on strings (python `sorted` on the keys) -/
def strLt (a b : Str) : Bool := decide (String.ofList a < String.ofList b)
def insertKey (kv : Str × Str) : List (Str × Str) → List (Str × Str)
  | [] => [kv]
  | x :: xs => if strLt kv.1 x.1 then kv :: x :: xs else x :: insertKey kv xs
def sortKeys (l : List (Str × Str)) : List (Str × Str) := l.foldr insertKey []

/-- `_csvhead`: rule, nrow, ncol, the caller's comments (sorted by key), then system lines (time stamp,
author, source file, … given as ready-made lines), rule -/
def csvhead (nrow ncol : Nat) (comments : List (Str × Str)) (system : List Str) : List Str :=
  [rule, headLine "nrow".toList (natStr nrow), headLine "ncol".toList (natStr ncol)]
  ++ (sortKeys (comments.map fun kv => (writerKey kv.1, kv.2))).map (fun kv => headLine kv.1 kv.2)
  ++ system ++ [rule]

/-! ### reader -/

/-- `re.sub("^# *|\n$", "", line)` for a line that starts with `#` -/
def readerStrip (line : Str) : Str :=
  let body := match line with
    | '#' :: rest => rest.dropWhile (· == ' ')
    | l => l
  match body.reverse with
  | '\n' :: r => r.reverse
  | _ => body

/-- one header element → optional (key, value) and the next `comment_nn` counter -/
def h2cElem (i : Nat) (elem : Str) : Option (Str × Str) × Nat :=
  if hasDashRule elem then (none, i) else
  let key0 := elem.takeWhile (· != ':')            -- re.sub(":.*$", "", elem), single-line elem
  let val0 := strip (elem.drop (key0.length + 1))
  let key1 := subSpaces (lower (strip key0))
  if (elem.take KEY_LENGTH_MAX).contains ':' then
    (if val0 = [] then none else some (key1, val0), i)
  else
    let n := if i < 10 then '0' :: natStr i else natStr i
    (if elem = [] then none else some ("comment_".toList ++ n, elem), i + 1)

/-- python dict assignment on an association list: overwrite or append -/
def dictSet (d : List (Str × Str)) (k v : Str) : List (Str × Str) :=
  if d.any (·.1 == k) then d.map (fun e => if e.1 == k then (k, v) else e) else d ++ [(k, v)]

def h2cLoop : Nat → List (Str × Str) → List Str → List (Str × Str)
  | _, d, [] => d
  | i, d, e :: es =>
    match h2cElem i e with
    | (some (k, v), i') => h2cLoop i' (dictSet d k v) es
    | (none, i') => h2cLoop i' d es

/-- `_header2comment` -/
def header2comment (header : List Str) : List (Str × Str) := h2cLoop 1 [] header

/-- what `read_csv` does with the header lines it collected -/
def readHeader (lines : List Str) : List (Str × Str) := header2comment (lines.map readerStrip)

/-- `read_csv` collects header lines while they start with `#`; the first other line holds the column
names and everything after it is table body, whatever it starts with -/
def splitFile (lines : List Str) : List Str × Option Str × List Str :=
  let header := lines.takeWhile fun l => startsWith l ['#']
  match lines.drop header.length with
  | [] => (header, none, [])
  | cols :: body => (header, some cols, body)


/-! ### table body: one record of `DataFrame.to_csv` (python `csv` writer, QUOTE_MINIMAL) and the reader's tokeniser -/

/-- characters that force a field to be quoted -/
def special (c : Char) : Bool := c == ',' || c == '"' || c == '\n' || c == '\r'

def needsQuote (s : Str) : Bool := s.any special

/-- a quote inside a quoted field is doubled -/
def escapeQ : Str → Str
  | [] => []
  | c :: s => if c == '"' then '"' :: '"' :: escapeQ s else c :: escapeQ s

def quoteField (s : Str) : Str := if needsQuote s then '"' :: (escapeQ s ++ ['"']) else s

/-- one record: fields joined by commas (no line terminator) -/
def writeRow : List Str → Str
  | [] => []
  | [f] => quoteField f
  | f :: g :: fs => quoteField f ++ ',' :: writeRow (g :: fs)

inductive PSt | start | unq | q | qq
  deriving DecidableEq, Repr

/-- tokeniser state: where we are, the field being read, the fields completed so far -/
structure PState where
  st : PSt
  cur : Str
  done : List Str
  deriving Repr

/-- one character of the tokeniser (the state machine of pandas' C parser restricted to `,` and `"`):
`start` = nothing of the field read yet, `unq` = inside an unquoted field, `q` = inside quotes,
`qq` = a quote seen inside quotes (closing quote, or first half of a doubled quote) -/
def pstep (s : PState) (c : Char) : PState :=
  match s.st with
  | .start =>
    if c == '"' then { s with st := .q }
    else if c == ',' then { st := .start, cur := [], done := s.done ++ [s.cur] }
    else { s with st := .unq, cur := s.cur ++ [c] }
  | .unq =>
    if c == ',' then { st := .start, cur := [], done := s.done ++ [s.cur] }
    else { s with cur := s.cur ++ [c] }
  | .q =>
    if c == '"' then { s with st := .qq } else { s with cur := s.cur ++ [c] }
  | .qq =>
    if c == '"' then { s with st := .q, cur := s.cur ++ ['"'] }
    else if c == ',' then { st := .start, cur := [], done := s.done ++ [s.cur] }
    else { s with st := .unq, cur := s.cur ++ [c] }

def parseRow (line : Str) : List Str :=
  let s := line.foldl pstep ⟨.start, [], []⟩
  s.done ++ [s.cur]

/-- the column-name line as `read_csv` treats it: `line.strip().split(",")` (not quote-aware) -/
def splitOnComma : Str → List Str
  | [] => [[]]
  | c :: s =>
    match splitOnComma s with
    | [] => [[]]           -- unreachable
    | f :: fs => if c == ',' then [] :: f :: fs else (c :: f) :: fs

def splitCols (line : Str) : List Str := splitOnComma (strip line)

/-! ### file names (last path component only; the parent directory is carried along unchanged) -/

/-- pathlib's split of a name at its last '.', when that dot is neither the first nor the last character:
`(stem, suffix)` with the suffix starting with the dot -/
def splitExt (name : Str) : Option (Str × Str) :=
  let r := name.reverse
  let ext := r.takeWhile (· != '.')
  match r.drop ext.length with
  | '.' :: before => if before ≠ [] ∧ ext ≠ [] then some (before.reverse, '.' :: ext.reverse) else none
  | _ => none

def stem (name : Str) : Str := match splitExt name with | some p => p.1 | none => name
def suffix (name : Str) : Str := match splitExt name with | some p => p.2 | none => []

def extZip : Str := ".zip".toList
def extGz : Str := ".gz".toList
def extCsv : Str := ".csv".toList

/-- `write_csv`: (file written, archive member) for compress=True; member `none` for a plain file -/
def writeTarget (name : Str) (compress : Bool) : Str × Option Str :=
  if compress then
    let full := if suffix name = extZip then name else stem name ++ extZip
    (full, some (stem name ++ extCsv))
  else (name, none)

/-- `_check_name`: the file itself if it exists, else the first existing of stem.{gz,zip,csv,csv.gz} -/
def checkName (exists_ : Str → Bool) (name : Str) : Option Str :=
  if exists_ name then some name else
  (Gen.checkNameExtensions.map fun e => stem name ++ '.' :: e.toList).find? exists_

inductive Opened
  | gz (file : Str) | zipMember (file member : Str) | plain (file : Str)
  deriving DecidableEq, Repr

/-- `read_csv` (no archive argument): which file is opened, how, and which member is read -/
def readTarget (exists_ : Str → Bool) (name : Str) : Option Opened :=
  match checkName exists_ name with
  | none => none
  | some full =>
    if suffix full = extGz then some (.gz full)
    else if suffix full = extZip then some (.zipMember full (stem name ++ extCsv))
    else some (.plain full)

end HydroVerif.C09
