/-
C08 — executable model of the temporal aggregation / disaggregation code of hydrodiy:

* `c_aggregate`   (src/hydrodiy/data/c_dutils.c:11-98)  → `aggregate`
* `c_flathomogen` (src/hydrodiy/data/c_dutils.c:138-220) → `flathomogen`
* `dutils.monthly2daily` flat and cubic cores (src/hydrodiy/data/dutils.py:331-431) with the
  Gregorian calendar that pandas supplies (`days_in_month`)    → `m2dFlat`, `m2dCubic`

No Mathlib. The text is generic over the notation classes only, so it runs at `Float` (driver, IEEE
double like the kernels), at core `Rat`, and is reasoned about over any ordered field in `Props/C08.lean`.
NaN is `none` at every place the code tests `isnan`. C `int` is `Int`/`Nat`.
The model follows the code after the two `fix:` commits of branch `fix-C08` (max initialised by the first
non-missing value, tail ignores missing values); operation order is the kernels' order.
-/
namespace HydroVerif.C08

inductive Err
  | emptyInput        -- `if(nval < 1) return DUTILS_ERROR + __LINE__` (the property has length ≥ 1)
  | decreasingIndex   -- `if(ia < iaprev) return DUTILS_ERROR + __LINE__`
  | bufferFull        -- `if(count >= nval) return DUTILS_ERROR + __LINE__`
  | badMonth          -- monthly2daily: start month outside 1..12 (cannot be built as a pandas timestamp)
  | lengthMismatch    -- dutils.aggregate / flathomogen: `len(aggindex) != len(inputs)` → ValueError
  | intOverflow       -- `np.int32(operator)` / `np.int32(maxnan)` on a python int outside int32 → OverflowError
  | badInterpolation  -- monthly2daily: interpolation not in flat / cubic → ValueError
  | badTimestep       -- compute_aggindex: time step not in AS / AS-MMM / MS / D / h → AssertionError
  | assertFailed      -- c_hydrodiy_data.aggregate / flathomogen: `assert nval == inputs.shape[0]` … → AssertionError
  deriving DecidableEq, Repr

/-- representable as a C `int` (what `np.int32(x)` / a Cython `int` argument accept of a python int) -/
def inInt32 (i : Int) : Bool := decide (-2147483648 ≤ i) && decide (i ≤ 2147483647)

/-- `np.array(aggindex).astype(np.int32)` on integer input: C cast, wraps modulo 2^32 -/
def wrap32 (i : Int) : Int := (i + 2147483648) % 4294967296 - 2147483648

section kernels
variable {α : Type} [Add α] [Div α] [LT α] [DecidableLT α] [OfNat α 0] [NatCast α]

/-- running reduction of the current group: `agg`, `nagg`, `nagg_nan` -/
structure Acc (α : Type) where
  agg : α
  nagg : Nat
  nnan : Nat

/-- `agg = 0; nagg = 0; nagg_nan = 0;` -/
def Acc.init : Acc α := { agg := 0, nagg := 0, nnan := 0 }

/-- c_dutils.c:60-83 — one input folded into the running reduction.
A missing input counts in `nnan` and enters the sum/mean as `0`; max and tail skip it.
Operators outside 0..3 follow the C `if / else if` chain (`<= 1` sums, `> 3` leaves `agg` alone). -/
def accStep (op : Int) (a : Acc α) : Option α → Acc α
  | none =>
    if op ≤ 1 then { agg := a.agg + 0, nagg := a.nagg, nnan := a.nnan + 1 }
    else { agg := a.agg, nagg := a.nagg, nnan := a.nnan + 1 }
  | some v =>
    if op ≤ 1 then { agg := a.agg + v, nagg := a.nagg + 1, nnan := a.nnan }
    else if op = 2 then
      { agg := if a.nagg + 1 = 1 then v else if a.agg < v then v else a.agg,
        nagg := a.nagg + 1, nnan := a.nnan }
    else if op = 3 then { agg := v, nagg := a.nagg + 1, nnan := a.nnan }
    else { agg := a.agg, nagg := a.nagg + 1, nnan := a.nnan }

/-- c_dutils.c:39-47 and 86-93 — the value stored for a finished group:
mean divides by the number of non-missing values when there is one; more than `maxnan` missing ⇒ NaN -/
def flush (op maxnan : Int) (a : Acc α) : Option α :=
  let agg := if op = 1 ∧ 0 < a.nagg then a.agg / (a.nagg : α) else a.agg
  if maxnan < (a.nnan : Int) then none else some agg

/-- loop state of `c_aggregate`: `iaprev`, the running reduction, `outputs[0..count)` reversed -/
structure St (α : Type) where
  prev : Int
  acc : Acc α
  out : List (Option α)

/-- one iteration of the `for` loop of `c_aggregate` (c_dutils.c:29-84) -/
def step (op maxnan : Int) (nval : Nat) (s : St α) (ia : Int) (x : Option α) : Except Err (St α) :=
  if ia < s.prev then .error .decreasingIndex
  else if ia ≠ s.prev then
    let out := flush op maxnan s.acc :: s.out
    if nval ≤ out.length then .error .bufferFull
    else .ok { prev := ia, acc := accStep op Acc.init x, out := out }
  else .ok { prev := s.prev, acc := accStep op s.acc x, out := s.out }

def loop (op maxnan : Int) (nval : Nat) : St α → List (Int × Option α) → Except Err (St α)
  | s, [] => .ok s
  | s, (ia, x) :: rest =>
    match step op maxnan nval s ia x with
    | .error e => .error e
    | .ok s' => loop op maxnan nval s' rest

/-- `c_aggregate` followed by the truncation `outputs[:iend[0]]` of `dutils.aggregate` -/
def aggregate (op maxnan : Int) (l : List (Int × Option α)) : Except Err (List (Option α)) :=
  match l with
  | [] => .error .emptyInput
  | (i0, _) :: _ =>
    match loop op maxnan l.length ({ prev := i0, acc := Acc.init, out := [] } : St α) l with
    | .error e => .error e
    | .ok s => .ok (flush op maxnan s.acc :: s.out).reverse

/-- loop state of `c_flathomogen`: `iaprev`, running sum (operator-0 accumulation),
`inputs[start..i)` reversed, `outputs[0..start)` reversed -/
structure HSt (α : Type) where
  prev : Int
  acc : Acc α
  grp : List (Option α)
  out : List (Option α)

/-- c_dutils.c:166-181 / 203-217 — the second pass over a finished group (result reversed like `grp`):
missing stays missing, the others receive `agg/nagg`, with `agg = nan` when too many are missing -/
def hflush (maxnan : Int) (a : Acc α) (grp : List (Option α)) : List (Option α) :=
  let agg : Option α := if maxnan < (a.nnan : Int) then none else some a.agg
  grp.map fun x => match x with
    | none => none
    | some _ => agg.map fun s => s / (a.nagg : α)

def hstep (maxnan : Int) (s : HSt α) (ia : Int) (x : Option α) : Except Err (HSt α) :=
  if ia < s.prev then .error .decreasingIndex
  else if ia ≠ s.prev then
    .ok { prev := ia, acc := accStep 0 Acc.init x, grp := [x], out := hflush maxnan s.acc s.grp ++ s.out }
  else .ok { prev := s.prev, acc := accStep 0 s.acc x, grp := x :: s.grp, out := s.out }

def hloop (maxnan : Int) : HSt α → List (Int × Option α) → Except Err (HSt α)
  | s, [] => .ok s
  | s, (ia, x) :: rest =>
    match hstep maxnan s ia x with
    | .error e => .error e
    | .ok s' => hloop maxnan s' rest

/-- `c_flathomogen` as called by `dutils.flathomogen` -/
def flathomogen (maxnan : Int) (l : List (Int × Option α)) : Except Err (List (Option α)) :=
  match l with
  | [] => .error .emptyInput
  | (i0, _) :: _ =>
    match hloop maxnan ({ prev := i0, acc := Acc.init, grp := [], out := [] } : HSt α) l with
    | .error e => .error e
    | .ok s => .ok (hflush maxnan s.acc s.grp ++ s.out).reverse

end kernels

/-! ### the kernels at buffer level: what is left in the caller's `outputs` / `iend` arrays, also when an error code
is returned (c_dutils.c writes `outputs[count]` as it goes and sets `iend[0]` only on the success path) -/
section buffers
variable {α : Type} [Add α] [Div α] [LT α] [DecidableLT α] [OfNat α 0] [NatCast α]

/-- `step`, keeping the loop state reached when the kernel returns its error code: a decrease is seen before anything
is written for the current element, the (unreachable) capacity guard after `outputs[count] = agg; count++` -/
def stepB (op maxnan : Int) (nval : Nat) (s : St α) (ia : Int) (x : Option α) : Except (Err × St α) (St α) :=
  if ia < s.prev then .error (.decreasingIndex, s)
  else if ia ≠ s.prev then
    let out := flush op maxnan s.acc :: s.out
    if nval ≤ out.length then .error (.bufferFull, { prev := s.prev, acc := s.acc, out := out })
    else .ok { prev := ia, acc := accStep op Acc.init x, out := out }
  else .ok { prev := s.prev, acc := accStep op s.acc x, out := s.out }

def loopB (op maxnan : Int) (nval : Nat) : St α → List (Int × Option α) → Except (Err × St α) (St α)
  | s, [] => .ok s
  | s, (ia, x) :: rest =>
    match stepB op maxnan nval s ia x with
    | .error e => .error e
    | .ok s' => loopB op maxnan nval s' rest

/-- what `c_aggregate` leaves behind: return code (`none` = 0), the `outputs` buffer, `iend[0]` -/
structure KOut (α : Type) where
  ierr : Option Err
  outputs : List (Option α)
  iend : Int
  deriving DecidableEq

/-- `c_aggregate(nval, operator, maxnan, aggindex, inputs, outputs, iend)` with `nval` the common length of
`aggindex` / `inputs` (asserted by the Cython layer), `buf` the content of `outputs` before the call and `iend0` that of
`iend[0]`: the closed groups overwrite the head of the buffer, the rest is not touched, `iend[0]` is written on success only -/
def cAggregate (op maxnan : Int) (l : List (Int × Option α)) (buf : List (Option α)) (iend0 : Int) : KOut α :=
  match l with
  | [] => { ierr := some .emptyInput, outputs := buf, iend := iend0 }
  | (i0, _) :: _ =>
    match loopB op maxnan l.length ({ prev := i0, acc := Acc.init, out := [] } : St α) l with
    | .error (e, s) => { ierr := some e, outputs := s.out.reverse ++ buf.drop s.out.length, iend := iend0 }
    | .ok s =>
      let w := (flush op maxnan s.acc :: s.out).reverse
      { ierr := none, outputs := w ++ buf.drop w.length, iend := (w.length : Int) }

def hstepB (maxnan : Int) (s : HSt α) (ia : Int) (x : Option α) : Except (Err × HSt α) (HSt α) :=
  if ia < s.prev then .error (.decreasingIndex, s)
  else if ia ≠ s.prev then
    .ok { prev := ia, acc := accStep 0 Acc.init x, grp := [x], out := hflush maxnan s.acc s.grp ++ s.out }
  else .ok { prev := s.prev, acc := accStep 0 s.acc x, grp := x :: s.grp, out := s.out }

def hloopB (maxnan : Int) : HSt α → List (Int × Option α) → Except (Err × HSt α) (HSt α)
  | s, [] => .ok s
  | s, (ia, x) :: rest =>
    match hstepB maxnan s ia x with
    | .error e => .error e
    | .ok s' => hloopB maxnan s' rest

/-- `c_flathomogen(nval, maxnan, aggindex, inputs, outputs)`: return code and the `outputs` buffer after the call
(the groups closed before a decrease are already written) -/
def cFlathomogen (maxnan : Int) (l : List (Int × Option α)) (buf : List (Option α)) : Option Err × List (Option α) :=
  match l with
  | [] => (some .emptyInput, buf)
  | (i0, _) :: _ =>
    match hloopB maxnan ({ prev := i0, acc := Acc.init, grp := [], out := [] } : HSt α) l with
    | .error (e, s) => (some e, s.out.reverse ++ buf.drop s.out.length)
    | .ok s =>
      let w := (hflush maxnan s.acc s.grp ++ s.out).reverse
      (none, w ++ buf.drop w.length)

/-- `c_hydrodiy_data.aggregate(oper, maxnan, aggindex, inputs, outputs, iend)` (c_hydrodiy_data.pyx:119-139):
C-int conversion of the two scalars, the three shape assertions, then the kernel on the caller's buffers -/
def pyxAggregate (op maxnan : Int) (idx : List Int) (vals buf : List (Option α)) (iend : List Int) :
    Except Err (KOut α) :=
  if !(inInt32 op) || !(inInt32 maxnan) then .error .intOverflow
  else if idx.length ≠ vals.length ∨ idx.length ≠ buf.length ∨ iend.length ≠ 1 then .error .assertFailed
  else .ok (cAggregate op maxnan (idx.zip vals) buf (iend.headD 0))

/-- `c_hydrodiy_data.flathomogen(maxnan, aggindex, inputs, outputs)` (c_hydrodiy_data.pyx:142-159) -/
def pyxFlathomogen (maxnan : Int) (idx : List Int) (vals buf : List (Option α)) :
    Except Err (Option Err × List (Option α)) :=
  if !(inInt32 maxnan) then .error .intOverflow
  else if idx.length ≠ vals.length ∨ idx.length ≠ buf.length then .error .assertFailed
  else .ok (cFlathomogen maxnan (idx.zip vals) buf)

end buffers

/-! ### the Python wrappers `dutils.aggregate` / `dutils.flathomogen` (dutils.py:150-250): argument glue -/

section wrappers
variable {α : Type} [Add α] [Div α] [LT α] [DecidableLT α] [OfNat α 0] [NatCast α]

/-- `dutils.aggregate(aggindex, inputs, operator, maxnan)`: length check, `np.int32(operator)`,
`np.int32(maxnan)`, index cast to int32, kernel, `ierr > 0` → ValueError, truncation to `iend` -/
def aggregateW (op maxnan : Int) (idx : List Int) (vals : List (Option α)) :
    Except Err (List (Option α)) :=
  if idx.length ≠ vals.length then .error .lengthMismatch
  else if !(inInt32 op) || !(inInt32 maxnan) then .error .intOverflow
  else aggregate op maxnan ((idx.map wrap32).zip vals)

/-- `dutils.flathomogen(aggindex, inputs, maxnan)` -/
def flathomogenW (maxnan : Int) (idx : List Int) (vals : List (Option α)) :
    Except Err (List (Option α)) :=
  if idx.length ≠ vals.length then .error .lengthMismatch
  else if !(inInt32 maxnan) then .error .intOverflow
  else flathomogen maxnan ((idx.map wrap32).zip vals)

/-- `outputs = 0.*inputs` (dutils.py:183, 241): the freshly allocated output buffer -/
def zeroTimes [Mul α] : Option α → Option α
  | none => none
  | some x => some (0 * x)

/-- `dutils.aggregate` line by line through the Cython layer and the buffers: `outputs = 0.*inputs`,
`iend = np.array([0])`, the call, `if ierr > 0: raise ValueError`, `outputs[:iend[0]]` -/
def aggregateWB [Mul α] (op maxnan : Int) (idx : List Int) (vals : List (Option α)) :
    Except Err (List (Option α)) :=
  if idx.length ≠ vals.length then .error .lengthMismatch
  else if !(inInt32 op) || !(inInt32 maxnan) then .error .intOverflow
  else
    match pyxAggregate op maxnan (idx.map wrap32) vals (vals.map zeroTimes) [0] with
    | .error e => .error e
    | .ok k =>
      match k.ierr with
      | some e => .error e
      | none => .ok (k.outputs.take k.iend.toNat)

/-- `dutils.flathomogen` through the Cython layer and the buffer -/
def flathomogenWB [Mul α] (maxnan : Int) (idx : List Int) (vals : List (Option α)) :
    Except Err (List (Option α)) :=
  if idx.length ≠ vals.length then .error .lengthMismatch
  else if !(inInt32 maxnan) then .error .intOverflow
  else
    match pyxFlathomogen maxnan (idx.map wrap32) vals (vals.map zeroTimes) with
    | .error e => .error e
    | .ok (some e, _) => .error e
    | .ok (none, out) => .ok out

end wrappers

/-! ### histories on one set of arrays: the caller's `aggindex` / `inputs`, the calls, the arrays handed out -/
section histories
variable {α : Type} [Add α] [Div α] [LT α] [DecidableLT α] [OfNat α 0] [NatCast α]

/-- what the caller holds: the two argument arrays and every array returned so far (oldest first) -/
structure Hist (α : Type) where
  idx : List Int
  vals : List (Option α)
  outs : List (List (Option α))
  deriving DecidableEq

inductive HOp (α : Type)
  | setVal (i : Nat) (v : Option α)     -- `inputs[i] = v` (an index out of range raises IndexError: nothing changes)
  | setIdx (i : Nat) (k : Int)          -- `aggindex[i] = k`
  | scribble (r : Nat) (v : Option α)   -- `outs[r][...] = v`: the caller overwrites an array it was given
  | callAgg (op maxnan : Int)           -- `dutils.aggregate(aggindex, inputs, op, maxnan)`
  | callHomog (maxnan : Int)            -- `dutils.flathomogen(aggindex, inputs, maxnan)`

def HOp.isEdit : HOp α → Bool
  | .setVal .. => true
  | .setIdx .. => true
  | _ => false

/-- one operation: the new state and, for a call, its answer.  The wrappers copy their arguments (`astype`) and
allocate a fresh result (`0.*inputs`), so a call reads the current arrays, never writes them, never touches an
array handed out earlier; a rejected call (ValueError) changes nothing at all -/
def histStep (s : Hist α) : HOp α → Hist α × Option (Except Err (List (Option α)))
  | .setVal i v => ({ s with vals := s.vals.set i v }, none)
  | .setIdx i k => ({ s with idx := s.idx.set i k }, none)
  | .scribble r v => ({ s with outs := s.outs.modify r fun o => o.map fun _ => v }, none)
  | .callAgg op maxnan =>
    match aggregateW op maxnan s.idx s.vals with
    | .ok out => ({ s with outs := s.outs ++ [out] }, some (.ok out))
    | .error e => (s, some (.error e))
  | .callHomog maxnan =>
    match flathomogenW maxnan s.idx s.vals with
    | .ok out => ({ s with outs := s.outs ++ [out] }, some (.ok out))
    | .error e => (s, some (.error e))

/-- a whole history: final state and the answers of the calls, in order -/
def histRun : Hist α → List (HOp α) → Hist α × List (Except Err (List (Option α)))
  | s, [] => (s, [])
  | s, o :: rest =>
    let r := histStep s o
    let r' := histRun r.1 rest
    (r'.1, match r.2 with | some a => a :: r'.2 | none => r'.2)

end histories

/-! ### a floating-point aggregation index: `np.array(aggindex).astype(np.int32)` on float64 values -/

/-- the integer part, rounding toward zero (C conversion of a double to `int`) -/
def truncQ (q : Rat) : Int := if 0 ≤ q then q.floor else -((-q).floor)

/-- the C cast of one float64 index value to int32; `none` is NaN / ±inf.  A value whose integer part is outside
int32 has no defined conversion in C; the x86-64 conversion instruction, which numpy uses, returns INT_MIN -/
def castIdx : Option Rat → Int
  | none => -2147483648
  | some q => if inInt32 (truncQ q) then truncQ q else -2147483648

section wrappersF
variable {α : Type} [Add α] [Div α] [LT α] [DecidableLT α] [OfNat α 0] [NatCast α]

/-- `dutils.aggregate` called with a float64 aggregation index -/
def aggregateWF (op maxnan : Int) (idx : List (Option Rat)) (vals : List (Option α)) :
    Except Err (List (Option α)) :=
  if idx.length ≠ vals.length then .error .lengthMismatch
  else if !(inInt32 op) || !(inInt32 maxnan) then .error .intOverflow
  else aggregate op maxnan ((idx.map castIdx).zip vals)

end wrappersF

/-! ### `dutils.compute_aggindex` (dutils.py:116-147): the aggregation index built from time stamps -/

/-- broken-down time stamp: year, month 1..12, day 1..31, hour 0..23 -/
structure Stamp where
  y : Int
  m : Nat
  d : Nat
  h : Nat
  deriving DecidableEq, Repr

/-- accepted time steps; `ASm e` is `"AS-<MMM>"` with `e` the 1-based position of MMM in JAN..DEC -/
inductive Step
  | AS | ASm (e : Nat) | MS | D | H
  deriving DecidableEq, Repr

def monthAbbr : List (List Char) :=
  [['J','A','N'], ['F','E','B'], ['M','A','R'], ['A','P','R'], ['M','A','Y'], ['J','U','N'],
   ['J','U','L'], ['A','U','G'], ['S','E','P'], ['O','C','T'], ['N','O','V'], ['D','E','C']]

/-- `re.sub("AS-", "", timestep)`: every (leftmost, non-overlapping) occurrence removed -/
def removeAS : List Char → List Char
  | 'A' :: 'S' :: '-' :: r => removeAS r
  | c :: r => c :: removeAS r
  | [] => []

/-- the `startswith("AS")` / `allowed` assertions of `compute_aggindex`, on the characters of the time step -/
def parseStep (s : List Char) : Except Err Step :=
  match s with
  | ['A', 'S'] => .ok .AS
  | 'A' :: 'S' :: _ =>
    match monthAbbr.idxOf? (removeAS s) with
    | some i => .ok (.ASm (i + 1))
    | none => .error .badTimestep
  | ['M', 'S'] => .ok .MS
  | ['D'] => .ok .D
  | ['h'] => .ok .H
  | _ => .error .badTimestep

/-- the index value of one time stamp in exact integers; `AS-MMM`: `(time + DateOffset(months=11-imth)).year - 1` -/
def aggIndexRaw : Step → Stamp → Int
  | .AS, t => t.y
  | .ASm e, t => t.y + (((t.m - 1 + (12 - e)) / 12 : Nat) : Int) - 1
  | .MS, t => t.y * 100 + (t.m : Int)
  | .D, t => t.y * 10000 + (t.m : Int) * 100 + (t.d : Int)
  | .H, t => t.y * 1000000 + (t.m : Int) * 10000 + (t.d : Int) * 100 + (t.h : Int)

/-- what `compute_aggindex` returns: pandas hands out `time.year`, `time.month`, … as int32 Index objects, so
`time.year*1000000 + …` is int32 arithmetic and wraps modulo 2^32 (only reachable by the hourly index of a year
beyond 2147; pandas time stamps go up to 2262) -/
def aggIndex (st : Step) (t : Stamp) : Int := wrap32 (aggIndexRaw st t)

def computeAggindex (timestep : List Char) (ts : List Stamp) : Except Err (List Int) :=
  match parseStep timestep with
  | .error e => .error e
  | .ok st => .ok (ts.map (aggIndex st))

/-! ### Gregorian calendar (what `DatetimeIndex.days_in_month` returns) -/

def isLeap (y : Int) : Bool := y % 4 == 0 && (y % 100 != 0 || y % 400 == 0)

/-- days of month `m ∈ 1..12` of year `y`; `0` for an invalid month (never produced by `monthAt`) -/
def daysInMonth (y : Int) (m : Nat) : Nat :=
  match m with
  | 1 => 31 | 2 => if isLeap y then 29 else 28 | 3 => 31 | 4 => 30 | 5 => 31 | 6 => 30
  | 7 => 31 | 8 => 31 | 9 => 30 | 10 => 31 | 11 => 30 | 12 => 31
  | _ => 0

/-- the `j`-th month of a month-start series beginning in month `m0 ∈ 1..12` of year `y0` -/
def monthAt (y0 : Int) (m0 j : Nat) : Int × Nat :=
  (y0 + (((m0 - 1 + j) / 12 : Nat) : Int), (m0 - 1 + j) % 12 + 1)

def ndaysAt (y0 : Int) (m0 j : Nat) : Nat := daysInMonth (monthAt y0 m0 j).1 (monthAt y0 m0 j).2

def monthLengths (y0 : Int) (m0 k : Nat) : List Nat := (List.range k).map (ndaysAt y0 m0)

/-! ### calendar days (what `pd.date_range(start, end)` / `resample("D")` enumerate) -/

structure Date where
  y : Int
  m : Nat
  d : Nat
  deriving DecidableEq, Repr

/-- the day after -/
def nextDay (t : Date) : Date :=
  if t.d < daysInMonth t.y t.m then { y := t.y, m := t.m, d := t.d + 1 }
  else if t.m < 12 then { y := t.y, m := t.m + 1, d := 1 }
  else { y := t.y + 1, m := 1, d := 1 }

/-- `n` consecutive days starting at `t` -/
def daysFrom : Date → Nat → List Date
  | _, 0 => []
  | t, n + 1 => t :: daysFrom (nextDay t) n

/-- the calendar days of one month, in order -/
def monthDays (y : Int) (m : Nat) : List Date :=
  (List.range (daysInMonth y m)).map fun d => { y := y, m := m, d := d + 1 }

/-- position, in a month-start series beginning at `(y0, m0)`, of the month a day belongs to
(`ffill`: the latest month start not after the day) -/
def monthIndex (y0 : Int) (m0 : Nat) (t : Date) : Int := (t.y - y0) * 12 + (t.m : Int) - (m0 : Int)

/-! ### monthly2daily -/
section m2d
variable {α : Type} [Add α] [Sub α] [Mul α] [Div α] [LT α] [DecidableLT α]
  [OfNat α 0] [OfNat α 1] [NatCast α]

/-- flat branch, one month: missing ↦ `minthreshold-1`; `sed /= days_in_month`;
`sed[sed < minthreshold] = nan` -/
def flatMonth (minthr : α) (v : Option α) (n : Nat) : List (Option α) :=
  let v' := match v with | none => minthr - 1 | some v => v
  let d := v' / (n : α)
  List.replicate n (if d < minthr then none else some d)

def m2dFlat (y0 : Int) (m0 : Nat) (minthr : α) (vs : List (Option α)) :
    Except Err (List (List (Option α))) :=
  if m0 < 1 ∨ 12 < m0 then .error .badMonth
  else if vs = [] then .error .emptyInput
  else .ok (List.zipWith (flatMonth minthr) vs (monthLengths y0 m0 vs.length))

/-- one month of the cubic branch: value, number of days, derivative constraints `const[1,i]`, `const[2,i]` -/
structure Month (α : Type) where
  y : α
  n : Nat
  c1 : α
  c2 : α

/-- `dyc = concatenate([[u[0]], (u[1:]+u[:-1])/2, [u[-1]]])` without its first element -/
def dycTail : List α → List α
  | [] => []
  | [a] => [a]
  | a :: b :: r => (b + a) / ((2 : Nat) : α) :: dycTail (b :: r)

def dyc : List α → List α
  | [] => []
  | u0 :: us => u0 :: dycTail (u0 :: us)

/-- `const = [y, dyc[:-1]*ndays, dyc[1:]*ndays]` -/
def cubicInit (ys : List α) (ns : List Nat) : List (Month α) :=
  let u := List.zipWith (fun (y : α) (n : Nat) => y / (n : α)) ys ns
  let d := dyc u
  let c1 := List.zipWith (fun (d : α) (n : Nat) => d * (n : α)) d ns
  let c2 := List.zipWith (fun (d : α) (n : Nat) => d * (n : α)) d.tail ns
  List.zipWith (fun (yn : α × Nat) (c : α × α) => { y := yn.1, n := yn.2, c1 := c.1, c2 := c.2 })
    (List.zip ys ns) (List.zip c1 c2)

/-- dutils.py:402-409 — the sequential sweep making the derivative continuous at month boundaries;
`cur` is month `i` (its `c1` already rewritten by iteration `i-1`), the head of the list month `i+1` -/
def sweepGo (cur : Month α) : List (Month α) → List (Month α)
  | [] => [cur]
  | nxt :: rest =>
    let F1 := cur.y / (cur.n : α)
    let d0 := cur.c1 / (cur.n : α)
    let d2 := nxt.c2 / (nxt.n : α)
    let F2 := nxt.y / (nxt.n : α)
    let d1 := (((6 : Nat) : α) * (F1 + F2) - ((2 : Nat) : α) * (d0 + d2)) / ((8 : Nat) : α)
    { cur with c2 := d1 * (cur.n : α) } :: sweepGo { nxt with c1 := d1 * (nxt.n : α) } rest

def sweep : List (Month α) → List (Month α)
  | [] => []
  | m :: rest => sweepGo m rest

/-- rows 1..3 of `np.dot(Mi, const)` for one month, `Mi = [[0,1,0],[3,-2,-1],[-2,1,1]]`
(row 0 of `coefs` is the inserted 0) -/
def coefs (m : Month α) : α × α × α :=
  let z : α := 0
  let o : α := 1
  let two : α := ((2 : Nat) : α)
  let three : α := ((3 : Nat) : α)
  (z * m.y + o * m.c1 + z * m.c2,
   three * m.y + (z - two) * m.c1 + (z - o) * m.c2,
   (z - two) * m.y + o * m.c1 + o * m.c2)

/-- `numpy.polynomial.polynomial.polyval(t, [0, k1, k2, k3])` (Horner, numpy's operation order) -/
def polyval (k : α × α × α) (t : α) : α :=
  let r3 := k.2.2 + t * 0
  let r2 := k.2.1 + r3 * t
  let r1 := k.1 + r2 * t
  0 + r1 * t

/-- cumulative curve of the month at day `j` : `polyval(j/ndays, coefs)` -/
def cum (m : Month α) (j : Nat) : α := polyval (coefs m) ((j : α) / (m.n : α))

/-- `np.diff(yyc)` over the days of the month -/
def cubicMonth (m : Month α) : List α :=
  (List.range m.n).map fun j => cum m (j + 1) - cum m j

/-- `sec[pd.isnull(sec)] = minthreshold-1` (dutils.py:353-354) -/
def fillMissing (minthr : α) : Option α → α
  | none => minthr - 1
  | some y => y

/-- cubic branch; missing months enter as `minthreshold-1` like any other value -/
def m2dCubic (y0 : Int) (m0 : Nat) (minthr : α) (vs : List (Option α)) : Except Err (List (List α)) :=
  if m0 < 1 ∨ 12 < m0 then .error .badMonth
  else if vs = [] then .error .emptyInput
  else
    let ys := vs.map (fillMissing minthr)
    .ok ((sweep (cubicInit ys (monthLengths y0 m0 ys.length))).map cubicMonth)

/-- `monthly2daily(se, interpolation, minthreshold)`: dispatch on the interpolation name -/
def m2d (interp : String) (y0 : Int) (m0 : Nat) (minthr : α) (vs : List (Option α)) :
    Except Err (List (List (Option α))) :=
  if interp = "flat" then m2dFlat y0 m0 minthr vs
  else if interp = "cubic" then
    match m2dCubic y0 m0 minthr vs with
    | .error e => .error e
    | .ok ms => .ok (ms.map fun d => d.map some)
  else .error .badInterpolation

/-! #### monthly2daily at the level of the returned daily Series: every value with its calendar-day stamp -/

/-- flat branch, day by day (dutils.py:356-369): the fictive month appended after the last one, `resample("D").ffill()`
over the days from the first stamp to the fictive one, `sed /= sed.index.days_in_month`, the threshold mask,
`sed.iloc[:-1]` -/
def m2dFlatSeries (y0 : Int) (m0 : Nat) (minthr : α) (vs : List (Option α)) :
    Except Err (List (Date × Option α)) :=
  if m0 < 1 ∨ 12 < m0 then .error .badMonth
  else if vs = [] then .error .emptyInput
  else
    let sec : List (Option α) := vs.map fun v => some (fillMissing minthr v)
    let ndays := (monthLengths y0 m0 sec.length).sum + 1
    let up : List (Date × Option α) := (daysFrom { y := y0, m := m0, d := 1 } ndays).map fun t =>
      (t, (sec[(monthIndex y0 m0 t).toNat]?).join)
    let sed := up.map fun p => (p.1, p.2.map fun v => v / ((daysInMonth p.1.y p.1.m : Nat) : α))
    let sed := sed.map fun p => (p.1, p.2.bind fun d => if d < minthr then none else some d)
    .ok sed.dropLast

/-- one row of `np.diff(yyc, axis=1)` (dutils.py:416-421): 31 columns; `xxt[xxt > 1] = nan` blanks the columns beyond the
length of the month; `isnan` is the carrier's NaN test (constant `false` over a field) -/
def cubicRow (isnan : α → Bool) (m : Month α) : List (Option α) :=
  (List.range 31).map fun j =>
    if (1 : α) < ((j + 1 : Nat) : α) / (m.n : α) then none
    else
      let v := cum m (j + 1) - cum m j
      if isnan v then none else some v

/-- cubic branch up to the returned Series (dutils.py:371-425): `yy = np.diff(yyc, axis=1).ravel()`,
`yy = yy[~np.isnan(yy)]`, `pd.date_range(start, start + len(yy) days - 1 day)` -/
def m2dCubicSeries (isnan : α → Bool) (y0 : Int) (m0 : Nat) (minthr : α) (vs : List (Option α)) :
    Except Err (List (Date × α)) :=
  if m0 < 1 ∨ 12 < m0 then .error .badMonth
  else if vs = [] then .error .emptyInput
  else
    let ys := vs.map (fillMissing minthr)
    let rows := (sweep (cubicInit ys (monthLengths y0 m0 ys.length))).map (cubicRow isnan)
    let yy := rows.flatten.filterMap id
    .ok ((daysFrom { y := y0, m := m0, d := 1 } yy.length).zip yy)

/-- `monthly2daily(se, interpolation, minthreshold)` as the daily Series it returns -/
def m2dSeries (isnan : α → Bool) (interp : String) (y0 : Int) (m0 : Nat) (minthr : α) (vs : List (Option α)) :
    Except Err (List (Date × Option α)) :=
  if interp = "flat" then m2dFlatSeries y0 m0 minthr vs
  else if interp = "cubic" then
    match m2dCubicSeries isnan y0 m0 minthr vs with
    | .error e => .error e
    | .ok out => .ok (out.map fun p => (p.1, some p.2))
  else .error .badInterpolation

/-- the per-month lists of `m2d` stamped with the calendar days of their months -/
def stampMonths {β : Type} (y0 : Int) (m0 : Nat) (months : List (List β)) : List (Date × β) :=
  (List.range months.length).flatMap fun j =>
    (monthDays (monthAt y0 m0 j).1 (monthAt y0 m0 j).2).zip (months.getD j [])

end m2d

end HydroVerif.C08
