/-
C07 — the coordinate kernels with the rounding of every arithmetic result made explicit.

`c_coord2cell` evaluates `floor((x-xll)/csz)` and `getcoord` evaluates `xll+csz*((double)col+0.5)` in IEEE double
arithmetic: every `+ - * /` returns the exact result rounded to the nearest double. Here the same text is written over
an arbitrary numeric type with a rounding operator `rnd` applied to every arithmetic result:

* at `Float`, with `rnd = id`, this *is* the kernel (the operations round themselves): `coord2cellR id = coord2cellK`;
* at `Rat`, with `rnd = round53` (round to nearest, ties to even, 53 significant bits, unbounded exponent), it is the
  exact description of what the doubles do away from underflow / overflow: the driver executes it and the harness
  compares it with the code **exactly** on every finite point (edges included) and every cell;
* over any ordered field, with any `rnd` of relative error at most `u` (the standard model of floating point
  arithmetic; `round53` has `u = 2^-53`, proved), `Props/C07.lean` proves that the inside / outside clauses hold for
  points a margin away from the edges and that the round trip `coord2cell(cell2coord c) = c` holds.

No Mathlib.
-/
import HydroVerif.Model.C07Kernel
namespace HydroVerif.C07

/-! ### round to nearest even, 53 bits, on exact rationals -/

/-- `2^e` for an integer exponent -/
def pow2 (e : Int) : Rat :=
  if 0 ≤ e then ((2 ^ e.toNat : Nat) : Rat) else 1 / ((2 ^ (-e).toNat : Nat) : Rat)

/-- nearest integer, ties to the even one -/
def roundHalfEven (m : Rat) : Int :=
  let f := m.floor
  let r := m - (f : Rat)
  if r < 1 / 2 then f
  else if 1 / 2 < r then f + 1
  else if f % 2 = 0 then f else f + 1

/-- absolute value (core `Rat` has no `abs` without Mathlib) -/
def ratAbs (t : Rat) : Rat := if t < 0 then -t else t

/-- the binary exponent `e` with `2^e ≤ |t| < 2^(e+1)`, from the bit lengths of numerator and denominator
(`log2 num - log2 den` is `e` or `e + 1`) -/
def binExp (t : Rat) : Int :=
  let a := ratAbs t
  let e0 : Int := (a.num.natAbs.log2 : Int) - (a.den.log2 : Int)
  if pow2 e0 ≤ a then e0 else e0 - 1

/-- the exact result `t` rounded to the nearest number with 53 significant bits (ties to even); exponent unbounded.
The test `pow2 e ≤ |t|` always succeeds (it is the defining property of `binExp`); it is kept in the text so that the
error bound `|round53 t - t| ≤ 2^-53 |t|` follows from the definition alone -/
def round53 (t : Rat) : Rat :=
  if t = 0 then 0
  else
    let e := binExp t
    if pow2 e ≤ ratAbs t then
      let s := pow2 e / ((2 ^ 52 : Nat) : Rat)
      (roundHalfEven (t / s) : Rat) * s
    else t

/-! ### the kernels with explicit rounding -/

section Rounded
variable {α : Type} [Add α] [Sub α] [Mul α] [Div α] [OfNat α 0] [OfNat α 1] [LE α] [DecidableLE α] [LT α]
  [DecidableLT α] [Trunc α] [FloorNum α]

/-- the two quotients of `c_coord2cell`, each arithmetic result rounded: `rnd(rnd(x-xll)/csz)` -/
def quotientsR (rnd : α → α) (g : Geom α) (x y : α) : α × α :=
  (rnd (rnd (x - g.xll) / g.csz), rnd (rnd (y - g.yll) / g.csz))

/-- one entry of `c_coord2cell` with rounded arithmetic (floor, comparisons and casts are exact operations) -/
def coord2cellR (rnd : α → α) (g : Geom α) (x y : α) : Int :=
  cellOfQuot g.nrows g.ncols (quotientsR rnd g x y).1 (quotientsR rnd g x y).2

/-- one coordinate of `getcoord` with rounded arithmetic: `rnd(ll + rnd(csz * rnd((double)k + 0.5)))` -/
def centreR (rnd : α → α) (ll csz : α) (k : Int) : α :=
  rnd (ll + rnd (csz * rnd (Trunc.ofInt k + half)))

/-- `getcoord` with rounded arithmetic -/
def getcoordR (rnd : α → α) (g : Geom α) (idx : Int) : α × α :=
  (centreR rnd g.xll g.csz (colOf g.ncols idx), centreR rnd g.yll g.csz (g.nrows - 1 - rowOf g.ncols idx))

/-- one entry of `c_cell2coord` with rounded arithmetic -/
def cell2coordR (rnd : α → α) (g : Geom α) (idx : Int) : Option (α × α) :=
  if validCell g.nrows g.ncols idx then some (getcoordR rnd g idx) else none

end Rounded

end HydroVerif.C07
