/-
C20 — second part of the model (round 7): the glue and the routes around the kernels of `Model/C20.lean`.

* `c_paretofront` on the values a C `double` can hold: NaN, ±inf and finite numbers (`XVal`), with the two roundings of
  `orientationd * (data[j,k] - data[i,k])` made explicit (`rnd`), and `sutils.pareto_front`'s wrapper
  (`np.int32(orientation)`, `ndim` guard)
* `sutils.ppos` with every floating-point operation followed by a rounding `rnd`
* `rnd53`: round-to-nearest-even to 53 significant bits on exact rationals (IEEE double without exponent limits) — the
  instance of `rnd` under which the exact-rational model reproduces the real code bit for bit
* `sutils.lhs_norm`'s call of `lhs` (unit ranges for every variable)
* `Boxplot(df).stats` (no `by`): coverage guards, one column of statistics per data column, nothing for a frame without rows
* the life of a `Boxplot` object: `draw`, `show_count`, `set_ylim`, `set_color`, item setters — which calls are accepted in
  which state, and what they leave of the statistics
* `Violin`'s default `npoints_kde`

Generic over the numeric type as `Model/C20.lean`. No Mathlib.
-/
import HydroVerif.Model.C20
namespace HydroVerif.C20

/-- what a C `double` holds, as `c_paretofront` distinguishes it -/
inductive XVal (α : Type)
  | nan
  | ninf
  | pinf
  | fin (a : α)
  deriving DecidableEq, Repr

def xOfOpt {α : Type} : Option α → XVal α
  | none => .nan
  | some a => .fin a

section numeric
variable {α : Type} [Add α] [Sub α] [Mul α] [Div α] [Neg α] [LT α] [DecidableLT α] [LE α] [DecidableLE α]
  [OfNat α 0] [OfNat α 1] [OfNat α 2] [NatCast α]

/-! ### pareto front on NaN / ±inf / finite values, roundings explicit -/

/-- one coordinate of the `k` loop: `none` when `diff = data[j,k] - data[i,k]` is NaN (the coordinate is skipped:
a NaN on either side, or twice the same infinity), otherwise whether `orientationd * diff > 0`.
`rnd` follows the subtraction and the product of two finite numbers; an infinite difference times the
orientation is `±inf` (or NaN when the orientation is 0, and `NaN > 0` is false). -/
def xdiffPos (rnd : α → α) (o : α) : XVal α → XVal α → Option Bool
  | .nan, _ => none
  | _, .nan => none
  | .pinf, .pinf => none
  | .ninf, .ninf => none
  | .pinf, _ => some (decide (0 < o))
  | .ninf, _ => some (decide (o < 0))
  | .fin _, .pinf => some (decide (o < 0))
  | .fin _, .ninf => some (decide (0 < o))
  | .fin a, .fin b => some (decide (0 < rnd (o * rnd (a - b))))

/-- `dom *= (int)(orientationd*diff>0)`, or `continue` for a NaN difference -/
def coordOK : Option Bool → Bool
  | some p => p
  | none => true

/-- inner `k` loop -/
def domByX (rnd : α → α) (o : α) (rj ri : List (XVal α)) : Bool :=
  (List.zipWith (fun a b => coordOK (xdiffPos rnd o a b)) rj ri).all id

/-- `j` loop with its `i == j` skip and `break` -/
def isDominatedAtX (rnd : α → α) (o : α) (d : List (List (XVal α))) (i : Nat) : Bool :=
  match d[i]? with
  | none => false
  | some ri => (List.range d.length).any fun j =>
      j != i && (match d[j]? with | some rj => domByX rnd o rj ri | none => false)

/-- `c_paretofront` on any array of doubles -/
def paretoFrontX (rnd : α → α) (o : α) (d : List (List (XVal α))) : List Nat :=
  (List.range d.length).map fun i => if isDominatedAtX rnd o d i then 1 else 0

/-! ### ppos, every operation rounded -/

/-- `(np.arange(1, nval+1) - cst) / (nval + 1 - 2*cst)` with a rounding after each operation
(the integers `i+1`, `nval+1` are exact) -/
def pposR (rnd : α → α) (n : Nat) (cst : α) : Except Err (List α) :=
  if cst < 0 ∨ 1 / 2 < cst then .error .cstRange
  else .ok ((List.range n).map fun i =>
    rnd (rnd (((i + 1 : Nat) : α) - cst) / rnd (((n + 1 : Nat) : α) - rnd (2 * cst))))

/-! ### standard_normal: the two remaining `rank_method`s of pandas -/

/-- equal values (neither smaller nor larger) -/
def eqv (x y : α) : Bool := !decide (y < x) && !decide (x < y)

/-- the values of `xs`, each once (the last occurrence is kept) -/
def distinctL : List α → List α
  | [] => []
  | x :: xs => if xs.any (eqv x) then distinctL xs else x :: distinctL xs

/-- `rank(method="dense")` at an entry `x` (1-based): one more than the number of distinct smaller values -/
def rankDense (xs : List α) (x : α) : α := ((cntLt (distinctL xs) x + 1 : Nat) : α)

/-- `rank(method="first")` (1-based): ties are ranked in the order they appear -
entry `i` gets one more than the number of smaller values plus the number of equal values before it -/
def ranksFirst (xs : List α) : List α :=
  (List.range xs.length).map fun i => match xs[i]? with
    | some x => ((cntLt xs x + cntEq (xs.take i) x + 1 : Nat) : α)
    | none => 0

inductive RankMethodX
  | std (m : RankMethod)
  | first
  | dense
  deriving DecidableEq, Repr

/-- `pd.Series(xs).rank(method=m)` (1-based), entry by entry -/
def ranksOf : RankMethodX → List α → List α
  | .std m, xs => xs.map (rank m xs)
  | .first, xs => ranksFirst xs
  | .dense, xs => xs.map (rankDense xs)

/-- `standard_normal(x, cst, sorted=False, rank_method=m)` for every method pandas offers:
(arguments of `norm.ppf`, 0-based ranks) -/
def standardNormalX (m : RankMethodX) (cst : α) (x : List (Option α)) : Except Err (List α × List α) :=
  if x.any Option.isNone then .error .hasNan else
  let xs := x.filterMap id
  let ranks := (ranksOf m xs).map fun r => r - 1
  .ok (ranks.map (scoreArg xs.length cst), ranks)

/-! ### lhs_norm -/

/-- `lhs_norm(nsamples, mean, cov)` calls `lhs(nsamples, [0]*nvars, [1]*nvars)`; the normal quantile function and the
Cholesky factor applied afterwards are external -/
def lhsUnit (n nvars : Nat) (perms : List (List Nat)) (rs : List (List α)) : Except Err (List (List α)) :=
  lhs n (List.replicate nvars (0 : α)) (List.replicate nvars (1 : α)) perms rs

end numeric

section wrapper
variable {α : Type} [Add α] [Sub α] [Mul α] [Div α] [Neg α] [LT α] [DecidableLT α] [LE α] [DecidableLE α]
  [OfNat α 0] [OfNat α 1] [OfNat α 2] [NatCast α] [IntCast α]

/-- `sutils.pareto_front(data, orientation)`: `orientation = np.int32(orientation)` (an integer reaches the kernel, which
converts it to `double`), the `ndim` guard, then the kernel -/
def paretoFrontWrap (ndim : Nat) (o : Int) (d : List (List (Option α))) : Except Err (List Nat) :=
  paretoFrontNd ndim ((o : Int) : α) d

end wrapper

/-! ### IEEE double rounding on exact rationals -/

def pow2 (e : Int) : Rat := if e ≥ 0 then ((2 ^ e.toNat : Nat) : Rat) else 1 / ((2 ^ (-e).toNat : Nat) : Rat)

/-- the exponent `e` with `2^52 ≤ a / 2^e < 2^53` (for `a > 0`): estimated from the bit lengths of numerator and
denominator, then corrected by one -/
def expo53 (a : Rat) : Int :=
  let e0 : Int := (Nat.log2 a.num.natAbs : Int) - (Nat.log2 a.den : Int) - 52
  let s0 := a / pow2 e0
  if s0 < ((2 ^ 52 : Nat) : Rat) then e0 - 1 else if ((2 ^ 53 : Nat) : Rat) ≤ s0 then e0 + 1 else e0

/-- round to the nearest integer, ties to even -/
def rne (s : Rat) : Int :=
  let m : Int := s.floor
  let fr := s - (m : Rat)
  if fr < 1 / 2 then m else if 1 / 2 < fr then m + 1 else if m % 2 = 0 then m else m + 1

/-- a positive rational rounded to nearest, ties to even, at 53 significant bits -/
def rndMag (a : Rat) : Rat := (rne (a / pow2 (expo53 a)) : Rat) * pow2 (expo53 a)

/-- round to nearest, ties to even, to 53 significant bits (a double without overflow / underflow) -/
def rnd53 (x : Rat) : Rat :=
  if x = 0 then 0 else if x < 0 then -(rndMag (-x)) else rndMag x

section frames
variable {α : Type} [Add α] [Sub α] [Mul α] [Div α] [Neg α] [LT α] [DecidableLT α] [LE α] [DecidableLE α]
  [OfNat α 0] [OfNat α 1] [OfNat α 2] [NatCast α] [FloorNat α]

/-! ### Boxplot(df).stats -/

/-- `data.apply(boxplot_stats, args=(bhc, whc))`, column by column -/
def statsOfColumns (bcov wcov : α) : List (List (Option α)) → Except Err (List (Nat × Option (BoxVals α)))
  | [] => .ok []
  | c :: cs =>
    match boxStats c bcov wcov, statsOfColumns bcov wcov cs with
    | .ok st, .ok rest => .ok (st :: rest)
    | .error e, _ => .error e
    | _, .error e => .error e

/-- `Boxplot(df, box_coverage, whiskers_coverage).stats`: the coverage guards of `__init__`, then one column of
statistics per data column; a frame without rows has no statistics at all (pandas does not call the function) -/
def boxStatsCols (cols : List (List (Option α))) (bcov wcov : α) : Except Err (List (Nat × Option (BoxVals α))) :=
  match boxplotCheck bcov wcov with
  | .error e => .error e
  | .ok _ => if cols.all List.isEmpty then .ok [] else statsOfColumns bcov wcov cols

end frames

/-! ### the life of a Boxplot object -/

inductive BoxOp
  | draw (ok stored : Bool)  -- draw(ax=...), any logscale / xoffset; `ok = false`: an exception escaped while drawing
                            -- (matplotlib / pandas lookups, external); `stored`: the elements of one column at least were stored
  | showCount   -- show_count(...)
  | setYlim     -- set_ylim(...)
  | setColor    -- set_color(pattern, ...)
  | setItems    -- assignments to the public item properties (widths, markers, show_text of box / median / ...)
  | hideCount   -- count.show_text = False
  deriving DecidableEq, Repr

/-- what the methods look at: the statistics (computed once by `__init__`), whether `draw` has run
(`_ax` / `elements` set), whether `elements` holds anything, whether the count item shows its text, whether the
column labels are strings (`set_color` hands the keys of `elements` to `re.search`) -/
structure BoxObj (σ : Type) where
  stats : σ
  drawn : Bool
  elems : Bool
  countText : Bool
  strNames : Bool

/-- one call: the new state and whether the call returned normally. `draw` sets `_ax` and `elements` before
anything can raise, so even a `draw` that raises leaves the object drawn (with the elements stored so far); every
other refused call leaves the object as it was -/
def boxStep {σ : Type} (s : BoxObj σ) : BoxOp → BoxObj σ × Bool
  | .draw ok stored => ({ s with drawn := true, elems := stored }, ok)
  | .showCount => (s, s.drawn && s.countText)
  | .setYlim => (s, s.drawn)
  | .setColor => (s, s.drawn && (!s.elems || s.strNames))
  | .setItems => (s, true)
  | .hideCount => ({ s with countText := false }, true)

/-- a whole history: final state and, call by call, whether it was accepted -/
def boxRun {σ : Type} (s : BoxObj σ) : List BoxOp → BoxObj σ × List Bool
  | [] => (s, [])
  | op :: ops =>
    let r := boxStep s op
    let t := boxRun r.1 ops
    (t.1, r.2 :: t.2)

/-! ### Violin -/

section violin
variable {α : Type} [Add α] [Sub α] [Mul α] [Div α] [Neg α] [LT α] [DecidableLT α] [LE α] [DecidableLE α]
  [OfNat α 0] [OfNat α 1] [OfNat α 2] [NatCast α]

/-- `(y - y.min()) / (y.max() - y.min())` with a rounding after each of the three operations
(`min` / `max` are comparisons: exact) -/
def normaliseR (rnd : α → α) (y : List α) : Option (List α) :=
  match minL y, maxL y with
  | some lo, some hi => some (y.map fun v => rnd (rnd (v - lo) / rnd (hi - lo)))
  | _, _ => none

end violin

/-- `npoints_kde`: the argument, or `max(100, min(500, len(data)))` -/
def violinNpts (given : Option Nat) (nrows : Nat) : Nat :=
  match given with
  | some k => k
  | none => max 100 (min 500 nrows)

end HydroVerif.C20
