/-
C15 — the point-in-polygon model under ROUNDED arithmetic.

`Model/C15.lean` is written over notation classes only, so it can be run at any number type. `Rd K rnd` is the type
of numbers of `K` whose every `+ - * /` result is passed through a rounding function `rnd : K → K` (comparisons,
negation, `fmin`, `fmax`, `fabs` are exact, as in IEEE arithmetic): the generic model instantiated at `Rd K rnd` IS
the C kernel executed in a floating-point arithmetic whose rounding is `rnd`. `Props/C15.lean` proves that for EVERY
`rnd` with relative error at most `u ≤ 1/100` this rounded kernel still answers the exact even-odd rule off a
margin `u (|p1x| + 8 |p2x - p1x|)` around the edges (`rounded_inside_eq_evenOdd`).

`rnd53` is an executable instance on core `Rat`: round to nearest, ties to even, 53 significant bits, unbounded
exponent (binary64 without overflow / underflow). `Drivers/C15.lean` runs the model at `Rd Rat rnd53` (request `pipr`)
and the harness compares its answers with the real kernel point by point.

No Mathlib.
-/
import HydroVerif.Model.C15
namespace HydroVerif.C15

/-- a number of `K` in an arithmetic that rounds every result of `+ - * /` with `rnd` -/
structure Rd (K : Type) (rnd : K → K) where
  val : K

namespace Rd
variable {K : Type} {rnd : K → K}

instance [Add K] : Add (Rd K rnd) := ⟨fun a b => ⟨rnd (a.val + b.val)⟩⟩
instance [Sub K] : Sub (Rd K rnd) := ⟨fun a b => ⟨rnd (a.val - b.val)⟩⟩
instance [Mul K] : Mul (Rd K rnd) := ⟨fun a b => ⟨rnd (a.val * b.val)⟩⟩
instance [Div K] : Div (Rd K rnd) := ⟨fun a b => ⟨rnd (a.val / b.val)⟩⟩
instance [Neg K] : Neg (Rd K rnd) := ⟨fun a => ⟨-a.val⟩⟩
instance [LT K] : LT (Rd K rnd) := ⟨fun a b => a.val < b.val⟩
instance [LE K] : LE (Rd K rnd) := ⟨fun a b => a.val ≤ b.val⟩
instance [LT K] [DecidableLT K] : DecidableLT (Rd K rnd) := fun a b => inferInstanceAs (Decidable (a.val < b.val))
instance [LE K] [DecidableLE K] : DecidableLE (Rd K rnd) := fun a b => inferInstanceAs (Decidable (a.val ≤ b.val))
instance [OfNat K 0] : OfNat (Rd K rnd) 0 := ⟨⟨0⟩⟩

/-- an input value (a coordinate, the tolerance) enters the rounded arithmetic unchanged -/
def lift (p : K × K) : Rd K rnd × Rd K rnd := (⟨p.1⟩, ⟨p.2⟩)

end Rd

/-- `points_inside_polygon` for one point, every arithmetic result rounded by `rnd` -/
def pointInsideRounded {K : Type} [Add K] [Sub K] [Mul K] [Div K] [Neg K] [LT K] [DecidableLT K] [LE K]
    [DecidableLE K] [OfNat K 0] (rnd : K → K) (atol : K) (poly : List (K × K)) (pt : K × K) : Bool :=
  pointInside (α := Rd K rnd) ⟨atol⟩ (poly.map Rd.lift) (Rd.lift pt)

/-- `xinters` as the kernel computes it when its first guard is open, written out: six roundings -/
def xintersR {K : Type} [Add K] [Sub K] [Mul K] [Div K] (rnd : K → K) (y : K) (p1 p2 : K × K) : K :=
  rnd (p1.1 + rnd (rnd (rnd (y - p1.2) * rnd (p2.1 - p1.1)) / rnd (p2.2 - p1.2)))

/-! ### an executable rounding: nearest, ties to even, 53 significant bits, unbounded exponent -/

/-- nearest integer, ties to even -/
def roundHalfEven (z : Rat) : Int :=
  let f := z.floor
  let r := z - (f : Rat)
  if r < 1 / 2 then f else if 1 / 2 < r then f + 1 else if f % 2 = 0 then f else f + 1

/-- `2 ^ e` -/
def pow2 (e : Int) : Rat := if 0 ≤ e then ((2 ^ e.toNat : Nat) : Rat) else 1 / ((2 ^ (-e).toNat : Nat) : Rat)

/-- round `x` to a multiple of `2 ^ e` -/
def rndAt (e : Int) (x : Rat) : Rat := ((roundHalfEven (x / pow2 e) : Int) : Rat) * pow2 e

/-- `⌊log2 |x|⌋` for `x ≠ 0` -/
def ilog2 (x : Rat) : Int :=
  let l : Int := (Nat.log2 x.num.natAbs : Int) - (Nat.log2 x.den : Int)
  if pow2 l ≤ fabs x then l else l - 1

/-- round to 53 significant bits: the spacing is `2 ^ (⌊log2 |x|⌋ - 52)`. The guard restates what makes the relative
error at most `2 ^ -53` (it holds whenever `ilog2` is right, i.e. always; the proof does not need to know that) -/
def rnd53 (x : Rat) : Rat :=
  let e := ilog2 x - 52
  if 0 < pow2 e ∧ pow2 e * 4503599627370496 ≤ fabs x then rndAt e x else x

/-! ### the hypotheses of `rounded_inside_eq_evenOdd`, decided (exact `Rat`), so that the driver can tell for every
generated point whether the theorem speaks about it -/

/-- each coordinate step of the edge is zero or exceeds the tolerance by the factor `1 / (1 - u)` -/
def sepEdgeRb (u atol : Rat) (p1 p2 : Rat × Rat) : Bool :=
  (decide (p1.2 = p2.2) || decide (atol < (1 - u) * fabs (p1.2 - p2.2))) &&
    (decide (p1.1 = p2.1) || decide (atol ≤ (1 - u) * fabs (p1.1 - p2.1)))

/-- the point is off the edge, at its own height, by more than the rounding margin `u (|p1x| + 8 |p2x - p1x|)` -/
def gapEdgeRb (u x y : Rat) (p1 p2 : Rat × Rat) : Bool :=
  !straddle y p1 p2 || decide (u * (fabs p1.1 + 8 * fabs (p2.1 - p1.1)) < fabs (x - xint y p1 p2))

def sepRb (u atol : Rat) (poly : List (Rat × Rat)) : Bool := (edges poly).all fun e => sepEdgeRb u atol e.1 e.2
def gapRb (u : Rat) (poly : List (Rat × Rat)) (pt : Rat × Rat) : Bool :=
  (edges poly).all fun e => gapEdgeRb u pt.1 pt.2 e.1 e.2

/-- every edge vertical or horizontal / every vertex abscissa kept by `rnd53` (it is a binary64 number): the hypotheses of
`rounded_rectilinear_exact`, decided -/
def rectb (poly : List (Rat × Rat)) : Bool :=
  (edges poly).all fun e => decide (e.1.1 = e.2.1) || decide (e.1.2 = e.2.2)
def repb (poly : List (Rat × Rat)) : Bool := poly.all fun v => decide (rnd53 v.1 = v.1)

/-- unit roundoff of binary64: `2 ^ -53` -/
def u53 : Rat := 1 / 9007199254740992

/-- the statement of `rounded_abscissa_error` for `rnd53`, decided: on every edge straddling the point's height the
abscissa computed with six roundings is within `u53 (|p1x| + 8 |p2x - p1x|)` of the exact one -/
def abscissaOkb (poly : List (Rat × Rat)) (pt : Rat × Rat) : Bool :=
  (edges poly).all fun e => !straddle pt.2 e.1 e.2 ||
    decide (fabs (xintersR rnd53 pt.2 e.1 e.2 - xint pt.2 e.1 e.2) ≤ u53 * (fabs e.1.1 + 8 * fabs (e.2.1 - e.1.1)))

end HydroVerif.C15
