/-
C07 — `c_coord2cell` as it is written since /repo commit c8d188e ("coord2cell tests the grid extent before
converting to integer"), next to the cast-first form `C07.coord2cell` of `Model/C07.lean` that the models of
C05 / C13 / C16 import (left untouched so that nothing else has to be rebuilt):

```c
fx = floor((xycoords[2*i]-xll)/csz);
fy = floor((xycoords[2*i+1]-yll)/csz);
if(!(fx>=0 && fx<(double)ncols && fy>=0 && fy<(double)nrows))
    idxcell[i] = -1;
else
{
    nx = (long long)fx;
    ny = nrows-1-(long long)fy;
    idxcell[i] = ny*ncols+nx;
}
```

The comparisons are made in the numeric type (IEEE: every comparison with NaN is false, so NaN, and ±inf,
go to `-1` before any cast). `Props/C07.lean: coord2cellK_eq_coord2cell` proves the two forms equal for every
input over any ordered field with floor; the driver runs both at `Float` and both are compared with the code.

Also here: the request-level shape of the `Grid.*` wrappers (a request is a list; a bare scalar is the
one-element request — `np.atleast_1d` / `np.atleast_2d`), so that the vectorised entry points are modelled
as what they are: the element-wise map of the kernels, independent of the length and order of the request.
No Mathlib.
-/
import HydroVerif.Model.C07
namespace HydroVerif.C07

/-- C `floor` on doubles: the result stays in the numeric type -/
class FloorNum (α : Type) where
  floor : α → α

instance floorFloat : FloorNum Float := ⟨Float.floor⟩
instance floorRat : FloorNum Rat := ⟨fun x => (x.floor : Rat)⟩

section Kernel
variable {α : Type} [Sub α] [Div α] [LE α] [DecidableLE α] [LT α] [DecidableLT α] [OfNat α 0]
  [Trunc α] [FloorNum α]

/-- the two quotients the kernel floors: offsets from the lower-left corner in cell units -/
def quotients (g : Geom α) (x y : α) : α × α := ((x - g.xll) / g.csz, (y - g.yll) / g.csz)

/-- everything the kernel does after the quotients: floor, extent test on the floored values (in the
numeric type), then the casts and the row-major number -/
def cellOfQuot (nrows ncols : Int) (qx qy : α) : Int :=
  let fx := FloorNum.floor qx
  let fy := FloorNum.floor qy
  if decide (fx ≥ 0) && decide (fx < Trunc.ofInt ncols) && decide (fy ≥ 0) && decide (fy < Trunc.ofInt nrows)
  then (nrows - 1 - Trunc.truncToInt fy) * ncols + Trunc.truncToInt fx
  else -1

/-- one entry of `c_coord2cell`, as written -/
def coord2cellK (g : Geom α) (x y : α) : Int :=
  cellOfQuot g.nrows g.ncols (quotients g x y).1 (quotients g x y).2

/-- `Grid.coord2cell(xycoords)`: `atleast_2d`, then one kernel entry per row -/
def gridCoord2cell (g : Geom α) (pts : List (α × α)) : List Int := pts.map fun p => coord2cellK g p.1 p.2

end Kernel

section Wrappers
variable {α : Type} [Add α] [Sub α] [Mul α] [Div α] [OfNat α 1] [Trunc α]

/-- `Grid.cell2rowcol(idxcells)`: `atleast_1d`, then one kernel entry per requested number -/
def gridCell2rowcol (nrows ncols : Int) (cells : List Int) : List (Int × Int) :=
  cells.map (cell2rowcol nrows ncols)

/-- `Grid.cell2coord(idxcells)`: `atleast_1d`, then one kernel entry per requested number (`none` = NaN, NaN) -/
def gridCell2coord (g : Geom α) (cells : List Int) : List (Option (α × α)) := cells.map (cell2coord g)

end Wrappers

end HydroVerif.C07
