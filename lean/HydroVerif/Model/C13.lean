/-
C13 — model of the persistence paths of `hydrodiy.gis.grid` (after the `fix:` commits of branch fix-C13):

* `Grid.save`            : header text (`KEY value` lines, `{0:<14} {1}\n`, parent attributes `{0:<22}`) and the
                           raw row-major data written by `ndarray.tofile`                     → `writeHeader`, `saveData`
* `Grid.from_stream`     : `readlines`, the per-line key dispatch (text / int / int-or-float / float), the
  (`from_header/from_zip`) `ulxmap/xdim` variants, byte order, the pixel-type regex, `np.dtype(str)`,
                           `Grid(**config)`, `Grid.load`, parent attributes                    → `fromStream`
* `Grid.load`            : `np.fromfile` with the byte order of the header, count check, reshape,
                           `_clipdata`, `astype`                                               → `load`
* `Grid.data` setter     : shape check, `_clipdata`, `astype` (same dtype)                     → `setData`
* `Grid.to_dict/from_dict`, `Grid.clone(dtype)`, `Grid.clip`                                   → `toDict`, `fromDict`, `clone`, `cloneAs`, `clip`
* `Catchment.to_dict/from_dict`                                                                → `catchToDict`, `catchFromDict`
* clone independence: grids as handles into an explicit array store                            → `Store`, `SOp`, `Store.clone`, `Store.cloneMap`
* `_clipdata` for the float types (`np.isfinite`, `np.isnan`, `np.maximum / np.minimum` on bit patterns),
  the `mindata / maxdata` setters                                                              → `clipWord`, `maxWord`, `minWord`, `setMin`, `setMax`
* the grid object as a state machine: every public mutator, accepted or rejected
  (`__setitem__` with any index, `fill`, the `data` / `nodata` / `mindata` / `maxdata` setters with any
  value, `load`), the accessor `__getitem__`                                                   → `Op`, `step`, `run`, `getItem`
* `Catchment.delineate_area` as far as it updates outlet, inlets and areas (fault path included)→ `COp`, `cstep`, `crun`
* `Grid.from_dict` with optional keys missing                                                  → `fromDictP`
* file names: `save(filename)`, `from_header(path)`, `from_zip(archive, member)`               → `saveFS`, `fromHeaderFS`, `fromZipFS`

Strings are `List Char`; cell values and the no-data value are *words* (the bit pattern of the numpy
scalar, `< 256^itemsize`), so that "bit-identical" is equality. Georeferencing numbers are an abstract
type `ν` (Float in the driver, any type in the theorems): their printing and reading (`str(np.float64)`,
`float()`), the conversions between float formats and the two pieces of arithmetic of the `ulxmap/xdim`
header variants are *external* and collected in `NumIO ν`.  Integers are printed and parsed concretely
(`Nat.toDigits`).  No Mathlib.
-/
import HydroVerif.Model.C07
namespace HydroVerif.C13

abbrev Str := List Char

/-! ## 0. python string helpers -/

/-- `str.strip()` white space (ASCII) -/
def isSpace (c : Char) : Bool :=
  c == ' ' || c == '\t' || c == '\n' || c == '\r' || c == '\x0b' || c == '\x0c'

def lstrip (s : Str) : Str := s.dropWhile isSpace
def rstrip (s : Str) : Str := (s.reverse.dropWhile isSpace).reverse
def strip (s : Str) : Str := rstrip (lstrip s)
def lower (s : Str) : Str := s.map Char.toLower
def upper (s : Str) : Str := s.map Char.toUpper

def startsWith : Str → Str → Bool
  | _, [] => true
  | [], _ :: _ => false
  | c :: s, d :: p => c == d && startsWith s p

/-- `" ".join(l)` -/
def joinSp : List Str → Str
  | [] => []
  | [a] => a
  | a :: b :: t => a ++ ' ' :: joinSp (b :: t)

/-- `str(n)` for a non-negative python int -/
def natStr (n : Nat) : Str := Nat.toDigits 10 n
/-- `str(i)` for a python int / `np.int64` -/
def intStr (i : Int) : Str := if i < 0 then '-' :: natStr i.natAbs else natStr i.natAbs

/-- decimal digits only, at least one -/
def parseNat? (s : Str) : Option Nat :=
  if s ≠ [] ∧ s.all Char.isDigit then some (Nat.ofDigitChars 10 s 0) else none

/-- `int(token)` for an already stripped ASCII token: optional sign, digits (python also accepts `_`
between digits and non-ASCII digits; not modelled, never generated) -/
def parseInt? (s : Str) : Option Int :=
  match s with
  | '-' :: r => (parseNat? r).map fun n => -(n : Int)
  | '+' :: r => (parseNat? r).map fun n => (n : Int)
  | r => (parseNat? r).map fun n => (n : Int)

/-- python dict assignment on an association list: overwrite in place or append -/
def dictSet {β : Type} (d : List (Str × β)) (k : Str) (v : β) : List (Str × β) :=
  if d.any (·.1 == k) then d.map (fun e => if e.1 == k then (k, v) else e) else d ++ [(k, v)]

/-! ## 1. data types -/

inductive Kind | int | uint | float
  deriving DecidableEq, Repr

/-- a numpy scalar type of the supported families: kind and item size in bytes -/
structure DType where
  kind : Kind
  bytes : Nat
  deriving DecidableEq, Repr

/-- int8..int64, uint8..uint64, float16/32/64 -/
def DType.supported (t : DType) : Bool :=
  match t.kind with
  | .float => t.bytes == 2 || t.bytes == 4 || t.bytes == 8
  | _ => t.bytes == 1 || t.bytes == 2 || t.bytes == 4 || t.bytes == 8

def allDTypes : List DType :=
  [⟨.int, 1⟩, ⟨.int, 2⟩, ⟨.int, 4⟩, ⟨.int, 8⟩, ⟨.uint, 1⟩, ⟨.uint, 2⟩, ⟨.uint, 4⟩, ⟨.uint, 8⟩,
   ⟨.float, 2⟩, ⟨.float, 4⟩, ⟨.float, 8⟩]

def int64 : DType := ⟨.int, 8⟩

/-- byte order of a raster file: `I` (Intel, little endian) or `M` (Motorola, big endian) -/
inductive ByteOrder | little | big
  deriving DecidableEq, Repr

def kindChar : Kind → Char
  | .int => 'i' | .uint => 'u' | .float => 'f'

def kindName : Kind → Str
  | .int => "int".toList | .uint => "uint".toList | .float => "float".toList

/-- `np.dtype(t).name`, e.g. `int64` -/
def dtypeName (t : DType) : Str := kindName t.kind ++ natStr (8 * t.bytes)

/-- `re.sub("[0-9]+$", "", name)` -/
def stripTrailingDigits (s : Str) : Str := (s.reverse.dropWhile Char.isDigit).reverse

/-- the `if name == "int" … elif … else raise` chain of `save` -/
def pixelTypeOfName (name : Str) : Option Str :=
  if name = "int".toList then some "signedint".toList
  else if name = "uint".toList then some "unsignedint".toList
  else if name = "float".toList then some "float".toList
  else none

/-- `np.dtype(t).str` on a little-endian machine: `|` for one-byte items, `<` otherwise -/
def dtypeStr (t : DType) : Str :=
  (if t.bytes = 1 then '|' else '<') :: kindChar t.kind :: natStr t.bytes

/-- `np.dtype(s)` for the array-protocol strings `[<>|=]?[iuf]<bytes>` of the supported types; `none` is
the `TypeError` numpy raises (other valid numpy type strings — `b1`, `c8`, `f16`, … — are outside
the supported families and are not generated). Returns the byte order the string asked for. -/
def dtypeOfStr (s : Str) : Option (ByteOrder × DType) :=
  let (bo, rest) := match s with
    | '>' :: r => (ByteOrder.big, r)
    | '<' :: r => (ByteOrder.little, r)
    | '|' :: r => (ByteOrder.little, r)
    | '=' :: r => (ByteOrder.little, r)
    | r => (ByteOrder.little, r)
  match rest with
  | k :: digits =>
    let kind? : Option Kind := if k == 'i' then some .int else if k == 'u' then some .uint
      else if k == 'f' then some .float else none
    match kind?, parseNat? digits with
    | some kind, some b => if (DType.mk kind b).supported then some (bo, ⟨kind, b⟩) else none
    | _, _ => none
  | [] => none

/-- `re.sub("nsignedint$|^signed|nt|loat", "", s)` on a single-line string: at every position the
alternatives are tried in order; `skip` counts characters of a match still to be dropped -/
def pixelSubAux : Nat → Bool → Str → Str
  | _, _, [] => []
  | skip + 1, _, _ :: s => pixelSubAux skip false s
  | 0, atStart, c :: s =>
    if c :: s = "nsignedint".toList then []
    else if atStart && startsWith (c :: s) "signed".toList then pixelSubAux 5 false s
    else if startsWith (c :: s) "nt".toList then pixelSubAux 1 false s
    else if startsWith (c :: s) "loat".toList then pixelSubAux 3 false s
    else c :: pixelSubAux 0 false s
def pixelSub (s : Str) : Str := pixelSubAux 0 true s

/-! ## 2. words and bytes -/

def wordBound (t : DType) : Nat := 256 ^ t.bytes

/-- the integer a word stands for (two's complement for signed types) -/
def toInt (t : DType) (w : Nat) : Int :=
  match t.kind with
  | .int => if 2 * w < wordBound t then (w : Int) else (w : Int) - (wordBound t : Int)
  | _ => (w : Int)

/-- range of the integer type -/
def intInRange (t : DType) (i : Int) : Bool :=
  match t.kind with
  | .int => decide (-(wordBound t : Int) ≤ 2 * i) && decide (2 * i < (wordBound t : Int))
  | _ => decide (0 ≤ i) && decide (i < (wordBound t : Int))

/-- word of an in-range integer -/
def ofInt (t : DType) (i : Int) : Nat := (i % (wordBound t : Int)).toNat

def encodeLE : Nat → Nat → List UInt8
  | 0, _ => []
  | n + 1, w => UInt8.ofNat (w % 256) :: encodeLE n (w / 256)

def decodeLE : List UInt8 → Nat
  | [] => 0
  | b :: bs => b.toNat + 256 * decodeLE bs

/-- the `n` bytes of word `w` in the given byte order -/
def encode (bo : ByteOrder) (n w : Nat) : List UInt8 :=
  match bo with
  | .little => encodeLE n w
  | .big => (encodeLE n w).reverse

def decode (bo : ByteOrder) (bs : List UInt8) : Nat :=
  match bo with
  | .little => decodeLE bs
  | .big => decodeLE bs.reverse

/-- complete items of `n` bytes (a trailing partial item is dropped, as `np.fromfile` does) -/
def chunksAux {β : Type} (n : Nat) : Nat → List β → List (List β)
  | 0, _ => []
  | fuel + 1, l => if n = 0 ∨ l.length < n then [] else l.take n :: chunksAux n fuel (l.drop n)
def chunks {β : Type} (n : Nat) (l : List β) : List (List β) := chunksAux n l.length l

/-- `ndarray.tofile` of a C-contiguous native (little-endian) array -/
def saveData (t : DType) (rows : List (List Nat)) : List UInt8 :=
  rows.flatten.flatMap (encodeLE t.bytes)

/-- `np.fromfile(stream, dtype.newbyteorder(bo))` -/
def fromfile (bo : ByteOrder) (t : DType) (bytes : List UInt8) : List Nat :=
  (chunks t.bytes bytes).map (decode bo)

/-- `data.reshape((nrows, ncols))` for `len(data) = nrows*ncols` -/
def reshape {β : Type} : Nat → Nat → List β → List (List β)
  | 0, _, _ => []
  | nrows + 1, ncols, data => data.take ncols :: reshape nrows ncols (data.drop ncols)

/-! ### floating point words as far as `_clipdata` looks at them

`np.isfinite`, `np.isnan` and the order of two non-NaN floats are decided on the bit pattern (sign, exponent,
fraction): no rounding is involved, `np.maximum / np.minimum` return one of their two operands. -/

/-- number of fraction bits of float16 / float32 / float64 -/
def mantBits (t : DType) : Nat := if t.bytes = 2 then 10 else if t.bytes = 4 then 23 else 52

/-- biased exponent field -/
def expField (t : DType) (w : Nat) : Nat := w / 2 ^ mantBits t % 2 ^ (8 * t.bytes - 1 - mantBits t)

/-- all-ones exponent: inf or NaN -/
def expAll (t : DType) : Nat := 2 ^ (8 * t.bytes - 1 - mantBits t) - 1

/-- `np.isnan` of a float word -/
def isNaNW (t : DType) (w : Nat) : Bool := expField t w == expAll t && w % 2 ^ mantBits t != 0

/-- `np.isfinite` of a float word -/
def isFiniteW (t : DType) (w : Nat) : Bool := expField t w != expAll t

/-- an integer that orders non-NaN float words as their values are ordered (sign and magnitude; `-0.0` and `0.0`
both map to 0, `±inf` to the extremes) -/
def floatKey (t : DType) (w : Nat) : Int :=
  let m := w % 2 ^ (8 * t.bytes - 1)
  if w / 2 ^ (8 * t.bytes - 1) % 2 = 1 then -(m : Int) else (m : Int)

/-- a bound as it is stored in `lo / hi`: the integer for the integer types, the bit pattern for the float types -/
def boundOfWord (t : DType) (w : Nat) : Int :=
  match t.kind with
  | .float => (w : Int)
  | _ => toInt t w

/-- `np.isfinite(bound)`: always true for an integer scalar -/
def boundFinite (t : DType) (b : Int) : Bool :=
  match t.kind with
  | .float => isFiniteW t b.toNat
  | _ => true

/-- `np.maximum(x, bound)` on one word (`bound` as stored, see `boundOfWord`): `x` when it is NaN or not below the
bound, else the bound (a NaN bound is returned for every non-NaN `x`: the comparison is false). When `x` and the
bound are the two zeros of a float type numpy returns either (platform dependent): never generated. -/
def maxWord (t : DType) (b : Int) (w : Nat) : Nat :=
  match t.kind with
  | .float =>
    if isNaNW t w then w
    else if isNaNW t b.toNat then b.toNat
    else if floatKey t w < floatKey t b.toNat then b.toNat else w
  | _ => if toInt t w < b then ofInt t b else w

/-- `np.minimum(x, bound)` on one word -/
def minWord (t : DType) (b : Int) (w : Nat) : Nat :=
  match t.kind with
  | .float =>
    if isNaNW t w then w
    else if isNaNW t b.toNat then b.toNat
    else if floatKey t b.toNat < floatKey t w then b.toNat else w
  | _ => if b < toInt t w then ofInt t b else w

/-- `if np.isfinite(self._mindata): value = np.maximum(value, self._mindata)` on a float word -/
def clipLoF (t : DType) (lo : Option Int) (w : Nat) : Nat :=
  match lo with
  | some l => if boundFinite t l then maxWord t l w else w
  | none => w

/-- `if np.isfinite(self._maxdata): value = np.minimum(value, self._maxdata)` on a float word -/
def clipHiF (t : DType) (hi : Option Int) (w : Nat) : Nat :=
  match hi with
  | some h => if boundFinite t h then minWord t h w else w
  | none => w

/-- `_clipdata` followed by `astype(self.dtype)` on one value of the grid's own dtype: `mindata/maxdata`
are `None`-like when they are the python floats `∓inf` of `__init__` (the default); a bound that was set is a scalar of
the grid dtype and is applied with `np.maximum / np.minimum` in that dtype when `np.isfinite` holds for it (always,
for an integer type; a float bound set to `±inf` or NaN is no bound). -/
def clipWord (t : DType) (lo hi : Option Int) (w : Nat) : Nat :=
  match t.kind with
  | .float => clipHiF t hi (clipLoF t lo w)
  | _ =>
    let v := toInt t w
    let v := match lo with | some l => if v < l then l else v | none => v
    let v := match hi with | some h => if h < v then h else v | none => v
    if lo.isNone && hi.isNone then w else ofInt t v

def clipData (t : DType) (lo hi : Option Int) (rows : List (List Nat)) : List (List Nat) :=
  rows.map fun r => r.map (clipWord t lo hi)

/-- `int64 → float64 → int64`: what `np.clip(x, -inf, inf).astype(int64)` did to a 64-bit integer at the pinned
commit (round to nearest-even on 53 significant bits; the final cast of an out-of-range value is not modelled).
Not used by the model of the repaired code; kept so that the finding is a theorem and for replay diagnostics. -/
def roundF64 (n : Int) : Int :=
  let a := n.natAbs
  let e := (Nat.log2 a + 1) - 53
  let q := a / 2 ^ e
  let r := a % 2 ^ e
  let q' := if 2 * r > 2 ^ e ∨ (2 * r = 2 ^ e ∧ q % 2 = 1) then q + 1 else q
  if n < 0 then -((q' * 2 ^ e : Nat) : Int) else ((q' * 2 ^ e : Nat) : Int)

/-! ## 3. external number text and conversions -/

/-- what the code delegates to python / numpy for floating point numbers -/
structure NumIO (ν : Type) where
  /-- `str(np.float64(x))` = `"{}".format(x)` -/
  showF : ν → Str
  /-- `float(token)`; `none` = `ValueError` -/
  readF : Str → Option ν
  /-- `str(s)` of the float16/32/64 scalar with bit pattern `w` -/
  showW : DType → Nat → Str
  /-- bit pattern of `dtype(x)` for a python float `x`; `none` = numpy raises -/
  castW : DType → ν → Option Nat
  /-- bit pattern of `floatN(i)` for a python int -/
  ofIntW : DType → Int → Option Nat
  /-- `ndarray.astype` on one word between two different dtypes of which at least one is a float type -/
  convW : DType → DType → Nat → Nat
  /-- `float(i)` / the literals `0.`, `1.` -/
  ofInt : Int → ν
  sub : ν → ν → ν
  mul : ν → ν → ν
  /-- `abs(ydim - xdim) > 1e-10` -/
  dimsDiffer : ν → ν → Bool

/-- a value offered as no-data: python int, python float, text (`from_dict`), or a scalar that already
has the grid's dtype -/
inductive NVal (ν : Type) where
  | int (n : Int) | num (x : ν) | text (s : Str) | word (w : Nat)

inductive Err
  /-- `IndexError`: a non-text header line without a second token (also blank lines) -/
  | malformedLine
  /-- byte order other than `I`/`M` -/
  | badByteorder
  /-- `np.dtype(...)` raises `TypeError` -/
  | badDtype
  /-- `xdim` and `ydim` differ -/
  | xdimYdim
  /-- `KeyError`: `ulxmap` without `ulymap` or `nrows` -/
  | missingKey
  /-- `TypeError`: no `ncols` -/
  | missingDims
  /-- python int out of the bounds of the integer dtype (`OverflowError`), unparsable text -/
  | badNodata
  /-- negative dimension (`np.zeros` raises) -/
  | badShape
  /-- number of items in the data file ≠ `nrows*ncols`, or array of the wrong shape given to the setter -/
  | wrongCount
  /-- dtype name not int/uint/float in `save` -/
  | pixelUnrecognised
  /-- `Catchment.to_dict` before delineation -/
  | notDelineated
  /-- clip corner outside the extent: outside the property, not modelled -/
  | cornerOutside
  /-- `IndexError`: flat index outside `[-size, size)` in `grid[idx] = …` -/
  | badIndex
  /-- `mindata > maxdata` after a bound was assigned -/
  | badBounds
  /-- `save` with a file name that does not end with `bil` -/
  | badFilename
  /-- `delineate_area`: the kernel returns an error code -/
  | delineationFailed
  /-- `from_header`: the header file does not exist (`ValueError`) -/
  | missingFile
  deriving DecidableEq, Repr

/-- `self.dtype(value)`: the no-data setter -/
def nodataWord {ν : Type} (io : NumIO ν) (t : DType) : NVal ν → Except Err Nat
  | .word w => .ok w
  | .int n =>
    match t.kind with
    | .float => match io.ofIntW t n with | some w => .ok w | none => .error .badNodata
    | _ => if intInRange t n then .ok (ofInt t n) else .error .badNodata
  | .num x => match io.castW t x with | some w => .ok w | none => .error .badNodata
  | .text s =>
    match t.kind with
    | .float =>
      match io.readF (strip s) with
      | some x => (match io.castW t x with | some w => .ok w | none => .error .badNodata)
      | none => .error .badNodata
    | _ =>
      match parseInt? (strip s) with
      | some n => if intInRange t n then .ok (ofInt t n) else .error .badNodata
      | none => .error .badNodata

/-- `str(self.nodata)` -/
def nodataStr {ν : Type} (io : NumIO ν) (t : DType) (w : Nat) : Str :=
  match t.kind with
  | .float => io.showW t w
  | _ => intStr (toInt t w)

/-! ## 4. the grid object -/

/-- value of a header field / attribute -/
inductive PVal (ν : Type) where
  | int (n : Int) | num (x : ν) | text (s : Str)

def PVal.str {ν : Type} (io : NumIO ν) : PVal ν → Str
  | .int n => intStr n
  | .num x => io.showF x
  | .text s => s

structure Grid (ν : Type) where
  name : Str
  comment : Str
  nrows : Int
  ncols : Int
  xll : ν
  yll : ν
  csz : ν
  dtype : DType
  /-- `_nodata`, a scalar of `dtype` -/
  nodata : Nat
  /-- `mindata` / `maxdata`: `none` is the python float `∓inf` of `__init__`; a bound that was set is a scalar of the
  grid dtype, stored as its integer value (integer types) or as its bit pattern (float types), see `boundOfWord` -/
  lo : Option Int := none
  hi : Option Int := none
  data : List (List Nat)
  /-- `parentgrid_*` attributes in the order they were set -/
  parent : List (Str × PVal ν) := []

def zeros (nrows ncols : Nat) : List (List Nat) := List.replicate nrows (List.replicate ncols 0)

/-- `Grid.__init__` -/
def mkGrid {ν : Type} (io : NumIO ν) (name : Str) (ncols nrows : Int) (csz xll yll : ν) (t : DType)
    (nodata : NVal ν) (comment : Str) : Except Err (Grid ν) :=
  match nodataWord io t nodata with
  | .error e => .error e
  | .ok w =>
    if nrows < 0 ∨ ncols < 0 then .error .badShape
    else .ok { name, comment, nrows, ncols, xll, yll, csz, dtype := t, nodata := w,
               data := zeros nrows.toNat ncols.toNat }

/-- the `data` setter for an array of the grid's own dtype -/
def setData {ν : Type} (g : Grid ν) (rows : List (List Nat)) : Except Err (Grid ν) :=
  if (rows.length : Int) ≠ g.nrows ∨ rows.any (fun r => (r.length : Int) ≠ g.ncols) then .error .wrongCount
  else .ok { g with data := clipData g.dtype g.lo g.hi rows }

/-- `Grid.load` -/
def load {ν : Type} (g : Grid ν) (bo : ByteOrder) (bytes : List UInt8) : Except Err (Grid ν) :=
  let data := fromfile bo g.dtype bytes
  if (data.length : Int) ≠ g.nrows * g.ncols then .error .wrongCount
  else .ok { g with data := clipData g.dtype g.lo g.hi (reshape g.nrows.toNat g.ncols.toNat data) }

/-! ## 5. header writer -/

/-- `"{0:<w}".format(s)` -/
def ljust (w : Nat) (s : Str) : Str := s ++ List.replicate (w - s.length) ' '

/-- `"{0:<w} {1}\n".format(key, val)` -/
def fmtLine (w : Nat) (key val : Str) : Str := ljust w key ++ ' ' :: (val ++ ['\n'])

/-- the attributes `save` and `to_dict` look for, in that order -/
def parentAttrs : List Str :=
  ["nrows", "ncols", "xllcorner", "yllcorner", "rows_start", "rows_end", "cols_start", "cols_end"].map
    fun a => "parentgrid_".toList ++ a.toList

def lookup {β : Type} (d : List (Str × β)) (k : Str) : Option β := (d.find? (·.1 == k)).map (·.2)

/-- `re.sub("[\r\n]+", " ", s)`: every run of line breaks becomes one blank -/
def oneLineAux : Bool → Str → Str
  | _, [] => []
  | inRun, c :: s =>
    if c == '\n' || c == '\r' then (if inRun then oneLineAux true s else ' ' :: oneLineAux true s)
    else c :: oneLineAux false s
def oneLine (s : Str) : Str := oneLineAux false s

/-- the BYTEORDER letter -/
def boLetter : ByteOrder → Str
  | .big => "M".toList
  | .little => "I".toList

/-- the header file written by `Grid.save`. `bo` is `np.dtype(self.dtype).byteorder == ">"`: a grid built by
this module always holds native data, so `save` itself only ever takes the `I` branch (`writeHeader`); the
`M` branch is what a big-endian raster produced elsewhere carries. -/
def writeHeaderBO {ν : Type} (io : NumIO ν) (bo : ByteOrder) (g : Grid ν) : Except Err Str :=
  match pixelTypeOfName (stripTrailingDigits (dtypeName g.dtype)) with
  | none => .error .pixelUnrecognised
  | some pixeltype =>
    let comment := if oneLine g.comment = [] then "No comment".toList else oneLine g.comment
    .ok (
      fmtLine 14 "NROWS".toList (intStr g.nrows) ++
      fmtLine 14 "NCOLS".toList (intStr g.ncols) ++
      fmtLine 14 "XLLCORNER".toList (io.showF g.xll) ++
      fmtLine 14 "YLLCORNER".toList (io.showF g.yll) ++
      fmtLine 14 "CELLSIZE".toList (io.showF g.csz) ++
      fmtLine 14 "NBITS".toList (natStr (g.dtype.bytes * 8)) ++
      fmtLine 14 "PIXELTYPE".toList (upper pixeltype) ++
      fmtLine 14 "BYTEORDER".toList (boLetter bo) ++
      fmtLine 14 "NODATA_VALUE".toList (nodataStr io g.dtype g.nodata) ++
      fmtLine 14 "NAME".toList (oneLine g.name) ++
      fmtLine 14 "COMMENT".toList comment ++
      (parentAttrs.flatMap fun a =>
        match lookup g.parent a with
        | some v => fmtLine 22 (upper a) (v.str io)
        | none => []))

def writeHeader {ν : Type} (io : NumIO ν) (g : Grid ν) : Except Err Str := writeHeaderBO io .little g

/-- `Grid.save`: header text and data bytes -/
def save {ν : Type} (io : NumIO ν) (g : Grid ν) : Except Err (Str × List UInt8) :=
  match writeHeader io g with
  | .error e => .error e
  | .ok h => .ok (h, saveData g.dtype g.data)

/-! ## 6. header reader -/

/-- `readlines()` of a text stream opened with universal newlines: lines keep their `\n`; `\r\n` and a
lone `\r` are line ends too -/
def readlinesAux : Str → Str → List Str
  | cur, [] => if cur = [] then [] else [cur.reverse]
  | cur, '\n' :: s => ('\n' :: cur).reverse :: readlinesAux [] s
  | cur, '\r' :: '\n' :: s => ('\n' :: cur).reverse :: readlinesAux [] s
  | cur, '\r' :: s => ('\n' :: cur).reverse :: readlinesAux [] s
  | cur, c :: s => readlinesAux (c :: cur) s
def readlines (s : Str) : List Str := readlinesAux [] s

/-- `re.split(" ", re.sub(" +", " ", line))`: split at every maximal run of blanks (a leading or
trailing run yields an empty first / last token). The result is never empty. -/
def splitRunsAux : Bool → Str → List Str
  | _, [] => [[]]
  | inRun, c :: s =>
    if c == ' ' then (if inRun then splitRunsAux true s else [] :: splitRunsAux true s)
    else match splitRunsAux false s with
      | t :: ts => (c :: t) :: ts
      | [] => [[c]]
def splitRuns (line : Str) : List Str := splitRunsAux false line

/-- the `config` dictionary of `from_stream`, restricted to the keys that are read afterwards -/
structure Config (ν : Type) where
  name : Str
  comment : Str
  pixeltype : Str
  byteorder : Str
  nbits : Int
  nrows : Option Int
  ncols : Option Int
  xll : ν
  yll : ν
  csz : ν
  nodata : NVal ν
  nodataValue : Option (NVal ν)
  xdim : Option ν
  ydim : Option ν
  ulxmap : Option ν
  ulymap : Option ν
  parent : List (Str × PVal ν)

def Config.init {ν : Type} (io : NumIO ν) (defaultName : Str) : Config ν :=
  { name := defaultName, comment := "No comment".toList, pixeltype := "float".toList,
    byteorder := "i".toList, nbits := 64, nrows := none, ncols := none,
    xll := io.ofInt 0, yll := io.ofInt 0, csz := io.ofInt 1, nodata := .int 0, nodataValue := none,
    xdim := none, ydim := none, ulxmap := none, ulymap := none, parent := [] }

def textKeys : List Str := ["pixeltype", "byteorder", "layout", "comment", "name"].map String.toList

def Config.setText {ν : Type} (c : Config ν) (k v : Str) : Config ν :=
  if k = "pixeltype".toList then { c with pixeltype := v }
  else if k = "byteorder".toList then { c with byteorder := v }
  else if k = "comment".toList then { c with comment := v }
  else if k = "name".toList then { c with name := v }
  else c

def Config.setInt {ν : Type} (c : Config ν) (k : Str) (n : Int) : Config ν :=
  if startsWith k "parent".toList then { c with parent := dictSet c.parent k (.int n) }
  else if k = "nrows".toList then { c with nrows := some n }
  else if k = "ncols".toList then { c with ncols := some n }
  else if k = "nbits".toList then { c with nbits := n }
  else c

def Config.setNodata {ν : Type} (c : Config ν) (k : Str) (v : NVal ν) : Config ν :=
  if k = "nodata".toList then { c with nodata := v }
  else if k = "nodata_value".toList then { c with nodataValue := some v }
  else c

def Config.setNum {ν : Type} (c : Config ν) (k : Str) (x : ν) : Config ν :=
  if startsWith k "parent".toList then { c with parent := dictSet c.parent k (.num x) }
  else if k = "xllcorner".toList then { c with xll := x }
  else if k = "yllcorner".toList then { c with yll := x }
  else if k = "cellsize".toList then { c with csz := x }
  else if k = "xdim".toList then { c with xdim := some x }
  else if k = "ydim".toList then { c with ydim := some x }
  else if k = "ulxmap".toList then { c with ulxmap := some x }
  else if k = "ulymap".toList then { c with ulymap := some x }
  else c

/-- `pname.startswith("n") and not pname.startswith("nodata")`, or `pname.startswith("parentgrid_n")` -/
def isIntKey (k : Str) : Bool :=
  (startsWith k "n".toList && !startsWith k "nodata".toList) || startsWith k "parentgrid_n".toList

/-- one iteration of the `for line in stream_header.readlines()` loop; a `ValueError` in `int()` /
`float()` is a warning and the field is skipped -/
def parseLine {ν : Type} (io : NumIO ν) (c : Config ν) (line : Str) : Except Err (Config ν) :=
  let toks := splitRuns line
  let pname := lower (toks.headD [])
  if textKeys.contains pname then
    .ok (c.setText pname (lower (strip (joinSp toks.tail))))
  else
    match toks.tail with
    | [] => .error .malformedLine
    | t1 :: _ =>
      let tok := strip t1
      if isIntKey pname then
        match parseInt? tok with
        | some n => .ok (c.setInt pname n)
        | none => .ok c
      else if startsWith pname "nodata".toList then
        match parseInt? tok with
        | some n => .ok (c.setNodata pname (.int n))
        | none => match io.readF tok with
          | some x => .ok (c.setNodata pname (.num x))
          | none => .ok c
      else
        match io.readF tok with
        | some x => .ok (c.setNum pname x)
        | none => .ok c

def parseLines {ν : Type} (io : NumIO ν) : Config ν → List Str → Except Err (Config ν)
  | c, [] => .ok c
  | c, l :: ls => match parseLine io c l with
    | .error e => .error e
    | .ok c' => parseLines io c' ls

/-- what the header says about the raster: constructor arguments, byte order, parent attributes -/
structure HeaderInfo (ν : Type) where
  grid : Grid ν
  byteorder : ByteOrder

/-- everything `from_stream` does after the line loop, up to `Grid(**config)` -/
def finishConfig {ν : Type} (io : NumIO ν) (c : Config ν) : Except Err (HeaderInfo ν) :=
  if c.byteorder ≠ "m".toList ∧ c.byteorder ≠ "i".toList then .error .badByteorder else
  let bo : ByteOrder := if c.byteorder = "m".toList then .big else .little
  let bch : Char := if c.byteorder = "m".toList then '>' else '<'
  match dtypeOfStr (bch :: (pixelSub c.pixeltype ++ intStr (Int.fdiv c.nbits 8))) with
  | none => .error .badDtype
  | some (_, t) =>
    let cszE : Except Err ν := match c.xdim with
      | none => .ok c.csz
      | some xd => match c.ydim with
        | none => .ok xd
        | some yd => if io.dimsDiffer yd xd then .error .xdimYdim else .ok xd
    match cszE with
    | .error e => .error e
    | .ok csz =>
      let cornerE : Except Err (ν × ν) := match c.ulxmap with
        | none => .ok (c.xll, c.yll)
        | some ux => match c.ulymap, c.nrows with
          | some uy, some nr => .ok (ux, io.sub uy (io.mul csz (io.ofInt nr)))
          | _, _ => .error .missingKey
      match cornerE with
      | .error e => .error e
      | .ok (xll, yll) =>
        let nodata := match c.nodataValue with | some v => v | none => c.nodata
        match c.ncols with
        | none => .error .missingDims
        | some ncols =>
          let nrows := match c.nrows with | some n => n | none => ncols
          match mkGrid io c.name ncols nrows csz xll yll t nodata c.comment with
          | .error e => .error e
          | .ok g => .ok { grid := g, byteorder := bo }

def parseHeader {ν : Type} (io : NumIO ν) (defaultName : Str) (header : Str) : Except Err (HeaderInfo ν) :=
  match parseLines io (Config.init io defaultName) (readlines header) with
  | .error e => .error e
  | .ok c => finishConfig io c

/-- `Grid.from_stream(header, data)` (`from_header`, `from_zip` resolve file names and call it) -/
def fromStream {ν : Type} (io : NumIO ν) (defaultName : Str) (header : Str) (data : Option (List UInt8)) :
    Except Err (Grid ν) :=
  match parseLines io (Config.init io defaultName) (readlines header) with
  | .error e => .error e
  | .ok c =>
    match finishConfig io c with
    | .error e => .error e
    | .ok hi =>
      let loaded : Except Err (Grid ν) := match data with
        | none => .ok hi.grid
        | some bytes => load hi.grid hi.byteorder bytes
      match loaded with
      | .error e => .error e
      | .ok g => .ok { g with parent := c.parent }

/-! ## 7. dictionaries, clone -/

/-- `Grid.to_dict()` -/
structure GridDict (ν : Type) where
  name : Str
  ncols : Int
  nrows : Int
  csz : ν
  xll : ν
  yll : ν
  /-- `np.dtype(self.dtype).str` -/
  dtype : Str
  /-- `str(self.nodata)` -/
  nodata : Str
  comment : Str
  parent : List (Str × PVal ν)

def toDict {ν : Type} (io : NumIO ν) (g : Grid ν) : GridDict ν :=
  { name := g.name, ncols := g.ncols, nrows := g.nrows, csz := g.csz, xll := g.xll, yll := g.yll,
    dtype := dtypeStr g.dtype, nodata := nodataStr io g.dtype g.nodata, comment := g.comment,
    parent := parentAttrs.filterMap fun a => (lookup g.parent a).map fun v => (a, v) }

/-- `Grid.from_dict(dic)` for a dictionary holding every optional key (as `to_dict` produces) -/
def fromDict {ν : Type} (io : NumIO ν) (d : GridDict ν) : Except Err (Grid ν) :=
  match dtypeOfStr d.dtype with
  | none => .error .badDtype
  | some (_, t) => mkGrid io d.name d.ncols d.nrows d.csz d.xll d.yll t (.text d.nodata) d.comment

/-- `Grid.clone()` (`copy.deepcopy`) -/
def clone {ν : Type} (g : Grid ν) : Grid ν := g

/-- `ndarray.astype(dst)` on one word of dtype `src`: nothing to convert for the same dtype, two's-complement
wrap between integer types (the C cast), external as soon as a float type is involved -/
def astypeWord {ν : Type} (io : NumIO ν) (src dst : DType) (w : Nat) : Nat :=
  if src = dst then w else
  match src.kind, dst.kind with
  | .float, _ => io.convW src dst w
  | _, .float => io.convW src dst w
  | _, _ => ofInt dst (toInt src w)

/-- `Grid.clone(dtype)`: deep copy, then the `dtype` setter (`_dtype = dtype; _data = _data.astype(dtype)`);
the no-data scalar is not converted -/
def cloneAs {ν : Type} (io : NumIO ν) (g : Grid ν) (t : DType) : Grid ν :=
  { g with dtype := t, data := g.data.map fun r => r.map (astypeWord io g.dtype t) }

/-! ## 8. clip -/

section Clip
open HydroVerif.C07
variable {α : Type} [Add α] [Sub α] [Mul α] [Div α] [OfNat α 1] [Trunc α]

def geom (g : Grid α) : Geom α := { nrows := g.nrows, ncols := g.ncols, xll := g.xll, yll := g.yll, csz := g.csz }

/-- python slice `l[a:b]` for `0 ≤ a`, `0 ≤ b` -/
def slice {β : Type} (l : List β) (a b : Int) : List β := (l.drop a.toNat).take (b.toNat - a.toNat)

/-- `Grid.clip(xll, yll, xur, yur)` for corners inside the extent -/
def clip (io : NumIO α) (g : Grid α) (xll yll xur yur : α) : Except Err (Grid α) :=
  let gm := geom g
  let c0 := coord2cell gm xll yll
  let c1 := coord2cell gm xur yur
  if !(validCell g.nrows g.ncols c0 && validCell g.nrows g.ncols c1) then .error .cornerOutside else
  let rc0 := cell2rowcol g.nrows g.ncols c0
  let rc1 := cell2rowcol g.nrows g.ncols c1
  let nrows := rc0.1 - rc1.1 + 1
  let ncols := rc1.2 - rc0.2 + 1
  let xy := getcoord gm c0
  let xllg := xy.1 - g.csz / (1 + 1)
  let yllg := xy.2 - g.csz / (1 + 1)
  match mkGrid io (g.name ++ "_clip".toList) ncols nrows g.csz xllg yllg g.dtype (.word g.nodata) [] with
  | .error e => .error e
  | .ok ng =>
    let comment := "Clip of grid ".toList ++ g.name ++ " on the box [".toList ++ io.showF xll ++ ", ".toList
      ++ io.showF yll ++ ", ".toList ++ io.showF xur ++ ", ".toList ++ io.showF yur ++ "].".toList
    let row0 := rc1.1
    let row1 := rc0.1
    let col0 := rc0.2
    let col1 := rc1.2
    match setData { ng with comment := comment }
        ((slice g.data row0 (row1 + 1)).map fun r => slice r col0 (col1 + 1)) with
    | .error e => .error e
    | .ok ng =>
      .ok { ng with parent :=
        [("parentgrid_name".toList, .text g.name), ("parentgrid_ncols".toList, .int g.ncols),
         ("parentgrid_nrows".toList, .int g.nrows), ("parentgrid_cellsize".toList, .num g.csz),
         ("parentgrid_xllcorner".toList, .num g.xll), ("parentgrid_yllcorner".toList, .num g.yll),
         ("parentgrid_rows_start".toList, .int row0), ("parentgrid_rows_end".toList, .int row1),
         ("parentgrid_cols_start".toList, .int col0), ("parentgrid_cols_end".toList, .int col1)] }

end Clip

/-! ## 9. catchments -/

structure Catchment (ν : Type) where
  name : Str
  flowdir : Grid ν
  outlet : Option Int
  inlets : Option (List Int)
  area : Option (List Int)
  filled : Option (List Int)

structure CatchDict (ν : Type) where
  name : Str
  outlet : Option Int
  inlets : Option (List Int)
  area : List Int
  filled : List Int
  flowdir : GridDict ν

/-- `Catchment.to_dict()` -/
def catchToDict {ν : Type} (io : NumIO ν) (c : Catchment ν) : Except Err (CatchDict ν) :=
  match c.area, c.filled with
  | some a, some f =>
    .ok { name := c.name, outlet := c.outlet, inlets := c.inlets, area := a, filled := f,
          flowdir := toDict io c.flowdir }
  | _, _ => .error .notDelineated

/-- `Catchment.from_dict(dic)`: the flow direction grid is rebuilt from its metadata (zero data) and
cloned as int64 by the constructor (its no-data scalar keeps the dtype of the dictionary) -/
def catchFromDict {ν : Type} (io : NumIO ν) (d : CatchDict ν) : Except Err (Catchment ν) :=
  match fromDict io d.flowdir with
  | .error e => .error e
  | .ok fd =>
    .ok { name := d.name, flowdir := { fd with dtype := int64 }, outlet := d.outlet, inlets := d.inlets,
          area := some d.area, filled := some d.filled }

/-! ## 10. clone independence: grids as handles into an array store -/

/-- the arrays that exist; `_data` of a grid is an index into it -/
abbrev Store := List (List (List Nat))

/-- a grid object as far as its data are concerned: which array it holds -/
structure Handle where
  arr : Nat
  deriving DecidableEq, Repr

/-- operations that change the data seen through a handle -/
inductive SOp where
  /-- `grid[idx] = w` : in-place write into the grid's array (`_data.flat[idx] = …`) -/
  | setItem (idx : Nat) (w : Nat)
  /-- `grid.fill(w)` : in-place -/
  | fill (w : Nat)
  /-- `grid.data = rows` : rebinds `_data` to a fresh array when `rows` has the shape of the grid (= the shape of the
  array it holds); an array of another shape is rejected and nothing is rebound -/
  | setData (rows : List (List Nat))

def setFlat (rows : List (List Nat)) (idx w : Nat) : List (List Nat) :=
  match rows with
  | [] => []
  | r :: rs => if idx < r.length then r.set idx w :: rs else r :: setFlat rs (idx - r.length) w

def Store.read (s : Store) (h : Handle) : List (List Nat) := s.getD h.arr []

def SOp.apply (s : Store) (h : Handle) : SOp → Store × Handle
  | .setItem idx w => (s.set h.arr (setFlat (s.read h) idx w), h)
  | .fill w => (s.set h.arr ((s.read h).map fun r => r.map fun _ => w), h)
  | .setData rows =>
    if rows.map List.length = (s.read h).map List.length then (s ++ [rows], ⟨s.length⟩) else (s, h)

/-- `clone()`: `deepcopy` allocates a new array with the same content -/
def Store.clone (s : Store) (h : Handle) : Store × Handle := (s ++ [s.read h], ⟨s.length⟩)

/-- `clone(dtype)`: the deep copy's array is replaced by `astype(dtype)`, always a new array — also when
`dtype` is the dtype the grid already has (`f` is then the identity) -/
def Store.cloneMap (s : Store) (h : Handle) (f : Nat → Nat) : Store × Handle :=
  (s ++ [(s.read h).map fun r => r.map f], ⟨s.length⟩)

def applyAll (s : Store) (h : Handle) : List SOp → Store × Handle
  | [] => (s, h)
  | op :: ops => let (s', h') := op.apply s h; applyAll s' h' ops

/-! ## 11. histories: in-place edits and attribute re-assignments between two exports -/

/-- what a caller can do to a grid object between `save` / `to_dict` / `clone` / `clip` calls -/
inductive Edit (ν : Type) where
  /-- `grid[idx] = scalar` (`_data.flat[idx] = …`, in place; `mindata/maxdata` are not applied) -/
  | item (idx w : Nat)
  /-- `grid.fill(scalar)` (in place) -/
  | fill (w : Nat)
  /-- `grid.data = rows` (the setter: shape check, `_clipdata`, fresh array) -/
  | data (rows : List (List Nat))
  /-- `grid.name = s` -/
  | name (s : Str)
  /-- `grid.comment = s` -/
  | comment (s : Str)
  /-- `grid.xllcorner, grid.yllcorner, grid.cellsize = …` -/
  | georef (xll yll csz : ν)
  /-- `grid.nodata = scalar of the grid's dtype` -/
  | nodata (w : Nat)

def applyEdit {ν : Type} (g : Grid ν) : Edit ν → Except Err (Grid ν)
  | .item idx w => .ok { g with data := setFlat g.data idx w }
  | .fill w => .ok { g with data := g.data.map fun r => r.map fun _ => w }
  | .data rows => setData g rows
  | .name s => .ok { g with name := s }
  | .comment s => .ok { g with comment := s }
  | .georef x y c => .ok { g with xll := x, yll := y, csz := c }
  | .nodata w => .ok { g with nodata := w }

def applyEdits {ν : Type} : Grid ν → List (Edit ν) → Except Err (Grid ν)
  | g, [] => .ok g
  | g, e :: es => match applyEdit g e with
    | .error err => .error err
    | .ok g' => applyEdits g' es

/-! ## 12. the grid object as a state machine: every public mutator, accepted or REJECTED

`step` returns the state after the call and the error the call raised, if any. A rejected call leaves the object
as it was — except `mindata / maxdata`, which store the new bound before they compare the two bounds (the state
after the `ValueError` holds the new bound; the data are not clipped). The accessors (`save`, `to_dict`, `clone`,
`clip`, `__getitem__`) are functions of the state and are not operations of the machine. -/

/-- `self._data.flat[np.int64(index)]`: a negative index counts from the end; outside `[-size, size)` numpy raises
`IndexError` -/
def flatIndex (size : Nat) (idx : Int) : Option Nat :=
  if 0 ≤ idx ∧ idx < (size : Int) then some idx.toNat
  else if idx < 0 ∧ -(size : Int) ≤ idx then some (idx + (size : Int)).toNat
  else none

/-- `grid[idx]` (`__getitem__`): the word at the flat index, `IndexError` outside `[-size, size)` -/
def getItem {ν : Type} (g : Grid ν) (idx : Int) : Except Err Nat :=
  match flatIndex g.data.flatten.length idx with
  | some i => match g.data.flatten[i]? with
    | some w => .ok w
    | none => .error .badIndex
  | none => .error .badIndex

/-- `a > b` for `a = _mindata`, `b = _maxdata` (`none` = the python floats `-inf` / `+inf` of `__init__`; a
comparison with a NaN is false) -/
def boundGt (t : DType) (lo hi : Option Int) : Bool :=
  match lo, hi with
  | some l, some h =>
    (match t.kind with
     | .float => !isNaNW t l.toNat && !isNaNW t h.toNat && decide (floatKey t h.toNat < floatKey t l.toNat)
     | _ => decide (h < l))
  | _, _ => false

/-- the `mindata` setter: `_mindata = dtype(value)`; `ValueError` if `_mindata > _maxdata` (the new bound stays);
else `_data = np.maximum(_data, _mindata)` (no `isfinite` test here) -/
def setMin {ν : Type} (io : NumIO ν) (g : Grid ν) (v : NVal ν) : Grid ν × Option Err :=
  match nodataWord io g.dtype v with
  | .error e => (g, some e)
  | .ok w =>
    let b := boundOfWord g.dtype w
    let g1 := { g with lo := some b }
    if boundGt g.dtype g1.lo g1.hi then (g1, some .badBounds)
    else ({ g1 with data := g.data.map fun r => r.map (maxWord g.dtype b) }, none)

/-- the `maxdata` setter -/
def setMax {ν : Type} (io : NumIO ν) (g : Grid ν) (v : NVal ν) : Grid ν × Option Err :=
  match nodataWord io g.dtype v with
  | .error e => (g, some e)
  | .ok w =>
    let b := boundOfWord g.dtype w
    let g1 := { g with hi := some b }
    if boundGt g.dtype g1.lo g1.hi then (g1, some .badBounds)
    else ({ g1 with data := g.data.map fun r => r.map (minWord g.dtype b) }, none)

/-- a call that changes (or tries to change) a grid object -/
inductive Op (ν : Type) where
  /-- one of the edits of §11; `data rows` with `rows` of ANY shape (the setter rejects a wrong one) -/
  | edit (e : Edit ν)
  /-- `grid[idx] = scalar` for any python index (`IndexError` outside `[-size, size)`) -/
  | itemAt (idx : Int) (w : Nat)
  /-- `grid.fill(value)`: `self.dtype(value)` may raise -/
  | fillVal (v : NVal ν)
  /-- `grid.data = array` with more than two dimensions (`ValueError` before anything is looked at) -/
  | dataND
  /-- `grid.nodata = value`: `self.dtype(value)` may raise -/
  | nodataVal (v : NVal ν)
  /-- `grid.mindata = value` -/
  | mindata (v : NVal ν)
  /-- `grid.maxdata = value` -/
  | maxdata (v : NVal ν)
  /-- `grid.load(stream, byteorder)` -/
  | load (bo : ByteOrder) (bytes : List UInt8)

def step {ν : Type} (io : NumIO ν) (g : Grid ν) : Op ν → Grid ν × Option Err
  | .edit e =>
    match applyEdit g e with
    | .ok g' => (g', none)
    | .error err => (g, some err)
  | .itemAt idx w =>
    match flatIndex g.data.flatten.length idx with
    | some i => ({ g with data := setFlat g.data i w }, none)
    | none => (g, some .badIndex)
  | .fillVal v =>
    match nodataWord io g.dtype v with
    | .ok w => ({ g with data := g.data.map fun r => r.map fun _ => w }, none)
    | .error e => (g, some e)
  | .dataND => (g, some .wrongCount)
  | .nodataVal v =>
    match nodataWord io g.dtype v with
    | .ok w => ({ g with nodata := w }, none)
    | .error e => (g, some e)
  | .mindata v => setMin io g v
  | .maxdata v => setMax io g v
  | .load bo bytes =>
    match load g bo bytes with
    | .ok g' => (g', none)
    | .error e => (g, some e)

/-- a history: the state after all calls and, call by call, whether it was rejected -/
def run {ν : Type} (io : NumIO ν) : Grid ν → List (Op ν) → Grid ν × List (Option Err)
  | g, [] => (g, [])
  | g, op :: ops =>
    let (g1, r) := step io g op
    let (g2, rs) := run io g1 ops
    (g2, r :: rs)

/-! ### catchments as a state machine -/

/-- `delineate_area(outlet, inlets)`: `res` is what the C kernel and the hole filling return (property C06), `none`
when the kernel reports an error -/
inductive COp where
  | delineate (outlet : Int) (inlets : Option (List Int)) (res : Option (List Int × List Int))

/-- the outlet and the inlets (`None` when none are given: the inlets of an earlier call do not stay) are stored first;
on an error the areas are reset to `None` and `ValueError` is raised -/
def cstep {ν : Type} (c : Catchment ν) : COp → Catchment ν × Option Err
  | .delineate o inl res =>
    let c1 := { c with outlet := some o, inlets := inl }
    match res with
    | none => ({ c1 with area := none, filled := none }, some .delineationFailed)
    | some (a, f) => ({ c1 with area := some a, filled := some f }, none)

def crun {ν : Type} : Catchment ν → List COp → Catchment ν
  | c, [] => c
  | c, op :: ops => crun (cstep c op).1 ops

/-! ### `Grid.from_dict` on a dictionary with optional keys missing -/

/-- a dictionary given to `from_dict`: `name` and `ncols` are looked up unconditionally (`KeyError`), every other key
is optional and falls back on the default of `Grid.__init__` -/
structure GridDictP (ν : Type) where
  name : Option Str
  ncols : Option Int
  nrows : Option Int
  csz : Option ν
  xll : Option ν
  yll : Option ν
  dtype : Option Str
  nodata : Option (NVal ν)
  comment : Option Str

def fromDictP {ν : Type} (io : NumIO ν) (d : GridDictP ν) : Except Err (Grid ν) :=
  match d.name, d.ncols with
  | some name, some ncols =>
    let tE : Except Err DType := match d.dtype with
      | none => .ok ⟨.float, 8⟩
      | some s => match dtypeOfStr s with
        | some (_, t) => .ok t
        | none => .error .badDtype
    match tE with
    | .error e => .error e
    | .ok t =>
      mkGrid io name ncols (d.nrows.getD ncols) (d.csz.getD (io.ofInt 1)) (d.xll.getD (io.ofInt 0))
        (d.yll.getD (io.ofInt 0)) t (d.nodata.getD (.int 0)) (d.comment.getD [])
  | _, _ => .error .missingKey

/-- the dictionary `to_dict` returns, seen as an argument of `from_dict`: every key is there -/
def GridDict.full {ν : Type} (d : GridDict ν) : GridDictP ν :=
  { name := some d.name, ncols := some d.ncols, nrows := some d.nrows, csz := some d.csz, xll := some d.xll,
    yll := some d.yll, dtype := some d.dtype, nodata := some (.text d.nodata), comment := some d.comment }

/-! ## 13. file names: `save(filename)`, `from_header(path)`, `from_zip(archive, member)`

A path is a directory and a final component `name` (no `/` in it); a file system maps paths to files. -/

inductive File where
  | text (s : Str)
  | bin (b : List UInt8)

abbrev FS := List (Str × File)

def pathJoin (dir name : Str) : Str := dir ++ '/' :: name

/-- `str.endswith` -/
def endsWith (s suf : Str) : Bool := startsWith s.reverse suf.reverse

/-- `PurePath(name).stem` (python 3.12): the part before the last dot, provided that dot is neither the first nor the
last character -/
def stemOf (name : Str) : Str :=
  let r := name.reverse
  let suf := r.takeWhile (fun c => c != '.')
  match r.dropWhile (fun c => c != '.') with
  | [] => name
  | _ :: pre => if pre ≠ [] ∧ suf ≠ [] then pre.reverse else name

/-- `os.path.splitext(name)[0]`: the last dot starts the extension unless only dots precede it -/
def splitextRoot (name : Str) : Str :=
  match name.reverse.dropWhile (fun c => c != '.') with
  | [] => name
  | _ :: pre => if pre.all (fun c => c == '.') then name else pre.reverse

/-- `Grid.save(dir/name)`: the name must end with `bil` (no dot required); the header goes to the same name with the
last three characters replaced by `hdr` (`re.sub("bil$", "hdr", filename)`), the data to the name itself -/
def saveFS {ν : Type} (io : NumIO ν) (fs : FS) (dir name : Str) (g : Grid ν) : Except Err FS :=
  if !endsWith name "bil".toList then .error .badFilename else
  match save io g with
  | .error e => .error e
  | .ok (h, bytes) =>
    .ok (dictSet (dictSet fs (pathJoin dir (name.take (name.length - 3) ++ "hdr".toList)) (.text h))
          (pathJoin dir name) (.bin bytes))

/-- `Grid.from_header(dir/name)` for the header OR the data file: both names are rebuilt from `Path.stem`; a missing
header is a `ValueError`, a missing data file gives the grid of the header alone; the default grid name is the base
name of the header file without its extension -/
def fromHeaderFS {ν : Type} (io : NumIO ν) (fs : FS) (dir name : Str) : Except Err (Grid ν) :=
  let stem := stemOf name
  match lookup fs (pathJoin dir (stem ++ ".hdr".toList)) with
  | some (.text h) =>
    let data : Option (List UInt8) := match lookup fs (pathJoin dir (stem ++ ".bil".toList)) with
      | some (.bin b) => some b
      | _ => none
    fromStream io (splitextRoot (stem ++ ".hdr".toList)) h data
  | _ => .error .missingFile

/-- `Grid.from_zip(archive, dir/name)`: member names from `os.path.splitext`; a missing header member is a `KeyError`;
the stream has no name (`no_name`) -/
def fromZipFS {ν : Type} (io : NumIO ν) (archive : FS) (dir name : Str) : Except Err (Grid ν) :=
  let base := splitextRoot name
  match lookup archive (pathJoin dir (base ++ ".hdr".toList)) with
  | some (.text h) =>
    let data : Option (List UInt8) := match lookup archive (pathJoin dir (base ++ ".bil".toList)) with
      | some (.bin b) => some b
      | _ => none
    fromStream io "no_name".toList h data
  | _ => .error .missingKey

end HydroVerif.C13
