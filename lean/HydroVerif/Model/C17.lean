/-
C17 — model of `hydrodiy/stat/c_armodels.c` (`c_armodel_sim`, `c_armodel_residual`) and of the two
wrappers in `hydrodiy/stat/armodels.py`.  No Mathlib.  Everything is total and computable; the
driver runs these definitions at `Float`, the theorems instantiate them at a commutative ring.

Conventions
* `α` is the numeric type; only `+ - * 0` are used (core notation classes).
* a value the caller hands over that may be NaN is an `Option α` (`none` = NaN): coefficients,
  mean, initial value, innovations, inputs.
* `nan : α → Bool` is the C `isnan` applied to *computed* values (lag buffer entries in the
  simulation kernel, `inputs[i]-sim_mean` in the residual kernel).  At `Float` it is `Float.isNaN`
  (reachable through `inf-inf`, `0*inf` after overflow); in exact arithmetic no computed value is
  NaN and the theorems take `nan = fun _ => false`.
* the lag buffer `prev_centered[0..nparams-1]` is a `Vector α p` (`p = nparams`); the two inner loops
  `for(k=nparams-1; k>=0; k--)` are written index by index, exactly as in the C text: read
  `buf[k]`, update the accumulator, then overwrite `buf[k]` with `buf[k-1]` (`k>0`) or with the new
  centred value (`k=0`).
-/
namespace HydroVerif.C17

/-- which guard of the kernel fired (`ARMODEL_ERROR + __LINE__` in C, `ValueError` in Python) -/
inductive Err | badOrder | nanParam | nanMean | nanIni
  deriving DecidableEq, Repr

/-- `#define ARMODEL_NPARAMSMAX 10` -/
def nparamsMax : Nat := 10

/-- all coefficients present, or `none` when one of them is NaN -/
def allSome {α} : List (Option α) → Option (List α)
  | [] => some []
  | none :: _ => none
  | some a :: t => match allSome t with
    | none => none
    | some l => some (a :: l)

/-- the coefficient array `params[0..nparams-1]` -/
def toVec {α} (ps : List α) : Vector α ps.length := Vector.mk ps.toArray List.size_toArray

section
variable {α : Type} [Add α] [Sub α] [Mul α] [OfNat α 0]

/-- the four guards at the top of both kernels, in the order of the C text:
order outside `1..10`, NaN coefficient, NaN mean, NaN initial value -/
def validate (params : List (Option α)) (mean ini : Option α) : Except Err (List α × α × α) :=
  if nparamsMax < params.length || params.length == 0 then .error .badOrder
  else match allSome params with
    | none => .error .nanParam
    | some ps => match mean with
      | none => .error .nanMean
      | some m => match ini with
        | none => .error .nanIni
        | some i => .ok (ps, m, i)

/-! ### simulation kernel -/

/-- inner loop of `c_armodel_sim`, `k+1` iterations left (current index `k`):
```
if(!isnan(prev_centered[k])) tmp += params[k]*prev_centered[k];
prev_centered[k] = k>0 ? prev_centered[k-1] : tmp;
``` -/
def simLoop (nan : α → Bool) {p : Nat} (ps : Vector α p) :
    (k : Nat) → k ≤ p → α → Vector α p → α × Vector α p
  | 0, _, tmp, buf => (tmp, buf)
  | k+1, h, tmp, buf =>
    let tmp' := if nan buf[k] then tmp else tmp + ps[k] * buf[k]
    let buf' := buf.set k (if 0 < k then buf[k-1] else tmp')
    simLoop nan ps k (Nat.le_of_succ_le h) tmp' buf'

/-- outer loop of `c_armodel_sim`: NaN innovation ↦ 0, one pass of the inner loop,
`outputs[i] = tmp + sim_mean` -/
def simRun (nan : α → Bool) {p : Nat} (ps : Vector α p) (m : α) :
    Vector α p → List (Option α) → List α
  | _, [] => []
  | buf, e :: es =>
    let value : α := match e with
      | none => 0
      | some x => x
    let r := simLoop nan ps p (Nat.le_refl p) value buf
    (r.1 + m) :: simRun nan ps m r.2 es

/-- the lag buffer `prev_centered` as the simulation kernel leaves it after the whole series
(same loop as `simRun`, keeping the buffer instead of the outputs) -/
def simBuf (nan : α → Bool) {p : Nat} (ps : Vector α p) :
    Vector α p → List (Option α) → Vector α p
  | buf, [] => buf
  | buf, e :: es =>
    let value : α := match e with
      | none => 0
      | some x => x
    simBuf nan ps (simLoop nan ps p (Nat.le_refl p) value buf).2 es

/-- `c_armodel_sim`: guards, buffer initialised to `sim_ini - sim_mean`, then the series loop -/
def sim (nan : α → Bool) (params : List (Option α)) (mean ini : Option α)
    (innov : List (Option α)) : Except Err (List α) :=
  match validate params mean ini with
  | .error e => .error e
  | .ok (ps, m, i) =>
    .ok (simRun nan (toVec ps) m (Vector.replicate ps.length (i - m)) innov)

/-! ### residual kernel -/

/-- prediction used for a missing input, ascending loop
`value = 0; for(k=0; k<nparams; k++) value += params[k]*prev_centered[k];`
(`n` iterations left, current index `p - n`) -/
def predLoop {p : Nat} (ps buf : Vector α p) : (n : Nat) → n ≤ p → α → α
  | 0, _, value => value
  | n+1, h, value =>
    predLoop ps buf n (Nat.le_of_succ_le h)
      (value + ps[p - (n+1)]'(by omega) * buf[p - (n+1)]'(by omega))

/-- inner loop of `c_armodel_residual`, `k+1` iterations left (current index `k`):
```
tmp -= params[k]*prev_centered[k];
prev_centered[k] = k>0 ? prev_centered[k-1] : value;
``` -/
def resLoop {p : Nat} (ps : Vector α p) (value : α) :
    (k : Nat) → k ≤ p → α → Vector α p → α × Vector α p
  | 0, _, tmp, buf => (tmp, buf)
  | k+1, h, tmp, buf =>
    let tmp' := tmp - ps[k] * buf[k]
    let buf' := buf.set k (if 0 < k then buf[k-1] else value)
    resLoop ps value k (Nat.le_of_succ_le h) tmp' buf'

/-- `value = inputs[i]-sim_mean; if(isnan(value)) value = <prediction>` -/
def centred (nan : α → Bool) {p : Nat} (ps buf : Vector α p) (m : α) (x : Option α) : α :=
  match x with
  | none => predLoop ps buf p (Nat.le_refl p) 0
  | some x =>
    let v := x - m
    if nan v then predLoop ps buf p (Nat.le_refl p) 0 else v

/-- outer loop of `c_armodel_residual` -/
def resRun (nan : α → Bool) {p : Nat} (ps : Vector α p) (m : α) :
    Vector α p → List (Option α) → List α
  | _, [] => []
  | buf, x :: xs =>
    let value := centred nan ps buf m x
    let r := resLoop ps value p (Nat.le_refl p) value buf
    r.1 :: resRun nan ps m r.2 xs

/-- the lag buffer `prev_centered` as the residual kernel leaves it after the whole series -/
def resBuf (nan : α → Bool) {p : Nat} (ps : Vector α p) (m : α) :
    Vector α p → List (Option α) → Vector α p
  | buf, [] => buf
  | buf, x :: xs =>
    let value := centred nan ps buf m x
    resBuf nan ps m (resLoop ps value p (Nat.le_refl p) value buf).2 xs

/-- `c_armodel_residual` -/
def residual (nan : α → Bool) (params : List (Option α)) (mean ini : Option α)
    (inputs : List (Option α)) : Except Err (List α) :=
  match validate params mean ini with
  | .error e => .error e
  | .ok (ps, m, i) =>
    .ok (resRun nan (toVec ps) m (Vector.replicate ps.length (i - m)) inputs)

/-! ### the Python wrappers (`armodels.py`): defaults of `sim_mean` / `sim_ini`

An argument left at its Python default `None` is the outer `none`; an explicit NaN is `some none`. -/

/-- the mean a call stands for: the argument when given, else the wrapper's fallback
(`0.` in `armodel_sim`, `numpy.nanmean(inputs)` in `armodel_residual`) -/
def resolveMean (fallback : Option α) (meanArg : Option (Option α)) : Option α :=
  match meanArg with
  | none => fallback
  | some m => m

/-- `if sim_ini is None: sim_ini = sim_mean` -/
def resolveIni (mean : Option α) (iniArg : Option (Option α)) : Option α :=
  match iniArg with
  | none => mean
  | some i => i

/-- the `params` argument: "float or np.ndarray" — `np.atleast_1d(params)` turns a scalar into order 1 -/
inductive ParamArg (α : Type) where
  | scalar (x : Option α)
  | array (xs : List (Option α))

/-- `np.atleast_1d(params).astype(np.float64)` -/
def paramsOf : ParamArg α → List (Option α)
  | .scalar x => [x]
  | .array xs => xs

/-- `armodel_sim(params, innov, sim_mean=0., sim_ini=None)`: `sim_ini` defaults to `sim_mean` -/
def pySim (nan : α → Bool) (params : List (Option α)) (innov : List (Option α))
    (meanArg : Option (Option α)) (iniArg : Option (Option α)) : Except Err (List α) :=
  let mean := resolveMean (some 0) meanArg
  sim nan params mean (resolveIni mean iniArg) innov

/-- `armodel_residual(params, inputs, sim_mean=None, sim_ini=None)`: `sim_mean` defaults to
`numpy.nanmean(inputs)` (its value `nanmean` is a parameter here, see `pyResidualD`),
`sim_ini` defaults to the mean actually used -/
def pyResidual (nan : α → Bool) (params : List (Option α)) (inputs : List (Option α))
    (nanmean : Option α) (meanArg : Option (Option α)) (iniArg : Option (Option α)) :
    Except Err (List α) :=
  let mean := resolveMean nanmean meanArg
  residual nan params mean (resolveIni mean iniArg) inputs

end

section
variable {α : Type} [Add α] [Sub α] [Mul α] [Div α] [OfNat α 0] [NatCast α]

/-- sum of the present values, in order, from 0 -/
def dataSum (xs : List (Option α)) : α :=
  xs.foldl (fun acc x => match x with
    | none => acc
    | some v => acc + v) 0

/-- number of present values -/
def dataCount (xs : List (Option α)) : Nat := (xs.filter Option.isSome).length

/-- `numpy.nanmean(inputs)`: mean of the present values; NaN (`none`) when there is none (empty or
all-missing series), or when the quotient itself is NaN (`inf-inf` at `Float`).  numpy sums pairwise,
this sums in order: same value in exact arithmetic, a few ulp apart at `Float`. -/
def dataMean (nan : α → Bool) (xs : List (Option α)) : Option α :=
  if dataCount xs = 0 then none
  else
    let v := dataSum xs / (dataCount xs : α)
    if nan v then none else some v

/-- `armodel_residual` with the data mean computed by the model -/
def pyResidualD (nan : α → Bool) (params : List (Option α)) (inputs : List (Option α))
    (meanArg : Option (Option α)) (iniArg : Option (Option α)) : Except Err (List α) :=
  pyResidual nan params inputs (dataMean nan inputs) meanArg iniArg

end

end HydroVerif.C17
